(* L0 model of group admission: group/group.go  add / AddClient / autoLockKick /
   DelClient / SetLocked (and Shutdown = SetLocked true; kick of a snapshot).
   Executable; no proofs here.

   One model step = one critical section of Group.mu in the Go code:

     SAdd r           group.Add(name, nil): the description is replaced when the
                      file changed (r = Some d), then autoLockKick.  Periodic
                      group.Update, the websocket "join" handler and AddClient
                      itself all go through it.
     SAddClient now j the body of AddClient AFTER its call of Add (a separate
                      critical section): GetPermission, the non-operator
                      checks, empty id, duplicate id, insertion, announcements.
                      A join is the two steps  SAdd r ; SAddClient now j  and
                      any other step may run between the two.
     SDelClient id u  DelClient(c): identity check, removal, autoLockKick
                      (one critical section since ba2fd43).
     SSetLocked b m   Group.SetLocked.

   Read-only accessors (Locked, ClientCount, GetClients, Range) are atomic
   reads of the state between two steps and need no step of their own.
   autoLockKick's goroutine (autokick) and kickall call Client.Kick on a
   snapshot of the members later and outside the lock: the snapshot is the
   list of [EKick] events of the step; a kicked client reacts by leaving,
   which is a later [SDelClient] step of that client (or never happens).

   Abstractions (what is compared with the code by the `group` driver):
   * a member is (id, object identity uid, has "op", has "system"); only the
     presence of "op" / "system" in Permissions() is ever consulted by these
     functions;
   * Description.GetPermission is the function [d_auth] of the description
     from a credential code to  None (error) | Some is_operator;
   * time is the input [now] of the admission step; not-before / expires are
     optional instants on the same scale;
   * strings (client ids, lock messages) are byte lists.
   The model describes ONE *Group object from its creation by the first add
   (state [created d]) on; a group deleted from the table and created again is
   a new history.  *)
From Coq Require Import ZArith List Bool.
Import ListNotations.
Open Scope Z_scope.

Definition str := list Z.

Fixpoint str_eqb (a b : str) : bool :=
  match a, b with
  | [], [] => true
  | x :: a', y :: b' => (x =? y) && str_eqb a' b'
  | _, _ => false
  end.

Definition str_empty (a : str) : bool := match a with [] => true | _ => false end.

(* "this group is locked" *)
Definition locked_msg : str :=
  [116;104;105;115;32;103;114;111;117;112;32;105;115;32;108;111;99;107;101;100].

Record client := mkClient {
  c_uid : Z;       (* identity of the Client object *)
  c_op  : bool;    (* slices.Contains(c.Permissions(), "op") *)
  c_sys : bool     (* slices.Contains(c.Permissions(), "system") at its join *)
}.

Record desc := mkDesc {
  d_max_clients : Z;              (* MaxClients, 0 = unlimited *)
  d_autolock    : bool;
  d_autokick    : bool;
  d_not_before  : option Z;
  d_expires     : option Z;
  d_auth        : Z -> option bool  (* GetPermission: None = error, Some op? *)
}.

Record group := mkGroup {
  g_locked  : option str;            (* Group.locked *)
  g_clients : list (str * client);   (* Group.clients, in insertion order *)
  g_desc    : desc                   (* Group.description *)
}.

Inductive jkind := KJoin | KLeave | KChange.

Inductive event :=
| EJoined (uid : Z) (k : jkind)                (* c.Joined(group, kind) *)
| EPush (target : Z) (add : bool) (about : str) (* target.PushClient(group, "add"/"delete", about, ...) *)
| EKick (uid : Z).                             (* c.Kick(...) scheduled *)

Inductive result :=
| RAccepted
| RAuth                (* GetPermission returned an error *)
| RLocked (m : str)    (* UserError(lock message) *)
| RNotOpen             (* "this group is not open yet" *)
| RClosed              (* "this group is closed" *)
| RNoOps               (* "there are no operators in this group" *)
| RTooMany             (* "too many users" *)
| REmptyId             (* "client has empty id" *)
| RDupId               (* ProtocolError("duplicate client id") *)
| RDone                (* steps without a result *)
| RUnknown.            (* DelClient of a client that is not the member *)

Record out := mkOut { o_res : result; o_events : list event }.

Record joiner := mkJoiner {
  j_uid   : Z;
  j_id    : str;
  j_sys   : bool;     (* its Permissions() contain "system" before the join *)
  j_sysop : bool;     (* ... and contain "op" (only read when j_sys) *)
  j_cred  : Z         (* credentials presented *)
}.

Inductive op :=
| SAdd (r : option desc)
| SAddClient (now : Z) (j : joiner)
| SDelClient (id : str) (uid : Z)
| SSetLocked (b : bool) (m : str).

Definition ids (cl : list (str * client)) : list str := map fst cl.

Definition has_op (cl : list (str * client)) : bool :=
  existsb (fun p => c_op (snd p)) cl.

Fixpoint lookup (id : str) (cl : list (str * client)) : option client :=
  match cl with
  | [] => None
  | (i, c) :: cl' => if str_eqb i id then Some c else lookup id cl'
  end.

Fixpoint remove_id (id : str) (cl : list (str * client)) : list (str * client) :=
  match cl with
  | [] => []
  | (i, c) :: cl' => if str_eqb i id then remove_id id cl' else (i, c) :: remove_id id cl'
  end.

Definition is_none {A} (o : option A) : bool := match o with None => true | Some _ => false end.

Definition zlength {A} (l : list A) : Z := Z.of_nat (length l).

Definition all_joined (k : jkind) (cl : list (str * client)) : list event :=
  map (fun p => EJoined (c_uid (snd p)) k) cl.
Definition all_kicked (cl : list (str * client)) : list event :=
  map (fun p => EKick (c_uid (snd p))) cl.

(* autoLockKick, called locked *)
Definition auto_lock_kick (g : group) : group * list event :=
  let d := g_desc g in
  let want_lock := d_autolock d && is_none (g_locked g) in
  if negb want_lock && negb (d_autokick d) then (g, [])
  else if has_op (g_clients g) then (g, [])
  else
    let g1 := if want_lock then mkGroup (Some locked_msg) (g_clients g) d else g in
    let ev1 := if want_lock then all_joined KChange (g_clients g) else [] in
    let ev2 := if d_autokick d then all_kicked (g_clients g) else [] in
    (g1, ev1 ++ ev2).

(* add(name, nil) on an existing group *)
Definition do_add (g : group) (r : option desc) : group * out :=
  let g0 := match r with
            | Some d => mkGroup (g_locked g) (g_clients g) d
            | None => g
            end in
  let '(g1, ev) := auto_lock_kick g0 in
  let notify := match r with
                | Some _ => all_joined KChange (g_clients g)
                | None => []
                end in
  (g1, mkOut RDone (ev ++ notify)).

(* the checks of AddClient that precede the id checks: Some op? or the error *)
Definition admission_check (g : group) (now : Z) (j : joiner) : result + bool :=
  let d := g_desc g in
  if j_sys j then inr (j_sysop j)
  else
    match d_auth d (j_cred j) with
    | None => inl RAuth
    | Some true => inr true
    | Some false =>
        match g_locked g with
        | Some m => inl (RLocked (if str_empty m then locked_msg else m))
        | None =>
            if match d_not_before d with Some nb => now <? nb | None => false end
            then inl RNotOpen
            else if match d_expires d with Some e => e <? now | None => false end
            then inl RClosed
            else if d_autokick d && negb (has_op (g_clients g)) then inl RNoOps
            else if (0 <? d_max_clients d) && (d_max_clients d <=? zlength (g_clients g))
            then inl RTooMany
            else inr false
        end
    end.

Definition announce (j : joiner) (cl : list (str * client)) : list event :=
  EJoined (j_uid j) KJoin :: EPush (j_uid j) true (j_id j) ::
  flat_map (fun p => [EPush (j_uid j) true (fst p); EPush (c_uid (snd p)) true (j_id j)]) cl.

Definition add_client_locked (g : group) (now : Z) (j : joiner) : group * out :=
  match admission_check g now j with
  | inl e => (g, mkOut e [])
  | inr isop =>
      if str_empty (j_id j) then (g, mkOut REmptyId [])
      else match lookup (j_id j) (g_clients g) with
           | Some _ => (g, mkOut RDupId [])
           | None =>
               (mkGroup (g_locked g)
                        (g_clients g ++ [(j_id j, mkClient (j_uid j) isop (j_sys j))])
                        (g_desc g),
                mkOut RAccepted (announce j (g_clients g)))
           end
  end.

Definition del_client (g : group) (id : str) (uid : Z) : group * out :=
  match lookup id (g_clients g) with
  | None => (g, mkOut RUnknown [])
  | Some c =>
      if c_uid c =? uid then
        let cl := remove_id id (g_clients g) in
        let '(g1, ev) := auto_lock_kick (mkGroup (g_locked g) cl (g_desc g)) in
        (g1, mkOut RDone (ev ++ EJoined uid KLeave ::
                          map (fun p => EPush (c_uid (snd p)) false id) cl))
      else (g, mkOut RUnknown [])
  end.

Definition set_locked (g : group) (b : bool) (m : str) : group * out :=
  (mkGroup (if b then Some m else None) (g_clients g) (g_desc g),
   mkOut RDone (all_joined KChange (g_clients g))).

Definition step (g : group) (s : op) : group * out :=
  match s with
  | SAdd r => do_add g r
  | SAddClient now j => add_client_locked g now j
  | SDelClient id uid => del_client g id uid
  | SSetLocked b m => set_locked g b m
  end.

(* the Group object as first published by add: created with the description
   just read, no members, unlocked, then autoLockKick, all inside groups.mu *)
Definition fresh (d : desc) : group := mkGroup None [] d.
Definition created (d : desc) : group := fst (do_add (fresh d) None).

Fixpoint run (g : group) (l : list op) : group :=
  match l with
  | [] => g
  | s :: l' => run (fst (step g s)) l'
  end.

(* the steps of a schedule with their pre-state, output and post-state *)
Fixpoint exec (g : group) (l : list op) : list (group * op * out * group) :=
  match l with
  | [] => []
  | s :: l' => let r := step g s in (g, s, snd r, fst r) :: exec (fst r) l'
  end.

(* ------------------------------------------------------------------------
   The group table (groups.groups) for ONE name, and the description file.

   The admission rules are stated for "the group" a client names when it
   joins; the code keeps one *Group object per name in a table, creates it in
   add() when the name is not registered, and drops it from the table
   - in add(), when the description changed and cannot be read (missing,
     half-written, unparsable), through deleteUnlocked: only if the object
     has no members;
   - in Delete(name) (group.Update, for an expired idle group): only if the
     object has no members.
   A joiner keeps the pointer that its own Add returned; since 35083b1 its
   entry step refuses an object that was dropped in between and the joiner
   looks the name up again.

     TWrite f   the description file is replaced (None: removed / unreadable)
     TAdd       add(name, nil) under groups.mu (+ Group.mu of the registered
                object): create, or reload, or fail
     TOn k s    one critical section s (not SAdd) of Group.mu of object k; the
                entry step gives up an object that is no longer registered
                (Group.deleted) and the joiner calls Add again
     TDelete    Delete(name)                                               *)

Record table := mkTable {
  t_objs  : list group;   (* every object ever created under the name, by index *)
  t_cur   : option nat;   (* the object registered under the name *)
  t_file  : option desc;  (* the file: None = missing or unreadable *)
  t_dirty : bool          (* the file differs from what the registered object last read *)
}.

Inductive top :=
| TWrite (f : option desc)
| TAdd
| TOn (k : nat) (s : op)
| TDelete.

Inductive tres :=
| TNone                              (* not a step of the code (bad pointer, SAdd through TOn) *)
| TWritten
| TAddOk (k : nat) (ev : list event) (* Add returned object k *)
| TAddErr                            (* Add returned an error *)
| TOut (o : out)
| TRetry                             (* AddClient found the object marked deleted: Add again *)
| TDeleted (b : bool).

Fixpoint upd {A} (k : nat) (x : A) (l : list A) : list A :=
  match l, k with
  | [], _ => []
  | _ :: l', O => x :: l'
  | y :: l', S k' => y :: upd k' x l'
  end.

Definition no_clients (g : group) : bool :=
  match g_clients g with [] => true | _ => false end.

Definition is_cur (t : table) (k : nat) : bool :=
  match t_cur t with Some k' => Nat.eqb k k' | None => false end.

(* [fixed] = the code since 35083b1: deleteUnlocked marks the object it drops
   (Group.deleted, under groups.mu and Group.mu), and AddClient, once it
   holds Group.mu, gives up a marked object and calls Add again.  An object
   is registered from its creation until it is dropped and never again, so
   "marked" is "not the registered object".  [fixed = false] is the code
   before that commit (kept for the regression witness only). *)
Definition tstep_gen (fixed : bool) (t : table) (s : top) : table * tres :=
  match s with
  | TWrite f => (mkTable (t_objs t) (t_cur t) f true, TWritten)
  | TAdd =>
      match t_cur t with
      | None =>
          match t_file t with
          | Some d => (mkTable (t_objs t ++ [created d]) (Some (length (t_objs t))) (t_file t) false,
                       TAddOk (length (t_objs t)) [])
          | None => (t, TAddErr)
          end
      | Some k =>
          match nth_error (t_objs t) k with
          | None => (t, TAddErr)
          | Some g =>
              if t_dirty t then
                match t_file t with
                | Some d =>
                    let r := do_add g (Some d) in
                    (mkTable (upd k (fst r) (t_objs t)) (t_cur t) (t_file t) false,
                     TAddOk k (o_events (snd r)))
                | None =>
                    (* deleteUnlocked: refuses while the object has members *)
                    if no_clients g
                    then (mkTable (t_objs t) None (t_file t) (t_dirty t), TAddErr)
                    else (t, TAddErr)
                end
              else
                let r := do_add g None in
                (mkTable (upd k (fst r) (t_objs t)) (t_cur t) (t_file t) false,
                 TAddOk k (o_events (snd r)))
          end
      end
  | TOn k s =>
      let run_it :=
        match nth_error (t_objs t) k with
        | None => (t, TNone)
        | Some g =>
            let r := step g s in
            (mkTable (upd k (fst r) (t_objs t)) (t_cur t) (t_file t) (t_dirty t), TOut (snd r))
        end in
      match s with
      | SAdd _ => (t, TNone)
      | SAddClient _ _ => if fixed && negb (is_cur t k) then (t, TRetry) else run_it
      | _ => run_it
      end
  | TDelete =>
      match t_cur t with
      | None => (t, TDeleted false)
      | Some k =>
          match nth_error (t_objs t) k with
          | None => (t, TDeleted false)
          | Some g =>
              if no_clients g
              then (mkTable (t_objs t) None (t_file t) (t_dirty t), TDeleted true)
              else (t, TDeleted false)
          end
      end
  end.

Definition tstep : table -> top -> table * tres := tstep_gen true.

Definition tinit : table := mkTable [] None None false.

Fixpoint trun (t : table) (l : list top) : table :=
  match l with
  | [] => t
  | s :: l' => trun (fst (tstep t s)) l'
  end.

(* the same for the code before 35083b1 *)
Fixpoint trun_prefix (t : table) (l : list top) : table :=
  match l with
  | [] => t
  | s :: l' => trun_prefix (fst (tstep_gen false t s)) l'
  end.

Fixpoint texec (t : table) (l : list top) : list (table * top * tres * table) :=
  match l with
  | [] => []
  | s :: l' => let r := tstep t s in (t, s, snd r, fst r) :: texec (fst r) l'
  end.

(* State transformers used only by the correspondence check (mirrors of the
   verif-tagged hooks in /repo); no theorem depends on them. *)
From Coq Require Import ZArith List Bool.
From Galene Require Import Lib.Word Model.PacketMap Model.Layers Model.Forward.
Import ListNotations.
Open Scope Z_scope.

(* packetmap.Map.VerifShift *)
Definition pm_shift (m : pmap) (dk dpid : Z) : bool * pmap :=
  match m_entries m with
  | None => (false, m)
  | Some [] => (false, m)
  | Some es =>
    (true,
     mkM (m_started m) (m_next m) (m_nextPid m) (w16 (m_delta m + dk)) (w16 (m_pidDelta m + dpid))
         (m_lastEntry m)
         (Some (map (fun e => mkE (e_first e) (e_count e) (w16 (e_delta e + dk)) (w16 (e_pidDelta e + dpid))) es)))
  end.

Definition f_shift (st : fstate) (dk dpid : Z) : bool * fstate :=
  let '(ok, m) := pm_shift (fs_map st) dk dpid in
  (ok, mkF (fs_layer st) m (fs_cache st) (fs_flags st) (fs_rate8 st) (fs_max st)).

(* L0 model of sdpfrag/sdpfrag.go: SDPFrag.Unmarshal, the parser of the body of
   a WHIP PATCH request (application/trickle-ice-sdpfrag, RFC 8840 section 9).
   The body is any byte string a client chooses (property C12).

   Transcribed statement by statement:
   - bufio.Scanner with the default split function (ScanLines) and the default
     buffer: lines end at '\n', one trailing '\r' is dropped, a final line
     without '\n' counts, and a line of more than 65535 bytes makes Scan return
     false (ErrTooLong, which Unmarshal does not look at): the lines before it
     have been processed, the rest of the body is ignored;
   - [mediaDescription] is a pointer that is nil until the first "m=" line.
     Every statement that goes through the pointer is written with [deref],
     which yields [None] (a nil dereference: a Go panic) when the pointer is
     nil; the nil tests of the Go code are the [match cur] around them.  The
     theorem of C12 says that the tests that are there suffice.
   Bytes are Z in 0..255; Go strings are byte lists. *)
From Coq Require Import ZArith List Bool.
Import ListNotations.
Open Scope Z_scope.

Definition bytes := list Z.

Record cand := mkCand {
  cd_cand : bytes;                (* Candidate *)
  cd_ufrag : option bytes;        (* UsernameFragment *string *)
  cd_mline : option Z;            (* SDPMLineIndex *uint16 *)
  cd_mid : option bytes           (* SDPMid *string *)
}.

Record md := mkMd {
  md_mline : bytes; md_mid : bytes; md_ufrag : bytes; md_pwd : bytes;
  md_cands : list cand
}.

Record frag := mkFrag {
  f_ufrag : bytes; f_pwd : bytes; f_cands : list cand; f_mds : list md
}.

Definition empty_frag : frag := mkFrag [] [] [] [].

(* ---- bufio.ScanLines with MaxScanTokenSize = 64 * 1024 *)

Definition max_token : Z := 65536.

(* list reversal in linear time (List.rev is quadratic; bodies are up to 1 MiB) *)
Definition frev (l : bytes) : bytes := rev_append l [].

(* the lines as the bytes between '\n's; [cur] is the current line, reversed *)
Fixpoint raw_lines (l cur : bytes) : list bytes :=
  match l with
  | [] => match cur with [] => [] | _ => [frev cur] end
  | x :: l' => if x =? 10 then frev cur :: raw_lines l' [] else raw_lines l' (x :: cur)
  end.

Definition zlen (l : bytes) : Z := Z.of_nat (length l).

(* Scan stops at the first line that does not fit in the buffer *)
Fixpoint fitting (ls : list bytes) : list bytes :=
  match ls with
  | [] => []
  | l :: ls' => if zlen l <? max_token then l :: fitting ls' else []
  end.

Definition drop_cr (l : bytes) : bytes :=
  match frev l with
  | y :: r => if y =? 13 then frev r else l
  | [] => l
  end.

Definition scan_lines (data : bytes) : list bytes :=
  map drop_cr (fitting (raw_lines data [])).

(* ---- bytes.HasPrefix and the slice l[len(prefix):] *)

Fixpoint strip_prefix (p l : bytes) : option bytes :=
  match p, l with
  | [], _ => Some l
  | _ :: _, [] => None
  | a :: p', b :: l' => if a =? b then strip_prefix p' l' else None
  end.

(* "a=ice-ufrag:" "a=ice-pwd:" "m=" "a=mid:" "a=candidate:" *)
Definition p_ufrag : bytes := [97;61;105;99;101;45;117;102;114;97;103;58].
Definition p_pwd : bytes := [97;61;105;99;101;45;112;119;100;58].
Definition p_m : bytes := [109;61].
Definition p_mid : bytes := [97;61;109;105;100;58].
Definition p_cand : bytes := [97;61;99;97;110;100;105;100;97;116;101;58].

(* ---- the pointer *)

(* *mediaDescription = f( *mediaDescription ): None is a nil dereference *)
Definition deref (cur : option md) (f : md -> md) : option (option md) :=
  match cur with
  | None => None
  | Some m => Some (Some (f m))
  end.

(* reading a field through the pointer *)
Definition deref_get {A} (cur : option md) (f : md -> A) : option A :=
  match cur with
  | None => None
  | Some m => Some (f m)
  end.

Inductive sres :=
| SCont (f : frag) (cur : option md)
| SErr                                (* return errors.New("unexpected mid") *)
| SPanic.

Definition set_ufrag (v : bytes) (m : md) := mkMd (md_mline m) (md_mid m) v (md_pwd m) (md_cands m).
Definition set_pwd (v : bytes) (m : md) := mkMd (md_mline m) (md_mid m) (md_ufrag m) v (md_cands m).
Definition set_mid (v : bytes) (m : md) := mkMd (md_mline m) v (md_ufrag m) (md_pwd m) (md_cands m).
Definition add_cand (c : cand) (m : md) :=
  mkMd (md_mline m) (md_mid m) (md_ufrag m) (md_pwd m) (md_cands m ++ [c]).

Definition flush (f : frag) (cur : option md) : frag :=
  match cur with
  | None => f
  | Some m => mkFrag (f_ufrag f) (f_pwd f) (f_cands f) (f_mds f ++ [m])
  end.

Definition of_deref (f : frag) (r : option (option md)) : sres :=
  match r with
  | None => SPanic
  | Some cur' => SCont f cur'
  end.

Definition zlen_md (f : frag) : Z := Z.of_nat (length (f_mds f)).

(* the body of the scanner loop.  [guard_mid]: whether the nil test of the
   "a=mid:" branch is there (true in the code; the variant without it is only
   used to show that the test is needed) *)
Definition line_step_gen (guard_mid : bool) (f : frag) (cur : option md) (l : bytes) : sres :=
  match strip_prefix p_ufrag l with
  | Some v =>
      match cur with
      | None => SCont (mkFrag v (f_pwd f) (f_cands f) (f_mds f)) cur
      | Some _ => of_deref f (deref cur (set_ufrag v))
      end
  | None =>
  match strip_prefix p_pwd l with
  | Some v =>
      match cur with
      | None => SCont (mkFrag (f_ufrag f) v (f_cands f) (f_mds f)) cur
      | Some _ => of_deref f (deref cur (set_pwd v))
      end
  | None =>
  match strip_prefix p_m l with
  | Some v => SCont (flush f cur) (Some (mkMd v [] [] [] []))
  | None =>
  match strip_prefix p_mid l with
  | Some v =>
      if guard_mid && (match cur with None => true | Some _ => false end) then SErr
      else of_deref f (deref cur (set_mid v))
  | None =>
  match strip_prefix p_cand l with
  | Some v =>
      let uf := match f_ufrag f with [] => None | u => Some u end in
      match cur with
      | Some _ =>
          let i := (zlen_md f) mod 65536 in
          match deref_get cur md_mid with
          | None => SPanic
          | Some mid =>
              of_deref f (deref cur (add_cand (mkCand v uf (Some i) (Some mid))))
          end
      | None =>
          SCont (mkFrag (f_ufrag f) (f_pwd f) (f_cands f ++ [mkCand v uf None None]) (f_mds f)) cur
      end
  | None => SCont f cur
  end end end end end.

Definition line_step := line_step_gen true.

Inductive res := ROk (f : frag) | RErr | RPanic.

Fixpoint run_lines_gen (g : bool) (f : frag) (cur : option md) (ls : list bytes) : res :=
  match ls with
  | [] => ROk (flush f cur)
  | l :: ls' =>
      match line_step_gen g f cur l with
      | SCont f' cur' => run_lines_gen g f' cur' ls'
      | SErr => RErr
      | SPanic => RPanic
      end
  end.

(* SDPFrag.Unmarshal on a zero SDPFrag (as webserver/whip.go calls it) *)
Definition unmarshal (data : bytes) : res := run_lines_gen true empty_frag None (scan_lines data).

(* the same code without the nil test before "a=mid:" *)
Definition unmarshal_unguarded (data : bytes) : res :=
  run_lines_gen false empty_frag None (scan_lines data).

(* ------------------------------------------------------------------ *)
(* SDPFrag.Marshal, SDPFrag.UFragPwd, SDPFrag.AllCandidates (the PATCH handler
   of webserver/whip.go calls UFragPwd and AllCandidates on the fragment parsed
   from the request body, and Marshal on the fragment of an ICE restart).

   Marshal is a sequence of fmt.Fprintf(w, "<prefix>%v\r\n", <string>) into one
   bytes.Buffer; %v of a string is the string.  [marshal_lines] is the list of
   the "<prefix><string>" in the order of the calls, [marshal] the buffer.  A
   string field equal to "" is not printed (ufrag, pwd); the mid of a media
   section is always printed.  Session-level candidates are printed as
   "a=<Candidate>", candidates of a media section as "a=candidate:<Candidate>",
   as the code has it.  Marshal always returns a nil error; there is no
   pointer in it (the receiver of the call in whip.go is the address of a
   local variable). *)

Definition crlf : bytes := [13; 10].
Definition p_a : bytes := [97; 61].                       (* "a=" *)

(* if v != "" { fmt.Fprintf(w, "<p>%v\r\n", v) } *)
Definition opt_line (p v : bytes) : list bytes :=
  match v with
  | [] => []
  | _ :: _ => [p ++ v]
  end.

Definition md_lines (m : md) : list bytes :=
  (p_m ++ md_mline m) :: (p_mid ++ md_mid m) ::
  opt_line p_ufrag (md_ufrag m) ++ opt_line p_pwd (md_pwd m) ++
  map (fun c => p_cand ++ cd_cand c) (md_cands m).

Definition marshal_lines (f : frag) : list bytes :=
  opt_line p_ufrag (f_ufrag f) ++ opt_line p_pwd (f_pwd f) ++
  map (fun c => p_a ++ cd_cand c) (f_cands f) ++
  flat_map md_lines (f_mds f).

(* the buffer: every line followed by "\r\n" (right-nested appends: linear) *)
Definition marshal (f : frag) : bytes := flat_map (fun l => l ++ crlf) (marshal_lines f).

(* the same, as the code does it: w grows at its end, call after call
   (quadratic on lists; not extracted, Proofs/SdpFragRoundTrip.marshal_buf_eq) *)
Definition fprintf (w p v : bytes) : bytes := w ++ p ++ v ++ crlf.
Definition fprintf_opt (w p v : bytes) : bytes :=
  match v with [] => w | _ :: _ => fprintf w p v end.
Definition marshal_md_buf (w : bytes) (m : md) : bytes :=
  let w := fprintf w p_m (md_mline m) in
  let w := fprintf w p_mid (md_mid m) in
  let w := fprintf_opt w p_ufrag (md_ufrag m) in
  let w := fprintf_opt w p_pwd (md_pwd m) in
  fold_left (fun w c => fprintf w p_cand (cd_cand c)) (md_cands m) w.
Definition marshal_buf (f : frag) : bytes :=
  let w := [] in
  let w := fprintf_opt w p_ufrag (f_ufrag f) in
  let w := fprintf_opt w p_pwd (f_pwd f) in
  let w := fold_left (fun w c => fprintf w p_a (cd_cand c)) (f_cands f) w in
  fold_left marshal_md_buf (f_mds f) w.

(* UFragPwd: the session-level pair if the session-level ufrag is not "",
   else the pair of the first media section whose ufrag is not "", else "","" *)
Fixpoint ufrag_pwd_mds (ms : list md) : bytes * bytes :=
  match ms with
  | [] => ([], [])
  | m :: ms' =>
      match md_ufrag m with
      | [] => ufrag_pwd_mds ms'
      | _ :: _ => (md_ufrag m, md_pwd m)
      end
  end.

Definition ufrag_pwd (f : frag) : bytes * bytes :=
  match f_ufrag f with
  | [] => ufrag_pwd_mds (f_mds f)
  | _ :: _ => (f_ufrag f, f_pwd f)
  end.

(* AllCandidates: cs = append(cs, f.Candidates...), then append(cs,
   m.Candidates...) for every media section in order (right-nested: linear) *)
Definition all_candidates (f : frag) : list cand :=
  f_cands f ++ flat_map md_cands (f_mds f).

(* the same with the appends of the code *)
Definition all_candidates_loop (f : frag) : list cand :=
  fold_left (fun cs m => cs ++ md_cands m) (f_mds f) ([] ++ f_cands f).

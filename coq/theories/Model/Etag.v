(* L0 model of webserver/precondition.go (scanETag, etagMatch,
   checkPreconditions).  Executable; no proofs here.
   Strings are byte lists ([list Z], one Z per byte of the Go string).  The
   [for] loop of etagMatch is recursion over explicit fuel; running out of
   fuel is the explicit outcome [None] / [CpOutOfFuel], excluded by the
   theorems for the fuel [S (length header)] used by [etag_match].
   Request headers: r.Header.Get(k) is "" for an absent header, so a request
   is (method, If-Match value or [], If-None-Match value or []). *)
From Coq Require Import ZArith List Bool.
Import ListNotations.
Open Scope Z_scope.

Definition str := list Z.

Fixpoint str_eqb (a b : str) : bool :=
  match a, b with
  | [], [] => true
  | x :: a', y :: b' => (x =? y) && str_eqb a' b'
  | _, _ => false
  end.

Definition is_empty (s : str) : bool := match s with [] => true | _ => false end.

(* the cutset " \t\n\r" of strings.TrimLeft *)
Definition is_ws (c : Z) : bool := (c =? 32) || (c =? 9) || (c =? 10) || (c =? 13).

Fixpoint trim_left (s : str) : str :=
  match s with
  | c :: t => if is_ws c then trim_left t else s
  | [] => []
  end.

(* strings.HasPrefix(s, "W/") *)
Definition has_prefix_weak (s : str) : bool :=
  match s with
  | a :: b :: _ => (a =? 87) && (b =? 47)
  | _ => false
  end.

(* "Character values allowed in ETags": c == 0x21 || c >= 0x23 && c <= 0x7E || c >= 0x80 *)
Definition is_etagc (c : Z) : bool :=
  (c =? 33) || ((35 <=? c) && (c <=? 126)) || (128 <=? c).

(* the for loop of scanETag from i = start+1: returns the bytes up to and
   including the closing quote, and the rest *)
Fixpoint scan_body (s : str) : option (str * str) :=
  match s with
  | [] => None
  | c :: t =>
      if is_etagc c then
        match scan_body t with
        | Some (e, r) => Some (c :: e, r)
        | None => None
        end
      else if c =? 34 then Some ([c], t)
      else None
  end.

(* scanETag: ("", "") is ([], []) *)
Definition scan_etag (s0 : str) : str * str :=
  let s := trim_left s0 in
  let start := if has_prefix_weak s then 2%nat else 0%nat in
  let body := skipn start s in                        (* s[start:] *)
  match body with
  | q :: rest =>
      if (length body <? 2)%nat || negb (q =? 34) then ([], [])
      else match scan_body rest with
           | Some (e, r) => (firstn start s ++ q :: e, r)   (* s[:i+1], s[i+1:] *)
           | None => ([], [])
           end
  | [] => ([], [])
  end.

(* the for loop of etagMatch *)
Fixpoint etag_match_loop (fuel : nat) (etag header0 : str) : option bool :=
  match fuel with
  | O => None
  | S f =>
      let header := trim_left header0 in
      match header with
      | [] => Some false                                  (* break *)
      | c :: t =>
          if c =? 44 then etag_match_loop f etag t        (* ',' : continue *)
          else if c =? 42 then Some (negb (is_empty etag)) (* '*' : etag != "" *)
          else
            let '(e, remain) := scan_etag header in
            if is_empty e then Some false                 (* break *)
            else if str_eqb e etag then Some true
            else etag_match_loop f etag remain
      end
  end.

Definition etag_match (etag header : str) : option bool :=
  if is_empty header then Some false
  else if str_eqb header etag then Some true
  else etag_match_loop (S (length header)) etag header.

Definition m_GET : str := [71; 69; 84].
Definition m_HEAD : str := [72; 69; 65; 68].
Definition m_PUT : str := [80; 85; 84].
Definition m_POST : str := [80; 79; 83; 84].
Definition m_DELETE : str := [68; 69; 76; 69; 84; 69].

Definition is_get_or_head (m : str) : bool := str_eqb m m_GET || str_eqb m m_HEAD.

Inductive cpres := CpNotDone | CpDone (status : Z) | CpOutOfFuel.

(* checkPreconditions(w, r, etag): done=false is CpNotDone, done=true with
   w.WriteHeader(s) is CpDone s *)
Definition check_preconditions (method etag im inm : str) : cpres :=
  let continue_inm :=
    if is_empty inm then CpNotDone
    else match etag_match etag inm with
         | None => CpOutOfFuel
         | Some true => if is_get_or_head method then CpDone 304 else CpDone 412
         | Some false => CpNotDone
         end in
  if is_empty im then continue_inm
  else match etag_match etag im with
       | None => CpOutOfFuel
       | Some false => CpDone 412
       | Some true => continue_inm
       end.

(* observable of the correspondence driver: (done, status) *)
Definition cp_obs (r : cpres) : Z * Z :=
  match r with
  | CpNotDone => (0, 0)
  | CpDone s => (1, s)
  | CpOutOfFuel => (-1, -1)
  end.

(* L0 model of diskwriter/diskwriter.go (the recorder) and of the parts of
   rtptime/rtptime.go and codecs/codecs.go it uses.  Executable; no proofs.

   What is transcribed statement by statement (every uint16/uint32/uint64/
   int32/int64 conversion written out):
     - diskTrack.Write: the gap state machine on lastSeqno           [gap_step, write]
     - fetch: 1504-byte scratch buffer, GetPacket, Unmarshal(buf[:n]) [fetch]
     - requestKeyframe (500 ms limiter), the 4 s rule of writeRTP     [request_keyframe, write_rtp_pre]
     - writeRTP up to builder.Push: keyframe detection, savedKf, origin [write_rtp_pre]
     - writeBuffered: the body of the loop for one popped sample     [process_sample]
     - setOrigin, setTimeOffset, adjustOrigin, initWriter (decision)  [set_origin, ...]
     - rtptime.FromDuration/ToDuration/NTPToTime/TimeToNTP            [from_duration, ...]
     - codecs.Keyframe and KeyframeDimensions for VP8                 [vp8_keyframe, vp8_dims]
     - sanitise                                                       [sanitise]
   Oracles / not galene's code: pion's rtp.Packet.Unmarshal is [rtp_parse]
   for packets without header extension (rtpreader strips extensions before
   a packet reaches a local track; X=1 is outside the model: None); the
   sample builder is an argument of the theorems; the executable pipeline
   uses the reference builder [ib_*] below (frames complete, in order, once),
   which is what the driver validates the pinned dependency against.
   Explicit "outside the model" outcomes: FlCloseConn (a sample 2^31 ticks
   from the origin or a change of the keyframe dimensions makes the code
   call conn.close() from inside the loop), FlInvalidOrigin, FlPanic (clock
   rate below 1000: division by zero in Go).
   Time: time.Time is an integer number of nanoseconds since 1900-01-01
   (the NTP epoch); the zero time.Time is None.  Time.Sub saturates to int64. *)
From Coq Require Import ZArith List Bool.
From Galene Require Import Lib.Word.
From Galene Require Model.Keyframe.
Import ListNotations.
Open Scope Z_scope.

Definition dlen {A} (l : list A) : Z := Z.of_nat (length l).
Definition byte_at (l : list Z) (i : Z) : Z := nth (Z.to_nat i) l 0.

(* ------------------------------------------------------------------ *)
(* RTP packets                                                         *)

Record pkt := mkPkt { p_seq : Z; p_ts : Z; p_marker : bool; p_payload : list Z }.

Definition be16 (a b : Z) : Z := a * 256 + b.
Definition be32 (a b c d : Z) : Z := ((a * 256 + b) * 256 + c) * 256 + d.

(* pion rtp.Packet.Unmarshal, packets without header extension *)
Definition rtp_parse (buf : list Z) : option pkt :=
  let len := dlen buf in
  if len <? 12 then None else
  let b0 := byte_at buf 0 in
  let cc := b0 mod 16 in
  let ext := Z.odd (b0 / 16) in
  let pad := Z.odd (b0 / 32) in
  let n := 12 + 4 * cc in
  if len <? n then None else
  if ext then None else
  let marker := 128 <=? byte_at buf 1 in
  let seq := be16 (byte_at buf 2) (byte_at buf 3) in
  let ts := be32 (byte_at buf 4) (byte_at buf 5) (byte_at buf 6) (byte_at buf 7) in
  if pad then
    if len <=? n then None else
    let ps := byte_at buf (len - 1) in
    if ps =? 0 then None else
    let e := len - ps in
    if e <? n then None
    else Some (mkPkt seq ts marker (firstn (Z.to_nat (e - n)) (skipn (Z.to_nat n) buf)))
  else Some (mkPkt seq ts marker (skipn (Z.to_nat n) buf)).

(* ------------------------------------------------------------------ *)
(* VP8 payload descriptor (pion codecs.VP8Packet.Unmarshal): the index at
   which the VP8 payload starts, None on errShortPacket *)
Definition vp8_offset (pl : list Z) : option Z :=
  let len := dlen pl in
  if len <=? 0 then None else
  let b0 := byte_at pl 0 in
  if b0 <? 128 then Some 1 else
  if len <=? 1 then None else
  let b1 := byte_at pl 1 in
  let fi := 128 <=? b1 in
  let fl := Z.odd (b1 / 64) in
  let ft := Z.odd (b1 / 32) in
  let fk := Z.odd (b1 / 16) in
  let idx := 2 in
  let r1 :=
    if fi then
      if len <=? idx then None
      else if 128 <=? byte_at pl idx
           then (if len <=? idx + 1 then None else Some (idx + 2))
           else Some (idx + 1)
    else Some idx in
  match r1 with
  | None => None
  | Some i1 =>
    let r2 := if fl then (if len <=? i1 then None else Some (i1 + 1)) else Some i1 in
    match r2 with
    | None => None
    | Some i2 =>
      if ft || fk then (if len <=? i2 then None else Some (i2 + 1)) else Some i2
    end
  end.

(* codecs.Keyframe(video/vp8): S != 0, PID == 0, first payload byte even *)
Definition vp8_keyframe (p : pkt) : bool :=
  match vp8_offset (p_payload p) with
  | None => false
  | Some idx =>
    let rest := skipn (Z.to_nat idx) (p_payload p) in
    if dlen rest <? 1 then false
    else
      let b0 := byte_at (p_payload p) 0 in
      Z.odd (b0 / 16) && (b0 mod 8 =? 0) && Z.even (byte_at rest 0)
  end.

(* codecs.KeyframeDimensions(video/vp8) *)
Definition vp8_dims (p : pkt) : Z * Z :=
  match vp8_offset (p_payload p) with
  | None => (0, 0)
  | Some idx =>
    let rest := skipn (Z.to_nat idx) (p_payload p) in
    if dlen rest <? 10 then (0, 0)
    else ((byte_at rest 6 + 256 * byte_at rest 7) mod 16384,
          (byte_at rest 8 + 256 * byte_at rest 9) mod 16384)
  end.

Definition vp8_start (p : pkt) : bool :=
  match p_payload p with [] => false | b0 :: _ => Z.odd (b0 / 16) end.
Definition vp8_depack (pl : list Z) : option (list Z) :=
  match vp8_offset pl with
  | None => None
  | Some idx => Some (skipn (Z.to_nat idx) pl)
  end.

(* what the recorder needs to know about a codec *)
Record codec := mkCodec {
  cd_video : bool;
  cd_rate : Z;                         (* Codec().ClockRate *)
  cd_kf : pkt -> bool;                 (* codecs.Keyframe: start of a keyframe *)
  cd_dims : pkt -> Z * Z;              (* codecs.KeyframeDimensions *)
  cd_start : pkt -> bool;              (* depacketizer.IsPartitionHead *)
  cd_end : pkt -> bool;                (* depacketizer.IsPartitionTail *)
  cd_depack : list Z -> option (list Z)
}.
Definition vp8_codec : codec :=
  mkCodec true 90000 vp8_keyframe vp8_dims vp8_start p_marker vp8_depack.
(* H.264: codecs.Keyframe(video/h264) is Model/Keyframe.v (shared with C12):
   the packet carries an SPS (single NAL unit, inside an aggregation packet
   at any position, or at the start of a fragmented one).  No dimensions.
   The depacketiser (pion H264Packet: Annex-B start codes, FU-A reassembly)
   is NOT modelled: the content of H.264 recordings is checked by the
   driver's monitors only; the model predicts the gap machine, the keyframe
   requests, the origin and when the file is opened. *)
Definition h264_kf (p : pkt) : bool :=
  match Keyframe.keyframe_h264 (Keyframe.fuel_for (p_payload p)) (p_payload p) with
  | Keyframe.Ok (true, _) => true
  | _ => false
  end.
Definition h264_start (p : pkt) : bool :=
  match p_payload p with
  | b0 :: b1 :: _ =>
    if (b0 mod 32 =? 28) || (b0 mod 32 =? 29) then 128 <=? b1 else true
  | _ => false
  end.
Definition h264_codec : codec :=
  mkCodec true 90000 h264_kf (fun _ => (0, 0)) h264_start p_marker (fun pl => Some pl).

Definition opus_codec : codec :=
  mkCodec false 48000 (fun _ => false) (fun _ => (0, 0)) (fun _ => true) (fun _ => true)
          (fun pl => match pl with [] => None | _ => Some pl end).

(* ------------------------------------------------------------------ *)
(* diskTrack.Write: the gap state machine                              *)

(* [1; ...; count-1] *)
Fixpoint zrange_from (start : Z) (n : nat) : list Z :=
  match n with O => [] | S n' => start :: zrange_from (start + 1) n' end.
Definition missing (last count : Z) : list Z :=
  map (fun i => w16 (last + i)) (zrange_from 1 (Z.to_nat (count - 1))).

(* (lastSeqno', numbers to fetch, requestKeyframe called) *)
Definition gap_step (last : option Z) (seq : Z) : option Z * list Z * bool :=
  match last with
  | None => (Some seq, [], false)
  | Some l =>
    if w16 (seq - l) <? 32768 then
      (* jump forward *)
      let count := w16 (seq - l) in
      if count <? 256 then (Some seq, missing l count, false)
      else (Some seq, [], true)
    else
      (* jump backward *)
      let count := w16 (l - seq) in
      if 512 <=? count then (None, [], true) else (Some l, [], false)
  end.

Inductive event :=
| EFetch (seqno n : Z)                  (* remote.GetPacket(seqno, buf, false) = n *)
| EKfReq                                (* requestKeyframe(t) called by Write *)
| EPush (bytes : list Z) (p : pkt).     (* writeRTP(p), p unmarshalled from bytes *)

Definition BufSize : Z := 1504.

(* copy(result, packet): the cache returns at most len(result) bytes *)
Definition get_packet (cache : Z -> option (list Z)) (seqno : Z) (buf : list Z)
  : Z * list Z :=
  match cache seqno with
  | None => (0, buf)
  | Some b => (dlen b, b ++ skipn (length b) buf)
  end.

Definition fetch (parse : list Z -> option pkt) (cache : Z -> option (list Z))
  (seqno : Z) : list event :=
  let buf := repeat 0 (Z.to_nat BufSize) in
  let '(n, buf') := get_packet cache seqno buf in
  if n =? 0 then [EFetch seqno 0]
  else
    let b := firstn (Z.to_nat n) buf' in          (* buf[:n] *)
    match parse b with
    | None => [EFetch seqno n]
    | Some p => [EFetch seqno n; EPush b p]
    end.

Definition write (parse : list Z -> option pkt) (cache : Z -> option (list Z))
  (last : option Z) (buf : list Z) : option Z * list event :=
  match parse buf with
  | None => (last, [])
  | Some p =>
    let '(last', fs, kf) := gap_step last (p_seq p) in
    (last', flat_map (fetch parse cache) fs ++ (if kf then [EKfReq] else [])
            ++ [EPush buf p])
  end.

Definition pushes (evs : list event) : list (list Z * pkt) :=
  flat_map (fun e => match e with EPush b p => [(b, p)] | _ => [] end) evs.
Definition fetches (evs : list event) : list (Z * Z) :=
  flat_map (fun e => match e with EFetch s n => [(s, n)] | _ => [] end) evs.
Definition kfreqs (evs : list event) : list unit :=
  flat_map (fun e => match e with EKfReq => [tt] | _ => [] end) evs.

(* a delivery history to one track: the cache may change between deliveries *)
Fixpoint run_writes (parse : list Z -> option pkt) (last : option Z)
  (h : list ((Z -> option (list Z)) * list Z)) : option Z * list (list event) :=
  match h with
  | [] => (last, [])
  | (cache, buf) :: h' =>
    let '(last1, evs) := write parse cache last buf in
    let '(last2, rest) := run_writes parse last1 h' in
    (last2, evs :: rest)
  end.

(* ------------------------------------------------------------------ *)
(* rtptime                                                             *)

Definition i32 (x : Z) : Z :=
  let y := w32 x in if y <? 2147483648 then y else y - 4294967296.
Definition i64 (x : Z) : Z :=
  let y := w64 x in if y <? 9223372036854775808 then y else y - 18446744073709551616.
Definition sat64 (x : Z) : Z :=
  if 9223372036854775807 <? x then 9223372036854775807
  else if x <? -9223372036854775808 then -9223372036854775808 else x.
Definition second : Z := 1000000000.

(* FromDuration(d, hz); bits.Div64 cannot overflow for hz < 2^20 *)
Definition from_duration (d hz : Z) : Z :=
  if d <? 0 then - i64 ((- d) * hz / second) else i64 (d * hz / second).
(* ToDuration(tm, hz), hz >= 1 (Go panics on hz = 0) *)
Definition to_duration (tm hz : Z) : Z :=
  if tm <? 0 then - i64 ((- tm) * second / hz) else i64 (tm * second / hz).
(* NTPToTime: nanoseconds since the NTP epoch *)
Definition ntp_to_time (ntp : Z) : Z :=
  (ntp / 4294967296) * second + ((ntp mod 4294967296) * second) / 4294967296.
(* TimeToNTP *)
Definition time_to_ntp (tm : Z) : Z :=
  let d := sat64 tm in
  let sec := w32 (Z.quot d second) in
  let frac := w32 (Z.rem d second) in
  w64 (sec * 4294967296 + (frac * 4294967296) / second).
Definition time_sub (a b : Z) : Z := sat64 (a - b).

(* ------------------------------------------------------------------ *)
(* origins: diskTrack.origin/remoteNTP/remoteRTP, diskConn.originLocal/
   originRemote                                                        *)

Record ttrack := mkTT { tt_origin : option Z; tt_ntp : Z; tt_rtp : Z; tt_rate : Z }.
Record tconn := mkTC { tc_local : option Z; tc_remote : Z; tc_tracks : list ttrack }.

Definition tt0 (rate : Z) : ttrack := mkTT None 0 0 rate.

Fixpoint set_nth {A} (n : nat) (x : A) (l : list A) : list A :=
  match l, n with
  | [], _ => []
  | _ :: t, O => x :: t
  | h :: t, S n' => h :: set_nth n' x t
  end.

Definition tsub (a b hz : Z) : Z := to_duration (i32 (a - b)) hz.

Definition set_origin (c : tconn) (i : nat) (ts now rate : Z) : tconn :=
  match nth_error (tc_tracks c) i with
  | None => c
  | Some t =>
    let remote_of := ntp_to_time (tt_ntp t) + tsub ts (tt_rtp t) rate in
    match tc_local c with
    | None =>
      mkTC (Some now)
           (if tt_ntp t =? 0 then 0 else time_to_ntp remote_of)
           (set_nth i (mkTT (Some ts) (tt_ntp t) (tt_rtp t) (tt_rate t)) (tc_tracks c))
    | Some l =>
      if negb (tc_remote c =? 0) && negb (tt_ntp t =? 0) then
        let origin := ntp_to_time (tc_remote c) in
        let delta := from_duration (time_sub remote_of origin) rate in
        mkTC (Some l) (tc_remote c)
             (set_nth i (mkTT (Some (w32 (ts - w32 delta))) (tt_ntp t) (tt_rtp t) (tt_rate t))
                      (tc_tracks c))
      else
        let d := time_sub now l in
        let delta := from_duration d rate in
        mkTC (Some l)
             (if tt_ntp t =? 0 then tc_remote c else time_to_ntp (remote_of + i64 (- d)))
             (set_nth i (mkTT (Some (w32 (ts - w32 delta))) (tt_ntp t) (tt_rtp t) (tt_rate t))
                      (tc_tracks c))
    end
  end.

Definition set_time_offset (c : tconn) (i : nat) (ntp rtp rate : Z) : tconn :=
  match nth_error (tc_tracks c) i with
  | None => c
  | Some t =>
    match tt_origin t with
    | None =>
      mkTC (tc_local c) (tc_remote c)
           (set_nth i (mkTT None ntp rtp (tt_rate t)) (tc_tracks c))
    | Some o =>
      let local := to_duration (i32 (rtp - o)) rate in
      if tc_remote c =? 0 then
        mkTC (tc_local c) (time_to_ntp (ntp_to_time ntp + i64 (- local)))
             (set_nth i (mkTT (Some o) ntp rtp (tt_rate t)) (tc_tracks c))
      else
        let remote := time_sub (ntp_to_time ntp) (ntp_to_time (tc_remote c)) in
        let delta := from_duration (i64 (remote - local)) rate in
        mkTC (tc_local c) (tc_remote c)
             (set_nth i (mkTT (Some (w32 (o - w32 delta))) ntp rtp (tt_rate t)) (tc_tracks c))
    end
  end.

Definition adjust_origin (c : tconn) (i : nat) (ts : Z) : tconn :=
  match nth_error (tc_tracks c) i with
  | None => c
  | Some t =>
    match tt_origin t with
    | None => c
    | Some o =>
      if o =? ts then c else
      let offset := to_duration (i32 (ts - o)) (tt_rate t) in
      mkTC (match tc_local c with None => None | Some l => Some (l + offset) end)
           (if tc_remote c =? 0 then 0
            else time_to_ntp (ntp_to_time (tc_remote c) + offset))
           (map (fun tk =>
                   match tt_origin tk with
                   | None => tk
                   | Some o' =>
                     mkTT (Some (w32 (o' + w32 (from_duration offset (tt_rate tk)))))
                          (tt_ntp tk) (tt_rtp tk) (tt_rate tk)
                   end) (tc_tracks c))
    end
  end.

Definition origin_of (c : tconn) (i : nat) : option Z :=
  match nth_error (tc_tracks c) i with None => None | Some t => tt_origin t end.

(* the container timestamp: (ts - origin) / (clockrate / 1000), uint32 *)
Definition tm_of (origin rate ts : Z) : Z := w32 (ts - origin) / (rate / 1000).
(* the test at the head of the loop of writeBuffered *)
Definition before_origin (origin ts : Z) : bool := i32 (ts - origin) <? 0.

(* ------------------------------------------------------------------ *)
(* requestKeyframe and writeRTP up to builder.Push                     *)

Definition ms (x : Z) : Z := x * 1000000.

(* kfRequested' and whether remote.RequestKeyframe() is called *)
Definition request_keyframe (now : Z) (kfreq : option Z) : option Z * bool :=
  match kfreq with
  | None => (Some now, true)
  | Some r => if ms 500 <? sat64 (now - r) then (Some now, true) else (Some r, false)
  end.

Record sample := mkSample { sm_ts : Z; sm_data : list Z }.

Record trk := mkTrk {
  k_cd : codec;
  k_last : option Z;          (* lastSeqno *)
  k_kfreq : option Z;         (* kfRequested *)
  k_lastKf : option Z;        (* lastKf *)
  k_savedKf : option pkt      (* savedKf *)
}.
Record conn := mkConn {
  cn_hasVideo : bool;
  cn_time : tconn;
  cn_open : bool;             (* conn.file != nil; then every track has a writer *)
  cn_w : Z; cn_h : Z;
  cn_tracks : list trk
}.

Definition trk0 (cd : codec) : trk := mkTrk cd None None None None.
Definition new_conn (cds : list codec) : conn :=
  mkConn (existsb cd_video cds)
         (mkTC None 0 (map (fun cd => tt0 (cd_rate cd)) cds))
         false 0 0 (map trk0 cds).

Definition upd_trk (cn : conn) (i : nat) (t : trk) : conn :=
  mkConn (cn_hasVideo cn) (cn_time cn) (cn_open cn) (cn_w cn) (cn_h cn)
         (set_nth i t (cn_tracks cn)).
Definition upd_time (cn : conn) (tc : tconn) : conn :=
  mkConn (cn_hasVideo cn) tc (cn_open cn) (cn_w cn) (cn_h cn) (cn_tracks cn).

(* returns the connection and the number of remote.RequestKeyframe() calls *)
Definition write_rtp_pre (cn : conn) (i : nat) (now : Z) (p : pkt) : conn * Z :=
  match nth_error (cn_tracks cn) i with
  | None => (cn, 0)
  | Some t =>
    let cd := k_cd t in
    let '(cn1, nreq) :=
      if cd_video cd then
        if cd_kf cd p then
          let t' := mkTrk cd (k_last t) (k_kfreq t) (Some now) (Some p) in
          let cn' := upd_trk cn i t' in
          match origin_of (cn_time cn) i with
          | None => (upd_time cn' (set_origin (cn_time cn) i (p_ts p) now (cd_rate cd)), 0)
          | Some _ => (cn', 0)
          end
        else
          let old := match k_lastKf t with
                     | None => true
                     | Some l => ms 4000 <? sat64 (now - l)
                     end in
          if old then
            let '(r, called) := request_keyframe now (k_kfreq t) in
            (upd_trk cn i (mkTrk cd (k_last t) r (k_lastKf t) (k_savedKf t)),
             if called then 1 else 0)
          else (cn, 0)
      else (cn, 0) in
    let cn2 :=
      match origin_of (cn_time cn1) i with
      | Some _ => cn1
      | None =>
        if negb (cn_hasVideo cn1) ||
           (match tc_local (cn_time cn1) with None => false | Some _ => true end)
        then upd_time cn1 (set_origin (cn_time cn1) i (p_ts p) now (cd_rate cd))
        else cn1
      end in
    (cn2, nreq)
  end.

(* ------------------------------------------------------------------ *)
(* writeBuffered: one popped sample                                    *)

Inductive fev :=
| FOpen (w h : Z)                                    (* a new file *)
| FWrite (track : nat) (kf : bool) (tm : Z) (data : list Z)
| FClose.
Inductive flow := FlContinue | FlInvalidOrigin | FlCloseConn | FlPanic.

(* initWriter(w, h, track i, ts) when no conn.close() is needed *)
Definition init_writer (cn : conn) (i : nat) (w h ts : Z) : conn * list fev * flow :=
  if cn_open cn then
    if (w =? cn_w cn) && (h =? cn_h cn) then (cn, [], FlContinue)
    else (cn, [], FlCloseConn)
  else
    (mkConn (cn_hasVideo cn) (adjust_origin (cn_time cn) i ts) true w h (cn_tracks cn),
     [FOpen w h], FlContinue).

Definition process_sample (cn : conn) (i : nat) (s : sample) : conn * list fev * flow :=
  match nth_error (cn_tracks cn) i with
  | None => (cn, [], FlContinue)
  | Some t =>
    let cd := k_cd t in
    let ts := sm_ts s in
    let early :=
      match origin_of (cn_time cn) i with
      | Some o => if before_origin o ts
                  then (if w32 (o - ts) <? 65536 then 1 else 2) else 0
      | None => 0
      end in
    if early =? 1 then (cn, [], FlContinue)            (* late packet before origin, drop *)
    else if early =? 2 then (cn, [], FlCloseConn)
    else
      let '(keyframe, (cn1, evs, fl)) :=
        if cd_video cd then
          match k_savedKf t with
          | None => (false, (cn, [], FlContinue))
          | Some k =>
            if ts =? p_ts k
            then (true, let '(w, h) := cd_dims cd k in init_writer cn i w h ts)
            else (false, (cn, [], FlContinue))
          end
        else
          (true,
           if negb (cn_open cn) && negb (cn_hasVideo cn)
           then init_writer cn i 0 0 ts else (cn, [], FlContinue)) in
      match fl with
      | FlContinue =>
        if negb (cn_open cn1) then (cn1, evs, FlContinue)
        else
          match origin_of (cn_time cn1) i with
          | None => (cn1, evs, FlInvalidOrigin)
          | Some o =>
            if cd_rate cd / 1000 =? 0 then (cn1, evs, FlPanic)
            else (cn1, evs ++ [FWrite i keyframe (tm_of o (cd_rate cd) ts) (sm_data s)],
                  FlContinue)
          end
      | _ => (cn1, evs, fl)
      end
  end.

(* the loop of writeBuffered over the samples the builder hands out; stops
   at the first outcome that is not Continue *)
Fixpoint process_samples (cn : conn) (i : nat) (ss : list sample)
  : conn * list fev * flow :=
  match ss with
  | [] => (cn, [], FlContinue)
  | s :: ss' =>
    let '(cn1, e1, fl) := process_sample cn i s in
    match fl with
    | FlContinue =>
      let '(cn2, e2, fl2) := process_samples cn1 i ss' in (cn2, e1 ++ e2, fl2)
    | _ => (cn1, e1, fl)
    end
  end.

(* ------------------------------------------------------------------ *)
(* the reference sample builder: complete frames, in order, once       *)

Record ib := mkIB { ib_next : option Z; ib_buf : list pkt }.
Definition ib0 : ib := mkIB None [].

Definition ib_find (buf : list pkt) (s : Z) : option pkt :=
  find (fun q => p_seq q =? s) buf.

Definition ib_push (b : ib) (p : pkt) : ib :=
  match ib_next b with
  | None => mkIB (Some (p_seq p)) [p]
  | Some nx =>
    if (w16 (p_seq p - nx) <? 32768) &&
       (match ib_find (ib_buf b) (p_seq p) with None => true | Some _ => false end)
    then mkIB (Some nx) (p :: ib_buf b) else b
  end.

(* the packets of the frame starting at s, if all are buffered *)
Fixpoint ib_frame (cd : codec) (fuel : nat) (buf : list pkt) (s : Z) (acc : list pkt)
  : option (list pkt * Z) :=
  match fuel with
  | O => None
  | S f =>
    match ib_find buf s with
    | None => None
    | Some q =>
      if cd_end cd q then Some (rev (q :: acc), w16 (s + 1))
      else ib_frame cd f buf (w16 (s + 1)) (q :: acc)
    end
  end.

Definition depack_all (cd : codec) (ps : list pkt) : list Z :=
  flat_map (fun q => match cd_depack cd (p_payload q) with
                     | None => [] | Some d => d end) ps.

Fixpoint ib_drain (cd : codec) (fuel : nat) (b : ib) : list sample * ib :=
  match fuel with
  | O => ([], b)
  | S f =>
    match ib_next b with
    | None => ([], b)
    | Some nx =>
      match ib_frame cd (length (ib_buf b)) (ib_buf b) nx [] with
      | None => ([], b)
      | Some (ps, nx') =>
        let buf' := filter (fun q => negb (existsb (fun r => p_seq r =? p_seq q) ps))
                           (ib_buf b) in
        let ts := match ps with [] => 0 | q :: _ => p_ts q end in
        let '(rest, b') := ib_drain cd f (mkIB (Some nx') buf') in
        (mkSample ts (depack_all cd ps) :: rest, b')
      end
    end
  end.

(* ------------------------------------------------------------------ *)
(* the whole recorder over any sample builder (B, bpush, bdrain): the
   builder is driven exactly as writeRTP/writeBuffered drive it (Push, then
   pop until nothing comes) *)

Inductive wout := mkWout (fetched : list (Z * Z)) (nreq : Z) (last : option Z)
                         (files : list fev) (fl : flow).

Section Pipe.
  Variable B : Type.
  Variable bpush : codec -> B -> pkt -> B.
  Variable bdrain : codec -> B -> list sample * B.   (* Pop until nil *)
  Variable bflush : codec -> B -> list sample.       (* ForcePop until nil *)
  Variable b0 : B.

  Record grec := mkRec { r_conn : conn; r_builders : list B }.

  Definition codec_at (cn : conn) (i : nat) : codec :=
    match nth_error (cn_tracks cn) i with Some t => k_cd t | None => opus_codec end.

  (* writeRTP for every push of one Write, in order *)
  Fixpoint gpush_all (r : grec) (i : nat) (now : Z) (ps : list (list Z * pkt))
    : grec * Z * list fev * flow :=
    match ps with
    | [] => (r, 0, [], FlContinue)
    | (_, p) :: ps' =>
      let '(cn1, n1) := write_rtp_pre (r_conn r) i now p in
      let cd := codec_at cn1 i in
      let b := bpush cd (nth i (r_builders r) b0) p in
      let '(ss, b') := bdrain cd b in
      let '(cn2, e1, fl) := process_samples cn1 i ss in
      let r1 := mkRec cn2 (set_nth i b' (r_builders r)) in
      match fl with
      | FlContinue =>
        let '(r2, n2, e2, fl2) := gpush_all r1 i now ps' in (r2, n1 + n2, e1 ++ e2, fl2)
      | _ => (r1, n1, e1, fl)
      end
    end.

  (* diskTrack.Write on track i at time now with the given cache *)
  Definition grec_write (r : grec) (i : nat) (now : Z) (cache : Z -> option (list Z))
    (buf : list Z) : grec * wout :=
    match nth_error (cn_tracks (r_conn r)) i with
    | None => (r, mkWout [] 0 None [] FlContinue)
    | Some t =>
      let '(last', evs) := write rtp_parse cache (k_last t) buf in
      (* requestKeyframe called by Write itself comes before writeRTP *)
      let '(kfr, called) :=
        match kfreqs evs with
        | [] => (k_kfreq t, false)
        | _ => request_keyframe now (k_kfreq t)
        end in
      let t1 := mkTrk (k_cd t) last' kfr (k_lastKf t) (k_savedKf t) in
      let r1 := mkRec (upd_trk (r_conn r) i t1) (r_builders r) in
      let '(r2, n, fe, fl) := gpush_all r1 i now (pushes evs) in
      (r2, mkWout (fetches evs) ((if called then 1 else 0) + n) last' fe fl)
    end.

  Definition grec_sr (r : grec) (i : nat) (ntp rtp : Z) : grec :=
    match nth_error (cn_tracks (r_conn r)) i with
    | None => r
    | Some t =>
      mkRec (upd_time (r_conn r)
                      (set_time_offset (cn_time (r_conn r)) i ntp rtp (cd_rate (k_cd t))))
            (r_builders r)
    end.

  (* diskConn.close: flush every builder (ForcePop), close the writers,
     forget the origins.  A flushed sample that makes the code call
     conn.close() again ends the run with FlCloseConn. *)
  Fixpoint close_tracks (cn : conn) (bs : list B) (i : nat) (n : nat)
    : conn * list fev * flow :=
    match n with
    | O => (cn, [], FlContinue)
    | S n' =>
      let cd := codec_at cn i in
      let ss := bflush cd (nth i bs b0) in
      let '(cn1, e1, fl) := process_samples cn i ss in
      match fl with
      | FlContinue =>
        (* t.origin = none *)
        let tc := cn_time cn1 in
        let tc' := mkTC (tc_local tc) (tc_remote tc)
                        (match nth_error (tc_tracks tc) i with
                         | None => tc_tracks tc
                         | Some tk => set_nth i (mkTT None (tt_ntp tk) (tt_rtp tk) (tt_rate tk))
                                              (tc_tracks tc)
                         end) in
        let '(cn2, e2, fl2) := close_tracks (upd_time cn1 tc') bs (S i) n' in
        (cn2, e1 ++ e2, fl2)
      | _ => (cn1, e1, fl)
      end
    end.

  Definition grec_close (r : grec) : grec * list fev * flow :=
    let cn := r_conn r in
    let tc := cn_time cn in
    let cn0 := upd_time cn (mkTC None 0 (tc_tracks tc)) in
    let '(cn1, evs, fl) := close_tracks cn0 (r_builders r) 0 (length (cn_tracks cn)) in
    let evs' := if cn_open cn1 then evs ++ [FClose] else evs in
    (mkRec (mkConn (cn_hasVideo cn1) (cn_time cn1) false (cn_w cn1) (cn_h cn1) (cn_tracks cn1))
           (map (fun _ => b0) (r_builders r)),
     evs', fl).
End Pipe.

(* the executable recorder: the reference builder (ForcePop drops the
   incomplete frames that are left) *)
Definition ibd (cd : codec) (b : ib) : list sample * ib :=
  ib_drain cd (S (length (ib_buf b))) b.
Definition ibf (cd : codec) (b : ib) : list sample := fst (ibd cd b).
Definition rec := grec ib.
Definition new_rec (cds : list codec) : rec :=
  mkRec ib (new_conn cds) (map (fun _ => ib0) cds).
Definition rec_write : rec -> nat -> Z -> (Z -> option (list Z)) -> list Z -> rec * wout :=
  grec_write ib (fun _ => ib_push) ibd ib0.
Definition rec_sr : rec -> nat -> Z -> Z -> rec := grec_sr ib.
Definition rec_close : rec -> rec * list fev * flow := grec_close ib ibf ib0.

(* ------------------------------------------------------------------ *)
(* sanitise: strings.NewReplacer("/", "-slash-", "\\", "-backslash-") on bytes *)
Definition slash_word : list Z := [45; 115; 108; 97; 115; 104; 45].
Definition backslash_word : list Z := [45; 98; 97; 99; 107; 115; 108; 97; 115; 104; 45].
Definition sanitise (s : list Z) : list Z :=
  flat_map (fun c => if c =? 47 then slash_word
                     else if c =? 92 then backslash_word else [c]) s.

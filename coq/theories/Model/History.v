(* L0 model of the chat history of a group: group/group.go
   (maxChatHistory, ChatHistoryEntry, AddToChatHistory, discardObsoleteHistory,
   GetChatHistory, ClearChatHistory) and group/description.go (maxHistoryAge,
   DefaultMaxHistoryAge).  Executable; no proofs here.

   Representation.  Strings are byte lists.  A time.Time is its number of
   nanoseconds on an unbounded axis (Z); time.Since(t) is the saturating
   int64 difference that time.Time.Sub computes.  The chat value
   (interface{}) is opaque: a byte list that is stored and returned but never
   inspected.  The slice g.history never escapes (GetChatHistory returns a
   copy), so it is a list; the in-place copy()/reslice statements are
   nevertheless transcribed one by one ([go_copy], [slice_from], [slice_to])
   and a slice expression that would panic is the outcome [Panic].

   One abstraction: discardObsoleteHistory reads the clock once per loop
   iteration; [discard_obsolete] takes one reading [now] for the whole call,
   [discard_obsolete_clk] is the transcription with one reading per
   iteration ([discard_obsolete now] is [discard_obsolete_clk (fun _ => now)]
   by definition).  The constants come from Generated/HistoryConsts.v. *)
From Coq Require Import ZArith List Bool.
From Galene Require Import Generated.HistoryConsts.
Import ListNotations.
Open Scope Z_scope.

Definition bytes := list Z.

Fixpoint bytes_eqb (a b : bytes) : bool :=
  match a, b with
  | [], [] => true
  | x :: a', y :: b' => (x =? y) && bytes_eqb a' b'
  | _, _ => false
  end.

(* s == "" *)
Definition is_empty (s : bytes) : bool :=
  match s with [] => true | _ => false end.

(* ChatHistoryEntry *)
Record entry := mkEntry {
  e_id     : bytes;          (* Id     string *)
  e_source : bytes;          (* Source string: the sender's client id, or "" *)
  e_user   : option bytes;   (* User   *string *)
  e_time   : Z;              (* Time   time.Time, nanoseconds *)
  e_kind   : bytes;          (* Kind   string *)
  e_value  : bytes           (* Value  interface{}, opaque *)
}.

Inductive outcome (A : Type) : Type :=
| Ok (a : A)
| Panic.
Arguments Ok {A} a.
Arguments Panic {A}.

Definition zlen {A} (l : list A) : Z := Z.of_nat (length l).

(* ---- Go slice statements on a slice whose backing array is not shared ---- *)

(* copy(dst, src): the first min(len dst, len src) elements of dst are
   replaced by those of src (memmove semantics: src is read as it was) *)
Definition go_copy {A} (dst src : list A) : list A :=
  let n := Nat.min (length dst) (length src) in
  firstn n src ++ skipn n dst.

(* h[i:] -- panics when i > len(h) *)
Definition slice_from {A} (h : list A) (i : Z) : outcome (list A) :=
  if (0 <=? i) && (i <=? zlen h) then Ok (skipn (Z.to_nat i) h) else Panic.

(* h[:k] for k <= len(h) -- panics when k < 0 (and when k > cap(h); only
   used with k <= len(h)) *)
Definition slice_to {A} (h : list A) (k : Z) : outcome (list A) :=
  if (0 <=? k) && (k <=? zlen h) then Ok (firstn (Z.to_nat k) h) else Panic.

(* ---- time ---- *)

Definition minDuration : Z := -9223372036854775808.
Definition maxDuration : Z := 9223372036854775807.

(* Time.Sub saturates at the int64 range of Duration *)
Definition sat64 (x : Z) : Z :=
  if x <? minDuration then minDuration
  else if maxDuration <? x then maxDuration
  else x.

(* time.Since(t) when the clock reads now *)
Definition since (now t : Z) : Z := sat64 (now - t).

(* int64 multiplication wraps *)
Definition wrap_i64 (x : Z) : Z :=
  (x + 9223372036854775808) mod 18446744073709551616 - 9223372036854775808.

(* maxHistoryAge(desc): n is desc.MaxHistoryAge (json "max-history-age", an
   int: any int64, no validation)
     if desc.MaxHistoryAge != 0 {
         return time.Duration(desc.MaxHistoryAge) * time.Second }
     return DefaultMaxHistoryAge *)
Definition max_history_age (n : Z) : Z :=
  if negb (n =? 0) then wrap_i64 (n * maxHistoryAgeUnit)
  else defaultMaxHistoryAge.

(* ---- AddToChatHistory ----
     if len(g.history) >= maxChatHistory {
         copy(g.history, g.history[1:])
         g.history = g.history[:len(g.history)-1]
     }
     g.history = append(g.history, ChatHistoryEntry{...}) *)
Definition add_to_history (h : list entry) (e : entry) : outcome (list entry) :=
  if maxChatHistory <=? zlen h then
    match slice_from h 1 with
    | Panic => Panic
    | Ok src =>
        let h1 := go_copy h src in
        match slice_to h1 (zlen h1 - 1) with
        | Panic => Panic
        | Ok h2 => Ok (h2 ++ [e])
        end
    end
  else Ok (h ++ [e]).

(* ---- discardObsoleteHistory ----
     i := 0
     for i < len(h) {
         if time.Since(h[i].Time) <= duration { break }
         i++
     }
     if i > 0 { copy(h, h[i:]); h = h[:len(h)-i] }
     return h
   [count_obsolete_clk clk k dur h] is the final i minus k when the loop is
   at index k with h the remaining entries; clk j is the clock reading of
   iteration j.  i <= len(h), so neither slice expression can panic. *)
Fixpoint count_obsolete_clk (clk : nat -> Z) (k : nat) (dur : Z) (h : list entry) : nat :=
  match h with
  | [] => O
  | e :: t =>
      if since (clk k) (e_time e) <=? dur then O
      else S (count_obsolete_clk clk (S k) dur t)
  end.

Definition discard_obsolete_clk (clk : nat -> Z) (dur : Z) (h : list entry) : list entry :=
  let i := count_obsolete_clk clk O dur h in
  if (0 <? i)%nat then
    let h1 := go_copy h (skipn i h) in
    firstn (length h1 - i) h1
  else h.

Definition count_obsolete (now dur : Z) (h : list entry) : nat :=
  count_obsolete_clk (fun _ => now) O dur h.

Definition discard_obsolete (now dur : Z) (h : list entry) : list entry :=
  discard_obsolete_clk (fun _ => now) dur h.

(* ---- GetChatHistory: the new g.history and the returned copy ---- *)
Definition get_history (now : Z) (age_cfg : Z) (h : list entry)
  : list entry * list entry :=
  let h' := discard_obsolete now (max_history_age age_cfg) h in
  (h', h').

(* ---- ClearChatHistory ----
     if id == "" && userId == "" { g.history = nil; return }
     g.history = slices.DeleteFunc(g.history, func(e ChatHistoryEntry) bool {
         return e.Source == userId && (id == "" || e.Id == id) }) *)
Definition clear_match (id uid : bytes) (e : entry) : bool :=
  bytes_eqb (e_source e) uid && (is_empty id || bytes_eqb (e_id e) id).

(* slices.DeleteFunc keeps the elements for which del is false, in order *)
Fixpoint delete_func {A} (del : A -> bool) (l : list A) : list A :=
  match l with
  | [] => []
  | x :: t => if del x then delete_func del t else x :: delete_func del t
  end.

Definition clear_history (id uid : bytes) (h : list entry) : list entry :=
  if is_empty id && is_empty uid then []
  else delete_func (clear_match id uid) h.

(* ---- replay on join (rtpconn/webclient.go, handleAction, joinedAction,
   kind "join"): one "chathistory" message per entry of g.GetChatHistory(),
   in slice order.  Time is m.Time.Format(RFC3339) there; here the time
   itself. ---- *)
Record hist_msg := mkMsg {
  m_id : bytes; m_source : bytes; m_username : option bytes;
  m_time : Z; m_value : bytes; m_kind : bytes
}.
Definition chathistory_msg (e : entry) : hist_msg :=
  mkMsg (e_id e) (e_source e) (e_user e) (e_time e) (e_value e) (e_kind e).

(* the argument check of the "clearchat" group action in handleClientMessage:
   an id without a userId is refused ("bad value in clearchat") *)
Definition clearchat_accepted (id uid : bytes) : bool :=
  negb (is_empty uid && negb (is_empty id)).

(* ---- the group's history as a state machine ---- *)
Record state := mkState {
  st_hist : list entry;
  st_age  : Z            (* description.MaxHistoryAge *)
}.

Definition init (age_cfg : Z) : state := mkState [] age_cfg.

Inductive op :=
| OAdd (e : entry)            (* AddToChatHistory *)
| OGet (now : Z)              (* GetChatHistory when the clock reads now *)
| OClear (id uid : bytes)     (* ClearChatHistory *)
| OSetAge (n : Z)             (* the description is replaced (group.Add) *)
| OJoin (now : Z)             (* replay to a joiner *)
| ORaw.                       (* verif hook: g.history as it is, no discard *)

Inductive out :=
| RUnit
| RHist (h : list entry)
| RMsgs (l : list hist_msg)
| RPanic.

Definition step (s : state) (o : op) : state * out :=
  match o with
  | OAdd e =>
      match add_to_history (st_hist s) e with
      | Ok h => (mkState h (st_age s), RUnit)
      | Panic => (s, RPanic)
      end
  | OGet now =>
      let '(h, r) := get_history now (st_age s) (st_hist s) in
      (mkState h (st_age s), RHist r)
  | OClear id uid => (mkState (clear_history id uid (st_hist s)) (st_age s), RUnit)
  | OSetAge n => (mkState (st_hist s) n, RUnit)
  | OJoin now =>
      let '(h, r) := get_history now (st_age s) (st_hist s) in
      (mkState h (st_age s), RMsgs (map chathistory_msg r))
  | ORaw => (s, RHist (st_hist s))
  end.

Definition run (s : state) (ops : list op) : state :=
  fold_left (fun s o => fst (step s o)) ops s.

(* the outputs of a run, in order *)
Fixpoint outs (s : state) (ops : list op) : list out :=
  match ops with
  | [] => []
  | o :: t => snd (step s o) :: outs (fst (step s o)) t
  end.

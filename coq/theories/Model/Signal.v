(* Executable model of galene's signalling layer: rtpconn/webclient.go
   (handleClientMessage, handleAction, leaveGroup, the connection-end code of
   StartClient/clientLoop) and the parts of group/group.go it calls (AddClient,
   DelClient, SetLocked, UpdateData, chat history, GetPermission for password
   and stateful-token credentials).  No proofs here.

   Shared by C07, C11, C12, C14, C15.  What is modelled is the decision
   structure and the state changes, not WebRTC:

   * a connection is a [client] record (webClient); [c_group = None] is Go's
     [c.group == nil]; every place where the Go code dereferences [c.group]
     without a preceding nil test is an explicit [Panic] outcome;
   * the event loop of a client is NOT a thread here: an operation [OpMsg]
     is "clientLoop reads one message", [OpPump] is one iteration of
     [case <-c.actions.Ch] (the whole queue is taken and handled in order,
     an error drops the rest of the batch and ends the connection); every
     interleaving of the real loops is a sequence of these operations;
   * what a client is sent accumulates in [c_out];
   * WebRTC negotiation is the oracle [m_sdp] of an [offer] message (the
     session description does not parse / parses but is refused by the peer
     connection / is accepted); no media ever flows, so a pushed connection
     never has tracks and [c_down] is only ever changed by deletions
     (the media path is C07's extension; the down-connection lookups are
     nevertheless modelled on an arbitrary [c_down]);
   * password matching is string equality (plain passwords), stateful tokens
     are records in [w_tokens], a token made by [maketoken] gets the name
     [tokname n] for the n-th creation (the real name is 8 random bytes; the
     correspondence driver renames by order of creation); time is abstracted
     to the sign of a relative expiry (the driver only uses +-1 hour);
   * NOT modelled: autolock/autokick, the validity window of a group
     description, JWT tokens, changes of description files, subgroup
     creation, the recording client beyond its membership flag.

   Modularity: chat/history ([chat_*], [hist_*]), user-list events
   ([push_client_*]) and subscription logic ([request_*], [push_conn_*]) are
   separate definitions so that C07/C14/C15 can extend them. *)
From Coq Require Import ZArith List Bool String Ascii Arith.
From Galene Require Import Generated.Guards.
Import ListNotations.
Open Scope string_scope.

Definition str := string.

Definition mem (p : str) (l : list str) : bool := existsb (String.eqb p) l.
Definition subset (l1 l2 : list str) : bool := forallb (fun p => mem p l2) l1.

(* webclient.go remove (every occurrence, since b21f80e) / addnew *)
Fixpoint remove (v : str) (l : list str) : list str :=
  match l with
  | [] => []
  | w :: r => if String.eqb v w then remove v r else w :: remove v r
  end.
Definition addnew (v : str) (l : list str) : list str :=
  if mem v l then l else app l [v].

Definition is_empty (s : str) : bool := String.eqb s "".

(* ------------------------------------------------------------------ *)
(* Guards: the table generated from handleClientMessage               *)

Definition guard_row := (str * str * bool * list str)%type.

Fixpoint lookup_guard (tbl : list guard_row) (t k : str) : option (bool * list str) :=
  match tbl with
  | [] => None
  | (t', k', m, ps) :: r =>
      if String.eqb t t' && String.eqb k k' then Some (m, ps) else lookup_guard r t k
  end.

Definition type_known (tbl : list guard_row) (t : str) : bool :=
  existsb (fun r => String.eqb t (fst (fst (fst r)))) tbl.

(* exact (type, kind), else (type, "_"), else ("_", "_") *)
Definition guard_of (t k : str) : bool * list str :=
  match lookup_guard guards t k with
  | Some g => g
  | None =>
      match lookup_guard guards t "_" with
      | Some g => g
      | None =>
          match lookup_guard guards "_" "_" with
          | Some g => g
          | None => (false, [])
          end
      end
  end.

Definition needs_member (t k : str) : bool := fst (guard_of t k).
(* the real permissions of the row ("@self" is not a permission) *)
Definition required (t k : str) : list str :=
  filter (fun p => negb (String.eqb p "@self")) (snd (guard_of t k)).
Definition needs_self (t k : str) : bool := mem "@self" (snd (guard_of t k)).

(* ------------------------------------------------------------------ *)
(* Static configuration                                               *)

Record user := mkUser {
  u_name : str; u_pw : str; u_wild : bool; u_perms : list str }.

Record desc := mkDesc {
  d_users : list user; d_wildcard : option user;
  d_redirect : str; d_allowrec : bool; d_maxclients : Z }.

Record tokenrec := mkTok {
  t_name : str; t_group : str; t_user : option str; t_perms : list str;
  t_expires : option Z;      (* relative to "now": usable iff > 0 *)
  t_notbefore : option Z;    (* not yet usable iff > 0 *)
  t_issuedby : option str }.

Record chatentry := mkChat {
  h_id : str; h_source : str; h_user : option str; h_kind : str; h_value : str }.

Definition maxChatHistory : nat := 50.

(* ------------------------------------------------------------------ *)
(* Messages                                                           *)

Inductive sdpkind := SdpBad | SdpRefused | SdpGood.

Record tokspec := mkTokSpec {
  ts_token : str; ts_user : option str; ts_group : str;
  ts_perms : option (list str); ts_expires : option Z; ts_notbefore : option Z }.

Inductive value :=
| VNone
| VStr (s : str)
| VMap (l : list (str * option str))   (* string or null valued *)
| VTok (t : tokspec)                   (* a map that parseStatefulToken accepts *)
| VOther.                              (* any other JSON value *)

Inductive reqval :=
| RNone | RMap (l : list (str * list str)) | RList (l : list str) | RBad.

Record msg := mkMsg {
  m_type : str; m_kind : str; m_id : str; m_replace : str;
  m_source : str; m_dest : str; m_username : option str;
  m_password : str; m_token : str; m_group : str;
  m_value : value; m_noecho : bool; m_sdp : sdpkind; m_label : str;
  m_request : reqval; m_candidate : bool; m_data : list (str * str) }.

(* server-to-client messages, the fields of sigdrv.Msg *)
Record outmsg := mkOut {
  o_type : str; o_kind : str; o_id : str; o_source : str; o_dest : str;
  o_user : option str; o_priv : bool; o_perms : list str; o_value : str;
  o_group : str; o_error : str; o_locked : bool }.

Definition out_plain (t k id : str) : outmsg :=
  mkOut t k id "" "" None false [] "" "" "" false.
(* errorMessage(id, UserError v) *)
Definition out_error (dest v : str) : outmsg :=
  mkOut "usermessage" "error" "" "" dest None true [] v "" "" false.
Definition out_joined (kind g user : str) (perms : list str) (e v : str) (locked : bool) : outmsg :=
  mkOut "joined" kind "" "" "" (Some user) false perms v g e locked.
Definition out_user (kind id user : str) (perms : list str) : outmsg :=
  mkOut "user" kind id "" "" (Some user) false perms "" "" "" false.
Definition out_token (kind e v : str) : outmsg :=
  mkOut "usermessage" kind "" "" "" None true [] v "" e false.

(* the value of a library error text (pion, sdp, time): not compared *)
Definition lib_error : str := "?".

(* ------------------------------------------------------------------ *)
(* Actions (the elements of webClient.actions)                        *)

Inductive action :=
| APushConn (g : option str) (id : str) (has_conn : bool) (replace : str)
| ARequestConns (g : option str) (target : option nat) (id : str)
| AConnFailed (id : str)
| APushClient (g kind id username : str) (perms : list str) (data : list (str * str))
| AJoined (g kind : str)
| AChangePerms (g : str) (kind : str)
| APermsChanged
| AKick (id : str) (user : option str) (message : str).

(* ------------------------------------------------------------------ *)
(* Dynamic state                                                      *)

Record upconn := mkUp { up_id : str; up_label : str; up_replace : str }.
Record downconn := mkDown {
  dn_id : str; dn_remote : nat; dn_remote_id : str; dn_requested : list str }.

Record client := mkClient {
  c_id : str;
  c_group : option str;
  c_username : str;
  c_perms : list str;
  c_data : list (str * str);
  c_requested : list (str * list str);
  c_up : list upconn;
  c_down : list downconn;
  c_queue : list action;
  c_out : list outmsg;
  c_closed : bool }.

Record group := mkGroup {
  g_name : str; g_desc : desc;
  g_locked : option str;
  g_members : list nat;           (* connection handles, in join order *)
  g_recording : bool;             (* a diskwriter client is a member *)
  g_history : list chatentry;     (* oldest first *)
  g_data : list (str * str) }.

Record world := mkWorld {
  w_groups : list group;
  w_clients : list client;
  w_tokens : list tokenrec;
  w_tokctr : nat }.

Definition empty_world : world := mkWorld [] [] [] 0.

Definition new_client (id : str) : client :=
  mkClient id None "" [] [] [] [] [] [] [] false.

(* client setters *)
Definition set_group (c : client) (g : option str) : client :=
  mkClient (c_id c) g (c_username c) (c_perms c) (c_data c) (c_requested c)
           (c_up c) (c_down c) (c_queue c) (c_out c) (c_closed c).
Definition set_username (c : client) (u : str) : client :=
  mkClient (c_id c) (c_group c) u (c_perms c) (c_data c) (c_requested c)
           (c_up c) (c_down c) (c_queue c) (c_out c) (c_closed c).
Definition set_perms (c : client) (p : list str) : client :=
  mkClient (c_id c) (c_group c) (c_username c) p (c_data c) (c_requested c)
           (c_up c) (c_down c) (c_queue c) (c_out c) (c_closed c).
Definition set_data (c : client) (d : list (str * str)) : client :=
  mkClient (c_id c) (c_group c) (c_username c) (c_perms c) d (c_requested c)
           (c_up c) (c_down c) (c_queue c) (c_out c) (c_closed c).
Definition set_requested (c : client) (r : list (str * list str)) : client :=
  mkClient (c_id c) (c_group c) (c_username c) (c_perms c) (c_data c) r
           (c_up c) (c_down c) (c_queue c) (c_out c) (c_closed c).
Definition set_up (c : client) (u : list upconn) : client :=
  mkClient (c_id c) (c_group c) (c_username c) (c_perms c) (c_data c) (c_requested c)
           u (c_down c) (c_queue c) (c_out c) (c_closed c).
Definition set_down (c : client) (d : list downconn) : client :=
  mkClient (c_id c) (c_group c) (c_username c) (c_perms c) (c_data c) (c_requested c)
           (c_up c) d (c_queue c) (c_out c) (c_closed c).
Definition set_queue (c : client) (q : list action) : client :=
  mkClient (c_id c) (c_group c) (c_username c) (c_perms c) (c_data c) (c_requested c)
           (c_up c) (c_down c) q (c_out c) (c_closed c).
Definition set_out (c : client) (o : list outmsg) : client :=
  mkClient (c_id c) (c_group c) (c_username c) (c_perms c) (c_data c) (c_requested c)
           (c_up c) (c_down c) (c_queue c) o (c_closed c).
Definition set_closed (c : client) (b : bool) : client :=
  mkClient (c_id c) (c_group c) (c_username c) (c_perms c) (c_data c) (c_requested c)
           (c_up c) (c_down c) (c_queue c) (c_out c) b.

(* group setters *)
Definition gset_locked (g : group) (l : option str) : group :=
  mkGroup (g_name g) (g_desc g) l (g_members g) (g_recording g) (g_history g) (g_data g).
Definition gset_members (g : group) (m : list nat) : group :=
  mkGroup (g_name g) (g_desc g) (g_locked g) m (g_recording g) (g_history g) (g_data g).
Definition gset_recording (g : group) (b : bool) : group :=
  mkGroup (g_name g) (g_desc g) (g_locked g) (g_members g) b (g_history g) (g_data g).
Definition gset_history (g : group) (h : list chatentry) : group :=
  mkGroup (g_name g) (g_desc g) (g_locked g) (g_members g) (g_recording g) h (g_data g).
Definition gset_data (g : group) (d : list (str * str)) : group :=
  mkGroup (g_name g) (g_desc g) (g_locked g) (g_members g) (g_recording g) (g_history g) d.
Definition gset_desc (g : group) (d : desc) : group :=
  mkGroup (g_name g) d (g_locked g) (g_members g) (g_recording g) (g_history g) (g_data g).

(* world setters *)
Definition wset_groups (w : world) (gs : list group) : world :=
  mkWorld gs (w_clients w) (w_tokens w) (w_tokctr w).
Definition wset_clients (w : world) (cs : list client) : world :=
  mkWorld (w_groups w) cs (w_tokens w) (w_tokctr w).
Definition wset_tokens (w : world) (ts : list tokenrec) (n : nat) : world :=
  mkWorld (w_groups w) (w_clients w) ts n.

Fixpoint upd_nth {A : Type} (n : nat) (f : A -> A) (l : list A) : list A :=
  match l, n with
  | [], _ => []
  | x :: r, O => f x :: r
  | x :: r, S k => x :: upd_nth k f r
  end.

Definition get_client (w : world) (h : nat) : option client := nth_error (w_clients w) h.
(* every change of a client goes through [upd] *)
Definition upd (w : world) (h : nat) (f : client -> client) : world :=
  wset_clients w (upd_nth h f (w_clients w)).

(* the two ways in which a client acts on ANOTHER client: c.action(a) and
   c.write(m) (or the broadcast payload) *)
Definition enq (w : world) (h : nat) (a : action) : world :=
  upd w h (fun c => set_queue c (app (c_queue c) [a])).
Definition send (w : world) (h : nat) (m : outmsg) : world :=
  upd w h (fun c => set_out c (app (c_out c) [m])).
Definition enq_all (w : world) (hs : list nat) (a : action) : world :=
  fold_left (fun w h => enq w h a) hs w.
Definition send_all (w : world) (hs : list nat) (m : outmsg) : world :=
  fold_left (fun w h => send w h m) hs w.

Fixpoint find_group_in (gs : list group) (name : str) : option group :=
  match gs with
  | [] => None
  | g :: r => if String.eqb (g_name g) name then Some g else find_group_in r name
  end.
Definition find_group (w : world) (name : str) : option group :=
  find_group_in (w_groups w) name.
Definition upd_group (w : world) (name : str) (f : group -> group) : world :=
  wset_groups w (map (fun g => if String.eqb (g_name g) name then f g else g) (w_groups w)).

Definition members (w : world) (name : str) : list nat :=
  match find_group w name with Some g => g_members g | None => [] end.
Definition others (w : world) (name : str) (h : nat) : list nat :=
  filter (fun x => negb (Nat.eqb x h)) (members w name).

(* g.GetClient(id) among the web clients of the group *)
Definition get_member (w : world) (name : str) (id : str) : option nat :=
  find (fun h => match get_client w h with
                 | Some c => String.eqb (c_id c) id
                 | None => false end) (members w name).

Definition locked_flag (w : world) (name : str) : bool :=
  match find_group w name with
  | Some g => match g_locked g with Some _ => true | None => false end
  | None => false
  end.

(* ------------------------------------------------------------------ *)
(* Results                                                            *)

(* the error returned by handleClientMessage / handleAction (it ends the
   connection); EWsClose is the peer closing the connection *)
Inductive err :=
| ENone
| EProto (s : str) | EUser (s : str)
| EKick (id : str) (user : option str) (message : str)
| EInternal | EWsClose.

(* how far the message got with respect to authorisation *)
Inductive auth :=
| Passed       (* every membership/permission guard passed: the action is attempted *)
| NotAuth      (* refused: a required permission is missing *)
| JoinFirst    (* refused: not a member *)
| Invalid.     (* rejected as malformed (spoofing, empty id, unknown type or kind):
                  a ProtocolError or UserError is returned and the connection ends *)

Record res := mkRes { r_world : world; r_err : err; r_auth : auth }.
Inductive outcome := Ok (r : res) | Panic.

Definition ok (w : world) : outcome := Ok (mkRes w ENone Passed).
Definition refused (w : world) (a : auth) : outcome := Ok (mkRes w ENone a).
Definition failed (w : world) (e : err) (a : auth) : outcome := Ok (mkRes w e a).

(* c.error(group.UserError(v)) *)
Definition send_error (w : world) (h : nat) (c : client) (v : str) : world :=
  send w h (out_error (c_id c) v).

(* the guards of the generated table, evaluated where the Go code evaluates
   them *)
Definition has_perms (c : client) (t k : str) : bool := subset (required t k) (c_perms c).

(* ------------------------------------------------------------------ *)
(* Connections (bookkeeping only)                                     *)

Definition find_up (c : client) (id : str) : option upconn :=
  find (fun u => String.eqb (up_id u) id) (c_up c).
Definition find_down (c : client) (id : str) : option downconn :=
  find (fun d => String.eqb (dn_id d) id) (c_down c).
Definition del_up_list (l : list upconn) (id : str) : list upconn :=
  filter (fun u => negb (String.eqb (up_id u) id)) l.
Definition del_down_list (l : list downconn) (id : str) : list downconn :=
  filter (fun d => negb (String.eqb (dn_id d) id)) l.

(* delUpConn(c, id, c.id, push): the user test always succeeds for one's own
   connections.  Returns false if there was no such connection. *)
Definition del_up_conn (w : world) (h : nat) (id : str) (push : bool) : world * bool :=
  match get_client w h with
  | None => (w, false)
  | Some c =>
      match find_up c id with
      | None => (w, false)
      | Some u =>
          let w1 := upd w h (fun c => set_up c (del_up_list (c_up c) id)) in
          let w2 := match c_group c with
                    | Some g => if push
                                then enq_all w1 (others w1 g h)
                                       (APushConn (Some g) id false (up_replace u))
                                else w1
                    | None => w1
                    end in
          (w2, true)
      end
  end.

(* delDownConn *)
Definition del_down_conn (w : world) (h : nat) (id : str) : world :=
  upd w h (fun c => set_down c (del_down_list (c_down c) id)).

(* closeDownConn(c, id, "") *)
Definition close_down_conn (w : world) (h : nat) (id : str) : world :=
  send (del_down_conn w h id) h (out_plain "close" "" id).

(* failUpConnection(c, id, message) *)
Definition fail_up_connection (w : world) (h : nat) (c : client) (id message : str) : world :=
  let w1 := if is_empty id then w else send w h (out_plain "abort" "" id) in
  if is_empty message then w1 else send_error w1 h c message.

(* ------------------------------------------------------------------ *)
(* User-list events (C14 extends here)                                *)

Definition push_client_all (w : world) (g : str) (hs : list nat)
           (kind id user : str) (perms : list str) (data : list (str * str)) : world :=
  enq_all w hs (APushClient g kind id user perms data).

(* ------------------------------------------------------------------ *)
(* Chat history (C15 extends here)                                    *)

Definition hist_add (h : list chatentry) (e : chatentry) : list chatentry :=
  app (if Nat.leb maxChatHistory (List.length h) then tl h else h) [e].

(* ClearChatHistory(id, userId) *)
Definition hist_clear (h : list chatentry) (id userId : str) : list chatentry :=
  if is_empty id && is_empty userId then []
  else filter (fun e => negb (String.eqb (h_source e) userId &&
                              (is_empty id || String.eqb (h_id e) id))) h.

Definition out_chathistory (e : chatentry) : outmsg :=
  mkOut "chathistory" (h_kind e) (h_id e) (h_source e) "" (h_user e) false []
        (h_value e) "" "" false.

(* ------------------------------------------------------------------ *)
(* leaveGroup                                                         *)

Fixpoint del_all_ups (fuel : list upconn) (w : world) (h : nat) : world :=
  match fuel with
  | [] => w
  | u :: r => del_all_ups r (fst (del_up_conn w h (up_id u) true)) h
  end.

(* group.DelClient(c) followed by the resets of leaveGroup *)
Definition leave_group (w : world) (h : nat) : world :=
  match get_client w h with
  | None => w
  | Some c =>
      match c_group c with
      | None => w
      | Some g =>
          let w1 := del_all_ups (c_up c) w h in
          let w2 := upd w1 h (fun c => set_down c []) in
          let w3 := upd_group w2 g (fun gr =>
                      gset_members gr (filter (fun x => negb (Nat.eqb x h)) (g_members gr))) in
          let w4 := enq w3 h (AJoined g "leave") in
          let w5 := push_client_all w4 g (members w4 g) "delete" (c_id c) (c_username c) [] [] in
          upd w5 h (fun c => set_group (set_requested (set_data (set_perms c []) []) []) None)
      end
  end.

(* ------------------------------------------------------------------ *)
(* Admission: group.AddClient for a web client (simplified; C10 has   *)
(* the full model in Model/Admission.v)                               *)

Inductive joinerr :=
| JNotExist | JNeedUsername | JDuplicateUsername | JNotAuthorised
| JUserError (s : str) | JInternal.

Definition find_user (d : desc) (name : str) : option user :=
  find (fun u => String.eqb (u_name u) name) (d_users d).
Definition pw_match (u : user) (pw : str) : bool := u_wild u || String.eqb (u_pw u) pw.
Definition find_token (w : world) (name : str) : option tokenrec :=
  find (fun t => String.eqb (t_name t) name) (w_tokens w).
(* state.tokens[name] = nw: the entry found by find_token is replaced *)
Fixpoint replace_tok (name : str) (nw : tokenrec) (l : list tokenrec) : list tokenrec :=
  match l with
  | [] => []
  | x :: r => if String.eqb (t_name x) name then nw :: r else x :: replace_tok name nw r
  end.
Definition token_usable (t : tokenrec) : bool :=
  match t_expires t with
  | None => false
  | Some e => (0 <? e)%Z && match t_notbefore t with
                            | Some n => negb (0 <? n)%Z
                            | None => true end
  end.

(* Description.GetPermission: username and permissions, or an error *)
Definition get_permission (w : world) (g : group) (username : option str)
           (password token : str) : (str * list str) + joinerr :=
  if negb (is_empty token) then
    match find_token w token with
    | None => inr JNotAuthorised
    | Some t =>
        match username, t_user t with
        | None, None => inr JNeedUsername
        | _, _ =>
            if negb (String.eqb (t_group t) (g_name g)) then inr JNotAuthorised
            else if negb (token_usable t) then inr JNotAuthorised
            else
              let tu := match t_user t with Some u => u | None => "" end in
              if is_empty tu then
                match username with
                | Some u =>
                    match find_user (g_desc g) u with
                    | Some _ => inr JDuplicateUsername
                    | None => inl (u, t_perms t)
                    end
                | None => inl ("", t_perms t)
                end
              else inl (tu, t_perms t)
        end
    end
  else
    match username with
    | None => inr JInternal     (* "neither username nor token provided" *)
    | Some u =>
        match find_user (g_desc g) u with
        | Some usr => if pw_match usr password then inl (u, u_perms usr) else inr JNotAuthorised
        | None =>
            match d_wildcard (g_desc g) with
            | Some wu => if pw_match wu password then inl (u, u_perms wu) else inr JNotAuthorised
            | None => inr JNotAuthorised
            end
        end
    end.

(* AddClient(group, c, creds): the client record is changed by c.Init even
   when the admission fails afterwards (the caller clears the permissions,
   not the username) *)
Definition add_client (w : world) (h : nat) (c : client) (gname : str)
           (username : option str) (password token : str) : world * option joinerr :=
  match find_group w gname with
  | None => (w, Some JNotExist)
  | Some g =>
      let clients := g_members g in
      (* webClient permissions never contain "system" unless a moderator... :
         the test is transcribed anyway *)
      let step1 : (world * client) + (world * joinerr) :=
        if mem "system" (c_perms c) then inl (w, c)
        else
          match get_permission w g username password token with
          | inr e => inr (w, e)
          | inl (uname, perms) =>
              let w1 := upd w h (fun c => set_perms (set_username c uname) perms) in
              let c1 := set_perms (set_username c uname) perms in
              if mem "op" perms then inl (w1, c1)
              else
                match g_locked g with
                | Some m => inr (w1, JUserError (if is_empty m then "this group is locked" else m))
                | None =>
                    if ((0 <? d_maxclients (g_desc g))%Z &&
                        (d_maxclients (g_desc g) <=?
                           Z.of_nat (List.length (g_members g) + (if g_recording g then 1 else 0)))%Z)
                    then inr (w1, JUserError "too many users")
                    else inl (w1, c1)
                end
          end in
      match step1 with
      | inr (w1, e) => (w1, Some e)
      | inl (w1, c1) =>
          if is_empty (c_id c1) then (w1, Some JInternal)
          else match get_member w1 gname (c_id c1) with
          | Some _ => (w1, Some JInternal)      (* ProtocolError("duplicate client id") *)
          | None =>
              let w2 := upd_group w1 gname (fun gr => gset_members gr (app (g_members gr) [h])) in
              let w3 := enq w2 h (AJoined gname "join") in
              let w4 := enq w3 h (APushClient gname "add" (c_id c1) (c_username c1)
                                              (c_perms c1) (c_data c1)) in
              let w4' := if g_recording g
                         then enq w4 h (APushClient gname "add" "?" "RECORDING" ["system"] [])
                         else w4 in
              let w5 := fold_left (fun w cc =>
                          match get_client w cc with
                          | None => w
                          | Some ccr =>
                              let w' := enq w h (APushClient gname "add" (c_id ccr) (c_username ccr)
                                                             (c_perms ccr) (c_data ccr)) in
                              enq w' cc (APushClient gname "add" (c_id c1) (c_username c1)
                                                     (c_perms c1) (c_data c1))
                          end) clients w4' in
              (w5, None)
          end
      end
  end.

Definition join_fail_text (e : joinerr) : str * str :=   (* (error, value) *)
  match e with
  | JNeedUsername => ("need-username", "username required")
  | JDuplicateUsername => ("duplicate-username", "not authorised: this username is taken")
  | JNotAuthorised => ("", "not authorised")
  | JNotExist => ("", "group does not exist")
  | JUserError s => ("", s)
  | JInternal => ("", "internal server error")
  end.

(* ------------------------------------------------------------------ *)
(* handleClientMessage                                                *)

Definition handle_join (w : world) (h : nat) (c : client) (m : msg) : outcome :=
  if String.eqb (m_kind m) "leave" then
    match c_group c with
    | Some g => if String.eqb g (m_group m) then ok (leave_group w h)
                else failed w (EUser "you are not joined") Invalid
    | None => failed w (EUser "you are not joined") Invalid
    end
  else if negb (String.eqb (m_kind m) "join") then failed w (EProto "unknown kind") Invalid
  else match c_group c with
  | Some _ => failed w (EProto "cannot join multiple groups") Invalid
  | None =>
      let redirect := match find_group w (m_group m) with
                      | Some g => d_redirect (g_desc g) | None => "" end in
      if negb (is_empty redirect) then
        ok (send w h (out_joined "redirect" (m_group m) (c_username c) [] "" redirect false))
      else
        let w0 := upd w h (fun c => set_data c (m_data m)) in
        let c0 := set_data c (m_data m) in
        match add_client w0 h c0 (m_group m) (m_username m) (m_password m) (m_token m) with
        | (w1, Some e) =>
            let w2 := upd w1 h (fun c => set_data (set_perms c []) []) in
            let uname := match get_client w2 h with Some c' => c_username c' | None => "" end in
            let '(ec, v) := join_fail_text e in
            ok (send w2 h (out_joined "fail" (m_group m) uname [] ec v false))
        | (w1, None) => ok (upd w1 h (fun c => set_group c (Some (m_group m))))
        end
  end.

(* subscription logic (C07 extends here) *)
Definition request_conns (w : world) (target : nat) (g : str) (id : str) : world :=
  enq_all w (others w g target) (ARequestConns (Some g) (Some target) id).

Definition handle_request (w : world) (h : nat) (c : client) (m : msg) : outcome :=
  match m_request m with
  | RBad | RList _ => failed w EInternal Passed           (* errBadType *)
  | RNone | RMap _ =>
      let r := match m_request m with RMap l => l | _ => [] end in
      match c_group c with
      | None => failed w EInternal Passed   (* "attempted to request with no group joined" *)
      | Some g =>
          let w1 := upd w h (fun c => set_requested c r) in
          ok (request_conns w1 h g "")
      end
  end.

Definition handle_request_stream (w : world) (h : nat) (c : client) (m : msg) : outcome :=
  match find_down c (m_id m) with
  | None => failed w EInternal Passed       (* ErrUnknownId *)
  | Some d =>
      match m_request m with
      | RBad | RMap _ => failed w EInternal Passed
      | RNone | RList _ =>
          let r := match m_request m with RList l => l | _ => [] end in
          let w1 := upd w h (fun c => set_down c
                      (map (fun d' => if String.eqb (dn_id d') (m_id m)
                                      then mkDown (dn_id d') (dn_remote d') (dn_remote_id d') r
                                      else d') (c_down c))) in
          (* remoteClient.RequestConns(c, c.group, remote.id) *)
          ok (enq w1 (dn_remote d) (ARequestConns (c_group c) (Some h) (dn_remote_id d)))
      end
  end.

(* gotOffer.  newUpConn dereferences c.Group() without a test. *)
Definition got_offer (w : world) (h : nat) (c : client) (m : msg) : outcome :=
  let id := m_id m in
  match find_down c id with
  | Some _ => ok (fail_up_connection w h c id "adding duplicate connection")
  | None =>
      let created : option (option world) :=      (* None = Panic; Some None = error *)
        match find_up c id with
        | Some _ => Some (Some w)
        | None =>
            match m_sdp m with
            | SdpBad => Some None
            | _ =>
                match c_group c with
                | None => None                         (* c.Group().API(): nil dereference *)
                | Some g =>
                    let w1 := upd w h (fun c => set_up c (app (c_up c) [mkUp id (m_label m) ""])) in
                    (* pushConn: 200 ms later, to the members at this moment *)
                    Some (Some (enq_all w1 (others w1 g h) (APushConn (Some g) id true "")))
                end
            end
        end in
      match created with
      | None => Panic
      | Some None => ok (fail_up_connection w h c id lib_error)
      | Some (Some w1) =>
          let w2 := if is_empty (m_replace m) then w1
                    else
                      let w1' := upd w1 h (fun c => set_up c
                                   (map (fun u => if String.eqb (up_id u) id
                                                  then mkUp (up_id u) (up_label u) (m_replace m)
                                                  else u) (c_up c))) in
                      fst (del_up_conn w1' h (m_replace m) false) in
          match m_sdp m with
          | SdpGood => ok (send w2 h (out_plain "answer" "" id))
          | _ => ok (fail_up_connection w2 h c id lib_error)
          end
      end
  end.

Definition handle_offer (w : world) (h : nat) (c : client) (m : msg) : outcome :=
  if is_empty (m_id m) then failed w (EProto "empty id") Invalid
  else if negb (has_perms c "offer" (m_kind m)) then
    let w1 := if is_empty (m_replace m) then w else fst (del_up_conn w h (m_replace m) true) in
    let w2 := send w1 h (out_plain "abort" "" (m_id m)) in
    refused (send_error w2 h c "not authorised") NotAuth
  else got_offer w h c m.

Definition handle_answer (w : world) (h : nat) (c : client) (m : msg) : outcome :=
  if is_empty (m_id m) then failed w (EProto "empty id") Invalid
  else match find_down c (m_id m) with
  | None => ok (close_down_conn w h (m_id m))          (* ErrUnknownId *)
  | Some _ =>
      match m_sdp m with
      | SdpGood => ok w
      | _ => ok (send_error (close_down_conn w h (m_id m)) h c lib_error)
      end
  end.

Definition handle_renegotiate (w : world) (h : nat) (c : client) (m : msg) : outcome :=
  if is_empty (m_id m) then failed w (EProto "empty id") Invalid
  else match find_down c (m_id m) with
  | None => ok w
  | Some d =>
      (* negotiate(c, down, true, ""): a fresh offer, or a close on failure *)
      match m_sdp m with
      | SdpGood => ok (send w h (mkOut "offer" "" (dn_id d) "" "" None false [] "" "" "" false))
      | _ => ok (send_error (close_down_conn w h (m_id m)) h c lib_error)
      end
  end.

Definition handle_close (w : world) (h : nat) (c : client) (m : msg) : outcome :=
  if is_empty (m_id m) then failed w (EProto "empty id") Invalid
  else ok (fst (del_up_conn w h (m_id m) true)).

Definition handle_abort (w : world) (h : nat) (c : client) (m : msg) : outcome :=
  if is_empty (m_id m) then failed w (EProto "empty id") Invalid
  else ok (close_down_conn w h (m_id m)).

Definition handle_ice (w : world) (h : nat) (c : client) (m : msg) : outcome :=
  if is_empty (m_id m) then failed w (EProto "empty id") Invalid
  else if negb (m_candidate m) then failed w (EProto "null candidate") Invalid
  else
    (* gotICE: conn := getConn(c, id), an up connection, else a down
       connection, else nil; nil -> "unknown id in ICE" is logged and nothing
       happens; otherwise the candidate is handed to the peer connection or
       buffered (no signalling effect, errors are only logged) *)
    match find_up c (m_id m) with
    | Some _ => ok w
    | None =>
        match find_down c (m_id m) with
        | Some _ => ok w
        | None => ok w
        end
    end.

Definition value_text (v : value) : str :=
  match v with VStr s => s | VNone => "" | _ => lib_error end.

(* chat and usermessage (C15 extends here) *)
Definition handle_chat (w : world) (h : nat) (c : client) (m : msg) : outcome :=
  match (if needs_member (m_type m) (m_kind m) then c_group c else Some "") with
  | None => refused (send_error w h c "join a group first") JoinFirst
  | Some _ =>
  match c_group c with
  | None => Panic     (* the generated table says no membership test precedes g.AddToChatHistory *)
  | Some g =>
      if negb (has_perms c (m_type m) (m_kind m)) then
        refused (send_error w h c "not authorised") NotAuth
      else
        let is_chat := String.eqb (m_type m) "chat" in
        let id := if is_chat && is_empty (m_dest m) && is_empty (m_id m) then "?" else m_id m in
        let w1 := if is_chat && is_empty (m_dest m)
                  then upd_group w g (fun gr => gset_history gr
                         (hist_add (g_history gr)
                            (mkChat id (m_source m) (m_username m) (m_kind m) (value_text (m_value m)))))
                  else w in
        let mm := mkOut (m_type m) (m_kind m) id (m_source m) (m_dest m) (m_username m)
                        (mem "op" (c_perms c)) [] (value_text (m_value m)) "" "" false in
        if is_empty (m_dest m) then
          ok (send_all w1 (if m_noecho m then others w1 g h else members w1 g) mm)
        else
          match get_member w1 g (m_dest m) with
          | None => ok (send_error w1 h c "user unknown")
          | Some d => ok (send w1 d mm)
          end
  end end.

Definition tokname (n : nat) : str :=
  "T" ++ String (Ascii.ascii_of_nat (48 + n / 100 mod 10))
        (String (Ascii.ascii_of_nat (48 + n / 10 mod 10))
        (String (Ascii.ascii_of_nat (48 + n mod 10)) "")).

Definition terror (w : world) (h : nat) (kind e v : str) : world :=
  send w h (out_token kind e v).

Fixpoint update_data (d : list (str * str)) (k : str) (v : option str) : list (str * str) :=
  match d with
  | [] => match v with Some x => [(k, x)] | None => [] end
  | (k', x') :: r =>
      if String.eqb k k' then match v with Some x => (k, x) :: r | None => r end
      else (k', x') :: update_data r k v
  end.
Definition update_data_all (d : list (str * str)) (l : list (str * option str)) :=
  fold_left (fun d kv => update_data d (fst kv) (snd kv)) l d.

Definition map_get (l : list (str * option str)) (k : str) : str :=
  match find (fun kv => String.eqb (fst kv) k) l with
  | Some (_, Some v) => v
  | _ => ""
  end.

Definition handle_groupaction (w : world) (h : nat) (c : client) (m : msg) : outcome :=
  let k := m_kind m in
  match (if needs_member "groupaction" k then c_group c else Some "") with
  | None => refused (send_error w h c "join a group first") JoinFirst
  | Some _ =>
  match c_group c with
  | None => Panic
  | Some g =>
  if String.eqb k "clearchat" then
    if negb (has_perms c "groupaction" k) then refused (send_error w h c "not authorised") NotAuth
    else
      let bad := ok (send_error w h c "bad value in clearchat") in
      let go (id userId : str) (vtext : str) :=
        let w1 := upd_group w g (fun gr => gset_history gr (hist_clear (g_history gr) id userId)) in
        ok (send_all w1 (members w1 g)
              (mkOut "usermessage" "clearchat" "" "" "" None true [] vtext "" "" false)) in
      match m_value m with
      | VNone => go "" "" ""
      | VMap l =>
          let id := map_get l "id" in
          let userId := map_get l "userId" in
          if is_empty userId && negb (is_empty id) then bad else go id userId lib_error
      | _ => bad
      end
  else if String.eqb k "lock" || String.eqb k "unlock" then
    if negb (has_perms c "groupaction" k) then refused (send_error w h c "not authorised") NotAuth
    else
      let message := match m_value m with VStr s => s | _ => "" end in
      let w1 := upd_group w g (fun gr =>
                  gset_locked gr (if String.eqb k "lock" then Some message else None)) in
      ok (enq_all w1 (members w1 g) (AJoined g "change"))
  else if String.eqb k "record" then
    if negb (has_perms c "groupaction" k) then refused (send_error w h c "not authorised") NotAuth
    else
      match find_group w g with
      | None => ok w
      | Some gr =>
          if g_recording gr then ok (send_error w h c "already recording")
          else
            (* the recorder joins as a system client: every member is told *)
            let w1 := upd_group w g (fun gr => gset_recording gr true) in
            let w2 := push_client_all w1 g (members w1 g) "add" "?" "RECORDING" ["system"] [] in
            ok (enq_all w2 (members w2 g) (ARequestConns (Some g) None ""))
      end
  else if String.eqb k "unrecord" then
    if negb (has_perms c "groupaction" k) then refused (send_error w h c "not authorised") NotAuth
    else
      match find_group w g with
      | None => ok w
      | Some gr =>
          if g_recording gr then
            let w1 := upd_group w g (fun gr => gset_recording gr false) in
            ok (push_client_all w1 g (members w1 g) "delete" "?" "RECORDING" [] [])
          else ok w
      end
  else if String.eqb k "subgroups" then
    if negb (has_perms c "groupaction" k) then refused (send_error w h c "not authorised") NotAuth
    else
      let populated := existsb (fun gr =>
                         String.prefix (g ++ "/") (g_name gr) &&
                         negb (Nat.eqb (List.length (g_members gr)) 0)) (w_groups w) in
      ok (send w h (mkOut "chat" "" "" "" (c_id c) (Some "Server") false []
                          (if populated then lib_error else "") "" "" false))
  else if String.eqb k "setdata" then
    if negb (has_perms c "groupaction" k) then refused (send_error w h c "not authorised") NotAuth
    else
      match m_value m with
      | VMap l =>
          let w1 := upd_group w g (fun gr => gset_data gr (update_data_all (g_data gr) l)) in
          ok (enq_all w1 (members w1 g) (AJoined g "change"))
      | _ => ok (send_error w h c "Bad value in setdata")
      end
  else if String.eqb k "maketoken" then
    if negb (has_perms c "groupaction" k) then
      refused (terror w h "token" "not-authorised" "not authorised") NotAuth
    else
      match m_value m with
      | VTok t =>
          if negb (is_empty (ts_token t)) then ok (terror w h "token" "error" "client specified token")
          else match c_group c with
          | None => Panic                              (* c.group.Name() *)
          | Some g' =>
          if negb (String.eqb (ts_group t) g') then ok (terror w h "token" "error" "wrong group in token")
          else match ts_expires t with
          | None => ok (terror w h "token" "error" "token doesn't expire")
          | Some e =>
              let taken := match ts_user t, find_group w g' with
                           | Some u, Some gr =>
                               match find_user (g_desc gr) u with Some _ => true | None => false end
                           | _, _ => false
                           end in
              if taken then ok (terror w h "token" "error" "that username is taken")
              else
                let ps := match ts_perms t with Some l => l | None => [] end in
                if negb (subset ps (c_perms c)) then
                  (* the delegation test: a refusal for lack of permission *)
                  refused (terror w h "token" "not-authorised" "not authorised") NotAuth
                else
                  let name := tokname (w_tokctr w) in
                  let issuer := if is_empty (c_username c) then None else Some (c_username c) in
                  let tk := mkTok name (ts_group t) (ts_user t) ps (Some e) (ts_notbefore t) issuer in
                  let w1 := wset_tokens w (app (w_tokens w) [tk]) (S (w_tokctr w)) in
                  ok (terror w1 h "token" "" name)
          end end
      | _ => ok (terror w h "token" "error" lib_error)
      end
  else if String.eqb k "edittoken" then
    if negb (has_perms c "groupaction" k) then
      refused (terror w h "token" "not-authorised" "not authorised") NotAuth
    else
      match m_value m with
      | VTok t =>
          if negb (is_empty (ts_group t)) ||
             match ts_user t with Some _ => true | None => false end ||
             match ts_perms t with Some _ => true | None => false end
          then ok (terror w h "token" "error" "this field cannot be edited")
          else match find_token w (ts_token t) with
          | None => ok (terror w h "token" "error" lib_error)        (* os.ErrNotExist *)
          | Some old =>
              match c_group c with
              | None => Panic                          (* c.group.Name() *)
              | Some g' =>
                  if negb (String.eqb (t_group old) g') then
                    ok (terror w h "token" "error" "wrong group in token")
                  else
                    let nw := mkTok (t_name old) (t_group old) (t_user old) (t_perms old)
                                    (match ts_expires t with Some e => Some e | None => t_expires old end)
                                    (match ts_notbefore t with Some n => Some n | None => t_notbefore old end)
                                    (t_issuedby old) in
                    let w1 := wset_tokens w (replace_tok (t_name old) nw (w_tokens w))
                                          (w_tokctr w) in
                    ok (terror w1 h "token" "" (t_name old))
              end
          end
      | _ => ok (terror w h "token" "error" lib_error)
      end
  else if String.eqb k "listtokens" then
    if negb (has_perms c "groupaction" k) then
      refused (terror w h "tokenlist" "not-authorised" "not authorised") NotAuth
    else
      match c_group c with
      | None => Panic                                  (* c.group.Name() *)
      | Some g' =>
          let names := map t_name (filter (fun t => String.eqb (t_group t) g') (w_tokens w)) in
          ok (send w h (mkOut "usermessage" "tokenlist" "" "" "" None true names "" "" "" false))
      end
  else failed w (EUser "unknown group action") Invalid
  end end.

Definition is_perm_kind (k : str) : bool :=
  String.eqb k "op" || String.eqb k "unop" || String.eqb k "present" ||
  String.eqb k "unpresent" || String.eqb k "shutup" || String.eqb k "unshutup".

Definition handle_useraction (w : world) (h : nat) (c : client) (m : msg) : outcome :=
  let k := m_kind m in
  match (if needs_member "useraction" k then c_group c else Some "") with
  | None => refused (send_error w h c "join a group first") JoinFirst
  | Some _ =>
  match c_group c with
  | None => Panic
  | Some g =>
  if is_perm_kind k then
    if negb (has_perms c "useraction" k) then refused (send_error w h c "not authorised") NotAuth
    else match get_member w g (m_dest m) with
    | None => ok (send_error w h c "no suck user")
    | Some t => ok (enq w t (AChangePerms g k))
    end
  else if String.eqb k "identify" then
    if negb (has_perms c "useraction" k) then refused (send_error w h c "not authorised") NotAuth
    else match get_member w g (m_dest m) with
    | None => ok (send_error w h c "client not found")
    | Some d =>
        match get_client w d with
        | None => ok w
        | Some dc =>
            let w1 := send w d (mkOut "usermessage" "warning" "" "" (c_id dc) None true []
                                      lib_error "" "" false) in
            ok (send w1 h (mkOut "usermessage" "userinfo" (c_id dc) "" ""
                                 (if is_empty (c_username dc) then None else Some (c_username dc))
                                 true [] "" "" "" false))
        end
    end
  else if String.eqb k "kick" then
    if negb (has_perms c "useraction" k) then refused (send_error w h c "not authorised") NotAuth
    else
      let message := match m_value m with VStr s => s | _ => "" end in
      match get_member w g (m_dest m) with
      | None => ok (send_error w h c "no such user")
      | Some t => ok (enq w t (AKick (m_source m) (m_username m) message))
      end
  else if String.eqb k "setdata" then
    if needs_self "useraction" k && negb (String.eqb (m_dest m) (c_id c)) then
      refused (send_error w h c "not authorised") NotAuth
    else if negb (has_perms c "useraction" k) then refused (send_error w h c "not authorised") NotAuth
    else
      match m_value m with
      | VMap l =>
          let d := update_data_all (c_data c) l in
          let w1 := upd w h (fun c => set_data c d) in
          ok (push_client_all w1 g (members w1 g) "change" (c_id c) (c_username c) (c_perms c) d)
      | _ => ok (send_error w h c "Bad value in setdata")
      end
  else failed w (EUser "unknown user action") Invalid
  end end.

Definition handle_client_message (w : world) (h : nat) (c : client) (m : msg) : outcome :=
  if negb (is_empty (m_source m)) && negb (String.eqb (m_source m) (c_id c))
  then failed w (EProto "spoofed client id") Invalid
  else if negb (String.eqb (m_type m) "join") &&
          match m_username m with
          | Some u => negb (String.eqb u (c_username c))
          | None => false end
  then failed w (EProto "spoofed username") Invalid
  else
    let t := m_type m in
    if String.eqb t "join" then handle_join w h c m
    else if String.eqb t "request" then handle_request w h c m
    else if String.eqb t "requestStream" then handle_request_stream w h c m
    else if String.eqb t "offer" then handle_offer w h c m
    else if String.eqb t "answer" then handle_answer w h c m
    else if String.eqb t "renegotiate" then handle_renegotiate w h c m
    else if String.eqb t "close" then handle_close w h c m
    else if String.eqb t "abort" then handle_abort w h c m
    else if String.eqb t "ice" then handle_ice w h c m
    else if String.eqb t "chat" || String.eqb t "usermessage" then handle_chat w h c m
    else if String.eqb t "groupaction" then handle_groupaction w h c m
    else if String.eqb t "useraction" then handle_useraction w h c m
    else if String.eqb t "pong" then ok w
    else if String.eqb t "ping" then ok (send w h (out_plain "pong" "" ""))
    else failed w (EProto "unexpected message") Invalid.

(* ------------------------------------------------------------------ *)
(* handleAction                                                       *)

Definition opt_str_eqb (a b : option str) : bool :=
  match a, b with
  | Some x, Some y => String.eqb x y
  | _, _ => false      (* c.group == nil, or a nil group in the action *)
  end.

(* pushDownConn without tracks: the requested set is empty *)
Definition push_conn_notracks (w : world) (h : nat) (id replace : str) : world :=
  let w1 := if is_empty replace then w else del_down_conn w h replace in
  let w2 := close_down_conn w1 h id in
  if is_empty replace then w2 else close_down_conn w2 h replace.

Definition change_perms (allowrec : bool) (kind : str) (p : list str) : option (list str) :=
  if String.eqb kind "op" then
    Some (let p1 := addnew "op" p in if allowrec then addnew "record" p1 else p1)
  else if String.eqb kind "unop" then Some (remove "record" (remove "op" p))
  else if String.eqb kind "present" then Some (addnew "present" p)
  else if String.eqb kind "unpresent" then Some (remove "present" p)
  else if String.eqb kind "shutup" then Some (remove "message" p)
  else if String.eqb kind "unshutup" then Some (addnew "message" p)
  else None.

Fixpoint drop_all_ups (fuel : list upconn) (w : world) (h : nat) (c : client) : world :=
  match fuel with
  | [] => w
  | u :: r =>
      let '(w1, found) := del_up_conn w h (up_id u) true in
      let w2 := if found then fail_up_connection w1 h c (up_id u) "permission denied" else w1 in
      drop_all_ups r w2 h c
  end.

Definition handle_action (w : world) (h : nat) (c : client) (a : action) : outcome :=
  match a with
  | APushConn g id has_conn replace =>
      if opt_str_eqb (c_group c) g then ok (push_conn_notracks w h id replace) else ok w
  | ARequestConns g target id =>
      if opt_str_eqb (c_group c) g then
        match target with
        | None => ok w
        | Some t =>
            ok (fold_left (fun w u =>
                  if negb (is_empty id) && negb (String.eqb id (up_id u)) then w
                  else enq w t (APushConn g (up_id u) true (up_replace u)))
                (c_up c) w)
        end
      else ok w
  | AConnFailed id =>
      match find_down c id with
      | Some d => ok (send w h (mkOut "offer" "" (dn_id d) "" "" None false [] "" "" "" false))
      | None =>
          match find_up c id with
          | Some _ => ok (send w h (out_plain "renegotiate" "" id))
          | None => ok w
          end
      end
  | APushClient g kind id username perms data =>
      match c_group c with
      | None => ok w
      | Some g' =>
          if String.eqb g g' then ok (send w h (out_user kind id username perms)) else ok w
      end
  | AJoined g kind =>
      let gr := if is_empty g then None else find_group w g in
      let locked := match gr with
                    | Some gr => match g_locked gr with Some _ => true | None => false end
                    | None => false end in
      let w1 := send w h (out_joined kind g (c_username c) (c_perms c) "" "" locked) in
      if String.eqb kind "join" then
        match gr with
        | None => ok w1
        | Some gr => ok (fold_left (fun w e => send w h (out_chathistory e)) (g_history gr) w1)
        end
      else ok w1
  | AChangePerms g kind =>
      if negb (opt_str_eqb (c_group c) (Some g)) then ok w      (* left in the meantime *)
      else
        let allowrec := match find_group w g with
                        | Some gr => d_allowrec (g_desc gr) | None => false end in
        match change_perms allowrec kind (c_perms c) with
        | None => failed w (EUser "unknown permission") Passed
        | Some p =>
            let w1 := upd w h (fun c => set_perms c p) in
            ok (enq w1 h APermsChanged)
        end
  | APermsChanged =>
      match c_group c with
      | None => failed w EInternal Passed     (* "Permissions changed in no group" *)
      | Some g =>
          let w1 := send w h (out_joined "change" g (c_username c) (c_perms c) "" ""
                                         (locked_flag w g)) in
          let w2 := if mem "present" (c_perms c) then w1 else drop_all_ups (c_up c) w1 h c in
          ok (push_client_all w2 g (members w2 g) "change" (c_id c) (c_username c)
                              (c_perms c) (c_data c))
      end
  | AKick id user message => failed w (EKick id user message) Passed
  end.

(* ------------------------------------------------------------------ *)
(* The end of a connection: clientLoop's deferred leaveGroup, then     *)
(* StartClient's deferred close                                        *)

Definition close_text (e : err) : str * str :=     (* (close code, text) *)
  match e with
  | EWsClose => ("normal", "")
  | EProto s => ("protocol", s)
  | EUser s => ("normal", s)
  | EKick _ _ m => ("normal", "kicked")
  | _ => ("internal", "")
  end.

Definition error_close (w : world) (h : nat) (e : err) : world :=
  match get_client w h with
  | None => w
  | Some c =>
      let w1 := leave_group w h in
      let w2 := match e with
                | EProto s => send w1 h (out_error (c_id c) s)
                | EUser s => send w1 h (out_error (c_id c) s)
                | EKick id user message =>
                    send w1 h (mkOut "usermessage" "kicked" id "" (c_id c) user true []
                                     (if is_empty message then "you have been kicked out" else message)
                                     "" "" false)
                | _ => w1
                end in
      let w3 := send w2 h (mkOut "__close__" "" (fst (close_text e)) "" "" None false [] "" "" "" false) in
      upd w3 h (fun c => set_closed c true)
  end.

(* ------------------------------------------------------------------ *)
(* Operations: what the scheduler (the harness, or the Go runtime) does *)

Inductive op :=
| OpMkGroup (name : str) (d : desc)
| OpClient (id : str)                 (* a new connection; its handle is the next index *)
| OpMsg (h : nat) (m : msg)           (* the loop of h reads one message *)
| OpPump (h : nat)                    (* the loop of h serves its action queue once *)
| OpDisconnect (h : nat)              (* the peer closes the connection *)
| OpQuiesce                           (* pump round-robin until every queue is empty *)
| OpDrain (h : nat).                  (* read and clear the outbox (no server step) *)

Inductive opres :=
| RNothing
| RAuth (a : auth) (e : err)
| RPumped (e : err)
| ROut (l : list outmsg)
| RDead.

Inductive run := Running (w : world) (r : opres) | Crashed.

(* after an error the connection ends (AutoClose of the harness) *)
Definition finish (o : outcome) (h : nat) (wrap : res -> opres) : run :=
  match o with
  | Panic => Crashed
  | Ok r =>
      match r_err r with
      | ENone => Running (r_world r) (wrap r)
      | e => Running (error_close (r_world r) h e) (wrap r)
      end
  end.

Definition step_msg (w : world) (h : nat) (m : msg) : run :=
  match get_client w h with
  | None => Running w RDead
  | Some c =>
      if c_closed c then Running w RDead
      else finish (handle_client_message w h c m) h (fun r => RAuth (r_auth r) (r_err r))
  end.

(* one batch: the queue is taken as a whole *)
Fixpoint run_batch (q : list action) (w : world) (h : nat) : outcome :=
  match q with
  | [] => ok w
  | a :: r =>
      match get_client w h with
      | None => ok w
      | Some c =>
          match handle_action w h c a with
          | Panic => Panic
          | Ok res =>
              match r_err res with
              | ENone => run_batch r (r_world res) h
              | _ => Ok res
              end
          end
      end
  end.

Definition step_pump (w : world) (h : nat) : run :=
  match get_client w h with
  | None => Running w RDead
  | Some c =>
      if c_closed c then Running w RDead
      else
        let w1 := upd w h (fun c => set_queue c []) in
        finish (run_batch (c_queue c) w1 h) h (fun r => RPumped (r_err r))
  end.

Definition step_disconnect (w : world) (h : nat) : run :=
  match get_client w h with
  | None => Running w RDead
  | Some c => if c_closed c then Running w RDead
              else Running (error_close w h EWsClose) RNothing
  end.

Definition runnable (c : client) : bool :=
  negb (c_closed c) && negb (Nat.eqb (List.length (c_queue c)) 0).

(* round-robin over the handles until nobody is runnable *)
Fixpoint pump_round (hs : list nat) (w : world) : option world :=
  match hs with
  | [] => Some w
  | h :: r =>
      match get_client w h with
      | Some c =>
          if runnable c then
            match step_pump w h with
            | Running w' _ => pump_round r w'
            | Crashed => None
            end
          else pump_round r w
      | None => pump_round r w
      end
  end.

Fixpoint quiesce (fuel : nat) (w : world) : option world :=
  match fuel with
  | O => Some w
  | S f =>
      if existsb runnable (w_clients w) then
        match pump_round (seq 0 (List.length (w_clients w))) w with
        | Some w' => quiesce f w'
        | None => None
        end
      else Some w
  end.

Definition step (w : world) (o : op) : run :=
  match o with
  | OpMkGroup name d =>
      match find_group w name with
      | Some _ => Running w RNothing
      | None => Running (wset_groups w (app (w_groups w) [mkGroup name d None [] false [] []])) RNothing
      end
  | OpClient id => Running (wset_clients w (app (w_clients w) [new_client id])) RNothing
  | OpMsg h m => step_msg w h m
  | OpPump h => step_pump w h
  | OpDisconnect h => step_disconnect w h
  | OpQuiesce =>
      match quiesce 1000 w with
      | Some w' => Running w' RNothing
      | None => Crashed
      end
  | OpDrain h =>
      match get_client w h with
      | None => Running w (ROut [])
      | Some c => Running (upd w h (fun c => set_out c [])) (ROut (c_out c))
      end
  end.

(* run a history; None = the server crashed *)
Fixpoint run_ops (w : world) (ops : list op) : option world :=
  match ops with
  | [] => Some w
  | o :: r =>
      match step w o with
      | Running w' _ => run_ops w' r
      | Crashed => None
      end
  end.

(* L1 model of packetmap: the same behaviour as Model/PacketMap.v with the
   ring of intervals replaced by the newest-first list of intervals.
   Proofs/PacketMapView.v proves that L0 refines L1. *)
From Coq Require Import ZArith List Bool.
From Galene Require Import Lib.Word Generated.Consts Model.PacketMap.
Import ListNotations.
Open Scope Z_scope.

Record l1 := mkL {
  l_started : bool;
  l_next : Z; l_nextPid : Z; l_delta : Z; l_pidDelta : Z;
  l_nil : bool;                 (* entries == nil *)
  l_view : list entry           (* newest first *)
}.

Definition l1_init : l1 := mkL false 0 0 0 0 true [].

Definition with_view (a : l1) (v : list entry) : l1 :=
  mkL (l_started a) (l_next a) (l_nextPid a) (l_delta a) (l_pidDelta a) false v.

Definition l1_retire (a : l1) : l1 :=
  match l_view a with
  | [] => a
  | e :: _ =>
      if w16 (l_next a - e_first e) <? retireAge then a else
      let first := w16 (l_next a - window) in
      let end_ := w16 (e_first e + e_count e) in
      let e' :=
        if cmp16 end_ first <=? 0
        then mkE (l_next a) 0 (l_delta a) (l_pidDelta a)
        else mkE first (w16 (end_ - first)) (e_delta e) (e_pidDelta e) in
      with_view a [e']
  end.

Definition l1_add_mapping (a : l1) (seqno delta pidDelta : Z) : l1 :=
  match l_view a with
  | [] => a
  | ei :: rest =>
      if (delta =? e_delta ei) && (pidDelta =? e_pidDelta ei) then
        with_view a (mkE (e_first ei) (w16 (seqno - e_first ei + 1)) (e_delta ei) (e_pidDelta ei) :: rest)
      else
        let d := w16 (e_delta ei - delta) in
        let f :=
          if d <? window then
            let ff := w16 (e_first ei + e_count ei + d) in
            if cmp16 ff seqno <? 0 then ff else seqno
          else seqno in
        let e := mkE f (w16 (seqno - f + 1)) delta pidDelta in
        if zlen (l_view a) <? maxEntries
        then with_view a (e :: l_view a)
        else with_view a (e :: removelast (l_view a))
  end.

(* the walk of direct / Reverse over the newest-first list *)
Fixpoint lwalk (v : list entry) (seqno : Z) (base : entry -> Z) (res : entry -> Z)
  : option (Z * Z) :=
  match v with
  | [] => None
  | e :: v' =>
      let f := base e in
      if 0 <=? cmp16 seqno f then
        if cmp16 seqno (w16 (f + e_count e)) <? 0
        then Some (res e, e_pidDelta e)
        else None
      else lwalk v' seqno base res
  end.

Definition l1_direct (a : l1) (seqno : Z) : option (Z * Z) :=
  lwalk (l_view a) seqno e_first (fun e => w16 (seqno + e_delta e)).

Definition l1_reset (a : l1) (seqno pid : Z) : l1 :=
  mkL (l_started a) (w16 (seqno + 1)) pid 0 0 true [].

Definition l1_map (a : l1) (seqno pid : Z) : (bool * Z * Z) * l1 :=
  let pristine := (l_delta a =? 0) && l_nil a in
  if pristine then
    if negb (l_started a) || (cmp16 (l_next a) seqno <=? 0)
       || (window <? w16 (l_next a - seqno))
    then ((true, seqno, 0),
          mkL true (w16 (seqno + 1)) pid (l_delta a) (l_pidDelta a) (l_nil a) (l_view a))
    else ((true, seqno, 0), a)
  else if cmp16 (l_next a) seqno <=? 0 then
    if window <? w16 (seqno - l_next a) then ((true, seqno, 0), l1_reset a seqno pid)
    else
      let a0 := l1_retire a in
      let a1 := l1_add_mapping a0 seqno (l_delta a0) (l_pidDelta a0) in
      ((true, w16 (seqno + l_delta a1), l_pidDelta a1),
       mkL (l_started a1) (w16 (seqno + 1)) pid (l_delta a1) (l_pidDelta a1)
           (l_nil a1) (l_view a1))
  else if window <? w16 (l_next a - seqno) then ((true, seqno, 0), l1_reset a seqno pid)
  else (triple (l1_direct a seqno), a).

Definition l1_reverse_raw (a : l1) (seqno : Z) : bool * Z * Z :=
  if l_nil a then
    if l_delta a =? 0 then (true, seqno, 0) else (false, 0, 0)
  else
    triple (lwalk (l_view a) seqno
                  (fun e => w16 (e_first e + e_delta e))
                  (fun e => w16 (seqno - e_delta e))).

Definition l1_recent (a : l1) (s : Z) : bool :=
  l_started a && (cmp16 s (l_next a) <? 0) && (w16 (l_next a - s) <=? window).

Definition l1_reverse (a : l1) (seqno : Z) : bool * Z * Z :=
  let '(ok, s, p) := l1_reverse_raw a seqno in
  if ok && l1_recent a s then (true, s, p) else (false, 0, 0).

Definition l1_drop (a : l1) (seqno pid : Z) : bool * l1 :=
  if negb (l_started a) || negb (seqno =? l_next a) then (false, a)
  else
    let a' :=
      match l_view a with
      | [] => with_view a [mkE (w16 (seqno - window)) window 0 0]
      | _ => a
      end in
    let a0 := l1_retire a' in
    (true,
     mkL (l_started a0) (w16 (seqno + 1)) pid (w16 (l_delta a0 - 1))
         (w16 (l_pidDelta a0 + (pid - l_nextPid a0))) (l_nil a0) (l_view a0)).

Definition l1_step (a : l1) (o : op) : l1 * out :=
  match o with
  | OMap s p => let '((ok, s', p'), a') := l1_map a s p in (a', RTriple ok s' p')
  | ODrop s p => let '(ok, a') := l1_drop a s p in (a', RBool ok)
  | OReverse s => let '(ok, s', p') := l1_reverse a s in (a, RTriple ok s' p')
  end.

(* L0 model of the layer selection of rtpconn/rtpconn.go: the layerInfo word,
   the layer part of rtpDownTrack.Write, adjustLayer, updateRate and the
   layer update of replaceTracks.  The word is only ever changed through
   updateLayerInfo (a compare-and-swap loop), so each closure handed to it is
   one atomic event: write1, write2, adjust, set_limit.  [write_layer] is
   what one call of Write does when nothing else intervenes.
   Flag fields tid/sid come from 2- and 3-bit codec fields, so they are < 16
   and the 4-bit packing of setLayerInfo/getLayerInfo is the identity on
   them (proved in Proofs/Layers.v). *)
From Coq Require Import ZArith List Bool.
From Galene Require Import Lib.Word Generated.Consts.
Import ListNotations.
Open Scope Z_scope.

Record layer := mkLayer {
  sid : Z; wantedSid : Z; maxSid : Z;
  tid : Z; wantedTid : Z; maxTid : Z;
  limitSid : bool }.

Definition layer0 : layer := mkLayer 0 0 0 0 0 0 false.

(* the packed atomic word *)
Definition pack (l : layer) : Z :=
  (sid l mod 16) + (wantedSid l mod 16) * 16 + (maxSid l mod 16) * 256
  + (if limitSid l then 4096 else 0)
  + (tid l mod 16) * 65536 + (wantedTid l mod 16) * 1048576 + (maxTid l mod 16) * 16777216.
Definition unpack (w : Z) : layer :=
  mkLayer (w mod 16) ((w / 16) mod 16) ((w / 256) mod 16)
          ((w / 65536) mod 16) ((w / 1048576) mod 16) ((w / 16777216) mod 16)
          (Z.odd (w / 4096)).

(* codecs.Flags, as far as Write uses them *)
Record flags := mkFlags {
  f_seqno : Z; f_marker : bool; f_start : bool; f_end : bool; f_keyframe : bool;
  f_pid : Z; f_tid : Z; f_sid : Z;
  f_tidUpSync : bool; f_sidUpSync : bool; f_sidNonReference : bool }.

(* adjustLayer: rate8 = 8 * estimated byte rate, max = GetMaxBitrate; both
   uint64; max*7/8 and max*3/2 wrap modulo 2^64 as in Go *)
Definition adjust (l : layer) (rate8 max : Z) : layer :=
  if rate8 <? w64 (max * 7) / 8 then
    if limitSid l && negb (wantedSid l =? 0) then
      mkLayer (sid l) 0 (maxSid l) (tid l) (wantedTid l) (maxTid l) (limitSid l)
    else if negb (limitSid l) && (sid l <? maxSid l) then
      mkLayer (sid l) (sid l + 1) (maxSid l) (tid l) (wantedTid l) (maxTid l) (limitSid l)
    else if tid l <? maxTid l then
      mkLayer (sid l) (wantedSid l) (maxSid l) (tid l) (tid l + 1) (maxTid l) (limitSid l)
    else l
  else if w64 (max * 3) / 2 <? rate8 then
    if 0 <? tid l then
      mkLayer (sid l) (wantedSid l) (maxSid l) (tid l) (tid l - 1) (maxTid l) (limitSid l)
    else if 0 <? sid l then
      mkLayer (sid l) (if limitSid l then 0 else sid l - 1) (maxSid l)
              (tid l) (wantedTid l) (maxTid l) (limitSid l)
    else l
  else l.

(* GetMaxBitrate: loss-based maximum (2^64-1 when stale), REMB maximum *)
Definition get_max_bitrate (lossmax remb : Z) : Z :=
  let r := if lossmax =? 18446744073709551615 then 524288 else lossmax in
  if negb (remb =? 0) && (remb <? r) then remb else r.

(* the layer part of Write.  Returns the new layer, whether the packet is to
   be dropped if it is in order, and whether a keyframe was requested. *)
Definition write_layer (l : layer) (f : flags) (rate8 max : Z) : layer * bool * bool :=
  let l1 :=
    if (maxTid l <? f_tid f) || (maxSid l <? f_sid f) then
      let la :=
        if maxTid l <? f_tid f then
          if tid l =? maxTid l
          then mkLayer (sid l) (wantedSid l) (maxSid l) (f_tid f) (f_tid f) (f_tid f) (limitSid l)
          else mkLayer (sid l) (wantedSid l) (maxSid l) (tid l) (wantedTid l) (f_tid f) (limitSid l)
        else l in
      let lb :=
        if maxSid la <? f_sid f then
          if (sid la =? maxSid la) && negb (limitSid la)
          then mkLayer (f_sid f) (f_sid f) (f_sid f) (tid la) (wantedTid la) (maxTid la) (limitSid la)
          else mkLayer (sid la) (wantedSid la) (f_sid f) (tid la) (wantedTid la) (maxTid la) (limitSid la)
        else la in
      unpack (pack (adjust (unpack (pack lb)) rate8 max))
    else l in
  let l2 :=
    if f_start f && negb (tid l1 =? wantedTid l1) then
      if f_keyframe f then
        mkLayer (sid l1) (wantedSid l1) (maxSid l1) (wantedTid l1) (wantedTid l1) (maxTid l1) (limitSid l1)
      else if wantedTid l1 <? tid l1 then
        mkLayer (sid l1) (wantedSid l1) (maxSid l1) (wantedTid l1) (wantedTid l1) (maxTid l1) (limitSid l1)
      else if f_tidUpSync f && (f_tid f <=? wantedTid l1) then
        mkLayer (sid l1) (wantedSid l1) (maxSid l1) (f_tid f) (wantedTid l1) (maxTid l1) (limitSid l1)
      else l1
    else l1 in
  let '(l3, kfreq) :=
    if f_start f && negb (sid l2 =? wantedSid l2) then
      if f_keyframe f then
        (mkLayer (wantedSid l2) (wantedSid l2) (maxSid l2) (tid l2) (wantedTid l2) (maxTid l2) (limitSid l2), false)
      else (l2, true)
    else (l2, false) in
  let drop := (tid l3 <? f_tid f) || (sid l3 <? f_sid f)
              || ((f_sid f <? sid l3) && f_sidNonReference f) in
  (l3, drop, kfreq).

(* The two closures that Write hands to updateLayerInfo (a compare-and-swap
   loop): each is applied atomically to the current word.  [write_layer] above
   is their sequential composition (Proofs/LayersAtomic.v, write_layer_atomic);
   other goroutines' updates may come between them. *)
Definition write1 (l : layer) (f : flags) : layer :=
  let la :=
    if maxTid l <? f_tid f then
      if tid l =? maxTid l
      then mkLayer (sid l) (wantedSid l) (maxSid l) (f_tid f) (f_tid f) (f_tid f) (limitSid l)
      else mkLayer (sid l) (wantedSid l) (maxSid l) (tid l) (wantedTid l) (f_tid f) (limitSid l)
    else l in
  if maxSid la <? f_sid f then
    if (sid la =? maxSid la) && negb (limitSid la)
    then mkLayer (f_sid f) (f_sid f) (f_sid f) (tid la) (wantedTid la) (maxTid la) (limitSid la)
    else mkLayer (sid la) (wantedSid la) (f_sid f) (tid la) (wantedTid la) (maxTid la) (limitSid la)
  else la.

Definition write2 (l1 : layer) (f : flags) : layer :=
  let l2 :=
    if f_start f && negb (tid l1 =? wantedTid l1) then
      if f_keyframe f then
        mkLayer (sid l1) (wantedSid l1) (maxSid l1) (wantedTid l1) (wantedTid l1) (maxTid l1) (limitSid l1)
      else if wantedTid l1 <? tid l1 then
        mkLayer (sid l1) (wantedSid l1) (maxSid l1) (wantedTid l1) (wantedTid l1) (maxTid l1) (limitSid l1)
      else if f_tidUpSync f && (f_tid f <=? wantedTid l1) then
        mkLayer (sid l1) (wantedSid l1) (maxSid l1) (f_tid f) (wantedTid l1) (maxTid l1) (limitSid l1)
      else l1
    else l1 in
  if f_start f && f_keyframe f then
    mkLayer (wantedSid l2) (wantedSid l2) (maxSid l2) (tid l2) (wantedTid l2) (maxTid l2) (limitSid l2)
  else l2.

Definition drop_of (l3 : layer) (f : flags) : bool :=
  (tid l3 <? f_tid f) || (sid l3 <? f_sid f) || ((f_sid f <? sid l3) && f_sidNonReference f).

(* replaceTracks: the request changed *)
Definition set_limit (l : layer) (b : bool) : layer :=
  mkLayer (sid l) (if b then 0 else wantedSid l) (maxSid l) (tid l) (wantedTid l) (maxTid l) b.

(* updateRate: rate0 = maxBitrate.Get(now) (2^64-1 when stale), actual = 8 *
   estimated byte rate; uint64 arithmetic *)
Definition update_rate (rate0 loss actual : Z) : Z :=
  let rate := if (rate0 <? minLossRate) || (maxLossRate <? rate0) then initLossRate else rate0 in
  if loss <? 5 then
    if w64 (rate * 3) / 4 <=? actual then
      let r := w64 (rate * 269) / 256 in
      if maxLossRate <? r then maxLossRate else r
    else rate
  else if 25 <? loss then
    let r := w64 (rate * (512 - loss)) / 512 in
    if r <? minLossRate then minLossRate else r
  else rate.

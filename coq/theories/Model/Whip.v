(* Model of webserver/whip.go (whipEndpointHandler, whipResourceHandler) as
   far as authorisation goes.  The admission decision of group.AddClient for
   the credentials (username "whip", the bearer token as token) is an
   argument ([None] = refused, [Some perms] = let in with perms); the SDP
   negotiation is an oracle; session ids are chosen by the server. *)
From Coq Require Import List Bool String.
From Galene Require Import Model.Signal.
Import ListNotations.
Open Scope string_scope.

Record wsession := mkSession { ws_id : str; ws_group : str; ws_token : str }.

Inductive wstatus := W201 | W403 | W404 | WRefused | WBadOffer | WServed.
Inductive wmethod := MDelete | MPatch | MOptions.

(* POST /group/<g>/.whip  Authorization: Bearer <tok> *)
Definition whip_create (st : list wsession) (g tok : str) (admission : option (list str))
           (sdp_ok : bool) (id : str) : list wsession * wstatus :=
  match admission with
  | None => (st, WRefused)                         (* AddClient failed: httpError *)
  | Some perms =>
      if negb (mem "present" perms) then (st, W403)   (* DelClient; Forbidden *)
      else if negb sdp_ok then (st, WBadOffer)        (* DelClient; error *)
      else (mkSession id g tok :: st, W201)
  end.

Definition find_session (st : list wsession) (g id : str) : option wsession :=
  find (fun s => String.eqb (ws_id s) id && String.eqb (ws_group s) g) st.

(* DELETE/PATCH/OPTIONS /group/<g>/.whip/<obfuscated id> *)
Definition whip_resource (st : list wsession) (g id bearer : str) (meth : wmethod)
  : list wsession * wstatus :=
  match find_session st g id with
  | None => (st, W404)
  | Some s =>
      if negb (is_empty (ws_token s)) && negb (String.eqb bearer (ws_token s)) then (st, W403)
      else
        match meth with
        | MDelete => (filter (fun x => negb (String.eqb (ws_id x) id && String.eqb (ws_group x) g)) st, WServed)
        | _ => (st, WServed)
        end
  end.

(* L0 model of galene's own hand-written byte parsers in codecs/codecs.go
   (the byte-level part of C12).  Executable; no proofs here.

   Transcribed statement by statement from
     Keyframe            "video/av1"  (the getObu closure, the W field, the loop
                                       over OBUs)
                         "video/h264" (single NALU, STAP-A/STAP-B/MTAP16/MTAP24
                                       aggregation loop, FU-A/FU-B)
                         "video/vp8", "video/vp9": only galene's statements AFTER
                                       pion's depacketiser; the depacketiser's
                                       result is an argument (oracle)
                         the codec dispatch (strings.EqualFold on ASCII names)
     PacketFlags         the header part: len(buf) < 4, Seqno, Marker
     KeyframeDimensions  "video/vp8": the fixed-offset reads after pion's
                                       depacketiser (its result is an argument)

   NOT modelled: pion's VP8Packet.Unmarshal, VP9Packet.Unmarshal and
   rtp.Packet.Unmarshal (a dependency; only fuzzed by the `keyframe` driver),
   the VP8/VP9 parts of PacketFlags, the VP9 part of KeyframeDimensions, and
   codecs.RewritePacket (Model/Rewrite.v).

   Conventions.  A byte buffer is a [list Z] (one element per byte).  EVERY
   index expression b[i] of the Go code goes through [idx] and every slice
   expression b[lo:hi] through [slice]; both yield the explicit outcome
   [Panic] exactly when the Go runtime would panic (index out of range, slice
   bounds out of range).  For slicing the model takes cap(b) = len(b), the
   strictest case: b[lo:hi] panics unless 0 <= lo <= hi <= len(b).  (The
   driver hands the real code buffers with cap = len, so that a read beyond
   the packet cannot hide in spare capacity.)  A Go [for] loop is a loop body
   returning [Return r] (a return statement) or [Continue s] (next iteration
   with state s), iterated by structural recursion on explicit fuel; running
   out of fuel is the outcome [OutOfFuel].  Go [int] is 64 bits; the only
   shifts of an int (AV1: at most 127 << 21) cannot overflow, the uint16 and
   uint32 conversions are written with [w16]/[w32]. *)
From Coq Require Import ZArith List Bool.
From Galene Require Import Lib.Word.
Import ListNotations.
Open Scope Z_scope.

Inductive outcome (A : Type) : Type :=
| Ok (a : A)
| Panic
| OutOfFuel.
Arguments Ok {A} a.
Arguments Panic {A}.
Arguments OutOfFuel {A}.

Definition bind {A B} (o : outcome A) (f : A -> outcome B) : outcome B :=
  match o with
  | Ok a => f a
  | Panic => Panic
  | OutOfFuel => OutOfFuel
  end.
Notation "'let!' x ':=' o 'in' k" := (bind o (fun x => k))
  (at level 200, x pattern, o at level 100, k at level 200, right associativity).

(* len(b) *)
Definition blen (b : list Z) : Z := Z.of_nat (length b).

(* b[i] *)
Definition idx (b : list Z) (i : Z) : outcome Z :=
  if (0 <=? i) && (i <? blen b) then
    match nth_error b (Z.to_nat i) with
    | Some x => Ok x
    | None => Panic
    end
  else Panic.

(* b[lo:hi] with cap(b) = len(b) *)
Definition slice (b : list Z) (lo hi : Z) : outcome (list Z) :=
  if (0 <=? lo) && (lo <=? hi) && (hi <=? blen b) then
    Ok (firstn (Z.to_nat (hi - lo)) (skipn (Z.to_nat lo) b))
  else Panic.

(* one iteration of a Go for loop whose function returns (bool, bool) *)
Inductive loop_step (S : Type) : Type :=
| Return (r : bool * bool)
| Continue (s : S).
Arguments Return {S} r.
Arguments Continue {S} s.

(* the fuel every loop below is given: one more than the number of bytes *)
Definition fuel_for (b : list Z) : nat := S (length b).

(* ------------------------------------------------------------------ AV1 *)

(* The for loop of getObu that reads the LEB128 length.  State (offset,
   length).  [LenReturn] is one of the two return statements inside the
   loop (the returned slice is nil), [LenBreak] is the break. *)
Inductive obu_len : Type :=
| LenReturn (obu : list Z) (n : Z) (truncated : bool)
| LenBreak (offset length : Z).

Fixpoint get_obu_len (fuel : nat) (data : list Z) (offset length : Z)
  : outcome obu_len :=
  match fuel with
  | O => OutOfFuel
  | S f =>
    if blen data <=? offset then Ok (LenReturn [] offset (0 <? offset))
    else if 4 <=? offset then Ok (LenReturn [] offset true)
    else
      let! l := idx data offset in
      (* length |= int(l&0x7f) << (offset * 7) *)
      let length := Z.lor length (Z.shiftl (Z.land l 127) (offset * 7)) in
      let offset := offset + 1 in
      if Z.land l 128 =? 0 then Ok (LenBreak offset length)
      else get_obu_len f data offset length
  end.

(* getObu(data, last) = (obu, length, truncated) *)
Definition get_obu (data : list Z) (last : bool) : outcome (list Z * Z * bool) :=
  if last then Ok (data, blen data, false)
  else
    let! r := get_obu_len (fuel_for data) data 0 0 in
    match r with
    | LenReturn o n t => Ok (o, n, t)
    | LenBreak offset length =>
      if blen data <? offset + length then
        let! s := slice data offset (blen data) in
        Ok (s, blen data, true)
      else
        let! s := slice data offset (offset + length) in
        Ok (s, offset + length, false)
    end.

(* w := (packet.Payload[0] & 0x30) >> 4, as a function of the first byte *)
Definition av1_w_of (b0 : Z) : Z := Z.shiftr (Z.land b0 48) 4.

(* body of the loop over OBUs; state (offset, i) *)
Definition av1_step (p : list Z) (w : Z) (st : Z * Z) : outcome (loop_step (Z * Z)) :=
  let '(offset, i) := st in
  let! data := slice p offset (blen p) in
  let! r := get_obu data (w =? i + 1) in
  let '(obu, length, truncated) := r in
  if blen obu <? 1 then Ok (Return (false, false))
  else
    let! o0 := idx obu 0 in
    let tpe := Z.shiftr (Z.land o0 56) 3 in
    (* the switch: Some r = a return statement, None = falls through *)
    let! sw :=
      if i =? 0 then
        if negb (tpe =? 1) then Ok (Some (false, true)) else Ok None
      else if (tpe =? 3) || (tpe =? 6) then
        if blen obu <? 2 then Ok (Some (false, false))
        else
          let! o1 := idx obu 1 in
          if negb (Z.land o1 128 =? 0) then Ok (Some (false, true))
          else Ok (Some (Z.land o1 96 =? 0, true))
      else Ok None in
    match sw with
    | Some r => Ok (Return r)
    | None =>
      if truncated || (w <=? i) then Ok (Return (false, false))
      else Ok (Continue (offset + length, i + 1))
    end.

Fixpoint av1_loop (fuel : nat) (p : list Z) (w : Z) (st : Z * Z)
  : outcome (bool * bool) :=
  match fuel with
  | O => OutOfFuel
  | S f =>
    let! s := av1_step p w st in
    match s with
    | Return r => Ok r
    | Continue st' => av1_loop f p w st'
    end
  end.

Definition keyframe_av1 (fuel : nat) (p : list Z) : outcome (bool * bool) :=
  if blen p <? 2 then Ok (false, true)
  else
    let! b0 := idx p 0 in
    if negb (Z.land b0 136 =? 8) then Ok (false, true)
    else av1_loop fuel p (av1_w_of b0) (1, 0).

(* ---------------------------------------------------------------- H.264 *)

(* body of the aggregation loop (entered only when i < len); state i *)
Definition h264_step (p : list Z) (nalu i : Z) : outcome (loop_step Z) :=
  if blen p <? i + 2 then Ok (Return (false, false))
  else
    let! b0 := idx p i in
    let! b1 := idx p (i + 1) in
    (* length := uint16(b0)<<8 | uint16(b1) *)
    let length := Z.lor (w16 (Z.shiftl b0 8)) b1 in
    let i := i + 2 in
    if blen p <? i + length then Ok (Return (false, false))
    else
      let offset := if nalu =? 26 then 3 else if nalu =? 27 then 4 else 0 in
      if length <=? offset then Ok (Return (false, false))
      else
        let! b := idx p (i + offset) in
        let n := Z.land b 31 in
        if n =? 7 then Ok (Return (true, true))
        else if 24 <=? n then Ok (Return (false, false))
        else Ok (Continue (i + length)).

Fixpoint h264_loop (fuel : nat) (p : list Z) (nalu i : Z) : outcome (bool * bool) :=
  match fuel with
  | O => OutOfFuel
  | S f =>
    if i <? blen p then
      let! s := h264_step p nalu i in
      match s with
      | Return r => Ok r
      | Continue i' => h264_loop f p nalu i'
      end
    else if i =? blen p then Ok (false, true)
    else Ok (false, false)
  end.

Definition keyframe_h264 (fuel : nat) (p : list Z) : outcome (bool * bool) :=
  if blen p <? 1 then Ok (false, false)
  else
    let! b0 := idx p 0 in
    let nalu := Z.land b0 31 in
    if nalu =? 0 then Ok (false, false)
    else if nalu <=? 23 then Ok (nalu =? 7, true)
    else if (nalu =? 24) || (nalu =? 25) || (nalu =? 26) || (nalu =? 27) then
      let i := if (nalu =? 25) || (nalu =? 26) || (nalu =? 27) then 1 + 2 else 1 in
      h264_loop fuel p nalu i
    else if (nalu =? 28) || (nalu =? 29) then
      if blen p <? 2 then Ok (false, false)
      else
        let! b1 := idx p 1 in
        if Z.land b1 128 =? 0 then Ok (false, true)
        else Ok (Z.land b1 31 =? 7, true)
    else Ok (false, false).

(* ------------------------------------- VP8 / VP9: galene's part only *)

(* d = what pion's VP8Packet.Unmarshal(packet.Payload) produced:
   None = an error, Some (S, PID, Payload) *)
Definition keyframe_vp8 (d : option (Z * Z * list Z)) : outcome (bool * bool) :=
  match d with
  | None => Ok (false, false)
  | Some (s, pid, pl) =>
    if blen pl <? 1 then Ok (false, false)
    else
      let! b := idx pl 0 in
      if negb (s =? 0) && (pid =? 0) && (Z.land b 1 =? 0) then Ok (true, true)
      else Ok (false, true)
  end.

(* d = what pion's VP9Packet.Unmarshal produced: None = an error,
   Some (B, Payload) *)
Definition keyframe_vp9 (d : option (bool * list Z)) : outcome (bool * bool) :=
  match d with
  | None => Ok (false, false)
  | Some (bb, pl) =>
    if blen pl <? 1 then Ok (false, false)
    else if negb bb then Ok (false, true)
    else
      let! b := idx pl 0 in
      if negb (Z.land b 192 =? 128) then Ok (false, false)
      else
        let profile := Z.land (Z.shiftr b 4) 3 in
        if negb (profile =? 3) then Ok (Z.land b 12 =? 0, true)
        else Ok (Z.land b 6 =? 0, true)
  end.

(* --------------------------------------------------- codec dispatch *)

Inductive codec : Type := CVP8 | CVP9 | CAV1 | CH264 | COther.

(* strings.EqualFold restricted to ASCII: the four names contain no letter
   with a non-ASCII case fold (k, s), so for every string EqualFold(name, c)
   holds iff the byte strings are equal after ASCII lower-casing *)
Definition ascii_lower (c : Z) : Z :=
  if (65 <=? c) && (c <=? 90) then c + 32 else c.
Fixpoint bytes_eqb (a b : list Z) : bool :=
  match a, b with
  | [], [] => true
  | x :: a', y :: b' => (x =? y) && bytes_eqb a' b'
  | _, _ => false
  end.
Definition equal_fold (a b : list Z) : bool :=
  bytes_eqb (map ascii_lower a) (map ascii_lower b).

Definition name_vp8  : list Z := [118;105;100;101;111;47;118;112;56].     (* video/vp8 *)
Definition name_vp9  : list Z := [118;105;100;101;111;47;118;112;57].     (* video/vp9 *)
Definition name_av1  : list Z := [118;105;100;101;111;47;97;118;49].      (* video/av1 *)
Definition name_h264 : list Z := [118;105;100;101;111;47;104;50;54;52].   (* video/h264 *)

Definition codec_of (name : list Z) : codec :=
  if equal_fold name name_vp8 then CVP8
  else if equal_fold name name_vp9 then CVP9
  else if equal_fold name name_av1 then CAV1
  else if equal_fold name name_h264 then CH264
  else COther.

(* what the depacketiser of the codec produced (irrelevant for the others) *)
Inductive depack : Type :=
| DNone
| DErr
| DVP8 (s pid : Z) (payload : list Z)
| DVP9 (b : bool) (payload : list Z).

(* codecs.Keyframe(codec, &rtp.Packet{Payload: p}) *)
Definition keyframe (name : list Z) (p : list Z) (d : depack) : outcome (bool * bool) :=
  match codec_of name with
  | CVP8 => keyframe_vp8 (match d with DVP8 s pid pl => Some (s, pid, pl) | _ => None end)
  | CVP9 => keyframe_vp9 (match d with DVP9 b pl => Some (b, pl) | _ => None end)
  | CAV1 => keyframe_av1 (fuel_for p) p
  | CH264 => keyframe_h264 (fuel_for p) p
  | COther => Ok (false, false)
  end.

(* ------------------------------------------------ PacketFlags header *)

(* None = errTruncated (and Flags{}); Some (Seqno, Marker) = the two fields
   set before the codec-specific part *)
Definition packet_flags_header (buf : list Z) : outcome (option (Z * bool)) :=
  if blen buf <? 4 then Ok None
  else
    let! b2 := idx buf 2 in
    let! b3 := idx buf 3 in
    let seqno := Z.lor (w16 (Z.shiftl b2 8)) b3 in
    let! b1 := idx buf 1 in
    Ok (Some (seqno, negb (Z.land b1 128 =? 0))).

(* ------------------------------------------- KeyframeDimensions, VP8 *)

(* pl = vp8.Payload after a successful VP8Packet.Unmarshal *)
Definition keyframe_dimensions_vp8 (pl : list Z) : outcome (Z * Z) :=
  if blen pl <? 10 then Ok (0, 0)
  else
    let! b6 := idx pl 6 in
    let! b7 := idx pl 7 in
    let! b8 := idx pl 8 in
    let! b9 := idx pl 9 in
    let raw := Z.lor (Z.lor (Z.lor b6 (w32 (Z.shiftl b7 8)))
                            (w32 (Z.shiftl b8 16)))
                     (w32 (Z.shiftl b9 24)) in
    Ok (Z.land raw 16383, Z.land (Z.shiftr raw 16) 16383).

(* codecs.KeyframeDimensions for every codec except video/vp9 (whose loop
   over the scalability structure is not modelled); d as above *)
Definition keyframe_dimensions (name : list Z) (d : depack) : outcome (Z * Z) :=
  match codec_of name with
  | CVP8 => match d with
            | DVP8 _ _ pl => keyframe_dimensions_vp8 pl
            | _ => Ok (0, 0)
            end
  | _ => Ok (0, 0)
  end.

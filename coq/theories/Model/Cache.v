(* L0 model of packetcache/packetcache.go.  Executable; no proofs here.
   Every uint16/uint32 wrap of the Go code is written out.  One deliberate
   abstraction: an entry keeps only the first [length] bytes of its 1504-byte
   array (Get/GetAt never copy more than [length] bytes; the correspondence
   check compares the returned length and bytes).  Caller contract of the Go
   code, stated as preconditions of the theorems: 1 <= capacity <= 65535,
   stored packets have 1 <= len <= BufSize, result buffers are empty or
   >= BufSize. *)
From Coq Require Import ZArith List Bool.
From Galene Require Import Lib.Word Lib.Ring.
Import ListNotations.
Open Scope Z_scope.

Definition BufSize : Z := 1504.

Record entry := mkEntry {
  e_seq : Z;          (* uint16 *)
  e_lam : Z;          (* lengthAndMarker, uint16 *)
  e_ts  : Z;          (* uint32 *)
  e_buf : list Z      (* the first [length] bytes *)
}.
Definition zero_entry : entry := mkEntry 0 0 0 [].
Definition e_length (e : entry) : Z := e_lam e mod 32768.     (* & 0x7FFF *)
Definition e_marker (e : entry) : bool := 32768 <=? e_lam e.  (* & 0x8000 *)

Record bitmap := mkBitmap { bm_valid : bool; bm_first : Z; bm_bits : Z }.

Record cache := mkCache {
  c_last : Z; c_cycle : Z; c_lastValid : bool;
  c_expected : Z; c_totalExpected : Z; c_received : Z; c_totalReceived : Z;
  c_keyframe : Z; c_keyframeValid : bool;
  c_bitmap : bitmap;
  c_tail : Z;
  c_entries : list entry
}.

Definition new_cache (capacity : Z) : cache :=
  mkCache 0 0 false 0 0 0 0 0 false (mkBitmap false 0 0) 0
          (repeat zero_entry (Z.to_nat capacity)).

(* seqnoInvalid: seqno unreasonably far in the past of reference *)
Definition seqno_invalid (seqno reference : Z) : bool :=
  if cmp16 reference seqno <? 0 then false
  else 256 <? w16 (reference - seqno).

(* uint32 shifts with a shift count that may exceed 31 *)
Definition shr32 (x s : Z) : Z := if s <? 32 then x / 2 ^ s else 0.
Definition shl32 (x s : Z) : Z := if s <? 32 then w32 (x * 2 ^ s) else 0.

(* bits.TrailingZeros32(^x): number of low one bits, at most 32 *)
Fixpoint trailing_ones (fuel : nat) (x : Z) : Z :=
  match fuel with
  | O => 0
  | S f => if Z.odd x then 1 + trailing_ones f (x / 2) else 0
  end.
(* bits.TrailingZeros32(x) for x <> 0 *)
Fixpoint trailing_zeros (fuel : nat) (x : Z) : Z :=
  match fuel with
  | O => 0
  | S f => if Z.odd x then 0 else 1 + trailing_zeros f (x / 2)
  end.

Definition bm_set (b : bitmap) (seqno : Z) : bitmap :=
  if negb (bm_valid b) || seqno_invalid seqno (bm_first b)
  then mkBitmap true seqno 1
  else if 0 <? cmp16 (bm_first b) seqno then b
  else
    let '(first1, bits1) :=
      if 32 <=? w16 (seqno - bm_first b)
      then let shift := w16 (w16 (seqno - bm_first b) - 31) in
           (w16 (bm_first b + shift), shr32 (bm_bits b) shift)
      else (bm_first b, bm_bits b) in
    let '(first2, bits2) :=
      if Z.odd bits1
      then let ones := trailing_ones 32 bits1 in
           (w16 (first1 + ones), shr32 bits1 ones)
      else (first1, bits1) in
    mkBitmap true first2 (Z.lor bits2 (shl32 1 (w16 (seqno - first2)))).

(* returns (found, first, bitmap16) and the new bitmap *)
Definition bm_get (b : bitmap) (next : Z) : (bool * Z * Z) * bitmap :=
  let first := bm_first b in
  if 0 <=? cmp16 first next then ((false, first, 0), b)
  else
    let count0 := w16 (next - first) in
    let count := if 17 <? count0 then 17 else count0 in
    let bm := (2 ^ count - 1) - (bm_bits b mod 2 ^ count) in
    let b' := mkBitmap (bm_valid b) (w16 (first + count)) (bm_bits b / 2 ^ count) in
    if bm =? 0 then ((false, first, 0), b')
    else
      let '(bm1, first1) :=
        if Z.odd bm then (bm, first)
        else let c := trailing_zeros 32 bm in (bm / 2 ^ c, w16 (first + c)) in
      ((true, first1, w16 (bm1 / 2)), b').


Definition zlen {A} (l : list A) : Z := Z.of_nat (length l).

(* Store: returns (bitmap.first, index) *)
Definition store (c : cache) (seqno ts : Z) (kf marker : bool) (buf : list Z)
  : (Z * Z) * cache :=
  (* statistics *)
  let '(last, cycle, lastValid, expected, received, kfValid0) :=
    if negb (c_lastValid c) || seqno_invalid seqno (c_last c)
    then (seqno, c_cycle c, true, w32 (c_expected c + 1), w32 (c_received c + 1),
          c_keyframeValid c)
    else
      let cmp := cmp16 (c_last c) seqno in
      if cmp <? 0 then
        (seqno,
         (if seqno <? c_last c then w16 (c_cycle c + 1) else c_cycle c),
         true,
         w32 (c_expected c + w16 (seqno - c_last c)),
         w32 (c_received c + 1),
         (if c_keyframeValid c && (0 <? cmp16 (c_keyframe c) seqno)
          then false else c_keyframeValid c))
      else if 0 <? cmp then
        (c_last c, c_cycle c, true, c_expected c,
         (if c_received c <? c_expected c then w32 (c_received c + 1)
          else c_received c),
         c_keyframeValid c)
      else (c_last c, c_cycle c, true, c_expected c, c_received c,
            c_keyframeValid c) in
  let bmap := bm_set (c_bitmap c) seqno in
  let '(kfSeq, kfValid) :=
    if kf then (seqno, true) else (c_keyframe c, kfValid0) in
  let i := c_tail c in
  let lam := if marker then Z.lor (w16 (zlen buf)) 32768 else w16 (zlen buf) in
  let e := mkEntry seqno lam ts (firstn (Z.to_nat BufSize) buf) in
  let entries := set_nth (Z.to_nat i) e (c_entries c) in
  let tail := (i + 1) mod zlen (c_entries c) in
  ((bm_first bmap, i),
   mkCache last cycle lastValid expected (c_totalExpected c) received
           (c_totalReceived c) kfSeq kfValid bmap tail entries).

Definition expect (c : cache) (n : Z) : cache :=
  if n <=? 0 then c else
  mkCache (c_last c) (c_cycle c) (c_lastValid c) (w32 (c_expected c + w32 n))
          (c_totalExpected c) (c_received c) (c_totalReceived c)
          (c_keyframe c) (c_keyframeValid c) (c_bitmap c) (c_tail c) (c_entries c).

(* get: the first slot (by index) that is non-empty and carries seqno.
   Result: (n, timestamp, marker, bytes) with a result buffer >= BufSize. *)
Fixpoint get_entries (seqno : Z) (es : list entry) : Z * Z * bool * list Z :=
  match es with
  | [] => (0, 0, false, [])
  | e :: es' =>
      if (e_lam e =? 0) || negb (e_seq e =? seqno) then get_entries seqno es'
      else (e_length e, e_ts e, e_marker e, firstn (Z.to_nat (e_length e)) (e_buf e))
  end.

(* Cache.Get: n and the bytes copied (nothing if n = 0) *)
Definition get (c : cache) (seqno : Z) : Z * list Z :=
  let '(n, _, _, bytes) := get_entries seqno (c_entries c) in
  if 0 <? n then (n, bytes) else (0, []).

Definition get_at (c : cache) (seqno index : Z) : Z * list Z :=
  if zlen (c_entries c) <=? index then (0, [])
  else
    let e := nth (Z.to_nat index) (c_entries c) zero_entry in
    if negb (e_seq e =? seqno) then (0, [])
    else (e_length e, firstn (Z.to_nat (e_length e)) (e_buf e)).

Definition c_lastq (c : cache) : Z * bool :=
  if c_lastValid c then (c_last c, true) else (0, false).
Definition c_keyframeq (c : cache) : Z * bool :=
  if c_keyframeValid c then (c_keyframe c, true) else (0, false).

Definition with_entries (c : cache) (tail : Z) (es : list entry) : cache :=
  mkCache (c_last c) (c_cycle c) (c_lastValid c) (c_expected c)
          (c_totalExpected c) (c_received c) (c_totalReceived c)
          (c_keyframe c) (c_keyframeValid c) (c_bitmap c) tail es.

Definition resize (c : cache) (capacity : Z) : cache :=
  let es := c_entries c in
  let len := zlen es in
  let tail := c_tail c in
  if len =? capacity then c
  else if len <? capacity then
    with_entries c tail
      (firstn (Z.to_nat tail) es ++
       repeat zero_entry (Z.to_nat (capacity - len)) ++
       skipn (Z.to_nat tail) es)
  else if tail <? capacity then
    with_entries c tail
      (firstn (Z.to_nat tail) es ++ skipn (Z.to_nat (tail + len - capacity)) es)
  else
    with_entries c 0
      (firstn (Z.to_nat capacity) (skipn (Z.to_nat (tail - capacity)) es)).

Definition resize_cond (c : cache) (capacity : Z) : bool * cache :=
  let current := zlen (c_entries c) in
  if (capacity * 3 / 4 <=? current) && (current <? capacity * 2) then (false, c)
  else if (capacity <? current) && (capacity <? c_tail c) then (false, c)
  else (true, resize c capacity).

Record stats := mkStats {
  s_received : Z; s_totalReceived : Z; s_expected : Z; s_totalExpected : Z;
  s_eseqno : Z }.

Definition get_stats (c : cache) (reset : bool) : stats * cache :=
  let s := mkStats (c_received c) (w32 (c_totalReceived c + c_received c))
                   (c_expected c) (w32 (c_totalExpected c + c_expected c))
                   (c_cycle c * 65536 + c_last c) in
  if reset then
    (s, mkCache (c_last c) (c_cycle c) (c_lastValid c) 0
                (w32 (c_totalExpected c + c_expected c)) 0
                (w32 (c_totalReceived c + c_received c))
                (c_keyframe c) (c_keyframeValid c) (c_bitmap c) (c_tail c)
                (c_entries c))
  else (s, c).

Definition bitmap_get (c : cache) (next : Z) : (bool * Z * Z) * cache :=
  let '(r, b) := bm_get (c_bitmap c) next in
  (r, mkCache (c_last c) (c_cycle c) (c_lastValid c) (c_expected c)
              (c_totalExpected c) (c_received c) (c_totalReceived c)
              (c_keyframe c) (c_keyframeValid c) b (c_tail c) (c_entries c)).

(* ToBitmap on a non-empty list: (first, bitmap, remain) *)
Fixpoint to_bitmap_loop (first bitmap : Z) (remain : list Z) : Z * list Z :=
  match remain with
  | [] => (bitmap, [])
  | s :: rest =>
      let delta := w16 (s - first - 1) in
      if 16 <=? delta then (bitmap, remain)
      else to_bitmap_loop first (Z.lor bitmap (2 ^ delta)) rest
  end.
Definition to_bitmap (seqnos : list Z) : option (Z * Z * list Z) :=
  match seqnos with
  | [] => None            (* the Go code panics: caller contract *)
  | first :: rest =>
      let '(bm, remain) := to_bitmap_loop first 0 rest in
      Some (first, bm, remain)
  end.

(* ---- operations as data, for histories ---- *)
Inductive op :=
| OStore (seqno ts : Z) (kf marker : bool) (buf : list Z)
| OGet (seqno : Z)
| OGetAt (seqno index : Z)
| OResize (capacity : Z)
| OResizeCond (capacity : Z)
| OLast | OKeyframe
| OBitmapGet (next : Z)
| OExpect (n : Z)
| OGetStats (reset : bool).

Inductive out :=
| RStore (first index : Z)
| RGet (n : Z) (bytes : list Z)
| RUnit
| RBool (b : bool)
| RSeqOk (s : Z) (ok : bool)
| RBitmap (found : bool) (first bitmap : Z)
| RStats (s : stats).

Definition step (c : cache) (o : op) : cache * out :=
  match o with
  | OStore s ts kf m buf => let '((f, i), c') := store c s ts kf m buf in (c', RStore f i)
  | OGet s => let '(n, b) := get c s in (c, RGet n b)
  | OGetAt s i => let '(n, b) := get_at c s i in (c, RGet n b)
  | OResize k => (resize c k, RUnit)
  | OResizeCond k => let '(b, c') := resize_cond c k in (c', RBool b)
  | OLast => let '(s, ok) := c_lastq c in (c, RSeqOk s ok)
  | OKeyframe => let '(s, ok) := c_keyframeq c in (c, RSeqOk s ok)
  | OBitmapGet n => let '((fd, f, b), c') := bitmap_get c n in (c', RBitmap fd f b)
  | OExpect n => (expect c n, RUnit)
  | OGetStats r => let '(s, c') := get_stats c r in (c', RStats s)
  end.

Definition run (c : cache) (ops : list op) : cache :=
  fold_left (fun c o => fst (step c o)) ops c.

(* L0 model of the group-definition store: group/description.go
   (makeETag, GetDescriptionTag, GetUserTag, UpdateDescription,
   DeleteDescription, UpdateUser, DeleteUser, SetUserPassword, SetKeys,
   rewriteDescriptionFile) and of the handlers of webserver/api.go that use
   them (apiGroupHandler, userHandler, passwordHandler, keysHandler).
   Executable; no proofs here.

   One group file:  file = None (no <group>.json) or Some (content, stamp),
   stamp = (size, mtime in ns) as returned by stat; makeETag is computed from
   the stamp.  The content is the projection the property talks about:
   description fields (one number stands for the sanitised description),
   users with permissions and password, wildcard user, keys.
   Every Update*/Delete*/Set* function runs entirely under groups.mu: it is ONE
   atomic step here ([locked_step]); the stamp the filesystem gives to the new
   version is an input of the step (an oracle: the theorems quantify over it
   under the property's hypothesis that versions have different stamps).
   A handler is two steps: [read_step] (stat / read of the tag, no lock) and
   [write_step] (checkPreconditions, then the locked function, which re-reads
   the file and compares the tag again).
   rewriteDescriptionFile is one step at this level; its syscall sequence with
   crash points is the second half of the file. *)
From Coq Require Import ZArith List Bool.
From Coq Require Decimal DecimalZ.
From Galene Require Import Model.Etag.
Import ListNotations.
Open Scope Z_scope.

(* ---------------------------------------------------------------- makeETag *)

Definition stamp := (Z * Z)%type.          (* fi.Size(), fi.ModTime().UnixNano() *)

Fixpoint uint_bytes (d : Decimal.uint) : str :=
  match d with
  | Decimal.Nil => []
  | Decimal.D0 d => 48 :: uint_bytes d
  | Decimal.D1 d => 49 :: uint_bytes d
  | Decimal.D2 d => 50 :: uint_bytes d
  | Decimal.D3 d => 51 :: uint_bytes d
  | Decimal.D4 d => 52 :: uint_bytes d
  | Decimal.D5 d => 53 :: uint_bytes d
  | Decimal.D6 d => 54 :: uint_bytes d
  | Decimal.D7 d => 55 :: uint_bytes d
  | Decimal.D8 d => 56 :: uint_bytes d
  | Decimal.D9 d => 57 :: uint_bytes d
  end.

(* fmt "%v" of an int64 *)
Definition dec (z : Z) : str :=
  match Z.to_int z with
  | Decimal.Pos d => uint_bytes d
  | Decimal.Neg d => 45 :: uint_bytes d
  end.

(* fmt.Sprintf("\"%v-%v\"", fileSize, modTime.UnixNano()) *)
Definition make_etag (s : stamp) : str :=
  34 :: dec (fst s) ++ 45 :: dec (snd s) ++ [34].

(* ---------------------------------------------------------------- content *)

Record user := mkUser { u_perm : Z; u_pw : Z }.      (* u_pw = 0: no password *)

Record content := mkContent {
  c_desc : Z;                       (* the sanitised description *)
  c_users : list (Z * user);        (* Users, by user id *)
  c_wild : option user;             (* WildcardUser *)
  c_keys : Z                        (* AuthKeys; 0 = none *)
}.

Definition file := option (content * stamp).

Inductive res := ROk | RMismatch | RNotExist | RNotWritable.

Inductive target := TWild | TUser (u : Z).

Fixpoint lookup_user (u : Z) (l : list (Z * user)) : option user :=
  match l with
  | [] => None
  | (k, x) :: t => if k =? u then Some x else lookup_user u t
  end.

Fixpoint del_user (u : Z) (l : list (Z * user)) : list (Z * user) :=
  match l with
  | [] => []
  | (k, x) :: t => if k =? u then del_user u t else (k, x) :: del_user u t
  end.

Definition set_user (u : Z) (x : user) (l : list (Z * user)) : list (Z * user) :=
  (u, x) :: del_user u l.

Definition find_target (t : target) (c : content) : option user :=
  match t with
  | TWild => c_wild c
  | TUser u => lookup_user u (c_users c)
  end.

Definition set_target (t : target) (x : user) (c : content) : content :=
  match t with
  | TWild => mkContent (c_desc c) (c_users c) (Some x) (c_keys c)
  | TUser u => mkContent (c_desc c) (set_user u x (c_users c)) (c_wild c) (c_keys c)
  end.

Definition del_target (t : target) (c : content) : content :=
  match t with
  | TWild => mkContent (c_desc c) (c_users c) None (c_keys c)
  | TUser u => mkContent (c_desc c) (del_user u (c_users c)) (c_wild c) (c_keys c)
  end.

(* ---------------------------------------------------------------- tags *)

Definition file_tag (f : file) : str :=
  match f with
  | Some (_, s) => make_etag s
  | None => []
  end.

(* GetDescriptionTag: None is os.ErrNotExist *)
Definition get_description_tag (f : file) : option str :=
  match f with
  | Some (_, s) => Some (make_etag s)
  | None => None
  end.

(* readDescription as used by GetDescription / GetSanitisedDescription / the
   GET handlers: the file is opened ONCE; the definition is decoded from that
   descriptor and size/mtime come from fstat on the same descriptor, so the
   content and the stamp a reader gets belong to the same version (no writer
   ever modifies a definition file in place).  One step. *)
Definition read_description (f : file) : option (content * str) :=
  match f with
  | Some (c, s) => Some (c, make_etag s)
  | None => None
  end.

(* GetDescription for a group that is LOADED in the running server: the
   definition cached in memory ([cache], read at some earlier moment) is
   returned if descriptionUnchanged says so -- stat of the file succeeds and
   size AND mtime both equal the cached ones -- else the file is read.  The
   tag served is made from the stamp of whatever is returned. *)
Definition stamp_eqb (a b : stamp) : bool := (fst a =? fst b) && (snd a =? snd b).

Definition description_unchanged (cache : content * stamp) (f : file) : bool :=
  match f with
  | None => false
  | Some (_, s) => stamp_eqb s (snd cache)
  end.

Definition get_description (cache : file) (f : file) : file :=
  match cache with
  | Some cd => if description_unchanged cd f then Some cd else f
  | None => f
  end.

(* GetUserTag (GetSanitisedUser): the tag of the FILE if the user exists *)
Definition get_user_tag (f : file) (t : target) : option str :=
  match f with
  | Some (c, s) =>
      match find_target t c with
      | Some _ => Some (make_etag s)
      | None => None
      end
  | None => None
  end.

(* ---------------------------------------------------------------- locked functions *)

(* rewriteDescriptionFile as one step: refuses when the configuration says the
   groups are not writable, else the file named by the group now has the new
   content and the stamp [ns] *)
Definition rewrite_file (wr : bool) (f : file) (c : content) (ns : stamp) : file * res :=
  if wr then (Some (c, ns), ROk) else (f, RNotWritable).

Definition update_description (wr : bool) (f : file) (etag : str) (d : Z) (ns : stamp)
  : file * res :=
  let oldetag := file_tag f in
  if negb (str_eqb oldetag etag) then (f, RMismatch)
  else
    let newc := match f with
                | Some (c, _) => mkContent d (c_users c) (c_wild c) (c_keys c)
                | None => mkContent d [] None 0
                end in
    rewrite_file wr f newc ns.

(* DeleteDescription: os.Remove, no WritableGroups test in the code *)
Definition delete_description (f : file) (etag : str) : file * res :=
  match f with
  | None => (f, RNotExist)
  | Some (_, s) =>
      if negb (str_eqb etag (make_etag s)) then (f, RMismatch) else (None, ROk)
  end.

Definition update_user (wr : bool) (f : file) (t : target) (etag : str) (perm : Z)
  (ns : stamp) : file * res :=
  match f with
  | None => (f, RNotExist)
  | Some (c, s) =>
      let old := find_target t c in
      let oldetag := match old with Some _ => make_etag s | None => [] end in
      if negb (str_eqb oldetag etag) then (f, RMismatch)
      else
        let newuser := mkUser perm (match old with Some o => u_pw o | None => 0 end) in
        rewrite_file wr f (set_target t newuser c) ns
  end.

Definition delete_user (wr : bool) (f : file) (t : target) (etag : str) (ns : stamp)
  : file * res :=
  match f with
  | None => (f, RNotExist)
  | Some (c, s) =>
      match find_target t c with
      | None => (f, RNotExist)
      | Some _ =>
          if negb (str_eqb (make_etag s) etag) then (f, RMismatch)
          else rewrite_file wr f (del_target t c) ns
      end
  end.

Definition set_user_password (wr : bool) (f : file) (t : target) (pw : Z) (ns : stamp)
  : file * res :=
  match f with
  | None => (f, RNotExist)
  | Some (c, _) =>
      match find_target t c with
      | None => (f, RNotExist)
      | Some o => rewrite_file wr f (set_target t (mkUser (u_perm o) pw) c) ns
      end
  end.

Definition set_keys (wr : bool) (f : file) (k : Z) (ns : stamp) : file * res :=
  match f with
  | None => (f, RNotExist)
  | Some (c, _) =>
      rewrite_file wr f (mkContent (c_desc c) (c_users c) (c_wild c) k) ns
  end.

(* ---------------------------------------------------------------- direct API
   (what the `descstore` driver calls on package group) *)

Inductive op :=
| OGetTag
| OGetUserTag (t : target)
| OUpdateDescription (etag : str) (d : Z) (ns : stamp)
| ODeleteDescription (etag : str)
| OUpdateUser (t : target) (etag : str) (perm : Z) (ns : stamp)
| ODeleteUser (t : target) (etag : str) (ns : stamp)
| OSetPassword (t : target) (pw : Z) (ns : stamp)
| OSetKeys (k : Z) (ns : stamp)
| OState.

Inductive out :=
| OutTag (t : option str)
| OutRes (r : res)
| OutState (f : file).

Definition step (wr : bool) (f : file) (o : op) : file * out :=
  match o with
  | OGetTag => (f, OutTag (get_description_tag f))
  | OGetUserTag t => (f, OutTag (get_user_tag f t))
  | OUpdateDescription e d ns => let '(f', r) := update_description wr f e d ns in (f', OutRes r)
  | ODeleteDescription e => let '(f', r) := delete_description f e in (f', OutRes r)
  | OUpdateUser t e p ns => let '(f', r) := update_user wr f t e p ns in (f', OutRes r)
  | ODeleteUser t e ns => let '(f', r) := delete_user wr f t e ns in (f', OutRes r)
  | OSetPassword t pw ns => let '(f', r) := set_user_password wr f t pw ns in (f', OutRes r)
  | OSetKeys k ns => let '(f', r) := set_keys wr f k ns in (f', OutRes r)
  | OState => (f, OutState f)
  end.

(* ---------------------------------------------------------------- handlers *)

Inductive req :=
| GetGroup (head : bool) (im inm : str)
| PutGroup (im inm : str) (d : Z)
| DelGroup (im inm : str)
| GetUser (t : target) (im inm : str)
| PutUser (t : target) (im inm : str) (perm : Z)
| DelUser (t : target) (im inm : str)
| SetPw (t : target) (pw : Z)          (* PUT .../.password, unconditional *)
| SetKeys (k : Z).                     (* PUT/DELETE .../.keys, unconditional *)

Definition req_method (r : req) : str :=
  match r with
  | GetGroup true _ _ => m_HEAD
  | GetGroup false _ _ | GetUser _ _ _ => m_GET
  | PutGroup _ _ _ | PutUser _ _ _ _ | SetPw _ _ | SetKeys _ => m_PUT
  | DelGroup _ _ | DelUser _ _ _ => m_DELETE
  end.

Definition req_im (r : req) : str :=
  match r with
  | GetGroup _ im _ | PutGroup im _ _ | DelGroup im _ | GetUser _ im _
  | PutUser _ im _ _ | DelUser _ im _ => im
  | SetPw _ _ | SetKeys _ => []
  end.

Definition req_inm (r : req) : str :=
  match r with
  | GetGroup _ _ inm | PutGroup _ inm _ | DelGroup _ inm | GetUser _ _ inm
  | PutUser _ _ inm _ | DelUser _ _ inm => inm
  | SetPw _ _ | SetKeys _ => []
  end.

(* first step of a handler: the tag it will work with; None = answers 404 now.
   PUT maps os.ErrNotExist to the empty tag.  SetPw/SetKeys read nothing. *)
Definition read_step (r : req) (f : file) : option str :=
  match r with
  | GetGroup _ _ _ | DelGroup _ _ => get_description_tag f
  | PutGroup _ _ _ => Some (file_tag f)
  | GetUser t _ _ | DelUser t _ _ => get_user_tag f t
  | PutUser t _ _ _ => Some (match get_user_tag f t with Some e => e | None => [] end)
  | SetPw _ _ | SetKeys _ => Some []
  end.

(* the function called under groups.mu, with the tag read in the first step *)
Definition locked_step (wr : bool) (r : req) (etag : str) (f : file) (ns : stamp)
  : file * res :=
  match r with
  | GetGroup _ _ _ | GetUser _ _ _ => (f, ROk)
  | PutGroup _ _ d => update_description wr f etag d ns
  | DelGroup _ _ => delete_description f etag
  | PutUser t _ _ p => update_user wr f t etag p ns
  | DelUser t _ _ => delete_user wr f t etag ns
  | SetPw t pw => set_user_password wr f t pw ns
  | SetKeys k => set_keys wr f k ns
  end.

Definition is_write (r : req) : bool :=
  match r with GetGroup _ _ _ | GetUser _ _ _ => false | _ => true end.

Inductive hres :=
| HPre (status : Z)                 (* answered by checkPreconditions *)
| HRes (r : res) (created : bool).  (* outcome of the locked function *)

(* second step: checkPreconditions with the tag of the first step, then the
   locked function *)
Definition write_step (wr : bool) (r : req) (etag : str) (f : file) (ns : stamp)
  : file * hres :=
  match check_preconditions (req_method r) etag (req_im r) (req_inm r) with
  | CpDone s => (f, HPre s)
  | CpOutOfFuel => (f, HPre (-1))
  | CpNotDone =>
      let '(f', x) := locked_step wr r etag f ns in (f', HRes x (is_empty etag))
  end.

(* the HTTP status of the answer (httpError: ErrNotExist -> 404, the
   NotAuthorisedError of non-writable groups -> 401, ErrTagMismatch -> 500) *)
Definition http_status (r : req) (h : hres) : Z :=
  match h with
  | HPre s => s
  | HRes ROk created =>
      match r with
      | GetGroup _ _ _ | GetUser _ _ _ => 200
      | PutGroup _ _ _ | PutUser _ _ _ _ => if created then 201 else 204
      | _ => 204
      end
  | HRes RNotExist _ => 404
  | HRes RNotWritable _ => 401
  | HRes RMismatch _ => 500
  end.

(* a whole request without interference *)
Definition handle (wr : bool) (r : req) (f : file) (ns : stamp) : file * Z :=
  match read_step r f with
  | None => (f, 404)
  | Some e => let '(f', h) := write_step wr r e f ns in (f', http_status r h)
  end.

(* ---------------------------------------------------------------- interleavings *)

Inductive wstate := WStart | WRead (etag : str) | WDone (h : hres).

(* one acknowledged write: who, the tag it had read, the version it replaced
   and the version it produced *)
Record event := mkEv { ev_writer : nat; ev_etag : str; ev_old : file; ev_new : file }.

Record world := mkWorld {
  w_file : file;
  w_ws : list wstate;
  w_log : list event            (* newest first *)
}.

Fixpoint upd {A} (n : nat) (x : A) (l : list A) : list A :=
  match l, n with
  | [], _ => []
  | _ :: t, O => x :: t
  | h :: t, S n' => h :: upd n' x t
  end.

Definition acked (r : req) (h : hres) : bool :=
  match h with HRes ROk _ => is_write r | _ => false end.

(* writer [i] takes its next step; [ns] is the stamp the filesystem gives to
   the file if this step writes it *)
Definition sched_step (wr : bool) (reqs : list req) (w : world) (x : nat * stamp) : world :=
  let '(i, ns) := x in
  match nth_error reqs i, nth_error (w_ws w) i with
  | Some r, Some WStart =>
      match read_step r (w_file w) with
      | Some e => mkWorld (w_file w) (upd i (WRead e) (w_ws w)) (w_log w)
      | None => mkWorld (w_file w) (upd i (WDone (HRes RNotExist false)) (w_ws w)) (w_log w)
      end
  | Some r, Some (WRead e) =>
      let '(f', h) := write_step wr r e (w_file w) ns in
      mkWorld f' (upd i (WDone h) (w_ws w))
              (if acked r h then mkEv i e (w_file w) f' :: w_log w else w_log w)
  | _, _ => w
  end.

Definition init_world (f0 : file) (reqs : list req) : world :=
  mkWorld f0 (map (fun _ => WStart) reqs) [].

Definition run (wr : bool) (reqs : list req) (f0 : file) (sched : list (nat * stamp)) : world :=
  fold_left (sched_step wr reqs) sched (init_world f0 reqs).

(* ---------------------------------------------------------------- rewriteDescriptionFile, syscall level *)

(* One directory as a list of (name, bytes).  The system calls issued by
   rewriteDescriptionFile on its success path, in order:
     os.CreateTemp(dir, "*.temp")   SCreate tmp      (tmp = <random>.temp, O_EXCL)
     encoder.Encode -> f.Write      SWrite tmp chunk (the kernel may take the
                                                      bytes in several writes)
     f.Sync, f.Close                SSync, SClose
     os.Rename(temp, filename)      SRename tmp target
   and on an error after CreateTemp:  (f.Close,) os.Remove(temp). *)
Definition fname := str.
Definition dir := list (fname * str).

Fixpoint lookup (n : fname) (d : dir) : option str :=
  match d with
  | [] => None
  | (k, x) :: t => if str_eqb k n then Some x else lookup n t
  end.

Fixpoint remove (n : fname) (d : dir) : dir :=
  match d with
  | [] => []
  | (k, x) :: t => if str_eqb k n then remove n t else (k, x) :: remove n t
  end.

Definition set_file (n : fname) (x : str) (d : dir) : dir := (n, x) :: remove n d.

Inductive sys :=
| SCreate (tmp : fname)
| SWrite (tmp : fname) (chunk : str)
| SSync (tmp : fname)
| SClose (tmp : fname)
| SRename (from to : fname)
| SRemove (n : fname).

(* the reference operating system: what each call does to the directory *)
Definition exec_sys (d : dir) (s : sys) : dir :=
  match s with
  | SCreate tmp => set_file tmp [] d
  | SWrite tmp chunk =>
      match lookup tmp d with
      | Some old => set_file tmp (old ++ chunk) d
      | None => d
      end
  | SSync _ | SClose _ => d
  | SRename a b =>
      match lookup a d with
      | Some x => set_file b x (remove a d)
      | None => d
      end
  | SRemove n => remove n d
  end.

Definition suffix_temp : str := [46; 116; 101; 109; 112].    (* ".temp" *)
Definition suffix_json : str := [46; 106; 115; 111; 110].    (* ".json" *)

Definition temp_name (r : str) : fname := r ++ suffix_temp.
Definition group_file (g : str) : fname := g ++ suffix_json.  (* <Directory>/<g>.json *)

Definition rewrite_steps (target tmp : fname) (chunks : list str) : list sys :=
  SCreate tmp :: map (SWrite tmp) chunks ++ [SSync tmp; SClose tmp; SRename tmp target].

(* the run in which step number k (k >= 1, i.e. after CreateTemp succeeded)
   returns an error: the steps before it, then the cleanup *)
Definition rewrite_steps_failing (target tmp : fname) (chunks : list str) (k : nat) : list sys :=
  firstn k (rewrite_steps target tmp chunks) ++ [SClose tmp; SRemove tmp].

Fixpoint has_suffix_rev (rs rsuf : str) : bool :=
  match rsuf, rs with
  | [], _ => true
  | c :: t, x :: s => (c =? x) && has_suffix_rev s t
  | _ :: _, [] => false
  end.
Definition has_suffix (s suf : str) : bool := has_suffix_rev (rev s) (rev suf).

(* which directory entries are group definitions: getDescriptionFile opens
   <name>.json only and GetDescriptionNames lists *.json only *)
Definition is_group_file (n : fname) : bool := has_suffix n suffix_json.

(* the definition of group g as a reader / a restart sees it *)
Definition read_def (d : dir) (g : str) : option str := lookup (group_file g) d.

(* GetDescriptionNames *)
Definition group_files (d : dir) : list fname :=
  filter is_group_file (map fst d).

(* L0 model of token/stateful.go (the stateful token store).  Executable; no
   proofs here.

   What is kept of the Go code
   ---------------------------
   * the in-memory state {tokens map, fileSize, modTime} and the token file;
   * load(): stat the file; re-read it only when size or modification time
     differ from the remembered ones; a line that does not decode resets the
     memory and is an error; a missing file resets the memory;
   * etag(): "" when the remembered modification time is the zero time,
     otherwise the pair (size, mtime);
   * Update (edit of an existing token: etag must equal the current one,
     rewrite of the whole file, roll-back of the memory when the rewrite
     fails; creation: etag must be "", one line appended), Delete, Expire
     (sweeps tokens expired for more than a week; NO roll-back when the
     rewrite fails), List (filter by group, sort by expiry), Get;
   * rewrite(): unlink when the set is empty, otherwise CreateTemp, list()
     (which calls load() again), one write per token, close, rename, stat;
     add(): open with O_CREATE|O_APPEND, one write, fstat;
   * SetStatefulFilename (forgets size/mtime, keeps the map).

   Abstractions (see props/C16.json)
   ---------------------------------
   * token names and group names are opaque identifiers (Z): the store only
     compares them for equality; username/permissions/issuer are one opaque
     datum; times are integers (seconds);
   * a stamp is the pair (size, mtime) as given by the file system: the stamp
     of every version that is written is an input of the operation (oracle);
     mtime 0 stands for Go's zero time.Time;
   * the Go map is an association list with unique keys; nil map = empty;
   * a file is a list of entries: a record that decodes, or [Junk] (bytes that
     do not decode: a torn line, or garbage written by somebody else);
   * sort.Slice (not stable) over a map iteration (random): ties come out in
     any order in Go; here in association-list order.  Observables are
     compared as sets;
   * the file name is set; stat/open errors other than "does not exist" and
     fstat failures are not modelled.

   Process crash: [OCrash w k mid] runs operation w up to its k-th system
   call, then the process dies (memory lost).  [mid = true] means the process
   dies inside call k: a write may then have written a strict prefix of its
   line.  I/O error: [OFail w k] makes call k return an error. *)
From Coq Require Import ZArith List Bool.
Import ListNotations.
Open Scope Z_scope.

Record token := mkTok {
  tk_name : Z;            (* Token *)
  tk_group : Z;           (* Group *)
  tk_exp : option Z;      (* Expires *)
  tk_nbf : option Z;      (* NotBefore *)
  tk_data : Z             (* IncludeSubgroups, Username, Permissions, IssuedAt, IssuedBy *)
}.

Record stamp := mkSt { st_size : Z; st_mtime : Z }.
Definition zero_stamp : stamp := mkSt 0 0.

(* state.modTime.Equal(fi.ModTime()) && state.fileSize == fi.Size() *)
Definition stamp_eqb (a b : stamp) : bool :=
  (st_mtime a =? st_mtime b) && (st_size a =? st_size b).

Definition etag := option stamp.          (* None is the empty string *)
Definition etag_eqb (a b : etag) : bool :=
  match a, b with
  | None, None => true
  | Some x, Some y => stamp_eqb x y
  | _, _ => false
  end.

Inductive entry := Rec (t : token) | Junk.
Record file := mkFile { f_lines : list entry; f_st : stamp }.
Record mem := mkMem { m_tokens : list token; m_st : stamp }.
Record state := mkState { s_mem : mem; s_file : option file }.

Definition reset_mem : mem := mkMem [] zero_stamp.
Definition init_state : state := mkState reset_mem None.

(* the map *)
Fixpoint tlookup (n : Z) (l : list token) : option token :=
  match l with
  | [] => None
  | t :: r => if tk_name t =? n then Some t else tlookup n r
  end.
Fixpoint tremove (n : Z) (l : list token) : list token :=
  match l with
  | [] => []
  | t :: r => if tk_name t =? n then tremove n r else t :: tremove n r
  end.
Definition tset (t : token) (l : list token) : list token :=
  t :: tremove (tk_name t) l.

(* the decoding loop of load(): ts[t.Token] = &t, an undecodable value aborts *)
Fixpoint parse_from (acc : list token) (ls : list entry) : option (list token) :=
  match ls with
  | [] => Some acc
  | Junk :: _ => None
  | Rec t :: r => parse_from (tset t acc) r
  end.
Definition parse (ls : list entry) : option (list token) := parse_from [] ls.

Definition etag_of (m : mem) : etag :=
  if st_mtime (m_st m) =? 0 then None else Some (m_st m).

Inductive lres := LOk (e : etag) | LErr.

Definition load (m : mem) (f : option file) : mem * lres :=
  match f with
  | None => (reset_mem, LOk None)
  | Some fl =>
    if stamp_eqb (m_st m) (f_st fl) then (m, LOk (etag_of m))
    else match parse (f_lines fl) with
         | None => (reset_mem, LErr)
         | Some ts => let m' := mkMem ts (f_st fl) in (m', LOk (etag_of m'))
         end
  end.

(* the less function given to sort.Slice in list() *)
Definition exp_less (a b : token) : bool :=
  match tk_exp b with
  | None => false
  | Some eb => match tk_exp a with None => true | Some ea => ea <? eb end
  end.
Fixpoint insert_sorted (t : token) (l : list token) : list token :=
  match l with
  | [] => [t]
  | h :: r => if exp_less t h then t :: l else h :: insert_sorted t r
  end.
Definition sort_exp (l : list token) : list token := fold_right insert_sorted [] l.

(* list(group, all) after its load: [None] is all = true *)
Definition list_mem (m : mem) (g : option Z) : list token :=
  sort_exp (filter (fun t => match g with None => true | Some g => tk_group t =? g end)
                   (m_tokens m)).

(* ---- the file system, as far as rewrite() and add() use it ---- *)
Inductive sys :=
| SysCreateTmp                          (* os.CreateTemp(dir, "tokens") *)
| SysWriteTmp (e : entry)               (* encoder.Encode: one write(2) per token *)
| SysCloseTmp
| SysRename (st : stamp)                (* os.Rename(tmp, filename); st = (size, mtime) of the temp inode *)
| SysRemoveTmp                          (* os.Remove(tmp) on the error paths *)
| SysUnlink                             (* os.Remove(filename) when the set is empty *)
| SysOpenAppend (st0 : stamp)           (* OpenFile(O_CREATE|O_WRONLY|O_APPEND); creates an empty file stamped st0 *)
| SysAppend (e : entry) (st : stamp).   (* encoder.Encode: one write(2) at the end of the file *)

Record disk := mkDisk { d_main : option file; d_tmp : option (list entry) }.

Definition main_lines (d : disk) : list entry :=
  match d_main d with Some fl => f_lines fl | None => [] end.

(* a system call that runs to completion *)
Definition sys_step (d : disk) (c : sys) : disk :=
  match c with
  | SysCreateTmp => mkDisk (d_main d) (Some [])
  | SysWriteTmp e =>
    match d_tmp d with Some l => mkDisk (d_main d) (Some (l ++ [e])) | None => d end
  | SysCloseTmp => d
  | SysRename st =>
    match d_tmp d with Some l => mkDisk (Some (mkFile l st)) None | None => d end
  | SysRemoveTmp => mkDisk (d_main d) None
  | SysUnlink => mkDisk None (d_tmp d)
  | SysOpenAppend st0 =>
    match d_main d with Some _ => d | None => mkDisk (Some (mkFile [] st0)) (d_tmp d) end
  | SysAppend e st => mkDisk (Some (mkFile (main_lines d ++ [e]) st)) (d_tmp d)
  end.

(* the process dies inside the call: a write may leave a strict prefix of its
   line (which does not decode); every other call has happened or not *)
Definition sys_torn (d : disk) (c : sys) : disk :=
  match c with
  | SysWriteTmp _ =>
    match d_tmp d with Some l => mkDisk (d_main d) (Some (l ++ [Junk])) | None => d end
  | SysAppend _ st => mkDisk (Some (mkFile (main_lines d ++ [Junk]) st)) (d_tmp d)
  | _ => d
  end.

Definition run_sys (d : disk) (prog : list sys) : disk := fold_left sys_step prog d.

Definition crash_disk (d : disk) (prog : list sys) (k : nat) (mid : bool) : disk :=
  let d' := run_sys d (firstn k prog) in
  if mid then match nth_error prog k with Some c => sys_torn d' c | None => d' end
  else d'.

(* call k returns an error and has no effect; the code then removes its
   temporary file if it has one *)
Definition fail_disk (d : disk) (prog : list sys) (k : nat) : disk :=
  let d' := run_sys d (firstn k prog) in
  mkDisk (d_main d') None.

(* ---- operations ---- *)
Inductive res := ROk | RMismatch | RNotExist | ROther.

(* what an operation that writes is going to do: its result when every call
   succeeds, the calls, the memory afterwards, the memory if a call fails *)
Record plan := mkPlan { pl_res : res; pl_prog : list sys; pl_ok : mem; pl_fail : mem }.
Definition noplan (r : res) (m : mem) : plan := mkPlan r [] m m.

(* rewrite(), entered with the memory already modified; [rollback] is what the
   caller does to the memory when rewrite returns an error *)
Definition rewrite_plan (m : mem) (f : option file) (st : stamp) (rollback : mem -> mem) : plan :=
  match m_tokens m with
  | [] => mkPlan ROk [SysUnlink] m (rollback m)
  | _ :: _ =>
    let (m', lr) := load m f in               (* list("", true) loads again *)
    match lr with
    | LErr => mkPlan ROther [SysCreateTmp; SysRemoveTmp] (rollback m') (rollback m')
    | LOk _ =>
      mkPlan ROk
             (SysCreateTmp :: map (fun t => SysWriteTmp (Rec t)) (list_mem m' None)
                ++ [SysCloseTmp; SysRename st])
             (mkMem (m_tokens m') st)          (* os.Stat after the rename *)
             (rollback m')
    end
  end.

Definition week : Z := 604800.
(* t.Expires != nil && t.Expires.Before(now - 7 days) *)
Definition swept (now : Z) (t : token) : bool :=
  match tk_exp t with Some e => e <? now - week | None => false end.

Inductive wop :=
| WUpdate (t : token) (e : etag) (st0 st : stamp)
| WDelete (n : Z) (e : etag) (st : stamp)
| WExpire (now : Z) (st : stamp).

Definition wplan (m : mem) (f : option file) (w : wop) : plan :=
  match w with
  | WUpdate t e st0 st =>
    let (m1, lr) := load m f in
    match lr with
    | LErr => noplan ROther m1
    | LOk _ =>
      match tlookup (tk_name t) (m_tokens m1) with
      | Some old =>
        if negb (etag_eqb e (etag_of m1)) then noplan RMismatch m1
        else rewrite_plan (mkMem (tset t (m_tokens m1)) (m_st m1)) f st
                          (fun m' => mkMem (tset old (m_tokens m')) (m_st m'))
      | None =>
        match e with
        | Some _ => noplan RMismatch m1
        | None =>                              (* add() *)
          mkPlan ROk [SysOpenAppend st0; SysAppend (Rec t) st]
                 (mkMem (tset t (m_tokens m1)) st) m1
        end
      end
    end
  | WDelete n e st =>
    let (m1, lr) := load m f in
    match lr with
    | LErr => noplan ROther m1
    | LOk _ =>
      match tlookup n (m_tokens m1) with
      | None => noplan RNotExist m1
      | Some old =>
        if negb (etag_eqb e (etag_of m1)) then noplan RMismatch m1
        else rewrite_plan (mkMem (tremove n (m_tokens m1)) (m_st m1)) f st
                          (fun m' => mkMem (tset old (m_tokens m')) (m_st m'))
      end
    end
  | WExpire now st =>
    let (m1, lr) := load m f in
    match lr with
    | LErr => noplan ROther m1
    | LOk _ =>
      if existsb (swept now) (m_tokens m1)
      then rewrite_plan (mkMem (filter (fun t => negb (swept now t)) (m_tokens m1)) (m_st m1))
                        f st (fun m' => m')    (* Expire does not roll back *)
      else noplan ROk m1
    end
  end.

Inductive op :=
| OGet (n : Z)
| OList (g : Z)
| ODo (w : wop)
| OExternal (c : option (list entry)) (st : stamp)   (* somebody replaces or removes the file *)
| ORestart                                           (* new process: empty memory *)
| ORepoint                                           (* SetStatefulFilename(same name) *)
| OCrash (w : wop) (k : nat) (mid : bool)
| OFail (w : wop) (k : nat).

Record out := mkOut { o_res : res; o_etag : etag; o_toks : list token }.

Definition step (s : state) (o : op) : state * out :=
  let m := s_mem s in
  let f := s_file s in
  match o with
  | OGet n =>
    let (m1, lr) := load m f in
    match lr with
    | LErr => (mkState m1 f, mkOut ROther None [])
    | LOk e =>
      match tlookup n (m_tokens m1) with
      | None => (mkState m1 f, mkOut RNotExist None [])
      | Some t => (mkState m1 f, mkOut ROk e [t])
      end
    end
  | OList g =>
    let (m1, lr) := load m f in
    match lr with
    | LErr => (mkState m1 f, mkOut ROther None [])
    | LOk e => (mkState m1 f, mkOut ROk e (list_mem m1 (Some g)))
    end
  | ODo w =>
    let p := wplan m f w in
    (mkState (pl_ok p) (d_main (run_sys (mkDisk f None) (pl_prog p))),
     mkOut (pl_res p) None [])
  | OExternal c st =>
    (mkState m (match c with None => None | Some ls => Some (mkFile ls st) end),
     mkOut ROk None [])
  | ORestart => (mkState reset_mem f, mkOut ROk None [])
  | ORepoint => (mkState (mkMem (m_tokens m) zero_stamp) f, mkOut ROk None [])
  | OCrash w k mid =>
    let p := wplan m f w in
    (mkState reset_mem (d_main (crash_disk (mkDisk f None) (pl_prog p) k mid)),
     mkOut ROther None [])
  | OFail w k =>
    let p := wplan m f w in
    if (k <? length (pl_prog p))%nat
    then (mkState (pl_fail p) (d_main (fail_disk (mkDisk f None) (pl_prog p) k)),
          mkOut ROther None [])
    else (mkState (pl_ok p) (d_main (run_sys (mkDisk f None) (pl_prog p))),
          mkOut (pl_res p) None [])
  end.

Fixpoint run (s : state) (h : list op) : state :=
  match h with
  | [] => s
  | o :: r => run (fst (step s o)) r
  end.

(* the outputs of a history, in order *)
Fixpoint outs (s : state) (h : list op) : list out :=
  match h with
  | [] => []
  | o :: r => snd (step s o) :: outs (fst (step s o)) r
  end.

(* ---- an I/O fault that the harness can produce in the running process: no
   file descriptor can be allocated (EMFILE), so CreateTemp of rewrite() and
   OpenFile of add() fail; os.Remove of the last-token case needs none and
   succeeds.  [wstep true] is the write operation under that fault: an
   instance of [OFail]. ---- *)
Definition fd_fail_index (p : list sys) : nat :=
  match p with SysUnlink :: _ => length p | _ => 0%nat end.
Definition wstep (fault : bool) (s : state) (w : wop) : state * out :=
  if fault
  then step s (OFail w (fd_fail_index (pl_prog (wplan (s_mem s) (s_file s) w))))
  else step s (ODo w).

(* ---- the HTTP token handlers (webserver/api.go, tokensHandler), as far as
   they use the store.  Each handler reads the token and its tag with Get,
   evaluates If-Match / If-None-Match against that tag ("" = the object does
   not exist), and then calls Update / Delete with the tag it has just read.
   Headers: one entity tag, or "*" (lists and weak tags are C18's).  The
   request is authenticated as an administrator and the group exists; the
   body decodes and does not name token or group. ---- *)
Inductive hval := HStar | HTag (e : stamp).

(* etagMatch(etag, header) *)
Definition etag_match (e : etag) (h : hval) : bool :=
  match h with
  | HStar => match e with Some _ => true | None => false end
  | HTag t => etag_eqb e (Some t)
  end.

(* checkPreconditions: Some status when the request is answered here *)
Definition check_pre (read : bool) (e : etag) (im inm : option hval) : option Z :=
  if match im with Some h => negb (etag_match e h) | None => false end then Some 412
  else if match inm with Some h => etag_match e h | None => false end
       then Some (if read then 304 else 412)
       else None.

Inductive areq :=
| AGet (g n : Z) (im inm : option hval)
| AList (g : Z)
| APost (g : Z) (t : token) (st0 st : stamp)          (* tk_name t: the random name *)
| APut (g n : Z) (im inm : option hval) (t : token) (st0 st : stamp)
| ADelete (g n : Z) (im inm : option hval) (st : stamp).

Record aresp := mkResp { a_status : Z; a_etag : etag; a_toks : list token }.

(* httpError *)
Definition http_error (r : res) : Z :=
  match r with RNotExist => 404 | _ => 500 end.

Definition with_name (t : token) (g n : Z) : token :=
  mkTok n g (tk_exp t) (tk_nbf t) (tk_data t).

Definition api_step_f (fault : bool) (s : state) (q : areq) : state * aresp :=
  match q with
  | AGet g n im inm =>
    let (s1, o) := step s (OGet n) in
    match o_res o, o_toks o with
    | ROk, t :: _ =>
      if negb (tk_group t =? g) then (s1, mkResp 404 None [])
      else match check_pre true (o_etag o) im inm with
           | Some c => (s1, mkResp c None [])
           | None => (s1, mkResp 200 (o_etag o) [t])
           end
    | r, _ => (s1, mkResp (http_error r) None [])
    end
  | AList g =>
    let (s1, o) := step s (OList g) in
    match o_res o with
    | ROk => (s1, mkResp 200 (o_etag o) (o_toks o))
    | r => (s1, mkResp (http_error r) None [])
    end
  | APost g t st0 st =>
    let (s1, o) := wstep fault s (WUpdate (with_name t g (tk_name t)) None st0 st) in
    match o_res o with
    | ROk => (s1, mkResp 201 None [])
    | r => (s1, mkResp (http_error r) None [])
    end
  | APut g n im inm t st0 st =>
    let (s1, o) := step s (OGet n) in
    let proceed (e : etag) :=
      match check_pre false e im inm with
      | Some c => (s1, mkResp c None [])
      | None =>
        let (s2, o2) := wstep fault s1 (WUpdate (with_name t g n) e st0 st) in
        match o_res o2 with
        | ROk => (s2, mkResp (match e with None => 201 | Some _ => 204 end) None [])
        | r => (s2, mkResp (http_error r) None [])
        end
      end in
    match o_res o, o_toks o with
    | ROk, old :: _ =>
      if negb (tk_group old =? g) then (s1, mkResp 409 None [])
      else proceed (o_etag o)
    | RNotExist, _ => proceed None
    | r, _ => (s1, mkResp (http_error r) None [])
    end
  | ADelete g n im inm st =>
    let (s1, o) := step s (OGet n) in
    match o_res o, o_toks o with
    | ROk, old :: _ =>
      if negb (tk_group old =? g) then (s1, mkResp 404 None [])
      else match check_pre false (o_etag o) im inm with
           | Some c => (s1, mkResp c None [])
           | None =>
             let (s2, o2) := wstep fault s1 (WDelete n (o_etag o) st) in
             match o_res o2 with
             | ROk => (s2, mkResp 204 None [])
             | r => (s2, mkResp (http_error r) None [])
             end
           end
    | r, _ => (s1, mkResp (http_error r) None [])
    end
  end.

Definition api_step (s : state) (q : areq) : state * aresp := api_step_f false s q.

(* ---- the token commands of the signalling protocol (rtpconn/webclient.go,
   groupaction maketoken / edittoken / listtokens), as far as they use the
   store; the sender has the op and token permissions.  edittoken reads the
   token and its tag, applies the new expiry / not-before to a COPY, and
   calls Update with the tag it has just read. ---- *)
Inductive sreq :=
| SMake (t : token) (st0 st : stamp)                       (* tk_name t: the random name *)
| SEdit (g n : Z) (exp nbf : option Z) (st0 st : stamp)
| SList (g : Z).

Definition sig_step (fault : bool) (s : state) (q : sreq) : state * out :=
  match q with
  | SMake t st0 st => wstep fault s (WUpdate t None st0 st)
  | SEdit g n exp nbf st0 st =>
    let (s1, o) := step s (OGet n) in
    match o_res o, o_toks o with
    | ROk, old :: _ =>
      if negb (tk_group old =? g) then (s1, mkOut ROther None [])
      else
        let t := mkTok (tk_name old) (tk_group old)
                       (match exp with Some e => Some e | None => tk_exp old end)
                       (match nbf with Some b => Some b | None => tk_nbf old end)
                       (tk_data old) in
        wstep fault s1 (WUpdate t (o_etag o) st0 st)
    | r, _ => (s1, mkOut r None [])
    end
  | SList g => step s (OList g)
  end.

(* Fixed-width unsigned arithmetic as used by the Go code, written over Z
   with the wrap-around explicit.  No proofs about the Go code here: only
   arithmetic facts used by every model. *)
From Coq Require Import ZArith List Lia Bool.
From Coq Require Import ZifyBool.
Import ListNotations.
Open Scope Z_scope.
Ltac Zify.zify_post_hook ::= Z.div_mod_to_equations.

Definition w8 (x : Z) : Z := x mod 256.
Definition w16 (x : Z) : Z := x mod 65536.
Definition w32 (x : Z) : Z := x mod 4294967296.
Definition w64 (x : Z) : Z := x mod 18446744073709551616.

Definition is16 (x : Z) : Prop := 0 <= x < 65536.

(* Go: func compare(s1, s2 uint16) int  (packetmap and packetcache) *)
Definition cmp16 (s1 s2 : Z) : Z :=
  if s1 =? s2 then 0
  else if 32768 <=? w16 (s2 - s1) then 1 else -1.

(* bit test / set on small words, written arithmetically *)
Definition bit (x : Z) (i : Z) : bool := Z.odd (x / 2 ^ i).
Definition shr (x : Z) (k : Z) : Z := x / 2 ^ k.

Lemma w16_range x : 0 <= w16 x < 65536.
Proof. unfold w16. lia. Qed.
Lemma w16_idem x : w16 (w16 x) = w16 x.
Proof. unfold w16. lia. Qed.
Lemma w16_small x : 0 <= x < 65536 -> w16 x = x.
Proof. unfold w16. lia. Qed.
Lemma w16_add_l a b : w16 (w16 a + b) = w16 (a + b).
Proof. unfold w16. lia. Qed.
Lemma w16_add_r a b : w16 (a + w16 b) = w16 (a + b).
Proof. unfold w16. lia. Qed.
Lemma w16_sub_l a b : w16 (w16 a - b) = w16 (a - b).
Proof. unfold w16. lia. Qed.
Lemma w16_sub_r a b : w16 (a - w16 b) = w16 (a - b).
Proof. unfold w16. lia. Qed.
Lemma w16_eq_iff a b : -65536 < a - b < 65536 -> (w16 a = w16 b <-> a = b).
Proof. unfold w16. lia. Qed.
Lemma dist16 a b : 0 <= a - b < 65536 -> w16 (w16 a - w16 b) = a - b.
Proof. unfold w16. lia. Qed.

Lemma cmp16_unwrap A B :
  -32768 < A - B < 32768 -> cmp16 (w16 A) (w16 B) = Z.sgn (A - B).
Proof.
  intros H. unfold cmp16, w16.
  destruct (A mod 65536 =? B mod 65536) eqn:E1.
  - assert (A = B) by lia. subst. rewrite Z.sub_diag. reflexivity.
  - destruct (32768 <=? (B mod 65536 - A mod 65536) mod 65536) eqn:E2; lia.
Qed.

Lemma cmp16_nonneg A B : -32768 < A - B < 32768 ->
  (0 <=? cmp16 (w16 A) (w16 B)) = (B <=? A).
Proof.
  intros H. rewrite cmp16_unwrap by exact H.
  destruct (Z.sgn_spec (A - B)) as [[? ->]|[[? ->]|[? ->]]]; lia.
Qed.
Lemma cmp16_neg A B : -32768 < A - B < 32768 ->
  (cmp16 (w16 A) (w16 B) <? 0) = (A <? B).
Proof.
  intros H. rewrite cmp16_unwrap by exact H.
  destruct (Z.sgn_spec (A - B)) as [[? ->]|[[? ->]|[? ->]]]; lia.
Qed.
Lemma cmp16_pos A B : -32768 < A - B < 32768 ->
  (0 <? cmp16 (w16 A) (w16 B)) = (B <? A).
Proof.
  intros H. rewrite cmp16_unwrap by exact H.
  destruct (Z.sgn_spec (A - B)) as [[? ->]|[[? ->]|[? ->]]]; lia.
Qed.
Lemma cmp16_nonpos A B : -32768 < A - B < 32768 ->
  (cmp16 (w16 A) (w16 B) <=? 0) = (A <=? B).
Proof.
  intros H. rewrite cmp16_unwrap by exact H.
  destruct (Z.sgn_spec (A - B)) as [[? ->]|[[? ->]|[? ->]]]; lia.
Qed.
Lemma cmp16_values a b : cmp16 a b = 0 \/ cmp16 a b = 1 \/ cmp16 a b = -1.
Proof. unfold cmp16. destruct (a =? b); [auto|]. destruct (_ <=? _); auto. Qed.

(* disjoint bit patterns: [lor] is [+] *)
Lemma lor_add_disjoint a b : Z.land a b = 0 -> Z.lor a b = a + b.
Proof.
  intros H. rewrite <- Z.lxor_lor by exact H. symmetry.
  apply Z.add_nocarry_lxor. exact H.
Qed.
Lemma land_small_pow2 x n : 0 <= n -> 0 <= x < 2 ^ n -> Z.land x (2 ^ n) = 0.
Proof.
  intros Hn Hx. apply Z.bits_inj'. intros k Hk.
  rewrite Z.land_spec, Z.bits_0.
  destruct (Z.eq_dec k n) as [->|Hne].
  - destruct (Z.eq_dec x 0) as [->|Hx0]; [rewrite Z.bits_0; reflexivity|].
    replace (Z.testbit x n) with false; [reflexivity|].
    symmetry. apply Z.bits_above_log2; [lia|]. apply Z.log2_lt_pow2; lia.
  - rewrite (Z.pow2_bits_false n k) by lia. apply andb_false_r.
Qed.
Lemma lor_small_pow2 x n : 0 <= n -> 0 <= x < 2 ^ n -> Z.lor x (2 ^ n) = x + 2 ^ n.
Proof. intros Hn Hx. apply lor_add_disjoint. apply land_small_pow2; assumption. Qed.

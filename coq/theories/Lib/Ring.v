(* Generic facts about a ring buffer stored in a list: [ring t l] reads the
   slots newest-first when slot [t] is the oldest one. *)
From Coq Require Import List Lia Arith.
Import ListNotations.

Fixpoint set_nth {A} (n : nat) (x : A) (l : list A) : list A :=
  match l, n with
  | [], _ => []
  | _ :: t, O => x :: t
  | h :: t, S n' => h :: set_nth n' x t
  end.

(* ---------- pure list facts (nat indices) ---------- *)
Lemma set_nth_length {A} n (x : A) l : length (set_nth n x l) = length l.
Proof. revert n; induction l; intros [|n]; cbn; auto. Qed.

Section Lists.
Context {A : Type}.
Implicit Types (l a b : list A) (x e : A).

Definition ring (t : nat) l : list A := rev (skipn t l ++ firstn t l).

Lemma set_nth_app a x b e : set_nth (length a) e (a ++ x :: b) = a ++ e :: b.
Proof. induction a as [|y a IH]; cbn; [reflexivity|]. rewrite IH. reflexivity. Qed.

Lemma split_at t l : (t < length l)%nat ->
  exists a x b, l = a ++ x :: b /\ length a = t.
Proof.
  intros H. exists (firstn t l).
  destruct (skipn t l) as [|x b] eqn:E.
  - apply (f_equal (@length A)) in E. rewrite skipn_length in E. cbn in E. lia.
  - exists x, b. split.
    + rewrite <- E. symmetry. apply firstn_skipn.
    + rewrite firstn_length. lia.
Qed.

Lemma skipn_add i j l : skipn (i + j) l = skipn j (skipn i l).
Proof. revert l; induction i; intros l; cbn; [reflexivity|]. destruct l; [destruct j; reflexivity|apply IHi]. Qed.

Lemma skipn_app_exact a b : skipn (length a) (a ++ b) = b.
Proof. induction a; cbn; auto. Qed.
Lemma firstn_app_exact a b : firstn (length a) (a ++ b) = a.
Proof. induction a; cbn; [destruct b; reflexivity|]. f_equal. assumption. Qed.

Lemma removelast_snoc l x : removelast (l ++ [x]) = l.
Proof. apply removelast_last. Qed.

Lemma ring_split a x b : ring (length a) (a ++ x :: b) = rev a ++ rev b ++ [x].
Proof.
  unfold ring. rewrite skipn_app_exact, firstn_app_exact.
  cbn [app rev]. rewrite rev_app_distr, <- app_assoc. reflexivity.
Qed.

(* Store at slot t, then advance the tail cyclically *)
Lemma ring_store t l e : (t < length l)%nat ->
  ring (S t mod length l) (set_nth t e l) = e :: removelast (ring t l).
Proof.
  intros Ht. destruct (split_at t l Ht) as (a & x & b & -> & Ha). subst t.
  rewrite set_nth_app, ring_split.
  rewrite !app_assoc, removelast_snoc.
  rewrite app_length. cbn [length].
  destruct b as [|y b].
  - cbn [length rev]. replace (length a + 1)%nat with (S (length a)) by lia.
    rewrite Nat.mod_same by lia.
    unfold ring. cbn [skipn firstn]. rewrite !app_nil_r, rev_app_distr. reflexivity.
  - rewrite Nat.mod_small by (cbn [length]; lia).
    replace (a ++ e :: y :: b) with ((a ++ [e]) ++ y :: b) by (rewrite <- app_assoc; reflexivity).
    replace (S (length a)) with (length (a ++ [e])) by (rewrite app_length; cbn; lia).
    rewrite ring_split. rewrite rev_app_distr. cbn [rev app]. reflexivity.
Qed.

Lemma rev_repeat x n : rev (repeat x n) = repeat x n.
Proof.
  induction n; cbn; [reflexivity|]. rewrite IHn.
  clear. induction n; cbn; [reflexivity|]. f_equal. exact IHn.
Qed.

(* grow: zero slots are inserted at the tail *)
Lemma ring_grow t l z k : (t < length l)%nat ->
  ring t (firstn t l ++ repeat z k ++ skipn t l) = ring t l ++ repeat z k.
Proof.
  intros Ht. destruct (split_at t l Ht) as (a & x & b & -> & Ha). subst t.
  unfold ring. rewrite !firstn_app_exact, !skipn_app_exact.
  rewrite ?firstn_app_exact, ?skipn_app_exact.
  rewrite !rev_app_distr, rev_repeat, <- !app_assoc. reflexivity.
Qed.

Lemma rev_skipn l j : rev (skipn j l) = firstn (length l - j) (rev l).
Proof.
  rewrite firstn_rev.
  destruct (Nat.le_gt_cases j (length l)) as [Hle|Hgt].
  - replace (length l - (length l - j))%nat with j by lia. reflexivity.
  - replace (length l - j)%nat with 0%nat by lia. rewrite Nat.sub_0_r.
    rewrite !skipn_all2 by lia. reflexivity.
Qed.

(* shrink, tail < k < length: keep [0,t) and the end of the old section *)
Lemma ring_shrink_mid t l k : (t < k)%nat -> (k < length l)%nat ->
  ring t (firstn t l ++ skipn (t + length l - k) l) = firstn k (ring t l).
Proof.
  intros Htk Hk.
  assert (Ht : (t < length l)%nat) by lia.
  destruct (split_at t l Ht) as (a & x & b & -> & Ha). subst t.
  remember (x :: b) as c eqn:Hc. remember (length (a ++ c)) as n eqn:Hn0.
  assert (Hn : n = (length a + length c)%nat) by (subst n; apply app_length).
  clear Hn0 Hc.
  rewrite firstn_app_exact.
  replace (length a + n - k)%nat with (length a + (n - k))%nat by lia.
  rewrite skipn_add, skipn_app_exact.
  unfold ring. rewrite !skipn_app_exact, !firstn_app_exact.
  rewrite !rev_app_distr, rev_skipn.
  rewrite firstn_app, rev_length.
  rewrite (firstn_all2 (rev a)) by (rewrite rev_length; lia).
  f_equal. f_equal. lia.
Qed.

(* shrink, k <= tail: keep the k slots before the tail, tail := 0 *)
Lemma ring_shrink_low t l k : (k <= t)%nat -> (t < length l)%nat ->
  ring 0 (firstn k (skipn (t - k) l)) = firstn k (ring t l).
Proof.
  intros Hkt Ht.
  destruct (split_at t l Ht) as (a & x & b & -> & Ha). subst t.
  unfold ring at 1. cbn [skipn firstn]. rewrite app_nil_r.
  rewrite ring_split.
  assert (Hs : skipn (length a - k) (a ++ x :: b) = skipn (length a - k) a ++ x :: b).
  { rewrite skipn_app. replace (length a - k - length a)%nat with 0%nat by lia. reflexivity. }
  rewrite Hs.
  rewrite firstn_app, skipn_length.
  replace (k - (length a - (length a - k)))%nat with 0%nat by lia.
  cbn [firstn]. rewrite app_nil_r.
  rewrite (firstn_all2 (skipn (length a - k) a)) by (rewrite skipn_length; lia).
  rewrite rev_skipn.
  rewrite firstn_app, rev_length.
  replace (k - length a)%nat with 0%nat by lia. cbn [firstn]. rewrite app_nil_r.
  f_equal. lia.
Qed.

Lemma ring_In t l x : In x (ring t l) <-> In x l.
Proof.
  unfold ring. rewrite <- in_rev, in_app_iff.
  rewrite <- (firstn_skipn t l) at 3. rewrite in_app_iff. tauto.
Qed.
Lemma ring_length t l : length (ring t l) = length l.
Proof.
  unfold ring. rewrite rev_length, app_length, Nat.add_comm, <- app_length, firstn_skipn. reflexivity.
Qed.
End Lists.


(* Lock order: a rank that increases strictly along every "held -> acquired"
   edge excludes cycles of the edge relation, and therefore wait-for cycles
   (deadlocks) in an abstract model of threads and mutexes.

   The model: lock INSTANCES [I] (one mutex each) belong to lock CLASSES [L]
   ([cls]); a state says which thread holds which instance and which thread
   waits for which instance.  A thread may REQUEST an instance l only if it
   is not already waiting and every instance h it holds satisfies
   [E (cls h) (cls l)] -- the discipline extracted from the code: [E] contains
   every pair (class held, class acquired).  A request is GRANTED when nobody
   holds the instance; a thread that is not waiting may RELEASE.
   Because the rank is STRICT, an edge from a class to itself is excluded: a
   thread never requests an instance of a class of which it holds an
   instance (neither the same instance -- self-deadlock -- nor another one).

   Theorem [no_deadlock]: in every reachable state the wait-for relation
   (t1 waits for an instance that t2 holds, and t2 waits too) has no cycle. *)
From Coq Require Import Arith Lia Relations.

Section LockOrder.
  Variables T I L : Type.
  Variable cls : I -> L.
  Variable E : L -> L -> Prop.
  Variable rank : L -> nat.
  Hypothesis rank_increases : forall a b, E a b -> rank a < rank b.

  (* --- the edge relation has no cycle *)
  Lemma path_rank : forall a b, clos_trans L E a b -> rank a < rank b.
  Proof.
    intros a b H. induction H as [a b H|a b c _ IH1 _ IH2].
    - exact (rank_increases a b H).
    - lia.
  Qed.

  Theorem edges_acyclic : forall a, ~ clos_trans L E a a.
  Proof. intros a H. pose proof (path_rank a a H). lia. Qed.

  (* --- threads and mutexes *)
  Record lstate := mkL {
    held : T -> I -> Prop;
    waiting : T -> I -> Prop
  }.

  Definition lock_init : lstate := mkL (fun _ _ => False) (fun _ _ => False).

  Inductive lstep (s s' : lstate) : Prop :=
  | LRequest (t : T) (l : I) :
      (forall l', ~ waiting s t l') ->
      (forall h, held s t h -> E (cls h) (cls l)) ->
      (forall t' l', held s' t' l' <-> held s t' l') ->
      (forall t' l', waiting s' t' l' <-> (waiting s t' l' \/ (t' = t /\ l' = l))) ->
      lstep s s'
  | LGrant (t : T) (l : I) :
      waiting s t l ->
      (forall t', ~ held s t' l) ->
      (forall t' l', held s' t' l' <-> (held s t' l' \/ (t' = t /\ l' = l))) ->
      (forall t' l', waiting s' t' l' <-> (waiting s t' l' /\ t' <> t)) ->
      lstep s s'
  | LRelease (t : T) (l : I) :
      held s t l ->
      (forall l', ~ waiting s t l') ->
      (forall t' l', held s' t' l' <-> (held s t' l' /\ ~ (t' = t /\ l' = l))) ->
      (forall t' l', waiting s' t' l' <-> waiting s t' l') ->
      lstep s s'.

  Inductive lreachable : lstate -> Prop :=
  | lreach_init : forall s,
      (forall t l, ~ held s t l) -> (forall t l, ~ waiting s t l) -> lreachable s
  | lreach_step : forall s s', lreachable s -> lstep s s' -> lreachable s'.

  (* the discipline as a state invariant: what a waiting thread holds is
     below what it waits for *)
  Definition ordered_waits (s : lstate) : Prop :=
    forall t l h, waiting s t l -> held s t h -> E (cls h) (cls l).

  Lemma ordered_waits_step : forall s s', ordered_waits s -> lstep s s' -> ordered_waits s'.
  Proof.
    intros s s' Inv St t' l' h' Hw Hh. destruct St as [t l Hnw Hd Hheld Hwait|t l Hw0 Hfree Hheld Hwait|t l Hh0 Hnw Hheld Hwait].
    - apply Hheld in Hh. apply Hwait in Hw. destruct Hw as [Hw|[-> ->]].
      + exact (Inv t' l' h' Hw Hh).
      + exact (Hd h' Hh).
    - apply Hwait in Hw. destruct Hw as [Hw Hne]. apply Hheld in Hh. destruct Hh as [Hh|[-> _]].
      + exact (Inv t' l' h' Hw Hh).
      + contradiction.
    - apply Hwait in Hw. apply Hheld in Hh. destruct Hh as [Hh _]. exact (Inv t' l' h' Hw Hh).
  Qed.

  Lemma reachable_ordered : forall s, lreachable s -> ordered_waits s.
  Proof.
    intros s H. induction H as [s Hh Hw|s s' _ IH St].
    - intros t l h W. exfalso. exact (Hw t l W).
    - exact (ordered_waits_step s s' IH St).
  Qed.

  (* wait-for between waiting threads: (t1,l1) -> (t2,l2) when t1 waits for
     l1, t2 holds l1, and t2 itself waits for l2 *)
  Definition waits_for (s : lstate) (x y : T * I) : Prop :=
    waiting s (fst x) (snd x) /\ held s (fst y) (snd x) /\ waiting s (fst y) (snd y).

  Lemma waits_for_rank : forall s, ordered_waits s -> forall x y,
    clos_trans (T * I) (waits_for s) x y -> rank (cls (snd x)) < rank (cls (snd y)).
  Proof.
    intros s Inv x y H. induction H as [x y (Hwx & Hhy & Hwy)|x y z _ IH1 _ IH2].
    - apply rank_increases. exact (Inv (fst y) (snd y) (snd x) Hwy Hhy).
    - lia.
  Qed.

  (* no deadlock: no cycle of waits, in particular no thread waits for a
     mutex it holds itself *)
  Theorem no_deadlock : forall s, lreachable s ->
    forall x, ~ clos_trans (T * I) (waits_for s) x x.
  Proof.
    intros s R x H. pose proof (waits_for_rank s (reachable_ordered s R) x x H). lia.
  Qed.

  Corollary no_self_deadlock : forall s, lreachable s ->
    forall t l, ~ (waiting s t l /\ held s t l).
  Proof.
    intros s R t l [Hw Hh]. apply (no_deadlock s R (t, l)). apply t_step.
    unfold waits_for; cbn. auto.
  Qed.
End LockOrder.

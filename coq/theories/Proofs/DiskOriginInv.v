(* The common time origin of the tracks of one recording, part 1: the
   conversions of rtptime, the five places where diskwriter.go computes an
   origin or originRemote, and the invariant of every history
   (Model/Disk.v: set_origin, set_time_offset, adjust_origin;
    Model/DiskOrigin.v: the event layer). *)
From Coq Require Import ZArith List Bool Lia ZifyBool.
From Galene Require Import Lib.Word Model.Disk Model.DiskOrigin Proofs.DiskTime.
Import ListNotations.
Open Scope Z_scope.
Ltac Zify.zify_post_hook ::= Z.div_mod_to_equations.

(* ------------------------------------------------------------------ *)
(* ranges                                                              *)

(* clock rates: 1 kHz .. 1 MHz *)
Definition rate_ok (r : Z) : Prop := 1000 <= r <= 1000000.
(* a difference of times of at most 1000 s (clock skew between the tracks,
   between arrival and capture, distance of an adjustment) *)
Definition skew_ok (d : Z) : Prop := - (1000 * second) <= d <= 1000 * second.
(* a distance of at most 2^30 ticks (3.3 h at 90 kHz) *)
Definition near (x : Z) : Prop := -1073741824 <= x <= 1073741824.
(* a time in NTP era 0 (1900-01-01 00:00:01 .. 2036) *)
Definition era_ok (x : Z) : Prop := second <= x < 4294967296 * second.

(* ------------------------------------------------------------------ *)
(* the conversions                                                     *)

Lemma i64_small x : -9223372036854775808 <= x < 9223372036854775808 -> i64 x = x.
Proof.
  intros H. unfold i64, w64.
  destruct (x mod 18446744073709551616 <? 9223372036854775808) eqn:E; lia.
Qed.

Lemma sat64_small x : -9223372036854775808 <= x <= 9223372036854775807 -> sat64 x = x.
Proof.
  intros H. unfold sat64.
  destruct (9223372036854775807 <? x) eqn:E1; [lia|].
  destruct (x <? -9223372036854775808) eqn:E2; lia.
Qed.

Lemma i32_range x : -2147483648 <= i32 x < 2147483648.
Proof.
  unfold i32, w32. destruct (x mod 4294967296 <? 2147483648) eqn:E; lia.
Qed.

Lemma i32_small x : -2147483648 <= x < 2147483648 -> i32 x = x.
Proof.
  intros H. unfold i32, w32. destruct (x mod 4294967296 <? 2147483648) eqn:E; lia.
Qed.

(* int32(a - b) for a moved by d ticks *)
Lemma i32_shift a b d :
  -2147483648 <= i32 (a - b) - d < 2147483648 ->
  i32 (w32 (a - w32 d) - b) = i32 (a - b) - d.
Proof.
  unfold i32, w32.
  destruct ((a - b) mod 4294967296 <? 2147483648) eqn:E1;
    destruct (((a - d mod 4294967296) mod 4294967296 - b) mod 4294967296 <? 2147483648) eqn:E2;
    lia.
Qed.
Lemma i32_shift_add a b d :
  -2147483648 <= i32 (a - b) + d < 2147483648 ->
  i32 (w32 (a + w32 d) - b) = i32 (a - b) + d.
Proof.
  unfold i32, w32.
  destruct ((a - b) mod 4294967296 <? 2147483648) eqn:E1;
    destruct (((a + d mod 4294967296) mod 4294967296 - b) mod 4294967296 <? 2147483648) eqn:E2;
    lia.
Qed.

Lemma i32_opp a b : -2147483648 < i32 (a - b) -> i32 (b - a) = - i32 (a - b).
Proof.
  unfold i32, w32.
  destruct ((a - b) mod 4294967296 <? 2147483648) eqn:E1;
    destruct ((b - a) mod 4294967296 <? 2147483648) eqn:E2; lia.
Qed.

(* ToDuration: hz * result is within hz of tm * 10^9, same sign *)
Lemma td_spec tm hz :
  1 <= hz -> -2147483648 <= tm <= 2147483648 ->
  - hz < hz * to_duration tm hz - tm * second < hz /\
  (0 <= tm -> 0 <= to_duration tm hz) /\ (tm <= 0 -> to_duration tm hz <= 0) /\
  - (2147483648 * second) <= to_duration tm hz <= 2147483648 * second.
Proof.
  intros Hz Ht. unfold to_duration.
  assert (Pos : forall u, 0 <= u <= 2147483648 ->
            0 <= u * second / hz <= 2147483648 * second /\
            0 <= u * second - hz * (u * second / hz) < hz).
  { intros u Hu.
    pose proof (Z.div_mod (u * second) hz ltac:(lia)) as E.
    pose proof (Z.mod_pos_bound (u * second) hz ltac:(lia)) as B.
    assert (0 <= u * second / hz) by (apply Z.div_pos; unfold second; lia).
    assert (u * second / hz <= u * second).
    { apply Z.div_le_upper_bound; [lia|]. unfold second in *. nia. }
    unfold second in *. lia. }
  destruct (tm <? 0) eqn:E.
  - destruct (Pos (- tm) ltac:(lia)) as [P1 P2].
    rewrite i64_small by (unfold second in *; lia). unfold second in *. lia.
  - destruct (Pos tm ltac:(lia)) as [P1 P2].
    rewrite i64_small by (unfold second in *; lia). unfold second in *. lia.
Qed.

Lemma td_opp tm hz : to_duration (- tm) hz = - to_duration tm hz.
Proof.
  unfold to_duration.
  destruct (tm <? 0) eqn:E1; destruct (- tm <? 0) eqn:E2; try lia.
  - rewrite Z.opp_involutive. lia.
  - assert (tm = 0) by lia. subst. reflexivity.
Qed.

(* FromDuration: 10^9 * result is within 10^9 of d * hz, same sign *)
Lemma fd_spec d hz :
  1 <= hz <= 1000000 -> - (4294967296 * second) <= d <= 4294967296 * second ->
  - second < second * from_duration d hz - d * hz < second /\
  (0 <= d -> 0 <= from_duration d hz) /\ (d <= 0 -> from_duration d hz <= 0).
Proof.
  intros Hz Hd. unfold from_duration.
  assert (Pos : forall u, 0 <= u <= 4294967296 * second ->
            0 <= u * hz / second <= 4294967296 * 1000000 /\
            0 <= u * hz - second * (u * hz / second) < second).
  { intros u Hu.
    assert (0 <= u * hz <= 4294967296 * second * 1000000) by (unfold second in *; nia).
    unfold second in *. lia. }
  destruct (d <? 0) eqn:E.
  - destruct (Pos (- d) ltac:(lia)) as [P1 P2].
    rewrite i64_small by lia. unfold second in *. lia.
  - destruct (Pos d ltac:(lia)) as [P1 P2].
    rewrite i64_small by lia. unfold second in *. lia.
Qed.

Lemma fd_small d hz :
  1 <= hz <= 1000000 -> skew_ok d -> - 1000000000 <= from_duration d hz <= 1000000000.
Proof.
  intros Hz Hd. unfold skew_ok in Hd.
  destruct (fd_spec d hz Hz ltac:(unfold second in *; lia)) as [F1 [F2 F3]].
  assert (- (1000 * second * 1000000) <= d * hz <= 1000 * second * 1000000)
    by (unfold second in *; nia).
  unfold second in *. lia.
Qed.

(* TimeToNTP then NTPToTime loses at most one nanosecond, and the NTP time
   of a time after 1900-01-01 00:00:01 is not 0 *)
Lemma frac_roundtrip f :
  0 <= f < 1000000000 ->
  0 <= f * 4294967296 / 1000000000 < 4294967296 /\
  f - 1 <= (f * 4294967296 / 1000000000) * 1000000000 / 4294967296 <= f.
Proof.
  intros H.
  assert (A : 0 <= f * 4294967296 / 1000000000 < 4294967296) by lia.
  split; [exact A|].
  assert (B : 1000000000 * (f * 4294967296 / 1000000000) <= f * 4294967296 <
              1000000000 * (f * 4294967296 / 1000000000) + 1000000000) by lia.
  revert A B. generalize (f * 4294967296 / 1000000000). intros g A B. lia.
Qed.

Lemma ntp_roundtrip x :
  era_ok x ->
  x - 1 <= ntp_to_time (time_to_ntp x) <= x /\ time_to_ntp x <> 0 /\
  0 <= time_to_ntp x < 18446744073709551616.
Proof.
  unfold era_ok, second. intros H.
  unfold time_to_ntp, ntp_to_time, second.
  rewrite sat64_small by lia.
  rewrite Z.quot_div_nonneg, Z.rem_mod_nonneg by lia.
  assert (Hs : 1 <= x / 1000000000 < 4294967296) by lia.
  assert (Hf : 0 <= x mod 1000000000 < 1000000000) by lia.
  assert (Hx : x = 1000000000 * (x / 1000000000) + x mod 1000000000) by lia.
  revert Hs Hf Hx. generalize (x / 1000000000) (x mod 1000000000). intros s f Hs Hf Hx.
  unfold w32. rewrite (Z.mod_small s), (Z.mod_small f) by lia.
  destruct (frac_roundtrip f Hf) as [G1 G2].
  revert G1 G2. generalize (f * 4294967296 / 1000000000). intros g G1 G2.
  unfold w64. rewrite (Z.mod_small (s * 4294967296 + g)) by lia.
  replace ((s * 4294967296 + g) / 4294967296) with s by lia.
  replace ((s * 4294967296 + g) mod 4294967296) with g by lia.
  lia.
Qed.

Lemma ntp_to_time_range n :
  0 <= n < 18446744073709551616 -> 0 <= ntp_to_time n < 4294967296 * second.
Proof. intros H. unfold ntp_to_time, second. lia. Qed.

Lemma time_sub_small a b :
  -9223372036854775808 <= a - b <= 9223372036854775807 -> time_sub a b = a - b.
Proof. intros H. unfold time_sub. apply sat64_small. exact H. Qed.

(* x within  second/r + k  from a bound on r * x *)
Lemma div_bound r x k :
  1 <= r -> r * x < second + k * r -> x <= second / r + k.
Proof.
  intros Hr H.
  pose proof (Z.div_mod second r ltac:(lia)) as E.
  pose proof (Z.mod_pos_bound second r ltac:(lia)) as B.
  assert (~ (second / r + k + 1 <= x)); [|lia].
  intros C. assert (r * (second / r + k + 1) <= r * x) by (apply Z.mul_le_mono_nonneg_l; lia).
  lia.
Qed.

Lemma fd_opp d hz : from_duration (- d) hz = - from_duration d hz.
Proof.
  unfold from_duration.
  destruct (d <? 0) eqn:E1; destruct (- d <? 0) eqn:E2; try lia.
  - rewrite Z.opp_involutive. lia.
  - assert (d = 0) by lia. subst. reflexivity.
Qed.

(* ------------------------------------------------------------------ *)
(* moving a timestamp by FromDuration(X) ticks moves its capture time by X,
   up to one tick and 2 ns                                             *)

Definition cap (n R r ts : Z) : Z := ntp_to_time n + tsub ts R r.

Lemma capture_time_cap t ts : capture_time t ts = cap (tt_ntp t) (tt_rtp t) (tt_rate t) ts.
Proof. reflexivity. Qed.

Lemma abs_le_iff x b : Z.abs x <= b <-> - b <= x <= b.
Proof. lia. Qed.

Lemma td_shift r u X :
  rate_ok r -> near u -> skew_ok X ->
  Z.abs (to_duration (u - from_duration X r) r - to_duration u r + X) <= second / r + 2.
Proof.
  unfold rate_ok, near. intros Hr Hu HX.
  pose proof (fd_small X r ltac:(lia) HX) as Hd.
  destruct (fd_spec X r ltac:(lia) ltac:(unfold skew_ok, second in *; lia)) as [F _].
  set (dl := from_duration X r) in *.
  destruct (td_spec (u - dl) r ltac:(lia) ltac:(lia)) as [A _].
  destruct (td_spec u r ltac:(lia) ltac:(lia)) as [B _].
  set (a := to_duration (u - dl) r) in *. set (b := to_duration u r) in *.
  apply abs_le_iff. split.
  - assert (- (a - b + X) <= second / r + 2); [|lia].
    apply div_bound; [lia|]. unfold second in *. lia.
  - apply div_bound; [lia|]. unfold second in *. lia.
Qed.

Lemma cap_shift n R r a X :
  rate_ok r -> near (i32 (a - R)) -> skew_ok X ->
  Z.abs (cap n R r (w32 (a - w32 (from_duration X r))) - (cap n R r a - X)) <= second / r + 2.
Proof.
  intros Hr Hu HX. unfold cap, tsub.
  pose proof (fd_small X r ltac:(unfold rate_ok in *; lia) HX) as Hd.
  rewrite i32_shift by (unfold near in *; lia).
  pose proof (td_shift r (i32 (a - R)) X Hr Hu HX) as T.
  lia.
Qed.

Lemma cap_shift_add n R r a X :
  rate_ok r -> near (i32 (a - R)) -> skew_ok X ->
  Z.abs (cap n R r (w32 (a + w32 (from_duration X r))) - (cap n R r a + X)) <= second / r + 2.
Proof.
  intros Hr Hu HX.
  assert (HX' : skew_ok (- X)) by (unfold skew_ok in *; lia).
  pose proof (cap_shift n R r a (- X) Hr Hu HX') as T.
  rewrite fd_opp in T.
  replace (w32 (a + w32 (from_duration X r))) with (w32 (a - w32 (- from_duration X r)))
    by (unfold w32; lia).
  lia.
Qed.

(* ------------------------------------------------------------------ *)
(* the five places where an origin or originRemote is computed         *)

Lemma sync_case1 x :
  era_ok x -> time_to_ntp x <> 0 /\ Z.abs (x - ntp_to_time (time_to_ntp x)) <= 1 /\
              0 <= time_to_ntp x < 18446744073709551616.
Proof. intros H. destruct (ntp_roundtrip x H) as [A [B C]]. split; [exact B|split; lia]. Qed.

Lemma sync_case2 n R r ts oR :
  rate_ok r -> near (i32 (ts - R)) -> skew_ok (cap n R r ts - ntp_to_time oR) ->
  Z.abs (cap n R r (w32 (ts - w32 (from_duration (time_sub (cap n R r ts) (ntp_to_time oR)) r)))
         - ntp_to_time oR) <= second / r + 2.
Proof.
  intros Hr Hn Hs.
  rewrite time_sub_small by (unfold skew_ok, second in Hs; lia).
  pose proof (cap_shift n R r ts _ Hr Hn Hs). lia.
Qed.

Lemma sync_case3 n R r ts d :
  rate_ok r -> near (i32 (ts - R)) -> skew_ok d -> era_ok (cap n R r ts - d) ->
  let oR' := time_to_ntp (cap n R r ts + i64 (- d)) in
  oR' <> 0 /\ 0 <= oR' < 18446744073709551616 /\
  Z.abs (cap n R r (w32 (ts - w32 (from_duration d r))) - ntp_to_time oR') <= second / r + 3.
Proof.
  intros Hr Hn Hs He. cbv zeta.
  rewrite i64_small by (unfold skew_ok, second in Hs; lia).
  replace (cap n R r ts + - d) with (cap n R r ts - d) by lia.
  destruct (ntp_roundtrip _ He) as [A [B C]].
  pose proof (cap_shift n R r ts d Hr Hn Hs).
  split; [exact B|]. split; [exact C|]. lia.
Qed.

Lemma sync_sr_first ntp rtp r o :
  rate_ok r -> near (i32 (rtp - o)) ->
  era_ok (ntp_to_time ntp - to_duration (i32 (rtp - o)) r) ->
  let oR' := time_to_ntp (ntp_to_time ntp + i64 (- to_duration (i32 (rtp - o)) r)) in
  oR' <> 0 /\ 0 <= oR' < 18446744073709551616 /\
  Z.abs (cap ntp rtp r o - ntp_to_time oR') <= 1.
Proof.
  intros Hr Hn He. cbv zeta.
  destruct (td_spec (i32 (rtp - o)) r ltac:(unfold rate_ok in Hr; lia)
                    ltac:(unfold near in Hn; lia)) as [_ [_ [_ T]]].
  rewrite i64_small by (unfold second in T; lia).
  replace (ntp_to_time ntp + - to_duration (i32 (rtp - o)) r)
    with (ntp_to_time ntp - to_duration (i32 (rtp - o)) r) by lia.
  destruct (ntp_roundtrip _ He) as [A [B C]].
  split; [exact B|]. split; [exact C|].
  unfold cap, tsub. rewrite (i32_opp rtp o) by (unfold near in Hn; lia).
  rewrite td_opp. lia.
Qed.

Lemma sync_sr_move ntp rtp r o oR :
  rate_ok r -> near (i32 (rtp - o)) ->
  0 <= ntp < 18446744073709551616 -> 0 <= oR < 18446744073709551616 ->
  skew_ok (ntp_to_time ntp - ntp_to_time oR - to_duration (i32 (rtp - o)) r) ->
  Z.abs (cap ntp rtp r
           (w32 (o - w32 (from_duration
                            (i64 (time_sub (ntp_to_time ntp) (ntp_to_time oR)
                                  - to_duration (i32 (rtp - o)) r)) r)))
         - ntp_to_time oR) <= second / r + 2.
Proof.
  intros Hr Hn Hntp HoR Hs.
  pose proof (ntp_to_time_range ntp Hntp) as R1.
  pose proof (ntp_to_time_range oR HoR) as R2.
  rewrite time_sub_small by (unfold second in *; lia).
  rewrite i64_small by (unfold skew_ok, second in *; lia).
  assert (Hn' : near (i32 (o - rtp))).
  { rewrite (i32_opp rtp o) by (unfold near in Hn; lia). unfold near in *. lia. }
  pose proof (cap_shift ntp rtp r o _ Hr Hn' Hs) as T.
  assert (E : cap ntp rtp r o = ntp_to_time ntp - to_duration (i32 (rtp - o)) r).
  { unfold cap, tsub. rewrite (i32_opp rtp o) by (unfold near in Hn; lia).
    rewrite td_opp. lia. }
  rewrite E in T. lia.
Qed.

(* adjustOrigin: every origin and originRemote move by the same offset *)
Lemma sync_adjust_track n R r o off :
  rate_ok r -> near (i32 (o - R)) -> skew_ok off ->
  Z.abs (cap n R r (w32 (o + w32 (from_duration off r))) - (cap n R r o + off)) <= second / r + 2.
Proof. exact (cap_shift_add n R r o off). Qed.

(* ------------------------------------------------------------------ *)
(* lists                                                               *)

Lemma nth_error_set_nth_eq {A} (l : list A) i x t :
  nth_error l i = Some t -> nth_error (set_nth i x l) i = Some x.
Proof.
  revert i. induction l as [|h l IH]; intros [|i] H; cbn in *; try discriminate; auto.
Qed.

Lemma Forall_set_nth {A} (P : A -> Prop) l i x :
  Forall P l -> P x -> Forall P (set_nth i x l).
Proof.
  revert i. induction l as [|h l IH]; intros i Hl Hx; [destruct i; constructor|].
  inversion Hl; subst. destruct i; cbn; constructor; auto.
Qed.

Lemma Forall_nth {A} (P : A -> Prop) l i t :
  Forall P l -> nth_error l i = Some t -> P t.
Proof.
  intros Hl Hn. rewrite Forall_forall in Hl. apply Hl. eapply nth_error_In; eauto.
Qed.

(* ------------------------------------------------------------------ *)
(* the invariant: ONE common origin                                    *)

(* k ticks of the track's clock and 3k nanoseconds *)
Definition sync_bound (k r : Z) : Z := k * (second / r + 3).

(* a track that has an origin and a sender report: the publisher time at
   which its origin was sampled (by its own sender report) is the
   connection's originRemote, up to the bound *)
Definition track_sync (k oR : Z) (t : ttrack) : Prop :=
  forall o, tt_origin t = Some o -> tt_ntp t <> 0 ->
    oR <> 0 /\ Z.abs (capture_time t o - ntp_to_time oR) <= sync_bound k (tt_rate t).

Record Inv (k : Z) (c : tconn) : Prop := mkInv {
  inv_local : tc_local c = None -> Forall (fun t => tt_origin t = None) (tc_tracks c);
  inv_rates : Forall (fun t => rate_ok (tt_rate t)) (tc_tracks c);
  inv_remote : 0 <= tc_remote c < 18446744073709551616;
  inv_sync : Forall (track_sync k (tc_remote c)) (tc_tracks c)
}.

Lemma sync_bound_mono k k' r : 1 <= r -> k <= k' -> sync_bound k r <= sync_bound k' r.
Proof.
  intros Hr H. unfold sync_bound.
  assert (0 <= second / r) by (apply Z.div_pos; unfold second; lia).
  apply Z.mul_le_mono_nonneg_r; lia.
Qed.

Lemma sync_bound_1 k r : 1 <= r -> 1 <= k -> second / r + 3 <= sync_bound k r.
Proof.
  intros Hr H. pose proof (sync_bound_mono 1 k r Hr H) as M. unfold sync_bound in *. lia.
Qed.

Lemma Inv_mono k k' c : k <= k' -> Inv k c -> Inv k' c.
Proof.
  intros Hk [I1 I2 I3 I4]. constructor; auto.
  rewrite Forall_forall in *. intros t Ht o Ho Hn.
  destruct (I4 t Ht o Ho Hn) as [A B]. split; [exact A|].
  pose proof (I2 t Ht) as Hr. unfold rate_ok in Hr.
  pose proof (sync_bound_mono k k' (tt_rate t) ltac:(lia) Hk). lia.
Qed.

(* a track without the pair (origin, sender report) is in sync with anything;
   while originRemote is 0 no track has the pair *)
Lemma track_sync_vacuous k k' oR' t :
  track_sync k 0 t -> track_sync k' oR' t.
Proof. intros H o Ho Hn. destruct (H o Ho Hn) as [A _]. congruence. Qed.

Lemma track_sync_no_origin k oR t : tt_origin t = None -> track_sync k oR t.
Proof. intros H o Ho. congruence. Qed.

Lemma conn2_Inv r0 r1 : rate_ok r0 -> rate_ok r1 -> Inv 1 (conn2 r0 r1).
Proof.
  intros H0 H1. constructor; cbn.
  - intros _. constructor; [reflexivity|constructor; [reflexivity|constructor]].
  - constructor; [exact H0|constructor; [exact H1|constructor]].
  - lia.
  - constructor; [|constructor; [|constructor]]; apply track_sync_no_origin; reflexivity.
Qed.

(* ------------------------------------------------------------------ *)
(* what is assumed of an event in the state in which it happens: the
   quantities the code converts are in range (no 32-bit or int64 overflow,
   NTP era 0), stated on the code's own expressions                    *)

Definition ev_ok (c : tconn) (e : oev) : Prop :=
  match e with
  | OFirst i ts now =>
    forall t, nth_error (tc_tracks c) i = Some t -> tt_origin t = None -> tt_ntp t <> 0 ->
      (* the sample is within 2^30 ticks of the track's sender report *)
      near (i32 (ts - tt_rtp t)) /\
      match tc_local c with
      | None => era_ok (capture_time t ts)
      | Some l =>
        if tc_remote c =? 0
        then skew_ok (now - l) /\ era_ok (capture_time t ts - (now - l))
        else skew_ok (capture_time t ts - ntp_to_time (tc_remote c))
      end
  | OSR i ntp rtp =>
    ntp <> 0 /\ 0 <= ntp < 18446744073709551616 /\
    forall t o, nth_error (tc_tracks c) i = Some t -> tt_origin t = Some o ->
      near (i32 (rtp - o)) /\
      if tc_remote c =? 0
      then era_ok (ntp_to_time ntp - to_duration (i32 (rtp - o)) (tt_rate t))
      else skew_ok (ntp_to_time ntp - ntp_to_time (tc_remote c)
                    - to_duration (i32 (rtp - o)) (tt_rate t))
  | OOpen i ts =>
    forall t o, nth_error (tc_tracks c) i = Some t -> tt_origin t = Some o -> o <> ts ->
      skew_ok (to_duration (i32 (ts - o)) (tt_rate t)) /\
      (tc_remote c <> 0 ->
       era_ok (ntp_to_time (tc_remote c) + to_duration (i32 (ts - o)) (tt_rate t))) /\
      Forall (fun tk => forall ok, tt_origin tk = Some ok -> tt_ntp tk <> 0 ->
                                   near (i32 (ok - tt_rtp tk))) (tc_tracks c)
  | OClose => True
  end.

Lemma step_first k c i ts now :
  1 <= k -> Inv k c -> ev_ok c (OFirst i ts now) -> Inv k (ostep c (OFirst i ts now)).
Proof.
  intros Hk I H. cbn [ostep]. unfold origin_of.
  destruct (nth_error (tc_tracks c) i) as [t|] eqn:Hn.
  2:{ unfold set_origin. rewrite Hn. exact I. }
  destruct (tt_origin t) as [o|] eqn:Ho; [exact I|].
  unfold set_origin, rate_at. rewrite Hn.
  destruct I as [I1 I2 I3 I4].
  pose proof (Forall_nth _ _ _ _ I2 Hn) as Hr. cbv beta in Hr.
  assert (Hr1 : 1 <= tt_rate t) by (unfold rate_ok in Hr; lia).
  pose proof (sync_bound_1 k (tt_rate t) Hr1 Hk) as Hb.
  assert (Hq : 0 <= second / tt_rate t) by (apply Z.div_pos; unfold second; lia).
  cbn [ev_ok] in H. specialize (H t Hn Ho).
  fold (cap (tt_ntp t) (tt_rtp t) (tt_rate t) ts).
  destruct (tc_local c) as [l|] eqn:Hl.
  - destruct (negb (tc_remote c =? 0) && negb (tt_ntp t =? 0)) eqn:Hc.
    + (* originRemote and the sender report known *)
      assert (HR : tc_remote c <> 0) by lia. assert (HN : tt_ntp t <> 0) by lia.
      destruct (H HN) as [Hnear Hs]. replace (tc_remote c =? 0) with false in Hs by lia.
      constructor; cbn [tc_local tc_remote tc_tracks].
      * discriminate.
      * apply Forall_set_nth; [exact I2|exact Hr].
      * exact I3.
      * apply Forall_set_nth; [exact I4|]. intros o' Ho' Hn'.
        cbn [tt_origin] in Ho'. injection Ho' as <-. split; [exact HR|].
        rewrite capture_time_cap. cbn [tt_ntp tt_rtp tt_rate].
        rewrite capture_time_cap in Hs.
        pose proof (sync_case2 _ _ _ _ _ Hr Hnear Hs). lia.
    + (* local alignment *)
      destruct (tt_ntp t =? 0) eqn:En.
      * (* no sender report: nothing to state about this track *)
        constructor; cbn [tc_local tc_remote tc_tracks].
        -- discriminate.
        -- apply Forall_set_nth; [exact I2|exact Hr].
        -- exact I3.
        -- apply Forall_set_nth; [exact I4|]. intros o' Ho' Hn'.
           cbn [tt_ntp] in Hn'. lia.
      * assert (HN : tt_ntp t <> 0) by lia.
        assert (HR : tc_remote c = 0) by lia.
        destruct (H HN) as [Hnear Hs]. rewrite HR in Hs. cbn [Z.eqb] in Hs.
        destruct Hs as [Hs He].
        rewrite capture_time_cap in He.
        rewrite (time_sub_small now l) by (unfold skew_ok, second in Hs; lia).
        destruct (sync_case3 _ _ _ _ _ Hr Hnear Hs He) as [S1 [S2 S3]].
        constructor; cbn [tc_local tc_remote tc_tracks].
        -- discriminate.
        -- apply Forall_set_nth; [exact I2|exact Hr].
        -- exact S2.
        -- apply Forall_set_nth.
           ++ rewrite HR in I4. eapply Forall_impl; [|exact I4].
              intros a Ha. eapply track_sync_vacuous; exact Ha.
           ++ intros o' Ho' Hn'. cbn [tt_origin] in Ho'. injection Ho' as <-.
              split; [exact S1|]. rewrite capture_time_cap. cbn [tt_ntp tt_rtp tt_rate]. lia.
  - (* the first origin of the connection *)
    specialize (I1 eq_refl).
    assert (V : forall oR', Forall (track_sync k oR') (tc_tracks c)).
    { intros oR'. eapply Forall_impl; [|exact I1].
      intros a Ha. apply track_sync_no_origin. exact Ha. }
    destruct (tt_ntp t =? 0) eqn:En.
    + constructor; cbn [tc_local tc_remote tc_tracks].
      * discriminate.
      * apply Forall_set_nth; [exact I2|exact Hr].
      * lia.
      * apply Forall_set_nth; [apply V|]. intros o' Ho' Hn'. cbn [tt_ntp] in Hn'. lia.
    + assert (HN : tt_ntp t <> 0) by lia.
      destruct (H HN) as [Hnear He]. rewrite capture_time_cap in He.
      destruct (sync_case1 _ He) as [S1 [S2 S3]].
      constructor; cbn [tc_local tc_remote tc_tracks].
      * discriminate.
      * apply Forall_set_nth; [exact I2|exact Hr].
      * exact S3.
      * apply Forall_set_nth; [apply V|]. intros o' Ho' Hn'.
        cbn [tt_origin] in Ho'. injection Ho' as <-.
        split; [exact S1|]. rewrite capture_time_cap. cbn [tt_ntp tt_rtp tt_rate]. lia.
Qed.

Lemma step_sr k c i ntp rtp :
  1 <= k -> Inv k c -> ev_ok c (OSR i ntp rtp) -> Inv k (ostep c (OSR i ntp rtp)).
Proof.
  intros Hk I [Hnz [Hrange H]]. cbn [ostep]. unfold set_time_offset, rate_at.
  destruct (nth_error (tc_tracks c) i) as [t|] eqn:Hn; [|exact I].
  destruct I as [I1 I2 I3 I4].
  pose proof (Forall_nth _ _ _ _ I2 Hn) as Hr. cbv beta in Hr.
  assert (Hr1 : 1 <= tt_rate t) by (unfold rate_ok in Hr; lia).
  pose proof (sync_bound_1 k (tt_rate t) Hr1 Hk) as Hb.
  assert (Hq : 0 <= second / tt_rate t) by (apply Z.div_pos; unfold second; lia).
  destruct (tt_origin t) as [o|] eqn:Ho.
  - destruct (H t o eq_refl Ho) as [Hnear Hs].
    assert (L : tc_local c = None -> False).
    { intros Hl. pose proof (Forall_nth _ _ _ _ (I1 Hl) Hn) as E. cbv beta in E. congruence. }
    destruct (tc_remote c =? 0) eqn:ER.
    + (* the first sender report: originRemote is derived from this track *)
      destruct (sync_sr_first _ _ _ _ Hr Hnear Hs) as [S1 [S2 S3]].
      constructor; cbn [tc_local tc_remote tc_tracks].
      * intros Hl. destruct (L Hl).
      * apply Forall_set_nth; [exact I2|exact Hr].
      * exact S2.
      * apply Forall_set_nth.
        -- assert (HR : tc_remote c = 0) by lia. rewrite HR in I4.
           eapply Forall_impl; [|exact I4]. intros a Ha. eapply track_sync_vacuous; exact Ha.
        -- intros o' Ho' Hn'. cbn [tt_origin] in Ho'. injection Ho' as <-.
           split; [exact S1|]. rewrite capture_time_cap. cbn [tt_ntp tt_rtp tt_rate]. lia.
    + (* originRemote known: the origin of this track MOVES *)
      assert (HR : tc_remote c <> 0) by lia.
      pose proof (sync_sr_move _ _ _ _ _ Hr Hnear Hrange I3 Hs) as S.
      constructor; cbn [tc_local tc_remote tc_tracks].
      * intros Hl. destruct (L Hl).
      * apply Forall_set_nth; [exact I2|exact Hr].
      * exact I3.
      * apply Forall_set_nth; [exact I4|].
        intros o' Ho' Hn'. cbn [tt_origin] in Ho'. injection Ho' as <-.
        split; [exact HR|]. rewrite capture_time_cap. cbn [tt_ntp tt_rtp tt_rate]. lia.
  - constructor; cbn [tc_local tc_remote tc_tracks].
    + intros Hl. apply Forall_set_nth; [exact (I1 Hl)|reflexivity].
    + apply Forall_set_nth; [exact I2|exact Hr].
    + exact I3.
    + apply Forall_set_nth; [exact I4|]. apply track_sync_no_origin. reflexivity.
Qed.

Lemma step_close k c : 1 <= k -> Inv k c -> Inv k (ostep c OClose).
Proof.
  intros Hk [I1 I2 I3 I4]. cbn [ostep]. unfold close_origins.
  constructor; cbn [tc_local tc_remote tc_tracks].
  - intros _. apply Forall_map. apply Forall_forall. intros x _. reflexivity.
  - apply Forall_map. exact I2.
  - lia.
  - apply Forall_map. apply Forall_forall. intros x _.
    apply track_sync_no_origin. reflexivity.
Qed.

Lemma step_open k c i ts :
  1 <= k -> Inv k c -> ev_ok c (OOpen i ts) -> Inv (k + 1) (ostep c (OOpen i ts)).
Proof.
  intros Hk I H. cbn [ostep]. unfold adjust_origin.
  assert (I' : Inv (k + 1) c) by (apply (Inv_mono k); [lia|exact I]).
  destruct (nth_error (tc_tracks c) i) as [t|] eqn:Hn; [|exact I'].
  destruct (tt_origin t) as [o|] eqn:Ho; [|exact I'].
  destruct (o =? ts) eqn:Eo; [exact I'|]. clear I'.
  destruct I as [I1 I2 I3 I4].
  destruct (H t o Hn Ho ltac:(lia)) as [Hs [He Hnear]].
  set (off := to_duration (i32 (ts - o)) (tt_rate t)) in *.
  assert (L : tc_local c = None -> False).
  { intros Hl. pose proof (Forall_nth _ _ _ _ (I1 Hl) Hn) as E. cbv beta in E. congruence. }
  constructor; cbn [tc_local tc_remote tc_tracks].
  - destruct (tc_local c); [discriminate|]. intros _. destruct (L eq_refl).
  - apply Forall_map. eapply Forall_impl; [|exact I2].
    intros a Ha. destruct (tt_origin a); exact Ha.
  - destruct (tc_remote c =? 0) eqn:ER; [lia|].
    destruct (ntp_roundtrip _ (He ltac:(lia))) as [_ [_ C]]. exact C.
  - apply Forall_map. rewrite Forall_forall in *. intros tk Htk.
    pose proof (I2 tk Htk) as Hr. pose proof (I4 tk Htk) as S. pose proof (Hnear tk Htk) as N.
    cbv beta in Hr, N.
    destruct (tt_origin tk) as [ok|] eqn:Hok.
    + intros o' Ho' Hn'. cbn [tt_origin] in Ho'. injection Ho' as <-.
      cbn [tt_ntp] in Hn'.
      destruct (S ok Hok Hn') as [HR S'].
      replace (tc_remote c =? 0) with false by lia.
      destruct (ntp_roundtrip _ (He HR)) as [A [B _]].
      split; [exact B|].
      rewrite capture_time_cap in *. cbn [tt_ntp tt_rtp tt_rate].
      pose proof (sync_adjust_track (tt_ntp tk) (tt_rtp tk) (tt_rate tk) ok off Hr
                    (N ok eq_refl Hn') Hs) as T.
      assert (Hq : 0 <= second / tt_rate tk)
        by (apply Z.div_pos; unfold rate_ok, second in *; lia).
      unfold sync_bound in *. lia.
    + intros o' Ho' Hn'. rewrite Hok in Ho'. discriminate.
Qed.

(* ------------------------------------------------------------------ *)
(* every history                                                       *)

Fixpoint hist_ok (c : tconn) (es : list oev) : Prop :=
  match es with
  | [] => True
  | e :: es' => ev_ok c e /\ hist_ok (ostep c e) es'
  end.

Definition is_open (e : oev) : bool := match e with OOpen _ _ => true | _ => false end.
Definition opens (es : list oev) : Z := Z.of_nat (length (filter is_open es)).

Lemma run_inv es : forall k c,
  1 <= k -> Inv k c -> hist_ok c es -> Inv (k + opens es) (orun c es).
Proof.
  induction es as [|e es IH]; intros k c Hk I H.
  - change (orun c []) with c. replace (k + opens []) with k by (unfold opens; cbn; lia). exact I.
  - destruct H as [H1 H2]. cbn [orun fold_left]. fold (orun (ostep c e) es).
    destruct e as [i ts now|i ntp rtp|i ts|].
    + replace (k + opens (OFirst i ts now :: es)) with (k + opens es) by (unfold opens; cbn; lia).
      apply IH; [lia| |exact H2]. apply step_first; assumption.
    + replace (k + opens (OSR i ntp rtp :: es)) with (k + opens es) by (unfold opens; cbn; lia).
      apply IH; [lia| |exact H2]. apply step_sr; assumption.
    + replace (k + opens (OOpen i ts :: es)) with (k + 1 + opens es)
        by (unfold opens; cbn [filter is_open length]; lia).
      apply IH; [lia| |exact H2]. apply step_open; assumption.
    + replace (k + opens (OClose :: es)) with (k + opens es) by (unfold opens; cbn; lia).
      apply IH; [lia| |exact H2]. apply step_close; assumption.
Qed.

(* C19, part 1: the lazy-buffer transcription of path.Clean (Model/Paths.v)
   never panics, never runs out of fuel, and computes [clean_spec]: split the
   path at '/', run the components through a stack, render the stack. *)
From Coq Require Import ZArith List Bool Lia Arith.
From Galene Require Import Model.Paths.
Import ListNotations.
Open Scope Z_scope.

(* ------------------------------------------------------------------ *)
(* strings *)

Lemma str_eqb_spec : forall a b, str_eqb a b = true <-> a = b.
Proof.
  induction a as [|x a IH]; destruct b as [|y b]; cbn [str_eqb]; split; intro H;
    try reflexivity; try discriminate.
  - apply andb_true_iff in H. destruct H as [H1 H2].
    apply Z.eqb_eq in H1. apply IH in H2. congruence.
  - inversion H; subst. apply andb_true_iff. split.
    + apply Z.eqb_refl.
    + apply IH. reflexivity.
Qed.

Lemma str_eqb_refl : forall a, str_eqb a a = true.
Proof. intro a. apply str_eqb_spec. reflexivity. Qed.

Lemma str_eqb_false : forall a b, str_eqb a b = false <-> a <> b.
Proof.
  intros a b. split.
  - intros H E. apply str_eqb_spec in E. congruence.
  - intro H. destruct (str_eqb a b) eqn:E; [|reflexivity].
    apply str_eqb_spec in E. contradiction.
Qed.

Lemma contains_spec : forall c s, contains c s = true <-> In c s.
Proof.
  intros c s. unfold contains. rewrite existsb_exists. split.
  - intros (x & Hin & He). apply Z.eqb_eq in He. subst. exact Hin.
  - intro H. exists c. split; [exact H | apply Z.eqb_refl].
Qed.

Lemma contains_false : forall c s, contains c s = false <-> ~ In c s.
Proof.
  intros c s. split.
  - intros H Hin. apply contains_spec in Hin. congruence.
  - intro H. destruct (contains c s) eqn:E; [|reflexivity].
    apply contains_spec in E. contradiction.
Qed.

(* strings.Split(s, "/") *)
Fixpoint split (s : str) : list str :=
  match s with
  | [] => [[]]
  | c :: t =>
    if c =? SLASH then [] :: split t
    else match split t with
         | h :: r => (c :: h) :: r
         | [] => [[c]]
         end
  end.

(* strings.Join(cs, "/") *)
Fixpoint join (cs : list str) : str :=
  match cs with
  | [] => []
  | c :: r => match r with
              | [] => c
              | _ => c ++ SLASH :: join r
              end
  end.

Definition DOTDOT : str := [DOT; DOT].

(* a component that names something: not empty, not "." or "..", no '/' *)
Definition normal (c : str) : Prop :=
  c <> [] /\ c <> [DOT] /\ c <> DOTDOT /\ ~ In SLASH c.

Lemma split_nonnil : forall s, split s <> [].
Proof.
  destruct s as [|c t]; cbn [split]; [discriminate|].
  destruct (c =? SLASH); [discriminate|]. destruct (split t); discriminate.
Qed.

Lemma split_cons_slash : forall t, split (SLASH :: t) = [] :: split t.
Proof. intro t. cbn [split]. rewrite Z.eqb_refl. reflexivity. Qed.

Lemma split_cons_other : forall c t, c <> SLASH ->
  exists h r, split t = h :: r /\ split (c :: t) = (c :: h) :: r.
Proof.
  intros c t Hc. cbn [split]. apply Z.eqb_neq in Hc. rewrite Hc.
  destruct (split t) as [|h r] eqn:E.
  - exfalso. exact (split_nonnil t E).
  - exists h, r. split; reflexivity.
Qed.

Lemma split_noslash : forall s c, In c (split s) -> ~ In SLASH c.
Proof.
  induction s as [|x t IH]; intros c Hin.
  - cbn in Hin. destruct Hin as [<-|[]]. intros [].
  - destruct (Z.eq_dec x SLASH) as [->|Hx].
    + rewrite split_cons_slash in Hin. destruct Hin as [<-|Hin]; [intros []|].
      apply IH. exact Hin.
    + destruct (split_cons_other x t Hx) as (h & r & E1 & E2). rewrite E2 in Hin.
      destruct Hin as [<-|Hin].
      * intros [H|H]; [congruence|]. apply (IH h); [rewrite E1; left; reflexivity | exact H].
      * apply IH. rewrite E1. right. exact Hin.
Qed.

Lemma split_bytes : forall s c x, In c (split s) -> In x c -> In x s.
Proof.
  induction s as [|y t IH]; intros c x Hin Hx.
  - cbn in Hin. destruct Hin as [<-|[]]. destruct Hx.
  - destruct (Z.eq_dec y SLASH) as [->|Hy].
    + rewrite split_cons_slash in Hin. destruct Hin as [<-|Hin]; [destruct Hx|].
      right. eapply IH; eassumption.
    + destruct (split_cons_other y t Hy) as (h & r & E1 & E2). rewrite E2 in Hin.
      destruct Hin as [<-|Hin].
      * destruct Hx as [<-|Hx]; [left; reflexivity|]. right.
        apply (IH h); [rewrite E1; left; reflexivity | exact Hx].
      * right. apply (IH c); [rewrite E1; right; exact Hin | exact Hx].
Qed.

Lemma join_cons : forall c r, r <> [] -> join (c :: r) = c ++ SLASH :: join r.
Proof. intros c r H. cbn [join]. destruct r; [contradiction | reflexivity]. Qed.

Lemma join_split : forall s, join (split s) = s.
Proof.
  induction s as [|x t IH].
  - reflexivity.
  - destruct (Z.eq_dec x SLASH) as [->|Hx].
    + rewrite split_cons_slash. rewrite join_cons by apply split_nonnil.
      rewrite IH. reflexivity.
    + destruct (split_cons_other x t Hx) as (h & r & E1 & E2). rewrite E2.
      rewrite E1 in IH. destruct r as [|r0 r].
      * cbn [join] in *. congruence.
      * rewrite join_cons in * by discriminate. cbn [app]. congruence.
Qed.

(* e has no '/', what follows is the end or a '/' *)
Definition comps_after (rest : str) : list str :=
  match rest with
  | [] => []
  | _ :: t => split t
  end.

Lemma split_elem : forall e rest, ~ In SLASH e -> at_end_or_slash rest = true ->
  split (e ++ rest) = e :: comps_after rest.
Proof.
  induction e as [|x e IH]; intros rest He Hr.
  - cbn [app]. destruct rest as [|c t]; [reflexivity|].
    cbn [at_end_or_slash] in Hr. apply Z.eqb_eq in Hr. subst c.
    rewrite split_cons_slash. reflexivity.
  - assert (Hx : x <> SLASH) by (intro; apply He; left; congruence).
    assert (He' : ~ In SLASH e) by (intro; apply He; right; assumption).
    cbn [app]. destruct (split_cons_other x (e ++ rest) Hx) as (h & r & E1 & E2).
    rewrite E2. rewrite (IH rest He' Hr) in E1. congruence.
Qed.

Lemma split_single : forall e, ~ In SLASH e -> split e = [e].
Proof.
  intros e He. rewrite <- (app_nil_r e) at 1.
  rewrite split_elem by (auto; reflexivity). reflexivity.
Qed.

Lemma split_app_slash : forall a b, split (a ++ SLASH :: b) = split a ++ split b.
Proof.
  induction a as [|x a IH]; intro b.
  - cbn [app]. rewrite split_cons_slash. reflexivity.
  - cbn [app]. destruct (Z.eq_dec x SLASH) as [->|Hx].
    + rewrite !split_cons_slash. rewrite IH. reflexivity.
    + destruct (split_cons_other x a Hx) as (h & r & E1 & E2).
      destruct (split_cons_other x (a ++ SLASH :: b) Hx) as (h' & r' & E1' & E2').
      rewrite E2, E2'. rewrite IH, E1 in E1'. cbn [app] in E1'. inversion E1'; subst.
      reflexivity.
Qed.

Lemma split_join : forall cs, cs <> [] -> Forall (fun c => ~ In SLASH c) cs ->
  split (join cs) = cs.
Proof.
  induction cs as [|c r IH]; intros Hne Hf; [contradiction|].
  inversion Hf as [|? ? Hc Hr]; subst.
  destruct r as [|r0 r].
  - cbn [join]. apply split_single. exact Hc.
  - rewrite join_cons by discriminate. rewrite split_app_slash.
    rewrite split_single by exact Hc. rewrite IH by (auto; discriminate). reflexivity.
Qed.

Lemma join_app_single : forall cs c, cs <> [] -> join (cs ++ [c]) = join cs ++ SLASH :: c.
Proof.
  induction cs as [|x r IH]; intros c Hne; [contradiction|].
  destruct r as [|r0 r].
  - reflexivity.
  - cbn [app]. rewrite (join_cons x) by discriminate.
    rewrite (join_cons x) by (destruct r; discriminate).
    change (r0 :: r ++ [c]) with ((r0 :: r) ++ [c]). rewrite IH by discriminate.
    rewrite <- app_assoc. reflexivity.
Qed.

(* ------------------------------------------------------------------ *)
(* the specification of Clean *)

Definition can_pop (st : list str) : bool :=
  match st with
  | top :: _ => negb (str_eqb top DOTDOT)
  | [] => false
  end.

(* the stack holds the components written so far, last one first *)
Definition step (rooted : bool) (st : list str) (c : str) : list str :=
  match c with
  | [] => st
  | _ =>
    if str_eqb c [DOT] then st
    else if str_eqb c DOTDOT then
      if can_pop st then tl st
      else if rooted then st else DOTDOT :: st
    else c :: st
  end.

Definition base (rooted : bool) : nat := if rooted then 1%nat else 0%nat.

Fixpoint render (rooted : bool) (st : list str) : str :=
  match st with
  | [] => if rooted then [SLASH] else []
  | c :: st' =>
    let r := render rooted st' in
    if (length r =? base rooted)%nat then r ++ c else r ++ SLASH :: c
  end.

Definition clean_spec (p : str) : str :=
  match p with
  | [] => [DOT]
  | c0 :: _ =>
    let rooted := c0 =? SLASH in
    let r := render rooted (fold_left (step rooted) (split p) []) in
    match r with
    | [] => [DOT]
    | _ => r
    end
  end.

(* ------------------------------------------------------------------ *)
(* lazybuf *)

Definition lb_under (b : lazybuf) : str :=
  match lb_buf b with Some bf => bf | None => lb_s b end.

Definition wf (b : lazybuf) : Prop :=
  (lb_w b <= length (lb_s b))%nat /\ length (lb_under b) = length (lb_s b).

Lemma lb_string_under : forall b, lb_string b = firstn (lb_w b) (lb_under b).
Proof. intro b. unfold lb_string, lb_under. destruct (lb_buf b); reflexivity. Qed.

Lemma lb_string_length : forall b, wf b -> length (lb_string b) = lb_w b.
Proof.
  intros b [H1 H2]. rewrite lb_string_under. rewrite firstn_length. lia.
Qed.

Lemma set_nth_length : forall l n x, length (set_nth n x l) = length l.
Proof.
  induction l as [|h t IH]; intros n x; [destruct n; reflexivity|].
  destruct n; cbn [set_nth length]; [reflexivity | rewrite IH; reflexivity].
Qed.

Lemma firstn_set_nth : forall l n x, (n < length l)%nat ->
  firstn (S n) (set_nth n x l) = firstn n l ++ [x].
Proof.
  induction l as [|h t IH]; intros n x Hn; [cbn in Hn; lia|].
  destruct n.
  - reflexivity.
  - cbn [set_nth]. cbn [length] in Hn.
    change (firstn (S (S n)) (h :: set_nth n x t)) with (h :: firstn (S n) (set_nth n x t)).
    rewrite IH by lia. reflexivity.
Qed.

Lemma firstn_S_nth : forall (l : str) n x, nth_error l n = Some x ->
  firstn (S n) l = firstn n l ++ [x].
Proof.
  induction l as [|h t IH]; intros n x H.
  - destruct n; discriminate.
  - destruct n.
    + cbn in H. inversion H. reflexivity.
    + cbn [nth_error] in H.
      change (firstn (S (S n)) (h :: t)) with (h :: firstn (S n) t).
      rewrite (IH n x H). reflexivity.
Qed.

Lemma lb_store_ok : forall s bf w c, (w < length bf)%nat -> length bf = length s ->
  exists b', lb_store s bf w c = Some b' /\ wf b' /\ lb_s b' = s /\
             lb_string b' = firstn w bf ++ [c] /\ lb_w b' = S w.
Proof.
  intros s bf w c Hw Hl. unfold lb_store.
  apply Nat.ltb_lt in Hw as Hw'. rewrite Hw'.
  eexists. split; [reflexivity|]. repeat split; cbn.
  - lia.
  - unfold lb_under. cbn. rewrite set_nth_length. exact Hl.
  - apply firstn_set_nth. exact Hw.
Qed.

Lemma lb_append_ok : forall b c, wf b -> (lb_w b < length (lb_s b))%nat ->
  exists b', lb_append b c = Some b' /\ wf b' /\ lb_s b' = lb_s b /\
             lb_string b' = lb_string b ++ [c] /\ lb_w b' = S (lb_w b).
Proof.
  intros b c [Hw Hu] Hlt. unfold lb_append. unfold lb_under in Hu.
  destruct (lb_buf b) as [bf|] eqn:Eb.
  - destruct (lb_store_ok (lb_s b) bf (lb_w b) c) as (b' & E & Hwf & Hs & Hstr & Hw').
    + lia.
    + exact Hu.
    + exists b'. rewrite E. repeat split; try assumption; try apply Hwf.
      rewrite Hstr. unfold lb_string. rewrite Eb. reflexivity.
  - assert (Halloc : exists b', lb_alloc_store b c = Some b' /\ wf b' /\ lb_s b' = lb_s b /\
               lb_string b' = lb_string b ++ [c] /\ lb_w b' = S (lb_w b)).
    { unfold lb_alloc_store.
      assert (E : (length (lb_s b) <? lb_w b)%nat = false) by (apply Nat.ltb_ge; lia).
      rewrite E.
      set (bf := firstn (lb_w b) (lb_s b) ++ repeat 0 (length (lb_s b) - lb_w b)).
      assert (Hbl : length bf = length (lb_s b)).
      { unfold bf. rewrite app_length, firstn_length, repeat_length. lia. }
      destruct (lb_store_ok (lb_s b) bf (lb_w b) c) as (b' & E' & Hwf & Hs & Hstr & Hw').
      - lia.
      - exact Hbl.
      - exists b'. rewrite E'. repeat split; try assumption; try apply Hwf.
        rewrite Hstr. unfold lb_string. rewrite Eb. unfold bf.
        rewrite firstn_app, firstn_firstn, firstn_length.
        replace (Nat.min (lb_w b) (lb_w b)) with (lb_w b) by lia.
        replace (lb_w b - Nat.min (lb_w b) (length (lb_s b)))%nat with 0%nat by lia.
        cbn [firstn]. rewrite app_nil_r. reflexivity. }
    destruct (nth_error (lb_s b) (lb_w b)) as [c'|] eqn:En; [|exact Halloc].
    destruct (c' =? c) eqn:Ec; [|exact Halloc].
    apply Z.eqb_eq in Ec. subst c'.
    eexists. split; [reflexivity|]. split; [|split; [|split]].
    + split; cbn [lb_w lb_s]; [lia | reflexivity].
    + reflexivity.
    + unfold lb_string. cbn [lb_buf lb_w lb_s]. rewrite Eb. apply firstn_S_nth. exact En.
    + reflexivity.
Qed.

Lemma lb_set_w_wf : forall b w, wf b -> (w <= lb_w b)%nat -> wf (lb_set_w b w).
Proof. intros b w [H1 H2] Hw. split; cbn; [lia | exact H2]. Qed.

Lemma lb_set_w_string : forall b w, (w <= lb_w b)%nat ->
  lb_string (lb_set_w b w) = firstn w (lb_string b).
Proof.
  intros b w Hw. rewrite !lb_string_under. cbn. unfold lb_under. cbn.
  rewrite firstn_firstn. replace (Nat.min w (lb_w b)) with w by lia. reflexivity.
Qed.

Lemma nth_error_firstn_lt : forall (l : str) n i, (i < n)%nat ->
  nth_error (firstn n l) i = nth_error l i.
Proof.
  induction l as [|h t IH]; intros n i Hi.
  - rewrite firstn_nil. reflexivity.
  - destruct n; [lia|]. destruct i; [reflexivity|]. cbn. apply IH. lia.
Qed.

Lemma lb_index_string : forall b w i, wf b -> (i < lb_w b)%nat ->
  lb_index (lb_set_w b w) i = nth_error (lb_string b) i.
Proof.
  intros b w i Hwf Hi. rewrite lb_string_under. unfold lb_index, lb_under. cbn.
  destruct (lb_buf b); symmetry; apply nth_error_firstn_lt; exact Hi.
Qed.

(* C19, part 1: the lazy-buffer transcription of path.Clean (Model/Paths.v)
   never panics, never runs out of fuel, and computes [clean_spec]: split the
   path at '/', run the components through a stack, render the stack. *)
From Coq Require Import ZArith List Bool Lia Arith.
From Galene Require Import Model.Paths.
Import ListNotations.
Open Scope Z_scope.

(* ------------------------------------------------------------------ *)
(* strings *)

Lemma str_eqb_spec : forall a b, str_eqb a b = true <-> a = b.
Proof.
  induction a as [|x a IH]; destruct b as [|y b]; cbn [str_eqb]; split; intro H;
    try reflexivity; try discriminate.
  - apply andb_true_iff in H. destruct H as [H1 H2].
    apply Z.eqb_eq in H1. apply IH in H2. congruence.
  - inversion H; subst. apply andb_true_iff. split.
    + apply Z.eqb_refl.
    + apply IH. reflexivity.
Qed.

Lemma str_eqb_refl : forall a, str_eqb a a = true.
Proof. intro a. apply str_eqb_spec. reflexivity. Qed.

Lemma str_eqb_false : forall a b, str_eqb a b = false <-> a <> b.
Proof.
  intros a b. split.
  - intros H E. apply str_eqb_spec in E. congruence.
  - intro H. destruct (str_eqb a b) eqn:E; [|reflexivity].
    apply str_eqb_spec in E. contradiction.
Qed.

Lemma contains_spec : forall c s, contains c s = true <-> In c s.
Proof.
  intros c s. unfold contains. rewrite existsb_exists. split.
  - intros (x & Hin & He). apply Z.eqb_eq in He. subst. exact Hin.
  - intro H. exists c. split; [exact H | apply Z.eqb_refl].
Qed.

Lemma contains_false : forall c s, contains c s = false <-> ~ In c s.
Proof.
  intros c s. split.
  - intros H Hin. apply contains_spec in Hin. congruence.
  - intro H. destruct (contains c s) eqn:E; [|reflexivity].
    apply contains_spec in E. contradiction.
Qed.

(* strings.Split(s, "/") *)
Fixpoint split (s : str) : list str :=
  match s with
  | [] => [[]]
  | c :: t =>
    if c =? SLASH then [] :: split t
    else match split t with
         | h :: r => (c :: h) :: r
         | [] => [[c]]
         end
  end.

(* strings.Join(cs, "/") *)
Fixpoint join (cs : list str) : str :=
  match cs with
  | [] => []
  | c :: r => match r with
              | [] => c
              | _ => c ++ SLASH :: join r
              end
  end.

Definition DOTDOT : str := [DOT; DOT].

(* a component that names something: not empty, not "." or "..", no '/' *)
Definition normal (c : str) : Prop :=
  c <> [] /\ c <> [DOT] /\ c <> DOTDOT /\ ~ In SLASH c.

Lemma split_nonnil : forall s, split s <> [].
Proof.
  destruct s as [|c t]; cbn [split]; [discriminate|].
  destruct (c =? SLASH); [discriminate|]. destruct (split t); discriminate.
Qed.

Lemma split_cons_slash : forall t, split (SLASH :: t) = [] :: split t.
Proof. intro t. cbn [split]. rewrite Z.eqb_refl. reflexivity. Qed.

Lemma split_cons_other : forall c t, c <> SLASH ->
  exists h r, split t = h :: r /\ split (c :: t) = (c :: h) :: r.
Proof.
  intros c t Hc. cbn [split]. apply Z.eqb_neq in Hc. rewrite Hc.
  destruct (split t) as [|h r] eqn:E.
  - exfalso. exact (split_nonnil t E).
  - exists h, r. split; reflexivity.
Qed.

Lemma split_noslash : forall s c, In c (split s) -> ~ In SLASH c.
Proof.
  induction s as [|x t IH]; intros c Hin.
  - cbn in Hin. destruct Hin as [<-|[]]. intros [].
  - destruct (Z.eq_dec x SLASH) as [->|Hx].
    + rewrite split_cons_slash in Hin. destruct Hin as [<-|Hin]; [intros []|].
      apply IH. exact Hin.
    + destruct (split_cons_other x t Hx) as (h & r & E1 & E2). rewrite E2 in Hin.
      destruct Hin as [<-|Hin].
      * intros [H|H]; [congruence|]. apply (IH h); [rewrite E1; left; reflexivity | exact H].
      * apply IH. rewrite E1. right. exact Hin.
Qed.

Lemma split_bytes : forall s c x, In c (split s) -> In x c -> In x s.
Proof.
  induction s as [|y t IH]; intros c x Hin Hx.
  - cbn in Hin. destruct Hin as [<-|[]]. destruct Hx.
  - destruct (Z.eq_dec y SLASH) as [->|Hy].
    + rewrite split_cons_slash in Hin. destruct Hin as [<-|Hin]; [destruct Hx|].
      right. eapply IH; eassumption.
    + destruct (split_cons_other y t Hy) as (h & r & E1 & E2). rewrite E2 in Hin.
      destruct Hin as [<-|Hin].
      * destruct Hx as [<-|Hx]; [left; reflexivity|]. right.
        apply (IH h); [rewrite E1; left; reflexivity | exact Hx].
      * right. apply (IH c); [rewrite E1; right; exact Hin | exact Hx].
Qed.

Lemma join_cons : forall c r, r <> [] -> join (c :: r) = c ++ SLASH :: join r.
Proof. intros c r H. cbn [join]. destruct r; [contradiction | reflexivity]. Qed.

Lemma join_split : forall s, join (split s) = s.
Proof.
  induction s as [|x t IH].
  - reflexivity.
  - destruct (Z.eq_dec x SLASH) as [->|Hx].
    + rewrite split_cons_slash. rewrite join_cons by apply split_nonnil.
      rewrite IH. reflexivity.
    + destruct (split_cons_other x t Hx) as (h & r & E1 & E2). rewrite E2.
      rewrite E1 in IH. destruct r as [|r0 r].
      * cbn [join] in *. congruence.
      * rewrite join_cons in * by discriminate. cbn [app]. congruence.
Qed.

(* e has no '/', what follows is the end or a '/' *)
Definition comps_after (rest : str) : list str :=
  match rest with
  | [] => []
  | _ :: t => split t
  end.

Lemma split_elem : forall e rest, ~ In SLASH e -> at_end_or_slash rest = true ->
  split (e ++ rest) = e :: comps_after rest.
Proof.
  induction e as [|x e IH]; intros rest He Hr.
  - cbn [app]. destruct rest as [|c t]; [reflexivity|].
    cbn [at_end_or_slash] in Hr. apply Z.eqb_eq in Hr. subst c.
    rewrite split_cons_slash. reflexivity.
  - assert (Hx : x <> SLASH) by (intro; apply He; left; congruence).
    assert (He' : ~ In SLASH e) by (intro; apply He; right; assumption).
    cbn [app]. destruct (split_cons_other x (e ++ rest) Hx) as (h & r & E1 & E2).
    rewrite E2. rewrite (IH rest He' Hr) in E1. congruence.
Qed.

Lemma split_single : forall e, ~ In SLASH e -> split e = [e].
Proof.
  intros e He. rewrite <- (app_nil_r e) at 1.
  rewrite split_elem by (auto; reflexivity). reflexivity.
Qed.

Lemma split_app_slash : forall a b, split (a ++ SLASH :: b) = split a ++ split b.
Proof.
  induction a as [|x a IH]; intro b.
  - cbn [app]. rewrite split_cons_slash. reflexivity.
  - cbn [app]. destruct (Z.eq_dec x SLASH) as [->|Hx].
    + rewrite !split_cons_slash. rewrite IH. reflexivity.
    + destruct (split_cons_other x a Hx) as (h & r & E1 & E2).
      destruct (split_cons_other x (a ++ SLASH :: b) Hx) as (h' & r' & E1' & E2').
      rewrite E2, E2'. rewrite IH, E1 in E1'. cbn [app] in E1'. inversion E1'; subst.
      reflexivity.
Qed.

Lemma split_join : forall cs, cs <> [] -> Forall (fun c => ~ In SLASH c) cs ->
  split (join cs) = cs.
Proof.
  induction cs as [|c r IH]; intros Hne Hf; [contradiction|].
  inversion Hf as [|? ? Hc Hr]; subst.
  destruct r as [|r0 r].
  - cbn [join]. apply split_single. exact Hc.
  - rewrite join_cons by discriminate. rewrite split_app_slash.
    rewrite split_single by exact Hc. rewrite IH by (auto; discriminate). reflexivity.
Qed.

Lemma join_app_single : forall cs c, cs <> [] -> join (cs ++ [c]) = join cs ++ SLASH :: c.
Proof.
  induction cs as [|x r IH]; intros c Hne; [contradiction|].
  destruct r as [|r0 r].
  - reflexivity.
  - cbn [app]. rewrite (join_cons x) by discriminate.
    rewrite (join_cons x) by (destruct r; discriminate).
    change (r0 :: r ++ [c]) with ((r0 :: r) ++ [c]). rewrite IH by discriminate.
    rewrite <- app_assoc. reflexivity.
Qed.

(* ------------------------------------------------------------------ *)
(* the specification of Clean *)

Definition can_pop (st : list str) : bool :=
  match st with
  | top :: _ => negb (str_eqb top DOTDOT)
  | [] => false
  end.

(* the stack holds the components written so far, last one first *)
Definition step (rooted : bool) (st : list str) (c : str) : list str :=
  match c with
  | [] => st
  | _ =>
    if str_eqb c [DOT] then st
    else if str_eqb c DOTDOT then
      if can_pop st then tl st
      else if rooted then st else DOTDOT :: st
    else c :: st
  end.

Definition base (rooted : bool) : nat := if rooted then 1%nat else 0%nat.

Fixpoint render (rooted : bool) (st : list str) : str :=
  match st with
  | [] => if rooted then [SLASH] else []
  | c :: st' =>
    let r := render rooted st' in
    if (length r =? base rooted)%nat then r ++ c else r ++ SLASH :: c
  end.

Definition clean_spec (p : str) : str :=
  match p with
  | [] => [DOT]
  | c0 :: _ =>
    let rooted := c0 =? SLASH in
    let r := render rooted (fold_left (step rooted) (split p) []) in
    match r with
    | [] => [DOT]
    | _ => r
    end
  end.

(* ------------------------------------------------------------------ *)
(* lazybuf *)

Definition lb_under (b : lazybuf) : str :=
  match lb_buf b with Some bf => bf | None => lb_s b end.

Definition wf (b : lazybuf) : Prop :=
  (lb_w b <= length (lb_s b))%nat /\ length (lb_under b) = length (lb_s b).

Lemma lb_string_under : forall b, lb_string b = firstn (lb_w b) (lb_under b).
Proof. intro b. unfold lb_string, lb_under. destruct (lb_buf b); reflexivity. Qed.

Lemma lb_string_length : forall b, wf b -> length (lb_string b) = lb_w b.
Proof.
  intros b [H1 H2]. rewrite lb_string_under. rewrite firstn_length. lia.
Qed.

Lemma set_nth_length : forall l n x, length (set_nth n x l) = length l.
Proof.
  induction l as [|h t IH]; intros n x; [destruct n; reflexivity|].
  destruct n; cbn [set_nth length]; [reflexivity | rewrite IH; reflexivity].
Qed.

Lemma firstn_set_nth : forall l n x, (n < length l)%nat ->
  firstn (S n) (set_nth n x l) = firstn n l ++ [x].
Proof.
  induction l as [|h t IH]; intros n x Hn; [cbn in Hn; lia|].
  destruct n.
  - reflexivity.
  - cbn [set_nth]. cbn [length] in Hn.
    change (firstn (S (S n)) (h :: set_nth n x t)) with (h :: firstn (S n) (set_nth n x t)).
    rewrite IH by lia. reflexivity.
Qed.

Lemma firstn_S_nth : forall (l : str) n x, nth_error l n = Some x ->
  firstn (S n) l = firstn n l ++ [x].
Proof.
  induction l as [|h t IH]; intros n x H.
  - destruct n; discriminate.
  - destruct n.
    + cbn in H. inversion H. reflexivity.
    + cbn [nth_error] in H.
      change (firstn (S (S n)) (h :: t)) with (h :: firstn (S n) t).
      rewrite (IH n x H). reflexivity.
Qed.

Lemma lb_store_ok : forall s bf w c, (w < length bf)%nat -> length bf = length s ->
  exists b', lb_store s bf w c = Some b' /\ wf b' /\ lb_s b' = s /\
             lb_string b' = firstn w bf ++ [c] /\ lb_w b' = S w.
Proof.
  intros s bf w c Hw Hl. unfold lb_store.
  apply Nat.ltb_lt in Hw as Hw'. rewrite Hw'.
  eexists. split; [reflexivity|]. repeat split; cbn.
  - lia.
  - unfold lb_under. cbn. rewrite set_nth_length. exact Hl.
  - apply firstn_set_nth. exact Hw.
Qed.

Lemma lb_append_ok : forall b c, wf b -> (lb_w b < length (lb_s b))%nat ->
  exists b', lb_append b c = Some b' /\ wf b' /\ lb_s b' = lb_s b /\
             lb_string b' = lb_string b ++ [c] /\ lb_w b' = S (lb_w b).
Proof.
  intros b c [Hw Hu] Hlt. unfold lb_append. unfold lb_under in Hu.
  destruct (lb_buf b) as [bf|] eqn:Eb.
  - destruct (lb_store_ok (lb_s b) bf (lb_w b) c) as (b' & E & Hwf & Hs & Hstr & Hw').
    + lia.
    + exact Hu.
    + exists b'. rewrite E. repeat split; try assumption; try apply Hwf.
      rewrite Hstr. unfold lb_string. rewrite Eb. reflexivity.
  - assert (Halloc : exists b', lb_alloc_store b c = Some b' /\ wf b' /\ lb_s b' = lb_s b /\
               lb_string b' = lb_string b ++ [c] /\ lb_w b' = S (lb_w b)).
    { unfold lb_alloc_store.
      assert (E : (length (lb_s b) <? lb_w b)%nat = false) by (apply Nat.ltb_ge; lia).
      rewrite E.
      set (bf := firstn (lb_w b) (lb_s b) ++ repeat 0 (length (lb_s b) - lb_w b)).
      assert (Hbl : length bf = length (lb_s b)).
      { unfold bf. rewrite app_length, firstn_length, repeat_length. lia. }
      destruct (lb_store_ok (lb_s b) bf (lb_w b) c) as (b' & E' & Hwf & Hs & Hstr & Hw').
      - lia.
      - exact Hbl.
      - exists b'. rewrite E'. repeat split; try assumption; try apply Hwf.
        rewrite Hstr. unfold lb_string. rewrite Eb. unfold bf.
        rewrite firstn_app, firstn_firstn, firstn_length.
        replace (Nat.min (lb_w b) (lb_w b)) with (lb_w b) by lia.
        replace (lb_w b - Nat.min (lb_w b) (length (lb_s b)))%nat with 0%nat by lia.
        cbn [firstn]. rewrite app_nil_r. reflexivity. }
    destruct (nth_error (lb_s b) (lb_w b)) as [c'|] eqn:En; [|exact Halloc].
    destruct (c' =? c) eqn:Ec; [|exact Halloc].
    apply Z.eqb_eq in Ec. subst c'.
    eexists. split; [reflexivity|]. split; [|split; [|split]].
    + split; cbn [lb_w lb_s]; [lia | reflexivity].
    + reflexivity.
    + unfold lb_string. cbn [lb_buf lb_w lb_s]. rewrite Eb. apply firstn_S_nth. exact En.
    + reflexivity.
Qed.

Lemma lb_set_w_wf : forall b w, wf b -> (w <= lb_w b)%nat -> wf (lb_set_w b w).
Proof. intros b w [H1 H2] Hw. split; cbn; [lia | exact H2]. Qed.

Lemma lb_set_w_string : forall b w, (w <= lb_w b)%nat ->
  lb_string (lb_set_w b w) = firstn w (lb_string b).
Proof.
  intros b w Hw. rewrite !lb_string_under. cbn. unfold lb_under. cbn.
  rewrite firstn_firstn. replace (Nat.min w (lb_w b)) with w by lia. reflexivity.
Qed.

Lemma nth_error_firstn_lt : forall (l : str) n i, (i < n)%nat ->
  nth_error (firstn n l) i = nth_error l i.
Proof.
  induction l as [|h t IH]; intros n i Hi.
  - rewrite firstn_nil. reflexivity.
  - destruct n; [lia|]. destruct i; [reflexivity|]. cbn. apply IH. lia.
Qed.

Lemma lb_index_string : forall b w i, wf b -> (i < lb_w b)%nat ->
  lb_index (lb_set_w b w) i = nth_error (lb_string b) i.
Proof.
  intros b w i Hwf Hi. rewrite lb_string_under. unfold lb_index, lb_under. cbn.
  destruct (lb_buf b); symmetry; apply nth_error_firstn_lt; exact Hi.
Qed.

(* ------------------------------------------------------------------ *)
(* the two inner loops *)

Lemma nth_error_app_plus : forall (X Y : str) j,
  nth_error (X ++ Y) (length X + j) = nth_error Y j.
Proof.
  induction X as [|x X IH]; intros Y j; [reflexivity|]. cbn. apply IH.
Qed.

Lemma backtrack_ok : forall b X y0 Y' dotdot,
  wf b -> lb_string b = X ++ y0 :: Y' -> ~ In SLASH Y' ->
  (dotdot <= length X)%nat -> (y0 = SLASH \/ dotdot = length X) ->
  forall j fuel, (j <= length Y')%nat -> (j < fuel)%nat ->
  backtrack fuel (lb_set_w b (length X + j)) dotdot = Ok (lb_set_w b (length X)).
Proof.
  intros b X y0 Y' dotdot Hwf Hs HY Hd Hy0.
  assert (Hw : lb_w b = (length X + S (length Y'))%nat).
  { rewrite <- (lb_string_length b Hwf), Hs, app_length. reflexivity. }
  induction j as [|j IH]; intros fuel Hj Hf; (destruct fuel as [|f]; [lia|]).
  - rewrite Nat.add_0_r. cbn [backtrack]. cbn [lb_set_w lb_w].
    destruct (dotdot <? length X)%nat eqn:E; [|reflexivity].
    apply Nat.ltb_lt in E.
    change (mkLB (lb_s b) (lb_buf b) (length X)) with (lb_set_w b (length X)).
    rewrite (lb_index_string b) by (auto; lia).
    rewrite Hs. rewrite <- (Nat.add_0_r (length X)) at 1. rewrite nth_error_app_plus.
    cbn [nth_error]. destruct Hy0 as [->|Hy0]; [|lia]. rewrite Z.eqb_refl. reflexivity.
  - cbn [backtrack]. cbn [lb_set_w lb_w].
    assert (E : (dotdot <? length X + S j)%nat = true) by (apply Nat.ltb_lt; lia).
    rewrite E.
    change (mkLB (lb_s b) (lb_buf b) (length X + S j)) with (lb_set_w b (length X + S j)).
    rewrite (lb_index_string b) by (auto; lia).
    rewrite Hs, nth_error_app_plus. cbn [nth_error].
    destruct (nth_error Y' j) as [c|] eqn:En.
    + assert (Hc : c <> SLASH).
      { intro; subst c. apply HY. eapply nth_error_In; eassumption. }
      apply Z.eqb_neq in Hc. rewrite Hc.
      unfold lb_set_w at 1. cbn [lb_s lb_buf lb_w lb_set_w].
      rewrite Nat.add_succ_r. cbn [pred].
      change (mkLB (lb_s b) (lb_buf b) (length X + j)) with (lb_set_w b (length X + j)).
      apply IH; lia.
    + apply nth_error_None in En. lia.
Qed.

Lemma copy_elem_ok : forall rest b, wf b ->
  (lb_w b + length rest <= length (lb_s b))%nat ->
  exists b' e rest', copy_elem b rest = Some (b', rest') /\ rest = e ++ rest' /\
    ~ In SLASH e /\ at_end_or_slash rest' = true /\ wf b' /\ lb_s b' = lb_s b /\
    lb_string b' = lb_string b ++ e /\ lb_w b' = (lb_w b + length e)%nat.
Proof.
  induction rest as [|c t IH]; intros b Hwf Hcap.
  - exists b, [], []. cbn. rewrite app_nil_r, Nat.add_0_r. repeat split; auto; apply Hwf.
  - cbn [copy_elem]. destruct (c =? SLASH) eqn:Ec.
    + exists b, [], (c :: t). cbn [at_end_or_slash app length]. rewrite app_nil_r, Nat.add_0_r.
      repeat split; auto; apply Hwf.
    + cbn [length] in Hcap.
      destruct (lb_append_ok b c Hwf) as (b1 & E1 & Hwf1 & Hs1 & Hstr1 & Hw1); [lia|].
      rewrite E1.
      destruct (IH b1 Hwf1) as (b' & e & rest' & E & Hr & He & Hae & Hwf' & Hs' & Hstr' & Hw').
      { rewrite Hs1, Hw1. lia. }
      exists b', (c :: e), rest'. rewrite E. cbn [app length]. repeat split; auto.
      * congruence.
      * apply Z.eqb_neq in Ec. intros [H|H]; [congruence | contradiction].
      * apply Hwf'.
      * apply Hwf'.
      * congruence.
      * rewrite Hstr', Hstr1, <- app_assoc. reflexivity.
      * lia.
Qed.

(* ------------------------------------------------------------------ *)
(* render *)

Lemma render_length_ge : forall rooted st, (base rooted <= length (render rooted st))%nat.
Proof.
  induction st as [|c st IH]; cbn [render].
  - destruct rooted; cbn; lia.
  - destruct (length (render rooted st) =? base rooted)%nat;
      rewrite app_length; cbn [length]; lia.
Qed.

Lemma render_cons_length : forall rooted c st, c <> [] ->
  (length (render rooted st) < length (render rooted (c :: st)))%nat.
Proof.
  intros rooted c st Hc. cbn [render].
  destruct c as [|x c]; [contradiction|].
  destruct (length (render rooted st) =? base rooted)%nat;
    rewrite app_length; cbn [length]; lia.
Qed.

Lemma render_app_length : forall rooted st1 st2,
  (length (render rooted st2) <= length (render rooted (st1 ++ st2)))%nat.
Proof.
  induction st1 as [|c st1 IH]; intro st2; cbn [app]; [lia|].
  specialize (IH st2). cbn [render].
  destruct (length (render rooted (st1 ++ st2)) =? base rooted)%nat;
    rewrite app_length; cbn [length]; lia.
Qed.

Lemma normal_nonnil : forall c, normal c -> c <> [].
Proof. intros c H. apply H. Qed.

Lemma dotdot_nonnil : DOTDOT <> [].
Proof. discriminate. Qed.

Lemma render_base_nil : forall rooted st, Forall (fun c => c <> []) st ->
  length (render rooted st) = base rooted -> st = [].
Proof.
  intros rooted st Hf H. destruct st as [|c st]; [reflexivity|].
  inversion Hf; subst.
  pose proof (render_cons_length rooted c st ltac:(assumption)).
  pose proof (render_length_ge rooted st). lia.
Qed.

Lemma stack_nonnil : forall ns k, Forall normal ns ->
  Forall (fun c : str => c <> []) (ns ++ repeat DOTDOT k).
Proof.
  intros ns k H. apply Forall_app. split.
  - eapply Forall_impl; [|exact H]. intros c Hc. apply Hc.
  - apply Forall_forall. intros c Hc. apply repeat_spec in Hc. subst. discriminate.
Qed.

(* ------------------------------------------------------------------ *)
(* the component view of the read side *)

Lemma fold_comps_after : forall rooted t st, at_end_or_slash t = true ->
  fold_left (step rooted) (split t) st = fold_left (step rooted) (comps_after t) st.
Proof.
  intros rooted t st H. destruct t as [|c t]; [reflexivity|].
  cbn [at_end_or_slash] in H. apply Z.eqb_eq in H. subst c.
  rewrite split_cons_slash. reflexivity.
Qed.

Lemma step_normal : forall rooted st e, normal e -> step rooted st e = e :: st.
Proof.
  intros rooted st e (H1 & H2 & H3 & _). unfold step.
  destruct e as [|x e]; [contradiction|].
  apply str_eqb_false in H2. apply str_eqb_false in H3. rewrite H2, H3. reflexivity.
Qed.

Lemma can_pop_stack : forall ns k, Forall normal ns ->
  can_pop (ns ++ repeat DOTDOT k) = match ns with [] => false | _ => true end.
Proof.
  intros ns k H. destruct ns as [|n ns].
  - destruct k; reflexivity.
  - inversion H as [|? ? (_ & _ & Hn & _) _]; subst. cbn.
    apply str_eqb_false in Hn. rewrite Hn. reflexivity.
Qed.

(* ------------------------------------------------------------------ *)
(* the main loop *)

Definition Inv (path : str) (rooted : bool) (out : lazybuf) (dotdot : nat)
           (ns : list str) (k : nat) (rest : str) : Prop :=
  wf out /\ lb_s out = path /\
  lb_string out = render rooted (ns ++ repeat DOTDOT k) /\
  dotdot = length (render rooted (repeat DOTDOT k)) /\
  Forall normal ns /\ (rooted = true -> k = 0%nat) /\
  (lb_w out + length rest <= length path)%nat /\
  ((base rooted < lb_w out)%nat -> at_end_or_slash rest = false ->
   (lb_w out + 1 + length rest <= length path)%nat).

Lemma is_dot_elem_spec : forall c t, is_dot_elem (c :: t) = true ->
  c = DOT /\ at_end_or_slash t = true.
Proof.
  intros c t H. cbn in H. apply andb_true_iff in H. destruct H as [H1 H2].
  apply Z.eqb_eq in H1. auto.
Qed.

Lemma is_dotdot_elem_spec : forall c t, is_dotdot_elem (c :: t) = true ->
  exists t2, c = DOT /\ t = DOT :: t2 /\ at_end_or_slash t2 = true.
Proof.
  intros c t H. destruct t as [|c1 t2]; [discriminate|]. cbn in H.
  apply andb_true_iff in H. destruct H as [H H3].
  apply andb_true_iff in H. destruct H as [H1 H2].
  apply Z.eqb_eq in H1. apply Z.eqb_eq in H2. subst. exists t2. auto.
Qed.

Lemma loop_ok : forall fuel path rooted out dotdot ns k rest,
  (length rest < fuel)%nat ->
  Inv path rooted out dotdot ns k rest ->
  exists out', clean_loop fuel rooted out dotdot rest = Ok out' /\ wf out' /\
    lb_string out' =
      render rooted (fold_left (step rooted) (split rest) (ns ++ repeat DOTDOT k)).
Proof.
  induction fuel as [|f IH]; intros path rooted out dotdot ns k rest Hfuel HI; [lia|].
  destruct HI as (Hwf & Hs & Hstr & Hdd & Hns & Hk & Hcap & Hcap2).
  pose proof (lb_string_length out Hwf) as Hlen.
  destruct rest as [|c t].
  - exists out. cbn. auto.
  - cbn [clean_loop]. cbn [length] in Hfuel, Hcap, Hcap2.
    destruct (c =? SLASH) eqn:Ec.
    { (* empty element *)
      apply Z.eqb_eq in Ec. subst c. rewrite split_cons_slash. cbn [fold_left step].
      apply (IH path); [lia|]. unfold Inv. repeat split; auto; try apply Hwf; try lia. }
    destruct (is_dot_elem (c :: t)) eqn:Edot.
    { (* . *)
      apply is_dot_elem_spec in Edot. destruct Edot as [-> Hae].
      change (DOT :: t) with ([DOT] ++ t).
      rewrite split_elem by (auto; intros [H|[]]; discriminate).
      cbn [fold_left]. replace (step rooted (ns ++ repeat DOTDOT k) [DOT]) with (ns ++ repeat DOTDOT k) by reflexivity.
      rewrite <- fold_comps_after by exact Hae.
      apply (IH path); [lia|]. unfold Inv. repeat split; auto; try apply Hwf; try lia;
        try (intros; congruence). }
    destruct (is_dotdot_elem (c :: t)) eqn:Edd.
    { (* .. *)
      apply is_dotdot_elem_spec in Edd. destruct Edd as (t2 & -> & -> & Hae).
      cbn [tl]. cbn [length] in Hfuel, Hcap, Hcap2.
      change (DOT :: DOT :: t2) with (DOTDOT ++ t2).
      rewrite split_elem by (auto; intros [H|[H|[]]]; discriminate).
      cbn [fold_left]. rewrite <- fold_comps_after by exact Hae.
      assert (Hstep : step rooted (ns ++ repeat DOTDOT k) DOTDOT =
                      if can_pop (ns ++ repeat DOTDOT k) then tl (ns ++ repeat DOTDOT k)
                      else if rooted then ns ++ repeat DOTDOT k
                           else DOTDOT :: ns ++ repeat DOTDOT k) by reflexivity.
      rewrite Hstep, (can_pop_stack ns k Hns). clear Hstep.
      destruct ns as [|n0 ns'].
      - (* cannot backtrack *)
        cbn [app] in *.
        assert (Ew : (dotdot <? lb_w out)%nat = false).
        { apply Nat.ltb_ge. rewrite <- Hlen, Hstr, Hdd. lia. }
        rewrite Ew. destruct rooted; cbn [negb].
        + apply (IH path true out dotdot [] k t2); [lia|]. unfold Inv. repeat split; auto; try apply Hwf; try lia;
            try (intros; congruence).
        + (* append "/.." or ".." *)
          assert (H1 : exists o1, (if (0 <? lb_w out)%nat then lb_append out SLASH else Some out) = Some o1 /\
                       wf o1 /\ lb_s o1 = path /\
                       lb_string o1 = (if (length (render false (repeat DOTDOT k)) =? 0)%nat
                                       then render false (repeat DOTDOT k)
                                       else render false (repeat DOTDOT k) ++ [SLASH]) /\
                       (lb_w o1 + 2 + length t2 <= length path)%nat).
          { rewrite <- Hstr, Hlen. destruct (lb_w out) as [|w'] eqn:Ew0.
            - cbn. exists out. repeat split; auto; try apply Hwf. lia.
            - assert (E0 : (0 <? S w')%nat = true) by (apply Nat.ltb_lt; lia).
              rewrite E0. cbn [Nat.eqb].
              assert (Hc2 : (S w' + 1 + S (S (length t2)) <= length path)%nat).
              { apply Hcap2; [cbn; lia | reflexivity]. }
              destruct (lb_append_ok out SLASH Hwf) as (o1 & E1 & Hwf1 & Hs1 & Hstr1 & Hw1);
                [rewrite Hs; lia|].
              exists o1. rewrite Hw1, Ew0. repeat split; auto; try apply Hwf1; try congruence. lia. }
          destruct H1 as (o1 & E1 & Hwf1 & Hs1 & Hstr1 & Hc1). rewrite E1.
          destruct (lb_append_ok o1 DOT Hwf1) as (o2 & E2 & Hwf2 & Hs2 & Hstr2 & Hw2);
            [rewrite Hs1; lia|].
          rewrite E2.
          destruct (lb_append_ok o2 DOT Hwf2) as (o3 & E3 & Hwf3 & Hs3 & Hstr3 & Hw3);
            [rewrite Hs2, Hs1, Hw2; lia|].
          rewrite E3.
          assert (Hstr3' : lb_string o3 = render false (repeat DOTDOT (S k))).
          { rewrite Hstr3, Hstr2, Hstr1. cbn [repeat render base].
            destruct (length (render false (repeat DOTDOT k)) =? 0)%nat;
              rewrite <- !app_assoc; reflexivity. }
          change (DOTDOT :: repeat DOTDOT k) with ([] ++ repeat DOTDOT (S k)).
          apply (IH path); [lia|]. unfold Inv. repeat split; auto; try apply Hwf3.
          * congruence.
          * rewrite <- Hstr3'. symmetry. apply lb_string_length. exact Hwf3.
          * discriminate.
          * lia.
          * intros _ H. congruence.
      - (* can backtrack *)
        subst dotdot. cbn [app tl] in *.
        pose proof (Forall_inv Hns) as Hn0. pose proof (Forall_inv_tail Hns) as Hns'.
        set (st' := ns' ++ repeat DOTDOT k) in *.
        set (r := render rooted st') in *.
        assert (Hdr : (length (render rooted (repeat DOTDOT k)) <= length r)%nat)
          by apply render_app_length.
        destruct Hn0 as (Hn1 & Hn2 & Hn3 & Hn4).
        assert (Hparts : exists y0 Y', lb_string out = r ++ y0 :: Y' /\ ~ In SLASH Y' /\
                   (y0 = SLASH \/ length (render rooted (repeat DOTDOT k)) = length r)).
        { rewrite Hstr. cbn [render]. fold st'. fold r.
          destruct (length r =? base rooted)%nat eqn:Eb.
          - apply Nat.eqb_eq in Eb.
            destruct n0 as [|y0 Y']; [contradiction|].
            exists y0, Y'. repeat split; auto.
            + intro H. apply Hn4. right. exact H.
            + right. pose proof (render_length_ge rooted (repeat DOTDOT k)). lia.
          - exists SLASH, n0. repeat split; auto. }
        destruct Hparts as (y0 & Y' & Hsplit & HY' & Hy0).
        assert (Hw : lb_w out = (length r + S (length Y'))%nat).
        { rewrite <- Hlen, Hsplit, app_length. reflexivity. }
        assert (Ew : (length (render rooted (repeat DOTDOT k)) <? lb_w out)%nat = true)
          by (apply Nat.ltb_lt; lia).
        rewrite Ew.
        replace (pred (lb_w out)) with (length r + length Y')%nat by lia.
        rewrite (backtrack_ok out r y0 Y' _ Hwf Hsplit HY' Hdr Hy0) by lia.
        apply (IH path); [lia|]. unfold Inv.
        assert (Hwf' : wf (lb_set_w out (length r))) by (apply lb_set_w_wf; auto; lia).
        repeat split; auto; try apply Hwf'.
        + rewrite lb_set_w_string by lia. rewrite Hsplit.
          rewrite firstn_app, Nat.sub_diag, firstn_all. cbn [firstn]. apply app_nil_r.
        + cbn [lb_set_w lb_w]. lia.
        + intros _ H. congruence. }
    (* real element *)
    assert (Hcne : c <> SLASH) by (apply Z.eqb_neq; exact Ec).
    assert (Htest : ((rooted && negb (lb_w out =? 1)%nat) || (negb rooted && negb (lb_w out =? 0)%nat))
                    = negb (lb_w out =? base rooted)%nat).
    { destruct rooted; cbn [base andb orb negb]; [rewrite orb_false_r|]; reflexivity. }
    rewrite Htest. clear Htest.
    set (st := ns ++ repeat DOTDOT k) in *.
    assert (H1 : exists o1, (if negb (lb_w out =? base rooted)%nat then lb_append out SLASH else Some out) = Some o1 /\
                 wf o1 /\ lb_s o1 = path /\
                 lb_string o1 = (if (length (render rooted st) =? base rooted)%nat
                                 then render rooted st else render rooted st ++ [SLASH]) /\
                 (lb_w o1 + S (length t) <= length path)%nat).
    { rewrite <- Hstr, Hlen. destruct (lb_w out =? base rooted)%nat eqn:Eb; cbn [negb].
      - exists out. repeat split; auto; try apply Hwf.
      - apply Nat.eqb_neq in Eb.
        assert (Hge : (base rooted <= lb_w out)%nat).
        { rewrite <- Hlen, Hstr. apply render_length_ge. }
        assert (Hc2 : (lb_w out + 1 + S (length t) <= length path)%nat).
        { apply Hcap2; [lia|]. cbn [at_end_or_slash]. exact Ec. }
        destruct (lb_append_ok out SLASH Hwf) as (o1 & E1 & Hwf1 & Hs1 & Hstr1 & Hw1);
          [rewrite Hs; lia|].
        exists o1. repeat split; auto; try apply Hwf1; try congruence. lia. }
    destruct H1 as (o1 & E1 & Hwf1 & Hs1 & Hstr1 & Hc1). rewrite E1.
    destruct (copy_elem_ok (c :: t) o1 Hwf1) as (o2 & e & rest' & E2 & Hr & He & Hae & Hwf2 & Hs2 & Hstr2 & Hw2).
    { rewrite Hs1. cbn [length]. exact Hc1. }
    rewrite E2.
    assert (Hen : normal e).
    { repeat split; auto.
      - intro; subst e. cbn [app] in Hr. subst rest'.
        cbn [at_end_or_slash] in Hae. congruence.
      - intro; subst e. cbn [app] in Hr. inversion Hr; subst.
        cbn [is_dot_elem] in Edot. rewrite Z.eqb_refl, Hae in Edot. discriminate.
      - intro; subst e. cbn [app DOTDOT] in Hr. inversion Hr; subst.
        cbn [is_dotdot_elem] in Edd. rewrite !Z.eqb_refl, Hae in Edd. discriminate. }
    rewrite Hr. rewrite split_elem by assumption. cbn [fold_left].
    rewrite (step_normal rooted st e Hen). rewrite <- fold_comps_after by exact Hae.
    change (e :: st) with ((e :: ns) ++ repeat DOTDOT k).
    assert (Hlr : length (c :: t) = (length e + length rest')%nat)
      by (rewrite Hr, app_length; reflexivity).
    cbn [length] in Hlr.
    assert (Hel : (0 < length e)%nat).
    { destruct e; [exfalso; exact (proj1 Hen eq_refl) | cbn; lia]. }
    apply (IH path); [lia|]. unfold Inv. repeat split; auto; try apply Hwf2.
    + congruence.
    + rewrite Hstr2, Hstr1. cbn [app render]. fold st.
      destruct (length (render rooted st) =? base rooted)%nat;
        [reflexivity | rewrite <- app_assoc; reflexivity].
    + lia.
    + intros _ H. congruence.
Qed.

(* ------------------------------------------------------------------ *)
(* path.Clean, as transcribed, is total and equals the specification *)

Theorem clean_lazy_spec : forall p, clean_lazy p = Ok (clean_spec p).
Proof.
  intros [|c0 t0]; [reflexivity|].
  unfold clean_lazy, clean_spec.
  set (path := c0 :: t0). set (rooted := c0 =? SLASH).
  assert (Hfinish : forall out rest,
    Inv path rooted out (base rooted) [] 0 rest -> (length rest < S (length path))%nat ->
    fold_left (step rooted) (split rest) [] = fold_left (step rooted) (split path) [] ->
    match clean_loop (S (length path)) rooted out (base rooted) rest with
    | Ok out => if (lb_w out =? 0)%nat then Ok [DOT] else Ok (lb_string out)
    | Panic => Panic
    | OutOfFuel => OutOfFuel
    end = Ok match render rooted (fold_left (step rooted) (split path) []) with
             | [] => [DOT]
             | _ :: _ => render rooted (fold_left (step rooted) (split path) [])
             end).
  { intros out rest HI Hlen Hsp.
    destruct (loop_ok (S (length path)) path rooted out (base rooted) [] 0%nat rest Hlen HI)
      as (out' & E & Hwf' & Hstr').
    rewrite E. cbn [app repeat] in Hstr'. rewrite Hsp in Hstr'.
    rewrite <- (lb_string_length out' Hwf'), Hstr'.
    destruct (render rooted (fold_left (step rooted) (split path) [])); reflexivity. }
  destruct rooted eqn:Er.
  - (* rooted *)
    assert (Ec : c0 = SLASH) by (apply Z.eqb_eq; exact Er). 
    assert (Ea : lb_append (mkLB path None 0) SLASH = Some (mkLB path None 1)).
    { unfold lb_append. cbn [lb_buf lb_s lb_w path nth_error]. fold rooted. rewrite Er. reflexivity. }
    rewrite Ea. apply (Hfinish (mkLB path None 1) t0).
    + unfold Inv. cbn [lb_w lb_s base app repeat render length].
      repeat split; auto; try (cbn; lia); try (intro H; cbn in H; lia).
      unfold lb_string. cbn. congruence.
    + cbn. lia.
    + unfold path. rewrite Ec, split_cons_slash. reflexivity.
  - apply (Hfinish (mkLB path None 0) path).
    + unfold Inv. cbn [lb_w lb_s base app repeat render length].
      repeat split; auto; try (cbn; lia); try (intro H; cbn in H; lia).
    + lia.
    + reflexivity.
Qed.

Corollary clean_spec_eq : forall p, clean p = clean_spec p.
Proof. intro p. unfold clean. rewrite clean_lazy_spec. reflexivity. Qed.

(* no panic, no fuel exhaustion: [clean] is the value of [clean_lazy] *)
Corollary clean_lazy_total : forall p, clean_lazy p = Ok (clean p).
Proof. intro p. rewrite clean_spec_eq. apply clean_lazy_spec. Qed.

(* C07, layer 2: [step_passive] with a predicate on what is appended to the
   queues.  Instance: every push of a live stream that a step appends carries
   the stream's CURRENT list of tracks ([fresh_action]). *)
From Coq Require Import List Bool Arith PeanoNat Lia.
From Galene Require Import Model.Subscribe Proofs.SubscribeFrame Proofs.SubscribeInv Proofs.SubscribeStep.
Import ListNotations.

Section Fresh.
Variable P : action -> Prop.
Hypothesis Pnone : forall g id ts r, P (APush g id None ts r).
Hypothesis Preq : forall g t id, P (AReqConns g t id).
Hypothesis Pperm : forall g b, P (AChangePerm g b).
Hypothesis Pchg : P APermsChanged.
Hypothesis Pkick : P AKick.
Variable w0 : world.
Hypothesis Psome : forall g id v r, P (APush g id (Some v) (uo_tracks (w_up w0 v)) r).

Definition passiveP (m : nat) (w w' : world) : Prop :=
  core (w_cl w' m) = core (w_cl w m) /\
  exists l, c_queue (w_cl w' m) = c_queue (w_cl w m) ++ l /\ Forall P l.

Lemma passiveP_passive : forall m w w', passiveP m w w' -> passive m w w'.
Proof. intros m w w' [A [l [B _]]]. split; [exact A|exists l; exact B]. Qed.

Lemma passiveP_refl : forall m w, passiveP m w w.
Proof. intros. split; [reflexivity|]. exists []. rewrite app_nil_r. split; [reflexivity|constructor]. Qed.

Lemma passiveP_trans : forall m a b c, passiveP m a b -> passiveP m b c -> passiveP m a c.
Proof.
  intros m a b c [H1 [l1 [Q1 F1]]] [H2 [l2 [Q2 F2]]]. split; [congruence|].
  exists (l1 ++ l2). split; [rewrite Q2, Q1, app_assoc; reflexivity|apply Forall_app; auto].
Qed.

(* updates of another client *)
Lemma passiveP_upd_cl : forall m c f w, m <> c -> passiveP m w (upd_cl c f w).
Proof.
  intros m c f w Hm. unfold passiveP, upd_cl. simpl.
  destruct (Nat.eqb_spec m c); [contradiction|]. split; [reflexivity|].
  exists []. rewrite app_nil_r. split; [reflexivity|constructor].
Qed.

Lemma passiveP_enq : forall m t a w, P a -> passiveP m w (enq t a w).
Proof.
  intros m t a w Ha. unfold passiveP, enq, upd_cl. simpl. destruct (Nat.eqb m t); simpl.
  - split; [reflexivity|]. exists [a]. split; [reflexivity|constructor; [exact Ha|constructor]].
  - split; [reflexivity|]. exists []. rewrite app_nil_r. split; [reflexivity|constructor].
Qed.

Lemma passiveP_enq_all : forall m ts a w, P a -> passiveP m w (enq_all ts a w).
Proof.
  induction ts as [|t r IH]; intros a w Ha; [apply passiveP_refl|]. rewrite enq_all_cons.
  eapply passiveP_trans; [apply passiveP_enq; exact Ha|apply IH; exact Ha].
Qed.

Lemma passiveP_upd_up : forall m u f w, passiveP m w (upd_up u f w).
Proof. intros. split; [reflexivity|]. exists []. rewrite app_nil_r. split; [reflexivity|constructor]. Qed.

Lemma passiveP_set_timers : forall m ts w, passiveP m w (set_timers ts w).
Proof. intros. split; [reflexivity|]. exists []. rewrite app_nil_r. split; [reflexivity|constructor]. Qed.

Lemma passiveP_send : forall m c x w, m <> c -> passiveP m w (send c x w).
Proof. intros. apply passiveP_upd_cl. assumption. Qed.

Lemma passiveP_del_up_conn' : forall m c id push w, m <> c -> passiveP m w (del_up_conn' c id push w).
Proof.
  intros m c id push w Hm. unfold del_up_conn', del_up_conn.
  destruct (lookup id (c_up (w_cl w c))); [|apply passiveP_refl].
  assert (H : passiveP m w (upd_up n up_set_closed (upd_cl c (fun cl => set_ups (remove_key id (c_up cl)) cl) w))).
  { eapply passiveP_trans; [apply passiveP_upd_cl; exact Hm|apply passiveP_upd_up]. }
  destruct push; [destruct (c_group (w_cl w c))|]; try exact H.
  eapply passiveP_trans; [exact H|apply passiveP_enq_all; apply Pnone].
Qed.

Lemma passiveP_leave_fold : forall m c l w, m <> c -> passiveP m w (leave_fold c l w).
Proof.
  induction l as [|x r IH]; intros w Hm; [apply passiveP_refl|]. simpl.
  eapply passiveP_trans; [apply passiveP_del_up_conn'; exact Hm|apply IH; exact Hm].
Qed.

Lemma passiveP_leave_group : forall m c w, m <> c -> passiveP m w (leave_group c w).
Proof.
  intros. unfold leave_group. destruct (c_group (w_cl w c)); [|apply passiveP_refl].
  eapply passiveP_trans; [apply (passiveP_leave_fold m c); eassumption|apply passiveP_upd_cl; eassumption].
Qed.

Lemma passiveP_error_close : forall m c w, m <> c -> passiveP m w (error_close c w).
Proof.
  intros. unfold error_close.
  eapply passiveP_trans; [apply (passiveP_leave_group m c); eassumption|apply passiveP_upd_cl; eassumption].
Qed.

Lemma passiveP_finish : forall m c w r, m <> c -> passiveP m w (fst r) -> passiveP m w (finish c r).
Proof.
  intros m c w [w' e] Hm H. unfold finish. simpl in *. destruct e; [|exact H].
  eapply passiveP_trans; [exact H|apply passiveP_error_close; exact Hm].
Qed.

Lemma passiveP_close_down_conn : forall m c id msg w, m <> c -> passiveP m w (close_down_conn c id msg w).
Proof.
  intros. unfold close_down_conn, del_down.
  destruct msg; repeat (eapply passiveP_trans; [|apply passiveP_send; eassumption]); apply passiveP_upd_cl; eassumption.
Qed.

Lemma passiveP_negotiate : forall m c d r w, m <> c -> passiveP m w (negotiate c d r w).
Proof.
  intros. unfold negotiate, set_down_entry. destruct (d_havelocal d); [apply passiveP_upd_cl; eassumption|].
  eapply passiveP_trans; [apply passiveP_upd_cl; eassumption|apply passiveP_send; eassumption].
Qed.

Lemma passiveP_fail_up : forall m c id w, m <> c -> passiveP m w (fail_up c id w).
Proof. intros. unfold fail_up. eapply passiveP_trans; apply passiveP_send; eassumption. Qed.

Lemma passiveP_offer_tail : forall m c id replace u s w, m <> c -> passiveP m w (offer_tail c id replace u s w).
Proof.
  intros m c id replace u s w Hm. unfold offer_tail. set (w2 := if Nat.eqb replace 0 then w else _).
  assert (H : passiveP m w w2).
  { unfold w2. destruct (Nat.eqb replace 0); [apply passiveP_refl|].
    eapply passiveP_trans; [apply (passiveP_upd_up m u)|apply passiveP_del_up_conn'; exact Hm]. }
  destruct s; [destruct (uo_closed (w_up w2 u))|..]; (eapply passiveP_trans; [exact H|]);
    try (apply passiveP_fail_up; exact Hm); apply passiveP_send; exact Hm.
Qed.

Lemma passiveP_new_up_conn : forall m c id label g w, m <> c -> passiveP m w (new_up_conn c id label g w).
Proof.
  intros m c id label g w Hm. unfold passiveP, new_up_conn, new_timer. simpl.
  destruct (Nat.eqb_spec m c); [contradiction|]. split; [reflexivity|]. exists []. rewrite app_nil_r. split; [reflexivity|constructor].
Qed.

Lemma passiveP_got_offer : forall m c id label replace s w, m <> c -> passiveP m w (got_offer c id label replace s w).
Proof.
  intros m c id label replace s w Hm. unfold got_offer.
  destruct (get_down id (c_down (w_cl w c))); [apply passiveP_fail_up; exact Hm|].
  destruct (lookup id (c_up (w_cl w c))); [apply passiveP_offer_tail; exact Hm|].
  destruct s; destruct (c_group (w_cl w c)); try (apply passiveP_fail_up; exact Hm);
    (eapply passiveP_trans; [apply passiveP_new_up_conn; exact Hm|apply passiveP_offer_tail; exact Hm]).
Qed.

Lemma passiveP_push_down_conn : forall m c id up ts r w, m <> c -> passiveP m w (fst (push_down_conn c id up ts r w)).
Proof.
  intros m c id up ts r w Hm. unfold push_down_conn.
  set (w1 := if Nat.eqb r 0 then w else del_down c r w).
  assert (S1 : passiveP m w w1).
  { unfold w1, del_down. destruct (Nat.eqb r 0); [apply passiveP_refl|apply passiveP_upd_cl; exact Hm]. }
  assert (Hdef : forall w', passiveP m w w' -> passiveP m w (if Nat.eqb r 0 then w' else close_down_conn c r false w')).
  { intros w' S'. destruct (Nat.eqb r 0); [exact S'|].
    eapply passiveP_trans; [exact S'|apply passiveP_close_down_conn; exact Hm]. }
  match goal with |- context [match fst ?s with _ => _ end] => destruct (fst s) as [|i0 sel] end.
  - cbn [fst]. apply Hdef. eapply passiveP_trans; [exact S1|apply passiveP_close_down_conn; exact Hm].
  - destruct up as [u|]; [|cbn [fst]; apply Hdef; eapply passiveP_trans; [exact S1|apply passiveP_close_down_conn; exact Hm]].
    unfold add_down_conn.
    destruct (lookup (uo_id (w_up w1 u)) (c_up (w_cl w1 c))); [cbn [fst]; apply Hdef; exact S1|].
    destruct (get_down (uo_id (w_up w1 u)) (c_down (w_cl w1 c))) as [d0|] eqn:Eg.
    + destruct (get_down (uo_id (w_up w u)) (c_down (w_cl w1 c))); [|cbn [fst]; apply Hdef; exact S1].
      destruct (replace_tracks _ _ _) as [changed d'].
      assert (S3 : passiveP m w (set_down_entry c d' w1)).
      { eapply passiveP_trans; [exact S1|apply passiveP_upd_cl; exact Hm]. }
      destruct changed; cbn [fst]; [|apply Hdef; exact S3].
      eapply passiveP_trans; [exact S3|apply passiveP_negotiate; exact Hm].
    + destruct (uo_closed (w_up w1 u)); [cbn [fst]; apply Hdef; exact S1|].
      set (w2 := upd_cl c _ w1).
      assert (S2 : passiveP m w w2).
      { eapply passiveP_trans; [exact S1|apply passiveP_upd_cl; exact Hm]. }
      destruct (get_down (uo_id (w_up w u)) (c_down (w_cl w2 c))); [|cbn [fst]; apply Hdef; exact S2].
      destruct (replace_tracks _ _ _) as [changed d'].
      assert (S3 : passiveP m w (set_down_entry c d' w2)).
      { eapply passiveP_trans; [exact S2|apply passiveP_upd_cl; exact Hm]. }
      destruct changed; cbn [fst]; [|apply Hdef; exact S3].
      eapply passiveP_trans; [exact S3|apply passiveP_negotiate; exact Hm].
Qed.

Lemma passiveP_reqconns_fold : forall m g t id l w, w_up w = w_up w0 -> passiveP m w (reqconns_fold g t id l w).
Proof.
  induction l as [|x r IH]; intros w Hw; [apply passiveP_refl|]. simpl.
  destruct (negb (Nat.eqb id 0) && negb (Nat.eqb id (fst x))); [apply IH; exact Hw|].
  eapply passiveP_trans; [|apply IH; exact Hw].
  apply passiveP_enq. rewrite Hw. apply Psome.
Qed.

Lemma passiveP_unpresent_fold : forall m c l w, m <> c -> passiveP m w (unpresent_fold c l w).
Proof.
  induction l as [|x r IH]; intros w Hm; [apply passiveP_refl|]. simpl.
  eapply passiveP_trans; [|apply IH; exact Hm].
  pose proof (passiveP_del_up_conn' m c (fst x) true w Hm) as H. unfold del_up_conn' in H.
  destruct (del_up_conn c (fst x) true w); [apply passiveP_refl|].
  eapply passiveP_trans; [exact H|apply passiveP_fail_up; exact Hm].
Qed.

Lemma passiveP_handle_msg : forall m c msg w, m <> c -> passiveP m w (fst (handle_msg c msg w)).
Proof.
  intros m c msg w Hm.
  destruct msg as [g user pres op0|g|req|id req|id label replace s|id|id|id ok|dest|dest give];
    cbv beta iota zeta delta [handle_msg].
  - destruct (c_group (w_cl w c)); cbn [fst]; [apply passiveP_refl|apply passiveP_upd_cl; exact Hm].
  - destruct (in_group g (w_cl w c)); cbn [fst]; [apply passiveP_leave_group; exact Hm|apply passiveP_refl].
  - destruct (c_group (w_cl w c)); cbn [fst]; [|apply passiveP_refl].
    eapply passiveP_trans; [apply passiveP_upd_cl; exact Hm|apply passiveP_enq_all; apply Preq].
  - destruct (get_down id (c_down (w_cl w c))); [|apply passiveP_refl].
    destruct (c_group (w_cl w c)); cbn [fst]; [|apply passiveP_refl].
    eapply passiveP_trans; [apply passiveP_upd_cl; exact Hm|apply passiveP_enq; apply Preq].
  - destruct (Nat.eqb id 0); cbn [fst]; [apply passiveP_refl|].
    destruct (c_present (w_cl w c)); cbn [fst]; [apply passiveP_got_offer; exact Hm|].
    eapply passiveP_trans; [|apply passiveP_send; exact Hm]. eapply passiveP_trans; [|apply passiveP_send; exact Hm].
    destruct (Nat.eqb replace 0); [apply passiveP_refl|apply passiveP_del_up_conn'; exact Hm].
  - destruct (Nat.eqb id 0); cbn [fst]; [apply passiveP_refl|apply passiveP_del_up_conn'; exact Hm].
  - destruct (Nat.eqb id 0); cbn [fst]; [apply passiveP_refl|apply passiveP_close_down_conn; exact Hm].
  - destruct (Nat.eqb id 0); cbn [fst]; [apply passiveP_refl|].
    destruct (get_down id (c_down (w_cl w c))) as [d|]; cbn [fst]; [|apply passiveP_close_down_conn; exact Hm].
    destruct (ok && d_havelocal d); cbn [fst]; [|apply passiveP_close_down_conn; exact Hm].
    destruct (d_neg d); cbn [fst]; [|apply passiveP_upd_cl; exact Hm].
    eapply passiveP_trans; [apply passiveP_upd_cl; exact Hm|apply passiveP_negotiate; exact Hm].
  - destruct (c_group (w_cl w c)); cbn [fst]; [|apply passiveP_send; exact Hm].
    destruct (c_op (w_cl w c) && member_of w _ dest); cbn [fst]; [apply passiveP_enq; apply Pkick|apply passiveP_send; exact Hm].
  - destruct (c_group (w_cl w c)); cbn [fst]; [|apply passiveP_send; exact Hm].
    destruct (c_op (w_cl w c) && member_of w _ dest); cbn [fst]; [apply passiveP_enq; apply Pperm|apply passiveP_send; exact Hm].
Qed.

Lemma passiveP_handle_action : forall m c a w, m <> c -> w_up w = w_up w0 -> passiveP m w (fst (handle_action c a w)).
Proof.
  intros m c a w Hm Hw. destruct a as [g id up ts r|g t id|g give| |]; cbv beta iota zeta delta [handle_action].
  - destruct (in_group g (w_cl w c)); [apply passiveP_push_down_conn; exact Hm|apply passiveP_refl].
  - destruct (in_group g (w_cl w c)); cbn [fst]; [|apply passiveP_refl].
    apply (passiveP_reqconns_fold m g t id). exact Hw.
  - destruct (in_group g (w_cl w c)); cbn [fst]; [|apply passiveP_refl].
    eapply passiveP_trans; [apply passiveP_upd_cl; exact Hm|apply passiveP_enq; apply Pchg].
  - destruct (c_group (w_cl w c)); cbn [fst]; [|apply passiveP_refl].
    destruct (c_present (w_cl w c)); cbn [fst]; [apply passiveP_refl|].
    apply (passiveP_unpresent_fold m c); exact Hm.
  - apply passiveP_refl.
Qed.

Theorem step_passiveP : forall o m, actor o <> Some m -> passiveP m w0 (step w0 o).
Proof.
  intros o m Ha. destruct o as [c msg|c|c|i|u k]; simpl in *.
  - assert (Hm : m <> c) by congruence.
    destruct (Nat.ltb c (w_n w0) && negb (c_dead (w_cl w0 c))); [|apply passiveP_refl].
    apply passiveP_finish; [exact Hm|apply passiveP_handle_msg; exact Hm].
  - assert (Hm : m <> c) by congruence.
    destruct (Nat.ltb c (w_n w0) && negb (c_dead (w_cl w0 c))); [|apply passiveP_refl].
    destruct (c_queue (w_cl w0 c)) as [|a q]; [apply passiveP_refl|].
    apply passiveP_finish; [exact Hm|].
    eapply passiveP_trans; [apply passiveP_upd_cl; exact Hm|apply passiveP_handle_action; [exact Hm|reflexivity]].
  - assert (Hm : m <> c) by congruence.
    destruct (Nat.ltb c (w_n w0) && negb (c_dead (w_cl w0 c))); [apply passiveP_error_close; exact Hm|apply passiveP_refl].
  - destruct (nth_error (w_timers w0) i); [|apply passiveP_refl].
    eapply passiveP_trans; [apply passiveP_set_timers|]. unfold fire_timer.
    destruct (uo_pushed _); [apply passiveP_refl|].
    eapply passiveP_trans; [apply passiveP_upd_up|apply passiveP_enq_all]. apply Psome.
  - destruct (Nat.ltb u (w_nup w0) && negb (uo_closed (w_up w0 u))); [|apply passiveP_refl].
    destruct (c_group (w_cl w0 (uo_owner (w_up w0 u)))); [|apply passiveP_upd_up].
    unfold new_timer. eapply passiveP_trans; [apply passiveP_upd_up|].
    eapply passiveP_trans; [apply passiveP_upd_up|apply passiveP_set_timers].
Qed.

End Fresh.

(* the instance: pushes of live streams carry the current tracks *)
Definition fresh_action (w : world) (a : action) : Prop :=
  match a with
  | APush _ _ (Some v) ts _ => ts = uo_tracks (w_up w v)
  | _ => True
  end.

Theorem step_fresh : forall w o m, actor o <> Some m ->
  core (w_cl (step w o) m) = core (w_cl w m) /\
  exists l, c_queue (w_cl (step w o) m) = c_queue (w_cl w m) ++ l /\ Forall (fresh_action w) l.
Proof.
  intros w o m Ha. apply (step_passiveP (fresh_action w)); simpl; auto.
Qed.

(* C05, part 1: a lookup returns nothing or exactly one stored packet.
   Invariant over every history of cache operations: each slot is either the
   zero entry or the image of one well-formed Store of the history. *)
From Coq Require Import ZArith List Bool Lia.
From Coq Require Import ZifyBool.
From Galene Require Import Lib.Word Lib.Ring Model.Cache.
Import ListNotations.
Open Scope Z_scope.
Ltac Zify.zify_post_hook ::= Z.div_mod_to_equations.

(* caller contract of Cache.Store in galene: 1 <= len(buf) <= BufSize *)
Definition wf_op (o : op) : Prop :=
  match o with
  | OStore s ts kf m buf => 1 <= zlen buf <= BufSize
  | OResize k => 1 <= k
  | OResizeCond k => 1 <= k
  | _ => True
  end.

Definition lam_of (m : bool) (buf : list Z) : Z :=
  if m then Z.lor (w16 (zlen buf)) 32768 else w16 (zlen buf).

Definition entry_of (s ts : Z) (m : bool) (buf : list Z) : entry :=
  mkEntry s (lam_of m buf) ts (firstn (Z.to_nat BufSize) buf).

(* the entry was written by a Store of the history *)
Definition stored_in (H : list op) (e : entry) : Prop :=
  exists s ts kf m buf,
    In (OStore s ts kf m buf) H /\ 1 <= zlen buf <= BufSize /\ e = entry_of s ts m buf.

Definition slot_ok (H : list op) (e : entry) : Prop := e = zero_entry \/ stored_in H e.
Definition Inv (H : list op) (c : cache) : Prop := Forall (slot_ok H) (c_entries c).

Lemma stored_in_mono H H' e : (forall o, In o H -> In o H') -> stored_in H e -> stored_in H' e.
Proof. intros Hs (s & ts & kf & m & buf & Hin & Hl & He). exists s, ts, kf, m, buf. auto. Qed.
Lemma slot_ok_mono H H' e : (forall o, In o H -> In o H') -> slot_ok H e -> slot_ok H' e.
Proof. intros Hs [Hz|Hst]; [left; exact Hz | right; eapply stored_in_mono; eauto]. Qed.
Lemma Inv_mono H H' c : (forall o, In o H -> In o H') -> Inv H c -> Inv H' c.
Proof. unfold Inv. intros Hs Hf. eapply Forall_impl; [|exact Hf]. intros e; apply slot_ok_mono; exact Hs. Qed.

Lemma Forall_set_nth {A} (P : A -> Prop) n x l : P x -> Forall P l -> Forall P (set_nth n x l).
Proof.
  intros Hx Hl. revert n. induction Hl as [|y l Hy Hl IH]; intros n; cbn [set_nth].
  - destruct n; constructor.
  - destruct n; constructor; auto.
Qed.
Lemma Forall_firstn {A} (P : A -> Prop) n l : Forall P l -> Forall P (firstn n l).
Proof. intros H. revert n. induction H; intros [|n]; cbn; constructor; auto. Qed.
Lemma Forall_skipn {A} (P : A -> Prop) n l : Forall P l -> Forall P (skipn n l).
Proof. intros H. revert n. induction H; intros [|n]; cbn; auto. Qed.
Lemma Forall_repeat {A} (P : A -> Prop) x n : P x -> Forall P (repeat x n).
Proof. intros Hx. induction n; cbn; constructor; auto. Qed.

Lemma Inv_new H k : Inv H (new_cache k).
Proof. unfold Inv, new_cache; cbn. apply Forall_repeat. left; reflexivity. Qed.

Lemma store_entries c s ts kf m buf :
  c_entries (snd (store c s ts kf m buf)) =
  set_nth (Z.to_nat (c_tail c)) (entry_of s ts m buf) (c_entries c).
Proof.
  unfold store.
  destruct (negb (c_lastValid c) || seqno_invalid s (c_last c)).
  - destruct kf; reflexivity.
  - destruct (cmp16 (c_last c) s <? 0); [destruct kf; reflexivity|].
    destruct (0 <? cmp16 (c_last c) s); destruct kf; reflexivity.
Qed.

Lemma resize_Inv H c k : Inv H c -> Inv H (resize c k).
Proof.
  unfold Inv, resize. intros Hc.
  destruct (zlen (c_entries c) =? k); [exact Hc|].
  destruct (zlen (c_entries c) <? k); cbn.
  - apply Forall_app; split; [apply Forall_firstn; exact Hc|].
    apply Forall_app; split; [apply Forall_repeat; left; reflexivity|apply Forall_skipn; exact Hc].
  - destruct (c_tail c <? k); cbn.
    + apply Forall_app; split; [apply Forall_firstn|apply Forall_skipn]; exact Hc.
    + apply Forall_firstn, Forall_skipn; exact Hc.
Qed.

Lemma step_Inv H c o : wf_op o -> Inv H c -> Inv (o :: H) (fst (step c o)).
Proof.
  intros Hwf Hc.
  assert (Hc' : Inv (o :: H) c) by (eapply Inv_mono; [|exact Hc]; intros; right; assumption).
  destruct o as [s ts kf m buf|s|s i|k|k| | |n|n|r]; cbn [step].
  - destruct (store c s ts kf m buf) as [[f i] c'] eqn:E. cbn [fst].
    unfold Inv. replace c' with (snd (store c s ts kf m buf)) by (rewrite E; reflexivity).
    rewrite store_entries. apply Forall_set_nth; [|exact Hc'].
    right. exists s, ts, kf, m, buf. split; [left; reflexivity|]. split; [exact Hwf|reflexivity].
  - destruct (get c s); exact Hc'.
  - destruct (get_at c s i); exact Hc'.
  - apply resize_Inv; exact Hc'.
  - unfold resize_cond. destruct (_ && _); [exact Hc'|]. destruct (_ && _); [exact Hc'|].
    cbn [fst]. apply resize_Inv; exact Hc'.
  - destruct (c_lastq c); exact Hc'.
  - destruct (c_keyframeq c); exact Hc'.
  - unfold bitmap_get. destruct (bm_get (c_bitmap c) n) as [[[fd f] b] b']. exact Hc'.
  - unfold expect. destruct (n <=? 0); exact Hc'.
  - unfold get_stats. destruct r; exact Hc'.
Qed.

(* histories: [hist] is newest-first; run_hist folds oldest-first *)
Fixpoint run_hist (c : cache) (ops : list op) : cache :=
  match ops with
  | [] => c
  | o :: ops' => run_hist (fst (step c o)) ops'
  end.

Lemma run_hist_Inv ops : forall H c, Forall wf_op ops -> Inv H c ->
  Inv (rev ops ++ H) (run_hist c ops).
Proof.
  induction ops as [|o ops IH]; intros H c Hwf Hc; cbn [run_hist rev app].
  - exact Hc.
  - inversion Hwf as [|? ? Ho Hops]; subst.
    rewrite <- app_assoc. cbn [app]. apply IH; [exact Hops|]. apply step_Inv; assumption.
Qed.

Lemma reachable_Inv k ops : Forall wf_op ops -> Inv (rev ops) (run_hist (new_cache k) ops).
Proof.
  intros Hwf. rewrite <- (app_nil_r (rev ops)). apply run_hist_Inv; [exact Hwf|apply Inv_new].
Qed.

(* what a stored entry decodes to *)
Lemma lam_of_props m buf : 1 <= zlen buf <= BufSize ->
  lam_of m buf mod 32768 = zlen buf /\ lam_of m buf <> 0 /\
  (32768 <=? lam_of m buf) = m.
Proof.
  unfold lam_of, BufSize, w16. intros Hl.
  rewrite (Z.mod_small (zlen buf) 65536) by lia.
  destruct m.
  - replace 32768 with (2 ^ 15) by reflexivity.
    assert (Hd : Z.lor (zlen buf) (2 ^ 15) = zlen buf + 2 ^ 15)
      by (apply lor_small_pow2; lia).
    rewrite Hd. change (2 ^ 15) with 32768. lia.
  - lia.
Qed.

Lemma firstn_all_Z {A} (l : list A) n : zlen l <= n -> firstn (Z.to_nat n) l = l.
Proof. unfold zlen. intros H. apply firstn_all2. lia. Qed.

Lemma entry_of_decode s ts m buf : 1 <= zlen buf <= BufSize ->
  let e := entry_of s ts m buf in
  e_lam e <> 0 /\ e_seq e = s /\ e_ts e = ts /\ e_length e = zlen buf /\
  e_marker e = m /\ firstn (Z.to_nat (e_length e)) (e_buf e) = buf.
Proof.
  intros Hl e. destruct (lam_of_props m buf Hl) as (H1 & H2 & H3).
  unfold e, entry_of, e_length, e_marker; cbn [e_lam e_seq e_ts e_buf].
  repeat split; auto.
  rewrite H1. rewrite (firstn_all_Z buf BufSize) by lia. apply firstn_all_Z. lia.
Qed.

(* get_entries returns nothing, or decodes one slot that is non-empty and
   carries the requested number *)
Lemma get_entries_spec s es :
  get_entries s es = (0, 0, false, []) \/
  exists e, In e es /\ e_lam e <> 0 /\ e_seq e = s /\
    get_entries s es = (e_length e, e_ts e, e_marker e, firstn (Z.to_nat (e_length e)) (e_buf e)).
Proof.
  induction es as [|e es IH]; cbn [get_entries]; [left; reflexivity|].
  destruct ((e_lam e =? 0) || negb (e_seq e =? s)) eqn:E.
  - destruct IH as [IH|(e' & Hin & H1 & H2 & H3)]; [left; exact IH|].
    right. exists e'. split; [right; exact Hin|auto].
  - right. exists e. split; [left; reflexivity|]. repeat split; lia.
Qed.

(* ---- the statements used by Properties/C05.v ---- *)

Definition stored_packet (H : list op) (s : Z) (buf : list Z) : Prop :=
  exists ts kf m, In (OStore s ts kf m buf) H.

Lemma get_sound H c s n bytes : Inv H c -> get c s = (n, bytes) ->
  (n = 0 /\ bytes = []) \/ (n = zlen bytes /\ 1 <= n <= BufSize /\ stored_packet H s bytes).
Proof.
  unfold get, Inv. intros Hc Hg.
  destruct (get_entries_spec s (c_entries c)) as [Hn|(e & Hin & Hl & Hs & He)].
  - rewrite Hn in Hg. cbn in Hg. inversion Hg; subst. left; auto.
  - rewrite He in Hg. rewrite Forall_forall in Hc. specialize (Hc e Hin).
    destruct Hc as [Hz|(s' & ts & kf & m & buf & Hi & Hwf & Hee)].
    + subst e. cbn in Hl. congruence.
    + destruct (entry_of_decode s' ts m buf Hwf) as (_ & D2 & _ & D4 & _ & D6).
      rewrite <- Hee in D2, D4, D6. rewrite D6, D4 in Hg.
      replace (0 <? zlen buf) with true in Hg by lia. inversion Hg; subst.
      right. split; [reflexivity|]. split; [lia|]. exists ts, kf, m. exact Hi.
Qed.

Lemma get_at_sound H c s i n bytes : Inv H c -> get_at c s i = (n, bytes) ->
  (n = 0 /\ bytes = []) \/ (n = zlen bytes /\ 1 <= n <= BufSize /\ stored_packet H s bytes).
Proof.
  unfold get_at, Inv. intros Hc Hg.
  destruct (zlen (c_entries c) <=? i) eqn:Ei; [inversion Hg; left; auto|].
  set (e := nth (Z.to_nat i) (c_entries c) zero_entry) in *.
  destruct (negb (e_seq e =? s)) eqn:Es; [inversion Hg; left; auto|].
  assert (Hin : slot_ok H e).
  { destruct (nth_in_or_default (Z.to_nat i) (c_entries c) zero_entry) as [Hi|Hd].
    - rewrite Forall_forall in Hc. apply Hc. exact Hi.
    - left. exact Hd. }
  destruct Hin as [Hz|(s' & ts & kf & m & buf & Hi & Hwf & Hee)].
  - rewrite Hz in Hg. cbn in Hg. inversion Hg. left; auto.
  - destruct (entry_of_decode s' ts m buf Hwf) as (_ & D2 & _ & D4 & _ & D6).
    rewrite <- Hee in D2, D4, D6. rewrite D6, D4 in Hg. inversion Hg; subst.
    right. split; [reflexivity|]. split; [lia|]. exists ts, kf, m.
    replace s with (e_seq e) by lia. exact Hi.
Qed.

(* the timestamp and marker that accompany a lookup belong to the same
   stored packet as the bytes (no mixture) *)
Lemma get_entries_sound H c s n ts mk bytes : Inv H c ->
  get_entries s (c_entries c) = (n, ts, mk, bytes) ->
  n = 0 \/ exists kf, In (OStore s ts kf mk bytes) H /\ n = zlen bytes.
Proof.
  unfold Inv. intros Hc Hg.
  destruct (get_entries_spec s (c_entries c)) as [Hn|(e & Hin & Hl & Hs & He)].
  - rewrite Hn in Hg. inversion Hg. left; reflexivity.
  - rewrite He in Hg. rewrite Forall_forall in Hc. specialize (Hc e Hin).
    destruct Hc as [Hz|(s' & ts' & kf & m & buf & Hi & Hwf & Hee)].
    + subst e. cbn in Hl. congruence.
    + destruct (entry_of_decode s' ts' m buf Hwf) as (_ & D2 & D3 & D4 & D5 & D6).
      rewrite <- Hee in D2, D3, D4, D5, D6. rewrite D6, D3, D4, D5 in Hg.
      inversion Hg; subst. right. exists kf. split; [|reflexivity].
      rewrite <- D2. exact Hi.
Qed.

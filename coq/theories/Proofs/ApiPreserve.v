(* C17: updates through the API never remove or alter stored users,
   passwords or keys that they do not address -- for all sequences of
   updates, and tied to the handlers by [dispatch_step]. *)
From Coq Require Import List String Bool ZArith.
From Galene Require Import Model.Api.
Import ListNotations.
Open Scope string_scope.

(* ------------------------------------------------------------------ *)
(* association lists                                                    *)

Lemma assoc_get_del : forall A (l : list (string * A)) k k',
  assoc_get (assoc_del l k) k' = if String.eqb k' k then None else assoc_get l k'.
Proof.
  induction l as [|[k0 v] l IH]; intros k k'; cbn.
  - destruct (String.eqb k' k); reflexivity.
  - destruct (String.eqb k k0) eqn:E.
    + apply String.eqb_eq in E. subst k0. rewrite IH.
      destruct (String.eqb k' k); reflexivity.
    + cbn. rewrite IH. destruct (String.eqb k' k0) eqn:E2; [|reflexivity].
      apply String.eqb_eq in E2. subst k0.
      rewrite String.eqb_sym in E. rewrite E. reflexivity.
Qed.

Lemma assoc_get_set : forall A (l : list (string * A)) k v k',
  assoc_get (assoc_set l k v) k' = if String.eqb k' k then Some v else assoc_get l k'.
Proof.
  intros. unfold assoc_set. cbn. rewrite assoc_get_del.
  destruct (String.eqb k' k); reflexivity.
Qed.

(* ------------------------------------------------------------------ *)
(* what an update addresses                                             *)

Definition addresses_user (x : upd) (name : string) : bool :=
  match x with
  | UUser u false _ | UPassword u false _ | UDelUser u false => String.eqb name u
  | _ => false
  end.

Definition addresses_wildcard (x : upd) : bool :=
  match x with
  | UUser _ true _ | UPassword _ true _ | UDelUser _ true => true
  | _ => false
  end.

Definition addresses_keys (x : upd) : bool :=
  match x with UKeys _ => true | _ => false end.

Definition addresses_description (x : upd) : bool :=
  match x with UDesc _ => true | _ => false end.

(* requests that are meant to change or remove the password of a named user *)
Definition changes_password_of (x : upd) (name : string) : bool :=
  match x with
  | UPassword u false _ | UDelUser u false => String.eqb name u
  | _ => false
  end.

Definition changes_wildcard_password (x : upd) : bool :=
  match x with
  | UPassword _ true _ | UDelUser _ true => true
  | _ => false
  end.

Definition user_password (d : description) (name : string) : option password :=
  option_map u_password (assoc_get (d_users d) name).
Definition wildcard_password (d : description) : option password :=
  option_map u_password (d_wildcard d).

(* ------------------------------------------------------------------ *)
(* one update                                                           *)

Ltac unfold_upd :=
  unfold apply_upd, update_description, update_user, set_password, delete_user, set_keys,
    put_user, find_user in *.

Lemma step_users : forall d x d' name,
  apply_upd d x = Some d' -> addresses_user x name = false ->
  assoc_get (d_users d') name = assoc_get (d_users d) name.
Proof.
  intros d x d' name Ha Hn. destruct x as [b|u w v|u w p|ks|u w]; unfold_upd.
  - destruct (db_users b || db_wildcard b || db_keys b); inversion Ha; reflexivity.
  - destruct (negb (password_is_empty (u_password v))); [discriminate|].
    destruct w; inversion Ha; cbn [d_users]; [reflexivity|].
    rewrite assoc_get_set. cbn in Hn. rewrite Hn. reflexivity.
  - destruct w.
    + destruct (d_wildcard d); inversion Ha; reflexivity.
    + destruct (assoc_get (d_users d) u); inversion Ha; cbn [d_users].
      rewrite assoc_get_set. cbn in Hn. rewrite Hn. reflexivity.
  - inversion Ha; reflexivity.
  - destruct w.
    + destruct (d_wildcard d); inversion Ha; reflexivity.
    + destruct (assoc_get (d_users d) u); inversion Ha; cbn [d_users].
      rewrite assoc_get_del. cbn in Hn. rewrite Hn. reflexivity.
Qed.

Lemma step_wildcard : forall d x d',
  apply_upd d x = Some d' -> addresses_wildcard x = false -> d_wildcard d' = d_wildcard d.
Proof.
  intros d x d' Ha Hn. destruct x as [b|u w v|u w p|ks|u w]; unfold_upd.
  - destruct (db_users b || db_wildcard b || db_keys b); inversion Ha; reflexivity.
  - destruct (negb (password_is_empty (u_password v))); [discriminate|].
    destruct w; [discriminate|]. inversion Ha; reflexivity.
  - destruct w; [discriminate|].
    destruct (assoc_get (d_users d) u); inversion Ha; reflexivity.
  - inversion Ha; reflexivity.
  - destruct w; [discriminate|].
    destruct (assoc_get (d_users d) u); inversion Ha; reflexivity.
Qed.

Lemma step_keys : forall d x d',
  apply_upd d x = Some d' -> addresses_keys x = false -> d_keys d' = d_keys d.
Proof.
  intros d x d' Ha Hn. destruct x as [b|u w v|u w p|ks|u w]; unfold_upd.
  - destruct (db_users b || db_wildcard b || db_keys b); inversion Ha; reflexivity.
  - destruct (negb (password_is_empty (u_password v))); [discriminate|].
    destruct w; inversion Ha; reflexivity.
  - destruct w.
    + destruct (d_wildcard d); inversion Ha; reflexivity.
    + destruct (assoc_get (d_users d) u); inversion Ha; reflexivity.
  - discriminate.
  - destruct w.
    + destruct (d_wildcard d); inversion Ha; reflexivity.
    + destruct (assoc_get (d_users d) u); inversion Ha; reflexivity.
Qed.

Lemma step_pub : forall d x d',
  apply_upd d x = Some d' -> addresses_description x = false -> d_pub d' = d_pub d.
Proof.
  intros d x d' Ha Hn. destruct x as [b|u w v|u w p|ks|u w]; unfold_upd.
  - discriminate.
  - destruct (negb (password_is_empty (u_password v))); [discriminate|].
    destruct w; inversion Ha; reflexivity.
  - destruct w.
    + destruct (d_wildcard d); inversion Ha; reflexivity.
    + destruct (assoc_get (d_users d) u); inversion Ha; reflexivity.
  - inversion Ha; reflexivity.
  - destruct w.
    + destruct (d_wildcard d); inversion Ha; reflexivity.
    + destruct (assoc_get (d_users d) u); inversion Ha; reflexivity.
Qed.

(* replacing a user definition (PUT .users/u) keeps the stored password *)
Lemma step_password : forall d x d' name pw,
  apply_upd d x = Some d' -> changes_password_of x name = false ->
  user_password d name = Some pw -> user_password d' name = Some pw.
Proof.
  intros d x d' name pw Ha Hn Hp. unfold user_password in *.
  destruct x as [b|u w v|u w p|ks|u w];
    try (rewrite (step_users _ _ _ name Ha); [exact Hp | reflexivity]).
  - (* UUser *)
    destruct w; [rewrite (step_users _ _ _ name Ha); [exact Hp | reflexivity]|].
    unfold_upd.
    destruct (negb (password_is_empty (u_password v))); [discriminate|].
    inversion Ha; subst d'; clear Ha. cbn [d_users]. rewrite assoc_get_set.
    destruct (String.eqb name u) eqn:E; [|exact Hp].
    apply String.eqb_eq in E. subst u.
    destruct (assoc_get (d_users d) name); [|discriminate]. cbn in *. exact Hp.
  - destruct w; [rewrite (step_users _ _ _ name Ha); [exact Hp | reflexivity]|].
    rewrite (step_users _ _ _ name Ha); [exact Hp | exact Hn].
  - destruct w; [rewrite (step_users _ _ _ name Ha); [exact Hp | reflexivity]|].
    rewrite (step_users _ _ _ name Ha); [exact Hp | exact Hn].
Qed.

Lemma step_wildcard_password : forall d x d' pw,
  apply_upd d x = Some d' -> changes_wildcard_password x = false ->
  wildcard_password d = Some pw -> wildcard_password d' = Some pw.
Proof.
  intros d x d' pw Ha Hn Hp. unfold wildcard_password in *.
  destruct x as [b|u w v|u w p|ks|u w];
    try (rewrite (step_wildcard _ _ _ Ha); [exact Hp | reflexivity]).
  - destruct w; [|rewrite (step_wildcard _ _ _ Ha); [exact Hp | reflexivity]].
    unfold_upd.
    destruct (negb (password_is_empty (u_password v))); [discriminate|].
    inversion Ha; subst d'; clear Ha. cbn.
    destruct (d_wildcard d); [|discriminate]. exact Hp.
  - destruct w; [discriminate|]. rewrite (step_wildcard _ _ _ Ha); [exact Hp | reflexivity].
  - destruct w; [discriminate|]. rewrite (step_wildcard _ _ _ Ha); [exact Hp | reflexivity].
Qed.

(* ------------------------------------------------------------------ *)
(* all sequences                                                        *)

Definition never (P : upd -> bool) (l : list upd) : Prop := forall x, In x l -> P x = false.

Lemma never_cons : forall P x l, never P (x :: l) -> P x = false /\ never P l.
Proof. intros P x l Hn. split; [apply Hn; left; reflexivity | intros y Hy; apply Hn; right; exact Hy]. Qed.

Lemma run_invariant : forall (P : upd -> bool) (Q : description -> Prop),
  (forall d x d', apply_upd d x = Some d' -> P x = false -> Q d -> Q d') ->
  forall l d, never P l -> Q d -> Q (run_upds d l).
Proof.
  intros P Q Hstep. induction l as [|x l IH]; intros d Hn Hq; cbn; [exact Hq|].
  apply never_cons in Hn. destruct Hn as [Hx Hl].
  apply IH; [exact Hl|].
  destruct (apply_upd d x) as [d'|] eqn:Ea; [|exact Hq].
  exact (Hstep d x d' Ea Hx Hq).
Qed.

Lemma preserve_users : forall l d name,
  never (fun x => addresses_user x name) l ->
  assoc_get (d_users (run_upds d l)) name = assoc_get (d_users d) name.
Proof.
  intros l d name Hn.
  apply (run_invariant (fun x => addresses_user x name)
           (fun d' => assoc_get (d_users d') name = assoc_get (d_users d) name)); auto.
  intros d0 x d' Ha Hx Hq. rewrite (step_users d0 x d' name Ha Hx). exact Hq.
Qed.

Lemma preserve_wildcard : forall l d,
  never addresses_wildcard l -> d_wildcard (run_upds d l) = d_wildcard d.
Proof.
  intros l d Hn.
  apply (run_invariant addresses_wildcard (fun d' => d_wildcard d' = d_wildcard d)); auto.
  intros d0 x d' Ha Hx Hq. rewrite (step_wildcard d0 x d' Ha Hx). exact Hq.
Qed.

Lemma preserve_keys : forall l d,
  never addresses_keys l -> d_keys (run_upds d l) = d_keys d.
Proof.
  intros l d Hn.
  apply (run_invariant addresses_keys (fun d' => d_keys d' = d_keys d)); auto.
  intros d0 x d' Ha Hx Hq. rewrite (step_keys d0 x d' Ha Hx). exact Hq.
Qed.

Lemma preserve_pub : forall l d,
  never addresses_description l -> d_pub (run_upds d l) = d_pub d.
Proof.
  intros l d Hn.
  apply (run_invariant addresses_description (fun d' => d_pub d' = d_pub d)); auto.
  intros d0 x d' Ha Hx Hq. rewrite (step_pub d0 x d' Ha Hx). exact Hq.
Qed.

Lemma preserve_password : forall l d name pw,
  never (fun x => changes_password_of x name) l ->
  user_password d name = Some pw -> user_password (run_upds d l) name = Some pw.
Proof.
  intros l d name pw Hn Hp.
  apply (run_invariant (fun x => changes_password_of x name)
           (fun d' => user_password d' name = Some pw)); auto.
  intros d0 x d' Ha Hx Hq. exact (step_password d0 x d' name pw Ha Hx Hq).
Qed.

Lemma preserve_wildcard_password : forall l d pw,
  never changes_wildcard_password l ->
  wildcard_password d = Some pw -> wildcard_password (run_upds d l) = Some pw.
Proof.
  intros l d pw Hn Hp.
  apply (run_invariant changes_wildcard_password (fun d' => wildcard_password d' = Some pw)); auto.
  intros d0 x d' Ha Hx Hq. exact (step_wildcard_password d0 x d' pw Ha Hx Hq).
Qed.

(* ------------------------------------------------------------------ *)
(* the handlers change the stored groups only through these updates     *)

Definition target (s : shape) : option string :=
  match s with
  | SGroup g | SUser g _ _ | SPassword g _ _ | SKeys g => Some g
  | _ => None
  end.

Inductive group_change (e : env) (g : string) : list (string * description) -> Prop :=
| gc_same : group_change e g (e_groups e)
| gc_delete : group_change e g (assoc_del (e_groups e) (clean_name g))
| gc_create : forall nb d', e_writable e = true -> e_store_ok e = true ->
    file_lookup e g = None -> update_description None nb = Some d' ->
    group_change e g (assoc_set (e_groups e) (clean_name g) d')
| gc_update : forall d x d', e_writable e = true -> e_store_ok e = true ->
    file_lookup e g = Some d -> apply_upd d x = Some d' ->
    group_change e g (assoc_set (e_groups e) (clean_name g) d').

Section WithHash.
Variable H : string -> string -> string.

Lemma rewrite_file_change : forall e g d' r,
  (e_writable e = true -> e_store_ok e = true ->
   group_change e g (assoc_set (e_groups e) (clean_name g) d')) ->
  e_conf (fst (rewrite_file e g d' r)) = e_conf e /\
  e_writable (fst (rewrite_file e g d' r)) = e_writable e /\
  group_change e g (e_groups (fst (rewrite_file e g d' r))).
Proof.
  intros e g d' r Hc. unfold rewrite_file.
  destruct (e_writable e) eqn:Ew; [destruct (e_store_ok e) eqn:Es|];
    cbn [fst set_groups e_conf e_writable e_groups].
  - repeat split; auto.
  - repeat split; auto. apply gc_same.
  - repeat split; auto. apply gc_same.
Qed.

Ltac split_ifs :=
  repeat match goal with
         | |- context [if ?x then _ else _] => destruct x eqn:?
         | |- context [match ?x with _ => _ end] => destruct x eqn:?
         end.

Ltac same := cbn; repeat split; try reflexivity; apply gc_same.

Lemma do_set_password_change : forall e g u w pw,
  e_conf (fst (do_set_password e g u w pw)) = e_conf e /\
  e_writable (fst (do_set_password e g u w pw)) = e_writable e /\
  group_change e g (e_groups (fst (do_set_password e g u w pw))).
Proof.
  intros. unfold do_set_password.
  destruct (file_lookup e g) as [d|] eqn:Ef; [|same].
  destruct (set_password d u w pw) as [d'|] eqn:Es; [|same].
  apply rewrite_file_change. intros Hwr Hst. eapply gc_update with (x := UPassword u w pw); eauto.
Qed.

Lemma dispatch_step : forall e s m c b,
  let e' := fst (dispatch H e s m c b) in
  e_conf e' = e_conf e /\ e_writable e' = e_writable e /\
  match target s with
  | Some g => group_change e g (e_groups e')
  | None => e_groups e' = e_groups e
  end.
Proof.
  intros e s m c b. cbv zeta.
  destruct s; cbn [dispatch target].
  - cbn; auto.
  - unfold stats_handler. split_ifs; cbn; auto.
  - unfold group_list_handler. split_ifs; cbn; auto.
  - (* SGroup *)
    unfold group_handler.
    destruct (api_cors m); [same|]. destruct (negb (is_admin H e g c)); [same|].
    destruct (is_get m); [split_ifs; same|].
    destruct (String.eqb m "PUT").
    { destruct (json_body b) as [r|p]; [same|].
      destruct p; try same.
      destruct (update_description (file_lookup e g) b0) as [d|] eqn:Eu; [|same].
      apply rewrite_file_change. intros Hwr Hst.
      destruct (file_lookup e g) as [o|] eqn:Ef.
      - eapply gc_update with (x := UDesc b0); eauto.
      - eapply gc_create; eauto. }
    destruct (String.eqb m "DELETE"); [|same].
    destruct (file_lookup e g); [|same].
    cbn. repeat split; try reflexivity. apply gc_delete.
  - unfold user_list_handler. split_ifs; cbn; auto.
  - (* SUser *)
    unfold user_handler.
    destruct (api_cors m); [same|]. destruct (negb (is_admin H e g c)); [same|].
    destruct (is_get m); [split_ifs; same|].
    destruct (String.eqb m "PUT").
    { destruct (json_body b) as [r|p]; [same|].
      destruct p; try same.
      destruct (negb (password_is_empty (u_password u0))); [same|].
      destruct (file_lookup e g) as [d|] eqn:Ef; [|same].
      destruct (update_user d u wild u0) as [d'|] eqn:Eu; [|same].
      apply rewrite_file_change. intros Hwr Hst. eapply gc_update with (x := UUser u wild u0); eauto. }
    destruct (String.eqb m "DELETE"); [|same].
    destruct (get_sanitised_user e g u wild); [|same].
    destruct (file_lookup e g) as [d|] eqn:Ef; [|same].
    destruct (delete_user d u wild) as [d'|] eqn:Eu; [|same].
    apply rewrite_file_change. intros Hwr Hst. eapply gc_update with (x := UDelUser u wild); eauto.
  - (* SPassword *)
    unfold password_handler.
    destruct (api_cors m); [same|].
    destruct (negb (if wild then is_admin H e g c else is_admin_or_explicit H e g u c)); [same|].
    destruct (String.eqb m "PUT").
    { destruct (json_body b) as [r|p]; [same|].
      destruct p; try same. apply do_set_password_change. }
    destruct (String.eqb m "POST").
    { destruct (bi_ctype b); try same.
      destruct (bi_payload b); try same. apply do_set_password_change. }
    destruct (String.eqb m "DELETE"); [|same]. apply do_set_password_change.
  - (* SKeys *)
    unfold keys_handler.
    destruct (api_cors m); [same|]. destruct (negb (is_admin H e g c)); [same|].
    destruct (String.eqb m "PUT").
    { destruct (bi_ctype b); try same.
      destruct (bi_payload b); try same.
      destruct (negb valid); [same|].
      destruct (file_lookup e g) as [d|] eqn:Ef; [|same].
      apply rewrite_file_change. intros Hwr Hst.
      eapply gc_update with (x := UKeys (match ks with Some l => l | None => [] end)); eauto. }
    destruct (String.eqb m "DELETE"); [|same].
    destruct (file_lookup e g) as [d|] eqn:Ef; [|same].
    apply rewrite_file_change. intros Hwr Hst. eapply gc_update with (x := UKeys []); eauto.
  - unfold tokens_handler. split_ifs; cbn; auto.
  - unfold tokens_handler. split_ifs; cbn; auto.
  - unfold auth_not_found_handler. split_ifs; cbn; auto.
Qed.

(* the store step fails (the temporary file cannot be created, written or
   synced, or the rename fails): no group file is altered; the only change a
   request can still make is the deletion of the addressed group, which
   writes nothing *)
Lemma store_failure : forall e s m c b,
  e_store_ok e = false ->
  let e' := fst (dispatch H e s m c b) in
  e_groups e' = e_groups e \/
  exists g, target s = Some g /\ e_groups e' = assoc_del (e_groups e) (clean_name g).
Proof.
  intros e s m c b Hf. cbv zeta.
  destruct (dispatch_step e s m c b) as (_ & _ & K).
  destruct (target s) as [g|]; [|left; exact K].
  inversion K as [E | E | nb d' Hw Hs | d x d' Hw Hs].
  - left. reflexivity.
  - right. exists g. split; reflexivity.
  - congruence.
  - congruence.
Qed.

(* and it is answered with an error *)
Lemma rewrite_file_fails : forall e g d r,
  e_writable e = true -> e_store_ok e = false -> rewrite_file e g d r = (e, r500).
Proof. intros e g d r Hw Hs. unfold rewrite_file. rewrite Hw, Hs. reflexivity. Qed.

End WithHash.

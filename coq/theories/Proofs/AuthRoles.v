(* C08: what the proofs need of the GENERATED role table and of the shape of
   Permissions.Permissions (Generated/Roles.v, re-extracted from /repo on
   every run).  If the table or the conditional additions change in the
   source, a lemma of this file stops checking. *)
From Coq Require Import ZArith List Bool String.
From Galene Require Import Generated.Roles Model.Auth.
Import ListNotations.
Close Scope Z_scope.
Open Scope string_scope.

(* The role table, written by hand (sorted by role name, as the translator
   emits it). *)
Definition spec_roles : list (string * list string) :=
  [("admin", ["admin"]);
   ("caption", ["caption"]);
   ("message", ["message"]);
   ("observe", []);
   ("op", ["op"; "present"; "message"; "caption"; "token"]);
   ("present", ["present"; "message"])].

Lemma roles_ok : roles = spec_roles.
Proof. reflexivity. Qed.

(* Permissions.Permissions has exactly the statements that Model.Auth.permissions
   transcribes: the early return of the raw list, the table lookup, four
   flags set by the loop, two conditional additions, the return. *)
Lemma permissions_shape_ok :
  permissions_shape =
  ["raw_return"; "lookup"; "flag:op"; "flag:present"; "flag:token"; "flag:record";
   "flagloop"; "rule"; "rule"; "return_perms"].
Proof. reflexivity. Qed.

Lemma permissions_flags_ok :
  permissions_flags =
  [("op", "op"); ("present", "present"); ("token", "token"); ("record", "record")].
Proof. reflexivity. Qed.

(* "record" is prepended under AllowRecording when op && !record;
   "token" under UnrestrictedTokens when present && !token *)
Lemma permissions_rules_ok :
  permissions_rules =
  [("AllowRecording", "record", ["op"], ["record"]);
   ("UnrestrictedTokens", "token", ["present"], ["token"])].
Proof. reflexivity. Qed.

Lemma generated_ok :
  roles = spec_roles /\
  permissions_rules = [("AllowRecording", "record", ["op"], ["record"]);
                       ("UnrestrictedTokens", "token", ["present"], ["token"])] /\
  permissions_flags = [("op", "op"); ("present", "present"); ("token", "token"); ("record", "record")] /\
  permissions_shape = ["raw_return"; "lookup"; "flag:op"; "flag:present"; "flag:token"; "flag:record";
                       "flagloop"; "rule"; "rule"; "return_perms"].
Proof.
  exact (conj roles_ok (conj permissions_rules_ok (conj permissions_flags_ok permissions_shape_ok))).
Qed.

(* The expansion of a role, written by hand from the property text: the
   role's permissions, "record" for operators of groups that allow recording,
   "token" for presenters of unrestricted-token groups (operators have it by
   role). *)
Definition spec_permissions (r : string) (ar ut : bool) : list string :=
  if r =? "op" then
    (if ar then ["record"] else []) ++ ["op"; "present"; "message"; "caption"; "token"]
  else if r =? "present" then
    (if ut then ["token"] else []) ++ ["present"; "message"]
  else if r =? "message" then ["message"]
  else if r =? "caption" then ["caption"]
  else if r =? "admin" then ["admin"]
  else [].                                             (* observe *)

Lemma permissions_named_spec : forall us w ar ut r l,
  r <> "" ->
  permissions (Some (mkDesc us w ar ut)) (mkPerms r l) = spec_permissions r ar ut.
Proof.
  intros us w ar ut r l Hr.
  unfold permissions, spec_permissions, role_perms.
  cbn [ps_name ps_perms d_allowRecording d_unrestrictedTokens].
  rewrite roles_ok.
  destruct (String.eqb_spec r "") as [->|_]; [congruence|].
  unfold spec_roles, assoc.
  destruct (String.eqb_spec r "admin") as [->|_]; [destruct ar, ut; reflexivity|].
  destruct (String.eqb_spec r "caption") as [->|_]; [destruct ar, ut; reflexivity|].
  destruct (String.eqb_spec r "message") as [->|_]; [destruct ar, ut; reflexivity|].
  destruct (String.eqb_spec r "observe") as [->|_]; [destruct ar, ut; reflexivity|].
  destruct (String.eqb_spec r "op") as [->|_]; [destruct ar, ut; reflexivity|].
  destruct (String.eqb_spec r "present") as [->|_]; [destruct ar, ut; reflexivity|].
  destruct ar, ut; reflexivity.
Qed.

Lemma has_In : forall v l, has v l = true <-> In v l.
Proof.
  intros v l. unfold has. rewrite existsb_exists. split.
  - intros (x & Hx & He). apply String.eqb_eq in He. subst. exact Hx.
  - intros H. exists v. split; [exact H|apply String.eqb_refl].
Qed.

(* The property's reading of the expansion, for every role name: who is an
   operator / presenter is decided by the role; "record" exactly for
   operators of groups that allow recording; "token" exactly for operators
   and, in unrestricted-token groups, presenters; nothing else is added;
   nothing is granted twice. *)
Lemma spec_permissions_reading : forall r ar ut,
  let p := spec_permissions r ar ut in
  let operator := In "op" p in
  let presenter := In "present" p in
  (operator <-> r = "op") /\
  (presenter <-> r = "op" \/ r = "present") /\
  (In "record" p <-> operator /\ ar = true) /\
  (In "token" p <-> operator \/ (presenter /\ ut = true)) /\
  (forall x, x <> "record" -> x <> "token" -> (In x p <-> In x (spec_permissions r false false))) /\
  NoDup p.
Proof.
  intros r ar ut. cbv zeta. unfold spec_permissions.
  destruct (String.eqb_spec r "op") as [->|N1].
  { destruct ar, ut; cbn; repeat split; intros;
      repeat match goal with
             | H : _ \/ _ |- _ => destruct H
             | H : _ /\ _ |- _ => destruct H
             | H : False |- _ => destruct H
             end; try congruence; try discriminate; auto 12;
      try (repeat constructor; cbn; intuition discriminate). }
  destruct (String.eqb_spec r "present") as [->|N2].
  { destruct ar, ut; cbn; repeat split; intros;
      repeat match goal with
             | H : _ \/ _ |- _ => destruct H
             | H : _ /\ _ |- _ => destruct H
             | H : False |- _ => destruct H
             end; try congruence; try discriminate; auto 12;
      try (repeat constructor; cbn; intuition discriminate). }
  destruct (String.eqb_spec r "message") as [->|N3];
    [|destruct (String.eqb_spec r "caption") as [->|N4];
      [|destruct (String.eqb_spec r "admin") as [->|N5]]];
    cbn; repeat split; intros;
      repeat match goal with
             | H : _ \/ _ |- _ => destruct H
             | H : _ /\ _ |- _ => destruct H
             | H : False |- _ => destruct H
             end; try congruence; try discriminate; auto 12;
      try (repeat constructor; cbn; intuition discriminate).
Qed.

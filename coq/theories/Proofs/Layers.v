(* C04: layer selection.  Invariant of the layer word over all interleaved
   event lists (atomic-event semantics), legality of every switch, the low
   quality steering, and the bounds of the loss-based bitrate ceiling. *)
From Coq Require Import ZArith List Bool Lia.
From Coq Require Import ZifyBool.
From Galene Require Import Lib.Word Generated.Consts Model.Layers.
Import ListNotations.
Open Scope Z_scope.
Ltac Zify.zify_post_hook ::= Z.div_mod_to_equations.

Inductive event :=
| EWrite (f : flags) (rate8 max : Z)
| EAdjust (rate8 max : Z)
| ELimit (b : bool).

Definition lstep (l : layer) (e : event) : layer :=
  match e with
  | EWrite f r m => fst (fst (write_layer l f r m))
  | EAdjust r m => adjust l r m
  | ELimit b => set_limit l b
  end.

(* tid and sid come from 2- and 3-bit codec fields *)
Definition wf_event (e : event) : Prop :=
  match e with
  | EWrite f _ _ => 0 <= f_tid f < 16 /\ 0 <= f_sid f < 16
  | _ => True
  end.

Definition LInv (l : layer) : Prop :=
  0 <= sid l <= maxSid l /\ maxSid l < 16 /\ 0 <= wantedSid l <= maxSid l /\
  0 <= tid l <= maxTid l /\ maxTid l < 16 /\ 0 <= wantedTid l <= maxTid l /\
  (limitSid l = true -> wantedSid l = 0).

Lemma pack_unpack l : LInv l -> unpack (pack l) = l.
Proof.
  intros (H1 & H2 & H3 & H4 & H5 & H6 & _). destruct l as [s ws ms t wt mt lim].
  cbn [sid wantedSid maxSid tid wantedTid maxTid limitSid] in *.
  unfold unpack, pack. cbn [sid wantedSid maxSid tid wantedTid maxTid limitSid].
  rewrite (Z.mod_small s 16), (Z.mod_small ws 16), (Z.mod_small ms 16),
    (Z.mod_small t 16), (Z.mod_small wt 16), (Z.mod_small mt 16) by lia.
  destruct lim; f_equal; try lia.
  - replace ((s + ws * 16 + ms * 256 + 4096 + t * 65536 + wt * 1048576 + mt * 16777216) / 4096)
      with (1 + 2 * (8 * t + 128 * wt + 2048 * mt)) by lia.
    rewrite Z.odd_add_mul_2. reflexivity.
  - replace ((s + ws * 16 + ms * 256 + 0 + t * 65536 + wt * 1048576 + mt * 16777216) / 4096)
      with (0 + 2 * (8 * t + 128 * wt + 2048 * mt)) by lia.
    rewrite Z.odd_add_mul_2. reflexivity.
Qed.

Ltac linv :=
  unfold LInv; cbn [sid wantedSid maxSid tid wantedTid maxTid limitSid];
  repeat split; auto; try lia; try discriminate; try (intros; lia); try (intros; congruence).

Lemma adjust_LInv l r m : LInv l -> LInv (adjust l r m).
Proof.
  intros (H1 & H2 & H3 & H4 & H5 & H6 & H7). unfold adjust.
  destruct (limitSid l) eqn:EL.
  - specialize (H7 eq_refl). cbn [andb negb].
    destruct (r <? w64 (m * 7) / 8).
    + destruct (negb (wantedSid l =? 0)) eqn:E1; [linv|].
      destruct (tid l <? maxTid l) eqn:E3; linv.
    + destruct (w64 (m * 3) / 2 <? r); [|linv].
      destruct (0 <? tid l) eqn:E1; [linv|]. destruct (0 <? sid l) eqn:E2; linv.
  - cbn [andb negb].
    destruct (r <? w64 (m * 7) / 8).
    + destruct (sid l <? maxSid l) eqn:E2; [linv|].
      destruct (tid l <? maxTid l) eqn:E3; linv.
    + destruct (w64 (m * 3) / 2 <? r); [|linv].
      destruct (0 <? tid l) eqn:E1; [linv|]. destruct (0 <? sid l) eqn:E2; linv.
Qed.

Lemma adjust_keeps_current l r m : sid (adjust l r m) = sid l /\ tid (adjust l r m) = tid l /\
  maxSid (adjust l r m) = maxSid l /\ maxTid (adjust l r m) = maxTid l /\
  limitSid (adjust l r m) = limitSid l.
Proof.
  unfold adjust.
  destruct (r <? _); [destruct (_ && _); [cbn; auto|]; destruct (_ && _); [cbn; auto|]; destruct (_ <? _); cbn; auto|].
  destruct (_ <? r); [|auto]. destruct (0 <? tid l); [cbn; auto|]. destruct (0 <? sid l); cbn; auto.
Qed.

Lemma set_limit_LInv l b : LInv l -> LInv (set_limit l b).
Proof.
  intros (H1 & H2 & H3 & H4 & H5 & H6 & H7). unfold set_limit.
  destruct b; linv.
Qed.

(* the first block of Write: new top layers *)
Definition eager_t (l : layer) (f : flags) : Prop := maxTid l < f_tid f /\ tid l = maxTid l.
Definition eager_s (l : layer) (f : flags) : Prop :=
  maxSid l < f_sid f /\ sid l = maxSid l /\ limitSid l = false.

Ltac break_ifs :=
  repeat match goal with
         | |- context [if ?c then _ else _] => let E := fresh "E" in destruct c eqn:E
         end.

Lemma write_layer_spec l f r m : LInv l -> 0 <= f_tid f < 16 -> 0 <= f_sid f < 16 ->
  let '(l', drop, kf) := write_layer l f r m in
  LInv l' /\
  (* spatial layer: only at the first packet of a keyframe, or eagerly *)
  (sid l' <> sid l -> (f_start f = true /\ f_keyframe f = true) \/ eager_s l f) /\
  (* temporal layer falls only at the start of a frame *)
  (tid l' < tid l -> f_start f = true) /\
  (* and rises only at a keyframe, at an up-switch point not above the wanted
     layer, or eagerly *)
  (tid l < tid l' -> eager_t l f \/
      (f_start f = true /\ (f_keyframe f = true \/
                            (f_tidUpSync f = true /\ tid l' = f_tid f /\ f_tid f <= wantedTid l')))) /\
  (* the highest layers seen only grow *)
  (maxSid l <= maxSid l' /\ maxTid l <= maxTid l') /\
  (* the request to steer to the lowest spatial layer is kept *)
  limitSid l' = limitSid l /\
  (* what is withheld *)
  drop = ((tid l' <? f_tid f) || (sid l' <? f_sid f) || ((f_sid f <? sid l') && f_sidNonReference f)).
Proof.
  intros HI Ht Hs.
  destruct HI as (H1 & H2 & H3 & H4 & H5 & H6 & H7).
  unfold write_layer.
  (* first block *)
  set (la := if maxTid l <? f_tid f then _ else l).
  set (lb := if maxSid la <? f_sid f then _ else la).
  assert (Hla : LInv la /\ sid la = sid l /\ wantedSid la = wantedSid l /\ maxSid la = maxSid l /\
                limitSid la = limitSid l /\ maxTid l <= maxTid la /\
                (tid la <> tid l -> eager_t l f /\ tid la = f_tid f) /\ tid l <= tid la).
  { unfold la, eager_t, LInv. destruct (maxTid l <? f_tid f) eqn:E; [|repeat split; auto; lia].
    destruct (tid l =? maxTid l) eqn:E2; cbn; repeat split; auto; lia. }
  destruct Hla as (Ila & A1 & A2 & A3 & A4 & A5 & A6 & A7).
  assert (Hlb : LInv lb /\ tid lb = tid la /\ wantedTid lb = wantedTid la /\ maxTid lb = maxTid la /\
                limitSid lb = limitSid l /\ maxSid l <= maxSid lb /\
                (sid lb <> sid l -> eager_s l f) /\ sid l <= sid lb).
  { destruct Ila as (B1 & B2 & B3 & B4 & B5 & B6 & B7).
    unfold lb, eager_s, LInv. destruct (maxSid la <? f_sid f) eqn:E; [|repeat split; auto; try lia; congruence].
    destruct ((sid la =? maxSid la) && negb (limitSid la)) eqn:E2; cbn.
    - repeat split; auto; try lia. intros Hl. rewrite Hl in E2. rewrite andb_false_r in E2. discriminate.
      destruct (limitSid la) eqn:E3; [rewrite andb_false_r in E2; discriminate|congruence].
    - repeat split; auto; try lia. }
  destruct Hlb as (Ilb & B1 & B2 & B3 & B4 & B5 & B6 & B7).
  set (l1 := if (maxTid l <? f_tid f) || (maxSid l <? f_sid f)
             then unpack (pack (adjust (unpack (pack lb)) r m)) else l).
  assert (Hl1 : LInv l1 /\ limitSid l1 = limitSid l /\
                maxSid l <= maxSid l1 /\ maxTid l <= maxTid l1 /\
                (sid l1 <> sid l -> eager_s l f) /\ (tid l1 <> tid l -> eager_t l f /\ tid l1 = f_tid f) /\
                sid l <= sid l1 /\ tid l <= tid l1).
  { unfold l1. destruct ((maxTid l <? f_tid f) || (maxSid l <? f_sid f)) eqn:E.
    - rewrite (pack_unpack lb Ilb).
      pose proof (adjust_LInv lb r m Ilb) as Ia. rewrite (pack_unpack _ Ia).
      destruct (adjust_keeps_current lb r m) as (C1 & C2 & C3 & C4 & C5).
      split; [exact Ia|]. rewrite C1, C2, C3, C4, C5.
      split; [exact B4|]. split; [lia|]. split; [lia|].
      split; [exact B6|]. split; [intros Hx; rewrite B1 in *; apply A6; exact Hx|]. split; lia.
    - assert (Hla : la = l) by (unfold la; replace (maxTid l <? f_tid f) with false by lia; reflexivity).
      assert (Hlb : lb = l).
      { unfold lb. rewrite Hla. replace (maxSid l <? f_sid f) with false by lia. reflexivity. }
      split; [unfold LInv; tauto|].
      split; [reflexivity|]. split; [lia|]. split; [lia|].
      split; [intros Hx; exfalso; apply Hx; reflexivity|].
      split; [intros Hx; exfalso; apply Hx; reflexivity|]. split; lia. }
  clearbody l1. clear la lb Ila Ilb A1 A2 A3 A4 A5 A6 A7 B1 B2 B3 B4 B5 B6 B7.
  destruct Hl1 as (Il1 & D3 & D4 & D5 & D6 & D7 & D8 & D9).
  (* second block: temporal layer at the start of a frame *)
  set (l2 := if f_start f && negb (tid l1 =? wantedTid l1) then _ else l1).
  assert (Hl2 : LInv l2 /\ sid l2 = sid l1 /\ wantedSid l2 = wantedSid l1 /\ maxSid l2 = maxSid l1 /\
                maxTid l2 = maxTid l1 /\ wantedTid l2 = wantedTid l1 /\ limitSid l2 = limitSid l1 /\
                (tid l2 <> tid l1 -> f_start f = true) /\
                (tid l1 < tid l2 -> f_keyframe f = true \/
                                   (f_tidUpSync f = true /\ tid l2 = f_tid f /\ f_tid f <= wantedTid l2))).
  { destruct Il1 as (F1 & F2 & F3 & F4 & F5 & F6 & F7). unfold l2.
    destruct (f_start f); cbn [andb]; [|split; [unfold LInv; tauto|repeat split; auto; lia]].
    destruct (negb (tid l1 =? wantedTid l1)) eqn:Et; [|split; [unfold LInv; tauto|repeat split; auto; lia]].
    destruct (f_keyframe f) eqn:Ek; [split; [linv|cbn; repeat split; auto]|].
    destruct (wantedTid l1 <? tid l1) eqn:Ew; [split; [linv|cbn; repeat split; auto; lia]|].
    destruct (f_tidUpSync f && (f_tid f <=? wantedTid l1)) eqn:Eu;
      [|split; [unfold LInv; tauto|repeat split; auto; lia]].
    apply andb_prop in Eu. destruct Eu as (Eu1 & Eu2).
    split; [linv|cbn; repeat split; auto]. intros _. right. repeat split; auto. lia. }
  clearbody l2. destruct Hl2 as (Il2 & G1 & G2 & G3 & G4 & G5 & G6 & G7 & G8).
  (* third block: spatial layer at the start of a keyframe *)
  destruct (f_start f && negb (sid l2 =? wantedSid l2)) eqn:E3.
  - apply andb_prop in E3. destruct E3 as (Es & Esd).
    destruct (f_keyframe f) eqn:Ek.
    + (* switch *)
      destruct Il2 as (F1 & F2 & F3 & F4 & F5 & F6 & F7).
      destruct Il1 as (K1 & K2 & K3 & K4 & K5 & K6 & K7).
      split; [linv|]. cbn [sid wantedSid maxSid tid wantedTid maxTid limitSid].
      split; [intros _; left; auto|].
      split; [intros Hx; destruct (Z.eq_dec (tid l2) (tid l1)); [lia|auto]|].
      split.
      { intros Hx. destruct (Z.eq_dec (tid l1) (tid l)) as [Heq|Hne].
        - right. split; [exact Es|]. left. reflexivity.
        - left. apply D7. exact Hne. }
      split; [lia|]. split; [congruence|reflexivity].
    + (* keyframe requested, nothing changes *)
      split; [exact Il2|].
      split; [intros Hx; right; apply D6; congruence|].
      split; [intros Hx; destruct (Z.eq_dec (tid l2) (tid l1)); [lia|auto]|].
      split.
      { intros Hx. destruct (Z.eq_dec (tid l1) (tid l)) as [Heq|Hne].
        - right. split; [exact Es|]. right. destruct (G8 ltac:(lia)) as [Hk|Hu]; [discriminate|exact Hu].
        - left. apply D7. exact Hne. }
      split; [lia|]. split; [congruence|reflexivity].
  - split; [exact Il2|].
    split; [intros Hx; right; apply D6; congruence|].
    split; [intros Hx; destruct (Z.eq_dec (tid l2) (tid l1)); [lia|auto]|].
    split.
    { intros Hx. destruct (Z.eq_dec (tid l1) (tid l)) as [Heq|Hne].
      - right. assert (Hst : f_start f = true) by (apply G7; lia). split; [exact Hst|].
        destruct (G8 ltac:(lia)) as [Hk|Hu]; [left; exact Hk|right; exact Hu].
      - left. apply D7. exact Hne. }
    split; [lia|]. split; [congruence|reflexivity].
Qed.

(* ---- every reachable layer word ---- *)
Fixpoint lrun (l : layer) (es : list event) : layer :=
  match es with [] => l | e :: es' => lrun (lstep l e) es' end.

Lemma lstep_LInv l e : wf_event e -> LInv l -> LInv (lstep l e).
Proof.
  intros Hwf HI. destruct e as [f r m|r m|b]; cbn [lstep wf_event] in *.
  - destruct Hwf as (Ht & Hs). pose proof (write_layer_spec l f r m HI Ht Hs) as H.
    destruct (write_layer l f r m) as [[l' d] k]. cbn [fst]. tauto.
  - apply adjust_LInv; exact HI.
  - apply set_limit_LInv; exact HI.
Qed.

Lemma LInv_layer0 : LInv layer0.
Proof. unfold LInv, layer0; cbn. repeat split; try lia. Qed.

Lemma lrun_LInv es : forall l, Forall wf_event es -> LInv l -> LInv (lrun l es).
Proof.
  induction es as [|e es IH]; intros l Hwf HI; cbn [lrun]; [exact HI|].
  inversion Hwf; subst. apply IH; [assumption|]. apply lstep_LInv; assumption.
Qed.

(* outside Write the current layers never move *)
Lemma nonwrite_keeps_current l e : (forall f r m, e <> EWrite f r m) ->
  sid (lstep l e) = sid l /\ tid (lstep l e) = tid l.
Proof.
  intros Hn. destruct e as [f r m|r m|b]; [exfalso; eapply Hn; reflexivity| |].
  - cbn [lstep]. destruct (adjust_keeps_current l r m) as (H1 & H2 & _). auto.
  - cbn. auto.
Qed.

(* low quality from a non-simulcast publisher: while the request stands,
   wantedSid is 0, and the first keyframe start brings sid to 0 *)
Lemma limit_sets l : limitSid (set_limit l true) = true /\ wantedSid (set_limit l true) = 0.
Proof. cbn. auto. Qed.

Lemma limit_kept_and_applied l f r m : LInv l -> 0 <= f_tid f < 16 -> 0 <= f_sid f < 16 ->
  limitSid l = true ->
  let l' := fst (fst (write_layer l f r m)) in
  limitSid l' = true /\ wantedSid l' = 0 /\
  (f_start f = true -> f_keyframe f = true -> sid l' = 0).
Proof.
  intros HI Ht Hs Hlim.
  unfold write_layer.
  set (la := if maxTid l <? f_tid f then _ else l) in *.
  set (lb := if maxSid la <? f_sid f then _ else la) in *.
  assert (Hla : limitSid la = true /\ wantedSid la = wantedSid l /\ sid la = sid l /\ maxSid la = maxSid l).
  { unfold la. destruct (maxTid l <? f_tid f); [destruct (tid l =? maxTid l)|]; cbn; auto. }
  destruct Hla as (A1 & A2 & A3 & A4).
  assert (Hlb : limitSid lb = true /\ wantedSid lb = wantedSid l /\ sid lb = sid l).
  { unfold lb. destruct (maxSid la <? f_sid f); [|auto].
    rewrite A1. rewrite andb_false_r. cbn. auto. }
  destruct Hlb as (B1 & B2 & B3).
  destruct HI as (H1 & H2 & H3 & H4 & H5 & H6 & H7). specialize (H7 Hlim).
  set (l1 := if (maxTid l <? f_tid f) || (maxSid l <? f_sid f) then _ else l) in *.
  assert (Hl1 : limitSid l1 = true /\ wantedSid l1 = 0 /\ LInv l1).
  { unfold l1.
    destruct ((maxTid l <? f_tid f) || (maxSid l <? f_sid f)) eqn:E.
    - (* after adjust *)
      assert (Ilb : LInv lb).
      { unfold lb, la, LInv.
        destruct (maxTid l <? f_tid f) eqn:E1; [destruct (tid l =? maxTid l) eqn:E2|];
        cbn [sid wantedSid maxSid tid wantedTid maxTid limitSid];
        (destruct (_ <? f_sid f) eqn:E3; [rewrite ?Hlim; rewrite ?andb_false_r|]);
        cbn [sid wantedSid maxSid tid wantedTid maxTid limitSid]; repeat split; auto; lia. }
      rewrite (pack_unpack lb Ilb).
      pose proof (adjust_LInv lb r m Ilb) as Ia. rewrite (pack_unpack _ Ia).
      destruct (adjust_keeps_current lb r m) as (_ & _ & _ & _ & C5).
      split; [congruence|]. split; [|exact Ia].
      destruct Ia as (_ & _ & _ & _ & _ & _ & Ia7). apply Ia7. congruence.
    - split; [exact Hlim|]. split; [exact H7|]. unfold LInv; tauto. }
  destruct Hl1 as (L1 & L2 & Il1). clearbody l1.
  set (l2 := if f_start f && negb (tid l1 =? wantedTid l1) then _ else l1) in *.
  assert (Hl2 : limitSid l2 = true /\ wantedSid l2 = 0).
  { unfold l2. destruct (f_start f && negb (tid l1 =? wantedTid l1)); [|auto].
    destruct (f_keyframe f); [cbn; auto|]. destruct (wantedTid l1 <? tid l1); [cbn; auto|].
    destruct (f_tidUpSync f && (f_tid f <=? wantedTid l1)); cbn; auto. }
  destruct Hl2 as (M1 & M2). clearbody l2.
  destruct (f_start f) eqn:Es; cbn [andb].
  - destruct (negb (sid l2 =? wantedSid l2)) eqn:Ed.
    + destruct (f_keyframe f) eqn:Ek; cbn [fst sid wantedSid limitSid].
      * auto.
      * split; [exact M1|]. split; [exact M2|]. intros _ Hk. discriminate.
    + cbn [fst]. split; [exact M1|]. split; [exact M2|]. intros _ _. lia.
  - cbn [fst]. split; [exact M1|]. split; [exact M2|]. intros Hk. discriminate.
Qed.

(* ---- the loss-based bitrate ceiling ---- *)
Lemma update_rate_bounds rate0 loss actual :
  0 <= rate0 < 18446744073709551616 -> 0 <= loss < 256 ->
  minLossRate <= update_rate rate0 loss actual <= maxLossRate.
Proof.
  intros Hr Hl. unfold update_rate, minLossRate, initLossRate, maxLossRate, w64.
  set (rate := if (rate0 <? 9600) || (1073741824 <? rate0) then 512000 else rate0).
  assert (Hrate : 9600 <= rate <= 1073741824) by (unfold rate; destruct (_ || _) eqn:E; lia).
  clearbody rate.
  destruct (loss <? 5).
  - destruct (_ <=? actual); [|lia].
    destruct (1073741824 <? _) eqn:E; lia.
  - destruct (25 <? loss) eqn:E25; [|lia].
    destruct (_ <? 9600) eqn:E; [lia|]. split; [lia|].
    assert (0 <= rate * (512 - loss) < 18446744073709551616) by nia.
    rewrite Z.mod_small by lia.
    assert (rate * (512 - loss) <= rate * 512) by nia.
    assert (rate * (512 - loss) / 512 <= rate * 512 / 512) by (apply Z.div_le_mono; lia).
    rewrite Z.div_mul in H1 by lia. lia.
Qed.

(* ---- split semantics: layerInfo is updated by load-modify-store from three
   goroutines (Write, adjustLayer from the RTCP listener, replaceTracks).  A
   stale store loses an update: here Write loads the word, replaceTracks sets
   limitSid, and Write stores its stale copy, clearing limitSid again. ---- *)
Definition split_witness_flags : flags := mkFlags 10 false true false true 0 0 0 true true false.
Definition split_witness_layer : layer := mkLayer 0 0 1 1 0 1 false.

Lemma split_lost_update :
  let loaded := split_witness_layer in                 (* Write: getLayerInfo *)
  let other := set_limit loaded true in                (* replaceTracks: load-modify-store *)
  let stored := fst (fst (write_layer loaded split_witness_flags 0 524288)) in  (* Write: setLayerInfo of the stale copy *)
  limitSid other = true /\ limitSid stored = false /\
  (* whereas in the atomic-event semantics the request survives *)
  limitSid (fst (fst (write_layer other split_witness_flags 0 524288))) = true.
Proof. vm_compute. auto. Qed.

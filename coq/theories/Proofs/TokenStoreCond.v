(* Conditional writes (tags), exclusion of concurrent editors, atomicity of
   the file replacement. *)
From Coq Require Import ZArith List Bool Lia Permutation.
From Galene Require Import Model.TokenStore Proofs.TokenStoreBasics Proofs.TokenStoreInv
  Proofs.TokenStoreProps.
Import ListNotations.
Open Scope Z_scope.

(* ================= a write succeeds only with the current tag ================= *)

Definition cond_tag (w : wop) : etag :=
  match w with
  | WUpdate _ e _ _ | WDelete _ e _ => e
  | WExpire _ _ => None
  end.

Lemma get_out : forall s n,
  snd (step s (OGet n)) =
  match load (s_mem s) (s_file s) with
  | (m1, LErr) => mkOut ROther None []
  | (m1, LOk e) => match tlookup n (m_tokens m1) with
                   | None => mkOut RNotExist None []
                   | Some t => mkOut ROk e [t]
                   end
  end.
Proof.
  intros [m f] n. cbn [step s_mem s_file]. destruct (load m f) as [m1 [e|]]; [| reflexivity].
  destruct (tlookup n (m_tokens m1)); reflexivity.
Qed.

(* Delete succeeds only if the token exists and the tag is the one a Get
   returns in that very state *)
Lemma delete_needs_current_tag : forall s n e st,
  o_res (snd (step s (ODo (WDelete n e st)))) = ROk ->
  o_res (snd (step s (OGet n))) = ROk /\ o_etag (snd (step s (OGet n))) = e.
Proof.
  intros [m f] n e st. rewrite get_out. cbn [step s_mem s_file snd o_res wplan].
  destruct (load m f) as [m1 [e0|]] eqn:L; [| cbn; discriminate].
  pose proof (load_ok_synced m f m1 e0) as _.
  destruct (tlookup n (m_tokens m1)) as [old|] eqn:Lk; [| cbn; discriminate].
  destruct (etag_eqb e (etag_of m1)) eqn:Et; cbn [negb]; [| cbn; discriminate].
  intros _. cbn [o_res o_etag]. split; [reflexivity|].
  apply etag_eqb_eq in Et. subst e.
  destruct f as [fl|].
  - apply (load_stamp _ _ _ _ L).
  - rewrite load_none in L. inversion L; subst. discriminate.
Qed.

(* Update succeeds only as an edit with the current tag, or as a creation of
   a token that does not exist, with the empty tag *)
Lemma update_needs_current_tag : forall s t e st0 st,
  o_res (snd (step s (ODo (WUpdate t e st0 st)))) = ROk ->
  (o_res (snd (step s (OGet (tk_name t)))) = ROk /\ o_etag (snd (step s (OGet (tk_name t)))) = e) \/
  (o_res (snd (step s (OGet (tk_name t)))) = RNotExist /\ e = None).
Proof.
  intros [m f] t e st0 st. rewrite get_out. cbn [step s_mem s_file snd o_res wplan].
  destruct (load m f) as [m1 [e0|]] eqn:L; [| cbn; discriminate].
  destruct (tlookup (tk_name t) (m_tokens m1)) as [old|] eqn:Lk.
  - destruct (etag_eqb e (etag_of m1)) eqn:Et; cbn [negb]; [| cbn; discriminate].
    intros _. left. cbn [o_res o_etag]. split; [reflexivity|].
    apply etag_eqb_eq in Et. subst e.
    destruct f as [fl|].
    + apply (load_stamp _ _ _ _ L).
    + rewrite load_none in L. inversion L; subst. discriminate.
  - destruct e as [ste|]; [cbn; discriminate|]. intros _. right. split; reflexivity.
Qed.

(* ================= how the file changes ================= *)

Lemma file_step : forall s o,
  s_file (fst (step s o)) = s_file s \/ s_file (fst (step s o)) = None \/
  exists fl, s_file (fst (step s o)) = Some fl /\ In (f_st fl) (op_stamps o).
Proof.
  intros [m f] o. destruct o as [n | g | w | c st | | | w k mid | w k]; cbn [step s_mem s_file op_stamps].
  - destruct (load m f) as [m1 [e|]]; [destruct (tlookup n (m_tokens m1))|]; left; reflexivity.
  - destruct (load m f) as [m1 [e|]]; left; reflexivity.
  - cbn [fst s_file]. rewrite run_is_crash. apply crash_file_cases.
  - cbn [fst s_file]. destruct c as [ls|]; [| right; left; reflexivity].
    right; right. eexists; split; [reflexivity | cbn; auto].
  - left; reflexivity.
  - left; reflexivity.
  - cbn [fst s_file]. apply crash_file_cases.
  - destruct (k <? length (pl_prog (wplan m f w)))%nat; cbn [fst s_file].
    + rewrite fail_disk_main. apply crash_file_cases.
    + rewrite run_is_crash. apply crash_file_cases.
Qed.

(* along a history with fresh stamps: the file is the one we started with, or
   there is none, or it carries a stamp that was not in use at the start *)
Lemma file_run : forall h used s, fresh used h ->
  s_file (run s h) = s_file s \/ s_file (run s h) = None \/
  exists fl, s_file (run s h) = Some fl /\ ~ In (f_st fl) used.
Proof.
  induction h as [|o r IH]; intros used s Hf; cbn [run]; [left; reflexivity|].
  destruct Hf as [Hf1 Hf2].
  destruct (IH _ (fst (step s o)) Hf2) as [H|[H|(fl & H & Hn)]].
  - rewrite H. destruct (file_step s o) as [H1|[H1|(fl & H1 & Hin)]]; auto.
    right; right. exists fl; split; [exact H1 | apply (proj1 (Hf1 _ Hin))].
  - auto.
  - right; right. exists fl; split; [exact H|]. intros Hi. apply Hn. apply in_or_app; right; exact Hi.
Qed.

(* a successful conditional write: the tag was the stamp of the file, and the
   file is gone or carries a stamp of the operation afterwards *)
Lemma cond_success : forall s w ste,
  cond_tag w = Some ste ->
  o_res (snd (step s (ODo w))) = ROk ->
  (exists fl, s_file s = Some fl /\ f_st fl = ste) /\
  (s_file (fst (step s (ODo w))) = None \/
   exists fl', s_file (fst (step s (ODo w))) = Some fl' /\ In (f_st fl') (wop_stamps w)).
Proof.
  intros [m f] w ste Hc. cbn [step s_mem s_file snd fst o_res].
  destruct (wplan_cases m f w) as [m1 lr r L -> Hr | m1 e0 fl toks2 st rb L -> Hst K -> | m1 e0 t st0 st L -> Lk ->].
  - cbn [pl_res noplan]. intros ->. destruct (Hr eq_refl) as (now & st & ->). discriminate.
  - intros _. split.
    + exists fl; split; [reflexivity|].
      assert (He : cond_tag w = etag_of m1) by (destruct K; cbn [cond_tag]; auto; discriminate).
      rewrite Hc in He. symmetry in He. apply etag_of_Some in He. destruct He as [-> _]. symmetry; exact Hst.
    + rewrite Hst.
      destruct (rewrite_plan_cases toks2 fl st rb) as [[_ ->]|[_ ->]]; cbn [pl_prog].
      * left; reflexivity.
      * right. rewrite run_rewrite_prog. eexists; split; [reflexivity|]. cbn [f_st]. eapply wkind_stamp; exact K.
  - discriminate.
Qed.

(* of two conditional writes that present the same tag, with anything in
   between, at most one succeeds *)
Lemma exclusive : forall used s wA h wB ste,
  Inv used s -> fresh used (ODo wA :: h ++ [ODo wB]) ->
  cond_tag wA = Some ste -> cond_tag wB = Some ste ->
  o_res (snd (step s (ODo wA))) = ROk ->
  o_res (snd (step (run (fst (step s (ODo wA))) h) (ODo wB))) <> ROk.
Proof.
  intros used s wA h wB ste HI Hf HcA HcB HA HB.
  destruct (cond_success s wA ste HcA HA) as [(fl & Hfl & Hste) Hafter].
  assert (Hused : In ste used) by (rewrite <- Hste; apply (inv_filest _ _ HI); exact Hfl).
  cbn [fresh] in Hf. destruct Hf as [HfA Hf]. apply fresh_app in Hf. destruct Hf as [Hfh _].
  destruct (cond_success _ wB ste HcB HB) as [(flb & Hflb & Hsteb) _].
  cbn [op_stamps] in *.
  destruct (file_run h _ (fst (step s (ODo wA))) Hfh) as [H|[H|(fl2 & H & Hn)]].
  - rewrite H in Hflb. destruct Hafter as [Hn|(fl' & Hs & Hin)]; rewrite Hflb in *; [discriminate|].
    inversion Hs; subst fl'. rewrite Hsteb in Hin. apply (proj1 (HfA _ Hin)). exact Hused.
  - rewrite H in Hflb. discriminate.
  - rewrite H in Hflb. inversion Hflb; subst fl2. apply Hn. rewrite Hsteb. apply in_or_app; right; exact Hused.
Qed.

(* a conditional write that succeeds with a tag read earlier proves that the
   file has not changed since the tag was read *)
Lemma no_change_since_read : forall used s n ste h w,
  Inv used s -> fresh used h ->
  o_res (snd (step s (OGet n))) = ROk -> o_etag (snd (step s (OGet n))) = Some ste ->
  cond_tag w = Some ste ->
  o_res (snd (step (run (fst (step s (OGet n))) h) (ODo w))) = ROk ->
  s_file (run (fst (step s (OGet n))) h) = s_file s.
Proof.
  intros used s n ste h w HI Hf Hr He Hc Hw.
  assert (Hfile : s_file (fst (step s (OGet n))) = s_file s).
  { destruct s as [m f]. cbn [step s_mem s_file].
    destruct (load m f) as [m1 [e|]]; [destruct (tlookup n (m_tokens m1))|]; reflexivity. }
  assert (Hused : exists fl, s_file s = Some fl /\ f_st fl = ste).
  { destruct s as [m f]. rewrite get_out in Hr, He. cbn [s_mem s_file] in *.
    destruct (load m f) as [m1 [e|]] eqn:L; [| discriminate].
    destruct (tlookup n (m_tokens m1)) as [t|] eqn:Lk; [| discriminate].
    cbn [o_etag] in He. subst e.
    destruct (load_nonempty _ _ _ _ L (lookup_nonempty _ _ _ Lk)) as (fl & e' & -> & _ & Hst).
    exists fl; split; [reflexivity|].
    destruct (load_stamp _ _ _ _ L) as [_ E]. symmetry in E. apply etag_of_Some in E.
    destruct E as [-> _]. symmetry; exact Hst. }
  destruct Hused as (fl & Hfl & Hste).
  assert (Hin : In ste used) by (rewrite <- Hste; apply (inv_filest _ _ HI); exact Hfl).
  destruct (cond_success _ w ste Hc Hw) as [(flb & Hflb & Hsteb) _].
  destruct (file_run h used (fst (step s (OGet n))) Hf) as [H|[H|(fl2 & H & Hn)]].
  - rewrite H. exact Hfile.
  - rewrite H in Hflb; discriminate.
  - rewrite H in Hflb. inversion Hflb; subst fl2. exfalso. apply Hn. rewrite Hsteb. exact Hin.
Qed.

(* ================= two editors, every schedule ================= *)

Inductive eact := EEdit (t : token) (st0 st : stamp) | EDel (n : Z) (st : stamp).
Definition eact_target (a : eact) : Z :=
  match a with EEdit t _ _ => tk_name t | EDel n _ => n end.
Definition eact_wop (a : eact) (e : etag) : wop :=
  match a with EEdit t st0 st => WUpdate t e st0 st | EDel n st => WDelete n e st end.

(* an editor: 0 = has not read the tag, 1 = holds a tag, 2 = has written *)
Record editor := mkEd { ed_pc : nat; ed_tag : etag; ed_res : res }.
Definition ed_start : editor := mkEd 0 None ROther.

(* one move of an editor: read the tag of its token, then write with it *)
Definition ed_move (s : state) (a : eact) (ed : editor) : state * editor * list op :=
  match ed_pc ed with
  | O => let o := OGet (eact_target a) in
         (fst (step s o), mkEd 1 (o_etag (snd (step s o))) ROther, [o])
  | S O => let o := ODo (eact_wop a (ed_tag ed)) in
           (fst (step s o), mkEd 2 (ed_tag ed) (o_res (snd (step s o))), [o])
  | _ => (s, ed, [])
  end.

(* a schedule: which editor moves next, or what somebody else does *)
Inductive sched_step := SEd1 | SEd2 | SOther (o : op).

Fixpoint run_sched (s : state) (a1 a2 : eact) (e1 e2 : editor) (sc : list sched_step)
  : state * editor * editor * list op :=
  match sc with
  | [] => (s, e1, e2, [])
  | SEd1 :: r =>
    let '(s', e1', ops) := ed_move s a1 e1 in
    let '(s'', e1'', e2'', tr) := run_sched s' a1 a2 e1' e2 r in (s'', e1'', e2'', ops ++ tr)
  | SEd2 :: r =>
    let '(s', e2', ops) := ed_move s a2 e2 in
    let '(s'', e1'', e2'', tr) := run_sched s' a1 a2 e1 e2' r in (s'', e1'', e2'', ops ++ tr)
  | SOther o :: r =>
    let '(s'', e1'', e2'', tr) := run_sched (fst (step s o)) a1 a2 e1 e2 r in (s'', e1'', e2'', o :: tr)
  end.

(* the tag of an editor that has written successfully is dead: it is the
   stamp of an earlier version, and the file does not carry it any more *)
Definition dead (used : list stamp) (s : state) (ed : editor) : Prop :=
  ed_res ed = ROk -> forall ste, ed_tag ed = Some ste ->
  In ste used /\ forall fl, s_file s = Some fl -> f_st fl <> ste.

Definition both_ok (e1 e2 : editor) : Prop :=
  ed_res e1 = ROk /\ ed_res e2 = ROk /\ ed_tag e1 = ed_tag e2 /\ ed_tag e1 <> None.

Record K (used : list stamp) (s : state) (e1 e2 : editor) : Prop := mkK {
  k_inv : Inv used s;
  k_dead1 : dead used s e1;
  k_dead2 : dead used s e2;
  k_good : ~ both_ok e1 e2
}.

Lemma dead_step : forall used s ed o,
  dead used s ed -> fresh_stamps used (op_stamps o) ->
  dead (op_stamps o ++ used) (fst (step s o)) ed.
Proof.
  intros used s ed o Hd Hf Hr ste Ht. destruct (Hd Hr ste Ht) as [Hin Hfile].
  split; [apply in_or_app; right; exact Hin|].
  intros fl Hfl. destruct (file_step s o) as [H|[H|(fl' & H & Hi)]]; rewrite H in Hfl.
  - apply Hfile; exact Hfl.
  - discriminate.
  - inversion Hfl; subst fl'. intros E. rewrite E in Hi. apply (proj1 (Hf _ Hi)). exact Hin.
Qed.

(* a move of one editor keeps K (stated for editor 1 against editor 2; the
   other case is symmetric) *)
Lemma both_ok_sym : forall e1 e2, both_ok e1 e2 -> both_ok e2 e1.
Proof.
  intros e1 e2 (H1 & H2 & H3 & H4). repeat split; auto; congruence.
Qed.

Lemma K_sym : forall used s e1 e2, K used s e1 e2 -> K used s e2 e1.
Proof.
  intros used s e1 e2 [H1 H2 H3 H4]. constructor; auto. intros H. apply H4. apply both_ok_sym; exact H.
Qed.

Lemma move_K : forall used s a e1 e2 s' e1' ops,
  K used s e1 e2 -> ed_move s a e1 = (s', e1', ops) -> fresh used ops ->
  K (used_run used ops) s' e1' e2.
Proof.
  intros used s a e1 e2 s' e1' ops [HI Hd1 Hd2 Hg] Hm Hf. unfold ed_move in Hm.
  destruct (ed_pc e1) as [|[|pc]] eqn:Hpc.
  - (* reads its tag *)
    inversion Hm; subst; clear Hm. cbn [used_run fresh] in *. destruct Hf as [Hf _].
    constructor.
    + exact (step_Inv used s (OGet (eact_target a)) HI Hf I).
    + intros H; discriminate H.
    + exact (dead_step used s e2 (OGet (eact_target a)) Hd2 Hf).
    + intros (H & _); discriminate H.
  - (* writes with its tag *)
    inversion Hm; subst; clear Hm. cbn [used_run fresh] in *. destruct Hf as [Hf _].
    set (w := eact_wop a (ed_tag e1)) in *.
    assert (Hct : cond_tag w = ed_tag e1) by (subst w; destruct a; reflexivity).
    constructor.
    + exact (step_Inv used s (ODo w) HI Hf I).
    + intros Hr ste Ht. cbn [ed_res ed_tag] in *.
      rewrite Ht in Hct.
      destruct (cond_success s w ste Hct Hr) as [(fl & Hfl & Hste) Hafter].
      assert (Hin : In ste used) by (rewrite <- Hste; apply (inv_filest _ _ HI); exact Hfl).
      split; [apply in_or_app; right; exact Hin|].
      intros fl' Hfl'. change (s_file (fst (step s (ODo w))) = Some fl') in Hfl'.
      destruct Hafter as [Hn|(fl2 & H2 & Hi)]; [rewrite Hn in Hfl'; discriminate|].
      rewrite H2 in Hfl'. inversion Hfl'; subst fl2. intros E. rewrite E in Hi.
      apply (proj1 (Hf _ Hi)). exact Hin.
    + exact (dead_step used s e2 (ODo w) Hd2 Hf).
    + intros (Hr1 & Hr2 & Ht & Hne). cbn [ed_res ed_tag] in *.
      destruct (ed_tag e1) as [ste|] eqn:Et; [| apply Hne; reflexivity].
      destruct (cond_success s w ste Hct Hr1) as [(fl & Hfl & Hste) _].
      destruct (Hd2 Hr2 ste (eq_sym Ht)) as [_ Hfile]. apply (Hfile fl Hfl). exact Hste.
  - inversion Hm; subst; clear Hm. cbn [used_run]. constructor; assumption.
Qed.

Lemma sched_K : forall a1 a2 sc used s e1 e2 s' e1' e2' tr,
  K used s e1 e2 ->
  run_sched s a1 a2 e1 e2 sc = (s', e1', e2', tr) ->
  fresh used tr -> Forall ok_op tr ->
  K (used_run used tr) s' e1' e2'.
Proof.
  intros a1 a2. induction sc as [|x r IH]; intros used s e1 e2 s' e1' e2' tr HK Hrun Hf Hok.
  - cbn in Hrun. inversion Hrun; subst. exact HK.
  - destruct x as [| |o]; cbn [run_sched] in Hrun.
    + destruct (ed_move s a1 e1) as [[s1 e1a] ops] eqn:Hm.
      destruct (run_sched s1 a1 a2 e1a e2 r) as [[[s2 e1b] e2b] tr'] eqn:Hr.
      inversion Hrun; subst; clear Hrun.
      apply fresh_app in Hf. destruct Hf as [Hf1 Hf2]. apply Forall_app in Hok. destruct Hok as [_ Hok2].
      rewrite used_run_app. eapply IH; [| exact Hr | exact Hf2 | exact Hok2].
      eapply move_K; eassumption.
    + destruct (ed_move s a2 e2) as [[s1 e2a] ops] eqn:Hm.
      destruct (run_sched s1 a1 a2 e1 e2a r) as [[[s2 e1b] e2b] tr'] eqn:Hr.
      inversion Hrun; subst; clear Hrun.
      apply fresh_app in Hf. destruct Hf as [Hf1 Hf2]. apply Forall_app in Hok. destruct Hok as [_ Hok2].
      rewrite used_run_app. eapply IH; [| exact Hr | exact Hf2 | exact Hok2].
      apply K_sym. eapply move_K; [apply K_sym; exact HK | exact Hm | exact Hf1].
    + destruct (run_sched (fst (step s o)) a1 a2 e1 e2 r) as [[[s2 e1b] e2b] tr'] eqn:Hr.
      inversion Hrun; subst; clear Hrun.
      cbn [fresh used_run] in *. destruct Hf as [Hf1 Hf2]. inversion Hok; subst.
      eapply IH; [| exact Hr | exact Hf2 | assumption].
      destruct HK as [HI Hd1 Hd2 Hg]. constructor.
      * apply step_Inv; assumption.
      * apply dead_step; assumption.
      * apply dead_step; assumption.
      * exact Hg.
Qed.

Lemma K_start : forall used s, Inv used s -> K used s ed_start ed_start.
Proof.
  intros used s HI. constructor; [exact HI | | |].
  - intros H; discriminate H.
  - intros H; discriminate H.
  - intros (H & _); discriminate H.
Qed.

(* of two editors that hold the same tag at most one write succeeds, in every
   schedule of their moves and of anybody else's operations *)
Lemma two_editors : forall used s a1 a2 sc s' e1 e2 tr,
  Inv used s ->
  run_sched s a1 a2 ed_start ed_start sc = (s', e1, e2, tr) ->
  fresh used tr -> Forall ok_op tr ->
  ed_tag e1 = ed_tag e2 -> ed_tag e1 <> None ->
  ~ (ed_res e1 = ROk /\ ed_res e2 = ROk).
Proof.
  intros used s a1 a2 sc s' e1 e2 tr HI Hrun Hf Hok Ht Hne [H1 H2].
  pose proof (sched_K a1 a2 sc used s _ _ _ _ _ _ (K_start _ _ HI) Hrun Hf Hok) as HK.
  apply (k_good _ _ _ _ HK). repeat split; assumption.
Qed.

(* ================= atomic replacement ================= *)

(* w creates a token in state s: Update of a name that does not exist *)
Definition creates (s : state) (w : wop) : Prop :=
  exists t st0 st, w = WUpdate t None st0 st /\
                   o_res (snd (step s (OGet (tk_name t)))) = RNotExist.

(* every write that is not a creation goes through rewrite(): at every
   interruption point, torn writes included, the file is exactly the old file
   or exactly the file of the completed operation *)
Lemma atomic_rewrite : forall s w k mid,
  ~ creates s w ->
  s_file (fst (step s (OCrash w k mid))) = s_file s \/
  s_file (fst (step s (OCrash w k mid))) = s_file (fst (step s (ODo w))).
Proof.
  intros [m f] w k mid Hnc. cbn [step s_mem s_file fst].
  destruct (wplan_cases m f w) as [m1 lr r L -> _ | m1 e0 fl toks2 st rb L -> Hst K -> | m1 e0 t st0 st L -> Lk ->].
  - left. cbn [pl_prog noplan]. unfold crash_disk. rewrite firstn_nil.
    destruct mid; [destruct k|]; reflexivity.
  - rewrite Hst.
    destruct (rewrite_plan_cases toks2 fl st rb) as [[_ ->]|[_ ->]]; cbn [pl_prog].
    + destruct (crash_unlink (Some fl) k mid) as [H|H]; [left | right]; exact H.
    + rewrite run_rewrite_prog.
      destruct (crash_rewrite_prog (Some fl) (list_mem (mkMem toks2 (f_st fl)) None) st k mid) as [H|H];
        [left | right]; exact H.
  - exfalso. apply Hnc. exists t, st0, st. split; [reflexivity|].
    rewrite get_out. cbn [s_mem s_file]. rewrite L, Lk. reflexivity.
Qed.

Definition fresh_view (s : state) : option (list token) := parse (lines_of (s_file s)).

(* a creation appends one line: if write(2) of one line is not torn by the
   crash (mid = false), a freshly started server reads the old set or finds
   the file of the completed operation *)
Lemma atomic_append : forall s w k,
  creates s w ->
  fresh_view (fst (step s (OCrash w k false))) = fresh_view s \/
  s_file (fst (step s (OCrash w k false))) = s_file (fst (step s (ODo w))).
Proof.
  intros [m f] w k (t & st0 & st & -> & Hg). rewrite get_out in Hg. cbn [s_mem s_file] in Hg.
  unfold fresh_view. cbn [step s_mem s_file fst wplan].
  destruct (load m f) as [m1 [e0|]] eqn:L; [| discriminate].
  destruct (tlookup (tk_name t) (m_tokens m1)) eqn:Lk; [discriminate|].
  cbn [pl_prog]. fold (add_prog t st0 st). rewrite run_add_prog.
  destruct (crash_add_prog f t st0 st k false) as [H|[[Hn H]|[[Hm _]|H]]].
  - left. rewrite H. reflexivity.
  - left. rewrite H, Hn. reflexivity.
  - discriminate.
  - right. exact H.
Qed.

(* both cases together, for a freshly started server *)
Lemma atomic_fresh_view : forall s w k,
  fresh_view (fst (step s (OCrash w k false))) = fresh_view s \/
  fresh_view (fst (step s (OCrash w k false))) = fresh_view (fst (step s (ODo w))).
Proof.
  intros s w k. unfold fresh_view.
  assert (D : creates s w \/ ~ creates s w).
  { destruct s as [m f]. destruct w as [t [ste|] st0 st | n e st | now st];
      try (right; intros (t' & a & b & E & _); discriminate E).
    destruct (o_res (snd (step (mkState m f) (OGet (tk_name t))))) eqn:R;
      try (right; intros (t' & a & b & E & Hr); inversion E; subst; rewrite R in Hr; discriminate Hr).
    left. exists t, st0, st. split; [reflexivity | exact R]. }
  destruct D as [Hc|Hc].
  - destruct (atomic_append s w k Hc) as [H|H]; [left; exact H | right; rewrite H; reflexivity].
  - destruct (atomic_rewrite s w k false Hc) as [H|H]; rewrite H; auto.
Qed.

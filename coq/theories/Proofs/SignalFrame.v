(* Frame lemmas for Model/Signal.v: which operations leave the (group,
   permissions) pair of which client unchanged, and the token store. *)
From Coq Require Import ZArith List Bool String Arith Lia.
From Galene Require Import Generated.Guards Model.Signal.
Import ListNotations.
Open Scope string_scope.

(* ------------------------------------------------------------------ *)
(* strings and membership                                             *)

Lemma eqb_true : forall a b, String.eqb a b = true -> a = b.
Proof. intros a b H. apply String.eqb_eq. exact H. Qed.

Lemma mem_In : forall p l, mem p l = true <-> In p l.
Proof.
  intros p l. unfold mem. rewrite existsb_exists. split.
  - intros (x & Hin & He). apply eqb_true in He. subst. exact Hin.
  - intros H. exists p. split; [exact H | apply String.eqb_refl].
Qed.

Lemma subset_spec : forall l1 l2, subset l1 l2 = true <-> (forall p, In p l1 -> In p l2).
Proof.
  intros l1 l2. unfold subset. rewrite forallb_forall. split.
  - intros H p Hp. apply mem_In. apply H. exact Hp.
  - intros H p Hp. apply mem_In. apply H. exact Hp.
Qed.

Lemma subset_trans : forall a b c, subset a b = true -> subset b c = true -> subset a c = true.
Proof.
  intros a b c H1 H2. rewrite subset_spec in *. intros p Hp. apply H2. apply H1. exact Hp.
Qed.

Lemma subset_nil_r : forall l, subset l [] = true -> l = [].
Proof.
  intros [|x l] H; [reflexivity|]. rewrite subset_spec in H.
  exfalso. apply (H x). left. reflexivity.
Qed.

(* ------------------------------------------------------------------ *)
(* upd_nth / get_client                                               *)

Lemma nth_error_upd_nth : forall (A : Type) (f : A -> A) l n i,
  nth_error (upd_nth n f l) i =
  if Nat.eqb i n then option_map f (nth_error l i) else nth_error l i.
Proof.
  intros A f l. induction l as [|x l IH]; intros n i.
  - destruct n, i; cbn; try reflexivity; destruct (Nat.eqb i n); reflexivity.
  - destruct n, i; cbn; try reflexivity. apply IH.
Qed.

Lemma length_upd_nth : forall (A : Type) (f : A -> A) l n, List.length (upd_nth n f l) = List.length l.
Proof.
  intros A f l. induction l as [|x l IH]; intros [|n]; cbn; try reflexivity. now rewrite IH.
Qed.

Lemma get_client_upd : forall w h f i,
  get_client (upd w h f) i =
  if Nat.eqb i h then option_map f (get_client w i) else get_client w i.
Proof. intros. unfold get_client, upd. cbn. apply nth_error_upd_nth. Qed.

(* the (group, permissions) pair *)
Definition gp (c : client) : option str * list str := (c_group c, c_perms c).
Definition gpof (w : world) (h : nat) : option (option str * list str) :=
  option_map gp (get_client w h).

(* w' differs from w, as far as (group, permissions) go, at most at handle x *)
Definition gp_frame (x : option nat) (w w' : world) : Prop :=
  forall i, Some i <> x -> gpof w' i = gpof w i.
Definition gp_stable := gp_frame None.

Definition gp_pres (f : client -> client) : Prop := forall c, gp (f c) = gp c.

Lemma gpf_refl : forall x w, gp_frame x w w.
Proof. intros x w i _. reflexivity. Qed.

Lemma gpf_trans : forall x w1 w2 w3, gp_frame x w1 w2 -> gp_frame x w2 w3 -> gp_frame x w1 w3.
Proof. intros x w1 w2 w3 H1 H2 i Hi. rewrite H2, H1; auto. Qed.

Lemma gpf_weaken : forall x w w', gp_stable w w' -> gp_frame x w w'.
Proof. intros x w w' H i _. apply H. discriminate. Qed.

Lemma gpf_upd_pres : forall x w h f, gp_pres f -> gp_frame x w (upd w h f).
Proof.
  intros x w h f Hf i _. unfold gpof. rewrite get_client_upd.
  destruct (Nat.eqb i h); [|reflexivity].
  destruct (get_client w i); cbn; [|reflexivity]. now rewrite Hf.
Qed.

(* any change of client h is inside the frame of h *)
Lemma gpf_upd_self : forall w h f, gp_frame (Some h) w (upd w h f).
Proof.
  intros w h f i Hi. unfold gpof. rewrite get_client_upd.
  destruct (Nat.eqb_spec i h); [subst; congruence | reflexivity].
Qed.

Lemma gp_pres_queue : forall q, gp_pres (fun c => set_queue c (q c)).
Proof. intros q c. reflexivity. Qed.
Lemma gp_pres_out : forall q, gp_pres (fun c => set_out c (q c)).
Proof. intros q c. reflexivity. Qed.
Lemma gp_pres_up : forall q, gp_pres (fun c => set_up c (q c)).
Proof. intros q c. reflexivity. Qed.
Lemma gp_pres_down : forall q, gp_pres (fun c => set_down c (q c)).
Proof. intros q c. reflexivity. Qed.
Lemma gp_pres_data : forall q, gp_pres (fun c => set_data c (q c)).
Proof. intros q c. reflexivity. Qed.
Lemma gp_pres_requested : forall q, gp_pres (fun c => set_requested c (q c)).
Proof. intros q c. reflexivity. Qed.
Lemma gp_pres_closed : forall q, gp_pres (fun c => set_closed c (q c)).
Proof. intros q c. reflexivity. Qed.

Lemma gpf_enq : forall x w h a, gp_frame x w (enq w h a).
Proof. intros. apply gpf_upd_pres. intro c. reflexivity. Qed.
Lemma gpf_send : forall x w h m, gp_frame x w (send w h m).
Proof. intros. apply gpf_upd_pres. intro c. reflexivity. Qed.

Lemma gpf_fold : forall (A : Type) x (F : world -> A -> world) l w,
  (forall w a, gp_frame x w (F w a)) -> gp_frame x w (fold_left F l w).
Proof.
  intros A x F l. induction l as [|a l IH]; intros w H; cbn [fold_left].
  - apply gpf_refl.
  - eapply gpf_trans; [apply H | apply IH; exact H].
Qed.

Lemma gpf_enq_all : forall x w hs a, gp_frame x w (enq_all w hs a).
Proof. intros. unfold enq_all. apply gpf_fold. intros. apply gpf_enq. Qed.
Lemma gpf_send_all : forall x w hs m, gp_frame x w (send_all w hs m).
Proof. intros. unfold send_all. apply gpf_fold. intros. apply gpf_send. Qed.
Lemma gpf_push_client_all : forall x w g hs k id u p d,
  gp_frame x w (push_client_all w g hs k id u p d).
Proof. intros. apply gpf_enq_all. Qed.

Lemma gpf_upd_group : forall x w g f, gp_frame x w (upd_group w g f).
Proof. intros x w g f i _. reflexivity. Qed.
Lemma gpf_tokens : forall x w ts n, gp_frame x w (wset_tokens w ts n).
Proof. intros x w ts n i _. reflexivity. Qed.
Lemma gpf_groups : forall x w gs, gp_frame x w (wset_groups w gs).
Proof. intros x w gs i _. reflexivity. Qed.

Lemma gpf_send_error : forall x w h c v, gp_frame x w (send_error w h c v).
Proof. intros. apply gpf_send. Qed.
Lemma gpf_terror : forall x w h k e v, gp_frame x w (terror w h k e v).
Proof. intros. apply gpf_send. Qed.

Lemma gpf_del_up_conn : forall x w h id push, gp_frame x w (fst (del_up_conn w h id push)).
Proof.
  intros. unfold del_up_conn.
  destruct (get_client w h) as [c|]; [|apply gpf_refl].
  destruct (find_up c id); [|apply gpf_refl]. cbn.
  destruct (c_group c); [destruct push|].
  - eapply gpf_trans; [apply gpf_upd_pres, gp_pres_up | apply gpf_enq_all].
  - apply gpf_upd_pres, gp_pres_up.
  - apply gpf_upd_pres, gp_pres_up.
Qed.

Lemma gpf_del_down_conn : forall x w h id, gp_frame x w (del_down_conn w h id).
Proof. intros. apply gpf_upd_pres, gp_pres_down. Qed.
Lemma gpf_close_down_conn : forall x w h id, gp_frame x w (close_down_conn w h id).
Proof. intros. eapply gpf_trans; [apply gpf_del_down_conn | apply gpf_send]. Qed.
Lemma gpf_fail_up_connection : forall x w h c id m, gp_frame x w (fail_up_connection w h c id m).
Proof.
  intros. unfold fail_up_connection.
  destruct (is_empty id), (is_empty m).
  - apply gpf_refl.
  - apply gpf_send_error.
  - apply gpf_send.
  - eapply gpf_trans; [apply gpf_send | apply gpf_send_error].
Qed.

Lemma gpf_del_all_ups : forall x l w h, gp_frame x w (del_all_ups l w h).
Proof.
  intros x l. induction l as [|u l IH]; intros w h; cbn [del_all_ups].
  - apply gpf_refl.
  - eapply gpf_trans; [apply gpf_del_up_conn | apply IH].
Qed.

Lemma gpf_drop_all_ups : forall x l w h c, gp_frame x w (drop_all_ups l w h c).
Proof.
  intros x l. induction l as [|u l IH]; intros w h c; cbn [drop_all_ups].
  - apply gpf_refl.
  - destruct (del_up_conn w h (up_id u) true) as [w1 found] eqn:E.
    assert (H1 : gp_frame x w w1).
    { replace w1 with (fst (del_up_conn w h (up_id u) true)) by now rewrite E.
      apply gpf_del_up_conn. }
    destruct found.
    + eapply gpf_trans; [exact H1|]. eapply gpf_trans; [apply gpf_fail_up_connection | apply IH].
    + eapply gpf_trans; [exact H1 | apply IH].
Qed.

Lemma gpf_request_conns : forall x w t g id, gp_frame x w (request_conns w t g id).
Proof. intros. apply gpf_enq_all. Qed.

Lemma gpf_push_conn_notracks : forall x w h id r, gp_frame x w (push_conn_notracks w h id r).
Proof.
  intros. unfold push_conn_notracks.
  destruct (is_empty r).
  - apply gpf_close_down_conn.
  - eapply gpf_trans; [apply gpf_del_down_conn|].
    eapply gpf_trans; [apply gpf_close_down_conn | apply gpf_close_down_conn].
Qed.

(* ------------------------------------------------------------------ *)
(* The token store and the group table are not touched by client updates *)

Lemma tokens_upd : forall w h f, w_tokens (upd w h f) = w_tokens w.
Proof. reflexivity. Qed.
Lemma tokctr_upd : forall w h f, w_tokctr (upd w h f) = w_tokctr w.
Proof. reflexivity. Qed.
Lemma groups_upd : forall w h f, w_groups (upd w h f) = w_groups w.
Proof. reflexivity. Qed.

Definition tok_stable (w w' : world) : Prop :=
  w_tokens w' = w_tokens w /\ w_tokctr w' = w_tokctr w.

Lemma ts_refl : forall w, tok_stable w w.
Proof. split; reflexivity. Qed.
Lemma ts_trans : forall a b c, tok_stable a b -> tok_stable b c -> tok_stable a c.
Proof. intros a b c [H1 H2] [H3 H4]. split; congruence. Qed.
Lemma ts_upd : forall w h f, tok_stable w (upd w h f).
Proof. split; reflexivity. Qed.
Lemma ts_enq : forall w h a, tok_stable w (enq w h a).
Proof. split; reflexivity. Qed.
Lemma ts_send : forall w h m, tok_stable w (send w h m).
Proof. split; reflexivity. Qed.
Lemma ts_upd_group : forall w g f, tok_stable w (upd_group w g f).
Proof. split; reflexivity. Qed.
Lemma ts_fold : forall (A : Type) (F : world -> A -> world) l w,
  (forall w a, tok_stable w (F w a)) -> tok_stable w (fold_left F l w).
Proof.
  intros A F l. induction l as [|a l IH]; intros w H; cbn [fold_left].
  - apply ts_refl.
  - eapply ts_trans; [apply H | apply IH; exact H].
Qed.
Lemma ts_enq_all : forall w hs a, tok_stable w (enq_all w hs a).
Proof. intros. apply ts_fold. intros. apply ts_enq. Qed.
Lemma ts_send_all : forall w hs m, tok_stable w (send_all w hs m).
Proof. intros. apply ts_fold. intros. apply ts_send. Qed.
Lemma ts_del_up_conn : forall w h id push, tok_stable w (fst (del_up_conn w h id push)).
Proof.
  intros. unfold del_up_conn.
  destruct (get_client w h) as [c|]; [|apply ts_refl].
  destruct (find_up c id); [|apply ts_refl]. cbn.
  destruct (c_group c); [destruct push|]; try apply ts_upd.
  eapply ts_trans; [apply ts_upd | apply ts_enq_all].
Qed.
Lemma ts_close_down_conn : forall w h id, tok_stable w (close_down_conn w h id).
Proof. split; reflexivity. Qed.
Lemma ts_fail_up_connection : forall w h c id m, tok_stable w (fail_up_connection w h c id m).
Proof.
  intros. unfold fail_up_connection, send_error. destruct (is_empty id), (is_empty m); split; reflexivity.
Qed.
Lemma ts_del_all_ups : forall l w h, tok_stable w (del_all_ups l w h).
Proof.
  intros l. induction l as [|u l IH]; intros w h; cbn [del_all_ups]; [apply ts_refl|].
  eapply ts_trans; [apply ts_del_up_conn | apply IH].
Qed.
Lemma ts_drop_all_ups : forall l w h c, tok_stable w (drop_all_ups l w h c).
Proof.
  intros l. induction l as [|u l IH]; intros w h c; cbn [drop_all_ups]; [apply ts_refl|].
  destruct (del_up_conn w h (up_id u) true) as [w1 found] eqn:E.
  assert (H1 : tok_stable w w1).
  { replace w1 with (fst (del_up_conn w h (up_id u) true)) by now rewrite E. apply ts_del_up_conn. }
  destruct found.
  - eapply ts_trans; [exact H1|]. eapply ts_trans; [apply ts_fail_up_connection | apply IH].
  - eapply ts_trans; [exact H1 | apply IH].
Qed.
Lemma ts_push_client_all : forall w g hs k id u p d, tok_stable w (push_client_all w g hs k id u p d).
Proof. intros. apply ts_enq_all. Qed.

Lemma ts_leave_group : forall w h, tok_stable w (leave_group w h).
Proof.
  intros. unfold leave_group.
  destruct (get_client w h) as [c|]; [|apply ts_refl].
  destruct (c_group c); [|apply ts_refl].
  eapply ts_trans; [apply ts_del_all_ups|].
  eapply ts_trans; [apply ts_upd|].
  eapply ts_trans; [apply ts_upd_group|].
  eapply ts_trans; [apply ts_enq|].
  eapply ts_trans; [apply ts_push_client_all|].
  apply ts_upd.
Qed.

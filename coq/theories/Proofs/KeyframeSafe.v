(* Safety (no Panic), termination (no OutOfFuel, with explicit iteration
   bounds) and a few functional facts about Model/Keyframe.v, the model of
   galene's own byte parsers in codecs/codecs.go.  Everything is proved for
   ALL lists of integers (no "is a byte" hypothesis is needed). *)
From Coq Require Import ZArith List Bool Lia.
From Coq Require Import ZifyBool.
From Galene Require Import Lib.Word Model.Keyframe.
Import ListNotations.
Open Scope Z_scope.

(* ------------------------------------------------------- the accessors *)

Lemma blen_nonneg b : 0 <= blen b.
Proof. unfold blen. lia. Qed.

Lemma blen_nil : blen [] = 0.
Proof. reflexivity. Qed.

Lemma blen_cons x b : blen (x :: b) = 1 + blen b.
Proof. unfold blen. cbn [length]. lia. Qed.

Lemma blen_app a b : blen (a ++ b) = blen a + blen b.
Proof. unfold blen. rewrite app_length. lia. Qed.

Lemma idx_ok b i : 0 <= i < blen b -> exists x, idx b i = Ok x.
Proof.
  intros H. unfold idx.
  replace ((0 <=? i) && (i <? blen b)) with true by lia.
  destruct (nth_error b (Z.to_nat i)) eqn:E; [eauto|].
  apply nth_error_None in E. unfold blen in H. lia.
Qed.

(* the characterisation of the bounds-checked accessor *)
Lemma idx_ok_iff b i : (exists x, idx b i = Ok x) <-> 0 <= i < blen b.
Proof.
  split; [|apply idx_ok].
  intros [x H]. unfold idx in H.
  destruct ((0 <=? i) && (i <? blen b)) eqn:E; [lia|discriminate].
Qed.

Lemma idx_panic_iff b i : idx b i = Panic <-> ~ (0 <= i < blen b).
Proof.
  split.
  - intros H Hr. destruct (idx_ok b i Hr) as [x Hx]. congruence.
  - intros H. unfold idx.
    destruct ((0 <=? i) && (i <? blen b)) eqn:E; [lia|reflexivity].
Qed.

Lemma idx_not_out_of_fuel b i : idx b i <> OutOfFuel.
Proof.
  unfold idx. destruct ((0 <=? i) && (i <? blen b)); [|discriminate].
  destruct (nth_error b (Z.to_nat i)); discriminate.
Qed.

Lemma idx_nth b i x : idx b i = Ok x -> nth_error b (Z.to_nat i) = Some x.
Proof.
  unfold idx. destruct ((0 <=? i) && (i <? blen b)); [|discriminate].
  destruct (nth_error b (Z.to_nat i)); congruence.
Qed.

Lemma idx_0_cons x b : idx (x :: b) 0 = Ok x.
Proof.
  unfold idx. rewrite blen_cons. pose proof (blen_nonneg b).
  replace ((0 <=? 0) && (0 <? 1 + blen b)) with true by lia. reflexivity.
Qed.

Lemma idx_S_cons x b i : 0 <= i -> idx (x :: b) (i + 1) = idx b i.
Proof.
  intros Hi. unfold idx. rewrite blen_cons.
  replace (Z.to_nat (i + 1)) with (S (Z.to_nat i)) by lia. cbn [nth_error].
  destruct ((0 <=? i) && (i <? blen b)) eqn:E.
  - replace ((0 <=? i + 1) && (i + 1 <? 1 + blen b)) with true by lia. reflexivity.
  - replace ((0 <=? i + 1) && (i + 1 <? 1 + blen b)) with false by lia. reflexivity.
Qed.

Lemma idx_1 a b r : idx (a :: b :: r) 1 = Ok b.
Proof. change 1 with (0 + 1). rewrite idx_S_cons by lia. apply idx_0_cons. Qed.
Lemma idx_2 a b c r : idx (a :: b :: c :: r) 2 = Ok c.
Proof. change 2 with (1 + 1). rewrite idx_S_cons by lia. apply idx_1. Qed.
Lemma idx_3 a b c d r : idx (a :: b :: c :: d :: r) 3 = Ok d.
Proof. change 3 with (2 + 1). rewrite idx_S_cons by lia. apply idx_2. Qed.

Lemma slice_ok b lo hi : 0 <= lo <= hi -> hi <= blen b ->
  exists s, slice b lo hi = Ok s /\ blen s = hi - lo.
Proof.
  intros H1 H2. unfold slice.
  replace ((0 <=? lo) && (lo <=? hi) && (hi <=? blen b)) with true by lia.
  eexists; split; [reflexivity|].
  unfold blen in *. rewrite firstn_length, skipn_length. lia.
Qed.

Lemma slice_panic_iff b lo hi :
  slice b lo hi = Panic <-> ~ (0 <= lo <= hi /\ hi <= blen b).
Proof.
  unfold slice.
  destruct ((0 <=? lo) && (lo <=? hi) && (hi <=? blen b)) eqn:E; split;
    intros H; try discriminate; try reflexivity; lia.
Qed.

(* b[0:len(b)] and b[n:] of a concatenation *)
Lemma slice_app_r a b : slice (a ++ b) (blen a) (blen (a ++ b)) = Ok b.
Proof.
  unfold slice. rewrite blen_app.
  pose proof (blen_nonneg a). pose proof (blen_nonneg b).
  replace ((0 <=? blen a) && (blen a <=? blen a + blen b) &&
           (blen a + blen b <=? blen a + blen b)) with true by lia.
  unfold blen.
  replace (Z.to_nat (Z.of_nat (length a) + Z.of_nat (length b) - Z.of_nat (length a)))
    with (length b) by lia.
  rewrite Nat2Z.id, skipn_app, skipn_all, Nat.sub_diag. cbn [app skipn].
  rewrite firstn_all. reflexivity.
Qed.

Lemma slice_app_l a b : slice (a ++ b) 0 (blen a) = Ok a.
Proof.
  unfold slice. rewrite blen_app.
  pose proof (blen_nonneg a). pose proof (blen_nonneg b).
  replace ((0 <=? 0) && (0 <=? blen a) && (blen a <=? blen a + blen b)) with true by lia.
  rewrite Z.sub_0_r. unfold blen. rewrite Nat2Z.id. cbn [Z.to_nat skipn].
  rewrite firstn_app, Nat.sub_diag, firstn_all. cbn [firstn]. rewrite app_nil_r.
  reflexivity.
Qed.

Lemma slice_app_mid a b c : slice (a ++ b ++ c) (blen a) (blen a + blen b) = Ok b.
Proof.
  unfold slice. rewrite !blen_app.
  pose proof (blen_nonneg a). pose proof (blen_nonneg b). pose proof (blen_nonneg c).
  replace ((0 <=? blen a) && (blen a <=? blen a + blen b) &&
           (blen a + blen b <=? blen a + (blen b + blen c))) with true by lia.
  replace (blen a + blen b - blen a) with (blen b) by lia.
  unfold blen. rewrite !Nat2Z.id, skipn_app, skipn_all, Nat.sub_diag. cbn [app skipn].
  rewrite firstn_app, Nat.sub_diag, firstn_all. cbn [firstn]. rewrite app_nil_r.
  reflexivity.
Qed.

Lemma add_nocarry_lor a b : Z.land a b = 0 -> a + b = Z.lor a b.
Proof.
  intros H. rewrite Z.add_nocarry_lxor by exact H. apply Z.lxor_lor. exact H.
Qed.

(* x & m <= m for a non-negative mask *)
Lemma land_upper_bound a m : 0 <= m -> 0 <= Z.land a m <= m.
Proof.
  intros Hm. split; [apply Z.land_nonneg; right; exact Hm|].
  assert (H : m = Z.ldiff m a + Z.land a m).
  { rewrite add_nocarry_lor.
    - rewrite (Z.land_comm a m). symmetry. apply Z.lor_ldiff_and.
    - rewrite Z.land_assoc, Z.land_ldiff. apply Z.land_0_l. }
  assert (0 <= Z.ldiff m a) by (apply Z.ldiff_nonneg; left; exact Hm).
  lia.
Qed.

Ltac idx_step :=
  match goal with
  | |- context [idx ?b ?i] =>
    let x := fresh "x" in
    let H := fresh "Hx" in
    destruct (idx_ok b i) as [x H]; [try lia | rewrite H; cbn [bind]]
  end.

Ltac done_return := eexists; split; [reflexivity | cbv beta iota; try exact I].

(* ------------------------------------------------------------------ AV1 *)

(* the LEB128 loop: never panics, never runs out of fuel [blen data + 1],
   yields a nil OBU or an offset inside the data and a non-negative length *)
Lemma get_obu_len_spec : forall fuel data offset length,
  0 <= offset <= blen data -> 0 <= length ->
  blen data - offset < Z.of_nat fuel ->
  exists r, get_obu_len fuel data offset length = Ok r /\
    match r with
    | LenReturn o _ _ => o = []
    | LenBreak off' len' => offset < off' <= blen data /\ off' <= 4 /\ 0 <= len'
    end.
Proof.
  induction fuel; intros data offset length Ho Hl Hf; [lia|].
  cbn [get_obu_len].
  destruct (blen data <=? offset) eqn:E1; [done_return; reflexivity|].
  destruct (4 <=? offset) eqn:E2; [done_return; reflexivity|].
  idx_step. cbv zeta.
  assert (Hn : 0 <= Z.lor length (Z.shiftl (Z.land x 127) (offset * 7))).
  { apply Z.lor_nonneg; split; [exact Hl|].
    apply Z.shiftl_nonneg. apply Z.land_nonneg. right. lia. }
  destruct (Z.land x 128 =? 0).
  - done_return. lia.
  - destruct (IHfuel data (offset + 1) _ ltac:(lia) Hn ltac:(lia)) as [r [Hr Hs]].
    exists r; split; [exact Hr|]. destruct r; [exact Hs|lia].
Qed.

(* the loop runs at most 5 times whatever the data (offset >= 4 cut-off) *)
Lemma get_obu_len_fuel_5 : forall data length,
  0 <= length ->
  exists r, get_obu_len 5 data 0 length = Ok r.
Proof.
  intros data length Hl.
  assert (G : forall fuel offset length, 0 <= offset <= blen data ->
    offset <= 4 -> 4 - offset < Z.of_nat fuel ->
    exists r, get_obu_len fuel data offset length = Ok r).
  { induction fuel; intros offset len Ho Ho4 Hf.
    - lia.
    - cbn [get_obu_len].
      destruct (blen data <=? offset) eqn:E1; [eauto|].
      destruct (4 <=? offset) eqn:E2; [eauto|].
      idx_step. cbv zeta. destruct (Z.land x 128 =? 0); [eauto|].
      apply IHfuel; lia. }
  apply G; [pose proof (blen_nonneg data); lia | lia | lia].
Qed.

Lemma get_obu_spec data last :
  exists obu n t, get_obu data last = Ok (obu, n, t) /\
    (1 <= blen obu -> 1 <= n <= blen data).
Proof.
  unfold get_obu. destruct last.
  - do 3 eexists; split; [reflexivity|]. lia.
  - pose proof (blen_nonneg data) as Hd.
    destruct (get_obu_len_spec (fuel_for data) data 0 0) as [r [Hr Hs]];
      [lia | lia | unfold fuel_for, blen; lia |].
    rewrite Hr; cbn [bind]. destruct r as [o n t | off len].
    + subst o. do 3 eexists; split; [reflexivity|]. rewrite blen_nil. lia.
    + destruct Hs as (Ho & _ & Hl).
      destruct (blen data <? off + len) eqn:E.
      * destruct (slice_ok data off (blen data)) as [s [Hs1 Hs2]]; [lia|lia|].
        rewrite Hs1; cbn [bind]. do 3 eexists; split; [reflexivity|]. lia.
      * destruct (slice_ok data off (off + len)) as [s [Hs1 Hs2]]; [lia|lia|].
        rewrite Hs1; cbn [bind]. do 3 eexists; split; [reflexivity|]. lia.
Qed.

Lemma av1_step_spec p w offset i : 0 <= offset <= blen p ->
  exists s, av1_step p w (offset, i) = Ok s /\
    match s with
    | Return _ => True
    | Continue (o', i') => offset < o' <= blen p /\ i' = i + 1 /\ i < w
    end.
Proof.
  intros Ho. unfold av1_step.
  destruct (slice_ok p offset (blen p)) as [data [Hd Hdl]]; [lia|lia|].
  rewrite Hd; cbn [bind].
  destruct (get_obu_spec data (w =? i + 1)) as (obu & n & t & Hg & Hn).
  rewrite Hg; cbn [bind].
  destruct (blen obu <? 1) eqn:E1; [done_return|].
  idx_step.
  set (tpe := Z.shiftr (Z.land x 56) 3).
  assert (Hfall : exists s,
    (if t || (w <=? i) then Ok (Return (false, false))
     else Ok (Continue (offset + n, i + 1))) = Ok s /\
    match s with
    | Return _ => True
    | Continue (o', i') => offset < o' <= blen p /\ i' = i + 1 /\ i < w
    end).
  { destruct (t || (w <=? i)) eqn:Et; done_return. lia. }
  destruct (i =? 0).
  - destruct (negb (tpe =? 1)); cbn [bind]; [done_return | exact Hfall].
  - destruct ((tpe =? 3) || (tpe =? 6)); cbn [bind]; [|exact Hfall].
    destruct (blen obu <? 2) eqn:E2; cbn [bind]; [done_return|].
    idx_step.
    destruct (negb (Z.land x0 128 =? 0)); cbn [bind]; done_return.
Qed.

(* fuel: one more than the bytes that remain *)
Lemma av1_loop_safe_bytes : forall fuel p w offset i,
  0 <= offset <= blen p -> blen p - offset < Z.of_nat fuel ->
  exists r, av1_loop fuel p w (offset, i) = Ok r.
Proof.
  induction fuel; intros p w offset i Ho Hf; [lia|].
  cbn [av1_loop].
  destruct (av1_step_spec p w offset i Ho) as [s [Hs Hc]].
  rewrite Hs; cbn [bind]. destruct s as [r | [o' i']]; [eauto|].
  apply IHfuel; lia.
Qed.

(* fuel: one more than the OBUs that W allows after the i-th *)
Lemma av1_loop_safe_w : forall fuel p w offset i,
  0 <= offset <= blen p -> w - i < Z.of_nat fuel -> (1 <= fuel)%nat ->
  exists r, av1_loop fuel p w (offset, i) = Ok r.
Proof.
  induction fuel; intros p w offset i Ho Hf H1; [lia|].
  cbn [av1_loop].
  destruct (av1_step_spec p w offset i Ho) as [s [Hs Hc]].
  rewrite Hs; cbn [bind]. destruct s as [r | [o' i']]; [eauto|].
  apply IHfuel; lia.
Qed.

Lemma av1_w_of_range b0 : 0 <= av1_w_of b0 <= 3.
Proof.
  unfold av1_w_of. rewrite Z.shiftr_div_pow2 by lia.
  assert (0 <= Z.land b0 48 <= 48).
  { apply land_upper_bound. lia. }
  change (2 ^ 4) with 16. lia.
Qed.

(* w as a function of the packet (0 when there is no first byte) *)
Definition av1_w (p : list Z) : Z := av1_w_of (nth 0 p 0).

Lemma av1_w_range p : 0 <= av1_w p <= 3.
Proof. apply av1_w_of_range. Qed.

Lemma idx_0_nth p x : idx p 0 = Ok x -> nth 0 p 0 = x.
Proof.
  intros H. apply idx_nth in H. destruct p; cbn in H; [discriminate|].
  cbn. congruence.
Qed.

Theorem keyframe_av1_safe : forall payload,
  exists r, keyframe_av1 (fuel_for payload) payload = Ok r.
Proof.
  intros p. unfold keyframe_av1.
  destruct (blen p <? 2) eqn:E; [eauto|].
  idx_step.
  destruct (negb (Z.land x 136 =? 8)); [eauto|].
  apply av1_loop_safe_bytes; [lia | unfold fuel_for, blen; lia].
Qed.

(* The loop over OBUs runs at most W+1 <= 4 times: that much fuel already
   produces a result, whatever the length of the packet. *)
Theorem keyframe_av1_terminates : forall payload fuel,
  (Z.to_nat (av1_w payload) + 1 <= fuel)%nat ->
  exists r, keyframe_av1 fuel payload = Ok r.
Proof.
  intros p fuel Hf. unfold keyframe_av1.
  destruct (blen p <? 2) eqn:E; [eauto|].
  idx_step.
  destruct (negb (Z.land x 136 =? 8)); [eauto|].
  unfold av1_w in Hf. rewrite (idx_0_nth p x Hx) in Hf.
  pose proof (av1_w_of_range x).
  apply av1_loop_safe_w; lia.
Qed.

Corollary keyframe_av1_terminates_4 : forall payload fuel,
  (4 <= fuel)%nat -> exists r, keyframe_av1 fuel payload = Ok r.
Proof.
  intros p fuel Hf. apply keyframe_av1_terminates.
  pose proof (av1_w_range p). lia.
Qed.

(* every iteration that continues moves offset forward, stays inside the
   packet, increments i and has i < W *)
Theorem av1_step_progress : forall p w offset i o' i',
  0 <= offset <= blen p ->
  av1_step p w (offset, i) = Ok (Continue (o', i')) ->
  offset < o' <= blen p /\ i' = i + 1 /\ i < w.
Proof.
  intros p w offset i o' i' Ho H.
  destruct (av1_step_spec p w offset i Ho) as [s [Hs Hc]].
  rewrite H in Hs. injection Hs as <-. exact Hc.
Qed.

(* more fuel never changes a result *)
Lemma av1_loop_fuel_mono : forall f p w st r,
  av1_loop f p w st = Ok r -> forall f', (f <= f')%nat -> av1_loop f' p w st = Ok r.
Proof.
  induction f; intros p w st r H f' Hf; [discriminate|].
  destruct f'; [lia|]. cbn [av1_loop] in *.
  destruct (av1_step p w st) as [s| |]; cbn [bind] in *; try discriminate.
  destruct s; [exact H|]. apply IHf; [exact H|lia].
Qed.

Theorem keyframe_av1_fuel_independent : forall payload fuel r,
  keyframe_av1 fuel payload = Ok r ->
  keyframe_av1 (fuel_for payload) payload = Ok r.
Proof.
  intros p fuel r H.
  destruct (keyframe_av1_safe p) as [r' Hr'].
  rewrite Hr'. f_equal.
  unfold keyframe_av1 in *.
  destruct (blen p <? 2); [congruence|].
  destruct (idx p 0) as [b0| |]; cbn [bind] in *; try discriminate.
  destruct (negb (Z.land b0 136 =? 8)); [congruence|].
  pose proof (av1_loop_fuel_mono _ _ _ _ _ H (Nat.max fuel (fuel_for p)) ltac:(lia)) as H1.
  pose proof (av1_loop_fuel_mono _ _ _ _ _ Hr' (Nat.max fuel (fuel_for p)) ltac:(lia)) as H2.
  congruence.
Qed.

(* ---------------------------------------------------------------- H.264 *)

(* one iteration of the aggregation loop never panics, and if it continues,
   i has grown by at least 3 (2 length bytes + a non-empty unit) and is
   still inside the packet *)
Lemma h264_step_spec p nalu i : 0 <= i ->
  exists s, h264_step p nalu i = Ok s /\
    match s with
    | Return _ => True
    | Continue i' => i + 3 <= i' <= blen p
    end.
Proof.
  intros Hi. unfold h264_step.
  destruct (blen p <? i + 2) eqn:E1; [done_return|].
  idx_step. idx_step. cbv zeta.
  set (length := Z.lor (w16 (Z.shiftl x 8)) x0).
  destruct (blen p <? i + 2 + length) eqn:E2; [done_return|].
  set (offset := if nalu =? 26 then 3 else if nalu =? 27 then 4 else 0).
  assert (Hoff : 0 <= offset <= 4).
  { subst offset. destruct (nalu =? 26); [lia|]. destruct (nalu =? 27); lia. }
  destruct (length <=? offset) eqn:E3; [done_return|].
  idx_step.
  destruct (Z.land x1 31 =? 7); [done_return|].
  destruct (24 <=? Z.land x1 31); done_return. lia.
Qed.

Theorem keyframe_h264_terminates : forall p nalu i i',
  0 <= i ->
  h264_step p nalu i = Ok (Continue i') -> i < i' <= blen p.
Proof.
  intros p nalu i i' Hi H.
  destruct (h264_step_spec p nalu i Hi) as [s [Hs Hc]].
  rewrite H in Hs. injection Hs as <-. lia.
Qed.

Lemma h264_loop_safe : forall fuel p nalu i,
  0 <= i -> blen p - i < Z.of_nat fuel -> (1 <= fuel)%nat ->
  exists r, h264_loop fuel p nalu i = Ok r.
Proof.
  induction fuel; intros p nalu i Hi Hf H1; [lia|].
  cbn [h264_loop].
  destruct (i <? blen p) eqn:E.
  - destruct (h264_step_spec p nalu i Hi) as [s [Hs Hc]].
    rewrite Hs; cbn [bind]. destruct s as [r | i']; [eauto|].
    apply IHfuel; lia.
  - destruct (i =? blen p); eauto.
Qed.

Theorem keyframe_h264_safe : forall payload,
  exists r, keyframe_h264 (fuel_for payload) payload = Ok r.
Proof.
  intros p. unfold keyframe_h264.
  destruct (blen p <? 1) eqn:E; [eauto|].
  idx_step. cbv zeta.
  destruct (Z.land x 31 =? 0); [eauto|].
  destruct (Z.land x 31 <=? 23); [eauto|].
  destruct ((Z.land x 31 =? 24) || (Z.land x 31 =? 25) || (Z.land x 31 =? 26) ||
            (Z.land x 31 =? 27)).
  - apply h264_loop_safe.
    + destruct ((Z.land x 31 =? 25) || (Z.land x 31 =? 26) || (Z.land x 31 =? 27)); lia.
    + unfold fuel_for, blen in *.
      destruct ((Z.land x 31 =? 25) || (Z.land x 31 =? 26) || (Z.land x 31 =? 27)); lia.
    + unfold fuel_for. lia.
  - destruct ((Z.land x 31 =? 28) || (Z.land x 31 =? 29)); [|eauto].
    destruct (blen p <? 2) eqn:E2; [eauto|].
    idx_step. destruct (Z.land x0 128 =? 0); eauto.
Qed.

(* the number of iterations is at most (len - i)/3 + 1: with that much fuel
   the loop already produces a result *)
Lemma h264_loop_safe_3 : forall fuel p nalu i,
  0 <= i -> blen p - i < 3 * Z.of_nat fuel -> (1 <= fuel)%nat ->
  exists r, h264_loop fuel p nalu i = Ok r.
Proof.
  induction fuel; intros p nalu i Hi Hf H1; [lia|].
  cbn [h264_loop].
  destruct (i <? blen p) eqn:E.
  - destruct (h264_step_spec p nalu i Hi) as [s [Hs Hc]].
    rewrite Hs; cbn [bind]. destruct s as [r | i']; [eauto|].
    apply IHfuel; lia.
  - destruct (i =? blen p); eauto.
Qed.

Lemma h264_loop_fuel_mono : forall f p nalu i r,
  h264_loop f p nalu i = Ok r -> forall f', (f <= f')%nat -> h264_loop f' p nalu i = Ok r.
Proof.
  induction f; intros p nalu i r H f' Hf; [discriminate|].
  destruct f'; [lia|]. cbn [h264_loop] in *.
  destruct (i <? blen p); [|exact H].
  destruct (h264_step p nalu i) as [s| |]; cbn [bind] in *; try discriminate.
  destruct s; [exact H|]. apply IHf; [exact H|lia].
Qed.

(* --------------------------------------- VP8 / VP9 (galene's part) *)

Theorem keyframe_vp8_safe : forall d, exists r, keyframe_vp8 d = Ok r.
Proof.
  intros [[[s pid] pl]|]; unfold keyframe_vp8; [|eauto].
  destruct (blen pl <? 1) eqn:E; [eauto|].
  idx_step. destruct (negb (s =? 0) && (pid =? 0) && (Z.land x 1 =? 0)); eauto.
Qed.

Theorem keyframe_vp9_safe : forall d, exists r, keyframe_vp9 d = Ok r.
Proof.
  intros [[bb pl]|]; unfold keyframe_vp9; [|eauto].
  destruct (blen pl <? 1) eqn:E; [eauto|].
  destruct (negb bb); [eauto|].
  idx_step. destruct (negb (Z.land x 192 =? 128)); [eauto|]. cbv zeta.
  destruct (negb (Z.land (Z.shiftr x 4) 3 =? 3)); eauto.
Qed.

(* the whole of codecs.Keyframe, for every codec name, every payload and
   whatever pion's depacketiser produced *)
Theorem keyframe_safe : forall name payload d,
  exists r, keyframe name payload d = Ok r.
Proof.
  intros name p d. unfold keyframe. destruct (codec_of name).
  - apply keyframe_vp8_safe.
  - apply keyframe_vp9_safe.
  - apply keyframe_av1_safe.
  - apply keyframe_h264_safe.
  - eauto.
Qed.

(* ------------------------------------------------ PacketFlags header *)

Theorem packet_flags_header_safe : forall buf,
  exists r, packet_flags_header buf = Ok r /\
    (r = None <-> blen buf < 4).
Proof.
  intros buf. unfold packet_flags_header.
  destruct (blen buf <? 4) eqn:E.
  - eexists; split; [reflexivity|]. split; [lia|reflexivity].
  - idx_step. idx_step. cbv zeta. idx_step.
    eexists; split; [reflexivity|]. split; [discriminate|lia].
Qed.

(* for bytes, Seqno is the big-endian 16-bit number at offset 2 and Marker
   the top bit of byte 1 *)
Theorem packet_flags_header_value : forall b0 b1 b2 b3 rest,
  0 <= b2 < 256 -> 0 <= b3 < 256 ->
  packet_flags_header (b0 :: b1 :: b2 :: b3 :: rest) =
    Ok (Some (256 * b2 + b3, negb (Z.land b1 128 =? 0))).
Proof.
  intros b0 b1 b2 b3 rest H2 H3. unfold packet_flags_header.
  pose proof (blen_nonneg rest).
  rewrite !blen_cons. replace (1 + (1 + (1 + (1 + blen rest))) <? 4) with false by lia.
  change 2 with (0 + 1 + 1) at 1. rewrite !idx_S_cons, idx_0_cons by lia. cbn [bind].
  change 3 with (0 + 1 + 1 + 1) at 1. rewrite !idx_S_cons, idx_0_cons by lia. cbn [bind].
  cbv zeta.
  change 1 with (0 + 1) at 1. rewrite !idx_S_cons, idx_0_cons by lia. cbn [bind].
  do 3 f_equal.
  rewrite Z.shiftl_mul_pow2 by lia. change (2 ^ 8) with 256.
  rewrite w16_small by lia.
  (* b2*256 has no bit below 8, b3 none from 8 on: or = plus *)
  rewrite <- add_nocarry_lor.
  - lia.
  - apply Z.bits_inj'. intros n Hn. rewrite Z.land_spec, Z.bits_0.
    destruct (Z.ltb_spec n 8).
    + replace (b2 * 256) with (b2 * 2 ^ 8) by reflexivity.
      rewrite Z.mul_pow2_bits_low by lia. reflexivity.
    + replace (Z.testbit b3 n) with false; [apply andb_false_r|].
      symmetry. apply Z.bits_above_log2; [lia|].
      destruct (Z.eq_dec b3 0) as [->|]; [cbn; lia|].
      apply Z.log2_lt_pow2; [lia|].
      apply Z.lt_le_trans with (2 ^ 8); [change (2 ^ 8) with 256; lia|].
      apply Z.pow_le_mono_r; lia.
Qed.

(* --------------------------------------- KeyframeDimensions (VP8) *)

Theorem keyframe_dimensions_vp8_safe : forall vp8payload,
  exists r, keyframe_dimensions_vp8 vp8payload = Ok r.
Proof.
  intros pl. unfold keyframe_dimensions_vp8.
  destruct (blen pl <? 10) eqn:E; [eauto|].
  idx_step. idx_step. idx_step. idx_step. eauto.
Qed.

Theorem keyframe_dimensions_safe : forall name d,
  exists r, keyframe_dimensions name d = Ok r.
Proof.
  intros name d. unfold keyframe_dimensions.
  destruct (codec_of name); eauto.
  destruct d; eauto. apply keyframe_dimensions_vp8_safe.
Qed.

(* width and height are 14-bit numbers *)
Theorem keyframe_dimensions_vp8_range : forall pl w h,
  keyframe_dimensions_vp8 pl = Ok (w, h) -> 0 <= w < 16384 /\ 0 <= h < 16384.
Proof.
  intros pl w h. unfold keyframe_dimensions_vp8.
  destruct (blen pl <? 10); [intros [= <- <-]; lia|].
  destruct (idx pl 6); cbn [bind]; try discriminate.
  destruct (idx pl 7); cbn [bind]; try discriminate.
  destruct (idx pl 8); cbn [bind]; try discriminate.
  destruct (idx pl 9); cbn [bind]; try discriminate.
  cbv zeta. intros [= <- <-].
  assert (G : forall x, 0 <= Z.land x 16383 < 16384).
  { intros x. pose proof (land_upper_bound x 16383). lia. }
  split; apply G.
Qed.

(* --------------------------------------------------- functional facts *)

(* H.264: a single NAL unit (types 1..23) is a keyframe exactly when its
   type is 7 (sequence parameter set) *)
Theorem h264_single_nalu : forall fuel b rest,
  1 <= Z.land b 31 <= 23 ->
  keyframe_h264 fuel (b :: rest) = Ok (Z.land b 31 =? 7, true).
Proof.
  intros fuel b rest H. unfold keyframe_h264.
  rewrite blen_cons. pose proof (blen_nonneg rest).
  replace (1 + blen rest <? 1) with false by lia.
  rewrite idx_0_cons; cbn [bind]. cbv zeta.
  replace (Z.land b 31 =? 0) with false by lia.
  replace (Z.land b 31 <=? 23) with true by lia. reflexivity.
Qed.

Corollary h264_sps_is_keyframe : forall fuel b rest,
  Z.land b 31 = 7 -> keyframe_h264 fuel (b :: rest) = Ok (true, true).
Proof.
  intros fuel b rest H. rewrite h264_single_nalu by lia. rewrite H. reflexivity.
Qed.

(* H.264 FU-A/FU-B: known as soon as there are two bytes; a keyframe iff the
   start bit is set and the fragmented unit has type 7 *)
Theorem h264_fu : forall fuel b0 b1 rest,
  Z.land b0 31 = 28 \/ Z.land b0 31 = 29 ->
  keyframe_h264 fuel (b0 :: b1 :: rest) =
    Ok (negb (Z.land b1 128 =? 0) && (Z.land b1 31 =? 7), true).
Proof.
  intros fuel b0 b1 rest H. unfold keyframe_h264.
  rewrite !blen_cons. pose proof (blen_nonneg rest).
  replace (1 + (1 + blen rest) <? 1) with false by lia.
  rewrite idx_0_cons; cbn [bind]. cbv zeta.
  replace (Z.land b0 31 =? 0) with false by lia.
  replace (Z.land b0 31 <=? 23) with false by lia.
  replace ((Z.land b0 31 =? 24) || (Z.land b0 31 =? 25) || (Z.land b0 31 =? 26) ||
           (Z.land b0 31 =? 27)) with false by lia.
  replace ((Z.land b0 31 =? 28) || (Z.land b0 31 =? 29)) with true by lia.
  replace (1 + (1 + blen rest) <? 2) with false by lia.
  change 1 with (0 + 1) at 1. rewrite idx_S_cons, idx_0_cons by lia. cbn [bind].
  destruct (Z.land b1 128 =? 0); reflexivity.
Qed.

(* H.264 STAP-A whose first aggregated unit has type 7 *)
Theorem h264_stap_a_first_sps : forall fuel b0 l1 l2 n rest,
  Z.land b0 31 = 24 -> 0 <= l1 < 256 -> 0 <= l2 < 256 ->
  1 <= 256 * l1 + l2 <= 1 + blen rest ->
  Z.land n 31 = 7 ->
  keyframe_h264 (S fuel) (b0 :: l1 :: l2 :: n :: rest) = Ok (true, true).
Proof.
  intros fuel b0 l1 l2 n rest H0 H1 H2 Hl Hn. unfold keyframe_h264.
  rewrite !blen_cons. pose proof (blen_nonneg rest) as Hr.
  replace (1 + (1 + (1 + (1 + blen rest))) <? 1) with false by lia.
  rewrite idx_0_cons; cbn [bind]. cbv zeta. rewrite H0.
  cbn [Z.eqb Z.leb Z.compare Pos.compare Pos.compare_cont orb Pos.eqb].
  cbn [h264_loop]. rewrite !blen_cons.
  replace (1 <? 1 + (1 + (1 + (1 + blen rest)))) with true by lia.
  unfold h264_step. rewrite !blen_cons.
  replace (1 + (1 + (1 + (1 + blen rest))) <? 1 + 2) with false by lia.
  rewrite idx_1. cbn [bind]. change (1 + 1) with 2. rewrite idx_2. cbn [bind].
  cbv zeta.
  assert (Hlen : Z.lor (w16 (Z.shiftl l1 8)) l2 = 256 * l1 + l2).
  { rewrite Z.shiftl_mul_pow2 by lia. change (2 ^ 8) with 256.
    rewrite w16_small by lia.
    rewrite <- add_nocarry_lor; [lia|].
    apply Z.bits_inj'. intros k Hk. rewrite Z.land_spec, Z.bits_0.
    destruct (Z.ltb_spec k 8).
    - replace (l1 * 256) with (l1 * 2 ^ 8) by reflexivity.
      rewrite Z.mul_pow2_bits_low by lia. reflexivity.
    - replace (Z.testbit l2 k) with false; [apply andb_false_r|].
      symmetry. apply Z.bits_above_log2; [lia|].
      destruct (Z.eq_dec l2 0) as [->|]; [cbn; lia|].
      apply Z.log2_lt_pow2; [lia|].
      apply Z.lt_le_trans with (2 ^ 8); [change (2 ^ 8) with 256; lia|].
      apply Z.pow_le_mono_r; lia. }
  rewrite Hlen.
  cbn [Z.eqb Pos.eqb].
  replace (1 + (1 + (1 + (1 + blen rest))) <? 1 + 2 + (256 * l1 + l2)) with false by lia.
  replace (256 * l1 + l2 <=? 0) with false by lia.
  change (1 + 2 + 0) with 3. rewrite idx_3. cbn [bind]. rewrite Hn. reflexivity.
Qed.

(* concrete packets, computed *)

(* single NALU of type 7 (0x67 = SPS) / type 5 (0x65 = IDR slice: not
   reported as a keyframe by this code) *)
Example h264_ex_sps : keyframe_h264 (fuel_for [103; 66; 0; 31]) [103; 66; 0; 31] = Ok (true, true).
Proof. vm_compute. reflexivity. Qed.
Example h264_ex_idr : keyframe_h264 (fuel_for [101; 136]) [101; 136] = Ok (false, true).
Proof. vm_compute. reflexivity. Qed.
(* STAP-A (24): unit of length 2 type 1, then unit of length 1 type 7 *)
Example h264_ex_stap : keyframe_h264 8 [24; 0; 2; 65; 9; 0; 1; 103] = Ok (true, true).
Proof. vm_compute. reflexivity. Qed.
(* STAP-A whose last length points one past the end *)
Example h264_ex_stap_past : keyframe_h264 8 [24; 0; 2; 65; 9; 0; 2; 65] = Ok (false, false).
Proof. vm_compute. reflexivity. Qed.
(* STAP-A with exact lengths and no SPS: definitely not a keyframe *)
Example h264_ex_stap_exact : keyframe_h264 8 [24; 0; 2; 65; 9; 0; 1; 65] = Ok (false, true).
Proof. vm_compute. reflexivity. Qed.
(* MTAP16 (26): DON(2) then length 4, DOND + 2 bytes TS offset, then the unit *)
Example h264_ex_mtap16 : keyframe_h264 9 [26; 0; 0; 0; 4; 0; 0; 0; 103] = Ok (true, true).
Proof. vm_compute. reflexivity. Qed.
(* MTAP16 with a unit shorter than its own header *)
Example h264_ex_mtap16_short : keyframe_h264 9 [26; 0; 0; 0; 3; 0; 0; 0; 103] = Ok (false, false).
Proof. vm_compute. reflexivity. Qed.
(* FU-A start of type 7 / continuation *)
Example h264_ex_fua_start : keyframe_h264 3 [124; 135] = Ok (true, true).
Proof. vm_compute. reflexivity. Qed.
Example h264_ex_fua_cont : keyframe_h264 3 [124; 7] = Ok (false, true).
Proof. vm_compute. reflexivity. Qed.

(* AV1.  Aggregation header Z=0,Y=0,W=2,N=1 = 0x28.  First OBU: length 2,
   header 0x0a = type 1 (sequence header).  Second OBU (last, no length):
   header 0x32 = type 6 (frame), next byte 0x10: show_existing_frame=0,
   frame_type=0 (KEY). *)
Example av1_ex_key : keyframe_av1 (fuel_for [40; 2; 10; 0; 50; 16]) [40; 2; 10; 0; 50; 16] = Ok (true, true).
Proof. vm_compute. reflexivity. Qed.
(* the same with frame_type=1 (INTER): 0x30 *)
Example av1_ex_inter : keyframe_av1 6 [40; 2; 10; 0; 50; 48] = Ok (false, true).
Proof. vm_compute. reflexivity. Qed.
(* show_existing_frame=1 *)
Example av1_ex_show_existing : keyframe_av1 6 [40; 2; 10; 0; 50; 144] = Ok (false, true).
Proof. vm_compute. reflexivity. Qed.
(* N=0: not the start of a coded video sequence *)
Example av1_ex_n0 : keyframe_av1 6 [32; 2; 10; 0; 50; 16] = Ok (false, true).
Proof. vm_compute. reflexivity. Qed.
(* W=0: every OBU has a length; frame header (type 3) as second OBU *)
Example av1_ex_w0 : keyframe_av1 7 [8; 2; 10; 0; 2; 26; 0] = Ok (false, false).
Proof. vm_compute. reflexivity. Qed.
(* W=3 with a temporal delimiter... the first OBU must be the sequence header *)
Example av1_ex_first_not_seq : keyframe_av1 7 [56; 1; 18; 1; 10; 50; 16] = Ok (false, true).
Proof. vm_compute. reflexivity. Qed.
(* W=3: sequence header, a metadata OBU (type 5), then the frame header *)
Example av1_ex_w3 : keyframe_av1 8 [56; 1; 10; 1; 42; 26; 0] = Ok (true, true).
Proof. vm_compute. reflexivity. Qed.
(* a two-byte LEB128 length (0x81 0x00 = 1) is accepted *)
Example av1_ex_leb2 : keyframe_av1 8 [40; 129; 0; 10; 50; 16] = Ok (true, true).
Proof. vm_compute. reflexivity. Qed.
(* a five-byte LEB128 length is refused (offset >= 4) *)
Example av1_ex_leb5 : keyframe_av1 9 [40; 129; 128; 128; 128; 0; 10; 50; 16] = Ok (false, false).
Proof. vm_compute. reflexivity. Qed.
(* a length that points one past the end: the OBU is cut, and after a
   sequence header the search gives up *)
Example av1_ex_past : keyframe_av1 6 [40; 5; 10; 0; 50; 16] = Ok (false, false).
Proof. vm_compute. reflexivity. Qed.

(* AV1, general form of the first example: aggregation header with Z=0, N=1
   and W=2; a first OBU of 1..127 bytes (one-byte LEB128 length) whose type
   is 1 (sequence header); a second OBU of type 3 or 6 whose second byte has
   show_existing_frame=0 and frame_type=KEY.  Whatever the other bytes: a
   keyframe. *)

(* a one-byte LEB128 length that fits: the OBU is exactly the next L bytes *)
Lemma get_obu_one_byte_len : forall obu rest,
  blen obu < 128 ->
  get_obu (blen obu :: obu ++ rest) false = Ok (obu, 1 + blen obu, false).
Proof.
  intros obu rest HL.
  pose proof (blen_nonneg obu) as H0. pose proof (blen_nonneg rest) as H1.
  set (L := blen obu) in *.
  assert (HL7 : Z.land L 127 = L).
  { change 127 with (Z.ones 7). rewrite Z.land_ones by lia.
    apply Z.mod_small. change (2 ^ 7) with 128. lia. }
  assert (HL8 : Z.land L 128 = 0).
  { apply Z.bits_inj'. intros n Hn. rewrite Z.land_spec, Z.bits_0.
    destruct (Z.eq_dec n 7) as [->|Hne].
    - replace (Z.testbit L 7) with false; [reflexivity|].
      symmetry. destruct (Z.eq_dec L 0) as [->|]; [reflexivity|].
      apply Z.bits_above_log2; [lia|].
      apply Z.log2_lt_pow2; [lia|]. change (2 ^ 7) with 128. lia.
    - replace (Z.testbit 128 n) with false; [apply andb_false_r|].
      change 128 with (2 ^ 7). rewrite Z.pow2_bits_eqb by lia.
      symmetry. apply Z.eqb_neq. lia. }
  unfold get_obu, fuel_for. cbn [length get_obu_len].
  replace (blen (L :: obu ++ rest) <=? 0) with false
    by (rewrite blen_cons, blen_app; lia).
  change (4 <=? 0) with false. cbv iota.
  rewrite idx_0_cons; cbn [bind]. cbv zeta.
  rewrite HL8, HL7. change (0 * 7) with 0. rewrite Z.shiftl_0_r, Z.lor_0_l.
  change (0 =? 0) with true. cbv iota. cbn [bind]. change (0 + 1) with 1.
  replace (blen (L :: obu ++ rest) <? 1 + L) with false
    by (rewrite blen_cons, blen_app; lia).
  change (L :: obu ++ rest) with ([L] ++ obu ++ rest).
  change 1 with (blen [L]) at 1 2. subst L. rewrite slice_app_mid. reflexivity.
Qed.

Theorem av1_seq_then_key_frame : forall fuel b0 h1 body1 h2 f2 body2,
  Z.land b0 136 = 8 -> av1_w_of b0 = 2 ->
  blen (h1 :: body1) < 128 ->
  Z.shiftr (Z.land h1 56) 3 = 1 ->
  Z.shiftr (Z.land h2 56) 3 = 3 \/ Z.shiftr (Z.land h2 56) 3 = 6 ->
  Z.land f2 128 = 0 -> Z.land f2 96 = 0 ->
  keyframe_av1 (S (S fuel))
    (b0 :: blen (h1 :: body1) :: (h1 :: body1) ++ h2 :: f2 :: body2) = Ok (true, true).
Proof.
  intros fuel b0 h1 body1 h2 f2 body2 Hz Hw Hl1 Ht1 Ht2 Hs Hk.
  pose proof (blen_nonneg body1) as Hb1. pose proof (blen_nonneg body2) as Hb2.
  assert (Hlen2 : blen (h2 :: f2 :: body2) = 2 + blen body2) by (rewrite !blen_cons; lia).
  assert (Hlen1 : blen (h1 :: body1) = 1 + blen body1) by (rewrite !blen_cons; lia).
  remember (h1 :: body1) as obu1 eqn:E1.
  remember (h2 :: f2 :: body2) as obu2 eqn:E2.
  unfold keyframe_av1.
  replace (blen (b0 :: blen obu1 :: obu1 ++ obu2) <? 2) with false
    by (rewrite !blen_cons, blen_app; lia).
  rewrite idx_0_cons; cbn [bind]. rewrite Hz. change (negb (8 =? 8)) with false. cbv iota.
  rewrite Hw.
  (* first iteration: the sequence header *)
  cbn [av1_loop]. unfold av1_step at 1.
  change (b0 :: blen obu1 :: obu1 ++ obu2) with ([b0] ++ (blen obu1 :: obu1 ++ obu2)).
  change 1 with (blen [b0]) at 1. rewrite slice_app_r; cbn [bind].
  change (2 =? 0 + 1) with false.
  rewrite get_obu_one_byte_len by exact Hl1. cbn [bind].
  replace (blen obu1 <? 1) with false by lia.
  rewrite E1 at 1. rewrite idx_0_cons; cbn [bind]. rewrite Ht1.
  change (0 =? 0) with true. change (negb (1 =? 1)) with false. cbv iota. cbn [bind orb].
  change (2 <=? 0) with false. cbv iota. change (0 + 1) with 1.
  (* second iteration: the last OBU, which has no length *)
  cbn [av1_loop bind]. unfold av1_step. cbv beta iota.
  replace ([b0] ++ blen obu1 :: obu1 ++ obu2) with (([b0] ++ [blen obu1] ++ obu1) ++ obu2)
    by (rewrite <- !app_assoc; reflexivity).
  replace (1 + (1 + blen obu1)) with (blen ([b0] ++ [blen obu1] ++ obu1))
    by (rewrite !blen_app; change (blen [b0]) with 1; change (blen [blen obu1]) with 1; lia).
  rewrite slice_app_r; cbn [bind].
  change (2 =? 1 + 1) with true. unfold get_obu. cbn [bind].
  replace (blen obu2 <? 1) with false by lia.
  rewrite E2 at 1. rewrite idx_0_cons; cbn [bind].
  change (1 =? 0) with false. cbv iota.
  replace ((Z.shiftr (Z.land h2 56) 3 =? 3) || (Z.shiftr (Z.land h2 56) 3 =? 6)) with true by lia.
  replace (blen obu2 <? 2) with false by lia.
  rewrite E2. rewrite idx_1; cbn [bind].
  rewrite Hs, Hk. reflexivity.
Qed.

(* C14, part 8: every handler, every scheduler step and every history
   preserves the invariant. *)
From Coq Require Import ZArith List Bool String Arith Lia.
From Galene Require Import Generated.Guards Model.Signal Model.SignalUsers
  Proofs.SignalFrame Proofs.SignalSafe Proofs.SignalUsersBase Proofs.SignalUsersFrame
  Proofs.SignalUsersInv Proofs.SignalUsersAnnounce Proofs.SignalUsersLeave
  Proofs.SignalUsersJoin Proofs.SignalUsersMisc.
Import ListNotations.
Open Scope string_scope.
Open Scope list_scope.

Ltac handler_neutral H :=
  cbv zeta in H; repeat break_eq; inv_eqs; finish_ok H; ntl.

(* ------------------------------------------------------------------ *)
(* Message handlers that are neutral                                   *)

Lemma handle_request_neutral : forall w h c m r, handle_request w h c m = Ok r -> neutral w (r_world r).
Proof. intros w h c m r H. unfold handle_request in H. handler_neutral H. Qed.

Lemma handle_request_stream_neutral : forall w h c m r,
  handle_request_stream w h c m = Ok r -> neutral w (r_world r).
Proof. intros w h c m r H. unfold handle_request_stream in H. handler_neutral H. Qed.

Lemma got_offer_neutral : forall w h c m r, got_offer w h c m = Ok r -> neutral w (r_world r).
Proof. intros w h c m r H. unfold got_offer in H. handler_neutral H. Qed.

Lemma handle_offer_neutral : forall w h c m r, handle_offer w h c m = Ok r -> neutral w (r_world r).
Proof.
  intros w h c m r H. unfold handle_offer in H.
  destruct (is_empty (m_id m)); [finish_ok H; ntl|].
  destruct (negb (has_perms c "offer" (m_kind m))); [finish_ok H; ntl|].
  eapply got_offer_neutral; exact H.
Qed.

Lemma handle_answer_neutral : forall w h c m r, handle_answer w h c m = Ok r -> neutral w (r_world r).
Proof. intros w h c m r H. unfold handle_answer in H. handler_neutral H. Qed.
Lemma handle_renegotiate_neutral : forall w h c m r, handle_renegotiate w h c m = Ok r -> neutral w (r_world r).
Proof. intros w h c m r H. unfold handle_renegotiate in H. handler_neutral H. Qed.
Lemma handle_close_neutral : forall w h c m r, handle_close w h c m = Ok r -> neutral w (r_world r).
Proof. intros w h c m r H. unfold handle_close in H. handler_neutral H. Qed.
Lemma handle_abort_neutral : forall w h c m r, handle_abort w h c m = Ok r -> neutral w (r_world r).
Proof. intros w h c m r H. unfold handle_abort in H. handler_neutral H. Qed.
Lemma handle_ice_neutral : forall w h c m r, handle_ice w h c m = Ok r -> neutral w (r_world r).
Proof. intros w h c m r H. unfold handle_ice in H. handler_neutral H. Qed.

Lemma handle_chat_neutral : forall w h c m r,
  m_type m = "chat" \/ m_type m = "usermessage" ->
  handle_chat w h c m = Ok r -> neutral w (r_world r).
Proof.
  intros w h c m r Ht H. unfold handle_chat in H.
  destruct Ht as [Ht | Ht]; rewrite Ht in H; handler_neutral H.
Qed.

(* ------------------------------------------------------------------ *)
(* groupaction: neutral, or the recorder comes or goes                 *)

Definition record_world (w : world) (g : str) : world :=
  let w1 := upd_group w g (fun gr => gset_recording gr true) in
  let w2 := push_client_all w1 g (members w1 g) "add" "?" "RECORDING" ["system"] [] in
  enq_all w2 (members w2 g) (ARequestConns (Some g) None "").

Definition unrecord_world (w : world) (g : str) : world :=
  let w1 := upd_group w g (fun gr => gset_recording gr false) in
  push_client_all w1 g (members w1 g) "delete" "?" "RECORDING" [] [].

Lemma handle_groupaction_cases : forall w h c m r g,
  c_group c = Some g -> handle_groupaction w h c m = Ok r ->
  neutral w (r_world r) \/
  (exists gr, find_group w g = Some gr /\ r_world r = record_world w g) \/
  (exists gr, find_group w g = Some gr /\ r_world r = unrecord_world w g).
Proof.
  intros w h c m r g Hg H. unfold handle_groupaction in H. rewrite Hg in H. cbv zeta in H.
  destruct (if needs_member "groupaction" (m_kind m) then Some g else Some "");
    [|finish_ok H; left; ntl].
  destruct (String.eqb (m_kind m) "clearchat"); [left; handler_neutral H|].
  destruct (String.eqb (m_kind m) "lock" || String.eqb (m_kind m) "unlock"); [left; handler_neutral H|].
  destruct (String.eqb (m_kind m) "record").
  { destruct (negb (has_perms c "groupaction" (m_kind m))); [finish_ok H; left; ntl|].
    destruct (find_group w g) as [gr|] eqn:Egr; [|finish_ok H; left; ntl].
    destruct (g_recording gr); [finish_ok H; left; ntl|].
    finish_ok H. right. left. exists gr. split; reflexivity. }
  destruct (String.eqb (m_kind m) "unrecord").
  { destruct (negb (has_perms c "groupaction" (m_kind m))); [finish_ok H; left; ntl|].
    destruct (find_group w g) as [gr|] eqn:Egr; [|finish_ok H; left; ntl].
    destruct (g_recording gr); [|finish_ok H; left; ntl].
    finish_ok H. right. right. exists gr. split; reflexivity. }
  destruct (String.eqb (m_kind m) "subgroups"); [left; handler_neutral H|].
  destruct (String.eqb (m_kind m) "setdata"); [left; handler_neutral H|].
  destruct (String.eqb (m_kind m) "maketoken"); [left; handler_neutral H|].
  destruct (String.eqb (m_kind m) "edittoken"); [left; handler_neutral H|].
  destruct (String.eqb (m_kind m) "listtokens"); [left; handler_neutral H|].
  finish_ok H. left. ntl.
Qed.

(* useraction: neutral, or the sender's data changes and is announced *)
Definition setdata_world (w : world) (h : nat) (c : client) (g : str) (d : list (str * str)) : world :=
  let w1 := upd w h (fun c0 => set_data c0 d) in
  push_client_all w1 g (members w1 g) "change" (c_id c) (c_username c) (c_perms c) d.

Lemma handle_useraction_cases : forall w h c m r g,
  c_group c = Some g -> handle_useraction w h c m = Ok r ->
  neutral w (r_world r) \/ exists d, r_world r = setdata_world w h c g d.
Proof.
  intros w h c m r g Hg H. unfold handle_useraction in H. rewrite Hg in H. cbv zeta in H.
  destruct (if needs_member "useraction" (m_kind m) then Some g else Some "");
    [|finish_ok H; left; ntl].
  destruct (is_perm_kind (m_kind m)); [left; handler_neutral H|].
  destruct (String.eqb (m_kind m) "identify"); [left; handler_neutral H|].
  destruct (String.eqb (m_kind m) "kick"); [left; handler_neutral H|].
  destruct (String.eqb (m_kind m) "setdata").
  { destruct (_ && _); [finish_ok H; left; ntl|].
    destruct (negb (has_perms c "useraction" (m_kind m))); [finish_ok H; left; ntl|].
    destruct (m_value m); try (finish_ok H; left; ntl; fail).
    finish_ok H. right. eexists. reflexivity. }
  finish_ok H. left. ntl.
Qed.

(* ------------------------------------------------------------------ *)
(* join                                                                *)

Lemma handle_join_inv : forall w s ph h c m r,
  Inv_p w s ph [] None -> get_client w h = Some c -> c_closed c = false ->
  handle_join w h c m = Ok r -> Inv_p (r_world r) s ph [] None.
Proof.
  intros w s ph h c m r HI Hc Hcl H. unfold handle_join in H.
  destruct (String.eqb (m_kind m) "leave").
  { repeat break_hyp H; finish_ok H; try exact HI. apply inv_leave_group. exact HI. }
  destruct (negb (String.eqb (m_kind m) "join")); [finish_ok H; exact HI|].
  destruct (c_group c) eqn:Eg; [finish_ok H; exact HI|].
  cbv zeta in H.
  match type of H with (if ?b then _ else _) = _ => destruct b end.
  { finish_ok H. eapply inv_neutral; [exact HI|]. apply neutral_send. reflexivity. }
  set (w0 := upd w h (fun c0 => set_data c0 (m_data m))) in *.
  set (c0 := set_data c (m_data m)) in *.
  assert (Hc0 : get_client w0 h = Some c0)
    by (apply (get_client_upd_self w h (fun c0 => set_data c0 (m_data m)) c Hc)).
  assert (HI0 : Inv_p w0 s ph [] None).
  { apply (inv_nonmember_upd w s ph [] h c _ HI Hc Eg); solve [reflexivity | exact Eg]. }
  destruct (add_client w0 h c0 (m_group m) (m_username m) (m_password m) (m_token m)) as [wr oe] eqn:Ea.
  destruct (add_client_result _ _ _ _ _ _ _ _ _ Ea) as (w1 & c1 & Hrel & Hres).
  assert (H1 : Inv_p w1 s ph [] None /\ get_client w1 h = Some c1 /\ c_group c1 = None /\
               c_closed c1 = false /\ w_groups w1 = w_groups w).
  { destruct Hrel as [[-> ->] | (uname & perms & -> & ->)].
    - split; [exact HI0|]. split; [exact Hc0|]. split; [exact Eg|]. split; [exact Hcl | reflexivity].
    - split; [apply (inv_nonmember_upd w0 s ph [] h c0 _ HI0 Hc0 Eg); solve [reflexivity | exact Eg]|].
      split; [apply (get_client_upd_self w0 h (fun c2 => set_perms (set_username c2 uname) perms) c0 Hc0)|].
      split; [exact Eg|]. split; [exact Hcl | reflexivity]. }
  destruct H1 as (HI1 & Hc1 & Hg1 & Hcl1 & Hgr1).
  destruct Hres as [[Hoe ->] | (-> & gr & Hgr & Hnew & ->)].
  - (* refused *)
    destruct oe as [e|]; [|congruence].
    destruct (join_fail_text e) as [ec v]. finish_ok H.
    set (w2 := upd w1 h (fun c2 => set_data (set_perms c2 []) [])).
    assert (HI2 : Inv_p w2 s ph [] None).
    { apply (inv_nonmember_upd w1 s ph [] h c1 _ HI1 Hc1 Hg1); solve [reflexivity | exact Hg1]. }
    assert (Hc2 : get_client w2 h = Some (set_data (set_perms c1 []) []))
      by (apply (get_client_upd_self w1 h (fun c2 => set_data (set_perms c2 []) []) c1 Hc1)).
    eapply inv_send_fail; [exact HI2 | exact Hc2 | exact Hg1].
  - (* the join is accepted *)
    finish_ok H.
    assert (Hgr' : find_group w1 (m_group m) = Some gr).
    { unfold find_group in *. rewrite Hgr1. exact Hgr. }
    apply (inv_join w1 s ph h c1 (m_group m) gr HI1 Hc1 Hg1 Hcl1 Hgr' Hnew).
Qed.

(* ------------------------------------------------------------------ *)
(* handleClientMessage                                                 *)

Lemma handle_client_message_inv : forall w s ph h c m r,
  Inv_p w s ph [] None -> get_client w h = Some c -> c_closed c = false ->
  handle_client_message w h c m = Ok r -> Inv_p (r_world r) s ph [] None.
Proof.
  intros w s ph h c m r HI Hc Hcl H. unfold handle_client_message in H.
  match type of H with (if ?b then _ else _) = _ => destruct b end; [finish_ok H; exact HI|].
  match type of H with (if ?b then _ else _) = _ => destruct b end; [finish_ok H; exact HI|].
  cbv zeta in H.
  destruct (String.eqb (m_type m) "join"); [eapply handle_join_inv; eauto|].
  destruct (String.eqb (m_type m) "request");
    [eapply inv_neutral; [exact HI | eapply handle_request_neutral; eauto]|].
  destruct (String.eqb (m_type m) "requestStream");
    [eapply inv_neutral; [exact HI | eapply handle_request_stream_neutral; eauto]|].
  destruct (String.eqb (m_type m) "offer");
    [eapply inv_neutral; [exact HI | eapply handle_offer_neutral; eauto]|].
  destruct (String.eqb (m_type m) "answer");
    [eapply inv_neutral; [exact HI | eapply handle_answer_neutral; eauto]|].
  destruct (String.eqb (m_type m) "renegotiate");
    [eapply inv_neutral; [exact HI | eapply handle_renegotiate_neutral; eauto]|].
  destruct (String.eqb (m_type m) "close");
    [eapply inv_neutral; [exact HI | eapply handle_close_neutral; eauto]|].
  destruct (String.eqb (m_type m) "abort");
    [eapply inv_neutral; [exact HI | eapply handle_abort_neutral; eauto]|].
  destruct (String.eqb (m_type m) "ice");
    [eapply inv_neutral; [exact HI | eapply handle_ice_neutral; eauto]|].
  destruct (String.eqb (m_type m) "chat" || String.eqb (m_type m) "usermessage") eqn:Ec.
  { eapply inv_neutral; [exact HI | eapply handle_chat_neutral; [|exact H]].
    apply orb_prop in Ec. destruct Ec as [E | E]; apply eqb_true in E; auto. }
  destruct (String.eqb (m_type m) "groupaction").
  { destruct (c_group c) as [g|] eqn:Eg.
    - destruct (handle_groupaction_cases w h c m r g Eg H) as [Hn | [(gr & Hgr & ->) | (gr & Hgr & ->)]].
      + eapply inv_neutral; eauto.
      + unfold record_world. cbv zeta. eapply inv_neutral; [eapply inv_record; eauto|].
        apply neutral_enq_all. reflexivity.
      + unfold unrecord_world. eapply inv_unrecord; eauto.
    - unfold handle_groupaction in H. rewrite Eg in H. cbv zeta in H. rewrite nm_groupaction in H.
      finish_ok H. eapply inv_neutral; [exact HI | ntl]. }
  destruct (String.eqb (m_type m) "useraction").
  { destruct (c_group c) as [g|] eqn:Eg.
    - destruct (handle_useraction_cases w h c m r g Eg H) as [Hn | (d & ->)].
      + eapply inv_neutral; eauto.
      + unfold setdata_world. eapply inv_setdata; eauto.
    - unfold handle_useraction in H. rewrite Eg in H. cbv zeta in H. rewrite nm_useraction in H.
      finish_ok H. eapply inv_neutral; [exact HI | ntl]. }
  destruct (String.eqb (m_type m) "pong"); [finish_ok H; exact HI|].
  destruct (String.eqb (m_type m) "ping"); [finish_ok H; eapply inv_neutral; [exact HI | ntl]|].
  finish_ok H. exact HI.
Qed.

(* ------------------------------------------------------------------ *)
(* handleAction                                                        *)

Lemma handle_action_inv : forall w s h c a r res,
  Inv_p w s h (a :: r) None -> get_client w h = Some c -> handle_action w h c a = Ok res ->
  (r_err res = ENone -> Inv_p (r_world res) s h r None) /\ (r_err res <> ENone -> r_world res = w).
Proof.
  intros w s h c a r res HI Hc H. destruct a; cbn [handle_action] in H.
  - (* APushConn *)
    pose proof (inv_drop_head w s h _ r None c HI Hc eq_refl) as HI'.
    destruct (opt_str_eqb (c_group c) g); finish_ok H; (split; [intros _ | congruence]);
      [eapply inv_neutral; [exact HI' | ntl] | exact HI'].
  - (* ARequestConns *)
    pose proof (inv_drop_head w s h _ r None c HI Hc eq_refl) as HI'.
    destruct (opt_str_eqb (c_group c) g); [destruct target|]; finish_ok H;
      (split; [intros _ | congruence]); try exact HI'.
    eapply inv_neutral; [exact HI'|]. apply neutral_fold. intros w0 u _.
    destruct (_ && _); [apply neutral_refl | apply neutral_enq; reflexivity].
  - (* AConnFailed *)
    pose proof (inv_drop_head w s h _ r None c HI Hc eq_refl) as HI'.
    destruct (find_down c id); [|destruct (find_up c id)]; finish_ok H;
      (split; [intros _ | congruence]); try exact HI';
      (eapply inv_neutral; [exact HI' | ntl]).
  - (* APushClient *)
    pose proof (inv_head_push w s h r c g kind id username perms data HI Hc) as HI'.
    destruct (c_group c) as [g'|]; [destruct (String.eqb g g')|]; finish_ok H;
      (split; [intros _; exact HI' | congruence]).
  - (* AJoined *)
    cbv zeta in H.
    set (gr := if is_empty g then None else find_group w g) in *.
    set (locked := match gr with
                   | Some gr0 => match g_locked gr0 with Some _ => true | None => false end
                   | None => false end) in *.
    pose proof (inv_head_joined w s h r c g kind (c_username c) (c_perms c) "" "" locked HI Hc) as HI'.
    destruct (String.eqb kind "join"); [destruct gr as [gr0|]|]; finish_ok H;
      (split; [intros _ | congruence]); try exact HI'.
    eapply inv_neutral; [exact HI'|]. apply neutral_fold. intros w0 e _.
    apply neutral_send. reflexivity.
  - (* AChangePerms *)
    pose proof (inv_drop_head w s h _ r None c HI Hc eq_refl) as HI'.
    destruct (negb (opt_str_eqb (c_group c) (Some g))) eqn:Eg;
      [finish_ok H; split; [intros _; exact HI' | congruence]|].
    apply negb_false_iff in Eg. apply opt_str_eqb_true in Eg. destruct Eg as (g' & Eg & Eg').
    inversion Eg'; subst g'. cbv zeta in H.
    destruct (change_perms _ kind (c_perms c)) as [p|]; finish_ok H; (split; [intros E | congruence]);
      [|discriminate E].
    apply (inv_changeperms w s h r c g p HI' Hc Eg).
  - (* APermsChanged *)
    destruct (c_group c) as [g|] eqn:Eg; [|finish_ok H; split; [intros E; discriminate E | reflexivity]].
    cbv zeta in H. finish_ok H. split; [intros _ | congruence].
    pose proof (inv_head_permschanged w s h r c g HI Hc Eg) as HI'.
    set (w1 := send w h (out_joined "change" g (c_username c) (c_perms c) "" "" (locked_flag w g))).
    set (w2 := if mem "present" (c_perms c) then w1 else drop_all_ups (c_up c) w1 h c).
    assert (Hn : neutral w w2).
    { unfold w2, w1. destruct (mem "present" (c_perms c)); ntl. }
    pose proof (inv_neutral w w2 s h r _ HI' Hn) as HI2.
    destruct (neutral_client w w2 h c Hn Hc) as (c2 & Hc2 & [Hco _]).
    unfold core in Hco.
    replace (c_id c) with (c_id c2) in * by congruence.
    replace (c_username c) with (c_username c2) by congruence.
    replace (c_perms c) with (c_perms c2) by congruence.
    apply (inv_announce_self w2 s h r h c2 g "change" (c_data c) HI2 Hc2); [congruence | auto].
  - (* AKick *)
    finish_ok H. split; [intros E; discriminate E | reflexivity].
Qed.

(* ------------------------------------------------------------------ *)
(* One batch, the end of a connection, the scheduler steps             *)

Lemma inv_pend_noclient : forall w s h pend pend' exc,
  get_client w h = None -> Inv_p w s h pend exc -> Inv_p w s h pend' exc.
Proof.
  intros w s h pend pend' exc Hn [HS HV]. split; [exact HS|]. constructor.
  - apply (v_seen _ _ _ _ _ HV).
  - intros i ci id Hi Hcl Hgr. assert (i <> h) by congruence.
    rewrite effq_other by assumption. rewrite <- (effq_other h pend i ci H).
    apply (v_nm _ _ _ _ _ HV i ci id Hi Hcl Hgr).
  - intros i ci g id Hi Hgr. assert (i <> h) by congruence.
    rewrite effq_other by assumption. rewrite <- (effq_other h pend i ci H).
    destruct (v_view _ _ _ _ _ HV i ci g id Hi Hgr) as [H0 | [H0 | H0]]; [left; exact H0 | | right; right; exact H0].
    right. left. destruct H0 as (x & cx & Hx1 & Hx2 & Hx3 & Hx4). assert (x <> h) by congruence.
    exists x, cx. rewrite effq_other in * by assumption. auto.
Qed.

Lemma run_batch_inv : forall q w s h res,
  Inv_p w s h q None -> run_batch q w h = Ok res ->
  (r_err res = ENone -> Inv_p (r_world res) s h [] None) /\
  (r_err res <> ENone -> exists pend, Inv_p (r_world res) s h pend None).
Proof.
  induction q as [|a q IH]; intros w s h res HI H; cbn [run_batch] in H.
  - finish_ok H. split; [intros _; exact HI | congruence].
  - destruct (get_client w h) as [c|] eqn:Ec.
    2:{ finish_ok H. split; [intros _ | congruence]. eapply inv_pend_noclient; eauto. }
    destruct (handle_action w h c a) as [res1|] eqn:Ea; [|discriminate].
    destruct (handle_action_inv w s h c a q res1 HI Ec Ea) as [Hok Herr].
    destruct (r_err res1) eqn:Ee.
    + apply (IH (r_world res1) s h res (Hok eq_refl) H).
    + inversion H; subst res. split; [congruence|]. intros _. exists (a :: q). rewrite Herr by discriminate. exact HI.
    + inversion H; subst res. split; [congruence|]. intros _. exists (a :: q). rewrite Herr by discriminate. exact HI.
    + inversion H; subst res. split; [congruence|]. intros _. exists (a :: q). rewrite Herr by discriminate. exact HI.
    + inversion H; subst res. split; [congruence|]. intros _. exists (a :: q). rewrite Herr by discriminate. exact HI.
    + inversion H; subst res. split; [congruence|]. intros _. exists (a :: q). rewrite Herr by discriminate. exact HI.
Qed.

Lemma finish_inv_u : forall o h wrap w' r s,
  (forall res, o = Ok res ->
     (r_err res = ENone -> Inv_p (r_world res) s h [] None) /\
     (r_err res <> ENone -> exists pend, Inv_p (r_world res) s h pend None)) ->
  finish o h wrap = Running w' r -> Inv_p w' s h [] None.
Proof.
  intros o h wrap w' r s Ho H. unfold finish in H.
  destruct o as [res|]; [|discriminate].
  destruct (Ho res eq_refl) as [Hok Herr].
  destruct (r_err res) eqn:Ee; inversion H; subst;
    try (destruct Herr as (pend & HI); [discriminate | eapply inv_error_close; exact HI]).
  apply Hok. reflexivity.
Qed.

Lemma step_msg_inv_u : forall w s h m w' r,
  InvU w s -> step_msg w h m = Running w' r -> InvU w' s.
Proof.
  intros w s h m w' r HI H. unfold step_msg in H.
  destruct (get_client w h) as [c|] eqn:Ec; [|inversion H; subst; exact HI].
  destruct (c_closed c) eqn:Ecl; [inversion H; subst; exact HI|].
  apply (inv_ph_nil _ _ h 0). eapply finish_inv_u; [|exact H].
  intros res Hr.
  assert (HI' : Inv_p (r_world res) s h [] None).
  { eapply handle_client_message_inv; [apply (inv_ph_nil _ _ 0 h); exact HI | exact Ec | exact Ecl | exact Hr]. }
  split; [intros _; exact HI' | intros _; exists []; exact HI'].
Qed.

(* the queue is taken as a whole *)
Lemma inv_take_queue : forall w s h c,
  Inv_p w s h [] None -> get_client w h = Some c ->
  Inv_p (upd w h (fun c0 => set_queue c0 [])) s h (c_queue c) None.
Proof.
  intros w s h c HI Hc.
  eapply (inv_local w _ s h [] (c_queue c) None c (set_queue c []) HI Hc).
  - apply (get_client_upd_self w h (fun c0 => set_queue c0 []) c Hc).
  - reflexivity.
  - intros. apply get_client_upd_other. assumption.
  - reflexivity.
  - intros g id _. cbn [c_queue set_queue app]. rewrite app_nil_r. reflexivity.
  - intros _ id. cbn [c_queue set_queue app]. rewrite app_nil_r. auto.
  - cbn [c_queue set_queue app]. rewrite app_nil_r. auto.
Qed.

Lemma step_pump_inv_u : forall w s h w' r, InvU w s -> step_pump w h = Running w' r -> InvU w' s.
Proof.
  intros w s h w' r HI H. unfold step_pump in H.
  destruct (get_client w h) as [c|] eqn:Ec; [|inversion H; subst; exact HI].
  destruct (c_closed c); [inversion H; subst; exact HI|].
  cbv zeta in H. apply (inv_ph_nil _ _ h 0). eapply finish_inv_u; [|exact H].
  intros res Hr. eapply run_batch_inv; [|exact Hr].
  apply inv_take_queue; [apply (inv_ph_nil _ _ 0 h); exact HI | exact Ec].
Qed.

Lemma pump_round_inv_u : forall hs w s w', InvU w s -> pump_round hs w = Some w' -> InvU w' s.
Proof.
  induction hs as [|h hs IH]; intros w s w' HI H; cbn [pump_round] in H.
  - inversion H; subst; exact HI.
  - destruct (get_client w h) as [c|]; [|eapply IH; eauto].
    destruct (runnable c); [|eapply IH; eauto].
    destruct (step_pump w h) as [w1 r1|] eqn:Es; [|discriminate].
    eapply IH; [|exact H]. eapply step_pump_inv_u; eauto.
Qed.

Lemma quiesce_inv_u : forall fuel w s w', InvU w s -> quiesce fuel w = Some w' -> InvU w' s.
Proof.
  induction fuel as [|f IH]; intros w s w' HI H; cbn [quiesce] in H.
  - inversion H; subst; exact HI.
  - destruct (existsb runnable (w_clients w)); [|inversion H; subst; exact HI].
    destruct (pump_round _ w) as [w1|] eqn:Ep; [|discriminate].
    eapply IH; [|exact H]. eapply pump_round_inv_u; eauto.
Qed.

Lemma inv_u_empty : InvU empty_world no_log.
Proof.
  split.
  - constructor.
    + constructor.
    + intros h c g H. unfold get_client in H. cbn in H. destruct h; discriminate.
    + intros g h [].
    + intros g. constructor.
    + intros h c H. unfold get_client in H. cbn in H. destruct h; discriminate.
    + intros g h1 h2 c1 c2 [].
    + intros h c H. unfold get_client in H. cbn in H. destruct h; discriminate.
  - constructor.
    + reflexivity.
    + intros h c id H. unfold get_client in H. cbn in H. destruct h; discriminate.
    + intros h c g id H. unfold get_client in H. cbn in H. destruct h; discriminate.
Qed.

Theorem step_inv_u : forall w s o w' r,
  InvU w s -> op_ok o -> step w o = Running w' r -> InvU w' (log_step s o r).
Proof.
  intros w s o w' r HI Hok H. destruct o; cbn [step] in H; cbn [log_step].
  - destruct (find_group w name) eqn:Ef; inversion H; subst; [exact HI|].
    apply inv_new_group; assumption.
  - inversion H; subst. apply inv_new_client; [exact HI | exact Hok].
  - eapply step_msg_inv_u; eauto.
  - eapply step_pump_inv_u; eauto.
  - unfold step_disconnect in H.
    destruct (get_client w h) as [c|]; [|inversion H; subst; exact HI].
    destruct (c_closed c); inversion H; subst; [exact HI|].
    apply (inv_ph_nil _ _ h 0). eapply inv_error_close. apply (inv_ph_nil _ _ 0 h). exact HI.
  - destruct (quiesce 1000 w) as [w1|] eqn:Eq; [|discriminate].
    inversion H; subst. eapply quiesce_inv_u; eauto.
  - destruct (get_client w h) as [c|] eqn:Ec; inversion H; subst.
    + apply inv_drain; assumption.
    + eapply inv_seen_ext; [|exact HI]. intros i. cbn. destruct (Nat.eqb i h); [apply app_nil_r | reflexivity].
Qed.

(* every history keeps the invariant *)
Theorem run_log_inv : forall ops w s w' s',
  InvU w s -> Forall op_ok ops -> run_log w s ops = Some (w', s') -> InvU w' s'.
Proof.
  induction ops as [|o ops IH]; intros w s w' s' HI Hok H; cbn [run_log] in H.
  - inversion H; subst. exact HI.
  - inversion Hok; subst. destruct (step w o) as [w1 r1|] eqn:Es; [|discriminate].
    eapply IH; [|eassumption|exact H]. eapply step_inv_u; eauto.
Qed.

Lemma run_log_world : forall ops w s w' s', run_log w s ops = Some (w', s') -> run_ops w ops = Some w'.
Proof.
  induction ops as [|o ops IH]; intros w s w' s' H; cbn [run_log run_ops] in *.
  - inversion H. reflexivity.
  - destruct (step w o); [|discriminate]. eapply IH; eauto.
Qed.

Lemma run_ops_log : forall ops w s w', run_ops w ops = Some w' -> exists s', run_log w s ops = Some (w', s').
Proof.
  induction ops as [|o ops IH]; intros w s w' H; cbn [run_log run_ops] in *.
  - inversion H. eauto.
  - destruct (step w o); [|discriminate]. eapply IH; eauto.
Qed.

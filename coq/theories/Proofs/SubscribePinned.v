(* C07: the source text of rtpconn.pushConn is the text that the hook
   VerifUp.Fire (rtpconn/verif_export_c07.go) and Model/Subscribe.v
   (new_timer / fire_timer) were written against.

   The driver `subscribe` decides when a delayed push happens by calling Fire,
   which RE-STATES the body of the goroutine of pushConn; an edit of that body is
   invisible to every history that goes through Fire.  Generated/PushConn.v is
   re-read from /repo on every run (gen/pushconn.go: go/printer, comments
   dropped); this lemma fails as soon as pushConn differs from the text below.
   To change pushConn: change Fire and the model accordingly, then this text. *)
From Coq Require Import List String.
From Galene Require Import Generated.PushConn.
Import ListNotations.

Definition pushConn_text_expected : list string := [
  "func pushConn(up *rtpUpConnection, g *group.Group, c group.Client) {"%string;
  "  if g == nil {"%string;
  "    return"%string;
  "  }"%string;
  "  up.mu.Lock()"%string;
  "  up.pushed = false"%string;
  "  up.mu.Unlock()"%string;
  "  go func(g *group.Group, c group.Client) {"%string;
  "    time.Sleep(200 * time.Millisecond)"%string;
  "    up.mu.Lock()"%string;
  "    pushed := up.pushed"%string;
  "    up.pushed = true"%string;
  "    up.mu.Unlock()"%string;
  "    if !pushed {"%string;
  "      pushConnNow(up, g, g.GetClients(c))"%string;
  "    }"%string;
  "  }(g, c)"%string;
  "}"%string
].

Lemma pushConn_text_pinned : pushConn_text = pushConn_text_expected.
Proof. reflexivity. Qed.

(* C14, part 9: the theorems. *)
From Coq Require Import ZArith List Bool String Arith Lia Permutation.
From Galene Require Import Generated.Guards Model.Signal Model.SignalUsers
  Proofs.SignalFrame Proofs.SignalSafe Proofs.SignalUsersBase Proofs.SignalUsersFrame
  Proofs.SignalUsersInv Proofs.SignalUsersAnnounce Proofs.SignalUsersLeave
  Proofs.SignalUsersJoin Proofs.SignalUsersMisc Proofs.SignalUsersSteps.
Import ListNotations.
Open Scope string_scope.
Open Scope list_scope.

Ltac finish_all H := finish_ok H; cbn [r_world r_err r_auth] in *.

Definition reachable (w : world) (s : seenlog) : Prop :=
  exists ops, Forall op_ok ops /\ run_log empty_world no_log ops = Some (w, s).

Lemma reachable_inv : forall w s, reachable w s -> InvU w s.
Proof.
  intros w s (ops & Hok & Hr). eapply run_log_inv; [apply inv_u_empty | exact Hok | exact Hr].
Qed.

(* ------------------------------------------------------------------ *)
(* Event order: at EVERY moment, what a member has received followed by
   what is queued for it, replayed in queue order, gives for every id the
   true entry of that id in its group -- unless the client with that id
   has not yet served the announcement of its latest permission change.
   (With the asynchronous broadcast of F15 a `change` could be queued
   after the `delete`: the replay would give an entry where the truth has
   none.) *)

Definition change_pending (w : world) (g id : str) : Prop :=
  exists x cx, In x (members w g) /\ get_client w x = Some cx /\ c_id cx = id /\
               In APermsChanged (c_queue cx).

Lemma event_order : forall w s, reachable w s ->
  forall g h, In h (members w g) ->
  exists c, get_client w h = Some c /\ c_group c = Some g /\ c_closed c = false /\
    forall id, key_view id (Some g) (received w s h) (c_queue c) = truth w g id \/
               change_pending w g id.
Proof.
  intros w s Hr g h Hin. destruct (reachable_inv w s Hr) as [HS HV].
  destruct (s_valid w HS g h Hin) as (c & Hc). exists c.
  assert (Hg : c_group c = Some g) by (apply (s_memb w HS h c g Hc); exact Hin).
  split; [exact Hc|]. split; [exact Hg|]. split.
  - destruct (c_closed c) eqn:E; [|reflexivity]. rewrite (s_closed w HS h c Hc E) in Hg. discriminate.
  - intros id. unfold received. rewrite Hc.
    destruct (v_view _ _ _ _ _ HV h c g id Hc Hg) as [H | [H | H]]; [| |discriminate H].
    + left. rewrite effq_nil in H. exact H.
    + right. destruct H as (x & cx & H1 & H2 & H3 & H4). rewrite effq_nil in H4.
      exists x, cx. auto.
Qed.

(* ------------------------------------------------------------------ *)
(* Convergence                                                         *)

Theorem convergence : forall w s, reachable w s -> quiescent w ->
  forall g h, In h (members w g) ->
  forall id, view_lookup id (fold_user_events (received w s h)) = truth w g id.
Proof.
  intros w s Hr Hq g h Hin id.
  destruct (event_order w s Hr g h Hin) as (c & Hc & Hg & Hcl & Hv).
  rewrite lookup_fold. specialize (Hv id). rewrite (Hq h c Hc Hcl) in Hv.
  destruct Hv as [H | (x & cx & H1 & H2 & H3 & H4)]; [exact H|].
  exfalso. destruct (reachable_inv w s Hr) as [HS _].
  assert (Hclx : c_closed cx = false).
  { destruct (c_closed cx) eqn:E; [|reflexivity].
    pose proof (s_closed w HS x cx H2 E) as Hn. apply (s_memb w HS x cx g H2) in H1. congruence. }
  rewrite (Hq x cx H2 Hclx) in H4. destruct H4.
Qed.

(* the same, as lists: the user list is a permutation of the membership *)
Lemma in_true_list : forall w g i u p, Sinv w ->
  (In (i, u, p) (true_list w g) <-> truth w g i = Some (u, p)).
Proof.
  intros w g i u p HS. unfold true_list, member_entries. rewrite in_app_iff, in_flat_map. split.
  - intros [(x & Hx & Hin) | Hrec].
    + destruct (get_client w x) as [cx|] eqn:Ex; [|destruct Hin].
      destruct Hin as [E | []]. inversion E; subst. apply (truth_of_member w g x cx HS Hx Ex).
    + destruct (recording w g) eqn:Er; [|destruct Hrec]. destruct Hrec as [E | []].
      inversion E; subst. unfold truth. fold rec_id. rewrite (truth_no_placeholder w g HS), Er.
      rewrite String.eqb_refl. reflexivity.
  - intros Ht. unfold truth in Ht. destruct (get_member w g i) as [x|] eqn:Em.
    + apply get_member_some in Em. destruct Em as (Hx & cx & Ex & Hid). rewrite Ex in Ht.
      inversion Ht; subst. left. exists x. split; [exact Hx|]. rewrite Ex. left. reflexivity.
    + destruct (recording w g); cbn [andb] in Ht; [|discriminate].
      destruct (String.eqb i rec_id) eqn:E; [|discriminate]. apply eqb_true in E. subst i.
      inversion Ht; subst. right. left. reflexivity.
Qed.

Lemma nodup_keys_nodup : forall v, NoDup (keys v) -> NoDup v.
Proof.
  induction v as [|e v IH]; intros H; [constructor|]. cbn in H. inversion H; subst.
  constructor; [|apply IH; assumption]. intro Hin. apply H2. unfold keys. apply in_map. exact Hin.
Qed.

Lemma nodup_true_list : forall w g, Sinv w -> NoDup (true_list w g).
Proof.
  intros w g HS. apply nodup_keys_nodup. unfold true_list, keys. rewrite map_app.
  assert (Hk : forall l, (forall x, In x l -> In x (members w g)) -> NoDup l ->
            NoDup (map ue_id (flat_map (fun h => match get_client w h with
                     | Some c => [(c_id c, c_username c, c_perms c)] | None => [] end) l)) /\
            forall k, In k (map ue_id (flat_map (fun h => match get_client w h with
                     | Some c => [(c_id c, c_username c, c_perms c)] | None => [] end) l)) ->
                      exists x cx, In x l /\ get_client w x = Some cx /\ c_id cx = k).
  { induction l as [|a l IH]; intros Hsub Hn.
    - split; [constructor | intros k []].
    - inversion Hn; subst. destruct (IH (fun x Hx => Hsub x (or_intror Hx)) H2) as [IH1 IH2].
      cbn [flat_map]. destruct (get_client w a) as [ca|] eqn:Ea; cbn [app map].
      + split.
        * constructor; [|exact IH1]. intros Hin. destruct (IH2 _ Hin) as (x & cx & Hx & Ex & Hid).
          cbn in Hid. assert (x = a).
          { eapply (s_ids w HS g x a cx ca); eauto. apply Hsub. right. exact Hx. apply Hsub. left. reflexivity. }
          subst x. contradiction.
        * intros k [Hk | Hk]; [exists a, ca; cbn in Hk; auto with datatypes|].
          destruct (IH2 k Hk) as (x & cx & Hx & Ex & Hid). exists x, cx. auto with datatypes.
      + split; [exact IH1|]. intros k Hk. destruct (IH2 k Hk) as (x & cx & Hx & Ex & Hid).
        exists x, cx. auto with datatypes. }
  destruct (Hk (members w g) (fun x Hx => Hx) (s_nodup w HS g)) as [H1 H2].
  destruct (recording w g); cbn [map]; [|rewrite app_nil_r; exact H1].
  apply nodup_snoc; [exact H1|]. intros Hin. destruct (H2 _ Hin) as (x & cx & _ & Ex & Hid).
  cbn in Hid. apply (s_noq w HS x cx Ex). exact Hid.
Qed.

Theorem convergence_list : forall w s, reachable w s -> quiescent w ->
  forall g h, In h (members w g) ->
  Permutation (fold_user_events (received w s h)) (true_list w g).
Proof.
  intros w s Hr Hq g h Hin. destruct (reachable_inv w s Hr) as [HS _].
  apply NoDup_Permutation.
  - apply nodup_keys_nodup, nodup_fold.
  - apply nodup_true_list. exact HS.
  - intros [[i u] p]. rewrite (in_lookup _ i u p (nodup_fold _)), (in_true_list w g i u p HS).
    rewrite (convergence w s Hr Hq g h Hin i). tauto.
Qed.

(* ------------------------------------------------------------------ *)
(* No event of one group reaches a member of another                   *)

(* the mechanism: a queued user event of group g is dropped by a client
   whose group is not g *)
Lemma push_other_group_dropped : forall w h c g kind id u p d,
  c_group c <> Some g -> handle_action w h c (APushClient g kind id u p d) = ok w.
Proof.
  intros w h c g kind id u p d Hne. cbn [handle_action].
  destruct (c_group c) as [g'|]; [|reflexivity].
  destruct (String.eqb g g') eqn:E; [|reflexivity]. apply eqb_true in E. congruence.
Qed.

(* the consequence: every entry of a member's list is a member of ITS group *)
Theorem no_cross_group : forall w s, reachable w s -> quiescent w ->
  forall g h, In h (members w g) ->
  forall i u p, In (i, u, p) (fold_user_events (received w s h)) ->
    (exists x cx, In x (members w g) /\ get_client w x = Some cx /\
                  c_id cx = i /\ c_username cx = u /\ c_perms cx = p) \/
    (recording w g = true /\ (i, (u, p)) = (rec_id, rec_entry)).
Proof.
  intros w s Hr Hq g h Hin i u p He.
  apply (in_lookup _ i u p (nodup_fold _)) in He.
  rewrite (convergence w s Hr Hq g h Hin i) in He. unfold truth in He.
  destruct (get_member w g i) as [x|] eqn:Em.
  - apply get_member_some in Em. destruct Em as (Hx & cx & Ex & Hid). rewrite Ex in He.
    inversion He; subst. left. exists x, cx. auto.
  - destruct (recording w g); cbn [andb] in He; [|discriminate].
    destruct (String.eqb i rec_id) eqn:E; [|discriminate]. apply eqb_true in E. subst i.
    inversion He; subst. right. split; reflexivity.
Qed.

(* ------------------------------------------------------------------ *)
(* Exactly one delete                                                  *)

Lemma pushes_app : forall q1 q2, pushes (q1 ++ q2) = pushes q1 ++ pushes q2.
Proof. intros. unfold pushes. apply filter_app. Qed.

Lemma pushes_nact : forall qa, forallb nact qa = true -> pushes qa = [].
Proof.
  induction qa as [|a qa IH]; intros H; [reflexivity|]. cbn [forallb] in H.
  apply andb_prop in H. destruct H as [H1 H2]. unfold pushes in *. cbn [filter].
  destruct a; cbn in H1; try discriminate; cbn [is_push]; apply IH; exact H2.
Qed.

Theorem delete_once : forall w s, reachable w s ->
  forall h c g, get_client w h = Some c -> c_group c = Some g ->
  let w' := leave_group w h in
  let del := APushClient g "delete" (c_id c) (c_username c) [] [] in
  (forall g2, members w' g2 = if String.eqb g2 g then filter (not_h h) (members w g) else members w g2) /\
  (forall M cm, M <> h -> get_client w M = Some cm ->
     exists cm', get_client w' M = Some cm' /\
       pushes (c_queue cm') = pushes (c_queue cm) ++ (if existsb (Nat.eqb M) (members w g) then [del] else [])).
Proof.
  intros w s Hr h c g Hc Hg w' del. pose proof (reachable_inv w s Hr) as HI.
  destruct (leave_group_decompose w h c g Hc Hg (proj1 HI)) as (w2 & c2 & Hn & Hc2 & Hco & Hl).
  pose proof (inv_neutral w w2 s 0 [] None HI Hn) as HI2.
  assert (Hg2 : c_group c2 = Some g) by (unfold core in Hco; congruence).
  pose proof (inv_detach w2 s 0 [] h c2 g HI2 Hc2 Hg2) as [HS3 _].
  assert (Hmw2 : forall g2, members w2 g2 = members w g2) by (intros; apply gsame_members, Hn).
  split.
  - intros g2. unfold w'. rewrite Hl. unfold push_client_all. rewrite members_enq_all, members_detach, !Hmw2.
    reflexivity.
  - intros M cm HM Hcm. destruct (neutral_client w w2 M cm Hn Hcm) as (cm2 & Hcm2 & [_ (qa & oa & Hq & Hna & _)]).
    unfold w'. rewrite Hl. unfold push_client_all.
    rewrite get_client_enq_all by apply (s_nodup _ HS3).
    rewrite (get_client_detach_other w2 h g M HM), Hcm2, members_detach, String.eqb_refl, Hmw2.
    assert (Eb : existsb (Nat.eqb M) (filter (not_h h) (members w g)) = existsb (Nat.eqb M) (members w g)).
    { destruct (existsb (Nat.eqb M) (members w g)) eqn:E.
      - apply existsb_eqb_in. apply in_filter_not_h. split; [apply existsb_eqb_in; exact E | exact HM].
      - destruct (existsb (Nat.eqb M) (filter (not_h h) (members w g))) eqn:E2; [|reflexivity].
        apply existsb_eqb_in, in_filter_not_h in E2. destruct E2 as [E2 _].
        apply existsb_eqb_in in E2. congruence. }
    rewrite Eb. destruct (existsb (Nat.eqb M) (members w g)); cbn [option_map]; eexists; (split; [reflexivity|]).
    + cbn [c_queue set_queue]. rewrite Hq, !pushes_app, (pushes_nact qa Hna), app_nil_r. reflexivity.
    + rewrite Hq, pushes_app, (pushes_nact qa Hna), !app_nil_r. reflexivity.
Qed.

(* the end of a connection (kick, disconnect, protocol error) is leaveGroup
   followed by messages to the closing client only *)
Lemma error_close_others : forall w h e M, M <> h ->
  get_client (error_close w h e) M = get_client (leave_group w h) M.
Proof.
  intros w h e M HM. unfold error_close.
  destruct (get_client w h) as [c|] eqn:Hc.
  - cbv zeta. rewrite get_client_upd_other, get_client_send_other by exact HM.
    destruct e; rewrite ?get_client_send_other by exact HM; reflexivity.
  - unfold leave_group. rewrite Hc. reflexivity.
Qed.

Lemma error_close_members : forall w h e g,
  members (error_close w h e) g = members (leave_group w h) g.
Proof.
  intros w h e g. unfold error_close. destruct (get_client w h) as [c|] eqn:Hc.
  - cbv zeta. destruct e; reflexivity.
  - unfold leave_group. rewrite Hc. reflexivity.
Qed.

(* ------------------------------------------------------------------ *)
(* Join symmetry                                                       *)

Lemma handle_join_success : forall w s ph h c m r c' g,
  Inv_p w s ph [] None -> get_client w h = Some c -> c_closed c = false -> c_group c = None ->
  handle_join w h c m = Ok r -> get_client (r_world r) h = Some c' -> c_group c' = Some g ->
  g = m_group m /\
  exists w1 c1 gr,
    Inv_p w1 s ph [] None /\ get_client w1 h = Some c1 /\ c_group c1 = None /\ c_closed c1 = false /\
    w_groups w1 = w_groups w /\ (forall i, i <> h -> get_client w1 i = get_client w i) /\
    c_queue c1 = c_queue c /\ c_id c1 = c_id c /\
    find_group w1 g = Some gr /\ get_member w1 g (c_id c1) = None /\
    r_world r = join_world w1 h c1 g (g_recording gr) (g_members gr).
Proof.
  intros w s ph h c m r c' g HI Hc Hcl Eg H Hc' Hg'. unfold handle_join in H. rewrite Eg in H.
  destruct (String.eqb (m_kind m) "leave"); [finish_all H; congruence|].
  destruct (negb (String.eqb (m_kind m) "join")); [finish_all H; congruence|].
  cbv zeta in H.
  match type of H with (if ?b then _ else _) = _ => destruct b end.
  { finish_all H. rewrite (get_client_send_self w h _ c Hc) in Hc'. inversion Hc'; subst c'. cbn in Hg'. congruence. }
  set (w0 := upd w h (fun c0 => set_data c0 (m_data m))) in *.
  set (c0 := set_data c (m_data m)) in *.
  assert (Hc0 : get_client w0 h = Some c0)
    by (apply (get_client_upd_self w h (fun c0 => set_data c0 (m_data m)) c Hc)).
  assert (HI0 : Inv_p w0 s ph [] None).
  { apply (inv_nonmember_upd w s ph [] h c _ HI Hc Eg); solve [reflexivity | exact Eg]. }
  destruct (add_client w0 h c0 (m_group m) (m_username m) (m_password m) (m_token m)) as [wr oe] eqn:Ea.
  destruct (add_client_result _ _ _ _ _ _ _ _ _ Ea) as (w1 & c1 & Hrel & Hres).
  assert (H1 : Inv_p w1 s ph [] None /\ get_client w1 h = Some c1 /\ c_group c1 = None /\
               c_closed c1 = false /\ w_groups w1 = w_groups w /\
               (forall i, i <> h -> get_client w1 i = get_client w i) /\
               c_queue c1 = c_queue c /\ c_id c1 = c_id c).
  { destruct Hrel as [[-> ->] | (uname & perms & -> & ->)].
    - split; [exact HI0|]. split; [exact Hc0|]. split; [exact Eg|]. split; [exact Hcl|].
      split; [reflexivity|]. split; [|split; reflexivity].
      intros. apply get_client_upd_other. assumption.
    - split; [apply (inv_nonmember_upd w0 s ph [] h c0 _ HI0 Hc0 Eg); solve [reflexivity | exact Eg]|].
      split; [apply (get_client_upd_self w0 h (fun c2 => set_perms (set_username c2 uname) perms) c0 Hc0)|].
      split; [exact Eg|]. split; [exact Hcl|]. split; [reflexivity|]. split; [|split; reflexivity].
      intros. rewrite get_client_upd_other by assumption. apply get_client_upd_other. assumption. }
  destruct H1 as (HI1 & Hc1 & Hg1 & Hcl1 & Hgr1 & Ho1 & Hq1 & Hid1).
  destruct Hres as [[Hoe ->] | (-> & gr & Hgr & Hnew & ->)].
  - destruct oe as [e|]; [|congruence].
    destruct (join_fail_text e) as [ec v]. finish_all H. exfalso.
    set (w2 := upd w1 h (fun c2 => set_data (set_perms c2 []) [])) in *.
    assert (Hc2 : get_client w2 h = Some (set_data (set_perms c1 []) []))
      by (apply (get_client_upd_self w1 h (fun c2 => set_data (set_perms c2 []) []) c1 Hc1)).
    rewrite (get_client_send_self w2 h _ _ Hc2) in Hc'. inversion Hc'; subst c'. cbn in Hg'. congruence.
  - finish_all H.
    assert (Hgr' : find_group w1 (m_group m) = Some gr).
    { unfold find_group in *. rewrite Hgr1. exact Hgr. }
    assert (g = m_group m).
    { pose proof (join_client_h w1 s ph h c1 (m_group m) gr HI1 Hc1 Hg1 Hgr') as E.
      unfold join_world in E. rewrite E in Hc'.
      inversion Hc'; subst c'. cbn in Hg'. congruence. }
    subst g. split; [reflexivity|]. exists w1, c1, gr. repeat (split; [assumption|]). reflexivity.
Qed.

Theorem join_symmetry : forall w s, reachable w s ->
  forall h c m r c' g,
  get_client w h = Some c -> c_closed c = false -> c_group c = None ->
  handle_join w h c m = Ok r -> get_client (r_world r) h = Some c' -> c_group c' = Some g ->
  let w' := r_world r in
  let announce := add_act g c' in
  (* the member list *)
  members w' g = members w g ++ [h] /\
  (* the joiner is told it has joined, then about itself, the recorder and every member *)
  c_queue c' = c_queue c ++ [AJoined g "join"; announce] ++
               (if recording w g then [rec_act g] else []) ++ adds_for w g (members w g) /\
  (forall x cx, In x (members w g) -> get_client w x = Some cx -> In (add_act g cx) (adds_for w g (members w g))) /\
  (* every member is told about the joiner *)
  (forall x cx, In x (members w g) -> get_client w x = Some cx ->
     get_client w' x = Some (set_queue cx (c_queue cx ++ [announce]))) /\
  (* nobody else is told anything *)
  (forall x, x <> h -> ~ In x (members w g) -> get_client w' x = get_client w x).
Proof.
  intros w s Hr h c m r c' g Hc Hcl Eg H Hc' Hg' w' announce.
  pose proof (reachable_inv w s Hr) as HI.
  destruct (handle_join_success w s 0 h c m r c' g HI Hc Hcl Eg H Hc' Hg')
    as (_ & w1 & c1 & gr & HI1 & Hc1 & Hg1 & Hcl1 & Hgr1 & Ho1 & Hq1 & Hid1 & Hgr & Hnew & Hw).
  assert (Hm1 : forall g2, members w1 g2 = members w g2) by (intros; apply members_groups; exact Hgr1).
  assert (Hr1 : recording w1 g = recording w g) by (apply recording_groups; exact Hgr1).
  assert (Hnotin : forall g2, ~ In h (members w g2)).
  { intros g2 Hin. apply (s_memb w (proj1 HI) h c g2 Hc) in Hin. congruence. }
  assert (Hadds : adds_for w1 g (members w g) = adds_for w g (members w g)).
  { apply adds_for_ext. intros x Hx. rewrite Ho1; [reflexivity|]. intros ->. eapply Hnotin; eauto. }
  assert (Hc6 : c' = set_group (set_queue c1 (c_queue c1 ++ join_queue w1 c1 g)) (Some g)).
  { unfold w' in *. rewrite Hw, (join_client_h w1 s 0 h c1 g gr HI1 Hc1 Hg1 Hgr) in Hc'. congruence. }
  assert (Hann : announce = add_act g c1) by (unfold announce; rewrite Hc6; reflexivity).
  split.
  { unfold w'. rewrite Hw, (join_members w1 h c1 g gr Hgr), String.eqb_refl, Hm1. reflexivity. }
  split.
  { rewrite Hc6. cbn [c_queue set_group set_queue]. rewrite Hq1. unfold join_queue.
    rewrite Hr1, Hm1, Hadds, Hann. reflexivity. }
  split.
  { intros x cx Hx Ex. unfold adds_for. apply in_flat_map. exists x. split; [exact Hx|].
    rewrite Ex. left. reflexivity. }
  split.
  { intros x cx Hx Ex. assert (Hxh : x <> h) by (intros ->; eapply Hnotin; eauto).
    unfold w'. rewrite Hw, (join_clients w1 s 0 h c1 g gr HI1 Hc1 Hg1 Hgr).
    apply Nat.eqb_neq in Hxh. rewrite Hxh. rewrite Hm1.
    assert (Eb : existsb (Nat.eqb x) (members w g) = true) by (apply existsb_eqb_in; exact Hx).
    apply Nat.eqb_neq in Hxh. rewrite Eb, (Ho1 x Hxh), Ex, Hann. reflexivity. }
  intros x Hxh Hx. unfold w'. rewrite Hw, (join_clients w1 s 0 h c1 g gr HI1 Hc1 Hg1 Hgr).
  apply Nat.eqb_neq in Hxh. rewrite Hxh, Hm1.
  assert (Eb : existsb (Nat.eqb x) (members w g) = false).
  { destruct (existsb (Nat.eqb x) (members w g)) eqn:Eb; [|reflexivity].
    apply existsb_eqb_in in Eb. contradiction. }
  apply Nat.eqb_neq in Hxh. rewrite Eb. apply Ho1. exact Hxh.
Qed.

(* ------------------------------------------------------------------ *)
(* Changes are announced                                               *)

(* op / unop / present / unpresent / shutup / unshutup: the target's loop
   applies the change and queues the announcement behind everything that
   is already queued *)
Theorem perm_change_applied : forall w h c g kind res,
  get_client w h = Some c -> c_group c = Some g -> is_perm_kind kind = true ->
  handle_action w h c (AChangePerms g kind) = Ok res ->
  exists p, change_perms (match find_group w g with Some gr => d_allowrec (g_desc gr) | None => false end)
                         kind (c_perms c) = Some p /\
            r_err res = ENone /\
            get_client (r_world res) h =
              Some (set_queue (set_perms c p) (c_queue c ++ [APermsChanged])) /\
            forall i, i <> h -> get_client (r_world res) i = get_client w i.
Proof.
  intros w h c g kind res Hc Hg Hk H. cbn [handle_action] in H. rewrite Hg in H.
  cbn [opt_str_eqb] in H. rewrite String.eqb_refl in H. cbn [negb] in H. cbv zeta in H.
  destruct (change_perms _ kind (c_perms c)) as [p|] eqn:Ep.
  - finish_ok H. exists p. split; [reflexivity|]. split; [reflexivity|]. split.
    + rewrite (get_client_enq_self _ h _ (set_perms c p)); [reflexivity|].
      apply (get_client_upd_self w h (fun c0 => set_perms c0 p) c Hc).
    + intros i Hi. rewrite get_client_enq_other, get_client_upd_other by exact Hi. reflexivity.
  - exfalso. unfold change_perms, is_perm_kind in *.
    repeat match type of Ep with (if ?b then _ else _) = _ => destruct b; [discriminate|] end.
    discriminate Hk.
Qed.

(* the announcement reaches every member (the target included) with the
   permissions it has at that moment *)
Theorem perm_change_announced : forall w s, reachable w s ->
  forall h c g res, get_client w h = Some c -> c_group c = Some g ->
  handle_action w h c APermsChanged = Ok res ->
  r_err res = ENone /\
  forall M cm, get_client w M = Some cm ->
    exists cm', get_client (r_world res) M = Some cm' /\
      pushes (c_queue cm') = pushes (c_queue cm) ++
        (if existsb (Nat.eqb M) (members w g)
         then [APushClient g "change" (c_id c) (c_username c) (c_perms c) (c_data c)] else []).
Proof.
  intros w s Hr h c g res Hc Hg H. pose proof (reachable_inv w s Hr) as [HS _].
  cbn [handle_action] in H. rewrite Hg in H. cbv zeta in H. finish_ok H. split; [reflexivity|].
  set (w1 := send w h (out_joined "change" g (c_username c) (c_perms c) "" "" (locked_flag w g))).
  set (w2 := if mem "present" (c_perms c) then w1 else drop_all_ups (c_up c) w1 h c).
  assert (Hn : neutral w w2).
  { unfold w2, w1. destruct (mem "present" (c_perms c)); ntl. }
  intros M cm Hcm.
  destruct (neutral_client w w2 M cm Hn Hcm) as (cm2 & Hcm2 & [_ (qa & oa & Hq & Hna & _)]).
  unfold push_client_all. rewrite get_client_enq_all.
  2:{ rewrite (gsame_members w w2 g) by apply Hn. apply (s_nodup w HS). }
  rewrite (gsame_members w w2 g) by apply Hn. rewrite Hcm2.
  destruct (existsb (Nat.eqb M) (members w g)); cbn [option_map]; eexists; (split; [reflexivity|]).
  - cbn [c_queue set_queue]. rewrite Hq, !pushes_app, (pushes_nact qa Hna), app_nil_r. reflexivity.
  - rewrite Hq, pushes_app, (pushes_nact qa Hna), !app_nil_r. reflexivity.
Qed.

(* setdata: the data change is announced at once to every member *)
Theorem setdata_announced : forall w s, reachable w s ->
  forall h c g m l res, get_client w h = Some c -> c_group c = Some g ->
  m_kind m = "setdata" -> m_value m = VMap l ->
  handle_useraction w h c m = Ok res -> r_auth res = Passed ->
  let d := update_data_all (c_data c) l in
  r_err res = ENone /\
  get_client (r_world res) h =
    Some (set_queue (set_data c d)
            (c_queue c ++ [APushClient g "change" (c_id c) (c_username c) (c_perms c) d])) /\
  forall M cm, M <> h -> get_client w M = Some cm ->
    get_client (r_world res) M =
      Some (if existsb (Nat.eqb M) (members w g)
            then set_queue cm (c_queue cm ++ [APushClient g "change" (c_id c) (c_username c) (c_perms c) d])
            else cm).
Proof.
  intros w s Hr h c g m l res Hc Hg Hk Hv H Ha d. pose proof (reachable_inv w s Hr) as [HS _].
  unfold handle_useraction in H. rewrite Hg, Hk, Hv in H. cbv zeta in H.
  rewrite nm_useraction in H.
  change (is_perm_kind "setdata") with false in H.
  change (String.eqb "setdata" "identify") with false in H.
  change (String.eqb "setdata" "kick") with false in H.
  change (String.eqb "setdata" "setdata") with true in H. cbv iota in H.
  destruct (_ && _); [finish_ok H; discriminate Ha|].
  destruct (negb (has_perms c "useraction" "setdata")); [finish_ok H; discriminate Ha|].
  finish_ok H. split; [reflexivity|].
  assert (Hin : In h (members w g)) by (apply (s_memb w HS h c g Hc); exact Hg).
  unfold push_client_all. rewrite members_upd. split.
  - rewrite get_client_enq_all by apply (s_nodup w HS).
    assert (Eb : existsb (Nat.eqb h) (members w g) = true) by (apply existsb_eqb_in; exact Hin).
    rewrite Eb, (get_client_upd_self w h (fun c0 => set_data c0 (update_data_all (c_data c) l)) c Hc).
    reflexivity.
  - intros M cm HM Hcm. rewrite get_client_enq_all by apply (s_nodup w HS).
    rewrite get_client_upd_other by exact HM. rewrite Hcm.
    destruct (existsb (Nat.eqb M) (members w g)); reflexivity.
Qed.

(* ------------------------------------------------------------------ *)
(* Quiescence as a computable test (for the examples)                  *)

Definition quiescentb (w : world) : bool :=
  forallb (fun c => c_closed c || Nat.eqb (List.length (c_queue c)) 0) (w_clients w).

Lemma quiescentb_ok : forall w, quiescentb w = true -> quiescent w.
Proof.
  intros w H h c Hc Hcl. unfold quiescentb in H. rewrite forallb_forall in H.
  unfold get_client in Hc. apply nth_error_In in Hc. specialize (H c Hc).
  rewrite Hcl in H. cbn in H. apply Nat.eqb_eq in H. destruct (c_queue c); [reflexivity | discriminate].
Qed.

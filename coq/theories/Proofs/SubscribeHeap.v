(* C07, layer 2: how a step changes the heap of up connections and the list of
   pending delayed pushes.  Steps of clients only CLOSE existing objects
   (closing is done by the owner) and create new ones (with a new timer); the
   `pushed` flag and the `replace` field of an existing object change only when
   one of its delayed pushes fires or OnTrack happens - provided `replace` comes
   with the first offer of a stream ([ok_op]). *)
From Coq Require Import List Bool Arith PeanoNat Lia.
From Galene Require Import Model.Subscribe Proofs.SubscribeFrame Proofs.SubscribeInv Proofs.SubscribeStep.
Import ListNotations.

(* existing objects keep everything but [closed], which may only become true,
   and then the owner is c; [ex] is an object exempt from the statement *)
Definition only_closes (c : nat) (ex : option nat) (w w' : world) : Prop :=
  w_nup w <= w_nup w' /\
  forall x, x < w_nup w -> ex <> Some x ->
    uo_id (w_up w' x) = uo_id (w_up w x) /\ uo_owner (w_up w' x) = uo_owner (w_up w x) /\
    uo_label (w_up w' x) = uo_label (w_up w x) /\ uo_group (w_up w' x) = uo_group (w_up w x) /\
    uo_replace (w_up w' x) = uo_replace (w_up w x) /\ uo_pushed (w_up w' x) = uo_pushed (w_up w x) /\
    uo_tracks (w_up w' x) = uo_tracks (w_up w x) /\
    (uo_closed (w_up w' x) = uo_closed (w_up w x) \/
     (uo_closed (w_up w x) = false /\ uo_closed (w_up w' x) = true /\ uo_owner (w_up w x) = c)).

(* the timers of w stay, new ones are for objects that did not exist *)
Definition timers_grow (w w' : world) : Prop :=
  exists l, w_timers w' = w_timers w ++ l /\ forall t, In t l -> w_nup w <= t_up t.

Lemma oc_refl : forall c ex w, only_closes c ex w w.
Proof. intros. split; [lia|]. intros. repeat split; auto. Qed.

Lemma oc_same : forall c ex w w', w_nup w' = w_nup w -> w_up w' = w_up w -> only_closes c ex w w'.
Proof. intros c ex w w' H1 H2. split; [lia|]. intros. rewrite H2. repeat split; auto. Qed.

Lemma oc_trans : forall c ex w1 w2 w3,
  only_closes c ex w1 w2 -> only_closes c ex w2 w3 -> only_closes c ex w1 w3.
Proof.
  intros c ex w1 w2 w3 [N1 H1] [N2 H2]. split; [lia|]. intros x Hx Hex.
  destruct (H1 x Hx Hex) as [A1 [A2 [A3 [A4 [A5 [A6 [A7 A8]]]]]]].
  assert (Hx2 : x < w_nup w2) by lia.
  destruct (H2 x Hx2 Hex) as [B1 [B2 [B3 [B4 [B5 [B6 [B7 B8]]]]]]].
  repeat split; try congruence.
  destruct A8 as [A8|[A8 [A9 A10]]], B8 as [B8|[B8 [B9 B10]]].
  - left. congruence.
  - right. repeat split; congruence.
  - right. repeat split; congruence.
  - congruence.
Qed.

Lemma tg_refl : forall w, timers_grow w w.
Proof. intro w. exists []. split; [rewrite app_nil_r; reflexivity|intros t []]. Qed.

Lemma tg_same : forall w w', w_timers w' = w_timers w -> timers_grow w w'.
Proof. intros w w' H. exists []. split; [rewrite app_nil_r; exact H|intros t []]. Qed.

Lemma tg_trans : forall w1 w2 w3, w_nup w1 <= w_nup w2 -> timers_grow w1 w2 -> timers_grow w2 w3 -> timers_grow w1 w3.
Proof.
  intros w1 w2 w3 N [l1 [E1 F1]] [l2 [E2 F2]]. exists (l1 ++ l2). split.
  - rewrite E2, E1, app_assoc. reflexivity.
  - intros t Ht. apply in_app_iff in Ht. destruct Ht as [Ht|Ht]; [auto|]. specialize (F2 t Ht). lia.
Qed.

(* both together *)
Definition evo (c : nat) (ex : option nat) (w w' : world) : Prop :=
  only_closes c ex w w' /\ timers_grow w w' /\ w_n w' = w_n w.

Lemma evo_refl : forall c ex w, evo c ex w w.
Proof. intros. split; [apply oc_refl|split; [apply tg_refl|reflexivity]]. Qed.

Lemma evo_trans : forall c ex w1 w2 w3, evo c ex w1 w2 -> evo c ex w2 w3 -> evo c ex w1 w3.
Proof.
  intros c ex w1 w2 w3 [A1 [A2 A3]] [B1 [B2 B3]]. split; [eapply oc_trans; eauto|].
  split; [|congruence].
  destruct A1 as [N _]. eapply tg_trans; [exact N|exact A2|exact B2].
Qed.

Lemma evo_same : forall c ex w w',
  w_nup w' = w_nup w -> w_up w' = w_up w -> w_timers w' = w_timers w -> w_n w' = w_n w -> evo c ex w w'.
Proof. intros. split; [apply oc_same; auto|split; [apply tg_same; auto|assumption]]. Qed.

Ltac evo_triv := apply evo_same; reflexivity.

Lemma evo_enq_all : forall c ex ts a w, evo c ex w (enq_all ts a w).
Proof. intros. apply evo_same; autorewrite with sub; reflexivity. Qed.

Lemma evo_remove_close : forall c ex id u w,
  uo_owner (w_up w u) = c -> evo c ex w (remove_close c id u w).
Proof.
  intros c ex id u w Ho. split; [|split; [apply tg_same; reflexivity|reflexivity]].
  split; [simpl; lia|]. intros x Hx _. unfold remove_close. simpl.
  destruct (Nat.eqb_spec x u); simpl; repeat split; auto.
  subst x. destruct (uo_closed (w_up w u)) eqn:E; [left; reflexivity|right; auto].
Qed.

Lemma evo_del_up_conn' : forall c ex id push w, Inv w -> evo c ex w (del_up_conn' c id push w).
Proof.
  intros c ex id push w I. unfold del_up_conn'.
  destruct (lookup id (c_up (w_cl w c))) as [u|] eqn:Hl.
  - rewrite (del_up_conn_unfold _ _ _ _ _ Hl).
    destruct (inv_ups _ I c id u Hl) as [_ [U2 _]].
    pose proof (evo_remove_close c ex id u w U2) as H.
    destruct push; [destruct (c_group (w_cl w c))|]; try exact H.
    eapply evo_trans; [exact H|apply evo_enq_all].
  - unfold del_up_conn. rewrite Hl. apply evo_refl.
Qed.

Lemma evo_leave_fold : forall c ex l w, Inv w -> evo c ex w (leave_fold c l w).
Proof.
  induction l as [|x r IH]; intros w I; [apply evo_refl|]. simpl.
  eapply evo_trans; [apply evo_del_up_conn'; exact I|apply IH; apply Inv_del_up_conn'; exact I].
Qed.

Lemma evo_leave_group : forall c ex w, Inv w -> evo c ex w (leave_group c w).
Proof.
  intros c ex w I. unfold leave_group. destruct (c_group (w_cl w c)); [|apply evo_refl].
  eapply evo_trans; [apply (evo_leave_fold c ex); exact I|evo_triv].
Qed.

Lemma evo_error_close : forall c ex w, Inv w -> evo c ex w (error_close c w).
Proof.
  intros c ex w I. unfold error_close. eapply evo_trans; [apply evo_leave_group; exact I|evo_triv].
Qed.

Lemma evo_finish : forall c ex w r, Inv (fst r) -> evo c ex w (fst r) -> evo c ex w (finish c r).
Proof.
  intros c ex w [w' e] I H. unfold finish. simpl in *. destruct e; [|exact H].
  eapply evo_trans; [exact H|apply evo_error_close; exact I].
Qed.

Lemma evo_close_down_conn : forall c ex m id msg w, evo c ex w (close_down_conn m id msg w).
Proof. intros. unfold close_down_conn. destruct msg; evo_triv. Qed.

Lemma evo_negotiate : forall c ex m d r w, evo c ex w (negotiate m d r w).
Proof. intros. unfold negotiate. destruct (d_havelocal d); evo_triv. Qed.

Lemma push_down_conn_heap : forall m id up ts r w,
  w_nup (fst (push_down_conn m id up ts r w)) = w_nup w /\
  w_up (fst (push_down_conn m id up ts r w)) = w_up w /\
  w_timers (fst (push_down_conn m id up ts r w)) = w_timers w /\
  w_n (fst (push_down_conn m id up ts r w)) = w_n w.
Proof.
  intros. unfold push_down_conn.
  set (w1 := if Nat.eqb r 0 then w else del_down m r w).
  assert (H1 : w_nup w1 = w_nup w /\ w_up w1 = w_up w /\ w_timers w1 = w_timers w /\ w_n w1 = w_n w).
  { unfold w1. destruct (Nat.eqb r 0); repeat split. }
  destruct H1 as [N1 [U1 [T1 M1]]].
  assert (Hdef : forall w', (w_nup w' = w_nup w /\ w_up w' = w_up w /\ w_timers w' = w_timers w /\ w_n w' = w_n w) ->
     let w'' := if Nat.eqb r 0 then w' else close_down_conn m r false w' in
     w_nup w'' = w_nup w /\ w_up w'' = w_up w /\ w_timers w'' = w_timers w /\ w_n w'' = w_n w).
  { intros w' H. simpl. destruct (Nat.eqb r 0); [exact H|]. unfold close_down_conn. simpl. exact H. }
  match goal with |- context [match fst ?s with _ => _ end] => destruct (fst s) as [|i0 sel] end.
  - cbn [fst]. apply Hdef. unfold close_down_conn. simpl. auto.
  - destruct up as [u|]; [|cbn [fst]; apply Hdef; unfold close_down_conn; simpl; auto].
    unfold add_down_conn.
    destruct (lookup _ (c_up (w_cl w1 m))); [cbn [fst]; apply Hdef; auto|].
    destruct (get_down (uo_id (w_up w1 u)) (c_down (w_cl w1 m))).
    + destruct (get_down (uo_id (w_up w u)) (c_down (w_cl w1 m))); [|cbn [fst]; apply Hdef; auto].
      destruct (replace_tracks _ _ _) as [changed d'].
      destruct changed; cbn [fst]; [|apply Hdef; simpl; auto].
      unfold negotiate. destruct (d_havelocal d'); simpl; auto.
    + destruct (uo_closed (w_up w1 u)); [cbn [fst]; apply Hdef; auto|].
      match goal with |- context [get_down ?i (c_down (w_cl ?w2 m))] => destruct (get_down i (c_down (w_cl w2 m))) end;
        [|cbn [fst]; apply Hdef; simpl; auto].
      destruct (replace_tracks _ _ _) as [changed d'].
      destruct changed; cbn [fst]; [|apply Hdef; simpl; auto].
      unfold negotiate. destruct (d_havelocal d'); simpl; auto.
Qed.

Lemma evo_push_down_conn : forall c ex m id up ts r w, evo c ex w (fst (push_down_conn m id up ts r w)).
Proof.
  intros. destruct (push_down_conn_heap m id up ts r w) as [A [B [C D]]]. apply evo_same; auto.
Qed.

Lemma evo_reqconns_fold : forall c ex g t id l w, evo c ex w (reqconns_fold g t id l w).
Proof.
  induction l as [|x r IH]; intros w; [apply evo_refl|]. simpl.
  destruct (negb (Nat.eqb id 0) && negb (Nat.eqb id (fst x))); [apply IH|].
  eapply evo_trans; [|apply IH]. evo_triv.
Qed.

Lemma evo_fail_up : forall c ex m id w, evo c ex w (fail_up m id w).
Proof. intros. evo_triv. Qed.

Lemma evo_unpresent_fold : forall c ex l w, Inv w -> evo c ex w (unpresent_fold c l w).
Proof.
  induction l as [|x r IH]; intros w I; [apply evo_refl|]. simpl.
  pose proof (evo_del_up_conn' c ex (fst x) true w I) as H.
  pose proof (Inv_del_up_conn' w c (fst x) true I) as I2.
  unfold del_up_conn' in H, I2.
  destruct (del_up_conn c (fst x) true w) as [|w'].
  - apply IH. exact I.
  - eapply evo_trans; [exact H|]. eapply evo_trans; [apply (evo_fail_up c ex c (fst x))|].
    apply IH. apply Inv_fail_up. exact I2.
Qed.

Lemma evo_handle_action : forall c ex a w, Inv w -> evo c ex w (fst (handle_action c a w)).
Proof.
  intros c ex a w I. destruct a as [g id up ts r|g t id|g give| |]; cbv beta iota zeta delta [handle_action].
  - destruct (in_group g (w_cl w c)); [apply evo_push_down_conn|apply evo_refl].
  - destruct (in_group g (w_cl w c)); cbn [fst]; [|apply evo_refl]. apply (evo_reqconns_fold c ex g t id).
  - destruct (in_group g (w_cl w c)); cbn [fst]; [|apply evo_refl]. evo_triv.
  - destruct (c_group (w_cl w c)); cbn [fst]; [|apply evo_refl].
    destruct (c_present (w_cl w c)); cbn [fst]; [apply evo_refl|]. apply evo_unpresent_fold. exact I.
  - apply evo_refl.
Qed.

(* the new connection: one more object, one more timer (for it) *)
Lemma evo_new_up_conn : forall c ex id label g w, evo c ex w (new_up_conn c id label g w).
Proof.
  intros. split; [|split; [|reflexivity]].
  - split; [simpl; lia|]. intros x Hx _. unfold new_up_conn, new_timer. simpl.
    destruct (Nat.eqb_spec x (w_nup w)); [lia|]. simpl. repeat split; auto.
  - exists [mkTimer (w_nup w) g]. split; [reflexivity|].
    intros t [<-|[]]. simpl. lia.
Qed.

(* offer_tail touches the object u (its replace field) and closes a stream of c *)
Lemma evo_offer_tail : forall c id replace u s w,
  Inv w -> u < w_nup w ->
  (replace <> 0 -> lookup replace (c_up (w_cl w c)) <> None) ->
  evo c (if Nat.eqb replace 0 then None else Some u) w (offer_tail c id replace u s w).
Proof.
  intros c id replace u s w I Hu Hr. unfold offer_tail.
  set (ex := if Nat.eqb replace 0 then None else Some u).
  set (w2 := if Nat.eqb replace 0 then w else _).
  assert (E2 : evo c ex w w2).
  { unfold w2, ex. destruct (Nat.eqb_spec replace 0); [apply evo_refl|].
    destruct (lookup replace (c_up (w_cl w c))) as [r|] eqn:Hl; [|exfalso; apply (Hr n); reflexivity].
    unfold del_up_conn'.
    assert (Hl' : lookup replace (c_up (w_cl (upd_up u (up_set_replace replace) w) c)) = Some r) by exact Hl.
    rewrite (del_up_conn_unfold _ _ _ _ _ Hl').
    destruct (inv_ups _ I c replace r Hl) as [R1 [R2 _]].
    split; [|split; [apply tg_same; reflexivity|reflexivity]].
    split; [simpl; lia|]. intros x Hx Hex. unfold remove_close. simpl.
    assert (x <> u) by congruence.
    destruct (Nat.eqb_spec x r); destruct (Nat.eqb_spec x u); try contradiction; simpl; repeat split; auto.
    subst x. destruct (uo_closed (w_up w r)) eqn:E; [left; reflexivity|right; auto]. }
  destruct s; [destruct (uo_closed (w_up w2 u))|..]; (eapply evo_trans; [exact E2|]); evo_triv.
Qed.

Lemma evo_weaken_ex : forall c ex w w', evo c None w w' -> evo c ex w w'.
Proof.
  intros c ex w w' [[N H] T]. split; [|exact T]. split; [exact N|]. intros x Hx _. apply H; [exact Hx|discriminate].
Qed.

Lemma evo_got_offer : forall c id label replace s w,
  Inv w -> id <> 0 -> ok_op w (OpMsg c (MOffer id label replace s)) ->
  evo c None w (got_offer c id label replace s w).
Proof.
  intros c id label replace s w I Hid [Hfresh Hrep]. unfold got_offer.
  destruct (get_down id (c_down (w_cl w c))); [apply evo_fail_up|].
  destruct (lookup id (c_up (w_cl w c))) as [u|] eqn:Hl.
  - (* an existing stream: no replace *)
    destruct (Nat.eqb_spec replace 0) as [e|n]; [|destruct (Hrep n) as [X _]; congruence].
    destruct (inv_ups _ I c id u Hl) as [U1 _].
    pose proof (evo_offer_tail c id replace u s w I U1) as H. rewrite e in *. simpl in H. apply H. tauto.
  - assert (Hcase : forall g, c_group (w_cl w c) = Some g ->
             evo c None w (offer_tail c id replace (w_nup w) s (new_up_conn c id label g w))).
    { intros g Hg.
      pose proof (Inv_new_up_conn w c id label g I Hg Hid Hl (Hfresh eq_refl)) as I1.
      assert (Hu : w_nup w < w_nup (new_up_conn c id label g w)) by (simpl; lia).
      assert (Hr' : replace <> 0 -> lookup replace (c_up (w_cl (new_up_conn c id label g w) c)) <> None).
      { intro Hr. destruct (Hrep Hr) as [_ H2].
        assert (E : c_up (w_cl (new_up_conn c id label g w) c) = c_up (w_cl w c) ++ [(id, w_nup w)]).
        { unfold new_up_conn, new_timer. simpl. rewrite Nat.eqb_refl. reflexivity. }
        rewrite E, lookup_app. destruct (lookup replace (c_up (w_cl w c))); [discriminate|contradiction]. }
      pose proof (evo_offer_tail c id replace (w_nup w) s _ I1 Hu Hr') as [[N2 H2] [T2 M2]].
      pose proof (evo_new_up_conn c None id label g w) as [[N1 H1] [T1 M1]].
      split; [|split; [|congruence]].
      - split; [lia|]. intros x Hx _.
        destruct (H1 x Hx ltac:(discriminate)) as [A1 [A2 [A3 [A4 [A5 [A6 [A7 A8]]]]]]].
        assert (Hx2 : x < w_nup (new_up_conn c id label g w)) by lia.
        assert (Hex : (if Nat.eqb replace 0 then None else Some (w_nup w)) <> Some x).
        { destruct (Nat.eqb replace 0); [discriminate|]. intro X. inversion X. lia. }
        destruct (H2 x Hx2 Hex) as [B1 [B2 [B3 [B4 [B5 [B6 [B7 B8]]]]]]].
        repeat split; try congruence.
        destruct A8 as [A8|[A8 [A9 A10]]], B8 as [B8|[B8 [B9 B10]]].
        + left. congruence.
        + right. repeat split; congruence.
        + right. repeat split; congruence.
        + congruence.
      - eapply tg_trans; [|exact T1|exact T2]. lia. }
    destruct s; destruct (c_group (w_cl w c)) as [g|] eqn:Hg;
      try apply evo_fail_up; apply Hcase; reflexivity.
Qed.

Lemma evo_handle_msg : forall c msg w,
  Inv w -> ok_op w (OpMsg c msg) -> evo c None w (fst (handle_msg c msg w)).
Proof.
  intros c msg w I Hok.
  destruct msg as [g user pres op0|g|req|id req|id label replace s|id|id|id ok|dest|dest give];
    cbv beta iota zeta delta [handle_msg].
  - destruct (c_group (w_cl w c)); cbn [fst]; [apply evo_refl|evo_triv].
  - destruct (in_group g (w_cl w c)); cbn [fst]; [apply evo_leave_group; exact I|apply evo_refl].
  - destruct (c_group (w_cl w c)); cbn [fst]; [|apply evo_refl].
    eapply evo_trans; [|apply evo_enq_all]. evo_triv.
  - destruct (get_down id (c_down (w_cl w c))); [|apply evo_refl].
    destruct (c_group (w_cl w c)); cbn [fst]; [|apply evo_refl]. evo_triv.
  - destruct (Nat.eqb_spec id 0); cbn [fst]; [apply evo_refl|].
    destruct (c_present (w_cl w c)); cbn [fst]; [apply evo_got_offer; auto|].
    set (w1 := if Nat.eqb replace 0 then w else del_up_conn' c replace true w).
    apply (evo_trans c None w w1); [|evo_triv].
    unfold w1. destruct (Nat.eqb replace 0); [apply evo_refl|apply evo_del_up_conn'; exact I].
  - destruct (Nat.eqb id 0); cbn [fst]; [apply evo_refl|apply evo_del_up_conn'; exact I].
  - destruct (Nat.eqb id 0); cbn [fst]; [apply evo_refl|apply evo_close_down_conn].
  - destruct (Nat.eqb id 0); cbn [fst]; [apply evo_refl|].
    destruct (get_down id (c_down (w_cl w c))) as [d|]; cbn [fst]; [|apply evo_close_down_conn].
    destruct (ok && d_havelocal d); cbn [fst]; [|apply evo_close_down_conn].
    destruct (d_neg d); cbn [fst]; [|evo_triv].
    eapply evo_trans; [|apply evo_negotiate]. evo_triv.
  - destruct (c_group (w_cl w c)); cbn [fst]; [|evo_triv].
    destruct (c_op (w_cl w c) && member_of w _ dest); cbn [fst]; evo_triv.
  - destruct (c_group (w_cl w c)); cbn [fst]; [|evo_triv].
    destruct (c_op (w_cl w c) && member_of w _ dest); cbn [fst]; evo_triv.
Qed.

(* The steps of a client. *)
Theorem step_evo : forall w o c,
  Inv w -> ok_op w o -> actor o = Some c -> evo c None w (step w o).
Proof.
  intros w o c I Hok Ha. destruct o as [c' msg|c'|c'|i|u k]; simpl in Ha; inversion Ha; subst c'; simpl.
  - destruct (Nat.ltb c (w_n w) && negb (c_dead (w_cl w c))) eqn:E; [|apply evo_refl].
    apply andb_prop in E. destruct E as [_ E]. apply negb_true_iff in E.
    apply evo_finish; [apply Inv_handle_msg; auto|apply evo_handle_msg; auto].
  - destruct (Nat.ltb c (w_n w) && negb (c_dead (w_cl w c))); [|apply evo_refl].
    destruct (c_queue (w_cl w c)) as [|a q] eqn:Eq; [apply evo_refl|].
    assert (I0 : Inv (upd_cl c (set_queue q) w)).
    { apply Inv_pop; [exact I|]. intros x Hx. rewrite Eq. right. exact Hx. }
    assert (Ha0 : action_ok (upd_cl c (set_queue q) w) c a).
    { eapply (action_ok_same_heap w); [reflexivity|reflexivity|].
      apply (inv_queue _ I). rewrite Eq. left. reflexivity. }
    apply evo_finish; [apply Inv_handle_action; auto|].
    eapply evo_trans; [|apply evo_handle_action; exact I0]. evo_triv.
  - destruct (Nat.ltb c (w_n w) && negb (c_dead (w_cl w c))); [apply evo_error_close; exact I|apply evo_refl].
Qed.

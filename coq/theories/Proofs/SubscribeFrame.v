(* C07, layer 2: how the primitive updates of Model/Subscribe.v act on the
   projections of the world (frame lemmas, rewrite database [sub]), and the
   small lemmas about the association lists. *)
From Coq Require Import List Bool Arith PeanoNat Lia.
From Galene Require Import Model.Subscribe.
Import ListNotations.

Ltac eqb_cases :=
  repeat match goal with
  | |- context [Nat.eqb ?a ?b] => destruct (Nat.eqb_spec a b); subst
  | H : context [Nat.eqb ?a ?b] |- _ => destruct (Nat.eqb_spec a b); subst
  end.

Lemma send_c_group : forall (m : nat) (x : outmsg) (w : world) (c : nat),
  c_group (w_cl (send m x w) c) = c_group (w_cl w c).
Proof. intros. unfold send, upd_cl. simpl. destruct (Nat.eqb c m); reflexivity. Qed.

Lemma send_c_user : forall (m : nat) (x : outmsg) (w : world) (c : nat),
  c_user (w_cl (send m x w) c) = c_user (w_cl w c).
Proof. intros. unfold send, upd_cl. simpl. destruct (Nat.eqb c m); reflexivity. Qed.

Lemma send_c_present : forall (m : nat) (x : outmsg) (w : world) (c : nat),
  c_present (w_cl (send m x w) c) = c_present (w_cl w c).
Proof. intros. unfold send, upd_cl. simpl. destruct (Nat.eqb c m); reflexivity. Qed.

Lemma send_c_op : forall (m : nat) (x : outmsg) (w : world) (c : nat),
  c_op (w_cl (send m x w) c) = c_op (w_cl w c).
Proof. intros. unfold send, upd_cl. simpl. destruct (Nat.eqb c m); reflexivity. Qed.

Lemma send_c_req : forall (m : nat) (x : outmsg) (w : world) (c : nat),
  c_req (w_cl (send m x w) c) = c_req (w_cl w c).
Proof. intros. unfold send, upd_cl. simpl. destruct (Nat.eqb c m); reflexivity. Qed.

Lemma send_c_up : forall (m : nat) (x : outmsg) (w : world) (c : nat),
  c_up (w_cl (send m x w) c) = c_up (w_cl w c).
Proof. intros. unfold send, upd_cl. simpl. destruct (Nat.eqb c m); reflexivity. Qed.

Lemma send_c_down : forall (m : nat) (x : outmsg) (w : world) (c : nat),
  c_down (w_cl (send m x w) c) = c_down (w_cl w c).
Proof. intros. unfold send, upd_cl. simpl. destruct (Nat.eqb c m); reflexivity. Qed.

Lemma send_c_queue : forall (m : nat) (x : outmsg) (w : world) (c : nat),
  c_queue (w_cl (send m x w) c) = c_queue (w_cl w c).
Proof. intros. unfold send, upd_cl. simpl. destruct (Nat.eqb c m); reflexivity. Qed.

Lemma send_c_out : forall (m : nat) (x : outmsg) (w : world) (c : nat),
  c_out (w_cl (send m x w) c) = c_out (w_cl w c) ++ (if Nat.eqb c m then [x] else []).
Proof. intros. unfold send, upd_cl. simpl. destruct (Nat.eqb c m); simpl; try rewrite app_nil_r; reflexivity. Qed.

Lemma send_c_dead : forall (m : nat) (x : outmsg) (w : world) (c : nat),
  c_dead (w_cl (send m x w) c) = c_dead (w_cl w c).
Proof. intros. unfold send, upd_cl. simpl. destruct (Nat.eqb c m); reflexivity. Qed.

Lemma send_w_up : forall (m : nat) (x : outmsg) (w : world), w_up (send m x w) = w_up w.
Proof. reflexivity. Qed.

Lemma send_w_nup : forall (m : nat) (x : outmsg) (w : world), w_nup (send m x w) = w_nup w.
Proof. reflexivity. Qed.

Lemma send_w_n : forall (m : nat) (x : outmsg) (w : world), w_n (send m x w) = w_n w.
Proof. reflexivity. Qed.

Lemma send_w_timers : forall (m : nat) (x : outmsg) (w : world), w_timers (send m x w) = w_timers w.
Proof. reflexivity. Qed.

#[export] Hint Rewrite send_c_group send_c_user send_c_present send_c_op send_c_req send_c_up send_c_down send_c_queue send_c_out send_c_dead send_w_up send_w_nup send_w_n send_w_timers : sub.

Lemma enq_c_group : forall (m : nat) (a : action) (w : world) (c : nat),
  c_group (w_cl (enq m a w) c) = c_group (w_cl w c).
Proof. intros. unfold enq, upd_cl. simpl. destruct (Nat.eqb c m); reflexivity. Qed.

Lemma enq_c_user : forall (m : nat) (a : action) (w : world) (c : nat),
  c_user (w_cl (enq m a w) c) = c_user (w_cl w c).
Proof. intros. unfold enq, upd_cl. simpl. destruct (Nat.eqb c m); reflexivity. Qed.

Lemma enq_c_present : forall (m : nat) (a : action) (w : world) (c : nat),
  c_present (w_cl (enq m a w) c) = c_present (w_cl w c).
Proof. intros. unfold enq, upd_cl. simpl. destruct (Nat.eqb c m); reflexivity. Qed.

Lemma enq_c_op : forall (m : nat) (a : action) (w : world) (c : nat),
  c_op (w_cl (enq m a w) c) = c_op (w_cl w c).
Proof. intros. unfold enq, upd_cl. simpl. destruct (Nat.eqb c m); reflexivity. Qed.

Lemma enq_c_req : forall (m : nat) (a : action) (w : world) (c : nat),
  c_req (w_cl (enq m a w) c) = c_req (w_cl w c).
Proof. intros. unfold enq, upd_cl. simpl. destruct (Nat.eqb c m); reflexivity. Qed.

Lemma enq_c_up : forall (m : nat) (a : action) (w : world) (c : nat),
  c_up (w_cl (enq m a w) c) = c_up (w_cl w c).
Proof. intros. unfold enq, upd_cl. simpl. destruct (Nat.eqb c m); reflexivity. Qed.

Lemma enq_c_down : forall (m : nat) (a : action) (w : world) (c : nat),
  c_down (w_cl (enq m a w) c) = c_down (w_cl w c).
Proof. intros. unfold enq, upd_cl. simpl. destruct (Nat.eqb c m); reflexivity. Qed.

Lemma enq_c_queue : forall (m : nat) (a : action) (w : world) (c : nat),
  c_queue (w_cl (enq m a w) c) = c_queue (w_cl w c) ++ (if Nat.eqb c m then [a] else []).
Proof. intros. unfold enq, upd_cl. simpl. destruct (Nat.eqb c m); simpl; try rewrite app_nil_r; reflexivity. Qed.

Lemma enq_c_out : forall (m : nat) (a : action) (w : world) (c : nat),
  c_out (w_cl (enq m a w) c) = c_out (w_cl w c).
Proof. intros. unfold enq, upd_cl. simpl. destruct (Nat.eqb c m); reflexivity. Qed.

Lemma enq_c_dead : forall (m : nat) (a : action) (w : world) (c : nat),
  c_dead (w_cl (enq m a w) c) = c_dead (w_cl w c).
Proof. intros. unfold enq, upd_cl. simpl. destruct (Nat.eqb c m); reflexivity. Qed.

Lemma enq_w_up : forall (m : nat) (a : action) (w : world), w_up (enq m a w) = w_up w.
Proof. reflexivity. Qed.

Lemma enq_w_nup : forall (m : nat) (a : action) (w : world), w_nup (enq m a w) = w_nup w.
Proof. reflexivity. Qed.

Lemma enq_w_n : forall (m : nat) (a : action) (w : world), w_n (enq m a w) = w_n w.
Proof. reflexivity. Qed.

Lemma enq_w_timers : forall (m : nat) (a : action) (w : world), w_timers (enq m a w) = w_timers w.
Proof. reflexivity. Qed.

#[export] Hint Rewrite enq_c_group enq_c_user enq_c_present enq_c_op enq_c_req enq_c_up enq_c_down enq_c_queue enq_c_out enq_c_dead enq_w_up enq_w_nup enq_w_n enq_w_timers : sub.

Lemma del_down_c_group : forall (m id : nat) (w : world) (c : nat),
  c_group (w_cl (del_down m id w) c) = c_group (w_cl w c).
Proof. intros. unfold del_down, upd_cl. simpl. destruct (Nat.eqb c m); reflexivity. Qed.

Lemma del_down_c_user : forall (m id : nat) (w : world) (c : nat),
  c_user (w_cl (del_down m id w) c) = c_user (w_cl w c).
Proof. intros. unfold del_down, upd_cl. simpl. destruct (Nat.eqb c m); reflexivity. Qed.

Lemma del_down_c_present : forall (m id : nat) (w : world) (c : nat),
  c_present (w_cl (del_down m id w) c) = c_present (w_cl w c).
Proof. intros. unfold del_down, upd_cl. simpl. destruct (Nat.eqb c m); reflexivity. Qed.

Lemma del_down_c_op : forall (m id : nat) (w : world) (c : nat),
  c_op (w_cl (del_down m id w) c) = c_op (w_cl w c).
Proof. intros. unfold del_down, upd_cl. simpl. destruct (Nat.eqb c m); reflexivity. Qed.

Lemma del_down_c_req : forall (m id : nat) (w : world) (c : nat),
  c_req (w_cl (del_down m id w) c) = c_req (w_cl w c).
Proof. intros. unfold del_down, upd_cl. simpl. destruct (Nat.eqb c m); reflexivity. Qed.

Lemma del_down_c_up : forall (m id : nat) (w : world) (c : nat),
  c_up (w_cl (del_down m id w) c) = c_up (w_cl w c).
Proof. intros. unfold del_down, upd_cl. simpl. destruct (Nat.eqb c m); reflexivity. Qed.

Lemma del_down_c_down : forall (m id : nat) (w : world) (c : nat),
  c_down (w_cl (del_down m id w) c) = if Nat.eqb c m then remove_down id (c_down (w_cl w c)) else c_down (w_cl w c).
Proof. intros. unfold del_down, upd_cl. simpl. destruct (Nat.eqb c m); simpl; try rewrite app_nil_r; reflexivity. Qed.

Lemma del_down_c_queue : forall (m id : nat) (w : world) (c : nat),
  c_queue (w_cl (del_down m id w) c) = c_queue (w_cl w c).
Proof. intros. unfold del_down, upd_cl. simpl. destruct (Nat.eqb c m); reflexivity. Qed.

Lemma del_down_c_out : forall (m id : nat) (w : world) (c : nat),
  c_out (w_cl (del_down m id w) c) = c_out (w_cl w c).
Proof. intros. unfold del_down, upd_cl. simpl. destruct (Nat.eqb c m); reflexivity. Qed.

Lemma del_down_c_dead : forall (m id : nat) (w : world) (c : nat),
  c_dead (w_cl (del_down m id w) c) = c_dead (w_cl w c).
Proof. intros. unfold del_down, upd_cl. simpl. destruct (Nat.eqb c m); reflexivity. Qed.

Lemma del_down_w_up : forall (m id : nat) (w : world), w_up (del_down m id w) = w_up w.
Proof. reflexivity. Qed.

Lemma del_down_w_nup : forall (m id : nat) (w : world), w_nup (del_down m id w) = w_nup w.
Proof. reflexivity. Qed.

Lemma del_down_w_n : forall (m id : nat) (w : world), w_n (del_down m id w) = w_n w.
Proof. reflexivity. Qed.

Lemma del_down_w_timers : forall (m id : nat) (w : world), w_timers (del_down m id w) = w_timers w.
Proof. reflexivity. Qed.

#[export] Hint Rewrite del_down_c_group del_down_c_user del_down_c_present del_down_c_op del_down_c_req del_down_c_up del_down_c_down del_down_c_queue del_down_c_out del_down_c_dead del_down_w_up del_down_w_nup del_down_w_n del_down_w_timers : sub.

Lemma set_down_entry_c_group : forall (m : nat) (d : down) (w : world) (c : nat),
  c_group (w_cl (set_down_entry m d w) c) = c_group (w_cl w c).
Proof. intros. unfold set_down_entry, upd_cl. simpl. destruct (Nat.eqb c m); reflexivity. Qed.

Lemma set_down_entry_c_user : forall (m : nat) (d : down) (w : world) (c : nat),
  c_user (w_cl (set_down_entry m d w) c) = c_user (w_cl w c).
Proof. intros. unfold set_down_entry, upd_cl. simpl. destruct (Nat.eqb c m); reflexivity. Qed.

Lemma set_down_entry_c_present : forall (m : nat) (d : down) (w : world) (c : nat),
  c_present (w_cl (set_down_entry m d w) c) = c_present (w_cl w c).
Proof. intros. unfold set_down_entry, upd_cl. simpl. destruct (Nat.eqb c m); reflexivity. Qed.

Lemma set_down_entry_c_op : forall (m : nat) (d : down) (w : world) (c : nat),
  c_op (w_cl (set_down_entry m d w) c) = c_op (w_cl w c).
Proof. intros. unfold set_down_entry, upd_cl. simpl. destruct (Nat.eqb c m); reflexivity. Qed.

Lemma set_down_entry_c_req : forall (m : nat) (d : down) (w : world) (c : nat),
  c_req (w_cl (set_down_entry m d w) c) = c_req (w_cl w c).
Proof. intros. unfold set_down_entry, upd_cl. simpl. destruct (Nat.eqb c m); reflexivity. Qed.

Lemma set_down_entry_c_up : forall (m : nat) (d : down) (w : world) (c : nat),
  c_up (w_cl (set_down_entry m d w) c) = c_up (w_cl w c).
Proof. intros. unfold set_down_entry, upd_cl. simpl. destruct (Nat.eqb c m); reflexivity. Qed.

Lemma set_down_entry_c_down : forall (m : nat) (d : down) (w : world) (c : nat),
  c_down (w_cl (set_down_entry m d w) c) = if Nat.eqb c m then replace_down d (c_down (w_cl w c)) else c_down (w_cl w c).
Proof. intros. unfold set_down_entry, upd_cl. simpl. destruct (Nat.eqb c m); simpl; try rewrite app_nil_r; reflexivity. Qed.

Lemma set_down_entry_c_queue : forall (m : nat) (d : down) (w : world) (c : nat),
  c_queue (w_cl (set_down_entry m d w) c) = c_queue (w_cl w c).
Proof. intros. unfold set_down_entry, upd_cl. simpl. destruct (Nat.eqb c m); reflexivity. Qed.

Lemma set_down_entry_c_out : forall (m : nat) (d : down) (w : world) (c : nat),
  c_out (w_cl (set_down_entry m d w) c) = c_out (w_cl w c).
Proof. intros. unfold set_down_entry, upd_cl. simpl. destruct (Nat.eqb c m); reflexivity. Qed.

Lemma set_down_entry_c_dead : forall (m : nat) (d : down) (w : world) (c : nat),
  c_dead (w_cl (set_down_entry m d w) c) = c_dead (w_cl w c).
Proof. intros. unfold set_down_entry, upd_cl. simpl. destruct (Nat.eqb c m); reflexivity. Qed.

Lemma set_down_entry_w_up : forall (m : nat) (d : down) (w : world), w_up (set_down_entry m d w) = w_up w.
Proof. reflexivity. Qed.

Lemma set_down_entry_w_nup : forall (m : nat) (d : down) (w : world), w_nup (set_down_entry m d w) = w_nup w.
Proof. reflexivity. Qed.

Lemma set_down_entry_w_n : forall (m : nat) (d : down) (w : world), w_n (set_down_entry m d w) = w_n w.
Proof. reflexivity. Qed.

Lemma set_down_entry_w_timers : forall (m : nat) (d : down) (w : world), w_timers (set_down_entry m d w) = w_timers w.
Proof. reflexivity. Qed.

#[export] Hint Rewrite set_down_entry_c_group set_down_entry_c_user set_down_entry_c_present set_down_entry_c_op set_down_entry_c_req set_down_entry_c_up set_down_entry_c_down set_down_entry_c_queue set_down_entry_c_out set_down_entry_c_dead set_down_entry_w_up set_down_entry_w_nup set_down_entry_w_n set_down_entry_w_timers : sub.

Lemma upd_up_cl : forall u f w, w_cl (upd_up u f w) = w_cl w.
Proof. reflexivity. Qed.

Lemma set_timers_cl : forall ts w, w_cl (set_timers ts w) = w_cl w.
Proof. reflexivity. Qed.

Lemma set_timers_up : forall ts w, w_up (set_timers ts w) = w_up w.
Proof. reflexivity. Qed.

Lemma set_timers_nup : forall ts w, w_nup (set_timers ts w) = w_nup w.
Proof. reflexivity. Qed.

Lemma set_timers_n : forall ts w, w_n (set_timers ts w) = w_n w.
Proof. reflexivity. Qed.

Lemma set_timers_timers : forall ts w, w_timers (set_timers ts w) = ts.
Proof. reflexivity. Qed.

Lemma upd_up_up : forall u f w x, w_up (upd_up u f w) x = if Nat.eqb x u then f (w_up w x) else w_up w x.
Proof. reflexivity. Qed.

Lemma upd_up_nup : forall u f w, w_nup (upd_up u f w) = w_nup w.
Proof. reflexivity. Qed.

Lemma upd_up_n : forall u f w, w_n (upd_up u f w) = w_n w.
Proof. reflexivity. Qed.

Lemma upd_up_timers : forall u f w, w_timers (upd_up u f w) = w_timers w.
Proof. reflexivity. Qed.

#[export] Hint Rewrite upd_up_cl set_timers_cl set_timers_up set_timers_nup set_timers_n set_timers_timers upd_up_up upd_up_nup upd_up_n upd_up_timers : sub.

(* ---- enq_all *)

Lemma enq_all_w_up : forall ts a w, w_up (enq_all ts a w) = w_up w.
Proof. induction ts; intros; simpl; [reflexivity|]. unfold enq_all in *. simpl. rewrite IHts. reflexivity. Qed.
Lemma enq_all_w_nup : forall ts a w, w_nup (enq_all ts a w) = w_nup w.
Proof. induction ts; intros; simpl; [reflexivity|]. unfold enq_all in *. simpl. rewrite IHts. reflexivity. Qed.
Lemma enq_all_w_n : forall ts a w, w_n (enq_all ts a w) = w_n w.
Proof. induction ts; intros; simpl; [reflexivity|]. unfold enq_all in *. simpl. rewrite IHts. reflexivity. Qed.
Lemma enq_all_w_timers : forall ts a w, w_timers (enq_all ts a w) = w_timers w.
Proof. induction ts; intros; simpl; [reflexivity|]. unfold enq_all in *. simpl. rewrite IHts. reflexivity. Qed.

Lemma enq_all_cons : forall t ts a w, enq_all (t :: ts) a w = enq_all ts a (enq t a w).
Proof. reflexivity. Qed.

Fixpoint count_in (x : nat) (l : list nat) : nat :=
  match l with [] => 0 | y :: r => (if Nat.eqb x y then 1 else 0) + count_in x r end.

Lemma repeat_app_one : forall {A} (a : A) n, repeat a n ++ [a] = a :: repeat a n.
Proof. induction n; simpl; [reflexivity|]. rewrite IHn. reflexivity. Qed.

Lemma enq_all_c_queue : forall ts a w c,
  c_queue (w_cl (enq_all ts a w) c) = c_queue (w_cl w c) ++ repeat a (count_in c ts).
Proof.
  induction ts; intros.
  - simpl. rewrite app_nil_r. reflexivity.
  - rewrite enq_all_cons, IHts, enq_c_queue. simpl count_in. destruct (Nat.eqb c a); simpl.
    + rewrite <- app_assoc. reflexivity.
    + rewrite app_nil_r. reflexivity.
Qed.

Lemma count_in_pos : forall x l, count_in x l <> 0 <-> In x l.
Proof.
  induction l; simpl; [tauto|]. destruct (Nat.eqb_spec x a).
  - subst. split; [intros; left; reflexivity|lia].
  - simpl. rewrite IHl. split; [intro; right; assumption|intros [H|H]; [congruence|assumption]].
Qed.

Lemma in_enq_all_queue : forall ts a w c x,
  In x (c_queue (w_cl (enq_all ts a w) c)) <-> In x (c_queue (w_cl w c)) \/ (x = a /\ In c ts).
Proof.
  intros. rewrite enq_all_c_queue, in_app_iff. split; intros [H|H]; auto.
  - right. split; [eapply repeat_spec; exact H|].
    apply count_in_pos. destruct (count_in c ts); [destruct H|discriminate].
  - right. destruct H as [-> H]. apply count_in_pos in H.
    destruct (count_in c ts); [congruence|left; reflexivity].
Qed.

Ltac enq_all_field :=
  let ts := fresh "ts" in let IH := fresh "IH" in
  intro ts; induction ts as [|? ? IH]; intros; [reflexivity|];
  rewrite enq_all_cons; rewrite IH; autorewrite with sub; reflexivity.

Lemma enq_all_c_group : forall ts a w c, c_group (w_cl (enq_all ts a w) c) = c_group (w_cl w c).
Proof. enq_all_field. Qed.
Lemma enq_all_c_user : forall ts a w c, c_user (w_cl (enq_all ts a w) c) = c_user (w_cl w c).
Proof. enq_all_field. Qed.
Lemma enq_all_c_present : forall ts a w c, c_present (w_cl (enq_all ts a w) c) = c_present (w_cl w c).
Proof. enq_all_field. Qed.
Lemma enq_all_c_op : forall ts a w c, c_op (w_cl (enq_all ts a w) c) = c_op (w_cl w c).
Proof. enq_all_field. Qed.
Lemma enq_all_c_req : forall ts a w c, c_req (w_cl (enq_all ts a w) c) = c_req (w_cl w c).
Proof. enq_all_field. Qed.
Lemma enq_all_c_up : forall ts a w c, c_up (w_cl (enq_all ts a w) c) = c_up (w_cl w c).
Proof. enq_all_field. Qed.
Lemma enq_all_c_down : forall ts a w c, c_down (w_cl (enq_all ts a w) c) = c_down (w_cl w c).
Proof. enq_all_field. Qed.
Lemma enq_all_c_out : forall ts a w c, c_out (w_cl (enq_all ts a w) c) = c_out (w_cl w c).
Proof. enq_all_field. Qed.
Lemma enq_all_c_dead : forall ts a w c, c_dead (w_cl (enq_all ts a w) c) = c_dead (w_cl w c).
Proof. enq_all_field. Qed.
#[export] Hint Rewrite enq_all_w_up enq_all_w_nup enq_all_w_n enq_all_w_timers
  enq_all_c_group enq_all_c_user enq_all_c_present enq_all_c_op enq_all_c_req enq_all_c_up
  enq_all_c_down enq_all_c_out enq_all_c_dead : sub.

(* ---- association lists *)

Lemma lookup_remove_key_same : forall {A} k (l : list (nat * A)), lookup k (remove_key k l) = None.
Proof.
  induction l as [|[k' v] r IH]; simpl; [reflexivity|].
  destruct (Nat.eqb_spec k k'); [exact IH|]. simpl.
  destruct (Nat.eqb_spec k k'); [contradiction|exact IH].
Qed.

Lemma lookup_remove_key_other : forall {A} k k' (l : list (nat * A)),
  k <> k' -> lookup k (remove_key k' l) = lookup k l.
Proof.
  induction l as [|[k0 v] r IH]; intro Hne; simpl; [reflexivity|].
  destruct (Nat.eqb_spec k' k0).
  - subst. destruct (Nat.eqb_spec k k0); [contradiction|]. apply IH. exact Hne.
  - simpl. destruct (Nat.eqb_spec k k0); [reflexivity|]. apply IH. exact Hne.
Qed.

Lemma lookup_app : forall {A} k (l1 l2 : list (nat * A)),
  lookup k (l1 ++ l2) = match lookup k l1 with Some v => Some v | None => lookup k l2 end.
Proof.
  induction l1 as [|[k' v] r IH]; intros; simpl; [reflexivity|].
  destruct (Nat.eqb k k'); [reflexivity|apply IH].
Qed.

Lemma lookup_in : forall {A} k (v : A) l, lookup k l = Some v -> In (k, v) l.
Proof.
  induction l as [|[k' v'] r IH]; simpl; [discriminate|].
  destruct (Nat.eqb_spec k k').
  - intro H. inversion H. subst. left. reflexivity.
  - intro H. right. apply IH. exact H.
Qed.

Lemma in_lookup_some : forall {A} k (v : A) l, In (k, v) l -> lookup k l <> None.
Proof.
  induction l as [|[k' v'] r IH]; simpl; [tauto|].
  intros [H|H].
  - inversion H. subst. rewrite Nat.eqb_refl. discriminate.
  - destruct (Nat.eqb k k'); [discriminate|apply IH; exact H].
Qed.

Lemma in_remove_key : forall {A} k (p : nat * A) l, In p (remove_key k l) -> In p l /\ fst p <> k.
Proof.
  induction l as [|[k' v'] r IH]; simpl; [tauto|].
  destruct (Nat.eqb_spec k k').
  - intro H. destruct (IH H). split; [right; assumption|assumption].
  - intros [H|H].
    + subst p. split; [left; reflexivity|simpl; congruence].
    + destruct (IH H). split; [right; assumption|assumption].
Qed.

(* ---- down lists *)

Lemma get_down_in : forall id l d, get_down id l = Some d -> In d l /\ d_id d = id.
Proof.
  induction l as [|d0 r IH]; simpl; [discriminate|].
  destruct (Nat.eqb_spec (d_id d0) id).
  - intros d H. inversion H. subst. split; [left; reflexivity|reflexivity].
  - intros d H. destruct (IH d H). split; [right; assumption|assumption].
Qed.

Lemma get_down_none : forall id l, get_down id l = None <-> ~ In id (map d_id l).
Proof.
  induction l as [|d0 r IH]; simpl; [tauto|].
  destruct (Nat.eqb_spec (d_id d0) id).
  - split; [discriminate|]. intro H. exfalso. apply H. left. assumption.
  - rewrite IH. tauto.
Qed.

Lemma in_get_down : forall d l, In d l -> NoDup (map d_id l) -> get_down (d_id d) l = Some d.
Proof.
  induction l as [|d0 r IH]; simpl; [tauto|].
  intros [H|H] ND.
  - subst. rewrite Nat.eqb_refl. reflexivity.
  - inversion ND. subst. destruct (Nat.eqb_spec (d_id d0) (d_id d)).
    + exfalso. apply H2. rewrite e. apply in_map. exact H.
    + apply IH; assumption.
Qed.

Lemma in_remove_down : forall id d l, In d (remove_down id l) <-> In d l /\ d_id d <> id.
Proof.
  induction l as [|d0 r IH]; simpl; [tauto|].
  destruct (Nat.eqb_spec (d_id d0) id).
  - rewrite IH. split; [tauto|]. intros [[H|H] Hne]; [subst; contradiction|tauto].
  - simpl. rewrite IH. split; [intros [H|H]; [subst; tauto|tauto]|tauto].
Qed.

Lemma get_down_remove_same : forall id l, get_down id (remove_down id l) = None.
Proof.
  intros. apply get_down_none. intro H. apply in_map_iff in H. destruct H as [d [H1 H2]].
  apply in_remove_down in H2. tauto.
Qed.

Lemma get_down_remove_other : forall id id' l, id <> id' -> get_down id (remove_down id' l) = get_down id l.
Proof.
  induction l as [|d0 r IH]; intro Hne; simpl; [reflexivity|].
  destruct (Nat.eqb_spec (d_id d0) id').
  - destruct (Nat.eqb_spec (d_id d0) id); [congruence|apply IH; exact Hne].
  - simpl. destruct (Nat.eqb_spec (d_id d0) id); [reflexivity|apply IH; exact Hne].
Qed.

Lemma map_id_remove_down : forall id l, NoDup (map d_id l) -> NoDup (map d_id (remove_down id l)).
Proof.
  induction l as [|d0 r IH]; simpl; [tauto|].
  intro ND. inversion ND. subst. destruct (Nat.eqb (d_id d0) id); [apply IH; assumption|].
  simpl. constructor; [|apply IH; assumption].
  intro H. apply H1. apply in_map_iff in H. destruct H as [d [E H]]. apply in_remove_down in H.
  rewrite <- E. apply in_map. tauto.
Qed.

Lemma map_id_replace_down : forall d' l, map d_id (replace_down d' l) = map d_id l.
Proof.
  induction l as [|d0 r IH]; simpl; [reflexivity|].
  destruct (Nat.eqb_spec (d_id d0) (d_id d')); simpl; [congruence|rewrite IH; reflexivity].
Qed.

Lemma in_replace_down : forall d d' l, In d (replace_down d' l) -> d = d' \/ (In d l /\ d_id d <> d_id d') \/ (In d l /\ In d' (replace_down d' l)).
Proof.
  induction l as [|d0 r IH]; simpl; [tauto|].
  destruct (Nat.eqb_spec (d_id d0) (d_id d')); simpl.
  - intros [H|H]; [left; congruence|]. right. right. split; [right; assumption|left; reflexivity].
  - intros [H|H].
    + subst. right. left. split; [left; reflexivity|assumption].
    + destruct (IH H) as [X|[[X Y]|[X Y]]]; [left; assumption|right; left; tauto|right; right; tauto].
Qed.

Lemma in_replace_down_nodup : forall d d' l, NoDup (map d_id l) -> In d (replace_down d' l) ->
  d = d' \/ (In d l /\ d_id d <> d_id d').
Proof.
  induction l as [|d0 r IH]; simpl; [tauto|].
  intro ND. inversion ND. subst.
  destruct (Nat.eqb_spec (d_id d0) (d_id d')); simpl.
  - intros [H|H]; [left; congruence|]. right. split; [right; assumption|].
    intro E. apply H1. rewrite e, <- E. apply in_map. assumption.
  - intros [H|H].
    + subst. right. split; [left; reflexivity|assumption].
    + destruct (IH H2 H) as [X|[X Y]]; [left; assumption|right; tauto].
Qed.

Lemma get_down_replace_same : forall d' l, get_down (d_id d') l <> None -> get_down (d_id d') (replace_down d' l) = Some d'.
Proof.
  induction l as [|d0 r IH]; simpl; [tauto|].
  destruct (Nat.eqb_spec (d_id d0) (d_id d')); simpl.
  - intros _. rewrite Nat.eqb_refl. reflexivity.
  - intro H. destruct (Nat.eqb_spec (d_id d0) (d_id d')); [contradiction|]. apply IH. exact H.
Qed.

Lemma get_down_replace_other : forall id d' l, id <> d_id d' -> get_down id (replace_down d' l) = get_down id l.
Proof.
  induction l as [|d0 r IH]; intro Hne; simpl; [reflexivity|].
  destruct (Nat.eqb_spec (d_id d0) (d_id d')); simpl.
  - destruct (Nat.eqb_spec (d_id d') id); [congruence|].
    destruct (Nat.eqb_spec (d_id d0) id); [congruence|reflexivity].
  - destruct (Nat.eqb_spec (d_id d0) id); [reflexivity|apply IH; exact Hne].
Qed.

Lemma get_down_app : forall id l1 l2,
  get_down id (l1 ++ l2) = match get_down id l1 with Some d => Some d | None => get_down id l2 end.
Proof.
  induction l1 as [|d0 r IH]; intros; simpl; [reflexivity|].
  destruct (Nat.eqb (d_id d0) id); [reflexivity|apply IH].
Qed.

Lemma NoDup_app_one : forall {A} (l : list A) x, NoDup l -> ~ In x l -> NoDup (l ++ [x]).
Proof.
  induction l as [|y r IH]; intros x ND Hn; simpl.
  - constructor; [tauto|constructor].
  - inversion ND. subst. constructor.
    + rewrite in_app_iff. intros [H|[H|[]]]; [contradiction|]. subst. apply Hn. left. reflexivity.
    + apply IH; [assumption|]. intro H. apply Hn. right. exact H.
Qed.

Lemma remove_key_notin : forall {A} k (l : list (nat * A)), lookup k l = None -> remove_key k l = l.
Proof.
  induction l as [|[k' v] r IH]; simpl; [reflexivity|].
  destruct (Nat.eqb k k'); [discriminate|]. intro H. rewrite IH; auto.
Qed.

Lemma lookup_none_nil : forall {A} (l : list (nat * A)), (forall k, lookup k l = None) -> l = [].
Proof.
  destruct l as [|[k v] r]; [reflexivity|]. intro H. specialize (H k). simpl in H.
  rewrite Nat.eqb_refl in H. discriminate.
Qed.

Lemma lookup_none_keys : forall {A} k (l : list (nat * A)), lookup k l = None <-> ~ In k (map fst l).
Proof.
  induction l as [|[k' v] r IH]; simpl; [tauto|].
  destruct (Nat.eqb_spec k k').
  - split; [discriminate|]. intro H. exfalso. apply H. left. congruence.
  - rewrite IH. split; [intros H [X|X]; [congruence|contradiction]|tauto].
Qed.

Lemma nodup_keys_remove : forall {A} k (l : list (nat * A)),
  NoDup (map fst l) -> NoDup (map fst (remove_key k l)).
Proof.
  induction l as [|[k' v] r IH]; simpl; [tauto|].
  intro ND. inversion ND. subst. destruct (Nat.eqb k k'); [apply IH; assumption|].
  simpl. constructor; [|apply IH; assumption].
  intro H. apply H1. apply in_map_iff in H. destruct H as [p [E H]].
  apply in_remove_key in H. rewrite <- E. apply in_map. tauto.
Qed.

Lemma in_nodup_lookup : forall {A} k (v : A) l, NoDup (map fst l) -> In (k, v) l -> lookup k l = Some v.
Proof.
  induction l as [|[k' v'] r IH]; simpl; [tauto|].
  intros ND [H|H].
  - inversion H. subst. rewrite Nat.eqb_refl. reflexivity.
  - inversion ND. subst. destruct (Nat.eqb_spec k k').
    + subst. exfalso. apply H2. apply (in_map fst) in H. exact H.
    + apply IH; assumption.
Qed.

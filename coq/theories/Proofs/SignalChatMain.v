(* C15, message-level part: the statements Properties/C15.v closes with
   [exact], over ALL operation sequences of the scheduler model
   ([reach ops w] = [run_ops empty_world ops = Some w]: any groups, clients,
   interleavings of message reads and queue services, any message fields). *)
From Coq Require Import ZArith List Bool String Arith Lia.
From Galene Require Import Generated.Guards Model.Signal Proofs.SignalFrame Proofs.SignalSafe
  Proofs.SignalChatFrame Proofs.SignalChatInv Proofs.SignalChat.
Import ListNotations.
Open Scope string_scope.
Open Scope list_scope.
Open Scope nat_scope.

(* ------------------------------------------------------------------ *)
(* C15_authentic                                                      *)

Lemma chatlike_server : forall x, is_chatlike x = true -> server_ok x = true -> server_msg x = true.
Proof. intros x Hc Hs. unfold server_ok in Hs. rewrite Hc in Hs. exact Hs. Qed.

(* every chat / usermessage / chathistory message in any outbox of any
   reachable state is one of the enumerated server messages, or the
   forwarding of a message whose source and username passed the check
   against the sender's own id and username (copied verbatim), or the replay
   of a stored entry that has that provenance *)
Lemma authentic : forall ops w i x,
  reach ops w -> In x (out_of w i) -> is_chatlike x = true ->
  server_msg x = true \/
  sent_in ops (forwarded x) \/
  (exists g e, sent_in ops (stored g e) /\ x = out_chathistory e).
Proof.
  intros ops w i x Hr Hx Hc. destruct (provenance ops w Hr) as [Ho _].
  destruct (Ho i x Hx) as [A|[A|A]]; auto. left. apply chatlike_server; assumption.
Qed.

(* the reading of the property: source = the sender's true id or "",
   username = its true username or absent, the sender was a member *)
Definition true_sender (ops : list op) (x : outmsg) : Prop :=
  exists ops1 h m ops2 w1 c,
    ops = ops1 ++ OpMsg h m :: ops2 /\ reach ops1 w1 /\
    get_client w1 h = Some c /\ c_closed c = false /\ c_group c <> None /\
    (o_source x = "" \/ o_source x = c_id c) /\
    (o_user x = None \/ o_user x = Some (c_username c)) /\
    o_kind x = m_kind m /\ o_value x = value_text (m_value m).

Lemma authentic_source_username : forall ops w i x,
  reach ops w -> In x (out_of w i) -> is_chatlike x = true -> server_msg x = false ->
  true_sender ops x.
Proof.
  intros ops w i x Hr Hx Hc Hs.
  destruct (authentic ops w i x Hr Hx Hc) as [A|[A|A]]; [congruence| |].
  - destruct A as (ops1 & h & m & ops2 & w1 & c & E & R & G & Cl & (Ht & [Hs1 Hu1] & (g & Hg) & Hp & ->)).
    exists ops1, h, m, ops2, w1, c. repeat split; auto. congruence.
  - destruct A as (g & e & (ops1 & h & m & ops2 & w1 & c & E & R & G & Cl &
                             (Ht & Hd & [Hs1 Hu1] & Hg & Hp & ->)) & ->).
    exists ops1, h, m, ops2, w1, c. repeat split; auto. congruence.
Qed.

(* ------------------------------------------------------------------ *)
(* C15_privileged_iff_op                                              *)

(* a forwarded chat / usermessage is privileged exactly when its sender held
   op at the moment it was read *)
Lemma privileged_iff_op : forall ops w i x,
  reach ops w -> In x (out_of w i) ->
  (o_type x = "chat" \/ o_type x = "usermessage") -> server_msg x = false ->
  exists ops1 h m ops2 w1 c,
    ops = ops1 ++ OpMsg h m :: ops2 /\ reach ops1 w1 /\
    get_client w1 h = Some c /\ c_closed c = false /\
    x = chat_out c m /\ o_priv x = mem "op" (c_perms c).
Proof.
  intros ops w i x Hr Hx Ht Hs.
  assert (Hc : is_chatlike x = true).
  { unfold is_chatlike. destruct Ht as [-> | ->]; reflexivity. }
  destruct (authentic ops w i x Hr Hx Hc) as [A|[A|A]]; [congruence| |].
  - destruct A as (ops1 & h & m & ops2 & w1 & c & E & R & G & Cl & (_ & _ & _ & _ & ->)).
    exists ops1, h, m, ops2, w1, c. repeat split; auto.
  - destruct A as (g & e & _ & ->). cbn in Ht. destruct Ht; discriminate.
Qed.

(* the server's own usermessages (error, kicked, warning, userinfo, token,
   tokenlist, clearchat) carry no source and are privileged by construction;
   its only chat message (the subgroup listing, username "Server") is not *)
Lemma server_privileged : forall x, server_msg x = true ->
  o_source x = "" /\
  ((o_type x = "usermessage" /\ o_priv x = true /\ In (o_kind x) server_kinds) \/
   (o_type x = "chat" /\ o_priv x = false /\ o_user x = Some "Server")).
Proof.
  intros x H. unfold server_msg in H. apply orb_prop in H. destruct H as [H|H].
  - repeat (apply andb_prop in H; destruct H as [H ?]).
    split; [apply is_empty_true; assumption|]. left.
    split; [apply eqb_true; assumption|]. split; [assumption | apply mem_In; assumption].
  - repeat (apply andb_prop in H; destruct H as [H ?]).
    split; [apply is_empty_true; assumption|]. right.
    split; [apply eqb_true; assumption|]. split; [apply negb_true_iff; assumption|].
    destruct (o_user x) as [u|]; [|discriminate]. cbn in *. f_equal. apply eqb_true. assumption.
Qed.

(* a replayed message never carries the flag: ChatHistoryEntry has no such
   field *)
Lemma replay_not_privileged : forall e, o_priv (out_chathistory e) = false.
Proof. reflexivity. Qed.

(* ------------------------------------------------------------------ *)
(* C15_addressing                                                     *)

Lemma addressing : forall ops w h c g m,
  reach ops w -> get_client w h = Some c -> c_closed c = false ->
  chat_type m -> authentic_fields c m ->
  c_group c = Some g -> mem (chat_perm m) (c_perms c) = true ->
  exists w', step w (OpMsg h m) = Running w' (RAuth Passed ENone) /\
    delivers w w' (chat_targets w h c g m) /\
    (forall g', hist_of w' g' =
       if stores m && String.eqb g' g then hist_add (hist_of w g') (chat_entry m) else hist_of w g') /\
    (forall g', members w' g' = members w g').
Proof.
  intros ops w h c g m Hr Hc Hcl Ht Ha Hg Hp.
  destruct (chat_step w h c g m (reach_minv _ _ Hr) Hc Ht Ha Hg Hp) as (w' & Hh & R).
  exists w'. split; [eapply step_msg_ok; eauto | exact R].
Qed.

(* who [chat_targets] names: for a broadcast every client whose group is the
   sender's, minus the sender iff noecho; for a directed message THE member
   of the sender's group with that id, or nobody but the sender ("user
   unknown") when no member of the sender's group has that id *)
Lemma targets_broadcast : forall w h c g m i, m_dest m = "" ->
  chat_targets w h c g m i =
  if member_of w i g && negb (m_noecho m && Nat.eqb i h) then [chat_out c m] else [].
Proof. intros w h c g m i Hd. unfold chat_targets. rewrite Hd. reflexivity. Qed.

Lemma targets_directed : forall ops w h c g m,
  reach ops w -> m_dest m <> "" ->
  (exists j cj, get_client w j = Some cj /\ c_group cj = Some g /\ c_id cj = m_dest m /\
     (forall j' cj', get_client w j' = Some cj' -> c_group cj' = Some g ->
                     c_id cj' = m_dest m -> j' = j) /\
     forall i, chat_targets w h c g m i = if Nat.eqb i j then [chat_out c m] else []) \/
  ((forall j cj, get_client w j = Some cj -> c_group cj = Some g -> c_id cj <> m_dest m) /\
   forall i, chat_targets w h c g m i =
             if Nat.eqb i h then [out_error (c_id c) "user unknown"] else []).
Proof.
  intros ops w h c g m Hr Hd. pose proof (reach_minv _ _ Hr) as Hi.
  apply is_empty_false in Hd. unfold chat_targets. rewrite Hd.
  destruct (get_member w g (m_dest m)) as [j|] eqn:E.
  - left. pose proof E as E'. apply (get_member_spec w g (m_dest m) j Hi) in E'.
    destruct E' as (cj & Hcj & Hgj & Hidj). exists j, cj. repeat split; auto.
    intros j' cj' H1 H2 H3.
    assert (E2 : get_member w g (m_dest m) = Some j') by (apply get_member_spec; eauto).
    congruence.
  - right. split; [|reflexivity]. apply get_member_none_spec; assumption.
Qed.

Lemma member_of_spec : forall w i g,
  member_of w i g = true <-> exists ci, get_client w i = Some ci /\ c_group ci = Some g.
Proof.
  intros w i g. unfold member_of. split.
  - destruct (get_client w i) as [ci|]; [|discriminate]. intro H. exists ci. split; [reflexivity|].
    apply opt_eqb_some. exact H.
  - intros (ci & Hc & Hg). rewrite Hc. apply opt_eqb_some. exact Hg.
Qed.

(* ------------------------------------------------------------------ *)
(* C15_spoof_closes                                                   *)

Lemma spoof_closes_reach : forall ops w h c m,
  reach ops w -> get_client w h = Some c -> c_closed c = false -> spoofed c m ->
  exists s, (s = "spoofed client id" \/ s = "spoofed username") /\
  let w' := error_close w h (EProto s) in
  step w (OpMsg h m) = Running w' (RAuth Invalid (EProto s)) /\
  (exists c', get_client w' h = Some c' /\ c_closed c' = true /\ c_group c' = None /\
              c_out c' = c_out c ++ [out_error (c_id c) s; close_msg "protocol"]) /\
  (forall i, i <> h -> out_of w' i = out_of w i) /\
  (forall g, hist_of w' g = hist_of w g) /\
  (forall g, ~ In h (members w' g)) /\
  (forall m', step w' (OpMsg h m') = Running w' RDead).
Proof. intros ops w h c m Hr. apply spoof_closes. eapply reach_minv; eauto. Qed.

(* ------------------------------------------------------------------ *)
(* C15_needs_message                                                  *)

Lemma needs_message : forall ops w h c m,
  reach ops w -> get_client w h = Some c -> c_closed c = false ->
  chat_type m -> authentic_fields c m ->
  (c_group c = None \/ mem (chat_perm m) (c_perms c) = false) ->
  exists v a, (c_group c = None /\ v = "join a group first" /\ a = JoinFirst \/
               c_group c <> None /\ v = "not authorised" /\ a = NotAuth) /\
  let w' := send_error w h c v in
  step w (OpMsg h m) = Running w' (RAuth a ENone) /\
  delivers w w' (fun i => if Nat.eqb i h then [out_error (c_id c) v] else []) /\
  w_groups w' = w_groups w.
Proof.
  intros ops w h c m _ Hc Hcl Ht Ha Hr.
  destruct (chat_refused w h c m Hc Ht Ha Hr) as (v & a & Hv & Hh & R).
  exists v, a. split; [exact Hv|]. cbv zeta. split; [eapply step_msg_ok; eauto | exact R].
Qed.

(* the permission: caption for type chat and kind caption, message for every
   other chat and for every usermessage *)
Lemma chat_perm_spec : forall m,
  chat_perm m = if String.eqb (m_type m) "chat" && String.eqb (m_kind m) "caption"
                then "caption" else "message".
Proof. reflexivity. Qed.

(* ------------------------------------------------------------------ *)
(* C15_history_only_broadcast_chat                                    *)

Lemma history_only_broadcast_chat : forall ops w g e,
  reach ops w -> In e (hist_of w g) -> sent_in ops (stored g e).
Proof. intros ops w g e Hr. destruct (provenance ops w Hr) as [_ Hh]. apply Hh. Qed.

(* ... and no operation touches a history otherwise: after any operation
   every history is what it was, or got the broadcast chat just read through
   AddToChatHistory, or went through ClearChatHistory *)
Lemma history_steps : forall ops w o w' r,
  reach ops w -> step w o = Running w' r -> hist_step (StepH w o) w w'.
Proof.
  intros ops w o w' r Hr Hs. destruct (step_prov w o w' r (reach_minv _ _ Hr) Hs) as [_ H]. exact H.
Qed.

Lemma stores_spec : forall m, stores m = true <-> m_type m = "chat" /\ m_dest m = "".
Proof.
  intros m. split; [apply stores_true|]. intros [H1 H2]. unfold stores. rewrite H1, H2. reflexivity.
Qed.

(* the id stored: the client's, or fresh when the client gave none *)
Lemma chat_entry_id : forall m, stores m = true ->
  h_id (chat_entry m) = if is_empty (m_id m) then "?" else m_id m.
Proof.
  intros m H. cbn. unfold chat_id. unfold stores in H. rewrite H. reflexivity.
Qed.

(* ------------------------------------------------------------------ *)
(* C15_clearchat                                                      *)

Lemma clearchat : forall ops w h c g m,
  reach ops w -> get_client w h = Some c -> c_closed c = false ->
  m_type m = "groupaction" -> m_kind m = "clearchat" -> authentic_fields c m ->
  c_group c = Some g ->
  (mem "op" (c_perms c) = false ->
     let w' := send_error w h c "not authorised" in
     step w (OpMsg h m) = Running w' (RAuth NotAuth ENone) /\
     delivers w w' (fun i => if Nat.eqb i h then [out_error (c_id c) "not authorised"] else []) /\
     w_groups w' = w_groups w) /\
  (mem "op" (c_perms c) = true ->
     match clearchat_args (m_value m) with
     | None =>
         let w' := send_error w h c "bad value in clearchat" in
         step w (OpMsg h m) = Running w' (RAuth Passed ENone) /\
         delivers w w' (fun i => if Nat.eqb i h then [out_error (c_id c) "bad value in clearchat"] else []) /\
         w_groups w' = w_groups w
     | Some (id, uid) =>
         exists w', step w (OpMsg h m) = Running w' (RAuth Passed ENone) /\
           (forall g', hist_of w' g' =
              if String.eqb g' g then hist_clear (hist_of w g') id uid else hist_of w g') /\
           (forall g', members w' g' = members w g') /\
           delivers w w' (fun i => if member_of w i g then [clearchat_msg (m_value m)] else [])
     end).
Proof.
  intros ops w h c g m Hr Hc Hcl Ht Hk Ha Hg.
  destruct (clearchat_step w h c g m (reach_minv _ _ Hr) Hc Ht Hk Ha Hg) as [Hno Hyes].
  split; intro Hop.
  - destruct (Hno Hop) as (Hh & R). cbv zeta. split; [eapply step_msg_ok; eauto | exact R].
  - specialize (Hyes Hop). destruct (clearchat_args (m_value m)) as [[id uid]|].
    + destruct Hyes as (w' & Hh & R). exists w'. split; [eapply step_msg_ok; eauto | exact R].
    + destruct Hyes as (Hh & R). cbv zeta. split; [eapply step_msg_ok; eauto | exact R].
Qed.

(* a group action by a client that is in no group is refused *)
Lemma clearchat_nonmember : forall w h c m,
  get_client w h = Some c -> c_closed c = false ->
  m_type m = "groupaction" -> authentic_fields c m -> c_group c = None ->
  step w (OpMsg h m) =
  Running (send_error w h c "join a group first") (RAuth JoinFirst ENone).
Proof.
  intros w h c m Hc Hcl Ht Ha Hg.
  destruct (authentic_no_spoof c m Ha) as [S1 S2].
  eapply step_msg_ok; eauto.
  rewrite (hcm_groupaction w h c m Ht S1 S2). apply handle_groupaction_nonmember. exact Hg.
Qed.

(* the argument check: no value = everything; a map {id, userId}; an id
   without a userId is refused; anything else is refused *)
Lemma clearchat_args_spec :
  clearchat_args VNone = Some ("", "") /\
  (forall l, clearchat_args (VMap l) =
     if is_empty (map_get l "userId") && negb (is_empty (map_get l "id")) then None
     else Some (map_get l "id", map_get l "userId")) /\
  (forall s, clearchat_args (VStr s) = None) /\ clearchat_args VOther = None /\
  (forall t, clearchat_args (VTok t) = None).
Proof. repeat split. Qed.

(* ------------------------------------------------------------------ *)
(* C15_replay_on_join                                                 *)

Lemma hcm_join : forall w h c m, m_type m = "join" -> spoof_source c m = false ->
  handle_client_message w h c m = handle_join w h c m.
Proof.
  intros w h c m Ht S1. unfold handle_client_message. unfold spoof_source in S1. rewrite S1, Ht.
  reflexivity.
Qed.

(* a step after which a client that was in no group is in group g is a join
   of g, and it appended the joinedAction "join" (followed by user-list
   events only) to that client's queue *)
Lemma join_queues_replay : forall ops w h c m w' r c' g,
  reach ops w -> get_client w h = Some c -> c_closed c = false -> c_group c = None ->
  m_type m = "join" ->
  step w (OpMsg h m) = Running w' r -> get_client w' h = Some c' -> c_group c' = Some g ->
  g = m_group m /\
  exists rest, queue_of w' h = queue_of w h ++ AJoined g "join" :: rest /\ Forall is_push rest.
Proof.
  intros ops w h c m w' r c' g Hr Hc Hcl Hg Ht Hs Hc' Hg'.
  pose proof (reach_minv _ _ Hr) as Hi.
  cbn [step] in Hs. unfold step_msg in Hs. rewrite Hc, Hcl in Hs. unfold finish in Hs.
  destruct (handle_client_message w h c m) as [res|] eqn:Eh; [|discriminate].
  assert (Hnoerr : forall e, e <> ENone -> w' = error_close (r_world res) h e -> False).
  { intros e He Hw. subst w'.
    assert (Hres : MInv (r_world res)) by (eapply handle_client_message_minv; eauto).
    destruct (get_client (r_world res) h) as [cr|] eqn:Ecr.
    - destruct (error_close_spec _ h cr e Hres Ecr) as ((cc & Hcc & _ & Hgc & _) & _).
      rewrite Hcc in Hc'. inversion Hc'; subst. congruence.
    - unfold error_close in Hc'. rewrite Ecr in Hc'. congruence. }
  destruct (spoof_source c m) eqn:S1.
  { rewrite hcm_spoof_source in Eh by exact S1. unfold failed in Eh. inversion Eh; subst res.
    cbn [r_err r_world] in Hs. inversion Hs. exfalso. eapply (Hnoerr (EProto "spoofed client id")); [discriminate|].
    cbn [r_world]. congruence. }
  rewrite (hcm_join w h c m Ht S1) in Eh.
  destruct (r_err res) eqn:Ee.
  - inversion Hs; subst w'. eapply join_enqueues; eauto.
  - inversion Hs. exfalso. eapply (Hnoerr (EProto s)); [discriminate | congruence].
  - inversion Hs. exfalso. eapply (Hnoerr (EUser s)); [discriminate | congruence].
  - inversion Hs. exfalso. eapply (Hnoerr (EKick id user message)); [discriminate | congruence].
  - inversion Hs. exfalso. eapply (Hnoerr EInternal); [discriminate | congruence].
  - inversion Hs. exfalso. eapply (Hnoerr EWsClose); [discriminate | congruence].
Qed.

(* when that action is served the client is sent its `joined` message and
   then exactly the group's history at that moment, in order, field by field *)
Lemma replay_on_join : forall w h c g gr,
  g <> "" -> find_group w g = Some gr ->
  exists w', handle_action w h c (AJoined g "join") = Ok (mkRes w' ENone Passed) /\
    delivers w w' (fun i => if Nat.eqb i h
       then out_joined "join" g (c_username c) (c_perms c) "" ""
                       (match g_locked gr with Some _ => true | None => false end)
            :: map out_chathistory (hist_of w g)
       else []) /\
    w_groups w' = w_groups w.
Proof. exact replay_step. Qed.

Lemma out_chathistory_fields : forall e,
  let x := out_chathistory e in
  o_type x = "chathistory" /\ o_id x = h_id e /\ o_source x = h_source e /\
  o_user x = h_user e /\ o_kind x = h_kind e /\ o_value x = h_value e /\
  o_dest x = "" /\ o_priv x = false.
Proof. intros e. repeat split. Qed.

(* ------------------------------------------------------------------ *)
(* The one server message that carries a member's id and username: kicked *)

(* a kick by an operator queues, at the target, the kicker's claimed source
   and username, which passed the same check; the `kicked` message sent when
   the target serves its queue copies them (err_msgs, error_close_spec) *)
Lemma kick_fields : forall w h c m g t,
  m_type m = "useraction" -> m_kind m = "kick" ->
  spoof_source c m = false -> spoof_user c m = false ->
  c_group c = Some g -> mem "op" (c_perms c) = true ->
  get_member w g (m_dest m) = Some t ->
  handle_client_message w h c m =
    ok (enq w t (AKick (m_source m) (m_username m)
                       (match m_value m with VStr s => s | _ => "" end))) /\
  authentic_fields c m.
Proof.
  intros w h c m g t Ht Hk S1 S2 Hg Hop Hm. split.
  - unfold handle_client_message. unfold spoof_source in S1. unfold spoof_user in S2.
    rewrite S1, S2. cbv zeta. rewrite Ht. cbn [String.eqb Ascii.eqb Bool.eqb orb].
    unfold handle_useraction. cbv zeta. rewrite Hk, nm_useraction, Hg.
    cbn [is_perm_kind String.eqb Ascii.eqb Bool.eqb orb].
    assert (Hp : has_perms c "useraction" "kick" = true).
    { unfold has_perms. change (required "useraction" "kick") with ["op"].
      rewrite subset_single. exact Hop. }
    rewrite Hp. cbn [negb]. rewrite Hm. reflexivity.
  - apply no_spoof_authentic; auto. rewrite Ht. discriminate.
Qed.

Lemma kicked_message : forall c id user message,
  err_msgs c (EKick id user message) =
  [mkOut "usermessage" "kicked" id "" (c_id c) user true []
         (if is_empty message then "you have been kicked out" else message) "" "" false].
Proof. reflexivity. Qed.

(* ------------------------------------------------------------------ *)
(* The server-controlled fields of a relayed message                   *)

(* The message record [msg] of the model has the fields handleClientMessage
   reads; "privileged", "time", "permissions", "status", "error" and the
   other fields a client may put on the wire are not among them: whatever a
   client claims there cannot influence any step ([step] is a function of
   the [msg] alone; the `chat` driver sends such fields without writing
   them to the trace, so that any influence on the implementation is a
   divergence from the model).  What the relayed message carries in the
   fields that are not copied from the sender's message: *)
Lemma relayed_fields : forall c m,
  let x := chat_out c m in
  o_priv x = mem "op" (c_perms c) /\
  o_perms x = [] /\ o_group x = "" /\ o_error x = "" /\ o_locked x = false /\
  o_id x = (if String.eqb (m_type m) "chat" && is_empty (m_dest m) && is_empty (m_id m)
            then "?" else m_id m) /\
  (* ... and the copied ones *)
  o_type x = m_type m /\ o_kind x = m_kind m /\ o_source x = m_source m /\
  o_dest x = m_dest m /\ o_user x = m_username m /\ o_value x = value_text (m_value m).
Proof. intros c m. repeat split. Qed.

(* the privileged flag of everything the step of a permitted member delivers
   depends on the sender's permissions only: two messages that differ in any
   field whatsoever are relayed with the same flag *)
Lemma privileged_independent_of_message : forall c m m',
  o_priv (chat_out c m) = o_priv (chat_out c m').
Proof. reflexivity. Qed.

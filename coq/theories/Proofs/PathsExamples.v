(* Readable byte strings for the non-vacuity example of Properties/C19.v. *)
From Coq Require Import ZArith List String Ascii.
From Galene Require Import Model.Paths.
Import ListNotations.

Fixpoint bytes (s : string) : str :=
  match s with
  | EmptyString => []
  | String a s' => Z.of_nat (nat_of_ascii a) :: bytes s'
  end.

(* C09: validity window, key selection, audience, username rules, global
   administrator token. *)
From Coq Require Import ZArith List Bool String Ascii Lia.
From Galene Require Import Model.Token Proofs.TokenScope.
Import ListNotations.
Open Scope string_scope.
Open Scope Z_scope.

Lemma mem_In : forall x l, mem x l = true <-> In x l.
Proof.
  intros x l. unfold mem. rewrite existsb_exists. split.
  - intros (y & Hy & E). apply String.eqb_eq in E. now subst y.
  - intros H. exists x. split; [exact H | apply String.eqb_refl].
Qed.

Lemma mem_false : forall x l, mem x l = false <-> ~ In x l.
Proof.
  intros x l. rewrite <- mem_In. destruct (mem x l); split; congruence.
Qed.

(* ------------------------------------------------------------------ *)
(* stateful tokens                                                     *)

Definition stateful_user (t : stateful) : string :=
  match st_username t with Some u => u | None => "" end.

Definition stateful_window (now : Z) (t : stateful) : Prop :=
  (exists e, st_expires t = Some e /\ now <= e) /\
  (forall n, st_notbefore t = Some n -> n <= now).

Lemma stateful_check_accept : forall now t g u p,
  stateful_check now t g = Accept u p <->
  stateful_match t g = true /\ stateful_window now t /\
  u = stateful_user t /\ p = st_perms t.
Proof.
  intros now t g u p. unfold stateful_check, stateful_window, stateful_user.
  destruct (stateful_match t g); cbn [negb].
  2:{ split; [discriminate | intros (H & _); discriminate]. }
  destruct (st_expires t) as [e|].
  2:{ split; [discriminate | intros (_ & ((e & H & _) & _) & _); discriminate]. }
  destruct (now >? e) eqn:E.
  { apply Z.gtb_lt in E. split; [discriminate|].
    intros (_ & ((e' & H & Hle) & _) & _). injection H as <-. lia. }
  assert (He : now <= e) by (rewrite Z.gtb_ltb in E; now apply Z.ltb_ge in E).
  destruct (st_notbefore t) as [n|].
  - destruct (now <? n) eqn:En.
    + apply Z.ltb_lt in En. split; [discriminate|].
      intros (_ & (_ & Hn) & _). specialize (Hn n eq_refl). lia.
    + apply Z.ltb_ge in En. split.
      * intros H. injection H as <- <-. repeat split; try reflexivity.
        -- now exists e.
        -- intros n' Hn'. injection Hn' as <-. exact En.
      * intros (_ & _ & -> & ->). reflexivity.
  - split.
    + intros H. injection H as <- <-. repeat split; try reflexivity.
      * now exists e.
      * intros n' Hn'. discriminate.
    + intros (_ & _ & -> & ->). reflexivity.
Qed.

Lemma stateful_no_expiry_never : forall now t g u p,
  st_expires t = None -> stateful_check now t g <> Accept u p.
Proof.
  intros now t g u p He H. apply stateful_check_accept in H.
  destruct H as (_ & ((e & H & _) & _) & _). congruence.
Qed.

(* ------------------------------------------------------------------ *)
(* claim time validation as configured by parseJWT                     *)

Definition notbefore_holds (now : Z) (c : numclaim) : Prop :=
  c = NAbsent \/ exists n, c = NDate n /\ n - leeway <= now.

Lemma exp_ok_spec : forall now c,
  exp_ok now c = true <-> exists e, c = NDate e /\ now < e + leeway.
Proof.
  intros now c. destruct c as [| |e]; cbn [exp_ok].
  - split; [discriminate | intros (e & H & _); discriminate].
  - split; [discriminate | intros (e & H & _); discriminate].
  - rewrite Z.ltb_lt. split; [intros H; now exists e | intros (e' & H & Hl); injection H as <-; exact Hl].
Qed.

Lemma notbefore_ok_spec : forall now c,
  notbefore_ok now c = true <-> notbefore_holds now c.
Proof.
  intros now c. unfold notbefore_holds. destruct c as [| |n]; cbn [notbefore_ok].
  - split; [now left | reflexivity].
  - split; [discriminate | intros [H | (n & H & _)]; discriminate].
  - rewrite negb_true_iff, Z.ltb_ge. split.
    + intros H. right. now exists n.
    + intros [H | (n' & H & Hl)]; [discriminate | injection H as <-; exact Hl].
Qed.

Definition jwt_window (now : Z) (c : claims) : Prop :=
  (exists e, c_exp c = NDate e /\ now < e + leeway) /\
  notbefore_holds now (c_nbf c) /\ notbefore_holds now (c_iat c).

Lemma validate_claims_spec : forall now c,
  validate_claims now c = true <-> jwt_window now c.
Proof.
  intros now c. unfold validate_claims, jwt_window.
  rewrite !andb_true_iff, exp_ok_spec, !notbefore_ok_spec. tauto.
Qed.

(* ------------------------------------------------------------------ *)
(* key selection                                                       *)

Lemma field_is_spec : forall f s, field_is f s = true <-> f = Some s.
Proof.
  intros f s. destruct f as [x|]; cbn [field_is].
  - rewrite String.eqb_eq. split; [now intros -> | now intros [= ->]].
  - split; discriminate.
Qed.

(* which (kty, alg) pairs ParseKey accepts *)
Definition key_alg_consistent (k : key) : Prop :=
  (k_kty k = Some "oct" /\ (k_alg k = Some "HS256" \/ k_alg k = Some "HS384" \/ k_alg k = Some "HS512")) \/
  (k_kty k = Some "EC" /\ k_alg k = Some "ES256") \/
  (k_kty k = Some "RSA" /\ k_alg k = Some "RS256").

Lemma parse_key_consistent : forall k,
  parse_key k = true -> key_alg_consistent k /\ k_material_ok k = true.
Proof.
  intros k. unfold parse_key, key_alg_consistent.
  destruct (k_kty k) as [kty|]; [|discriminate].
  destruct (k_alg k) as [alg|]; [|discriminate].
  destruct (String.eqb kty "oct") eqn:E1.
  { apply String.eqb_eq in E1. subst kty. rewrite andb_true_iff, !orb_true_iff, !String.eqb_eq.
    intros ([[-> | ->] | ->] & Hm); (split; [left; split; [reflexivity | tauto] | exact Hm]). }
  destruct (String.eqb kty "EC") eqn:E2.
  { apply String.eqb_eq in E2. subst kty. rewrite andb_true_iff, String.eqb_eq.
    intros (-> & Hm). split; [right; left; now split | exact Hm]. }
  destruct (String.eqb kty "RSA") eqn:E3.
  { apply String.eqb_eq in E3. subst kty. rewrite andb_true_iff, String.eqb_eq.
    intros (-> & Hm). split; [right; right; now split | exact Hm]. }
  discriminate.
Qed.

Lemma select_keys_sound : forall alg kid keys ks,
  select_keys alg kid keys = Some ks ->
  forall k, In k ks ->
    In k keys /\ (alg <> "" -> k_alg k = Some alg) /\
    (kid <> "" -> k_kid k = Some kid) /\ parse_key k = true.
Proof.
  intros alg kid. induction keys as [|ky rest IH]; intros ks H k Hk; cbn [select_keys] in H.
  - injection H as <-. contradiction.
  - destruct (negb (String.eqb alg "") && negb (field_is (k_alg ky) alg))%bool eqn:Ea.
    { destruct (IH ks H k Hk) as (Hin & Hr). split; [now right | exact Hr]. }
    destruct (negb (String.eqb kid "") && negb (field_is (k_kid ky) kid))%bool eqn:Ek.
    { destruct (IH ks H k Hk) as (Hin & Hr). split; [now right | exact Hr]. }
    destruct (parse_key ky) eqn:Ep; [|discriminate].
    destruct (select_keys alg kid rest) as [ks'|] eqn:Es; [|discriminate].
    injection H as <-. destruct Hk as [<- | Hk].
    + split; [now left|]. split; [|split; [|exact Ep]].
      * intros Hne. apply andb_false_iff in Ea. destruct Ea as [Ea | Ea].
        -- apply negb_false_iff, String.eqb_eq in Ea. contradiction.
        -- apply negb_false_iff, field_is_spec in Ea. exact Ea.
      * intros Hne. apply andb_false_iff in Ek. destruct Ek as [Ek | Ek].
        -- apply negb_false_iff, String.eqb_eq in Ek. contradiction.
        -- apply negb_false_iff, field_is_spec in Ek. exact Ek.
    + destruct (IH ks' eq_refl k Hk) as (Hin & Hr). split; [now right | exact Hr].
Qed.

(* no configured key declares the algorithm: nothing is selected *)
Lemma select_keys_undeclared : forall alg kid keys,
  alg <> "" -> (forall k, In k keys -> k_alg k <> Some alg) ->
  select_keys alg kid keys = Some [].
Proof.
  intros alg kid keys Hne. induction keys as [|ky rest IH]; intros H; cbn [select_keys].
  - reflexivity.
  - assert (E : field_is (k_alg ky) alg = false).
    { destruct (field_is (k_alg ky) alg) eqn:E; [|reflexivity].
      apply field_is_spec in E. now apply (H ky (or_introl eq_refl)) in E. }
    apply String.eqb_neq in Hne. rewrite Hne, E. cbn [negb andb].
    apply IH. intros k Hk. apply H. now right.
Qed.

Section JWT.
Variable tokdata : Type.
Variable verify : key -> string -> tokdata -> bool.
Variable valid_group_name : string -> bool.

Notation jwt := (jwt tokdata).
Notation jwt_parse := (jwt_parse tokdata verify).
Notation parse_token := (parse_token tokdata verify).
Notation get_permission := (get_permission tokdata verify valid_group_name).
Notation check_global_admin := (check_global_admin tokdata verify).

(* what a successful jwt.Parse implies *)
Lemma jwt_parse_valid : forall now keys (j : jwt),
  jwt_parse now keys j = PValid ->
  exists alg k,
    h_alg (j_header tokdata j) = Some alg /\
    In alg jwt_methods /\
    In k keys /\ k_alg k = Some alg /\
    (h_kid (j_header tokdata j) <> "" -> k_kid k = Some (h_kid (j_header tokdata j))) /\
    parse_key k = true /\ key_alg_consistent k /\
    verify k alg (j_data tokdata j) = true /\
    jwt_window now (j_claims tokdata j).
Proof.
  intros now keys j. unfold Token.jwt_parse.
  destruct (h_alg (j_header tokdata j)) as [alg|]; [|discriminate].
  destruct (mem alg jwt_methods) eqn:Em; cbn [negb]; [|discriminate].
  destruct (String.eqb alg "") eqn:E0; [discriminate|].
  apply String.eqb_neq in E0.
  destruct (select_keys alg (h_kid (j_header tokdata j)) keys) as [ks|] eqn:Es; [|discriminate].
  destruct ks as [|k0 ks0]; [discriminate|].
  destruct (existsb _ (k0 :: ks0)) eqn:Ev; [|discriminate].
  destruct (validate_claims now (j_claims tokdata j)) eqn:Ec; [|discriminate].
  intros _. apply existsb_exists in Ev. destruct Ev as (k & Hk & Hv).
  destruct (select_keys_sound _ _ _ _ Es k Hk) as (Hin & Ha & Hkid & Hp).
  exists alg, k.
  split; [reflexivity|]. split; [now apply mem_In|]. split; [exact Hin|].
  split; [now apply Ha|]. split; [exact Hkid|]. split; [exact Hp|].
  split; [now apply parse_key_consistent|]. split; [exact Hv|].
  now apply validate_claims_spec.
Qed.

Lemma jwt_none_rejected : forall now keys (j : jwt),
  h_alg (j_header tokdata j) = Some "none" -> jwt_parse now keys j <> PValid.
Proof.
  intros now keys j Hn H. apply jwt_parse_valid in H.
  destruct H as (alg & k & Ha & _ & _ & Hk & _ & _ & Hc & _).
  rewrite Hn in Ha. injection Ha as <-.
  destruct Hc as [(_ & [H | [H | H]]) | [(_ & H) | (_ & H)]]; rewrite Hk in H; discriminate.
Qed.

Lemma jwt_undeclared_alg_rejected : forall now keys (j : jwt) alg,
  h_alg (j_header tokdata j) = Some alg ->
  (forall k, In k keys -> k_alg k <> Some alg) ->
  jwt_parse now keys j = PUnverifiable.
Proof.
  intros now keys j alg Ha Hno. unfold Token.jwt_parse. rewrite Ha.
  destruct (mem alg jwt_methods); cbn [negb]; [|reflexivity].
  destruct (String.eqb alg "") eqn:E0; [reflexivity|].
  apply String.eqb_neq in E0.
  now rewrite (select_keys_undeclared alg _ keys E0 Hno).
Qed.

Lemma jwt_no_keys_rejected : forall now (j : jwt), jwt_parse now [] j = PUnverifiable.
Proof.
  intros now j. unfold Token.jwt_parse.
  destruct (h_alg (j_header tokdata j)) as [alg|]; [|reflexivity].
  destruct (mem alg jwt_methods); cbn [negb]; [|reflexivity].
  destruct (String.eqb alg ""); reflexivity.
Qed.

(* ------------------------------------------------------------------ *)
(* audience                                                            *)

Definition aud_names (host group : string) (incl : bool) (a : aud_entry) : Prop :=
  au_ok a = true /\
  (host <> "" -> lower (au_host a) = lower host) /\
  covers_path (au_path a) incl group.

Lemma aud_matches_spec : forall host group incl a,
  aud_matches host group incl a = true <-> aud_names host group incl a.
Proof.
  intros host group incl a. unfold aud_matches, aud_names, equal_fold.
  destruct (au_ok a); cbn [negb].
  2:{ split; [discriminate | intros (H & _); discriminate]. }
  destruct (String.eqb host "") eqn:Eh; cbn [negb andb].
  - apply String.eqb_eq in Eh. rewrite match_group_spec. split.
    + intros H. repeat split; [now intros Hn | exact H].
    + now intros (_ & _ & H).
  - apply String.eqb_neq in Eh.
    destruct (String.eqb (lower (au_host a)) (lower host)) eqn:El; cbn [negb].
    + apply String.eqb_eq in El. rewrite match_group_spec. split.
      * intros H. repeat split; [now intros _ | exact H].
      * now intros (_ & _ & H).
    + apply String.eqb_neq in El. split; [discriminate|].
      intros (_ & H & _). now elim El; apply H.
Qed.

Lemma jwt_check_accept : forall host group c u p,
  jwt_check host group c = Accept u p <->
  c_sub_ok c = true /\ c_aud_ok c = true /\
  (exists a, In a (c_aud c) /\ aud_names host group (c_incl c) a) /\
  c_perms_ok c = true /\ u = c_sub c /\ p = c_perms c.
Proof.
  intros host group c u p. unfold jwt_check.
  destruct (c_sub_ok c); cbn [negb].
  2:{ split; [discriminate | intros (H & _); discriminate]. }
  destruct (c_aud_ok c); cbn [negb].
  2:{ split; [discriminate | intros (_ & H & _); discriminate]. }
  destruct (existsb (aud_matches host group (c_incl c)) (c_aud c)) eqn:Ea; cbn [negb].
  2:{ split; [discriminate|]. intros (_ & _ & (a & Hin & Ha) & _).
      assert (existsb (aud_matches host group (c_incl c)) (c_aud c) = true).
      { apply existsb_exists. exists a. split; [exact Hin | now apply aud_matches_spec]. }
      congruence. }
  apply existsb_exists in Ea. destruct Ea as (a & Hin & Ha). apply aud_matches_spec in Ha.
  destruct (c_perms_ok c); cbn [negb].
  2:{ split; [discriminate | intros (_ & _ & _ & H & _); discriminate]. }
  split.
  - intros H. injection H as <- <-. repeat split; try reflexivity. now exists a.
  - intros (_ & _ & _ & _ & -> & ->). reflexivity.
Qed.

(* ------------------------------------------------------------------ *)
(* GetPermission, token branch                                         *)

Definition token_user (t : token tokdata) : string :=
  match t with
  | TJWT _ j => c_sub (j_claims tokdata j)
  | TStateful _ s => stateful_user s
  end.

Definition token_perms (t : token tokdata) : list string :=
  match t with
  | TJWT _ j => c_perms (j_claims tokdata j)
  | TStateful _ s => st_perms s
  end.

Lemma token_check_accept_exact : forall now host group t u p,
  token_check tokdata now host group t = Accept u p ->
  u = token_user t /\ p = token_perms t.
Proof.
  intros now host group t u p H. destruct t as [j | s]; cbn in H |- *.
  - apply jwt_check_accept in H. tauto.
  - apply stateful_check_accept in H. tauto.
Qed.

Lemma get_permission_ok : forall now host keys users group ct cu u p,
  get_permission now host keys users group ct cu = GPOk u p ->
  exists tok,
    parse_token now keys ct = Some tok /\
    token_check tokdata now host group tok = Accept (token_user tok) (token_perms tok) /\
    p = token_perms tok /\
    ((token_user tok <> "" /\ u = token_user tok) \/
     (token_user tok = "" /\
      ((cu = Some u /\ ~ In u users) \/ (cu = None /\ u = "")))) /\
    valid_username valid_group_name u = true.
Proof.
  intros now host keys users group ct cu u p. unfold Token.get_permission.
  destruct (parse_token now keys ct) as [tok|] eqn:Ep; [|discriminate].
  destruct ((match cu with None => true | Some _ => false end) && token_needs_username tokdata tok)%bool;
    [discriminate|].
  destruct (token_check tokdata now host group tok) as [tu tp|] eqn:Ec; [|discriminate].
  destruct (token_check_accept_exact _ _ _ _ _ _ Ec) as (-> & ->).
  intros H. exists tok. split; [reflexivity|]. split; [exact Ec|].
  destruct (String.eqb (token_user tok) "") eqn:E0.
  - apply String.eqb_eq in E0. destruct cu as [c|].
    + destruct (mem c users) eqn:Em; [discriminate|].
      destruct (valid_username valid_group_name c) eqn:Ev; [|discriminate].
      injection H as <- <-. split; [reflexivity|]. split; [|exact Ev].
      right. split; [exact E0|]. left. split; [reflexivity | now apply mem_false].
    + destruct (valid_username valid_group_name (token_user tok)) eqn:Ev; [|discriminate].
      injection H as <- <-. split; [reflexivity|]. split; [|exact Ev].
      right. split; [exact E0|]. right. split; [reflexivity | exact E0].
  - apply String.eqb_neq in E0.
    destruct (valid_username valid_group_name (token_user tok)) eqn:Ev; [|discriminate].
    injection H as <- <-. split; [reflexivity|]. split; [|exact Ev].
    left. split; [exact E0 | reflexivity].
Qed.

(* the token carries no username, the client picks the name of a configured
   user: refused with ErrDuplicateUsername *)
Lemma get_permission_shadow : forall now host keys users group ct c tok p,
  parse_token now keys ct = Some tok ->
  token_check tokdata now host group tok = Accept "" p ->
  In c users ->
  get_permission now host keys users group ct (Some c) = GPDuplicate.
Proof.
  intros now host keys users group ct c tok p Hp Hc Hin.
  unfold Token.get_permission. rewrite Hp. cbn [andb]. rewrite Hc. cbn [String.eqb].
  apply mem_In in Hin. now rewrite Hin.
Qed.

Lemma get_permission_no_shadow : forall now host keys users group ct c u p,
  In c users ->
  get_permission now host keys users group ct (Some c) = GPOk u p ->
  exists tok, parse_token now keys ct = Some tok /\
              token_user tok <> "" /\ u = token_user tok.
Proof.
  intros now host keys users group ct c u p Hin H.
  apply get_permission_ok in H. destruct H as (tok & Hp & _ & _ & Hu & _).
  exists tok. split; [exact Hp|].
  destruct Hu as [Hu | (_ & [(Hc & Hn) | (Hc & _)])]; [exact Hu | | discriminate].
  injection Hc as <-. contradiction.
Qed.

(* ------------------------------------------------------------------ *)
(* global administrator token                                          *)

Lemma check_global_admin_spec : forall now host ct,
  check_global_admin now host ct = true <->
  exists s, ct = COpaque tokdata (Some s) /\
            st_group s = "" /\ st_sub s = true /\
            stateful_window now s /\ In "admin" (st_perms s).
Proof.
  intros now host ct. unfold Token.check_global_admin. destruct ct as [j | [s|]]; cbn [Token.parse_token].
  - rewrite jwt_no_keys_rejected. split; [discriminate | intros (s & H & _); discriminate].
  - cbn [token_check]. destruct (stateful_check now s "") as [u p|] eqn:Ec.
    + apply stateful_check_accept in Ec. destruct Ec as (Hm & Hw & _ & ->).
      apply stateful_match_root in Hm. destruct Hm as (Hs & Hg).
      rewrite mem_In. split.
      * intros H. exists s. repeat split; try assumption; apply Hw.
      * intros (s' & Heq & _ & _ & _ & H). injection Heq as <-. exact H.
    + split; [discriminate|]. intros (s' & Heq & Hg & Hs & Hw & H). injection Heq as <-.
      assert (stateful_check now s "" = Accept (stateful_user s) (st_perms s)).
      { apply stateful_check_accept. repeat split; try apply Hw.
        apply stateful_match_root. now split. }
      congruence.
  - split; [discriminate | intros (s & H & _); discriminate].
Qed.

End JWT.

(* C11: the hand-written specification table, its agreement with the
   generated guard table, and what the model guarantees about permissions,
   tokens and revocation. *)
From Coq Require Import ZArith List Bool String Arith Lia.
From Galene Require Import Generated.Guards Model.Signal Proofs.SignalFrame Proofs.SignalSafe.
Import ListNotations.
Open Scope string_scope.

(* ------------------------------------------------------------------ *)
(* The specification, written from the property text:
     publishing needs present, chat needs message, captions caption,
     moderation (op/unop/present/unpresent/shutup/unshutup/kick/identify/
     lock/unlock/clearchat/setdata/subgroups) needs op, recording needs
     record, token creation needs token, token listing/editing op and token.
   (type, kind, required); kind "_" = every other kind of that type. *)

Definition spec_row := (str * str * list str)%type.

Definition spec : list spec_row := [
  ("offer", "_", ["present"]);
  ("chat", "caption", ["caption"]);
  ("chat", "_", ["message"]);
  ("usermessage", "_", ["message"]);
  ("groupaction", "clearchat", ["op"]);
  ("groupaction", "lock", ["op"]);
  ("groupaction", "unlock", ["op"]);
  ("groupaction", "setdata", ["op"]);
  ("groupaction", "subgroups", ["op"]);
  ("groupaction", "record", ["record"]);
  ("groupaction", "unrecord", ["record"]);
  ("groupaction", "maketoken", ["token"]);
  ("groupaction", "edittoken", ["op"; "token"]);
  ("groupaction", "listtokens", ["op"; "token"]);
  ("useraction", "op", ["op"]);
  ("useraction", "unop", ["op"]);
  ("useraction", "present", ["op"]);
  ("useraction", "unpresent", ["op"]);
  ("useraction", "shutup", ["op"]);
  ("useraction", "unshutup", ["op"]);
  ("useraction", "kick", ["op"]);
  ("useraction", "identify", ["op"])
].

Fixpoint lookup_spec (tbl : list spec_row) (t k : str) : option (list str) :=
  match tbl with
  | [] => None
  | (t', k', req) :: r =>
      if String.eqb t t' && String.eqb k k' then Some req else lookup_spec r t k
  end.

(* Some req: the message is a privileged action needing req *)
Definition spec_required (t k : str) : option (list str) :=
  match lookup_spec spec t k with
  | Some r => Some r
  | None => lookup_spec spec t "_"
  end.

Lemma lookup_spec_In : forall tbl t k req,
  lookup_spec tbl t k = Some req -> In (t, k, req) tbl.
Proof.
  induction tbl as [|[[t' k'] q] tbl IH]; intros t k req H; cbn in H; [discriminate|].
  destruct (String.eqb t t' && String.eqb k k') eqn:E.
  - apply andb_prop in E. destruct E as [E1 E2]. apply eqb_true in E1, E2. subst.
    inversion H; subst. left. reflexivity.
  - right. apply IH. exact H.
Qed.

(* ------------------------------------------------------------------ *)
(* Agreement of the generated guards with the specification            *)

Definition check_rows : bool :=
  forallb (fun r : guard_row =>
             let '(t, k, m, ps) := r in
             match spec_required t k with
             | Some req => subset req (real_perms (m, ps)) && (m || String.eqb t "offer")
             | None => true
             end) guards.

Definition is_some {A : Type} (o : option A) : bool :=
  match o with Some _ => true | None => false end.

(* every row of the specification has its own row in the generated table *)
Definition check_spec : bool :=
  forallb (fun r : spec_row => let '(t, k, _) := r in is_some (lookup_guard guards t k)) spec.

Definition check_understood : bool :=
  match guards_unknown with [] => true | _ => false end.

Lemma checks_hold : check_rows = true /\ check_spec = true /\ check_understood = true.
Proof. vm_compute. repeat split; reflexivity. Qed.

Lemma spec_guards_agree : forall t k req,
  spec_required t k = Some req ->
  subset req (required t k) = true /\ (needs_member t k = true \/ t = "offer").
Proof.
  intros t k req Hs.
  destruct checks_hold as (Hrows & Hspec & _).
  unfold check_rows in Hrows. rewrite forallb_forall in Hrows.
  unfold check_spec in Hspec. rewrite forallb_forall in Hspec.
  assert (Hrow : forall k' g req', lookup_guard guards t k' = Some g ->
                 spec_required t k' = Some req' ->
                 subset req' (real_perms g) = true /\ (fst g = true \/ t = "offer")).
  { intros k' g req' Hg Hs'. apply lookup_guard_In in Hg. apply Hrows in Hg.
    rewrite Hs' in Hg. apply andb_prop in Hg. destruct Hg as [H1 H2]. destruct g as [gm gps].
    split; [exact H1|]. cbn in H2. apply orb_prop in H2. destruct H2 as [H2|H2]; [left; exact H2|].
    right. apply eqb_true. exact H2. }
  unfold required, needs_member, guard_of.
  destruct (lookup_guard guards t k) as [g|] eqn:E1.
  { eapply Hrow; eauto. }
  (* no exact row in the generated table: the specification has no exact row either *)
  unfold spec_required in Hs.
  destruct (lookup_spec spec t k) as [q|] eqn:E2.
  { apply lookup_spec_In in E2. apply Hspec in E2. rewrite E1 in E2. discriminate. }
  pose proof (lookup_spec_In _ _ _ _ Hs) as Hin. apply Hspec in Hin.
  destruct (lookup_guard guards t "_") as [g0|] eqn:E3; [|discriminate].
  eapply Hrow; [exact E3|]. unfold spec_required. rewrite Hs. reflexivity.
Qed.

(* ------------------------------------------------------------------ *)
(* Every message handler: guards passed => member with the table's     *)
(* permissions                                                         *)

Ltac negs :=
  repeat match goal with
    | H : negb _ = false |- _ => apply negb_false_iff in H
    | H : negb _ = true |- _ => apply negb_true_iff in H
    end.

Ltac passed_tac H Hp :=
  cbv zeta in H; repeat break_eq; inv_eqs; finish_ok H; cbn [r_auth] in Hp; try discriminate Hp;
  negs; (split; [congruence | assumption]).

Lemma chat_passed : forall w h c m r,
  handle_chat w h c m = Ok r -> r_auth r = Passed ->
  c_group c <> None /\ has_perms c (m_type m) (m_kind m) = true.
Proof. intros w h c m r H Hp. unfold handle_chat in H. passed_tac H Hp. Qed.

Lemma groupaction_passed : forall w h c m r,
  handle_groupaction w h c m = Ok r -> r_auth r = Passed ->
  c_group c <> None /\ has_perms c "groupaction" (m_kind m) = true.
Proof. intros w h c m r H Hp. unfold handle_groupaction in H. passed_tac H Hp. Qed.

Lemma useraction_passed : forall w h c m r,
  handle_useraction w h c m = Ok r -> r_auth r = Passed ->
  c_group c <> None /\ has_perms c "useraction" (m_kind m) = true.
Proof. intros w h c m r H Hp. unfold handle_useraction in H. passed_tac H Hp. Qed.

Lemma offer_passed : forall w h c m r,
  handle_offer w h c m = Ok r -> r_auth r = Passed ->
  has_perms c "offer" (m_kind m) = true.
Proof.
  intros w h c m r H Hp. unfold handle_offer in H.
  destruct (is_empty (m_id m)); [finish_ok H; discriminate|].
  destruct (has_perms c "offer" (m_kind m)); [reflexivity|].
  cbn [negb] in H. finish_ok H. discriminate.
Qed.

Lemma spec_none : forall t, (forall k, lookup_spec spec t k = None) ->
  forall k req, spec_required t k = Some req -> False.
Proof. intros t Ht k req H. unfold spec_required in H. rewrite !Ht in H. discriminate. Qed.

Ltac no_spec Hs :=
  exfalso; eapply spec_none; [|exact Hs]; intro; vm_compute; reflexivity.

(* for ALL states, messages and oracles: the server gets past the guards of
   a privileged message only for a member holding what the SPECIFICATION
   demands *)
Theorem guarded : forall w h c m r req,
  gp_inv c ->
  handle_client_message w h c m = Ok r -> r_auth r = Passed ->
  spec_required (m_type m) (m_kind m) = Some req ->
  c_group c <> None /\ subset req (c_perms c) = true.
Proof.
  intros w h c m r req Hc H Hp Hs. unfold handle_client_message in H.
  match type of H with (if ?b then _ else _) = _ => destruct b end; [finish_ok H; discriminate|].
  match type of H with (if ?b then _ else _) = _ => destruct b end; [finish_ok H; discriminate|].
  cbv zeta in H.
  destruct (String.eqb (m_type m) "join") eqn:E; [apply eqb_true in E; rewrite E in Hs; no_spec Hs|clear E].
  destruct (String.eqb (m_type m) "request") eqn:E; [apply eqb_true in E; rewrite E in Hs; no_spec Hs|clear E].
  destruct (String.eqb (m_type m) "requestStream") eqn:E; [apply eqb_true in E; rewrite E in Hs; no_spec Hs|clear E].
  destruct (String.eqb (m_type m) "offer") eqn:E.
  { apply eqb_true in E. rewrite E in Hs.
    pose proof (offer_passed _ _ _ _ _ H Hp) as Hh.
    destruct (spec_guards_agree _ _ _ Hs) as [Hsub _].
    split; [eapply has_present_member; eauto|].
    eapply subset_trans; [exact Hsub | exact Hh]. }
  clear E.
  destruct (String.eqb (m_type m) "answer") eqn:E; [apply eqb_true in E; rewrite E in Hs; no_spec Hs|clear E].
  destruct (String.eqb (m_type m) "renegotiate") eqn:E; [apply eqb_true in E; rewrite E in Hs; no_spec Hs|clear E].
  destruct (String.eqb (m_type m) "close") eqn:E; [apply eqb_true in E; rewrite E in Hs; no_spec Hs|clear E].
  destruct (String.eqb (m_type m) "abort") eqn:E; [apply eqb_true in E; rewrite E in Hs; no_spec Hs|clear E].
  destruct (String.eqb (m_type m) "ice") eqn:E; [apply eqb_true in E; rewrite E in Hs; no_spec Hs|clear E].
  destruct (String.eqb (m_type m) "chat" || String.eqb (m_type m) "usermessage") eqn:E.
  { destruct (chat_passed _ _ _ _ _ H Hp) as [Hg Hh].
    destruct (spec_guards_agree _ _ _ Hs) as [Hsub _].
    split; [exact Hg|]. eapply subset_trans; [exact Hsub | exact Hh]. }
  clear E.
  destruct (String.eqb (m_type m) "groupaction") eqn:E.
  { apply eqb_true in E. rewrite E in Hs.
    destruct (groupaction_passed _ _ _ _ _ H Hp) as [Hg Hh].
    destruct (spec_guards_agree _ _ _ Hs) as [Hsub _].
    split; [exact Hg|]. eapply subset_trans; [exact Hsub | exact Hh]. }
  clear E.
  destruct (String.eqb (m_type m) "useraction") eqn:E.
  { apply eqb_true in E. rewrite E in Hs.
    destruct (useraction_passed _ _ _ _ _ H Hp) as [Hg Hh].
    destruct (spec_guards_agree _ _ _ Hs) as [Hsub _].
    split; [exact Hg|]. eapply subset_trans; [exact Hsub | exact Hh]. }
  clear E.
  destruct (String.eqb (m_type m) "pong") eqn:E; [apply eqb_true in E; rewrite E in Hs; no_spec Hs|clear E].
  destruct (String.eqb (m_type m) "ping") eqn:E; [apply eqb_true in E; rewrite E in Hs; no_spec Hs|clear E].
  finish_ok H. discriminate.
Qed.

(* the same over histories: every reachable state *)
Theorem guarded_reachable : forall ops w h c m r req,
  run_ops empty_world ops = Some w -> get_client w h = Some c ->
  handle_client_message w h c m = Ok r -> r_auth r = Passed ->
  spec_required (m_type m) (m_kind m) = Some req ->
  c_group c <> None /\ subset req (c_perms c) = true.
Proof.
  intros ops w h c m r req Hr Hc. eapply guarded.
  intro Hg. eapply nonmember_none; eauto.
Qed.

(* ------------------------------------------------------------------ *)
(* The finite table, computed through the model                        *)

Definition all_perms : list str := ["op"; "present"; "message"; "caption"; "record"; "token"].

Fixpoint sublists (l : list str) : list (list str) :=
  match l with
  | [] => [[]]
  | x :: r => let s := sublists r in map (cons x) s ++ s
  end.

Inductive mstate := SNever | SRefusedLocked | SRefusedPw | SRefusedDup | SMember | SLeft.
Definition mstates : list mstate := [SNever; SRefusedLocked; SRefusedPw; SRefusedDup; SMember; SLeft].

Definition gdesc (P : list str) : desc :=
  mkDesc [mkUser "oper" "pwo" false all_perms; mkUser "plain" "pwp" false ["message"];
          mkUser "subj" "pws" false P] None "" false 0.

Definition basic_msg (t k : str) : msg :=
  mkMsg t k "" "" "" "" None "" "" "" VNone false SdpGood "" RNone true [].

Definition joinmsg (u pw : str) : msg :=
  mkMsg "join" "join" "" "" "" "" (Some u) pw "" "g" VNone false SdpGood "" RNone false [].
Definition leavemsg : msg :=
  mkMsg "join" "leave" "" "" "" "" None "" "" "g" VNone false SdpGood "" RNone false [].

Definition scenario_ops (P : list str) (st : mstate) : list op :=
  [OpMkGroup "g" (gdesc P); OpClient "o"; OpMsg 0 (joinmsg "oper" "pwo");
   OpClient "p"; OpMsg 1 (joinmsg "plain" "pwp"); OpQuiesce] ++
  match st with
  | SNever => [OpClient "x"]
  | SRefusedLocked => [OpMsg 0 (basic_msg "groupaction" "lock"); OpClient "x";
                       OpMsg 2 (joinmsg "subj" "pws"); OpQuiesce]
  | SRefusedPw => [OpClient "x"; OpMsg 2 (joinmsg "subj" "wrong"); OpQuiesce]
  | SRefusedDup => [OpClient "p"; OpMsg 2 (joinmsg "subj" "pws"); OpQuiesce]
  | SMember => [OpClient "x"; OpMsg 2 (joinmsg "subj" "pws"); OpQuiesce]
  | SLeft => [OpClient "x"; OpMsg 2 (joinmsg "subj" "pws"); OpQuiesce; OpMsg 2 leavemsg; OpQuiesce]
  end.

Definition subject : nat := 2.

(* a well-formed message of the given type and kind, addressed to "p" *)
Definition canon_value (t k : str) : value :=
  if String.eqb k "maketoken" then
    VTok (mkTokSpec "" None "g" (Some []) (Some 3600000%Z) None)
  else if String.eqb k "edittoken" then
    VTok (mkTokSpec "T000" None "" None (Some 1%Z) None)
  else if String.eqb k "setdata" then VMap [("k", Some "v")]
  else if String.eqb t "chat" || String.eqb t "usermessage" then VStr "hello"
  else VNone.
Definition canon_msg (t k : str) : msg :=
  mkMsg t k "s1" "" "" "p" None "" "" "g" (canon_value t k) false SdpGood "" RNone true [].

(* all (type, kind) pairs the code distinguishes, from the generated table *)
Definition msg_kinds : list (str * str) := map (fun r : guard_row => (fst (fst (fst r)), snd (fst (fst r)))) guards.

Definition case_ok (w : world) (c : client) (tk : str * str) : bool :=
  match spec_required (fst tk) (snd tk) with
  | None => true
  | Some req =>
      match handle_client_message w subject c (canon_msg (fst tk) (snd tk)) with
      | Panic => false
      | Ok r =>
          match r_auth r with
          | Passed => is_some (c_group c) && subset req (c_perms c)
          | _ => true
          end
      end
  end.

(* (the run of the scenario is passed as an argument so that no proof step
   ever asks the kernel to convert a term containing it) *)
Definition scenario_ok_of (ow : option world) : bool :=
  match ow with
  | None => false
  | Some w =>
      match get_client w subject with
      | None => false
      | Some c => forallb (case_ok w c) msg_kinds
      end
  end.

Definition table_ok : bool :=
  forallb (fun P => forallb (fun st => scenario_ok_of (run_ops empty_world (scenario_ops P st))) mstates)
          (sublists all_perms).

Lemma table_ok_true : table_ok = true.
Proof. vm_compute. reflexivity. Qed.

Lemma mstates_all : forall st, In st mstates.
Proof. intros []; cbn; tauto. Qed.

Lemma case_ok_sound : forall w c t k r req,
  case_ok w c (t, k) = true ->
  spec_required t k = Some req ->
  handle_client_message w subject c (canon_msg t k) = Ok r ->
  r_auth r = Passed ->
  c_group c <> None /\ subset req (c_perms c) = true.
Proof.
  intros w c t k r req T Hs Hh Hp. unfold case_ok in T. cbn [fst snd] in T.
  rewrite Hs, Hh, Hp in T. apply andb_prop in T. destruct T as [T1 T2].
  split; [|exact T2]. destruct (c_group c); [discriminate | discriminate].
Qed.

Lemma scenario_ok_sound : forall w c,
  scenario_ok_of (Some w) = true ->
  get_client w subject = Some c ->
  forall tk, In tk msg_kinds -> case_ok w c tk = true.
Proof.
  intros w c T Hc. cbn [scenario_ok_of] in T. rewrite Hc in T.
  rewrite forallb_forall in T. exact T.
Qed.

Lemma table_scenarios : forall P st, In P (sublists all_perms) ->
  scenario_ok_of (run_ops empty_world (scenario_ops P st)) = true.
Proof.
  intros P st HP. pose proof table_ok_true as T. unfold table_ok in T.
  rewrite forallb_forall in T. specialize (T P HP). rewrite forallb_forall in T.
  exact (T st (mstates_all st)).
Qed.

Theorem table : forall P st t k w c r req,
  In P (sublists all_perms) -> In (t, k) msg_kinds ->
  run_ops empty_world (scenario_ops P st) = Some w ->
  get_client w subject = Some c ->
  spec_required t k = Some req ->
  handle_client_message w subject c (canon_msg t k) = Ok r ->
  r_auth r = Passed ->
  c_group c <> None /\ subset req (c_perms c) = true.
Proof.
  intros P st t k w c r req HP Htk Hw Hc Hs Hh Hp.
  pose proof (table_scenarios P st HP) as T. rewrite Hw in T.
  eapply case_ok_sound; [|exact Hs|exact Hh|exact Hp].
  eapply scenario_ok_sound; [exact T | exact Hc | exact Htk].
Qed.

(* ------------------------------------------------------------------ *)
(* Tokens                                                             *)

Lemma tpeel : forall w w1 w2, tok_stable w1 w2 -> tok_stable w w1 -> tok_stable w w2.
Proof. intros. eapply ts_trans; eauto. Qed.

Ltac ts_one :=
  lazymatch goal with
  | |- tok_stable ?w ?w => apply ts_refl
  | |- tok_stable _ (enq _ _ _) => eapply tpeel; [apply ts_enq|]
  | |- tok_stable _ (send _ _ _) => eapply tpeel; [apply ts_send|]
  | |- tok_stable _ (send_error _ _ _ _) => eapply tpeel; [apply ts_send|]
  | |- tok_stable _ (terror _ _ _ _ _) => eapply tpeel; [apply ts_send|]
  | |- tok_stable _ (enq_all _ _ _) => eapply tpeel; [apply ts_enq_all|]
  | |- tok_stable _ (send_all _ _ _) => eapply tpeel; [apply ts_send_all|]
  | |- tok_stable _ (push_client_all _ _ _ _ _ _ _ _) => eapply tpeel; [apply ts_push_client_all|]
  | |- tok_stable _ (upd_group _ _ _) => eapply tpeel; [apply ts_upd_group|]
  | |- tok_stable _ (close_down_conn _ _ _) => eapply tpeel; [apply ts_close_down_conn|]
  | |- tok_stable _ (fail_up_connection _ _ _ _ _) => eapply tpeel; [apply ts_fail_up_connection|]
  | |- tok_stable _ (request_conns _ _ _ _) => eapply tpeel; [apply ts_enq_all|]
  | |- tok_stable _ (fst (del_up_conn _ _ _ _)) => eapply tpeel; [apply ts_del_up_conn|]
  | |- tok_stable _ (leave_group _ _) => eapply tpeel; [apply ts_leave_group|]
  | |- tok_stable _ (fold_left _ _ _) => eapply tpeel; [apply ts_fold; intros|]
  | |- tok_stable _ (upd _ _ _) => eapply tpeel; [apply ts_upd|]
  | |- tok_stable _ (if ?b then _ else _) => destruct b
  | |- tok_stable _ (match ?x with _ => _ end) => destruct x
  end.
Ltac ts := repeat ts_one.

Ltac handler_ts H := cbv zeta in H; repeat break_eq; inv_eqs; finish_ok H; ts.

Lemma add_client_ts : forall w h c g u pw tk w' e,
  add_client w h c g u pw tk = (w', e) -> tok_stable w w'.
Proof.
  intros w h c g u pw tk w' e H. unfold add_client in H. cbv zeta in H.
  repeat break_eq; inv_eqs; ts.
Qed.

Lemma handle_join_ts : forall w h c m r, handle_join w h c m = Ok r -> tok_stable w (r_world r).
Proof.
  intros w h c m r H. unfold handle_join in H.
  destruct (String.eqb (m_kind m) "leave"); [handler_ts H|].
  destruct (negb (String.eqb (m_kind m) "join")); [handler_ts H|].
  destruct (c_group c); [handler_ts H|].
  cbv zeta in H.
  match type of H with (if ?b then _ else _) = _ => destruct b end; [handler_ts H|].
  destruct (add_client _ _ _ _ _ _ _) as [w1 oe] eqn:Ea.
  assert (T1 : tok_stable w w1).
  { eapply ts_trans; [apply ts_upd | eapply add_client_ts; exact Ea]. }
  destruct oe as [e|].
  - destruct (join_fail_text e). finish_ok H.
    eapply tpeel; [apply ts_send|]. eapply tpeel; [apply ts_upd|]. exact T1.
  - finish_ok H. eapply tpeel; [apply ts_upd|]. exact T1.
Qed.

Lemma handle_request_ts : forall w h c m r, handle_request w h c m = Ok r -> tok_stable w (r_world r).
Proof. intros w h c m r H. unfold handle_request in H. handler_ts H. Qed.
Lemma handle_request_stream_ts : forall w h c m r, handle_request_stream w h c m = Ok r -> tok_stable w (r_world r).
Proof. intros w h c m r H. unfold handle_request_stream in H. handler_ts H. Qed.
Lemma handle_offer_ts : forall w h c m r, handle_offer w h c m = Ok r -> tok_stable w (r_world r).
Proof. intros w h c m r H. unfold handle_offer, got_offer in H. handler_ts H. Qed.
Lemma handle_answer_ts : forall w h c m r, handle_answer w h c m = Ok r -> tok_stable w (r_world r).
Proof. intros w h c m r H. unfold handle_answer in H. handler_ts H. Qed.
Lemma handle_renegotiate_ts : forall w h c m r, handle_renegotiate w h c m = Ok r -> tok_stable w (r_world r).
Proof. intros w h c m r H. unfold handle_renegotiate in H. handler_ts H. Qed.
Lemma handle_close_ts : forall w h c m r, handle_close w h c m = Ok r -> tok_stable w (r_world r).
Proof. intros w h c m r H. unfold handle_close in H. handler_ts H. Qed.
Lemma handle_abort_ts : forall w h c m r, handle_abort w h c m = Ok r -> tok_stable w (r_world r).
Proof. intros w h c m r H. unfold handle_abort in H. handler_ts H. Qed.
Lemma handle_ice_ts : forall w h c m r, handle_ice w h c m = Ok r -> tok_stable w (r_world r).
Proof. intros w h c m r H. unfold handle_ice in H. handler_ts H. Qed.
Lemma handle_chat_ts : forall w h c m r, handle_chat w h c m = Ok r -> tok_stable w (r_world r).
Proof. intros w h c m r H. unfold handle_chat in H. handler_ts H. Qed.
Lemma handle_useraction_ts : forall w h c m r, handle_useraction w h c m = Ok r -> tok_stable w (r_world r).
Proof. intros w h c m r H. unfold handle_useraction in H. handler_ts H. Qed.

(* what a token action may do to the store *)
Definition same_but_window (a b : tokenrec) : Prop :=
  t_name a = t_name b /\ t_group a = t_group b /\ t_user a = t_user b /\
  t_perms a = t_perms b /\ t_issuedby a = t_issuedby b.

Inductive tok_change (w : world) (c : client) (m : msg) (w' : world) : Prop :=
| TCNone : w_tokens w' = w_tokens w -> w_tokctr w' = w_tokctr w -> tok_change w c m w'
| TCMake : forall tk g,
    m_kind m = "maketoken" ->
    w_tokens w' = app (w_tokens w) [tk] ->
    c_group c = Some g -> t_group tk = g ->
    t_name tk = tokname (w_tokctr w) ->                       (* the server chose the name *)
    (exists e, t_expires tk = Some e) ->                       (* it expires *)
    subset (t_perms tk) (c_perms c) = true ->                  (* only what the creator holds *)
    has_perms c "groupaction" "maketoken" = true ->
    (forall u gr, t_user tk = Some u -> find_group w g = Some gr ->
                  find_user (g_desc gr) u = None) ->           (* not a configured user *)
    tok_change w c m w'
| TCEdit : forall old g,
    m_kind m = "edittoken" ->
    In old (w_tokens w) -> c_group c = Some g -> t_group old = g ->
    has_perms c "groupaction" "edittoken" = true ->
    (exists nw, same_but_window nw old /\
       find (fun t => String.eqb (t_name t) (t_name old)) (w_tokens w) = Some old /\
       w_tokens w' = replace_tok (t_name old) nw (w_tokens w)) ->
    tok_change w c m w'.

Lemma find_In : forall (A : Type) (f : A -> bool) l x, find f l = Some x -> In x l /\ f x = true.
Proof. intros A f l x H. apply find_some in H. exact H. Qed.

Lemma ts_change : forall w c m w', tok_stable w w' -> tok_change w c m w'.
Proof. intros w c m w' [H1 H2]. apply TCNone; assumption. Qed.

Lemma groupaction_tokens : forall w h c m r,
  handle_groupaction w h c m = Ok r -> tok_change w c m (r_world r).
Proof.
  intros w h c m r H. unfold handle_groupaction in H. cbv zeta in H.
  destruct (if needs_member "groupaction" (m_kind m) then c_group c else Some "") eqn:En;
    [|finish_ok H; apply TCNone; reflexivity].
  destruct (c_group c) as [g|] eqn:Eg; [|discriminate].
  destruct (String.eqb (m_kind m) "clearchat") eqn:E1.
  { repeat break_eq; inv_eqs; finish_ok H; apply ts_change; ts. }
  destruct (String.eqb (m_kind m) "lock" || String.eqb (m_kind m) "unlock") eqn:E2.
  { repeat break_eq; inv_eqs; finish_ok H; apply ts_change; ts. }
  destruct (String.eqb (m_kind m) "record") eqn:E3.
  { repeat break_eq; inv_eqs; finish_ok H; apply ts_change; ts. }
  destruct (String.eqb (m_kind m) "unrecord") eqn:E4.
  { repeat break_eq; inv_eqs; finish_ok H; apply ts_change; ts. }
  destruct (String.eqb (m_kind m) "subgroups") eqn:E5.
  { repeat break_eq; inv_eqs; finish_ok H; apply ts_change; ts. }
  destruct (String.eqb (m_kind m) "setdata") eqn:E6.
  { repeat break_eq; inv_eqs; finish_ok H; apply ts_change; ts. }
  destruct (String.eqb (m_kind m) "maketoken") eqn:E7.
  { apply eqb_true in E7.
    destruct (negb (has_perms c "groupaction" (m_kind m))) eqn:Hp;
      [finish_ok H; apply TCNone; reflexivity|].
    apply negb_false_iff in Hp. rewrite E7 in Hp.
    destruct (m_value m) as [| | |t|]; try (finish_ok H; apply TCNone; reflexivity).
    destruct (negb (is_empty (ts_token t))); [finish_ok H; apply TCNone; reflexivity|].
    destruct (negb (String.eqb (ts_group t) g)) eqn:Egr; [finish_ok H; apply TCNone; reflexivity|].
    apply negb_false_iff in Egr. apply eqb_true in Egr.
    destruct (ts_expires t) as [e|] eqn:Ee; [|finish_ok H; apply TCNone; reflexivity].
    match type of H with (if ?b then _ else _) = _ => destruct b eqn:Etaken end;
      [finish_ok H; apply TCNone; reflexivity|].
    destruct (negb (subset _ (c_perms c))) eqn:Esub; [finish_ok H; apply TCNone; reflexivity|].
    apply negb_false_iff in Esub.
    finish_ok H.
    eapply TCMake with (g := ts_group t); try reflexivity; try assumption.
    - cbn. eauto.
    - cbn. intros u gr Hu Hg. rewrite Hu in Etaken. rewrite Hg in Etaken.
      destruct (find_user (g_desc gr) u); [discriminate | reflexivity]. }
  destruct (String.eqb (m_kind m) "edittoken") eqn:E8.
  { apply eqb_true in E8.
    destruct (negb (has_perms c "groupaction" (m_kind m))) eqn:Hp;
      [finish_ok H; apply TCNone; reflexivity|].
    apply negb_false_iff in Hp. rewrite E8 in Hp.
    destruct (m_value m) as [| | |t|]; try (finish_ok H; apply TCNone; reflexivity).
    match type of H with (if ?b then _ else _) = _ => destruct b end;
      [finish_ok H; apply TCNone; reflexivity|].
    destruct (find_token w (ts_token t)) as [old|] eqn:Ef; [|finish_ok H; apply TCNone; reflexivity].
    destruct (negb (String.eqb (t_group old) g)) eqn:Egr; [finish_ok H; apply TCNone; reflexivity|].
    apply negb_false_iff in Egr. apply eqb_true in Egr.
    finish_ok H.
    unfold find_token in Ef. pose proof (find_In _ _ _ _ Ef) as [Hin Hname].
    apply eqb_true in Hname.
    eapply TCEdit with (old := old) (g := t_group old); try assumption; try reflexivity.
    exists (mkTok (t_name old) (t_group old) (t_user old) (t_perms old)
                  (match ts_expires t with Some e => Some e | None => t_expires old end)
                  (match ts_notbefore t with Some n => Some n | None => t_notbefore old end)
                  (t_issuedby old)).
    split; [repeat split|]. split; [|reflexivity].
    rewrite Hname. exact Ef. }
  destruct (String.eqb (m_kind m) "listtokens") eqn:E9.
  { repeat break_eq; inv_eqs; finish_ok H; apply ts_change; ts. }
  finish_ok H. apply TCNone; reflexivity.
Qed.

(* every message, every state: the token store changes only by a maketoken
   or edittoken of a member holding the permissions, as described *)
Theorem message_tokens : forall w h c m r,
  handle_client_message w h c m = Ok r -> tok_change w c m (r_world r).
Proof.
  intros w h c m r H. unfold handle_client_message in H.
  match type of H with (if ?b then _ else _) = _ => destruct b end;
    [finish_ok H; apply ts_change, ts_refl|].
  match type of H with (if ?b then _ else _) = _ => destruct b end;
    [finish_ok H; apply ts_change, ts_refl|].
  cbv zeta in H.
  destruct (String.eqb (m_type m) "join"); [apply ts_change; eapply handle_join_ts; eauto|].
  destruct (String.eqb (m_type m) "request"); [apply ts_change; eapply handle_request_ts; eauto|].
  destruct (String.eqb (m_type m) "requestStream"); [apply ts_change; eapply handle_request_stream_ts; eauto|].
  destruct (String.eqb (m_type m) "offer"); [apply ts_change; eapply handle_offer_ts; eauto|].
  destruct (String.eqb (m_type m) "answer"); [apply ts_change; eapply handle_answer_ts; eauto|].
  destruct (String.eqb (m_type m) "renegotiate"); [apply ts_change; eapply handle_renegotiate_ts; eauto|].
  destruct (String.eqb (m_type m) "close"); [apply ts_change; eapply handle_close_ts; eauto|].
  destruct (String.eqb (m_type m) "abort"); [apply ts_change; eapply handle_abort_ts; eauto|].
  destruct (String.eqb (m_type m) "ice"); [apply ts_change; eapply handle_ice_ts; eauto|].
  destruct (String.eqb (m_type m) "chat" || String.eqb (m_type m) "usermessage");
    [apply ts_change; eapply handle_chat_ts; eauto|].
  destruct (String.eqb (m_type m) "groupaction"); [eapply groupaction_tokens; eauto|].
  destruct (String.eqb (m_type m) "useraction"); [apply ts_change; eapply handle_useraction_ts; eauto|].
  destruct (String.eqb (m_type m) "pong"); [finish_ok H; apply ts_change, ts_refl|].
  destruct (String.eqb (m_type m) "ping"); [finish_ok H; apply ts_change, ts_send|].
  finish_ok H. apply ts_change, ts_refl.
Qed.

Definition tokens_of (g : str) (w : world) : list tokenrec :=
  filter (fun t => String.eqb (t_group t) g) (w_tokens w).

Lemma replace_tok_scope : forall g' name nw l old,
  find (fun t => String.eqb (t_name t) name) l = Some old ->
  String.eqb (t_group old) g' = false -> String.eqb (t_group nw) g' = false ->
  filter (fun t => String.eqb (t_group t) g') (replace_tok name nw l) =
  filter (fun t => String.eqb (t_group t) g') l.
Proof.
  intros g' name nw l old. induction l as [|x l IH]; intros Hf Ho Hn; cbn in *; [discriminate|].
  destruct (String.eqb (t_name x) name).
  - inversion Hf; subst. cbn. rewrite Ho, Hn. reflexivity.
  - cbn. rewrite IH by assumption. reflexivity.
Qed.

(* whatever a member sends, the tokens of every OTHER group are untouched *)
Theorem token_scope : forall w h c m r g',
  handle_client_message w h c m = Ok r -> c_group c <> Some g' ->
  tokens_of g' (r_world r) = tokens_of g' w.
Proof.
  intros w h c m r g' H Hg. apply message_tokens in H. unfold tokens_of.
  destruct H as [H1 _ | tk g Hk Ht Hc Htg _ _ _ _ _ | old g Hk Hin Hc Hog _ (nw & (Hn & Hgr & _) & Hfind & Ht)].
  - rewrite H1. reflexivity.
  - rewrite Ht, filter_app. cbn.
    assert (E : String.eqb (t_group tk) g' = false).
    { apply String.eqb_neq. intro. apply Hg. congruence. }
    rewrite E. apply app_nil_r.
  - rewrite Ht. eapply replace_tok_scope; [exact Hfind | |].
    + apply String.eqb_neq. intro. apply Hg. congruence.
    + apply String.eqb_neq. intro. apply Hg. congruence.
Qed.

(* the reply to listtokens lists exactly the tokens of the member's group *)
Lemma listtokens_reply : forall w h c m r g,
  c_group c = Some g -> m_kind m = "listtokens" ->
  handle_groupaction w h c m = Ok r -> r_auth r = Passed ->
  r_world r = send w h (mkOut "usermessage" "tokenlist" "" "" "" None true
                              (map t_name (tokens_of g w)) "" "" "" false).
Proof.
  intros w h c m r g Hg Hk H Hp. unfold handle_groupaction in H. cbv zeta in H.
  rewrite nm_groupaction, Hg, Hk in H.
  vm_compute (String.eqb "listtokens" _) in H. cbn [orb] in H.
  destruct (negb (has_perms c "groupaction" "listtokens")); finish_ok H; [discriminate|].
  reflexivity.
Qed.

(* ------------------------------------------------------------------ *)
(* Revocation                                                         *)

(* (1) whatever the loop of client h does (read a message, serve its queue,
   end), the (group, permissions) of every OTHER client stay what they were:
   a permission change is only ever applied by the target's own loop *)

Lemma handle_join_frame : forall w h c m r,
  handle_join w h c m = Ok r -> gp_frame (Some h) w (r_world r).
Proof.
  intros w h c m r H. unfold handle_join in H.
  destruct (String.eqb (m_kind m) "leave").
  { repeat break_hyp H; finish_ok H; try apply gpf_refl. apply leave_group_frame. }
  destruct (negb (String.eqb (m_kind m) "join")); [finish_ok H; apply gpf_refl|].
  destruct (c_group c) eqn:Eg; [finish_ok H; apply gpf_refl|].
  cbv zeta in H.
  match type of H with (if ?b then _ else _) = _ => destruct b end.
  { finish_ok H. gpf. }
  destruct (add_client _ _ _ _ _ _ _) as [w1 oe] eqn:Ea.
  assert (Hf1 : gp_frame (Some h) w w1).
  { eapply gpf_trans; [|eapply add_client_frame; exact Ea].
    apply gpf_upd_pres. intro; reflexivity. }
  destruct oe as [e|].
  - destruct (join_fail_text e) as [ec v]. finish_ok H.
    eapply gpf_peel; [apply gpf_send|]. eapply gpf_peel; [apply gpf_upd_self|]. exact Hf1.
  - finish_ok H. eapply gpf_peel; [apply gpf_upd_self|]. exact Hf1.
Qed.

Theorem message_frame : forall w h c m r,
  handle_client_message w h c m = Ok r -> gp_frame (Some h) w (r_world r).
Proof.
  intros w h c m r H. unfold handle_client_message in H.
  match type of H with (if ?b then _ else _) = _ => destruct b end; [finish_ok H; apply gpf_refl|].
  match type of H with (if ?b then _ else _) = _ => destruct b end; [finish_ok H; apply gpf_refl|].
  cbv zeta in H.
  destruct (String.eqb (m_type m) "join"); [eapply handle_join_frame; eauto|].
  destruct (String.eqb (m_type m) "request"); [apply gpf_weaken; eapply handle_request_stable; eauto|].
  destruct (String.eqb (m_type m) "requestStream"); [apply gpf_weaken; eapply handle_request_stream_stable; eauto|].
  destruct (String.eqb (m_type m) "offer"); [apply gpf_weaken; eapply handle_offer_stable; eauto|].
  destruct (String.eqb (m_type m) "answer"); [apply gpf_weaken; eapply handle_answer_stable; eauto|].
  destruct (String.eqb (m_type m) "renegotiate"); [apply gpf_weaken; eapply handle_renegotiate_stable; eauto|].
  destruct (String.eqb (m_type m) "close"); [apply gpf_weaken; eapply handle_close_stable; eauto|].
  destruct (String.eqb (m_type m) "abort"); [apply gpf_weaken; eapply handle_abort_stable; eauto|].
  destruct (String.eqb (m_type m) "ice"); [apply gpf_weaken; eapply handle_ice_stable; eauto|].
  destruct (String.eqb (m_type m) "chat" || String.eqb (m_type m) "usermessage");
    [apply gpf_weaken; eapply handle_chat_stable; eauto|].
  destruct (String.eqb (m_type m) "groupaction"); [apply gpf_weaken; eapply handle_groupaction_stable; eauto|].
  destruct (String.eqb (m_type m) "useraction"); [apply gpf_weaken; eapply handle_useraction_stable; eauto|].
  destruct (String.eqb (m_type m) "pong"); [finish_ok H; apply gpf_refl|].
  destruct (String.eqb (m_type m) "ping"); [finish_ok H; gpf|].
  finish_ok H. apply gpf_refl.
Qed.

Lemma action_frame : forall w h c a r,
  handle_action w h c a = Ok r -> gp_frame (Some h) w (r_world r).
Proof.
  intros w h c a r H. unfold handle_action in H. destruct a.
  - handler_stable H.
  - cbv zeta in H. repeat break_hyp H; finish_ok H; try apply gpf_refl.
    apply gpf_fold. intros. destruct (_ && _); gpf.
  - handler_stable H.
  - handler_stable H.
  - cbv zeta in H. repeat break_hyp H; finish_ok H; gpf.
  - cbv zeta in H. repeat break_hyp H; finish_ok H; try apply gpf_refl.
    eapply gpf_peel; [apply gpf_enq|]. apply gpf_upd_self.
  - destruct (c_group c); [|finish_ok H; apply gpf_refl].
    cbv zeta in H. finish_ok H. destruct (mem "present" (c_perms c)); gpf.
  - finish_ok H. apply gpf_refl.
Qed.

Lemma run_batch_frame : forall q w h r, run_batch q w h = Ok r -> gp_frame (Some h) w (r_world r).
Proof.
  induction q as [|a q IH]; intros w h r H; cbn [run_batch] in H.
  - finish_ok H. apply gpf_refl.
  - destruct (get_client w h) as [c|]; [|finish_ok H; apply gpf_refl].
    destruct (handle_action w h c a) as [res|] eqn:Ea; [|discriminate].
    pose proof (action_frame _ _ _ _ _ Ea) as F.
    destruct (r_err res); try (inversion H; subst; exact F).
    eapply gpf_trans; [exact F | eapply IH; eauto].
Qed.

Lemma finish_frame : forall o h wrap w w' r,
  (forall res, o = Ok res -> gp_frame (Some h) w (r_world res)) ->
  finish o h wrap = Running w' r -> gp_frame (Some h) w w'.
Proof.
  intros o h wrap w w' r Ho H. unfold finish in H.
  destruct o as [res|]; [|discriminate].
  specialize (Ho res eq_refl).
  destruct (r_err res); inversion H; subst; try exact Ho;
    (eapply gpf_trans; [exact Ho | apply error_close_frame]).
Qed.

(* the three things the loop of h can do *)
Theorem own_loop_only : forall w h w' r o,
  (o = OpPump h \/ o = OpDisconnect h \/ exists m, o = OpMsg h m) ->
  step w o = Running w' r -> gp_frame (Some h) w w'.
Proof.
  intros w h w' r o Ho H. destruct Ho as [-> | [-> | (m & ->)]]; cbn [step] in H.
  - unfold step_pump in H.
    destruct (get_client w h) as [c|]; [|inversion H; subst; apply gpf_refl].
    destruct (c_closed c); [inversion H; subst; apply gpf_refl|].
    cbv zeta in H.
    eapply gpf_trans with (w2 := upd w h (fun c0 => set_queue c0 []));
      [apply gpf_upd_pres; intro; reflexivity|].
    eapply finish_frame; [|exact H]. intros res Hr. eapply run_batch_frame; exact Hr.
  - unfold step_disconnect in H.
    destruct (get_client w h) as [c|]; [|inversion H; subst; apply gpf_refl].
    destruct (c_closed c); inversion H; subst; [apply gpf_refl | apply error_close_frame].
  - unfold step_msg in H.
    destruct (get_client w h) as [c|]; [|inversion H; subst; apply gpf_refl].
    destruct (c_closed c); [inversion H; subst; apply gpf_refl|].
    eapply finish_frame; [|exact H]. intros res Hr. eapply message_frame; eauto.
Qed.

(* (2) when the target serves the queued change, in the group in which it
   was issued, its permission set becomes the new one at once, and the
   notification is queued behind it *)
Theorem change_applied : forall w h c g kind r,
  get_client w h = Some c -> c_group c = Some g ->
  handle_action w h c (AChangePerms g kind) = Ok r -> r_err r = ENone ->
  exists p' c',
    change_perms (match find_group w g with Some gr => d_allowrec (g_desc gr) | None => false end)
                 kind (c_perms c) = Some p' /\
    get_client (r_world r) h = Some c' /\
    c_perms c' = p' /\ c_group c' = Some g /\ c_queue c' = app (c_queue c) [APermsChanged].
Proof.
  intros w h c g kind r Hc Hg H He. cbn [handle_action] in H.
  rewrite Hg in H. cbn [opt_str_eqb] in H. rewrite String.eqb_refl in H. cbn [negb] in H.
  cbv zeta in H. destruct (change_perms _ _ _) as [p|] eqn:Ecp.
  - finish_ok H. exists p.
    eexists. split; [reflexivity|]. split.
    + unfold enq. rewrite !get_client_upd, Nat.eqb_refl, Hc. cbn. reflexivity.
    + cbn. auto.
  - finish_ok H. cbn in He. discriminate.
Qed.

(* ... and in any other group, or in none, it is ignored (5abb458) *)
Theorem change_ignored_elsewhere : forall w h c g kind r,
  c_group c <> Some g ->
  handle_action w h c (AChangePerms g kind) = Ok r -> r_world r = w /\ r_err r = ENone.
Proof.
  intros w h c g kind r Hg H. cbn [handle_action] in H.
  destruct (opt_str_eqb (c_group c) (Some g)) eqn:E.
  - apply opt_str_eqb_true in E. destruct E as (g' & E1 & E2). inversion E2; subst. congruence.
  - cbn [negb] in H. finish_ok H. auto.
Qed.

(* (3) the notification carries the current set, and a client that has lost
   `present` has no up stream left when it is notified *)

Definition cup (w : world) (h : nat) : option (list upconn) := option_map c_up (get_client w h).

Definition up_pres (f : client -> client) : Prop := forall c, c_up (f c) = c_up c.

Lemma cup_upd_pres : forall w i f h, up_pres f -> cup (upd w i f) h = cup w h.
Proof.
  intros w i f h Hf. unfold cup. rewrite get_client_upd.
  destruct (Nat.eqb h i); [|reflexivity]. destruct (get_client w h); cbn; [|reflexivity].
  now rewrite Hf.
Qed.
Lemma cup_enq : forall w i a h, cup (enq w i a) h = cup w h.
Proof. intros. apply cup_upd_pres. intro; reflexivity. Qed.
Lemma cup_send : forall w i m h, cup (send w i m) h = cup w h.
Proof. intros. apply cup_upd_pres. intro; reflexivity. Qed.
Lemma cup_fold : forall (A : Type) (F : world -> A -> world) l w h,
  (forall w a, cup (F w a) h = cup w h) -> cup (fold_left F l w) h = cup w h.
Proof.
  intros A F l. induction l as [|a l IH]; intros w h H; cbn [fold_left]; [reflexivity|].
  rewrite IH by exact H. apply H.
Qed.
Lemma cup_enq_all : forall w hs a h, cup (enq_all w hs a) h = cup w h.
Proof. intros. apply cup_fold. intros. apply cup_enq. Qed.
Lemma cup_fail_up : forall w i c id m h, cup (fail_up_connection w i c id m) h = cup w h.
Proof.
  intros. unfold fail_up_connection, send_error.
  destruct (is_empty id), (is_empty m); rewrite ?cup_send; reflexivity.
Qed.

Lemma del_up_list_none : forall l id,
  find (fun u => String.eqb (up_id u) id) l = None -> del_up_list l id = l.
Proof.
  induction l as [|u l IH]; intros id H; cbn in *; [reflexivity|].
  destruct (String.eqb (up_id u) id); [discriminate|]. cbn [negb].
  f_equal. apply IH. exact H.
Qed.

Lemma cup_del_up_conn : forall w h id push,
  cup (fst (del_up_conn w h id push)) h = option_map (fun l => del_up_list l id) (cup w h).
Proof.
  intros. unfold del_up_conn.
  destruct (get_client w h) as [c|] eqn:Ec.
  2:{ cbn [fst]. unfold cup. rewrite Ec. reflexivity. }
  unfold find_up. destruct (find _ (c_up c)) eqn:Ef.
  - cbn [fst].
    assert (E : cup (upd w h (fun c0 => set_up c0 (del_up_list (c_up c0) id))) h
                = option_map (fun l => del_up_list l id) (cup w h)).
    { unfold cup. rewrite get_client_upd, Nat.eqb_refl, Ec. reflexivity. }
    destruct (c_group c); [destruct push|]; try exact E.
    rewrite cup_enq_all. exact E.
  - cbn [fst]. unfold cup. rewrite Ec. cbn [option_map]. now rewrite del_up_list_none.
Qed.

Lemma cup_drop_all_ups : forall l w h c,
  cup (drop_all_ups l w h c) h =
  option_map (fun u => fold_left (fun u x => del_up_list u (up_id x)) l u) (cup w h).
Proof.
  induction l as [|x l IH]; intros w h c; cbn [drop_all_ups fold_left].
  - destruct (cup w h); reflexivity.
  - destruct (del_up_conn w h (up_id x) true) as [w1 found] eqn:E.
    assert (E1 : cup w1 h = option_map (fun l => del_up_list l (up_id x)) (cup w h)).
    { replace w1 with (fst (del_up_conn w h (up_id x) true)) by now rewrite E.
      apply cup_del_up_conn. }
    destruct found; rewrite IH; rewrite ?cup_fail_up, E1; destruct (cup w h); reflexivity.
Qed.

Lemma drop_all_self : forall l u,
  (forall x, In x u -> In x l) ->
  fold_left (fun u x => del_up_list u (up_id x)) l u = [].
Proof.
  induction l as [|a l IH]; intros u H; cbn [fold_left].
  - destruct u as [|x u]; [reflexivity|]. destruct (H x (or_introl eq_refl)).
  - apply IH. intros x Hx. unfold del_up_list in Hx. apply filter_In in Hx.
    destruct Hx as [Hx Hne]. destruct (H x Hx) as [->|Hl]; [|exact Hl].
    rewrite String.eqb_refl in Hne. discriminate.
Qed.

Theorem notified : forall w h c g r,
  get_client w h = Some c -> c_group c = Some g ->
  handle_action w h c APermsChanged = Ok r ->
  let w1 := send w h (out_joined "change" g (c_username c) (c_perms c) "" "" (locked_flag w g)) in
  let w2 := if mem "present" (c_perms c) then w1 else drop_all_ups (c_up c) w1 h c in
  (* the client is sent joined/change with exactly its current set, ... *)
  r_world r = push_client_all w2 g (members w2 g) "change" (c_id c) (c_username c) (c_perms c) (c_data c) /\
  r_err r = ENone /\
  exists c', get_client (r_world r) h = Some c' /\
    c_perms c' = c_perms c /\
    (* ... and if `present` is not in it, no up stream is left *)
    (mem "present" (c_perms c) = false -> c_up c' = []).
Proof.
  intros w h c g r Hc Hg H w1 w2. cbn [handle_action] in H. rewrite Hg in H. cbv zeta in H.
  finish_ok H. fold w1. fold w2.
  split; [reflexivity|]. split; [reflexivity|].
  set (w3 := push_client_all w2 g (members w2 g) "change" (c_id c) (c_username c) (c_perms c) (c_data c)).
  assert (F : gp_frame None w w3).
  { subst w3 w2 w1. destruct (mem "present" (c_perms c)); gpf. }
  specialize (F h). unfold gpof in F. rewrite Hc in F. cbn [option_map] in F.
  destruct (get_client w3 h) as [c'|] eqn:Ec'.
  2:{ exfalso. assert (None = Some (gp c)) by (apply F; discriminate). discriminate. }
  exists c'. split; [reflexivity|].
  assert (Hgp : Some (gp c') = Some (gp c)) by (apply F; discriminate).
  split.
  - unfold gp in Hgp. congruence.
  - intro Hpres.
    assert (Hcup : cup w3 h = Some []).
    { subst w3. unfold push_client_all. rewrite cup_enq_all. subst w2. rewrite Hpres.
      rewrite cup_drop_all_ups. subst w1. rewrite cup_send. unfold cup. rewrite Hc.
      cbn [option_map]. rewrite drop_all_self; [reflexivity | auto]. }
    unfold cup in Hcup. rewrite Ec' in Hcup. cbn [option_map] in Hcup. congruence.
Qed.

(* ------------------------------------------------------------------ *)
(* The revocation is EFFECTIVE (b21f80e): [remove] deletes every
   occurrence, so after unpresent / shutup / unop the permission is not in
   the list, whatever the list was (duplicates included) *)

Lemma mem_remove_same : forall v l, mem v (remove v l) = false.
Proof.
  intros v l. induction l as [|w l IH]; cbn [remove]; [reflexivity|].
  destruct (String.eqb v w) eqn:E; [exact IH|].
  unfold mem in *. cbn [existsb]. rewrite E, IH. reflexivity.
Qed.

Lemma mem_remove_other : forall v u l, mem v l = false -> mem v (remove u l) = false.
Proof.
  intros v u l. induction l as [|w l IH]; cbn [remove]; intro H; [reflexivity|].
  unfold mem in H. cbn [existsb] in H. apply orb_false_iff in H. destruct H as [H1 H2].
  destruct (String.eqb u w); [apply IH; exact H2|].
  unfold mem in *. cbn [existsb]. rewrite H1. cbn [orb]. apply IH. exact H2.
Qed.

Lemma change_perms_revokes : forall allowrec p p',
  (change_perms allowrec "unpresent" p = Some p' -> mem "present" p' = false) /\
  (change_perms allowrec "shutup" p = Some p' -> mem "message" p' = false) /\
  (change_perms allowrec "unop" p = Some p' -> mem "op" p' = false /\ mem "record" p' = false).
Proof.
  intros allowrec p p'.
  split; [|split]; intro H; vm_compute in H; inversion H; subst; clear H.
  - apply mem_remove_same.
  - apply mem_remove_same.
  - split; [apply mem_remove_other|]; apply mem_remove_same.
Qed.

(* once the target's loop has served the queued revocation in the group in
   which it was issued, the revoked permission is not held *)
Theorem revocation_effective : forall w h c g kind r,
  get_client w h = Some c -> c_group c = Some g ->
  handle_action w h c (AChangePerms g kind) = Ok r -> r_err r = ENone ->
  exists c', get_client (r_world r) h = Some c' /\
    (kind = "unpresent" -> mem "present" (c_perms c') = false) /\
    (kind = "shutup" -> mem "message" (c_perms c') = false) /\
    (kind = "unop" -> mem "op" (c_perms c') = false /\ mem "record" (c_perms c') = false).
Proof.
  intros w h c g kind r Hc Hg H He.
  destruct (change_applied _ _ _ _ _ _ Hc Hg H He) as (p' & c' & Hcp & Hc' & Hp & _).
  exists c'. split; [exact Hc'|]. rewrite Hp.
  destruct (change_perms_revokes
              (match find_group w g with Some gr => d_allowrec (g_desc gr) | None => false end)
              (c_perms c) p') as (H1 & H2 & H3).
  split; [|split]; intro Hk; subst kind; auto.
Qed.

(* C03, end to end over histories of the composed forwarding model
   (Model/Forward.v): a NACK for the outgoing number of a packet that was
   forwarded recently is answered with the same packet, identical up to the
   marker bit, or with nothing; a packet that was withheld is never sent in
   answer to a NACK.

   Ingredients: the refinement of the packet map to the specification on
   unwrapped numbers (Proofs/PacketMapSpec.v), carried along Forward
   histories as a ghost specification state; the stability of the picture-id
   delta (Proofs/PacketMapPid.v); soundness of the cache (Proofs/CacheSound.v);
   the marker argument of RewritePacket touches one bit (Proofs/RewriteMarker.v). *)
From Coq Require Import ZArith List Bool Lia.
From Coq Require Import ZifyBool.
From Galene Require Import Lib.Word Generated.Consts.
From Galene Require Import Model.PacketMap Model.PacketMapL1 Model.Layers Model.Rewrite Model.Cache Model.Forward.
From Galene Require Import Proofs.PacketMapGhost Proofs.PacketMapInv Proofs.PacketMapView.
From Galene Require Import Proofs.PacketMapSpec Proofs.PacketMapOut Proofs.PacketMapPid.
From Galene Require Import Proofs.RewriteSafe Proofs.RewriteMarker Proofs.CacheSound.
From Galene Require Import Proofs.ForwardProps Proofs.ReverseStable.
Import ListNotations.
Open Scope Z_scope.
Ltac Zify.zify_post_hook ::= Z.div_mod_to_equations.

(* the sequence number carried in bytes 2-3 of an RTP packet *)
Definition hdr_seq (d : list Z) : Z := nth 2 d 0 * 256 + nth 3 d 0.

(* ---- rtpDownTrack.Write, taken apart ---- *)
Definition set_marker (f : flags) (l3 : layer) : bool :=
  (f_sid f =? sid l3) && f_end f && negb (f_marker f).

(* what is sent once Map has answered (v, pd) *)
Definition emit (vp8 : bool) (buf : list Z) (sm : bool) (s v pd : Z) : wres :=
  if negb sm && (v =? s) && (pd =? 0) then WSent buf
  else match rewrite vp8 buf sm v (w16 (- pd)) with
       | ROk d => WSent d | RErr => WErr | RPanic => WPanic
       end.

Definition drop_part (st : fstate) (f : flags) : bool * pmap :=
  if snd (fst (write_decision st f))
  then pm_drop (fs_map st) (f_seqno f) (f_pid f) else (false, fs_map st).

Lemma write_eq vp8 st f buf :
  let l3 := fst (fst (write_decision st f)) in
  let dm := drop_part st f in
  let mr := pm_map (snd dm) (f_seqno f) (f_pid f) in
  let st' := fst (fst (write vp8 st f buf)) in
  let r := snd (fst (write vp8 st f buf)) in
  fs_cache st' = fs_cache st /\ fs_flags st' = fs_flags st /\
  (if fst dm then fs_map st' = snd dm /\ r = WNone
   else fs_map st' = snd mr /\
        r = if fst (fst (fst mr))
            then emit vp8 buf (set_marker f l3) (f_seqno f) (snd (fst (fst mr))) (snd (fst mr))
            else WNone).
Proof.
  cbv zeta. unfold drop_part, emit, set_marker, write, write_decision.
  destruct (write_layer (unpack (fs_layer st)) f (fs_rate8 st) (fs_max st)) as [[l3 drop] kf].
  cbn [fst snd].
  destruct (if drop then pm_drop (fs_map st) (f_seqno f) (f_pid f) else (false, fs_map st))
    as [dropped m1].
  cbn [fst snd]. destruct dropped; [cbn [fst snd fs_cache fs_flags fs_map]; auto|].
  destruct (pm_map m1 (f_seqno f) (f_pid f)) as [[[ok newseq] pd] m2]. cbn [fst snd].
  destruct ok; cbn [negb]; [|cbn [fst snd fs_cache fs_flags fs_map]; auto].
  destruct (negb ((f_sid f =? sid l3) && f_end f && negb (f_marker f)) && (newseq =? f_seqno f) && (pd =? 0));
    [cbn [fst snd fs_cache fs_flags fs_map]; auto|].
  destruct (rewrite vp8 buf ((f_sid f =? sid l3) && f_end f && negb (f_marker f)) newseq (w16 (- pd)));
    cbn [fst snd fs_cache fs_flags fs_map]; auto.
Qed.

Lemma emit_no_panic vp8 buf sm s v pd : bytes_ok buf -> emit vp8 buf sm s v pd <> WPanic.
Proof.
  intros Hb. unfold emit. destruct (negb sm && (v =? s) && (pd =? 0)); [discriminate|].
  pose proof (rewrite_safe vp8 buf sm v (w16 (- pd)) Hb) as H.
  destruct (rewrite vp8 buf sm v (w16 (- pd))); try discriminate. congruence.
Qed.

Lemma rewrite_ok_len vp8 data sm v delta d : rewrite vp8 data sm v delta = ROk d -> 12 <= blen data.
Proof. unfold rewrite. destruct (blen data <? 12) eqn:E; [discriminate|]. intros _. lia. Qed.

(* the same source bytes, the same answer of Map: the same packet up to the
   marker bit; the same packet outright when the marker decision is the same *)
Lemma emit_agree vp8 buf sm sm' s v pd d d' : bytes_ok buf -> hdr_seq buf = s ->
  emit vp8 buf sm s v pd = WSent d -> emit vp8 buf sm' s v pd = WSent d' ->
  agree_but_marker d d' /\ (sm = sm' -> d' = d).
Proof.
  intros Hb Hs E1 E2. split; [|intros <-; rewrite E1 in E2; inversion E2; reflexivity].
  unfold emit in E1, E2.
  destruct (negb sm && (v =? s) && (pd =? 0)) eqn:C1; destruct (negb sm' && (v =? s) && (pd =? 0)) eqn:C2.
  - inversion E1; inversion E2; subst. apply agree_but_marker_refl.
  - inversion E1; subst d. clear E1.
    destruct (rewrite vp8 buf sm' v (w16 (- pd))) as [x| |] eqn:R2; try discriminate.
    inversion E2; subst x. clear E2.
    assert (v = s /\ pd = 0) as (-> & ->) by lia.
    change (w16 (- 0)) with 0 in R2.
    pose proof (rewrite_ok_len _ _ _ _ _ _ R2) as Hl.
    pose proof (rewrite_identity vp8 buf s Hb Hl Hs) as R1.
    exact (rewrite_marker_indep vp8 buf false sm' s 0 buf d' Hb R1 R2).
  - inversion E2; subst d'. clear E2.
    destruct (rewrite vp8 buf sm v (w16 (- pd))) as [x| |] eqn:R1; try discriminate.
    inversion E1; subst x. clear E1.
    assert (v = s /\ pd = 0) as (-> & ->) by lia.
    change (w16 (- 0)) with 0 in R1.
    pose proof (rewrite_ok_len _ _ _ _ _ _ R1) as Hl.
    pose proof (rewrite_identity vp8 buf s Hb Hl Hs) as R2.
    exact (rewrite_marker_indep vp8 buf sm false s 0 d buf Hb R1 R2).
  - destruct (rewrite vp8 buf sm v (w16 (- pd))) as [x| |] eqn:R1; try discriminate.
    destruct (rewrite vp8 buf sm' v (w16 (- pd))) as [y| |] eqn:R2; try discriminate.
    inversion E1; inversion E2; subst.
    exact (rewrite_marker_indep vp8 buf sm sm' v (w16 (- pd)) d d' Hb R1 R2).
Qed.

(* the number carried by what is sent *)
Lemma emit_number vp8 buf sm s v pd d : bytes_ok buf -> hdr_seq buf = s -> 0 <= v < 65536 ->
  emit vp8 buf sm s v pd = WSent d -> hdr_seq d = v.
Proof.
  intros Hb Hs Hv. unfold emit.
  destruct (negb sm && (v =? s) && (pd =? 0)) eqn:C.
  - intros H; inversion H; subst. lia.
  - destruct (rewrite vp8 buf sm v (w16 (- pd))) as [x| |] eqn:R; try discriminate.
    intros H; inversion H; subst x.
    destruct (rewrite_values vp8 buf sm v (w16 (- pd)) d Hb R) as (_ & H2 & H3).
    unfold hdr_seq. rewrite H2, H3. lia.
Qed.

(* ---- histories ---- *)
Fixpoint frun (vp8 : bool) (st : fstate) (ops : list Forward.op) : fstate :=
  match ops with
  | [] => st
  | o :: t => frun vp8 (fst (Forward.step vp8 st o)) t
  end.

Lemma frun_app vp8 ops1 : forall st ops2,
  frun vp8 st (ops1 ++ ops2) = frun vp8 (frun vp8 st ops1) ops2.
Proof. induction ops1 as [|o t IH]; intros st ops2; cbn [frun app]; [reflexivity|apply IH]. Qed.

(* caller contract: 16-bit numbers; the flags stored with a packet are the
   flags of that packet; Cache.Store is given between 1 and BufSize bytes *)
Definition wf_fop (o : Forward.op) : Prop :=
  match o with
  | OCStore s ts kf m f buf => 0 <= s < 65536 /\ f_seqno f = s /\ 1 <= Cache.zlen buf <= BufSize
  | OCResize k => 1 <= k
  | OWrite f buf => 0 <= f_seqno f < 65536
  | ONack os => Forall (fun o => 0 <= o < 65536) os
  | _ => True
  end.

Definition flags_wf (l : list (Z * flags)) : Prop :=
  Forall (fun sf => 0 <= fst sf < 65536 /\ f_seqno (snd sf) = fst sf) l.

Lemma find_flags_In s l f : find_flags s l = Some f -> In (s, f) l.
Proof.
  induction l as [|[s' f'] l IH]; cbn [find_flags]; [discriminate|].
  destruct (s' =? s) eqn:E.
  - intros H; inversion H; subst. left. f_equal. lia.
  - intros H. right. apply IH. exact H.
Qed.

Lemma find_flags_some s l f : In (s, f) l -> find_flags s l <> None.
Proof.
  induction l as [|[s' f'] l IH]; cbn [find_flags In]; [intros []|].
  intros [H|H].
  - inversion H; subst. rewrite Z.eqb_refl. discriminate.
  - destruct (s' =? s); [discriminate|apply IH; exact H].
Qed.

(* ---- the packet map of the Forward state against the specification ---- *)
Definition FInv (st : fstate) (g : sst) : Prop :=
  WfRing (fs_map st) /\ rel (abs (fs_map st)) g.

Lemma rel_next16 a g : rel a g -> is16 (l_next a).
Proof.
  destruct g as [|Next D]; cbn [rel].
  - intros ->. cbn. unfold is16. lia.
  - intros (gs & HI). unfold PacketMapInv.Inv in HI. destruct HI as (_ & Hn & _).
    rewrite Hn. apply w16_range.
Qed.

(* Drop and Map on the L0 map, related to the specification *)
Lemma drop_rel m g s p : WfRing m -> rel (abs m) g -> 0 <= s < 65536 ->
  WfRing (snd (pm_drop m s p)) /\
  rel (abs (snd (pm_drop m s p))) (fst (spec_step g (ODrop s p))) /\
  snd (spec_step g (ODrop s p)) (PacketMap.RBool (fst (pm_drop m s p))).
Proof.
  intros Hw Hr Hs.
  destruct (step_view m (ODrop s p) Hw) as (H1 & H2 & H3).
  destruct (step_refines (abs m) g (ODrop s p) Hr Hs) as (H4 & H5).
  cbn [PacketMap.step] in H1, H2, H3. rewrite <- H2 in H5. rewrite <- H1 in H4.
  destruct (pm_drop m s p) as [ok m']. cbn [fst snd] in *. auto.
Qed.

Lemma map_rel m g s p : WfRing m -> rel (abs m) g -> 0 <= s < 65536 ->
  WfRing (snd (pm_map m s p)) /\
  rel (abs (snd (pm_map m s p))) (fst (spec_step g (OMap s p))) /\
  snd (spec_step g (OMap s p))
      (RTriple (fst (fst (fst (pm_map m s p)))) (snd (fst (fst (pm_map m s p)))) (snd (fst (pm_map m s p)))).
Proof.
  intros Hw Hr Hs.
  destruct (step_view m (OMap s p) Hw) as (H1 & H2 & H3).
  destruct (step_refines (abs m) g (OMap s p) Hr Hs) as (H4 & H5).
  cbn [PacketMap.step] in H1, H2, H3. rewrite <- H2 in H5. rewrite <- H1 in H4.
  destruct (pm_map m s p) as [[[ok s'] p'] m']. cbn [fst snd] in *. auto.
Qed.

(* a failed Drop leaves the map alone *)
Lemma drop_false m s p : fst (pm_drop m s p) = false -> snd (pm_drop m s p) = m.
Proof.
  unfold pm_drop. destruct (negb (m_started m) || negb (s =? m_next m)); cbn [fst snd]; [reflexivity|discriminate].
Qed.

(* a recent source number is not the next expected one: Drop fails on it *)
Lemma recent_drop_false m s p : pm_recent m s = true -> pm_drop m s p = (false, m).
Proof.
  unfold pm_recent, pm_drop. intros H.
  apply andb_prop in H. destruct H as (H & _). apply andb_prop in H. destruct H as (_ & Hc).
  assert (Hne : (s =? m_next m) = false).
  { destruct (s =? m_next m) eqn:E; [|reflexivity]. assert (s = m_next m) by lia. subst s.
    unfold cmp16 in Hc. rewrite Z.eqb_refl in Hc. discriminate. }
  rewrite Hne. cbn [negb]. rewrite orb_true_r. reflexivity.
Qed.

(* the whole Write of a late copy of a recent packet leaves the map alone *)
Lemma write_recent_map vp8 st f buf : is16 (m_next (fs_map st)) -> is16 (f_seqno f) ->
  pm_recent (fs_map st) (f_seqno f) = true ->
  fs_map (fst (fst (write vp8 st f buf))) = fs_map st /\
  drop_part st f = (false, fs_map st).
Proof.
  intros Hn Hs Hr.
  assert (Hd : drop_part st f = (false, fs_map st)).
  { unfold drop_part. destruct (snd (fst (write_decision st f))); [|reflexivity].
    apply recent_drop_false. exact Hr. }
  split; [|exact Hd].
  destruct (write_eq vp8 st f buf) as (_ & _ & H). cbv zeta in H. rewrite Hd in H. cbn [fst snd] in H.
  destruct H as (H & _). rewrite H. apply recent_map_stable; assumption.
Qed.

Lemma nack1_keeps vp8 st o st' rs stop : is16 (m_next (fs_map st)) -> flags_wf (fs_flags st) ->
  nack1 vp8 st o = (st', rs, stop) ->
  fs_map st' = fs_map st /\ fs_cache st' = fs_cache st /\ fs_flags st' = fs_flags st.
Proof.
  intros Hn Hf. unfold nack1.
  destruct (pm_reverse (fs_map st) o) as [[ok s] p] eqn:Er.
  destruct ok; cbn [negb]; [|intros H; inversion H; subst; auto].
  destruct (get (fs_cache st) s) as [n bytes].
  destruct (n =? 0); [intros H; inversion H; subst; auto|].
  destruct (find_flags s (fs_flags st)) as [f|] eqn:Ef; [|intros H; inversion H; subst; auto].
  apply find_flags_In in Ef. unfold flags_wf in Hf. rewrite Forall_forall in Hf.
  destruct (Hf _ Ef) as (Hs16 & Hfs). cbn [fst snd] in Hs16, Hfs.
  pose proof (reverse_recent _ _ _ _ Er) as Hrec. rewrite <- Hfs in Hrec.
  destruct (write_recent_map vp8 st f bytes Hn ltac:(unfold is16; lia) Hrec) as (Hm & _).
  destruct (write_eq vp8 st f bytes) as (Hc & Hfl & _). cbv zeta in Hc, Hfl.
  destruct (write vp8 st f bytes) as [[st2 r] k]. cbn [fst snd] in *.
  intros H; inversion H; subst. auto.
Qed.

Lemma nacks_keeps vp8 os : forall st st' rs, is16 (m_next (fs_map st)) -> flags_wf (fs_flags st) ->
  nacks vp8 st os = (st', rs) ->
  fs_map st' = fs_map st /\ fs_cache st' = fs_cache st /\ fs_flags st' = fs_flags st.
Proof.
  induction os as [|o os IH]; intros st st' rs Hn Hf; cbn [nacks].
  - intros H; inversion H; subst; auto.
  - destruct (nack1 vp8 st o) as [[st1 rs1] stop] eqn:E1.
    destruct (nack1_keeps vp8 st o st1 rs1 stop Hn Hf E1) as (K1 & K2 & K3).
    destruct stop; [intros H; inversion H; subst; auto|].
    destruct (nacks vp8 st1 os) as [st2 rs2] eqn:E2.
    destruct (IH st1 st2 rs2 ltac:(rewrite K1; exact Hn) ltac:(rewrite K3; exact Hf) E2) as (L1 & L2 & L3).
    intros H; inversion H; subst. rewrite L1, L2, L3. auto.
Qed.

(* ---- the ghost specification state along a Forward history ---- *)
Definition gwrite (st : fstate) (g : sst) (f : flags) : sst :=
  let g1 := if snd (fst (write_decision st f))
            then fst (spec_step g (ODrop (f_seqno f) (f_pid f))) else g in
  if fst (drop_part st f) then g1 else fst (spec_step g1 (OMap (f_seqno f) (f_pid f))).

Definition gstep (st : fstate) (g : sst) (o : Forward.op) : sst :=
  match o with OWrite f _ => gwrite st g f | _ => g end.

Fixpoint grun (vp8 : bool) (st : fstate) (g : sst) (ops : list Forward.op) : sst :=
  match ops with
  | [] => g
  | o :: t => grun vp8 (fst (Forward.step vp8 st o)) (gstep st g o) t
  end.

Lemma grun_app vp8 ops1 : forall st g ops2,
  grun vp8 st g (ops1 ++ ops2) = grun vp8 (frun vp8 st ops1) (grun vp8 st g ops1) ops2.
Proof. induction ops1 as [|o t IH]; intros st g ops2; cbn [grun frun app]; [reflexivity|apply IH]. Qed.

(* the state after the Drop attempt of a Write *)
Lemma drop_part_rel st g f : FInv st g -> 0 <= f_seqno f < 65536 ->
  let g1 := if snd (fst (write_decision st f))
            then fst (spec_step g (ODrop (f_seqno f) (f_pid f))) else g in
  WfRing (snd (drop_part st f)) /\ rel (abs (snd (drop_part st f))) g1 /\
  (fst (drop_part st f) = false -> snd (drop_part st f) = fs_map st /\ g1 = g).
Proof.
  intros (Hw & Hr) Hs. cbv zeta. unfold drop_part.
  destruct (snd (fst (write_decision st f))); cbn [fst snd]; [|auto].
  destruct (drop_rel (fs_map st) g (f_seqno f) (f_pid f) Hw Hr Hs) as (H1 & H2 & H3).
  split; [exact H1|]. split; [exact H2|].
  intros Hf. split; [apply drop_false; exact Hf|].
  rewrite Hf in H3. destruct g as [|Next D]; cbn [spec_step fst snd] in *; [reflexivity|].
  destruct (unwrap Next (f_seqno f) =? Next); cbn [fst snd] in *; [discriminate|reflexivity].
Qed.

Lemma write_FInv vp8 st g f buf : FInv st g -> 0 <= f_seqno f < 65536 ->
  FInv (fst (fst (write vp8 st f buf))) (gwrite st g f).
Proof.
  intros HF Hs. destruct (drop_part_rel st g f HF Hs) as (H1 & H2 & _).
  destruct (write_eq vp8 st f buf) as (_ & _ & H). cbv zeta in H.
  unfold gwrite, FInv. destruct (fst (drop_part st f)).
  - destruct H as (-> & _). auto.
  - destruct H as (-> & _).
    destruct (map_rel _ _ (f_seqno f) (f_pid f) H1 H2 Hs) as (M1 & M2 & _). auto.
Qed.

Lemma step_FInv vp8 st g o : FInv st g -> flags_wf (fs_flags st) -> wf_fop o ->
  FInv (fst (Forward.step vp8 st o)) (gstep st g o) /\
  flags_wf (fs_flags (fst (Forward.step vp8 st o))).
Proof.
  intros HF Hfl Hwf. destruct o as [rate lm remb|s ts kf m f buf|k|f buf|os| |b|r0 l ac];
    cbn [Forward.step gstep wf_fop] in *.
  - split; [exact HF|exact Hfl].
  - destruct (store (fs_cache st) s ts kf m buf) as [x c']. cbn [fst fs_flags]. split; [exact HF|].
    constructor; [cbn [fst snd]; tauto|exact Hfl].
  - split; [exact HF|exact Hfl].
  - pose proof (write_FInv vp8 st g f buf HF Hwf) as H.
    destruct (write_eq vp8 st f buf) as (_ & Hf2 & _). cbv zeta in Hf2.
    destruct (write vp8 st f buf) as [[st' r] kf]. cbn [fst snd] in *.
    split; [exact H|rewrite Hf2; exact Hfl].
  - destruct (nacks vp8 st os) as [st' rs] eqn:E. cbn [fst].
    destruct HF as (Hw & Hr).
    assert (Hn : is16 (m_next (fs_map st))) by (exact (rel_next16 _ _ Hr)).
    destruct (nacks_keeps vp8 os st st' rs Hn Hfl E) as (K1 & _ & K3).
    unfold FInv. rewrite K1, K3. auto.
  - split; [exact HF|exact Hfl].
  - split; [exact HF|exact Hfl].
  - split; [exact HF|exact Hfl].
Qed.

Lemma run_FInv vp8 ops : forall st g, FInv st g -> flags_wf (fs_flags st) -> Forall wf_fop ops ->
  FInv (frun vp8 st ops) (grun vp8 st g ops) /\ flags_wf (fs_flags (frun vp8 st ops)).
Proof.
  induction ops as [|o t IH]; intros st g HF Hfl Hwf; cbn [frun grun]; [auto|].
  inversion Hwf as [|? ? Ho Ht]; subst.
  destruct (step_FInv vp8 st g o HF Hfl Ho) as (H1 & H2).
  apply IH; assumption.
Qed.

Lemma FInv_init cap : FInv (f_init cap) SInit.
Proof. split; [apply WfRing_init|reflexivity]. Qed.

(* ---- the next expected source number, as a function of the source numbers
   of the Writes alone (the ghost state's Next) ---- *)
Definition sst_next (g : sst) : option Z :=
  match g with SInit => None | SRun N _ => Some N end.

Definition nxt (n : option Z) (s : Z) : option Z :=
  match n with
  | None => Some (s + 1)
  | Some N =>
      let r := unwrap N s in
      if insync N s then (if N <=? r then Some (r + 1) else Some N) else Some (r + 1)
  end.

(* the unwrapped source number of an arrival *)
Definition src (n : option Z) (s : Z) : Z :=
  match n with None => s | Some N => unwrap N s end.

Fixpoint track (n : option Z) (ops : list Forward.op) : option Z :=
  match ops with
  | [] => n
  | OWrite f _ :: t => track (nxt n (f_seqno f)) t
  | _ :: t => track n t
  end.

(* no Write is more than 8192 away from the number expected next: the map
   does not re-synchronise *)
Fixpoint insync_all (n : option Z) (ops : list Forward.op) : Prop :=
  match ops with
  | [] => True
  | OWrite f _ :: t =>
      match n with None => True | Some N => insync N (f_seqno f) = true end /\
      insync_all (nxt n (f_seqno f)) t
  | _ :: t => insync_all n t
  end.

Lemma gwrite_next st g f : FInv st g -> 0 <= f_seqno f < 65536 ->
  sst_next (gwrite st g f) = nxt (sst_next g) (f_seqno f).
Proof.
  intros HF Hs. assert (HF' := HF). destruct HF' as (Hw & Hr).
  unfold gwrite, drop_part.
  assert (Hmap : forall N D, sst_next (fst (spec_step (SRun N D) (OMap (f_seqno f) (f_pid f))))
                             = nxt (Some N) (f_seqno f)).
  { intros N D. cbn [spec_step nxt]. unfold insync.
    destruct ((window <? unwrap N (f_seqno f) - N) || (window <? N - unwrap N (f_seqno f))); cbn [negb fst sst_next];
      [reflexivity|].
    destruct (N <=? unwrap N (f_seqno f)); reflexivity. }
  destruct (snd (fst (write_decision st f))).
  - destruct (drop_rel (fs_map st) g (f_seqno f) (f_pid f) Hw Hr Hs) as (_ & _ & H3).
    destruct g as [|N D]; cbn [spec_step fst snd] in *.
    + inversion H3 as [E]. rewrite E. reflexivity.
    + destruct (unwrap N (f_seqno f) =? N) eqn:E; cbn [fst snd] in *.
      * inversion H3 as [E2]. rewrite E2. cbn [sst_next nxt]. unfold insync.
        assert (unwrap N (f_seqno f) = N) as -> by lia.
        rewrite window_val.
        replace ((8192 <? N - N) || (8192 <? N - N)) with false by lia. cbn [negb].
        replace (N <=? N) with true by lia. reflexivity.
      * inversion H3 as [E2]. rewrite E2. apply Hmap.
  - cbn [fst]. destruct g as [|N D]; [reflexivity|apply Hmap].
Qed.

Lemma gstep_next st g o : FInv st g -> wf_fop o ->
  sst_next (gstep st g o) = match o with OWrite f _ => nxt (sst_next g) (f_seqno f) | _ => sst_next g end.
Proof.
  intros HF Hwf. destruct o; cbn [gstep]; try reflexivity.
  apply gwrite_next; [exact HF|exact Hwf].
Qed.

Lemma run_next vp8 ops : forall st g, FInv st g -> flags_wf (fs_flags st) -> Forall wf_fop ops ->
  sst_next (grun vp8 st g ops) = track (sst_next g) ops.
Proof.
  induction ops as [|o t IH]; intros st g HF Hfl Hwf; cbn [grun track]; [reflexivity|].
  inversion Hwf as [|? ? Ho Ht]; subst.
  destruct (step_FInv vp8 st g o HF Hfl Ho) as (H1 & H2).
  rewrite (IH _ _ H1 H2 Ht). rewrite (gstep_next st g o HF Ho).
  destruct o; reflexivity.
Qed.

(* ---- a forwarded packet, tracked through the history ---- *)
(* R: its unwrapped source number; v: its outgoing number; q: its pidDelta *)
Definition Tracked (m : pmap) (g : sst) (R v q : Z) : Prop :=
  match g with
  | SInit => False
  | SRun Next D =>
      R < Next /\ ~ In R D /\ w16 (out D R) = v /\
      exists gs, PacketMapInv.Inv (abs m) (mkGh Next D gs) /\ Kp gs R q
  end.

Lemma out_nil R : out [] R = R.
Proof. unfold out, before. cbn. lia. Qed.

(* the Map call that forwards a packet starts its tracking *)
Lemma map_tracks m g s p v q m2 : WfRing m -> rel (abs m) g -> 0 <= s < 65536 ->
  pm_map m s p = ((true, v, q), m2) ->
  w16 (src (sst_next g) s) = s /\
  Tracked m2 (fst (spec_step g (OMap s p))) (src (sst_next g) s) v q.
Proof.
  intros Hw Hr Hs Hm.
  destruct (map_view m s p Hw) as (V1 & V2 & _). rewrite Hm in V1, V2. cbn [fst snd] in V1, V2.
  destruct g as [|N D]; cbn [sst_next src].
  - cbn [rel] in Hr. rewrite Hr in V1, V2.
    assert (E : l1_map l1_init s p = ((true, s, 0), mkL true (w16 (s + 1)) p 0 0 true [])) by reflexivity.
    rewrite E in V1, V2. cbn [fst snd] in V1, V2. inversion V1; subst v q.
    split; [apply w16_small; exact Hs|].
    cbn [spec_step fst Tracked]. split; [lia|]. split; [intros []|].
    split; [rewrite out_nil; apply w16_small; exact Hs|].
    exists []. split; [|apply Kp_nil]. rewrite V2. apply Inv_fresh. reflexivity.
  - destruct Hr as (gs & HI).
    destruct (unwrap_props N s Hs) as (Hw16 & Hrange).
    split; [exact Hw16|].
    destruct (map_rel m (SRun N D) s p Hw (ex_intro _ gs HI) Hs) as (_ & _ & Hpred).
    rewrite Hm in Hpred. cbn [fst snd] in Hpred.
    pose proof (map_K (abs m) N D gs s p HI Hs) as HK. cbv zeta in HK.
    rewrite <- V1, <- V2 in HK. cbn [fst snd] in HK.
    assert (Hlt : forall d, In d D -> d < N).
    { unfold PacketMapInv.Inv in HI. cbn [gNext gD gGs] in HI. tauto. }
    set (r := unwrap N s) in *.
    cbn [spec_step] in *. fold r in Hpred, HK |- *.
    destruct ((window <? r - N) || (window <? N - r)) eqn:Esync; cbn [fst snd] in *.
    + destruct Hpred as (p0 & Hp). injection Hp as Ev Eq. subst v p0.
      destruct HK as (gs' & HI' & _ & HK). cbn [Tracked].
      split; [lia|]. split; [intros []|]. split; [rewrite out_nil; exact Hw16|].
      exists gs'. split; [exact HI'|apply HK; reflexivity].
    + destruct (N <=? r) eqn:Eord; cbn [fst snd] in *.
      * destruct Hpred as (p0 & Hp). injection Hp as Ev Eq. subst v p0.
        destruct HK as (gs' & HI' & _ & HK). cbn [Tracked].
        split; [lia|]. split; [intros Hin; specialize (Hlt r Hin); lia|]. split; [reflexivity|].
        exists gs'. split; [exact HI'|apply HK; reflexivity].
      * destruct Hpred as (ok & o' & p' & Hp & Hcl). injection Hp as Eo Ev Eq. subst ok o' p'.
        destruct HK as (gs' & HI' & _ & HK). cbn [Tracked].
        destruct (mem r D) eqn:Emem; [discriminate|].
        split; [lia|]. split; [intros Hin; apply mem_In in Hin; congruence|].
        split; [symmetry; apply Hcl; reflexivity|].
        exists gs'. split; [exact HI'|apply HK; reflexivity].
Qed.

Lemma map_keeps_tracked m N D s p R v q : WfRing m -> Tracked m (SRun N D) R v q ->
  0 <= s < 65536 -> insync N s = true ->
  Tracked (snd (pm_map m s p)) (fst (spec_step (SRun N D) (OMap s p))) R v q.
Proof.
  intros Hw (HR & HnD & Hv & gs & HI & HK) Hs Hsync.
  destruct (map_view m s p Hw) as (_ & V2 & _).
  pose proof (map_K (abs m) N D gs s p HI Hs) as HK'. cbv zeta in HK'.
  unfold insync in Hsync. cbn [spec_step] in *.
  destruct ((window <? unwrap N s - N) || (window <? N - unwrap N s)) eqn:Esync; [discriminate|].
  destruct (N <=? unwrap N s) eqn:Eord; cbn [fst snd Tracked] in *;
    destruct HK' as (gs' & HI' & HK2 & _);
    (split; [lia|]; split; [exact HnD|]; split; [exact Hv|];
     exists gs'; split; [rewrite V2; exact HI'|apply HK2; [unfold insync; rewrite Esync; reflexivity|exact HR|exact HK]]).
Qed.

Lemma drop_keeps_tracked m N D s p R v q : WfRing m -> Tracked m (SRun N D) R v q ->
  0 <= s < 65536 -> unwrap N s = N ->
  Tracked (snd (pm_drop m s p)) (SRun (N + 1) (D ++ [N])) R v q.
Proof.
  intros Hw (HR & HnD & Hv & gs & HI & HK) Hs Hu.
  destruct (drop_view m s p Hw) as (_ & V2 & _).
  destruct (unwrap_props N s Hs) as (Hw16 & _). rewrite Hu in Hw16.
  destruct (drop_K (abs m) (mkGh N D gs) p HI) as (_ & gs' & HI' & HK').
  cbn [gNext gD gGs] in HI', HK'. rewrite Hw16 in HI'.
  cbn [Tracked]. split; [lia|]. split.
  - intros Hin. apply in_app_or in Hin. destruct Hin as [Hin|[E|[]]]; [contradiction|lia].
  - split.
    + unfold out in *. rewrite before_app. replace (N <? R) with false by lia. rewrite Z.add_0_r. exact Hv.
    + exists gs'. split; [rewrite V2; exact HI'|apply HK'; exact HK].
Qed.

Lemma write_tracks vp8 st g f buf R v q : FInv st g -> Tracked (fs_map st) g R v q ->
  0 <= f_seqno f < 65536 ->
  match sst_next g with None => True | Some N => insync N (f_seqno f) = true end ->
  Tracked (fs_map (fst (fst (write vp8 st f buf)))) (gwrite st g f) R v q.
Proof.
  intros HF HT Hs Hsync. assert (HF' := HF). destruct HF' as (Hw & Hr).
  destruct g as [|N D]; [destruct HT|]. cbn [sst_next] in Hsync.
  destruct (write_eq vp8 st f buf) as (_ & _ & H). cbv zeta in H.
  unfold gwrite. unfold drop_part in *.
  destruct (snd (fst (write_decision st f))).
  - destruct (drop_rel (fs_map st) (SRun N D) (f_seqno f) (f_pid f) Hw Hr Hs) as (_ & _ & H3).
    cbn [spec_step] in H3 |- *.
    destruct (unwrap N (f_seqno f) =? N) eqn:E; cbn [fst snd] in H3 |- *.
    + inversion H3 as [E2]. rewrite E2 in H |- *. destruct H as (-> & _).
      apply drop_keeps_tracked; [exact Hw|exact HT|exact Hs|lia].
    + inversion H3 as [E2]. rewrite E2 in H |- *. destruct H as (-> & _).
      rewrite (drop_false _ _ _ E2).
      apply map_keeps_tracked; assumption.
  - cbn [fst snd] in H |- *. destruct H as (-> & _).
    apply map_keeps_tracked; assumption.
Qed.

Lemma step_tracks vp8 st g o R v q : FInv st g -> flags_wf (fs_flags st) -> wf_fop o ->
  Tracked (fs_map st) g R v q ->
  match o with
  | OWrite f _ => match sst_next g with None => True | Some N => insync N (f_seqno f) = true end
  | _ => True
  end ->
  Tracked (fs_map (fst (Forward.step vp8 st o))) (gstep st g o) R v q.
Proof.
  intros HF Hfl Hwf HT Hsync.
  destruct o as [rate lm remb|s ts kf m f buf|k|f buf|os| |b|r0 l ac];
    cbn [Forward.step gstep wf_fop] in *; try exact HT.
  - destruct (store (fs_cache st) s ts kf m buf) as [x c']. exact HT.
  - pose proof (write_tracks vp8 st g f buf R v q HF HT Hwf Hsync) as H.
    destruct (write vp8 st f buf) as [[st' r] kf]. exact H.
  - destruct (nacks vp8 st os) as [st' rs] eqn:E. cbn [fst].
    destruct HF as (Hw & Hr).
    destruct (nacks_keeps vp8 os st st' rs (rel_next16 _ _ Hr) Hfl E) as (K1 & _).
    rewrite K1. exact HT.
Qed.

Lemma run_tracks vp8 ops : forall st g R v q, FInv st g -> flags_wf (fs_flags st) ->
  Forall wf_fop ops -> Tracked (fs_map st) g R v q -> insync_all (sst_next g) ops ->
  Tracked (fs_map (frun vp8 st ops)) (grun vp8 st g ops) R v q.
Proof.
  induction ops as [|o t IH]; intros st g R v q HF Hfl Hwf HT Hsync; cbn [frun grun]; [exact HT|].
  inversion Hwf as [|? ? Ho Ht]; subst.
  destruct (step_FInv vp8 st g o HF Hfl Ho) as (H1 & H2).
  apply IH; [exact H1|exact H2|exact Ht| |].
  - apply step_tracks; try assumption.
    destruct o; try exact I. cbn [insync_all] in Hsync. tauto.
  - rewrite (gstep_next st g o HF Ho).
    destruct o; cbn [insync_all] in Hsync; try exact Hsync. tauto.
Qed.

Lemma track_app ops1 : forall n ops2, track n (ops1 ++ ops2) = track (track n ops1) ops2.
Proof.
  induction ops1 as [|o t IH]; intros n ops2; cbn [track app]; [reflexivity|].
  destruct o; apply IH.
Qed.

(* ---- the publisher's cache and the recorded flags along a history ---- *)
Fixpoint cache_ops (ops : list Forward.op) : list Cache.op :=
  match ops with
  | [] => []
  | OCStore s ts kf m f buf :: t => OStore s ts kf m buf :: cache_ops t
  | OCResize k :: t => OResize k :: cache_ops t
  | _ :: t => cache_ops t
  end.

Fixpoint flag_list (ops : list Forward.op) : list (Z * flags) :=
  match ops with
  | [] => []
  | OCStore s ts kf m f buf :: t => (s, f) :: flag_list t
  | _ :: t => flag_list t
  end.

Lemma nack1_cf vp8 st o st' rs stop : nack1 vp8 st o = (st', rs, stop) ->
  fs_cache st' = fs_cache st /\ fs_flags st' = fs_flags st.
Proof.
  unfold nack1. destruct (pm_reverse (fs_map st) o) as [[ok s] p].
  destruct ok; cbn [negb]; [|intros H; inversion H; subst; auto].
  destruct (get (fs_cache st) s) as [n bytes].
  destruct (n =? 0); [intros H; inversion H; subst; auto|].
  destruct (find_flags s (fs_flags st)) as [f|]; [|intros H; inversion H; subst; auto].
  destruct (write_eq vp8 st f bytes) as (Hc & Hfl & _). cbv zeta in Hc, Hfl.
  destruct (write vp8 st f bytes) as [[st2 r] k]. cbn [fst snd] in *.
  intros H; inversion H; subst. auto.
Qed.

Lemma nacks_cf vp8 os : forall st st' rs, nacks vp8 st os = (st', rs) ->
  fs_cache st' = fs_cache st /\ fs_flags st' = fs_flags st.
Proof.
  induction os as [|o os IH]; intros st st' rs; cbn [nacks].
  - intros H; inversion H; subst; auto.
  - destruct (nack1 vp8 st o) as [[st1 rs1] stop] eqn:E1.
    destruct (nack1_cf vp8 st o st1 rs1 stop E1) as (K2 & K3).
    destruct stop; [intros H; inversion H; subst; auto|].
    destruct (nacks vp8 st1 os) as [st2 rs2] eqn:E2.
    destruct (IH st1 st2 rs2 E2) as (L2 & L3).
    intros H; inversion H; subst. rewrite L2, L3. auto.
Qed.

Lemma run_cache_flags vp8 ops : forall st,
  fs_cache (frun vp8 st ops) = run_hist (fs_cache st) (cache_ops ops) /\
  fs_flags (frun vp8 st ops) = rev (flag_list ops) ++ fs_flags st.
Proof.
  induction ops as [|o t IH]; intros st; cbn [frun cache_ops flag_list run_hist rev app]; [auto|].
  destruct o as [rate lm remb|s ts kf m f buf|k|f buf|os| |b|r0 l ac]; cbn [Forward.step].
  - destruct (IH (mkF (fs_layer st) (fs_map st) (fs_cache st) (fs_flags st) (rate * 8) (get_max_bitrate lm remb)))
      as (H1 & H2). cbn [fst fs_cache fs_flags] in *. auto.
  - cbn [run_hist Cache.step rev].
    destruct (store (fs_cache st) s ts kf m buf) as [[x i] c']. cbn [fst].
    destruct (IH (mkF (fs_layer st) (fs_map st) c' ((s, f) :: fs_flags st) (fs_rate8 st) (fs_max st))) as (H1 & H2).
    cbn [fs_cache fs_flags] in *. split; [exact H1|]. rewrite H2, <- app_assoc. reflexivity.
  - cbn [run_hist Cache.step fst].
    destruct (IH (mkF (fs_layer st) (fs_map st) (resize (fs_cache st) k) (fs_flags st) (fs_rate8 st) (fs_max st)))
      as (H1 & H2). cbn [fst fs_cache fs_flags] in *. auto.
  - destruct (write_eq vp8 st f buf) as (Hc & Hfl & _). cbv zeta in Hc, Hfl.
    destruct (write vp8 st f buf) as [[st' r] kf]. cbn [fst snd] in *.
    destruct (IH st') as (H1 & H2). rewrite H1, H2, Hc, Hfl. auto.
  - destruct (nacks vp8 st os) as [st' rs] eqn:E. cbn [fst].
    destruct (nacks_cf vp8 os st st' rs E) as (Hc & Hfl).
    destruct (IH st') as (H1 & H2). rewrite H1, H2, Hc, Hfl. auto.
  - cbn [fst]. destruct (IH (with_layer st (pack (adjust (unpack (fs_layer st)) (fs_rate8 st) (fs_max st)))))
      as (H1 & H2). unfold with_layer in *. cbn [fs_cache fs_flags] in *. auto.
  - cbn [fst]. destruct (IH (with_layer st (pack (set_limit (unpack (fs_layer st)) b)))) as (H1 & H2).
    unfold with_layer in *. cbn [fs_cache fs_flags] in *. auto.
  - apply IH.
Qed.

Lemma cache_ops_wf ops : Forall wf_fop ops -> Forall CacheSound.wf_op (cache_ops ops).
Proof.
  induction 1 as [|o t Ho Ht IH]; cbn [cache_ops]; [constructor|].
  destruct o; try exact IH; constructor; try exact IH; cbn [wf_fop CacheSound.wf_op] in *; tauto.
Qed.

Lemma cache_ops_In ops s ts kf m b : In (OStore s ts kf m b) (cache_ops ops) ->
  exists f, In (OCStore s ts kf m f b) ops.
Proof.
  induction ops as [|o t IH]; cbn [cache_ops]; [intros []|].
  destruct o as [rate lm remb|s' ts' kf' m' f' buf'|k|f' buf'|os| |b'|r0 l ac]; cbn [In];
    try (intros H; destruct (IH H) as (f0 & Hf); exists f0; right; exact Hf).
  - intros [H|H].
    + inversion H; subst. exists f'. left. reflexivity.
    + destruct (IH H) as (f0 & Hf). exists f0. right. exact Hf.
  - intros [H|H]; [discriminate|]. destruct (IH H) as (f0 & Hf). exists f0. right. exact Hf.
Qed.

Lemma flag_list_In ops s f : In (s, f) (flag_list ops) <->
  exists ts kf m b, In (OCStore s ts kf m f b) ops.
Proof.
  induction ops as [|o t IH]; cbn [flag_list].
  - split; [intros []|intros (? & ? & ? & ? & [])].
  - destruct o as [rate lm remb|s' ts' kf' m' f' buf'|k|f' buf'|os| |b'|r0 l ac]; cbn [In];
      try (rewrite IH; split;
           [intros (ts & kf & m & b & H); exists ts, kf, m, b; right; exact H
           |intros (ts & kf & m & b & [H|H]); [discriminate|exists ts, kf, m, b; exact H]]).
    split.
    + intros [H|H].
      * inversion H; subst. exists ts', kf', m', buf'. left. reflexivity.
      * apply IH in H. destruct H as (ts & kf & m & b & H). exists ts, kf, m, b. right. exact H.
    + intros (ts & kf & m & b & [H|H]).
      * inversion H; subst. left. reflexivity.
      * right. apply IH. exists ts, kf, m, b. exact H.
Qed.

(* what gotNACK finds in the cache and among the recorded flags was stored
   by the history *)
Lemma cache_lookup vp8 cap ops s n bytes : Forall wf_fop ops ->
  get (fs_cache (frun vp8 (f_init cap) ops)) s = (n, bytes) -> n <> 0 ->
  (exists ts kf m f, In (OCStore s ts kf m f bytes) ops) /\
  find_flags s (fs_flags (frun vp8 (f_init cap) ops)) <> None.
Proof.
  intros Hwf Hg Hn.
  destruct (run_cache_flags vp8 ops (f_init cap)) as (Hc & Hf).
  cbn [f_init fs_cache fs_flags] in Hc, Hf. rewrite app_nil_r in Hf.
  rewrite Hc in Hg.
  pose proof (reachable_Inv cap (cache_ops ops) (cache_ops_wf ops Hwf)) as HI.
  destruct (get_sound _ _ s n bytes HI Hg) as [(H0 & _)|(_ & _ & (ts & kf & m & Hin))]; [contradiction|].
  apply in_rev in Hin. destruct (cache_ops_In ops s ts kf m bytes Hin) as (f & Hf2).
  split; [exists ts, kf, m, f; exact Hf2|].
  apply (find_flags_some s _ f). rewrite Hf. apply in_rev. rewrite rev_involutive.
  apply flag_list_In. exists ts, kf, m, bytes. exact Hf2.
Qed.

Lemma flags_lookup vp8 cap ops s f :
  find_flags s (fs_flags (frun vp8 (f_init cap) ops)) = Some f ->
  exists ts kf m b, In (OCStore s ts kf m f b) ops.
Proof.
  intros H. apply find_flags_In in H.
  destruct (run_cache_flags vp8 ops (f_init cap)) as (_ & Hf).
  cbn [f_init fs_flags] in Hf. rewrite app_nil_r in Hf. rewrite Hf in H.
  apply in_rev in H. apply flag_list_In. exact H.
Qed.

(* ---- the end-to-end theorem ---- *)
(* every packet stored under source number s in the history is the packet
   (f, buf): within the window a 16-bit source number names one packet, and
   duplicates received by rtpUpTrack are byte-identical.  (The cache returns
   the first slot, by index, that carries the number; with two different
   packets stored under one number it could return either.) *)
Definition only_store (ops : list Forward.op) (s : Z) (f : flags) (buf : list Z) : Prop :=
  forall ts kf m f' buf', In (OCStore s ts kf m f' buf') ops -> f' = f /\ buf' = buf.

(* the final state's facts about a tracked packet, used by both theorems *)
Lemma final_state vp8 cap pre o post :
  let ops := pre ++ o :: post in
  Forall wf_fop ops ->
  let st_i := frun vp8 (f_init cap) pre in
  let g_i := grun vp8 (f_init cap) SInit pre in
  let st1 := fst (Forward.step vp8 st_i o) in
  let g1 := gstep st_i g_i o in
  FInv st_i g_i /\ flags_wf (fs_flags st_i) /\ sst_next g_i = track None pre /\ wf_fop o /\
  FInv st1 g1 /\ flags_wf (fs_flags st1) /\ Forall wf_fop post /\
  frun vp8 (f_init cap) ops = frun vp8 st1 post /\
  FInv (frun vp8 st1 post) (grun vp8 st1 g1 post) /\
  flags_wf (fs_flags (frun vp8 st1 post)) /\
  sst_next (grun vp8 st1 g1 post) = track None ops.
Proof.
  intros ops Hwf st_i g_i st1 g1.
  apply Forall_app in Hwf. destruct Hwf as (Hpre & Hrest).
  inversion Hrest as [|? ? Ho Hpost]; subst.
  assert (Hfl0 : flags_wf (fs_flags (f_init cap))) by constructor.
  destruct (run_FInv vp8 pre (f_init cap) SInit (FInv_init cap) Hfl0 Hpre) as (HF & Hfl).
  pose proof (run_next vp8 pre (f_init cap) SInit (FInv_init cap) Hfl0 Hpre) as Hn.
  destruct (step_FInv vp8 st_i g_i o HF Hfl Ho) as (HF1 & Hfl1).
  destruct (run_FInv vp8 post st1 g1 HF1 Hfl1 Hpost) as (HF2 & Hfl2).
  pose proof (run_next vp8 post st1 g1 HF1 Hfl1 Hpost) as Hn2.
  split; [exact HF|]. split; [exact Hfl|]. split; [exact Hn|]. split; [exact Ho|].
  split; [exact HF1|]. split; [exact Hfl1|]. split; [exact Hpost|].
  split; [|split; [exact HF2|split; [exact Hfl2|]]].
  - unfold ops. rewrite frun_app. reflexivity.
  - rewrite Hn2. unfold g1. rewrite (gstep_next st_i g_i o HF Ho).
    unfold ops. rewrite track_app. fold g_i in Hn. cbn [sst_next] in Hn. rewrite Hn.
    destruct o; reflexivity.
Qed.

Theorem nack_same_or_nothing vp8 cap pre f buf post d :
  let ops := pre ++ OWrite f buf :: post in
  let st_i := frun vp8 (f_init cap) pre in
  let st := frun vp8 (f_init cap) ops in
  let n_i := track None pre in
  let R := src n_i (f_seqno f) in
  Forall wf_fop ops -> bytes_ok buf -> hdr_seq buf = f_seqno f ->
  only_store ops (f_seqno f) f buf ->
  snd (fst (write vp8 st_i f buf)) = WSent d ->
  insync_all (nxt n_i (f_seqno f)) post ->
  match track None ops with Some N => N - R <= 8192 | None => False end ->
  forall st' rs stop, nack1 vp8 st (hdr_seq d) = (st', rs, stop) ->
    fs_map st' = fs_map st /\
    (rs = [] \/
     exists r p n,
       rs = [r] /\
       pm_reverse (fs_map st) (hdr_seq d) = (true, f_seqno f, p) /\
       get (fs_cache st) (f_seqno f) = (n, buf) /\
       find_flags (f_seqno f) (fs_flags st) = Some f /\
       r = snd (fst (write vp8 st f buf)) /\
       r <> WPanic /\
       forall d', r = WSent d' ->
         agree_but_marker d d' /\
         (sid (fst (fst (write_decision st f))) = sid (fst (fst (write_decision st_i f))) -> d' = d)).
Proof.
  intros ops st_i st n_i R Hwf Hb Hhdr Honly Hsent Hsync Hrecent st' rs stop Hnack.
  destruct (final_state vp8 cap pre (OWrite f buf) post Hwf)
    as (HF & Hfl & Hn & Ho & HF1 & Hfl1 & Hpost & Hrun & HF2 & Hfl2 & Hn2).
  fold ops st_i in Hrun, HF, Hfl, HF1, Hfl1, HF2, Hfl2, Hn2. fold st in Hrun.
  set (g_i := grun vp8 (f_init cap) SInit pre) in *.
  cbn [wf_fop] in Ho.
  (* the original transmission *)
  destruct (write_eq vp8 st_i f buf) as (_ & _ & Hw). cbv zeta in Hw.
  destruct (drop_part_rel st_i g_i f HF Ho) as (_ & _ & Hdp). cbv zeta in Hdp.
  destruct (fst (drop_part st_i f)) eqn:Edrop;
    [destruct Hw as (_ & Hw); rewrite Hw in Hsent; discriminate|].
  destruct (Hdp eq_refl) as (Hdm & Hg1). rewrite Hdm in Hw.
  destruct (pm_map (fs_map st_i) (f_seqno f) (f_pid f)) as [[[ok v] q] m2] eqn:Emap.
  cbn [fst snd] in Hw. destruct Hw as (Hm2 & Hr).
  destruct ok; [|rewrite Hr in Hsent; discriminate].
  rewrite Hr in Hsent.
  assert (HFi := HF). destruct HFi as (Hwr & Hrel).
  destruct (map_tracks (fs_map st_i) g_i (f_seqno f) (f_pid f) v q m2 Hwr Hrel Ho Emap) as (HR16 & HT).
  rewrite Hn in HT, HR16. fold n_i in HT, HR16. fold R in HT, HR16.
  (* the state after that Write, and after the rest of the history *)
  set (st1 := fst (Forward.step vp8 st_i (OWrite f buf))) in *.
  assert (Est1 : fs_map st1 = m2).
  { unfold st1. cbn [Forward.step]. destruct (write vp8 st_i f buf) as [[s1 r1] k1]. exact Hm2. }
  assert (Eg1 : gstep st_i g_i (OWrite f buf) = fst (spec_step g_i (OMap (f_seqno f) (f_pid f)))).
  { cbn [gstep]. unfold gwrite. rewrite Edrop.
    destruct (snd (fst (write_decision st_i f))); [rewrite Hg1|]; reflexivity. }
  set (g1 := gstep st_i g_i (OWrite f buf)) in *.
  rewrite <- Eg1, <- Est1 in HT.
  assert (Hsync1 : insync_all (sst_next g1) post).
  { unfold g1. rewrite (gstep_next st_i g_i (OWrite f buf) HF Ho). rewrite Hn. exact Hsync. }
  pose proof (run_tracks vp8 post st1 g1 R v q HF1 Hfl1 Hpost HT Hsync1) as HTf.
  rewrite <- Hrun in HTf, HF2, Hfl2.
  set (g := grun vp8 st1 g1 post) in *.
  destruct g as [|N D] eqn:Eg; [destruct HTf|].
  cbn [sst_next] in Hn2. rewrite <- Hn2 in Hrecent.
  destruct HTf as (HRN & HnD & Hv & gs & HI & HK).
  assert (Hv16 : 0 <= v < 65536) by (rewrite <- Hv; apply w16_range).
  pose proof (emit_number vp8 buf _ _ v q d Hb Hhdr Hv16 Hsent) as Hnum.
  rewrite Hnum in *.
  (* the NACK *)
  destruct HF2 as (Hwf2 & Hrel2).
  pose proof (rel_next16 _ _ Hrel2) as Hn16. change (l_next (abs (fs_map st))) with (m_next (fs_map st)) in Hn16.
  destruct (nack1_keeps vp8 st v st' rs stop Hn16 Hfl2 Hnack) as (Hkeep & _).
  split; [exact Hkeep|].
  destruct (nack_lookup (abs (fs_map st)) N D gs R q (f_pid f) HI HK ltac:(lia) HnD) as (Hrev & Hlate).
  rewrite Hv in Hrev, Hlate. rewrite HR16 in Hrev, Hlate.
  unfold nack1 in Hnack.
  destruct (pm_reverse (fs_map st) v) as [[okr s'] p'] eqn:Erev.
  destruct okr; cbn [negb] in Hnack; [|inversion Hnack; left; reflexivity].
  assert (Es' : s' = f_seqno f).
  { apply (Hrev s' p'). rewrite <- (reverse_view (fs_map st) v Hwf2). exact Erev. }
  subst s'.
  destruct (get (fs_cache st) (f_seqno f)) as [n bytes] eqn:Eget.
  destruct (n =? 0) eqn:En; [inversion Hnack; left; reflexivity|].
  destruct (cache_lookup vp8 cap ops (f_seqno f) n bytes Hwf Eget ltac:(lia))
    as ((ts & kf & mk & f0 & Hin) & Hfind).
  destruct (Honly ts kf mk f0 bytes Hin) as (_ & Ebytes). subst bytes.
  fold st in Hfind.
  destruct (find_flags (f_seqno f) (fs_flags st)) as [f1|] eqn:Eff; [|congruence].
  destruct (flags_lookup vp8 cap ops (f_seqno f) f1 Eff) as (ts1 & kf1 & mk1 & b1 & Hin1).
  destruct (Honly ts1 kf1 mk1 f1 b1 Hin1) as (Ef1 & _). subst f1.
  right.
  (* Write of the late copy *)
  pose proof (reverse_recent _ _ _ _ Erev) as Hrec.
  destruct (write_recent_map vp8 st f buf Hn16 ltac:(unfold is16; lia) Hrec) as (_ & Hdp2).
  destruct (write_eq vp8 st f buf) as (_ & _ & Hw2). cbv zeta in Hw2.
  rewrite Hdp2 in Hw2. cbn [fst snd] in Hw2. destruct Hw2 as (_ & Hr2).
  destruct (map_view (fs_map st) (f_seqno f) (f_pid f) Hwf2) as (V1 & _).
  destruct (write vp8 st f buf) as [[st2 r] k] eqn:Ewr. cbn [fst snd] in Hr2.
  exists r, p', n. inversion Hnack; subst st' rs stop.
  split; [reflexivity|]. split; [reflexivity|]. split; [reflexivity|]. split; [reflexivity|].
  split; [reflexivity|].
  destruct Hlate as [Hl|Hl]; rewrite Hl in V1; cbn [fst snd] in V1; rewrite V1 in Hr2; cbn [fst snd] in Hr2.
  - split; [rewrite Hr2; apply emit_no_panic; exact Hb|].
    intros d' Hd'. rewrite Hr2 in Hd'.
    destruct (emit_agree vp8 buf _ _ (f_seqno f) v q d d' Hb Hhdr Hsent Hd') as (Ha & Hsame).
    split; [exact Ha|]. intros Hsid. apply Hsame. unfold set_marker. rewrite Hsid. reflexivity.
  - split; [rewrite Hr2; discriminate|]. intros d' Hd'. rewrite Hr2 in Hd'. discriminate.
Qed.

(* ---- a withheld packet is never sent in answer to a NACK ---- *)
Definition Held (g : sst) (R : Z) : Prop :=
  match g with SInit => False | SRun N D => In R D /\ R < N end.

Lemma map_keeps_held N D s p R : Held (SRun N D) R -> insync N s = true ->
  Held (fst (spec_step (SRun N D) (OMap s p))) R.
Proof.
  intros (Hin & HR) Hsync. unfold insync in Hsync. cbn [spec_step].
  destruct ((window <? unwrap N s - N) || (window <? N - unwrap N s)); [discriminate|].
  destruct (N <=? unwrap N s) eqn:E; cbn [fst Held]; split; auto; lia.
Qed.

Lemma gwrite_held st g f R : FInv st g -> 0 <= f_seqno f < 65536 -> Held g R ->
  match sst_next g with None => True | Some N => insync N (f_seqno f) = true end ->
  Held (gwrite st g f) R.
Proof.
  intros (Hw & Hr) Hs HH Hsync. destruct g as [|N D]; [destruct HH|]. cbn [sst_next] in Hsync.
  unfold gwrite, drop_part.
  destruct (snd (fst (write_decision st f))).
  - destruct (drop_rel (fs_map st) (SRun N D) (f_seqno f) (f_pid f) Hw Hr Hs) as (_ & _ & H3).
    cbn [spec_step] in H3 |- *.
    destruct (unwrap N (f_seqno f) =? N) eqn:E; cbn [fst snd] in H3 |- *.
    + inversion H3 as [E2]. rewrite E2. destruct HH as (Hin & HR).
      cbn [Held]. split; [apply in_or_app; left; exact Hin|lia].
    + inversion H3 as [E2]. rewrite E2. apply map_keeps_held; assumption.
  - cbn [fst]. apply map_keeps_held; assumption.
Qed.

Lemma run_held vp8 ops : forall st g R, FInv st g -> flags_wf (fs_flags st) ->
  Forall wf_fop ops -> Held g R -> insync_all (sst_next g) ops ->
  Held (grun vp8 st g ops) R.
Proof.
  induction ops as [|o t IH]; intros st g R HF Hfl Hwf HH Hsync; cbn [grun]; [exact HH|].
  inversion Hwf as [|? ? Ho Ht]; subst.
  destruct (step_FInv vp8 st g o HF Hfl Ho) as (H1 & H2).
  apply IH; [exact H1|exact H2|exact Ht| |].
  - destruct o; cbn [gstep]; try exact HH.
    cbn [insync_all] in Hsync. apply gwrite_held; [exact HF|exact Ho|exact HH|tauto].
  - rewrite (gstep_next st g o HF Ho).
    destruct o; cbn [insync_all] in Hsync; try exact Hsync. tauto.
Qed.

Theorem nack_never_withheld vp8 cap pre f buf post :
  let ops := pre ++ OWrite f buf :: post in
  let st_i := frun vp8 (f_init cap) pre in
  let st := frun vp8 (f_init cap) ops in
  let n_i := track None pre in
  let R := src n_i (f_seqno f) in
  Forall wf_fop ops ->
  (* Write withheld the packet: the layer part asked for it and Drop succeeded *)
  snd (fst (write_decision st_i f)) = true ->
  fst (pm_drop (fs_map st_i) (f_seqno f) (f_pid f)) = true ->
  insync_all (nxt n_i (f_seqno f)) post ->
  match track None ops with Some N => N - R <= 8192 | None => False end ->
  snd (fst (write vp8 st_i f buf)) = WNone /\
  forall o st' rs stop, nack1 vp8 st o = (st', rs, stop) ->
    forall p, pm_reverse (fs_map st) o = (true, f_seqno f, p) -> rs = [] \/ rs = [WNone].
Proof.
  intros ops st_i st n_i R Hwf Hdec Hdrop Hsync Hrecent.
  destruct (final_state vp8 cap pre (OWrite f buf) post Hwf)
    as (HF & Hfl & Hn & Ho & HF1 & Hfl1 & Hpost & Hrun & HF2 & Hfl2 & Hn2).
  fold ops st_i in Hrun, HF, Hfl, HF1, Hfl1, HF2, Hfl2, Hn2. fold st in Hrun.
  set (g_i := grun vp8 (f_init cap) SInit pre) in *.
  cbn [wf_fop] in Ho.
  assert (Edp : drop_part st_i f = pm_drop (fs_map st_i) (f_seqno f) (f_pid f))
    by (unfold drop_part; rewrite Hdec; reflexivity).
  split.
  { destruct (write_eq vp8 st_i f buf) as (_ & _ & Hw). cbv zeta in Hw.
    rewrite Edp, Hdrop in Hw. tauto. }
  assert (HFi := HF). destruct HFi as (Hwr & Hrel).
  destruct (drop_rel (fs_map st_i) g_i (f_seqno f) (f_pid f) Hwr Hrel Ho) as (_ & _ & H3).
  rewrite Hdrop in H3.
  set (g1 := gstep st_i g_i (OWrite f buf)) in *.
  assert (HH : Held g1 R).
  { unfold g1. cbn [gstep]. unfold gwrite. rewrite Hdec, Edp, Hdrop.
    unfold R, n_i. rewrite <- Hn.
    destruct g_i as [|N D]; cbn [spec_step fst snd sst_next src] in *; [discriminate|].
    destruct (unwrap N (f_seqno f) =? N) eqn:E; cbn [fst snd] in *; [|discriminate].
    assert (unwrap N (f_seqno f) = N) as -> by lia.
    cbn [Held]. split; [apply in_or_app; right; left; reflexivity|lia]. }
  assert (Hsync1 : insync_all (sst_next g1) post).
  { unfold g1. rewrite (gstep_next st_i g_i (OWrite f buf) HF Ho). rewrite Hn. exact Hsync. }
  set (st1 := fst (Forward.step vp8 st_i (OWrite f buf))) in *.
  pose proof (run_held vp8 post st1 g1 R HF1 Hfl1 Hpost HH Hsync1) as HHf.
  rewrite <- Hrun in HF2, Hfl2.
  set (g := grun vp8 st1 g1 post) in *.
  destruct g as [|N D] eqn:Eg; [destruct HHf|].
  cbn [sst_next] in Hn2. rewrite <- Hn2 in Hrecent.
  destruct HHf as (HinD & HRN).
  destruct HF2 as (Hwf2 & (gs & HI)).
  assert (HR16 : w16 R = f_seqno f).
  { unfold R. destruct n_i as [Ni|]; cbn [src]; [apply unwrap_props; exact Ho|apply w16_small; exact Ho]. }
  assert (Hn16 : is16 (m_next (fs_map st))).
  { change (m_next (fs_map st)) with (l_next (abs (fs_map st))).
    apply (rel_next16 _ (SRun N D)). exists gs. exact HI. }
  intros o st' rs stop Hnack p Erev.
  unfold nack1 in Hnack. rewrite Erev in Hnack. cbn [negb] in Hnack.
  destruct (get (fs_cache st) (f_seqno f)) as [n bytes] eqn:Eget.
  destruct (n =? 0) eqn:En; [inversion Hnack; left; reflexivity|].
  destruct (cache_lookup vp8 cap ops (f_seqno f) n bytes Hwf Eget ltac:(lia)) as (_ & Hfind).
  fold st in Hfind.
  destruct (find_flags (f_seqno f) (fs_flags st)) as [f1|] eqn:Eff; [|congruence].
  apply find_flags_In in Eff. unfold flags_wf in Hfl2. rewrite Forall_forall in Hfl2.
  destruct (Hfl2 _ Eff) as (_ & Ef1). cbn [fst snd] in Ef1.
  pose proof (reverse_recent _ _ _ _ Erev) as Hrec. rewrite <- Ef1 in Hrec.
  destruct (write_recent_map vp8 st f1 bytes Hn16 ltac:(unfold is16; lia) Hrec) as (_ & Hdp2).
  destruct (write_eq vp8 st f1 bytes) as (_ & _ & Hw2). cbv zeta in Hw2.
  rewrite Hdp2 in Hw2. cbn [fst snd] in Hw2. destruct Hw2 as (_ & Hr2).
  destruct (map_view (fs_map st) (f_seqno f1) (f_pid f1) Hwf2) as (V1 & _).
  rewrite Ef1, <- HR16 in V1.
  rewrite (withheld_lookup (abs (fs_map st)) N D gs R (f_pid f1) HI ltac:(lia) HinD) in V1.
  cbn [fst snd] in V1. rewrite HR16, <- Ef1 in V1. rewrite V1 in Hr2. cbn [fst snd] in Hr2.
  destruct (write vp8 st f1 bytes) as [[st2 r] k]. cbn [fst snd] in Hr2. subst r.
  inversion Hnack. right. reflexivity.
Qed.

(* the outputs of a history *)
Fixpoint fouts (vp8 : bool) (st : fstate) (ops : list Forward.op) : list Forward.out :=
  match ops with
  | [] => []
  | o :: t => snd (Forward.step vp8 st o) :: fouts vp8 (fst (Forward.step vp8 st o)) t
  end.

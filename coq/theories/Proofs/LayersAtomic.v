(* C04 over schedules.  The layer word is changed only by closures applied
   atomically by updateLayerInfo: the two closures of Write (write1, write2),
   the closure of adjustLayer and the one of setLimitSid.  Every schedule of
   the writer, the RTCP listener and the signalling goroutine is therefore a
   list of these atomic events; the theorems below hold for every such list.
   That the compare-and-swap loop applies a closure atomically is Go's
   sync/atomic contract (trusted; harness/cmd/layerrace exercises it). *)
From Coq Require Import ZArith List Bool Lia.
From Coq Require Import ZifyBool.
From Galene Require Import Lib.Word Generated.Consts Model.Layers Proofs.Layers.
Import ListNotations.
Open Scope Z_scope.

Inductive aevent :=
| AW1 (f : flags)
| AW2 (f : flags)
| AAdj (rate8 max : Z)
| ALim (b : bool).

Definition astep (l : layer) (e : aevent) : layer :=
  match e with
  | AW1 f => write1 l f
  | AW2 f => write2 l f
  | AAdj r m => adjust l r m
  | ALim b => set_limit l b
  end.

Definition wf_aevent (e : aevent) : Prop :=
  match e with
  | AW1 f | AW2 f => 0 <= f_tid f < 16 /\ 0 <= f_sid f < 16
  | _ => True
  end.

Fixpoint arun (l : layer) (es : list aevent) : layer :=
  match es with [] => l | e :: es' => arun (astep l e) es' end.

(* ---- the closures, one by one ---- *)
Lemma write1_id l f : (maxTid l <? f_tid f) || (maxSid l <? f_sid f) = false -> write1 l f = l.
Proof.
  intros Hx. apply orb_false_elim in Hx. destruct Hx as (Hx & Hy).
  unfold write1. rewrite Hx. rewrite Hy. reflexivity.
Qed.

Lemma write1_spec l f : LInv l -> 0 <= f_tid f < 16 -> 0 <= f_sid f < 16 ->
  let l' := write1 l f in
  LInv l' /\ limitSid l' = limitSid l /\
  maxSid l <= maxSid l' /\ maxTid l <= maxTid l' /\
  (sid l' <> sid l -> eager_s l f) /\
  (tid l' <> tid l -> eager_t l f /\ tid l' = f_tid f) /\
  sid l <= sid l' /\ tid l <= tid l'.
Proof.
  intros (H1 & H2 & H3 & H4 & H5 & H6 & H7) Ht Hs. unfold write1.
  set (la := if maxTid l <? f_tid f then _ else l).
  assert (Hla : LInv la /\ sid la = sid l /\ wantedSid la = wantedSid l /\ maxSid la = maxSid l /\
                limitSid la = limitSid l /\ maxTid l <= maxTid la /\
                (tid la <> tid l -> eager_t l f /\ tid la = f_tid f) /\ tid l <= tid la).
  { unfold la, eager_t, LInv. destruct (maxTid l <? f_tid f) eqn:E; [|repeat split; auto; lia].
    destruct (tid l =? maxTid l) eqn:E2; cbn; repeat split; auto; lia. }
  destruct Hla as (Ila & A1 & A2 & A3 & A4 & A5 & A6 & A7). clearbody la.
  destruct Ila as (B1 & B2 & B3 & B4 & B5 & B6 & B7).
  cbv zeta. unfold eager_s, LInv.
  destruct (maxSid la <? f_sid f) eqn:E.
  all: unfold eager_t in A6 |- *.
  2: { split; [tauto|]. split; [exact A4|]. split; [lia|]. split; [lia|].
       split; [intros Hx; congruence|]. split; [exact A6|]. lia. }
  destruct ((sid la =? maxSid la) && negb (limitSid la)) eqn:E2; cbn.
  - repeat split; auto; try lia; try (apply A6; assumption).
    + intros Hl. rewrite Hl in E2. rewrite andb_false_r in E2. discriminate.
    + destruct (limitSid la) eqn:E3; [rewrite andb_false_r in E2; discriminate|congruence].
  - repeat split; auto; try lia; try (apply A6; assumption).
Qed.

Lemma write2_spec l f : LInv l -> 0 <= f_tid f < 16 ->
  let l' := write2 l f in
  LInv l' /\ limitSid l' = limitSid l /\ wantedSid l' = wantedSid l /\
  maxSid l' = maxSid l /\ maxTid l' = maxTid l /\ wantedTid l' = wantedTid l /\
  (sid l' <> sid l -> f_start f = true /\ f_keyframe f = true) /\
  (f_start f = true -> f_keyframe f = true -> sid l' = wantedSid l) /\
  (tid l' <> tid l -> f_start f = true) /\
  (tid l < tid l' -> f_keyframe f = true \/
                     (f_tidUpSync f = true /\ tid l' = f_tid f /\ f_tid f <= wantedTid l')).
Proof.
  intros HI Ht. unfold write2.
  set (l2 := if f_start f && negb (tid l =? wantedTid l) then _ else l).
  assert (Hl2 : LInv l2 /\ sid l2 = sid l /\ wantedSid l2 = wantedSid l /\ maxSid l2 = maxSid l /\
                maxTid l2 = maxTid l /\ wantedTid l2 = wantedTid l /\ limitSid l2 = limitSid l /\
                (tid l2 <> tid l -> f_start f = true) /\
                (tid l < tid l2 -> f_keyframe f = true \/
                                   (f_tidUpSync f = true /\ tid l2 = f_tid f /\ f_tid f <= wantedTid l2))).
  { destruct HI as (F1 & F2 & F3 & F4 & F5 & F6 & F7). unfold l2.
    destruct (f_start f); cbn [andb]; [|split; [unfold LInv; tauto|repeat split; auto; lia]].
    destruct (negb (tid l =? wantedTid l)) eqn:Et; [|split; [unfold LInv; tauto|repeat split; auto; lia]].
    destruct (f_keyframe f) eqn:Ek; [split; [linv|cbn; repeat split; auto]|].
    destruct (wantedTid l <? tid l) eqn:Ew; [split; [linv|cbn; repeat split; auto; lia]|].
    destruct (f_tidUpSync f && (f_tid f <=? wantedTid l)) eqn:Eu;
      [|split; [unfold LInv; tauto|repeat split; auto; lia]].
    apply andb_prop in Eu. destruct Eu as (Eu1 & Eu2).
    split; [linv|cbn; repeat split; auto]. intros _. right. repeat split; auto. lia. }
  clearbody l2. destruct Hl2 as (Il2 & G1 & G2 & G3 & G4 & G5 & G6 & G7 & G8).
  cbv zeta.
  destruct (f_start f && f_keyframe f) eqn:E.
  - apply andb_prop in E. destruct E as (Es & Ek).
    destruct Il2 as (F1 & F2 & F3 & F4 & F5 & F6 & F7).
    split; [linv|]. cbn [sid wantedSid maxSid tid wantedTid maxTid limitSid].
    repeat split; auto; try congruence; try lia.
  - split; [exact Il2|]. split; [exact G6|]. split; [exact G2|]. split; [exact G3|].
    split; [exact G4|]. split; [exact G5|].
    split; [intros Hx; congruence|].
    split; [intros Hs Hk; rewrite Hs, Hk in E; discriminate|].
    split; [intros Hx; apply G7; congruence|]. exact G8.
Qed.

(* [write_layer] (what the correspondence check compares with the code) is
   the sequential composition of the atomic closures *)
Lemma write_layer_atomic l f r m : LInv l -> 0 <= f_tid f < 16 -> 0 <= f_sid f < 16 ->
  write_layer l f r m =
  (let l1 := if (maxTid l <? f_tid f) || (maxSid l <? f_sid f)
             then adjust (write1 l f) r m else l in
   let l3 := write2 l1 f in
   (l3, drop_of l3 f, f_start f && negb (sid l3 =? wantedSid l3))).
Proof.
  intros HI Ht Hs.
  destruct (write1_spec l f HI Ht Hs) as (I1 & _).
  unfold write_layer. fold (write1 l f).
  rewrite (pack_unpack _ I1).
  rewrite (pack_unpack _ (adjust_LInv _ r m I1)).
  cbv zeta.
  set (l1 := if (maxTid l <? f_tid f) || (maxSid l <? f_sid f) then adjust (write1 l f) r m else l).
  unfold write2, drop_of. cbv zeta.
  set (l2 := if f_start f && negb (tid l1 =? wantedTid l1) then _ else l1).
  clearbody l2.
  destruct (f_start f); cbn [andb]; [|reflexivity].
  destruct (f_keyframe f); cbn [andb].
  - destruct (negb (sid l2 =? wantedSid l2)) eqn:E.
    + cbn [sid wantedSid]. rewrite Z.eqb_refl. reflexivity.
    + apply negb_false_iff in E. apply Z.eqb_eq in E.
      destruct l2 as [s ws ms t wt mt lim]. cbn [sid wantedSid maxSid tid wantedTid maxTid limitSid] in *.
      subst s. rewrite Z.eqb_refl. reflexivity.
  - destruct (negb (sid l2 =? wantedSid l2)); reflexivity.
Qed.

(* ---- every schedule ---- *)
Lemma astep_LInv l e : wf_aevent e -> LInv l -> LInv (astep l e).
Proof.
  intros Hwf HI. destruct e as [f|f|r m|b]; cbn [astep wf_aevent] in *.
  - destruct Hwf as (Ht & Hs). exact (proj1 (write1_spec l f HI Ht Hs)).
  - destruct Hwf as (Ht & Hs). exact (proj1 (write2_spec l f HI Ht)).
  - apply adjust_LInv; exact HI.
  - apply set_limit_LInv; exact HI.
Qed.

Lemma arun_LInv es : forall l, Forall wf_aevent es -> LInv l -> LInv (arun l es).
Proof.
  induction es as [|e es IH]; intros l Hwf HI; cbn [arun]; [exact HI|].
  inversion Hwf; subst. apply IH; [assumption|]. apply astep_LInv; assumption.
Qed.

(* what a single atomic event may do to the current layers *)
Lemma astep_switch l e : wf_aevent e -> LInv l ->
  let l' := astep l e in
  (sid l' <> sid l ->
     (exists f, e = AW2 f /\ f_start f = true /\ f_keyframe f = true) \/
     (exists f, e = AW1 f /\ eager_s l f)) /\
  (tid l' < tid l -> exists f, e = AW2 f /\ f_start f = true) /\
  (tid l < tid l' ->
     (exists f, e = AW1 f /\ eager_t l f) \/
     (exists f, e = AW2 f /\ f_start f = true /\
        (f_keyframe f = true \/ (f_tidUpSync f = true /\ tid l' = f_tid f /\ f_tid f <= wantedTid l')))) /\
  (limitSid l' <> limitSid l -> exists b, e = ALim b) /\
  maxSid l <= maxSid l' /\ maxTid l <= maxTid l'.
Proof.
  intros Hwf HI. destruct e as [f|f|r m|b]; cbn [astep wf_aevent] in *.
  - destruct Hwf as (Ht & Hs).
    destruct (write1_spec l f HI Ht Hs) as (_ & A1 & A2 & A3 & A4 & A5 & A6 & A7).
    cbv zeta. repeat split; try lia.
    + intros Hx. right. exists f. split; [reflexivity|exact (A4 Hx)].
    + intros Hx. left. exists f. split; [reflexivity|]. apply A5. lia.
    + intros Hx. congruence.
  - destruct Hwf as (Ht & Hs).
    destruct (write2_spec l f HI Ht) as (_ & A1 & A2 & A3 & A4 & A5 & A6 & A7 & A8 & A9).
    cbv zeta. repeat split; try lia.
    + intros Hx. left. exists f. split; [reflexivity|exact (A6 Hx)].
    + intros Hx. exists f. split; [reflexivity|]. apply A8. lia.
    + intros Hx. right. exists f. split; [reflexivity|]. split; [apply A8; lia|exact (A9 Hx)].
    + intros Hx. congruence.
  - destruct (adjust_keeps_current l r m) as (C1 & C2 & C3 & C4 & C5).
    cbv zeta. repeat split; try lia; intros Hx; congruence.
  - cbv zeta. cbn [set_limit sid tid maxSid maxTid limitSid].
    repeat split; try lia. intros _. exists b. reflexivity.
Qed.

(* a request for low quality is never lost: whatever the other goroutines do,
   as long as the request is not withdrawn the word keeps limitSid and
   wantedSid = 0, and the first packet of any later keyframe brings the
   receiver to spatial layer 0 *)
Definition not_unlimit (e : aevent) : Prop := e <> ALim false.

Lemma arun_limit_kept es : forall l, Forall wf_aevent es -> Forall not_unlimit es ->
  LInv l -> limitSid l = true ->
  limitSid (arun l es) = true /\ wantedSid (arun l es) = 0 /\ LInv (arun l es).
Proof.
  induction es as [|e es IH]; intros l Hwf Hn HI Hl; cbn [arun].
  - split; [exact Hl|]. split; [|exact HI]. destruct HI as (_ & _ & _ & _ & _ & _ & H7). auto.
  - inversion Hwf as [|? ? Hwe Hwes]; subst. inversion Hn as [|? ? Hne Hnes]; subst.
    apply IH; auto; [apply astep_LInv; assumption|].
    destruct (Bool.bool_dec (limitSid (astep l e)) (limitSid l)) as [Heq|Hneq]; [congruence|].
    destruct (astep_switch l e Hwe HI) as (_ & _ & _ & Hlim & _).
    destruct (Hlim Hneq) as (b & Hb). subst e. destruct b; [reflexivity|].
    exfalso. apply Hne. reflexivity.
Qed.

Lemma limit_applied_at_keyframe l f : LInv l -> 0 <= f_tid f < 16 -> limitSid l = true ->
  f_start f = true -> f_keyframe f = true -> sid (astep l (AW2 f)) = 0.
Proof.
  intros HI Ht Hl Hs Hk. cbn [astep].
  destruct (write2_spec l f HI Ht) as (_ & _ & _ & _ & _ & _ & _ & A7 & _).
  rewrite (A7 Hs Hk). destruct HI as (_ & _ & _ & _ & _ & _ & H7). auto.
Qed.

Lemma limit_never_lost es l f :
  Forall wf_aevent es -> Forall not_unlimit es -> LInv l -> 0 <= f_tid f < 16 ->
  let l' := arun (astep l (ALim true)) es in
  limitSid l' = true /\ wantedSid l' = 0 /\
  (f_start f = true -> f_keyframe f = true -> sid (astep l' (AW2 f)) = 0).
Proof.
  intros Hwf Hn HI Ht.
  destruct (arun_limit_kept es (astep l (ALim true)) Hwf Hn
              (astep_LInv l (ALim true) I HI) eq_refl) as (H1 & H2 & H3).
  cbv zeta. split; [exact H1|]. split; [exact H2|].
  intros Hs Hk. exact (limit_applied_at_keyframe _ f H3 Ht H1 Hs Hk).
Qed.

(* one uninterrupted call of Write is the atomic events AW1; AAdj; AW2 (or
   AW2 alone when no new top layer appears) *)
Lemma write_layer_arun l f r m : LInv l -> 0 <= f_tid f < 16 -> 0 <= f_sid f < 16 ->
  fst (fst (write_layer l f r m)) =
  arun l (if (maxTid l <? f_tid f) || (maxSid l <? f_sid f)
          then [AW1 f; AAdj r m; AW2 f] else [AW2 f]).
Proof.
  intros HI Ht Hs. rewrite (write_layer_atomic l f r m HI Ht Hs). cbv zeta. cbn [fst].
  destruct ((maxTid l <? f_tid f) || (maxSid l <? f_sid f)); reflexivity.
Qed.

(* the split load/store schedule that lost the request before the word was
   updated by compare-and-swap (former finding F14): the same three steps as
   atomic events keep it *)
Lemma former_split_witness_kept :
  let l := split_witness_layer in
  limitSid (arun l [ALim true; AW2 split_witness_flags]) = true /\
  limitSid (arun l [AW2 split_witness_flags; ALim true]) = true.
Proof. vm_compute. auto. Qed.

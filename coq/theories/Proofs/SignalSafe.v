(* The invariant "a client that is in no group holds no permission" over
   ALL operation sequences of Model/Signal.v, and the absence of Panic
   (C11_nonmember_none, C12 signalling part). *)
From Coq Require Import ZArith List Bool String Arith Lia.
From Galene Require Import Generated.Guards Model.Signal Proofs.SignalFrame.
Import ListNotations.
Open Scope string_scope.

(* ------------------------------------------------------------------ *)
(* Facts about the generated guard table, valid for every kind         *)

Lemma lookup_guard_In : forall tbl t k g,
  lookup_guard tbl t k = Some g -> In (t, k, fst g, snd g) tbl.
Proof.
  induction tbl as [|[[[t' k'] m] ps] tbl IH]; intros t k g H; cbn in H; [discriminate|].
  destruct (String.eqb t t' && String.eqb k k') eqn:E.
  - apply andb_prop in E. destruct E as [E1 E2]. apply eqb_true in E1, E2. subst.
    inversion H; subst. left. reflexivity.
  - right. apply IH. exact H.
Qed.

Definition rows_of_type (t : str) (P : bool * list str -> bool) : bool :=
  forallb (fun r : guard_row =>
             let '(t', _, m, ps) := r in
             if String.eqb t t' then P (m, ps) else true) guards.

Lemma guard_of_prop : forall (P : bool * list str -> bool) t k,
  rows_of_type t P = true ->
  lookup_guard guards t "_" <> None ->
  P (guard_of t k) = true.
Proof.
  intros P t k Hall Hdef. unfold guard_of.
  unfold rows_of_type in Hall. rewrite forallb_forall in Hall.
  assert (Hrow : forall k' g, lookup_guard guards t k' = Some g -> P g = true).
  { intros k' g Hg. apply lookup_guard_In in Hg. apply Hall in Hg.
    rewrite String.eqb_refl in Hg. destruct g; exact Hg. }
  destruct (lookup_guard guards t k) eqn:E1; [eapply Hrow; exact E1|].
  destruct (lookup_guard guards t "_") eqn:E2; [eapply Hrow; exact E2|].
  congruence.
Qed.

Definition real_perms (g : bool * list str) : list str :=
  filter (fun p => negb (String.eqb p "@self")) (snd g).

Lemma required_unfold : forall t k, required t k = real_perms (guard_of t k).
Proof. reflexivity. Qed.

Lemma offer_requires_present : forall k, mem "present" (required "offer" k) = true.
Proof.
  intros k. rewrite required_unfold.
  apply (guard_of_prop (fun g => mem "present" (real_perms g))); [vm_compute; reflexivity|].
  vm_compute. discriminate.
Qed.

Lemma nm_chat : forall k, needs_member "chat" k = true.
Proof. intros k. apply (guard_of_prop fst); [vm_compute; reflexivity | vm_compute; discriminate]. Qed.
Lemma nm_usermessage : forall k, needs_member "usermessage" k = true.
Proof. intros k. apply (guard_of_prop fst); [vm_compute; reflexivity | vm_compute; discriminate]. Qed.
Lemma nm_groupaction : forall k, needs_member "groupaction" k = true.
Proof. intros k. apply (guard_of_prop fst); [vm_compute; reflexivity | vm_compute; discriminate]. Qed.
Lemma nm_useraction : forall k, needs_member "useraction" k = true.
Proof. intros k. apply (guard_of_prop fst); [vm_compute; reflexivity | vm_compute; discriminate]. Qed.

(* ------------------------------------------------------------------ *)
(* The invariant                                                      *)

Definition gp_inv (c : client) : Prop := c_group c = None -> c_perms c = [].
Definition Inv (w : world) : Prop := forall h c, get_client w h = Some c -> gp_inv c.

Lemma gp_inv_gp : forall c c', gp c = gp c' -> gp_inv c -> gp_inv c'.
Proof.
  unfold gp, gp_inv. intros c c' H Hc Hg. injection H as H1 H2.
  rewrite <- H2. apply Hc. rewrite H1. exact Hg.
Qed.

Lemma inv_frame : forall w w' x,
  Inv w -> gp_frame x w w' ->
  (forall h c', x = Some h -> get_client w' h = Some c' -> gp_inv c') ->
  Inv w'.
Proof.
  intros w w' x Hi Hf Hx h c' Hc'.
  destruct x as [hx|].
  - destruct (Nat.eq_dec h hx) as [->|Hne]; [eapply Hx; eauto|].
    assert (Hg : gpof w' h = gpof w h) by (apply Hf; congruence).
    unfold gpof in Hg. rewrite Hc' in Hg. cbn in Hg.
    destruct (get_client w h) as [c|] eqn:Ec; [|discriminate].
    assert (Hgp : gp c = gp c') by (cbn [option_map] in Hg; congruence).
    eapply gp_inv_gp; [exact Hgp | eapply Hi; eauto].
  - assert (Hg : gpof w' h = gpof w h) by (apply Hf; discriminate).
    unfold gpof in Hg. rewrite Hc' in Hg. cbn in Hg.
    destruct (get_client w h) as [c|] eqn:Ec; [|discriminate].
    assert (Hgp : gp c = gp c') by (cbn [option_map] in Hg; congruence).
    eapply gp_inv_gp; [exact Hgp | eapply Hi; eauto].
Qed.

Lemma inv_stable : forall w w', Inv w -> gp_stable w w' -> Inv w'.
Proof. intros w w' Hi Hs. eapply inv_frame; eauto. intros; discriminate. Qed.

Lemma inv_empty : Inv empty_world.
Proof. intros h c H. unfold get_client in H. cbn in H. destruct h; discriminate. Qed.

(* ------------------------------------------------------------------ *)
(* Tactics                                                            *)

Lemma gpf_peel : forall x w w1 w2, gp_frame x w1 w2 -> gp_frame x w w1 -> gp_frame x w w2.
Proof. intros. eapply gpf_trans; eauto. Qed.

Ltac gpf_one :=
  lazymatch goal with
  | |- gp_frame _ ?w ?w => apply gpf_refl
  | |- gp_frame _ _ (enq _ _ _) => eapply gpf_peel; [apply gpf_enq|]
  | |- gp_frame _ _ (send _ _ _) => eapply gpf_peel; [apply gpf_send|]
  | |- gp_frame _ _ (send_error _ _ _ _) => eapply gpf_peel; [apply gpf_send_error|]
  | |- gp_frame _ _ (terror _ _ _ _ _) => eapply gpf_peel; [apply gpf_terror|]
  | |- gp_frame _ _ (enq_all _ _ _) => eapply gpf_peel; [apply gpf_enq_all|]
  | |- gp_frame _ _ (send_all _ _ _) => eapply gpf_peel; [apply gpf_send_all|]
  | |- gp_frame _ _ (push_client_all _ _ _ _ _ _ _ _) => eapply gpf_peel; [apply gpf_push_client_all|]
  | |- gp_frame _ _ (upd_group _ _ _) => eapply gpf_peel; [apply gpf_upd_group|]
  | |- gp_frame _ _ (wset_tokens _ _ _) => eapply gpf_peel; [apply gpf_tokens|]
  | |- gp_frame _ _ (close_down_conn _ _ _) => eapply gpf_peel; [apply gpf_close_down_conn|]
  | |- gp_frame _ _ (del_down_conn _ _ _) => eapply gpf_peel; [apply gpf_del_down_conn|]
  | |- gp_frame _ _ (fail_up_connection _ _ _ _ _) => eapply gpf_peel; [apply gpf_fail_up_connection|]
  | |- gp_frame _ _ (request_conns _ _ _ _) => eapply gpf_peel; [apply gpf_request_conns|]
  | |- gp_frame _ _ (push_conn_notracks _ _ _ _) => eapply gpf_peel; [apply gpf_push_conn_notracks|]
  | |- gp_frame _ _ (fst (del_up_conn _ _ _ _)) => eapply gpf_peel; [apply gpf_del_up_conn|]
  | |- gp_frame _ _ (del_all_ups _ _ _) => eapply gpf_peel; [apply gpf_del_all_ups|]
  | |- gp_frame _ _ (drop_all_ups _ _ _ _) => eapply gpf_peel; [apply gpf_drop_all_ups|]
  | |- gp_frame _ _ (fold_left _ _ _) =>
      eapply gpf_peel; [apply gpf_fold; intros|]
  | |- gp_frame _ _ (upd _ _ _) =>
      eapply gpf_peel;
      [first [apply gpf_upd_pres; intro; reflexivity | apply gpf_upd_self]|]
  | |- gp_frame _ _ (if ?b then _ else _) => destruct b
  | |- gp_frame _ _ (match ?x with _ => _ end) => destruct x
  end.
Ltac gpf := unfold gp_stable; repeat gpf_one.

Ltac break_hyp H :=
  match type of H with
  | context [match ?x with _ => _ end] => destruct x eqn:?
  end.

(* destruct the scrutinee of a match occurring in any equation *)
Ltac break_eq :=
  match goal with
  | H : context [match ?x with _ => _ end] |- _ =>
      lazymatch type of H with
      | _ = _ => destruct x eqn:?
      end
  end.

Ltac inv_eqs :=
  repeat match goal with
    | H : inl _ = inl _ |- _ => inversion H; subst; clear H
    | H : inr _ = inr _ |- _ => inversion H; subst; clear H
    | H : inl _ = inr _ |- _ => discriminate H
    | H : inr _ = inl _ |- _ => discriminate H
    | H : (_, _) = (_, _) |- _ => inversion H; subst; clear H
    | H : Some _ = Some _ |- _ => inversion H; subst; clear H
    | H : Some _ = None |- _ => discriminate H
    | H : None = Some _ |- _ => discriminate H
    end.

Ltac finish_ok H :=
  unfold ok, refused, failed in H; try discriminate H;
  inversion H; subst; clear H; cbn [r_world r_err r_auth].

(* ------------------------------------------------------------------ *)
(* leaveGroup and the end of a connection                             *)

Lemma leave_group_frame : forall w h, gp_frame (Some h) w (leave_group w h).
Proof.
  intros. unfold leave_group.
  destruct (get_client w h) as [c|]; [|apply gpf_refl].
  destruct (c_group c); [|apply gpf_refl]. cbv zeta. gpf.
Qed.

Lemma get_client_enq_all : forall hs w a i,
  option_map gp (get_client (enq_all w hs a) i) = option_map gp (get_client w i).
Proof. intros. apply (gpf_enq_all None w hs a i). discriminate. Qed.

Lemma leave_group_self : forall w h c',
  get_client (leave_group w h) h = Some c' ->
  (exists c, get_client w h = Some c /\ c_group c = None /\ gp c' = gp c) \/
  (c_group c' = None /\ c_perms c' = []).
Proof.
  intros w h c' H. unfold leave_group in H.
  destruct (get_client w h) as [c|] eqn:Ec; [|congruence].
  destruct (c_group c) eqn:Eg.
  - right. cbv zeta in H. rewrite get_client_upd, Nat.eqb_refl in H.
    match type of H with option_map _ ?x = _ => destruct x end; [|discriminate].
    cbn in H. inversion H. subst. cbn. split; reflexivity.
  - left. exists c. rewrite Ec in H. inversion H. subst. auto.
Qed.

Lemma leave_group_inv : forall w h, Inv w -> Inv (leave_group w h).
Proof.
  intros w h Hi. eapply inv_frame; [exact Hi | apply leave_group_frame|].
  intros h' c' Hh Hc'. inversion Hh; subst h'.
  apply leave_group_self in Hc'. destruct Hc' as [(c & Hc & Hg & Hgp) | [Hg Hp]].
  - eapply gp_inv_gp; [symmetry; exact Hgp | eapply Hi; eauto].
  - intro. exact Hp.
Qed.

Lemma error_close_frame : forall w h e, gp_frame (Some h) w (error_close w h e).
Proof.
  intros. unfold error_close.
  destruct (get_client w h) as [c|]; [|apply gpf_refl]. cbv zeta.
  eapply gpf_peel; [apply gpf_upd_pres; intro; reflexivity|].
  eapply gpf_peel; [apply gpf_send|].
  eapply gpf_trans; [apply leave_group_frame|].
  destruct e; gpf.
Qed.

Lemma error_close_inv : forall w h e, Inv w -> Inv (error_close w h e).
Proof.
  intros w h e Hi. unfold error_close.
  destruct (get_client w h) as [c|]; [|exact Hi]. cbv zeta.
  apply leave_group_inv with (h := h) in Hi.
  eapply inv_stable; [exact Hi|].
  eapply gpf_peel; [apply gpf_upd_pres; intro; reflexivity|].
  eapply gpf_peel; [apply gpf_send|].
  destruct e; gpf.
Qed.

(* ------------------------------------------------------------------ *)
(* AddClient                                                          *)

Lemma add_client_frame : forall w h c g u pw tk w' e,
  add_client w h c g u pw tk = (w', e) -> gp_frame (Some h) w w'.
Proof.
  intros w h c g u pw tk w' e H. unfold add_client in H. cbv zeta in H.
  repeat break_eq; inv_eqs; gpf.
Qed.

(* ------------------------------------------------------------------ *)
(* Message handlers                                                   *)

Lemma has_present_member : forall c k,
  gp_inv c -> has_perms c "offer" k = true -> c_group c <> None.
Proof.
  intros c k Hc Hp Hg. unfold has_perms in Hp. rewrite subset_spec in Hp.
  assert (In "present" (c_perms c)).
  { apply Hp. apply mem_In. apply offer_requires_present. }
  rewrite (Hc Hg) in H. destruct H.
Qed.

Lemma handle_join_inv : forall w h c m r,
  Inv w -> get_client w h = Some c ->
  handle_join w h c m = Ok r -> Inv (r_world r).
Proof.
  intros w h c m r Hi Hc H. unfold handle_join in H.
  destruct (String.eqb (m_kind m) "leave").
  { repeat break_hyp H; finish_ok H; try exact Hi. apply leave_group_inv. exact Hi. }
  destruct (negb (String.eqb (m_kind m) "join")); [finish_ok H; exact Hi|].
  destruct (c_group c) eqn:Eg; [finish_ok H; exact Hi|].
  cbv zeta in H.
  match type of H with (if ?b then _ else _) = _ => destruct b end.
  { finish_ok H. eapply inv_stable; [exact Hi | gpf]. }
  destruct (add_client _ _ _ _ _ _ _) as [w1 oe] eqn:Ea.
  assert (Hf1 : gp_frame (Some h) w w1).
  { eapply gpf_trans; [|eapply add_client_frame; exact Ea].
    apply gpf_upd_pres. intro; reflexivity. }
  destruct oe as [e|].
  - destruct (join_fail_text e) as [ec v]. finish_ok H.
    eapply inv_frame; [exact Hi | |].
    + eapply gpf_peel; [apply gpf_send|]. eapply gpf_peel; [apply gpf_upd_self|]. exact Hf1.
    + intros h' c' Hh Hc'. inversion Hh; subst h'.
      unfold send in Hc'. rewrite !get_client_upd, Nat.eqb_refl in Hc'.
      destruct (get_client w1 h); [|discriminate]. cbn in Hc'. inversion Hc'. subst.
      intro. reflexivity.
  - finish_ok H.
    eapply inv_frame; [exact Hi | |].
    + eapply gpf_peel; [apply gpf_upd_self|]. exact Hf1.
    + intros h' c' Hh Hc'. inversion Hh; subst h'.
      rewrite get_client_upd, Nat.eqb_refl in Hc'.
      destruct (get_client w1 h); [|discriminate]. cbn in Hc'. inversion Hc'. subst.
      intro Hn. cbn in Hn. discriminate.
Qed.

(* every other handler leaves every (group, permissions) pair alone *)
Ltac handler_stable H :=
  cbv zeta in H; repeat break_eq; inv_eqs; finish_ok H; gpf.

Lemma handle_request_stable : forall w h c m r, handle_request w h c m = Ok r -> gp_stable w (r_world r).
Proof. intros w h c m r H. unfold handle_request in H. handler_stable H. Qed.

Lemma handle_request_stream_stable : forall w h c m r,
  handle_request_stream w h c m = Ok r -> gp_stable w (r_world r).
Proof. intros w h c m r H. unfold handle_request_stream in H. handler_stable H. Qed.

Lemma got_offer_stable : forall w h c m r, got_offer w h c m = Ok r -> gp_stable w (r_world r).
Proof. intros w h c m r H. unfold got_offer in H. handler_stable H. Qed.

Lemma handle_offer_stable : forall w h c m r, handle_offer w h c m = Ok r -> gp_stable w (r_world r).
Proof.
  intros w h c m r H. unfold handle_offer in H.
  destruct (is_empty (m_id m)); [finish_ok H; gpf|].
  destruct (negb (has_perms c "offer" (m_kind m))); [finish_ok H; gpf|].
  eapply got_offer_stable; exact H.
Qed.

Lemma handle_answer_stable : forall w h c m r, handle_answer w h c m = Ok r -> gp_stable w (r_world r).
Proof. intros w h c m r H. unfold handle_answer in H. handler_stable H. Qed.
Lemma handle_renegotiate_stable : forall w h c m r, handle_renegotiate w h c m = Ok r -> gp_stable w (r_world r).
Proof. intros w h c m r H. unfold handle_renegotiate in H. handler_stable H. Qed.
Lemma handle_close_stable : forall w h c m r, handle_close w h c m = Ok r -> gp_stable w (r_world r).
Proof. intros w h c m r H. unfold handle_close in H. handler_stable H. Qed.
Lemma handle_abort_stable : forall w h c m r, handle_abort w h c m = Ok r -> gp_stable w (r_world r).
Proof. intros w h c m r H. unfold handle_abort in H. handler_stable H. Qed.
Lemma handle_ice_stable : forall w h c m r, handle_ice w h c m = Ok r -> gp_stable w (r_world r).
Proof. intros w h c m r H. unfold handle_ice in H. handler_stable H. Qed.
Lemma handle_chat_stable : forall w h c m r, handle_chat w h c m = Ok r -> gp_stable w (r_world r).
Proof. intros w h c m r H. unfold handle_chat in H. handler_stable H. Qed.
Lemma handle_groupaction_stable : forall w h c m r, handle_groupaction w h c m = Ok r -> gp_stable w (r_world r).
Proof. intros w h c m r H. unfold handle_groupaction in H. handler_stable H. Qed.
Lemma handle_useraction_stable : forall w h c m r, handle_useraction w h c m = Ok r -> gp_stable w (r_world r).
Proof. intros w h c m r H. unfold handle_useraction in H. handler_stable H. Qed.

Lemma handle_client_message_inv : forall w h c m r,
  Inv w -> get_client w h = Some c ->
  handle_client_message w h c m = Ok r -> Inv (r_world r).
Proof.
  intros w h c m r Hi Hc H. unfold handle_client_message in H.
  match type of H with (if ?b then _ else _) = _ => destruct b end; [finish_ok H; exact Hi|].
  match type of H with (if ?b then _ else _) = _ => destruct b end; [finish_ok H; exact Hi|].
  cbv zeta in H.
  destruct (String.eqb (m_type m) "join"); [eapply handle_join_inv; eauto|].
  destruct (String.eqb (m_type m) "request");
    [eapply inv_stable; [exact Hi | eapply handle_request_stable; eauto]|].
  destruct (String.eqb (m_type m) "requestStream");
    [eapply inv_stable; [exact Hi | eapply handle_request_stream_stable; eauto]|].
  destruct (String.eqb (m_type m) "offer");
    [eapply inv_stable; [exact Hi | eapply handle_offer_stable; eauto]|].
  destruct (String.eqb (m_type m) "answer");
    [eapply inv_stable; [exact Hi | eapply handle_answer_stable; eauto]|].
  destruct (String.eqb (m_type m) "renegotiate");
    [eapply inv_stable; [exact Hi | eapply handle_renegotiate_stable; eauto]|].
  destruct (String.eqb (m_type m) "close");
    [eapply inv_stable; [exact Hi | eapply handle_close_stable; eauto]|].
  destruct (String.eqb (m_type m) "abort");
    [eapply inv_stable; [exact Hi | eapply handle_abort_stable; eauto]|].
  destruct (String.eqb (m_type m) "ice");
    [eapply inv_stable; [exact Hi | eapply handle_ice_stable; eauto]|].
  destruct (String.eqb (m_type m) "chat" || String.eqb (m_type m) "usermessage");
    [eapply inv_stable; [exact Hi | eapply handle_chat_stable; eauto]|].
  destruct (String.eqb (m_type m) "groupaction");
    [eapply inv_stable; [exact Hi | eapply handle_groupaction_stable; eauto]|].
  destruct (String.eqb (m_type m) "useraction");
    [eapply inv_stable; [exact Hi | eapply handle_useraction_stable; eauto]|].
  destruct (String.eqb (m_type m) "pong"); [finish_ok H; exact Hi|].
  destruct (String.eqb (m_type m) "ping"); [finish_ok H; eapply inv_stable; [exact Hi | gpf]|].
  finish_ok H. exact Hi.
Qed.

(* no Panic *)

Ltac break_goal :=
  match goal with
  | |- context [match ?x with _ => _ end] => destruct x eqn:?
  end.

Lemma handle_chat_safe : forall w h c m,
  (m_type m = "chat" \/ m_type m = "usermessage") -> handle_chat w h c m <> Panic.
Proof.
  intros w h c m Ht. unfold handle_chat.
  assert (Hn : needs_member (m_type m) (m_kind m) = true)
    by (destruct Ht as [-> | ->]; [apply nm_chat | apply nm_usermessage]).
  rewrite Hn. destruct (c_group c); [|discriminate].
  cbv zeta. repeat break_goal; discriminate.
Qed.

Lemma handle_groupaction_safe : forall w h c m, handle_groupaction w h c m <> Panic.
Proof.
  intros w h c m. unfold handle_groupaction. cbv zeta.
  rewrite nm_groupaction. destruct (c_group c); [|discriminate].
  repeat break_goal; discriminate.
Qed.

Lemma handle_useraction_safe : forall w h c m, handle_useraction w h c m <> Panic.
Proof.
  intros w h c m. unfold handle_useraction. cbv zeta.
  rewrite nm_useraction. destruct (c_group c); [|discriminate].
  repeat break_goal; discriminate.
Qed.

Lemma handle_offer_safe : forall w h c m, gp_inv c -> handle_offer w h c m <> Panic.
Proof.
  intros w h c m Hc. unfold handle_offer.
  destruct (is_empty (m_id m)); [discriminate|].
  destruct (has_perms c "offer" (m_kind m)) eqn:Hp; cbn [negb]; [|discriminate].
  pose proof (has_present_member c _ Hc Hp) as Hg.
  unfold got_offer. cbv zeta.
  destruct (c_group c); [|congruence].
  repeat break_goal; try discriminate; repeat break_eq; inv_eqs.
Qed.

Lemma handle_client_message_safe : forall w h c m,
  gp_inv c -> handle_client_message w h c m <> Panic.
Proof.
  intros w h c m Hc. unfold handle_client_message.
  match goal with |- (if ?b then _ else _) <> _ => destruct b end; [discriminate|].
  match goal with |- (if ?b then _ else _) <> _ => destruct b end; [discriminate|].
  cbv zeta.
  destruct (String.eqb (m_type m) "join").
  { unfold handle_join. cbv zeta. repeat break_goal; discriminate. }
  destruct (String.eqb (m_type m) "request").
  { unfold handle_request. cbv zeta. repeat break_goal; discriminate. }
  destruct (String.eqb (m_type m) "requestStream").
  { unfold handle_request_stream. cbv zeta. repeat break_goal; discriminate. }
  destruct (String.eqb (m_type m) "offer"); [apply handle_offer_safe; exact Hc|].
  destruct (String.eqb (m_type m) "answer").
  { unfold handle_answer. repeat break_goal; discriminate. }
  destruct (String.eqb (m_type m) "renegotiate").
  { unfold handle_renegotiate. repeat break_goal; discriminate. }
  destruct (String.eqb (m_type m) "close").
  { unfold handle_close. repeat break_goal; discriminate. }
  destruct (String.eqb (m_type m) "abort").
  { unfold handle_abort. repeat break_goal; discriminate. }
  destruct (String.eqb (m_type m) "ice").
  { unfold handle_ice. repeat break_goal; discriminate. }
  destruct (String.eqb (m_type m) "chat" || String.eqb (m_type m) "usermessage") eqn:Ec.
  { apply handle_chat_safe. apply orb_prop in Ec. destruct Ec as [E|E]; apply eqb_true in E; auto. }
  destruct (String.eqb (m_type m) "groupaction"); [apply handle_groupaction_safe|].
  destruct (String.eqb (m_type m) "useraction"); [apply handle_useraction_safe|].
  repeat break_goal; discriminate.
Qed.

(* ------------------------------------------------------------------ *)
(* Actions                                                            *)

Lemma handle_action_safe : forall w h c a, handle_action w h c a <> Panic.
Proof.
  intros w h c a. unfold handle_action. destruct a; cbv zeta; repeat break_goal; discriminate.
Qed.

Lemma opt_str_eqb_true : forall a b, opt_str_eqb a b = true -> exists g, a = Some g /\ b = Some g.
Proof.
  intros [x|] [y|] H; cbn in H; try discriminate.
  apply eqb_true in H. subst. eauto.
Qed.

Lemma handle_action_inv : forall w h c a r,
  Inv w -> get_client w h = Some c ->
  handle_action w h c a = Ok r -> Inv (r_world r).
Proof.
  intros w h c a r Hi Hc H. unfold handle_action in H. destruct a.
  - handler_stable H; (eapply inv_stable; [exact Hi | gpf]).
  - cbv zeta in H. repeat break_hyp H; finish_ok H; try exact Hi.
    eapply inv_stable; [exact Hi|]. apply gpf_fold. intros. destruct (_ && _); gpf.
  - handler_stable H; (eapply inv_stable; [exact Hi | gpf]).
  - handler_stable H; (eapply inv_stable; [exact Hi | gpf]).
  - cbv zeta in H. repeat break_hyp H; finish_ok H;
      (eapply inv_stable; [exact Hi | gpf]).
  - (* AChangePerms *)
    destruct (negb (opt_str_eqb (c_group c) (Some g))) eqn:Eg; [finish_ok H; exact Hi|].
    apply negb_false_iff in Eg. apply opt_str_eqb_true in Eg. destruct Eg as (g' & Eg & _).
    cbv zeta in H. destruct (change_perms _ _ _) as [p|]; [|finish_ok H; exact Hi].
    finish_ok H.
    eapply inv_frame; [exact Hi | |].
    + eapply gpf_peel; [apply gpf_enq|]. apply gpf_upd_self.
    + intros h' c' Hh Hc'. inversion Hh; subst h'.
      unfold enq in Hc'. rewrite !get_client_upd, Nat.eqb_refl, Hc in Hc'.
      cbn in Hc'. inversion Hc'. subst. intro Hn. cbn in Hn. congruence.
  - (* APermsChanged *)
    destruct (c_group c); [|finish_ok H; exact Hi].
    cbv zeta in H. finish_ok H. eapply inv_stable; [exact Hi|].
    destruct (mem "present" (c_perms c)); gpf.
  - finish_ok H. exact Hi.
Qed.

Lemma run_batch_inv : forall q w h r,
  Inv w -> run_batch q w h = Ok r -> Inv (r_world r).
Proof.
  induction q as [|a q IH]; intros w h r Hi H; cbn [run_batch] in H.
  - finish_ok H. exact Hi.
  - destruct (get_client w h) as [c|] eqn:Ec; [|finish_ok H; exact Hi].
    destruct (handle_action w h c a) as [res|] eqn:Ea; [|discriminate].
    pose proof (handle_action_inv _ _ _ _ _ Hi Ec Ea) as Hi'.
    destruct (r_err res); try (inversion H; subst; exact Hi').
    eapply IH; eauto.
Qed.

Lemma run_batch_safe : forall q w h, run_batch q w h <> Panic.
Proof.
  induction q as [|a q IH]; intros w h; cbn [run_batch]; [discriminate|].
  destruct (get_client w h) as [c|]; [|discriminate].
  destruct (handle_action w h c a) as [res|] eqn:Ea; [|exfalso; eapply handle_action_safe; eauto].
  destruct (r_err res); try discriminate. apply IH.
Qed.

(* ------------------------------------------------------------------ *)
(* Steps                                                              *)

Lemma finish_inv : forall o h wrap w' r,
  (forall res, o = Ok res -> Inv (r_world res)) ->
  finish o h wrap = Running w' r -> Inv w'.
Proof.
  intros o h wrap w' r Ho H. unfold finish in H.
  destruct o as [res|]; [|discriminate].
  specialize (Ho res eq_refl).
  destruct (r_err res); inversion H; subst; try exact Ho; apply error_close_inv; exact Ho.
Qed.

Lemma finish_safe : forall o h wrap, o <> Panic -> finish o h wrap <> Crashed.
Proof.
  intros o h wrap Ho. unfold finish. destruct o as [res|]; [|congruence].
  destruct (r_err res); discriminate.
Qed.

Lemma step_msg_inv : forall w h m w' r, Inv w -> step_msg w h m = Running w' r -> Inv w'.
Proof.
  intros w h m w' r Hi H. unfold step_msg in H.
  destruct (get_client w h) as [c|] eqn:Ec; [|inversion H; subst; exact Hi].
  destruct (c_closed c); [inversion H; subst; exact Hi|].
  eapply finish_inv; [|exact H]. intros res Hr. eapply handle_client_message_inv; eauto.
Qed.

Lemma step_pump_inv : forall w h w' r, Inv w -> step_pump w h = Running w' r -> Inv w'.
Proof.
  intros w h w' r Hi H. unfold step_pump in H.
  destruct (get_client w h) as [c|] eqn:Ec; [|inversion H; subst; exact Hi].
  destruct (c_closed c); [inversion H; subst; exact Hi|].
  cbv zeta in H. eapply finish_inv; [|exact H]. intros res Hr.
  eapply run_batch_inv; [|exact Hr].
  eapply inv_stable; [exact Hi|]. apply gpf_upd_pres. intro; reflexivity.
Qed.

Lemma step_msg_safe : forall w h m, Inv w -> step_msg w h m <> Crashed.
Proof.
  intros w h m Hi. unfold step_msg.
  destruct (get_client w h) as [c|] eqn:Ec; [|discriminate].
  destruct (c_closed c); [discriminate|].
  apply finish_safe. apply handle_client_message_safe. eapply Hi; eauto.
Qed.

Lemma step_pump_safe : forall w h, step_pump w h <> Crashed.
Proof.
  intros w h. unfold step_pump.
  destruct (get_client w h) as [c|]; [|discriminate].
  destruct (c_closed c); [discriminate|].
  cbv zeta. apply finish_safe. apply run_batch_safe.
Qed.

Lemma pump_round_inv : forall hs w w', Inv w -> pump_round hs w = Some w' -> Inv w'.
Proof.
  induction hs as [|h hs IH]; intros w w' Hi H; cbn [pump_round] in H.
  - inversion H; subst; exact Hi.
  - destruct (get_client w h) as [c|]; [|eapply IH; eauto].
    destruct (runnable c); [|eapply IH; eauto].
    destruct (step_pump w h) as [w1 r1|] eqn:Es; [|discriminate].
    eapply IH; [|exact H]. eapply step_pump_inv; eauto.
Qed.

Lemma pump_round_safe : forall hs w, pump_round hs w <> None.
Proof.
  induction hs as [|h hs IH]; intros w; cbn [pump_round]; [discriminate|].
  destruct (get_client w h) as [c|]; [|apply IH].
  destruct (runnable c); [|apply IH].
  destruct (step_pump w h) as [w1 r1|] eqn:Es; [apply IH|].
  exfalso. eapply step_pump_safe; eauto.
Qed.

Lemma quiesce_inv : forall fuel w w', Inv w -> quiesce fuel w = Some w' -> Inv w'.
Proof.
  induction fuel as [|f IH]; intros w w' Hi H; cbn [quiesce] in H.
  - inversion H; subst; exact Hi.
  - destruct (existsb runnable (w_clients w)); [|inversion H; subst; exact Hi].
    destruct (pump_round _ w) as [w1|] eqn:Ep; [|discriminate].
    eapply IH; [|exact H]. eapply pump_round_inv; eauto.
Qed.

Lemma quiesce_safe : forall fuel w, quiesce fuel w <> None.
Proof.
  induction fuel as [|f IH]; intros w; cbn [quiesce]; [discriminate|].
  destruct (existsb runnable (w_clients w)); [|discriminate].
  destruct (pump_round _ w) as [w1|] eqn:Ep; [apply IH|].
  exfalso. eapply pump_round_safe; eauto.
Qed.

Lemma get_client_app_new : forall w id h c,
  get_client (wset_clients w (w_clients w ++ [new_client id])) h = Some c ->
  get_client w h = Some c \/ c = new_client id.
Proof.
  intros w id h c H. unfold get_client in *. cbn in H.
  destruct (Nat.lt_ge_cases h (List.length (w_clients w))) as [Hl|Hl].
  - rewrite nth_error_app1 in H by exact Hl. auto.
  - rewrite nth_error_app2 in H by exact Hl.
    destruct (h - List.length (w_clients w))%nat as [|n]; cbn in H.
    + inversion H. auto.
    + destruct n; discriminate.
Qed.

Theorem step_inv : forall w o w' r, Inv w -> step w o = Running w' r -> Inv w'.
Proof.
  intros w o w' r Hi H. destruct o; cbn [step] in H.
  - destruct (find_group w name); inversion H; subst; exact Hi.
  - inversion H; subst. intros h c Hc. apply get_client_app_new in Hc.
    destruct Hc as [Hc | ->]; [eapply Hi; eauto | intro; reflexivity].
  - eapply step_msg_inv; eauto.
  - eapply step_pump_inv; eauto.
  - unfold step_disconnect in H.
    destruct (get_client w h) as [c|]; [|inversion H; subst; exact Hi].
    destruct (c_closed c); inversion H; subst; [exact Hi | apply error_close_inv; exact Hi].
  - destruct (quiesce 1000 w) as [w1|] eqn:Eq; [|discriminate].
    inversion H; subst. eapply quiesce_inv; eauto.
  - destruct (get_client w h) as [c|]; inversion H; subst; [|exact Hi].
    eapply inv_stable; [exact Hi|]. apply gpf_upd_pres. intro; reflexivity.
Qed.

Theorem step_safe : forall w o, Inv w -> step w o <> Crashed.
Proof.
  intros w o Hi. destruct o; cbn [step].
  - destruct (find_group w name); discriminate.
  - discriminate.
  - apply step_msg_safe; exact Hi.
  - apply step_pump_safe.
  - unfold step_disconnect. destruct (get_client w h) as [c|]; [|discriminate].
    destruct (c_closed c); discriminate.
  - destruct (quiesce 1000 w) eqn:Eq; [discriminate|]. exfalso. eapply quiesce_safe; eauto.
  - destruct (get_client w h); discriminate.
Qed.

(* every history, from every state that satisfies the invariant *)
Theorem run_ops_safe_inv : forall ops w, Inv w ->
  exists w', run_ops w ops = Some w' /\ Inv w'.
Proof.
  induction ops as [|o ops IH]; intros w Hi; cbn [run_ops].
  - eauto.
  - destruct (step w o) as [w1 r1|] eqn:Es.
    + apply IH. eapply step_inv; eauto.
    + exfalso. eapply step_safe; eauto.
Qed.

(* C12, signalling part: for ALL message/action sequences (any number of
   groups, clients, any schedule of message reads and queue services, any
   negotiation outcome) the model never reaches Panic *)
Lemma signalling_safe : forall ops, run_ops empty_world ops <> None.
Proof.
  intros ops. destruct (run_ops_safe_inv ops empty_world inv_empty) as (w' & H & _).
  congruence.
Qed.

(* ... and from every state satisfying the invariant, whatever the
   connection tables contain *)
Lemma signalling_safe_from : forall w ops, Inv w -> run_ops w ops <> None.
Proof.
  intros w ops Hi. destruct (run_ops_safe_inv ops w Hi) as (w' & H & _). congruence.
Qed.

Lemma signalling_step_safe : forall w o, Inv w -> step w o <> Crashed.
Proof. exact step_safe. Qed.

(* C11: a client that is in no group holds no permission, in every
   reachable state *)
Lemma nonmember_none : forall ops w h c,
  run_ops empty_world ops = Some w -> get_client w h = Some c ->
  c_group c = None -> c_perms c = [].
Proof.
  intros ops w h c Hr Hc Hg.
  destruct (run_ops_safe_inv ops empty_world inv_empty) as (w' & H & Hi).
  rewrite Hr in H. inversion H; subst. eapply Hi; eauto.
Qed.

(* ------------------------------------------------------------------ *)
(* Connection ids the client does not have (never created, closed, or
   another client's): no message that names one has any effect beyond a
   `close` sent to the sender itself, and none panics (the latter is part of
   [signalling_safe]; these lemmas say what happens instead) *)

Definition no_conn (c : client) (id : str) : Prop :=
  find_up c id = None /\ find_down c id = None.

Lemma ice_any_id : forall w h c m,
  is_empty (m_id m) = false -> m_candidate m = true -> handle_ice w h c m = ok w.
Proof.
  intros w h c m Hi Hc. unfold handle_ice. rewrite Hi, Hc. cbn [negb].
  destruct (find_up c (m_id m)); [reflexivity|]. destruct (find_down c (m_id m)); reflexivity.
Qed.

Lemma unknown_id_harmless : forall w h c m,
  get_client w h = Some c -> is_empty (m_id m) = false -> no_conn c (m_id m) ->
  (m_candidate m = true -> handle_ice w h c m = ok w) /\
  handle_renegotiate w h c m = ok w /\
  handle_close w h c m = ok w /\
  handle_abort w h c m = ok (close_down_conn w h (m_id m)) /\
  handle_answer w h c m = ok (close_down_conn w h (m_id m)) /\
  (exists a, handle_request_stream w h c m = failed w EInternal a).
Proof.
  intros w h c m Hc Hi [Hu Hd]. repeat split.
  - intro Hcand. apply ice_any_id; assumption.
  - unfold handle_renegotiate. rewrite Hi, Hd. reflexivity.
  - unfold handle_close, del_up_conn. rewrite Hi, Hc, Hu. reflexivity.
  - unfold handle_abort. rewrite Hi. reflexivity.
  - unfold handle_answer. rewrite Hi, Hd. reflexivity.
  - unfold handle_request_stream. rewrite Hd. eexists. reflexivity.
Qed.

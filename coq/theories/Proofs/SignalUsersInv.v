(* C14, part 3: the invariant.

   [Sinv]: the structure (group names distinct; a client's group field and
   the member lists agree; members are live connections with distinct ids;
   the recorder's placeholder id is nobody's id).

   [Vinv]: the views.  For a client in no group, its queue leaves nothing
   behind ([nm_ok]).  For a member M of g and every key id: once M has
   served what is queued for it, its entry for id is the TRUE entry of id
   in g -- unless the client with that id still has the announcement of a
   permission change ahead of it ([dirty]), or (id, g) is the pair that
   the step under way is about to announce ([exc]).

   While client [ph] serves a batch, the part of the batch not yet handled
   ([pend]) counts as the front of its queue. *)
From Coq Require Import ZArith List Bool String Arith Lia.
From Galene Require Import Generated.Guards Model.Signal Model.SignalUsers
  Proofs.SignalFrame Proofs.SignalSafe Proofs.SignalUsersBase Proofs.SignalUsersFrame.
Import ListNotations.
Open Scope string_scope.
Open Scope list_scope.

Definition effq (ph : nat) (pend : list action) (h : nat) (c : client) : list action :=
  if Nat.eqb h ph then pend ++ c_queue c else c_queue c.

Definition sentof (s : seenlog) (h : nat) (c : client) : list outmsg := s h ++ c_out c.

Definition dirty (w : world) (ph : nat) (pend : list action) (g id : str) : Prop :=
  exists x cx, In x (members w g) /\ get_client w x = Some cx /\ c_id cx = id /\
               In APermsChanged (effq ph pend x cx).

Record Sinv (w : world) : Prop := mkSinv {
  s_names : NoDup (map g_name (w_groups w));
  s_memb : forall h c g, get_client w h = Some c -> (c_group c = Some g <-> In h (members w g));
  s_valid : forall g h, In h (members w g) -> exists c, get_client w h = Some c;
  s_nodup : forall g, NoDup (members w g);
  s_closed : forall h c, get_client w h = Some c -> c_closed c = true -> c_group c = None;
  s_ids : forall g h1 h2 c1 c2, In h1 (members w g) -> In h2 (members w g) ->
            get_client w h1 = Some c1 -> get_client w h2 = Some c2 -> c_id c1 = c_id c2 -> h1 = h2;
  s_noq : forall h c, get_client w h = Some c -> c_id c <> rec_id
}.

Definition exc_is (exc : option (str * str)) (g id : str) : Prop := exc = Some (g, id).

Record Vinv (w : world) (s : seenlog) (ph : nat) (pend : list action)
       (exc : option (str * str)) : Prop := mkVinv {
  v_seen : forall h, get_client w h = None -> s h = [];
  v_nm : forall h c id, get_client w h = Some c -> c_closed c = false -> c_group c = None ->
           nm_ok (effq ph pend h c) (key_sent id (sentof s h c) = None);
  v_view : forall h c g id, get_client w h = Some c -> c_group c = Some g ->
           key_view id (Some g) (sentof s h c) (effq ph pend h c) = truth w g id \/
           dirty w ph pend g id \/ exc_is exc g id
}.

Definition Inv_p w s ph pend exc : Prop := Sinv w /\ Vinv w s ph pend exc.
Definition InvU (w : world) (s : seenlog) : Prop := Inv_p w s 0 [] None.

Lemma effq_nil : forall ph h c, effq ph [] h c = c_queue c.
Proof. intros. unfold effq. destruct (Nat.eqb h ph); reflexivity. Qed.

Lemma effq_other : forall ph pend h c, h <> ph -> effq ph pend h c = c_queue c.
Proof. intros. unfold effq. apply Nat.eqb_neq in H. rewrite H. reflexivity. Qed.

Lemma effq_self : forall ph pend c, effq ph pend ph c = pend ++ c_queue c.
Proof. intros. unfold effq. rewrite Nat.eqb_refl. reflexivity. Qed.

(* the effective queue follows an extension of the real queue *)
Lemma effq_ext : forall ph pend h c c' qa,
  c_queue c' = c_queue c ++ qa -> effq ph pend h c' = effq ph pend h c ++ qa.
Proof.
  intros. unfold effq. destruct (Nat.eqb h ph); rewrite H; [rewrite app_assoc|]; reflexivity.
Qed.

(* ------------------------------------------------------------------ *)
(* get_member and truth                                                *)

Definition has_id (w : world) (id : str) (h : nat) : bool :=
  match get_client w h with Some c => String.eqb (c_id c) id | None => false end.

Lemma get_member_unfold : forall w g id, get_member w g id = find (has_id w id) (members w g).
Proof. reflexivity. Qed.

Lemma find_unique : forall (P : nat -> bool) l x,
  In x l -> P x = true -> (forall y, In y l -> P y = true -> y = x) -> find P l = Some x.
Proof.
  intros P l. induction l as [|a l IH]; intros x Hin Hp Hu; [destruct Hin|].
  cbn [find]. destruct (P a) eqn:E.
  - f_equal. apply Hu; [left; reflexivity | exact E].
  - destruct Hin as [-> | Hin]; [congruence|].
    apply IH; auto. intros. apply Hu; [right|]; assumption.
Qed.

Lemma find_none : forall (P : nat -> bool) l, (forall y, In y l -> P y = false) -> find P l = None.
Proof.
  intros P l. induction l as [|a l IH]; intros H; [reflexivity|]. cbn [find].
  rewrite (H a) by (left; reflexivity). apply IH. intros. apply H. right. assumption.
Qed.

Lemma get_member_of : forall w g x cx, Sinv w ->
  In x (members w g) -> get_client w x = Some cx -> get_member w g (c_id cx) = Some x.
Proof.
  intros w g x cx HS Hin Hc. rewrite get_member_unfold. apply find_unique; [exact Hin | |].
  - unfold has_id. rewrite Hc. apply String.eqb_refl.
  - intros y Hy Hp. unfold has_id in Hp. destruct (get_client w y) as [cy|] eqn:Ey; [|discriminate].
    apply eqb_true in Hp. eapply (s_ids w HS); eauto.
Qed.

Lemma get_member_some : forall w g id x, get_member w g id = Some x ->
  In x (members w g) /\ exists cx, get_client w x = Some cx /\ c_id cx = id.
Proof.
  intros w g id x H. rewrite get_member_unfold in H. apply find_some in H. destruct H as [Hin Hp].
  split; [exact Hin|]. unfold has_id in Hp. destruct (get_client w x) as [cx|]; [|discriminate].
  exists cx. split; [reflexivity | apply eqb_true; exact Hp].
Qed.

Lemma truth_of_member : forall w g x cx, Sinv w ->
  In x (members w g) -> get_client w x = Some cx ->
  truth w g (c_id cx) = Some (c_username cx, c_perms cx).
Proof.
  intros w g x cx HS Hin Hc. unfold truth. rewrite (get_member_of w g x cx HS Hin Hc), Hc. reflexivity.
Qed.

(* truth only reads ids, usernames and permissions of members, the member
   lists and the recording flags *)
Lemma truth_ext : forall w w' g id,
  members w' g = members w g -> recording w' g = recording w g ->
  (forall x, In x (members w g) ->
     option_map (fun c => (c_id c, c_username c, c_perms c)) (get_client w' x) =
     option_map (fun c => (c_id c, c_username c, c_perms c)) (get_client w x)) ->
  truth w' g id = truth w g id.
Proof.
  intros w w' g id Hm Hr Hc. unfold truth. rewrite !get_member_unfold, Hm, Hr.
  assert (Hf : find (has_id w' id) (members w g) = find (has_id w id) (members w g)).
  { clear Hm. induction (members w g) as [|a l IH]; [reflexivity|]. cbn [find].
    assert (Ha : has_id w' id a = has_id w id a).
    { unfold has_id. specialize (Hc a (or_introl eq_refl)).
      destruct (get_client w' a), (get_client w a); cbn in Hc; try discriminate; [|reflexivity].
      inversion Hc. reflexivity. }
    rewrite Ha. destruct (has_id w id a); [reflexivity|]. apply IH.
    intros. apply Hc. right. assumption. }
  rewrite Hf. destruct (find (has_id w id) (members w g)) as [x|] eqn:E; [|reflexivity].
  apply find_some in E. destruct E as [Hin _]. specialize (Hc x Hin).
  destruct (get_client w' x), (get_client w x); cbn in Hc; try discriminate; [|reflexivity].
  inversion Hc. reflexivity.
Qed.

(* ------------------------------------------------------------------ *)
(* Structure: preserved by anything that keeps (id, group, closed) of
   every client, the member lists and the group names                  *)

Definition skel (c : client) : str * option str * bool := (c_id c, c_group c, c_closed c).

Lemma sinv_ext_names : forall w w',
  Sinv w ->
  NoDup (map g_name (w_groups w')) ->
  (forall g, members w' g = members w g) ->
  (forall i, option_map skel (get_client w' i) = option_map skel (get_client w i)) ->
  Sinv w'.
Proof.
  intros w w' HS Hn Hm Hc.
  assert (Hsk : forall i c', get_client w' i = Some c' ->
                  exists c, get_client w i = Some c /\ skel c' = skel c).
  { intros i c' E. specialize (Hc i). rewrite E in Hc.
    destruct (get_client w i) as [c|]; cbn in Hc; [|discriminate].
    exists c. split; [reflexivity|]. congruence. }
  constructor.
  - exact Hn.
  - intros h c' g E. destruct (Hsk h c' E) as (c & Ec & Es). rewrite Hm.
    unfold skel in Es. replace (c_group c') with (c_group c) by congruence.
    apply (s_memb w HS); exact Ec.
  - intros g h Hin. rewrite Hm in Hin. destruct (s_valid w HS g h Hin) as (c & Ec).
    specialize (Hc h). rewrite Ec in Hc. destruct (get_client w' h) as [c'|]; [eauto | discriminate].
  - intros g. rewrite Hm. apply (s_nodup w HS).
  - intros h c' E Hcl. destruct (Hsk h c' E) as (c & Ec & Es). unfold skel in Es.
    replace (c_group c') with (c_group c) by congruence.
    apply (s_closed w HS h c Ec). congruence.
  - intros g h1 h2 c1' c2' H1 H2 E1 E2 Hid. rewrite Hm in H1, H2.
    destruct (Hsk h1 c1' E1) as (c1 & Ec1 & Es1). destruct (Hsk h2 c2' E2) as (c2 & Ec2 & Es2).
    unfold skel in *. eapply (s_ids w HS g h1 h2 c1 c2); eauto. congruence.
  - intros h c' E. destruct (Hsk h c' E) as (c & Ec & Es). unfold skel in Es.
    replace (c_id c') with (c_id c) by congruence. apply (s_noq w HS h c Ec).
Qed.

Lemma sinv_ext : forall w w',
  Sinv w ->
  map g_name (w_groups w') = map g_name (w_groups w) ->
  (forall g, members w' g = members w g) ->
  (forall i, option_map skel (get_client w' i) = option_map skel (get_client w i)) ->
  Sinv w'.
Proof.
  intros w w' HS Hn Hm Hc. eapply sinv_ext_names; eauto. rewrite Hn. apply (s_names w HS).
Qed.

Lemma cext_skel : forall c c', cext c c' -> skel c' = skel c.
Proof. intros c c' [H _]. unfold core in H. unfold skel. congruence. Qed.

Lemma neutral_skel : forall w w' i, neutral w w' ->
  option_map skel (get_client w' i) = option_map skel (get_client w i).
Proof.
  intros w w' i [H _]. specialize (H i). destruct (get_client w i) as [c|].
  - destruct H as (c' & E & Hx). rewrite E. cbn. f_equal. apply cext_skel. exact Hx.
  - rewrite H. reflexivity.
Qed.

Lemma sinv_neutral : forall w w', Sinv w -> neutral w w' -> Sinv w'.
Proof.
  intros w w' HS Hn. eapply sinv_ext; [exact HS | | |].
  - apply gsame_names. apply Hn.
  - intros. apply gsame_members. apply Hn.
  - intros. apply neutral_skel. exact Hn.
Qed.

(* ------------------------------------------------------------------ *)
(* Views under a neutral step                                          *)

Lemma cext_sent : forall s h c c' id, cext c c' -> key_sent id (sentof s h c') = key_sent id (sentof s h c).
Proof.
  intros s h c c' id [_ (qa & oa & _ & _ & Ho & Hm)]. unfold sentof.
  rewrite Ho, app_assoc. apply key_sent_nmsg. exact Hm.
Qed.

Lemma cext_view : forall s ph pend h c c' id cg, cext c c' ->
  key_view id cg (sentof s h c') (effq ph pend h c') = key_view id cg (sentof s h c) (effq ph pend h c).
Proof.
  intros s ph pend h c c' id cg Hx. pose proof (cext_sent s h c c' id Hx) as Hs.
  destruct Hx as [_ (qa & oa & Hq & Hn & _ & _)].
  rewrite (effq_ext ph pend h c c' qa Hq), key_view_app. unfold key_view. rewrite Hs.
  apply fold_act_nact. exact Hn.
Qed.

Lemma cext_nm : forall ph pend h c c' (P : Prop), cext c c' ->
  nm_ok (effq ph pend h c') P = nm_ok (effq ph pend h c) P.
Proof.
  intros ph pend h c c' P [_ (qa & oa & Hq & Hn & _ & _)].
  rewrite (effq_ext ph pend h c c' qa Hq). apply nm_ok_app_nact. exact Hn.
Qed.

Lemma cext_dirty_in : forall ph pend h c c', cext c c' ->
  In APermsChanged (effq ph pend h c) -> In APermsChanged (effq ph pend h c').
Proof.
  intros ph pend h c c' [_ (qa & oa & Hq & _)] Hin.
  rewrite (effq_ext ph pend h c c' qa Hq). apply in_or_app. left. exact Hin.
Qed.

Lemma neutral_truth : forall w w' g id, neutral w w' -> truth w' g id = truth w g id.
Proof.
  intros w w' g id Hn. apply truth_ext.
  - apply gsame_members, Hn.
  - apply gsame_recording, Hn.
  - intros x _. destruct Hn as [H _]. specialize (H x). destruct (get_client w x) as [c|].
    + destruct H as (c' & E & [Hc _]). rewrite E. cbn. unfold core in Hc. f_equal. congruence.
    + rewrite H. reflexivity.
Qed.

Lemma neutral_dirty : forall w w' ph pend g id, neutral w w' ->
  dirty w ph pend g id -> dirty w' ph pend g id.
Proof.
  intros w w' ph pend g id Hn (x & cx & Hin & Hc & Hid & Hq).
  destruct (neutral_client w w' x cx Hn Hc) as (cx' & Hc' & Hx).
  exists x, cx'. rewrite (gsame_members w w' g) by apply Hn.
  split; [exact Hin|]. split; [exact Hc'|]. split.
  - rewrite (core_id cx cx') by apply Hx. exact Hid.
  - eapply cext_dirty_in; eauto.
Qed.

Lemma inv_neutral : forall w w' s ph pend exc,
  Inv_p w s ph pend exc -> neutral w w' -> Inv_p w' s ph pend exc.
Proof.
  intros w w' s ph pend exc [HS HV] Hn. split; [eapply sinv_neutral; eauto|].
  constructor.
  - intros h Hc. apply (v_seen _ _ _ _ _ HV). destruct Hn as [H _]. specialize (H h).
    destruct (get_client w h) as [c|]; [|reflexivity]. destruct H as (c' & E & _). congruence.
  - intros h c' id Hc' Hcl Hg.
    destruct (neutral_client_inv w w' h c' Hn Hc') as (c & Hc & Hx).
    rewrite (cext_nm ph pend h c c' _ Hx), (cext_sent s h c c' id Hx).
    apply (v_nm _ _ _ _ _ HV h c id Hc).
    + rewrite <- (core_closed c c') by apply Hx. exact Hcl.
    + rewrite <- (core_group c c') by apply Hx. exact Hg.
  - intros h c' g id Hc' Hg.
    destruct (neutral_client_inv w w' h c' Hn Hc') as (c & Hc & Hx).
    rewrite (cext_view s ph pend h c c' id (Some g) Hx), (neutral_truth w w' g id Hn).
    assert (Hg0 : c_group c = Some g) by (rewrite <- (core_group c c') by apply Hx; exact Hg).
    destruct (v_view _ _ _ _ _ HV h c g id Hc Hg0) as [H | [H | H]]; [left; exact H | | right; right; exact H].
    right. left. eapply neutral_dirty; eauto.
Qed.

Lemma inv_weaken_exc : forall w s ph pend e, Inv_p w s ph pend None -> Inv_p w s ph pend e.
Proof.
  intros w s ph pend e [HS HV]. split; [exact HS|]. constructor.
  - apply (v_seen _ _ _ _ _ HV).
  - apply (v_nm _ _ _ _ _ HV).
  - intros h c g id Hc Hg. destruct (v_view _ _ _ _ _ HV h c g id Hc Hg) as [H | [H | H]]; auto.
    discriminate H.
Qed.

(* ------------------------------------------------------------------ *)
(* Primitive updates, client by client                                 *)

Lemma get_client_upd_self : forall w h f c, get_client w h = Some c ->
  get_client (upd w h f) h = Some (f c).
Proof. intros. rewrite get_client_upd, Nat.eqb_refl, H. reflexivity. Qed.

Lemma get_client_upd_other : forall w h f i, i <> h -> get_client (upd w h f) i = get_client w i.
Proof. intros. rewrite get_client_upd. apply Nat.eqb_neq in H. rewrite H. reflexivity. Qed.

Lemma get_client_send_self : forall w h m c, get_client w h = Some c ->
  get_client (send w h m) h = Some (set_out c (c_out c ++ [m])).
Proof. intros. unfold send. rewrite get_client_upd, Nat.eqb_refl, H. reflexivity. Qed.
Lemma get_client_send_other : forall w h m i, i <> h -> get_client (send w h m) i = get_client w i.
Proof. intros. unfold send. apply get_client_upd_other. assumption. Qed.
Lemma get_client_enq_self : forall w h a c, get_client w h = Some c ->
  get_client (enq w h a) h = Some (set_queue c (c_queue c ++ [a])).
Proof. intros. unfold enq. rewrite get_client_upd, Nat.eqb_refl, H. reflexivity. Qed.
Lemma get_client_enq_other : forall w h a i, i <> h -> get_client (enq w h a) i = get_client w i.
Proof. intros. unfold enq. apply get_client_upd_other. assumption. Qed.

Lemma members_upd : forall w h f g, members (upd w h f) g = members w g.
Proof. reflexivity. Qed.
Lemma recording_upd : forall w h f g, recording (upd w h f) g = recording w g.
Proof. reflexivity. Qed.

Lemma get_client_enq_all : forall hs w a i, NoDup hs ->
  get_client (enq_all w hs a) i =
  if existsb (Nat.eqb i) hs
  then option_map (fun c => set_queue c (c_queue c ++ [a])) (get_client w i)
  else get_client w i.
Proof.
  induction hs as [|x hs IH]; intros w a i Hn; [reflexivity|].
  inversion Hn; subst. unfold enq_all in *. cbn [fold_left existsb].
  rewrite IH by assumption. unfold enq. rewrite !get_client_upd.
  destruct (Nat.eqb_spec i x) as [->|Hne]; cbn [orb].
  - assert (Hx : existsb (Nat.eqb x) hs = false).
    { destruct (existsb (Nat.eqb x) hs) eqn:E; [|reflexivity].
      apply existsb_exists in E. destruct E as (y & Hy & Hxy). apply Nat.eqb_eq in Hxy. subst. contradiction. }
    rewrite Hx. reflexivity.
  - reflexivity.
Qed.

Lemma existsb_eqb_in : forall i hs, existsb (Nat.eqb i) hs = true <-> In i hs.
Proof.
  intros. rewrite existsb_exists. split.
  - intros (y & Hy & E). apply Nat.eqb_eq in E. subst. exact Hy.
  - intros H. exists i. split; [exact H | apply Nat.eqb_refl].
Qed.

Lemma members_enq_all : forall w hs a g, members (enq_all w hs a) g = members w g.
Proof.
  intros w hs a g. unfold enq_all. revert w. induction hs as [|x hs IH]; intros w; [reflexivity|].
  cbn [fold_left]. rewrite IH. reflexivity.
Qed.
Lemma recording_enq_all : forall w hs a g, recording (enq_all w hs a) g = recording w g.
Proof.
  intros w hs a g. unfold enq_all. revert w. induction hs as [|x hs IH]; intros w; [reflexivity|].
  cbn [fold_left]. rewrite IH. reflexivity.
Qed.
Lemma groups_enq_all : forall w hs a, w_groups (enq_all w hs a) = w_groups w.
Proof.
  intros w hs a. unfold enq_all. revert w. induction hs as [|x hs IH]; intros w; [reflexivity|].
  cbn [fold_left]. rewrite IH. reflexivity.
Qed.

Lemma members_groups : forall w w' g, w_groups w' = w_groups w -> members w' g = members w g.
Proof. intros. unfold members, find_group. rewrite H. reflexivity. Qed.
Lemma recording_groups : forall w w' g, w_groups w' = w_groups w -> recording w' g = recording w g.
Proof. intros. unfold recording, find_group. rewrite H. reflexivity. Qed.

Lemma find_ext_eq : forall (A : Type) (P Q : A -> bool) l, (forall x, P x = Q x) -> find P l = find Q l.
Proof.
  intros A P Q l H. induction l as [|a l IH]; [reflexivity|]. cbn [find]. rewrite H, IH. reflexivity.
Qed.

(* truth when one client changes but is not the holder of the key *)
Lemma truth_frame : forall w w' g id h,
  Sinv w ->
  members w' g = members w g -> recording w' g = recording w g ->
  (forall i, i <> h -> get_client w' i = get_client w i) ->
  (forall c, get_client w h = Some c -> exists c', get_client w' h = Some c' /\ c_id c' = c_id c) ->
  (get_client w h = None -> get_client w' h = None) ->
  (forall c, get_client w h = Some c -> In h (members w g) -> c_id c <> id) ->
  truth w' g id = truth w g id.
Proof.
  intros w w' g id h HS Hm Hr Ho Hh Hn Hk. unfold truth. rewrite !get_member_unfold, Hm, Hr.
  assert (Hid : forall x, has_id w' id x = has_id w id x).
  { intros x. unfold has_id. destruct (Nat.eq_dec x h) as [->|Hne].
    - destruct (get_client w h) as [c|] eqn:E.
      + destruct (Hh c eq_refl) as (c' & E' & Hi). rewrite E', Hi. reflexivity.
      + rewrite (Hn eq_refl). reflexivity.
    - rewrite (Ho x Hne). reflexivity. }
  rewrite (find_ext_eq _ _ _ (members w g) Hid).
  destruct (find (has_id w id) (members w g)) as [x|] eqn:E; [|reflexivity].
  apply find_some in E. destruct E as [Hin Hp].
  destruct (Nat.eq_dec x h) as [->|Hne]; [|rewrite (Ho x Hne); reflexivity].
  exfalso. unfold has_id in Hp. destruct (get_client w h) as [c|] eqn:Ec; [|discriminate].
  apply eqb_true in Hp. eapply Hk; eauto.
Qed.

(* ------------------------------------------------------------------ *)
(* A step that changes client h only, keeps its core, and possibly
   consumes the head of its pending batch                              *)

Lemma inv_local : forall w w' s h pend pend' exc c c',
  Inv_p w s h pend exc ->
  get_client w h = Some c -> get_client w' h = Some c' -> core c' = core c ->
  (forall i, i <> h -> get_client w' i = get_client w i) ->
  w_groups w' = w_groups w ->
  (forall g id, c_group c = Some g ->
     key_view id (Some g) (sentof s h c') (pend' ++ c_queue c') =
     key_view id (Some g) (sentof s h c) (pend ++ c_queue c)) ->
  (c_group c = None -> forall id,
     nm_ok (pend ++ c_queue c) (key_sent id (sentof s h c) = None) ->
     nm_ok (pend' ++ c_queue c') (key_sent id (sentof s h c') = None)) ->
  (In APermsChanged (pend ++ c_queue c) -> In APermsChanged (pend' ++ c_queue c')) ->
  Inv_p w' s h pend' exc.
Proof.
  intros w w' s h pend pend' exc c c' [HS HV] Hc Hc' Hcore Ho Hg K1 K2 K3.
  assert (Hm : forall g, members w' g = members w g) by (intros; apply members_groups; exact Hg).
  assert (Hsk : forall i, option_map skel (get_client w' i) = option_map skel (get_client w i)).
  { intros i. destruct (Nat.eq_dec i h) as [->|Hne]; [|rewrite (Ho i Hne); reflexivity].
    rewrite Hc, Hc'. cbn. unfold skel, core in *. f_equal. congruence. }
  assert (HS' : Sinv w').
  { eapply sinv_ext; [exact HS | rewrite Hg; reflexivity | exact Hm | exact Hsk]. }
  assert (Ht : forall g id, truth w' g id = truth w g id).
  { intros g id. apply truth_ext; [apply Hm | apply recording_groups; exact Hg |].
    intros x _. destruct (Nat.eq_dec x h) as [->|Hne]; [|rewrite (Ho x Hne); reflexivity].
    rewrite Hc, Hc'. cbn. unfold core in Hcore. f_equal. congruence. }
  assert (Hd : forall g id, dirty w h pend g id -> dirty w' h pend' g id).
  { intros g id (x & cx & Hin & Hx & Hid & Hq). destruct (Nat.eq_dec x h) as [->|Hne].
    - rewrite Hc in Hx. inversion Hx; subst cx. exists h, c'. rewrite Hm.
      split; [exact Hin|]. split; [exact Hc'|]. split; [unfold core in Hcore; congruence|].
      rewrite effq_self in *. apply K3. exact Hq.
    - exists x, cx. rewrite Hm, (Ho x Hne). rewrite effq_other in * by exact Hne. auto. }
  split; [exact HS'|]. constructor.
  - intros i Hi. apply (v_seen _ _ _ _ _ HV). destruct (Nat.eq_dec i h) as [->|Hne]; [congruence|].
    rewrite <- (Ho i Hne). exact Hi.
  - intros i ci id Hi Hcl Hgr. destruct (Nat.eq_dec i h) as [->|Hne].
    + rewrite Hc' in Hi. inversion Hi; subst ci. rewrite effq_self.
      assert (Hg0 : c_group c = None) by (unfold core in Hcore; congruence).
      apply K2; [exact Hg0|]. rewrite <- (effq_self h pend c).
      apply (v_nm _ _ _ _ _ HV h c id Hc); [unfold core in Hcore; congruence | exact Hg0].
    + rewrite (Ho i Hne) in Hi. rewrite effq_other by exact Hne.
      rewrite <- (effq_other h pend i ci Hne). apply (v_nm _ _ _ _ _ HV i ci id Hi Hcl Hgr).
  - intros i ci g id Hi Hgr. rewrite Ht.
    assert (Hold : key_view id (Some g) (sentof s i ci) (effq h pend' i ci) = truth w g id \/
                   dirty w h pend g id \/ exc_is exc g id).
    { destruct (Nat.eq_dec i h) as [->|Hne].
      - rewrite Hc' in Hi. inversion Hi; subst ci. rewrite effq_self.
        assert (Hg0 : c_group c = Some g) by (unfold core in Hcore; congruence).
        rewrite (K1 g id Hg0), <- (effq_self h pend c). apply (v_view _ _ _ _ _ HV h c g id Hc Hg0).
      - rewrite (Ho i Hne) in Hi. rewrite effq_other by exact Hne.
        rewrite <- (effq_other h pend i ci Hne). apply (v_view _ _ _ _ _ HV i ci g id Hi Hgr). }
    destruct Hold as [H | [H | H]]; auto.
Qed.

(* dropping a head that the fold ignores *)
Lemma inv_drop_head : forall w s h a r exc c,
  Inv_p w s h (a :: r) exc -> get_client w h = Some c -> nact a = true -> Inv_p w s h r exc.
Proof.
  intros w s h a r exc c HI Hc Ha.
  eapply (inv_local w w s h (a :: r) r exc c c HI Hc Hc); try reflexivity.
  - intros g id _. unfold key_view. cbn [app fold_left]. rewrite act_step_nact by exact Ha. reflexivity.
  - intros _ id. unfold nm_ok, nm_from. cbn [app fold_left]. rewrite nst_step_nact by exact Ha. auto.
  - cbn [app]. intros [E | H]; [subst a; discriminate Ha | exact H].
Qed.

(* serving a user event: it moves to the outbox if it is for the owner's
   group, and is dropped otherwise *)
Lemma inv_head_push : forall w s h r c g kind i u p d,
  Inv_p w s h (APushClient g kind i u p d :: r) None -> get_client w h = Some c ->
  Inv_p (match c_group c with
         | None => w
         | Some g' => if String.eqb g g' then send w h (out_user kind i u p) else w
         end) s h r None.
Proof.
  intros w s h r c g kind i u p d HI Hc.
  destruct (c_group c) as [g'|] eqn:Eg; [destruct (String.eqb g g') eqn:Egg|].
  - (* sent *)
    eapply (inv_local w _ s h _ r None c (set_out c (c_out c ++ [out_user kind i u p])) HI Hc).
    + apply get_client_send_self. exact Hc.
    + reflexivity.
    + intros. apply get_client_send_other. assumption.
    + reflexivity.
    + intros g0 id E0. rewrite Eg in E0. inversion E0; subst g0.
      unfold key_view, sentof. cbn [c_out set_out c_queue app fold_left].
      rewrite app_assoc, key_sent_app. cbn [fold_left act_step]. rewrite Egg. reflexivity.
    + intros E. congruence.
    + cbn [app c_queue set_out]. intros [E | H]; [discriminate E | exact H].
  - (* another group's event *)
    eapply (inv_local w w s h _ r None c c HI Hc Hc); try reflexivity.
    + intros g0 id E0. rewrite Eg in E0. inversion E0; subst g0.
      unfold key_view. cbn [app fold_left act_step]. rewrite Egg. reflexivity.
    + intros E. congruence.
    + cbn [app]. intros [E | H]; [discriminate E | exact H].
  - (* in no group *)
    eapply (inv_local w w s h _ r None c c HI Hc Hc); try reflexivity.
    + intros g0 id E0. congruence.
    + intros _ id. unfold nm_ok, nm_from. cbn [app fold_left nst_step]. intros H.
      apply nm_from_dirty with (s := NClean) in H. exact H.
    + cbn [app]. intros [E | H]; [discriminate E | exact H].
Qed.

Lemma key_sent_joined : forall id l kind g u p e v lk,
  key_sent id (l ++ [out_joined kind g u p e v lk]) =
  if String.eqb kind "leave" || String.eqb kind "fail" then None else key_sent id l.
Proof.
  intros. rewrite key_sent_app. cbn [fold_left]. unfold key_step, out_joined. cbn [o_type o_kind].
  cbn [String.eqb Ascii.eqb Bool.eqb]. reflexivity.
Qed.

(* serving a [joined] announcement *)
Lemma inv_head_joined : forall w s h r c g kind u p e v l,
  Inv_p w s h (AJoined g kind :: r) None -> get_client w h = Some c ->
  Inv_p (send w h (out_joined kind g u p e v l)) s h r None.
Proof.
  intros w s h r c g kind u p e v l HI Hc.
  eapply (inv_local w _ s h _ r None c (set_out c (c_out c ++ [out_joined kind g u p e v l])) HI Hc).
  - apply get_client_send_self. exact Hc.
  - reflexivity.
  - intros. apply get_client_send_other. assumption.
  - reflexivity.
  - intros g0 id _. unfold key_view, sentof. cbn [c_out set_out c_queue app fold_left].
    rewrite app_assoc, key_sent_app. cbn [fold_left act_step]. reflexivity.
  - intros _ id. unfold sentof. cbn [c_out set_out c_queue]. rewrite app_assoc, key_sent_joined.
    unfold nm_ok, nm_from. cbn [app fold_left nst_step].
    destruct (String.eqb kind "leave" || String.eqb kind "fail").
    + intros H. apply nm_from_reset in H. eapply nm_from_mono; [|exact H]. auto.
    + auto.
  - cbn [app c_queue set_out]. intros [E | H]; [discriminate E | exact H].
Qed.

(* with nothing pending, the pumping client is irrelevant *)
Lemma inv_ph_nil : forall w s ph ph' exc, Inv_p w s ph [] exc -> Inv_p w s ph' [] exc.
Proof.
  intros w s ph ph' exc [HS HV]. split; [exact HS|]. constructor.
  - apply (v_seen _ _ _ _ _ HV).
  - intros h c id Hc Hcl Hg. rewrite effq_nil. rewrite <- (effq_nil ph h c).
    apply (v_nm _ _ _ _ _ HV h c id Hc Hcl Hg).
  - intros h c g id Hc Hg. rewrite effq_nil. rewrite <- (effq_nil ph h c).
    destruct (v_view _ _ _ _ _ HV h c g id Hc Hg) as [H | [H | H]]; auto.
    right. left. destruct H as (x & cx & H1 & H2 & H3 & H4). exists x, cx.
    rewrite effq_nil in *. auto.
Qed.

(* a client in no group may change username, permissions and data at will *)
Lemma inv_nonmember_upd : forall w s ph pend h c f,
  Inv_p w s ph pend None -> get_client w h = Some c -> c_group c = None ->
  c_id (f c) = c_id c -> c_group (f c) = None -> c_closed (f c) = c_closed c ->
  c_queue (f c) = c_queue c -> c_out (f c) = c_out c ->
  Inv_p (upd w h f) s ph pend None.
Proof.
  intros w s ph pend h c f [HS HV] Hc Hg F1 F2 F3 F4 F5.
  set (w' := upd w h f).
  assert (Hc' : get_client w' h = Some (f c)) by (apply get_client_upd_self; exact Hc).
  assert (Ho : forall i, i <> h -> get_client w' i = get_client w i)
    by (intros; apply get_client_upd_other; assumption).
  assert (Hnm : forall g, ~ In h (members w g)).
  { intros g Hin. apply (s_memb w HS h c g Hc) in Hin. congruence. }
  assert (HS' : Sinv w').
  { eapply sinv_ext; [exact HS | reflexivity | reflexivity |]. intros i.
    destruct (Nat.eq_dec i h) as [->|Hne]; [|rewrite (Ho i Hne); reflexivity].
    rewrite Hc, Hc'. cbn. unfold skel. rewrite F1, F2, F3, Hg. reflexivity. }
  assert (Ht : forall g id, truth w' g id = truth w g id).
  { intros. apply truth_ext; try reflexivity. intros x Hx.
    assert (x <> h) by (intros ->; eapply Hnm; eauto). rewrite (Ho x H). reflexivity. }
  split; [exact HS'|]. constructor.
  - intros i Hi. apply (v_seen _ _ _ _ _ HV). destruct (Nat.eq_dec i h) as [->|Hne]; [congruence|].
    rewrite <- (Ho i Hne). exact Hi.
  - intros i ci id Hi Hcl Hgr. destruct (Nat.eq_dec i h) as [->|Hne].
    + rewrite Hc' in Hi. inversion Hi; subst ci.
      assert (E1 : effq ph pend h (f c) = effq ph pend h c) by (unfold effq; rewrite F4; reflexivity).
      assert (E2 : sentof s h (f c) = sentof s h c) by (unfold sentof; rewrite F5; reflexivity).
      rewrite E1, E2. apply (v_nm _ _ _ _ _ HV h c id Hc); [congruence | exact Hg].
    + rewrite (Ho i Hne) in Hi. apply (v_nm _ _ _ _ _ HV i ci id Hi Hcl Hgr).
  - intros i ci g id Hi Hgr. destruct (Nat.eq_dec i h) as [->|Hne].
    { rewrite Hc' in Hi. inversion Hi; subst ci. congruence. }
    rewrite (Ho i Hne) in Hi. rewrite Ht.
    destruct (v_view _ _ _ _ _ HV i ci g id Hi Hgr) as [H | [H | H]]; [left; exact H | | discriminate H].
    right. left. destruct H as (x & cx & Hx1 & Hx2 & Hx3 & Hx4).
    assert (Hxh : x <> h) by (intros ->; eapply Hnm; eauto).
    exists x, cx. rewrite (Ho x Hxh). auto.
Qed.

(* a client in no group is told that its join failed *)
Lemma inv_send_fail : forall w s ph h c g u p e v l,
  Inv_p w s ph [] None -> get_client w h = Some c -> c_group c = None ->
  Inv_p (send w h (out_joined "fail" g u p e v l)) s ph [] None.
Proof.
  intros w s ph h c g u p e v l HI Hc Hg.
  apply (inv_ph_nil _ _ h ph). apply (inv_ph_nil _ _ ph h) in HI.
  eapply (inv_local w _ s h [] [] None c (set_out c (c_out c ++ [out_joined "fail" g u p e v l])) HI Hc).
  - apply get_client_send_self. exact Hc.
  - reflexivity.
  - intros. apply get_client_send_other. assumption.
  - reflexivity.
  - intros g0 id E0. congruence.
  - intros _ id H. unfold sentof. cbn [c_out set_out c_queue app]. rewrite app_assoc, key_sent_joined.
    cbn. eapply nm_from_mono; [|exact H]. auto.
  - auto.
Qed.

(* C19, part 2: what Clean guarantees, and what validGroupName,
   parseGroupName, the description file name, sanitise and the recording and
   delete paths inherit from it.  Everything is stated about the functions of
   Model/Paths.v (the ones run against the implementation); [clean] is
   replaced by [clean_spec] through Proofs/PathsClean.v. *)
From Coq Require Import ZArith List Bool Lia Arith.
From Galene Require Import Model.Paths Proofs.PathsClean.
Import ListNotations.
Open Scope Z_scope.

Definition noslash (c : str) : Prop := ~ In SLASH c.

Lemma normal_noslash : forall c, normal c -> noslash c.
Proof. intros c H. apply H. Qed.

Lemma split_all_noslash : forall s, Forall noslash (split s).
Proof. intro s. apply Forall_forall. intros c H. exact (split_noslash s c H). Qed.

(* ------------------------------------------------------------------ *)
(* the stack *)

Definition Shape (rooted : bool) (st : list str) : Prop :=
  exists ns k, st = ns ++ repeat DOTDOT k /\ Forall normal ns /\
               (rooted = true -> k = 0%nat).

Lemma shape_nil : forall rooted, Shape rooted [].
Proof. intro rooted. exists [], 0%nat. repeat split; auto. Qed.

Lemma step_shape : forall rooted st c, Shape rooted st -> noslash c ->
  Shape rooted (step rooted st c).
Proof.
  intros rooted st c (ns & k & -> & Hns & Hk) Hc.
  destruct c as [|x c']; [exists ns, k; auto|].
  unfold step.
  destruct (str_eqb (x :: c') [DOT]) eqn:E1; [exists ns, k; auto|].
  destruct (str_eqb (x :: c') DOTDOT) eqn:E2.
  - rewrite (can_pop_stack ns k Hns). destruct ns as [|n ns'].
    + destruct rooted.
      * exists [], k. auto.
      * exists [], (S k). repeat split; auto. discriminate.
    + exists ns', k. repeat split; auto. inversion Hns; assumption.
  - exists ((x :: c') :: ns), k. repeat split; auto. constructor; [|exact Hns].
    apply str_eqb_false in E1. apply str_eqb_false in E2.
    repeat split; auto. discriminate.
Qed.

Lemma fold_shape : forall rooted cs st, Shape rooted st -> Forall noslash cs ->
  Shape rooted (fold_left (step rooted) cs st).
Proof.
  induction cs as [|c cs IH]; intros st Hs Hf; [exact Hs|].
  inversion Hf; subst. cbn [fold_left]. apply IH; [|assumption].
  apply step_shape; assumption.
Qed.

Lemma shape_nonnil : forall rooted st, Shape rooted st -> Forall (fun c : str => c <> []) st.
Proof. intros rooted st (ns & k & -> & Hns & _). apply stack_nonnil. exact Hns. Qed.

Lemma shape_noslash : forall rooted st, Shape rooted st -> Forall noslash st.
Proof.
  intros rooted st (ns & k & -> & Hns & _). apply Forall_app. split.
  - eapply Forall_impl; [|exact Hns]. apply normal_noslash.
  - apply Forall_forall. intros c Hc. apply repeat_spec in Hc. subst.
    intros [H|[H|[]]]; discriminate.
Qed.

Lemma shape_rooted_normal : forall st, Shape true st -> Forall normal st.
Proof.
  intros st (ns & k & -> & Hns & Hk). rewrite (Hk eq_refl). cbn [repeat].
  rewrite app_nil_r. exact Hns.
Qed.

Lemma fold_push : forall rooted cs st, Forall normal cs ->
  fold_left (step rooted) cs st = rev cs ++ st.
Proof.
  induction cs as [|c cs IH]; intros st Hf; [reflexivity|].
  inversion Hf; subst. cbn [fold_left rev]. rewrite step_normal by assumption.
  rewrite IH by assumption. rewrite <- app_assoc. reflexivity.
Qed.

(* every stack entry comes from the input (or is a ".." kept in front of a
   relative path) *)
Lemma step_members : forall (P : str -> Prop) rooted st c,
  Forall P st -> P c -> Forall P (step rooted st c).
Proof.
  intros P rooted st c Hst Hc. unfold step. destruct c as [|x c']; [exact Hst|].
  destruct (str_eqb (x :: c') [DOT]); [exact Hst|].
  destruct (str_eqb (x :: c') DOTDOT) eqn:E.
  - destruct (can_pop st).
    + destruct st; [exact Hst | inversion Hst; assumption].
    + destruct rooted; [exact Hst|]. constructor; [|exact Hst].
      apply str_eqb_spec in E. rewrite <- E. exact Hc.
  - constructor; assumption.
Qed.

Lemma fold_members : forall (P : str -> Prop) rooted cs st,
  Forall P st -> Forall P cs -> Forall P (fold_left (step rooted) cs st).
Proof.
  induction cs as [|c cs IH]; intros st Hst Hcs; [exact Hst|].
  inversion Hcs; subst. cbn [fold_left]. apply IH; [|assumption].
  apply step_members; assumption.
Qed.

(* ------------------------------------------------------------------ *)
(* render = prefix + Join *)

Definition pre (rooted : bool) : str := if rooted then [SLASH] else [].

Lemma render_join : forall rooted st, Forall (fun c : str => c <> []) st ->
  render rooted st = pre rooted ++ join (rev st).
Proof.
  induction st as [|c st IH]; intro Hf.
  - cbn. destruct rooted; reflexivity.
  - inversion Hf as [|? ? Hc Hst]; subst. cbn [render rev].
    destruct (length (render rooted st) =? base rooted)%nat eqn:E.
    + apply Nat.eqb_eq in E. apply render_base_nil in E; [|exact Hst]. subst st.
      cbn. destruct rooted; reflexivity.
    + rewrite (IH Hst). rewrite join_app_single.
      * rewrite <- app_assoc. reflexivity.
      * intro H. apply Nat.eqb_neq in E. apply E.
        assert (st = []) by (destruct st; [reflexivity|]; cbn in H;
                             apply app_eq_nil in H; destruct H; discriminate).
        subst st. destruct rooted; reflexivity.
Qed.

Lemma join_nonnil : forall cs, cs <> [] -> Forall (fun c : str => c <> []) cs -> join cs <> [].
Proof.
  intros cs Hne Hf. destruct cs as [|c r]; [contradiction|].
  inversion Hf; subst. destruct r as [|r0 r].
  - cbn. assumption.
  - rewrite join_cons by discriminate. destruct c; [contradiction | discriminate].
Qed.

Lemma join_app : forall a b, a <> [] -> b <> [] -> join (a ++ b) = join a ++ SLASH :: join b.
Proof.
  induction a as [|x a IH]; intros b Ha Hb; [contradiction|].
  destruct a as [|a0 a].
  - cbn [app]. rewrite join_cons by exact Hb. reflexivity.
  - cbn [app]. rewrite (join_cons x) by discriminate.
    rewrite (join_cons x (a0 :: a)) by discriminate.
    change (a0 :: a ++ b) with ((a0 :: a) ++ b). rewrite IH by (auto; discriminate).
    rewrite <- app_assoc. reflexivity.
Qed.

Lemma join_last_app : forall cs l x, join (cs ++ [l]) ++ x = join (cs ++ [l ++ x]).
Proof.
  induction cs as [|c cs IH]; intros l x; [reflexivity|].
  cbn [app]. rewrite !join_cons by (destruct cs; discriminate).
  rewrite <- IH, <- app_assoc. reflexivity.
Qed.

(* ------------------------------------------------------------------ *)
(* Clean in terms of the stack *)

Definition is_rooted (p : str) : bool :=
  match p with c :: _ => c =? SLASH | [] => false end.

Definition stack_of (p : str) : list str :=
  fold_left (step (is_rooted p)) (split p) [].

Definition finish (r : str) : str := match r with [] => [DOT] | _ => r end.

Lemma clean_stack : forall p, p <> [] ->
  clean p = finish (render (is_rooted p) (stack_of p)).
Proof.
  intros p Hp. rewrite clean_spec_eq. destruct p as [|c0 t0]; [contradiction|]. reflexivity.
Qed.

Lemma stack_shape : forall p, Shape (is_rooted p) (stack_of p).
Proof. intro p. apply fold_shape; [apply shape_nil | apply split_all_noslash]. Qed.

(* Clean of a rooted path: "/" followed by the normal components left on the
   stack, each of which is a component of the input *)
Lemma clean_rooted_form : forall q,
  let cs := rev (fold_left (step true) (split q) []) in
  clean (SLASH :: q) = SLASH :: join cs /\ Forall normal cs /\
  Forall (fun c => In c (split q)) cs.
Proof.
  intros q cs.
  assert (Hst : stack_of (SLASH :: q) = fold_left (step true) (split q) []).
  { unfold stack_of. cbn [is_rooted]. rewrite Z.eqb_refl, split_cons_slash. reflexivity. }
  pose proof (stack_shape (SLASH :: q)) as Hsh. rewrite Hst in Hsh.
  cbn [is_rooted] in Hsh. rewrite Z.eqb_refl in Hsh.
  split; [|split].
  - rewrite clean_stack by discriminate. cbn [is_rooted]. rewrite Z.eqb_refl, Hst.
    rewrite render_join by (eapply shape_nonnil; exact Hsh). reflexivity.
  - apply Forall_rev. apply shape_rooted_normal. exact Hsh.
  - apply Forall_rev. apply fold_members; [constructor|].
    apply Forall_forall. auto.
Qed.

Lemma split_rooted_join : forall cs, cs <> [] -> Forall noslash cs ->
  split (SLASH :: join cs) = [] :: cs.
Proof. intros cs H1 H2. rewrite split_cons_slash, split_join by assumption. reflexivity. Qed.

Lemma normal_Forall_noslash : forall cs, Forall normal cs -> Forall noslash cs.
Proof. intros cs H. eapply Forall_impl; [|exact H]. apply normal_noslash. Qed.

Lemma normal_Forall_nonnil : forall cs, Forall normal cs -> Forall (fun c : str => c <> []) cs.
Proof. intros cs H. eapply Forall_impl; [|exact H]. intros c Hc. apply Hc. Qed.

(* Clean("/"+join cs) for normal components is the identity *)
Lemma clean_rooted_normal : forall cs, Forall normal cs ->
  clean (SLASH :: join cs) = SLASH :: join cs.
Proof.
  intros cs Hn. destruct (clean_rooted_form (join cs)) as (E & _ & _). rewrite E. f_equal. f_equal.
  destruct cs as [|c r].
  - reflexivity.
  - rewrite split_join by (try discriminate; apply normal_Forall_noslash; exact Hn).
    rewrite fold_push by exact Hn. rewrite app_nil_r, rev_involutive. reflexivity.
Qed.

(* 1. rooted in, rooted out; 2. no empty, "." or ".." component; 3. idempotent *)
Lemma clean_rooted_facts : forall q,
  exists cs, clean (SLASH :: q) = SLASH :: join cs /\ Forall normal cs /\
             (cs = [] \/ split (clean (SLASH :: q)) = [] :: cs) /\
             clean (clean (SLASH :: q)) = clean (SLASH :: q).
Proof.
  intro q. destruct (clean_rooted_form q) as (E & Hn & _).
  eexists. split; [exact E|]. split; [exact Hn|]. split.
  - destruct (rev (fold_left (step true) (split q) [])) as [|c r] eqn:Ecs; [left; reflexivity|].
    right. rewrite E. apply split_rooted_join; [discriminate|].
    apply normal_Forall_noslash. exact Hn.
  - rewrite E. apply clean_rooted_normal. exact Hn.
Qed.

(* Clean is idempotent on every path *)
Lemma fold_dotdots : forall k, fold_left (step false) (repeat DOTDOT k) [] = repeat DOTDOT k.
Proof.
  assert (H : forall k j, fold_left (step false) (repeat DOTDOT k) (repeat DOTDOT j)
                          = repeat DOTDOT (k + j)).
  { induction k as [|k IH]; intro j; [reflexivity|].
    cbn [repeat fold_left].
    assert (E : step false (repeat DOTDOT j) DOTDOT = repeat DOTDOT (S j)).
    { destruct j; reflexivity. }
    rewrite E, IH. f_equal. lia. }
  intro k. change (@nil str) with (repeat DOTDOT 0) at 1. rewrite (H k 0%nat). f_equal. lia.
Qed.

Lemma rev_repeat : forall (A : Type) (x : A) k, rev (repeat x k) = repeat x k.
Proof.
  intros A x. induction k as [|k IH]; [reflexivity|].
  cbn [repeat rev]. rewrite IH. clear IH. induction k; [reflexivity|].
  cbn [repeat app]. f_equal. exact IHk.
Qed.

Lemma is_rooted_join : forall cs, cs <> [] -> Forall (fun c : str => c <> []) cs ->
  Forall noslash cs -> is_rooted (join cs) = false.
Proof.
  intros cs Hne Hnn Hns. destruct cs as [|c r]; [contradiction|].
  inversion Hnn; subst. inversion Hns as [|? ? Hc _]; subst.
  destruct c as [|x c']; [contradiction|].
  assert (Hx : x <> SLASH) by (intro; apply Hc; left; congruence).
  apply Z.eqb_neq in Hx.
  destruct r; [cbn; exact Hx | rewrite join_cons by discriminate; cbn; exact Hx].
Qed.

Lemma clean_idempotent : forall p, clean (clean p) = clean p.
Proof.
  intro p. destruct p as [|c0 t0] eqn:Ep; [reflexivity|]. rewrite <- Ep.
  assert (Hp : p <> []) by (subst; discriminate).
  destruct (is_rooted p) eqn:Er.
  - subst p. cbn [is_rooted] in Er. apply Z.eqb_eq in Er. subst c0.
    destruct (clean_rooted_facts t0) as (cs & _ & _ & _ & H). exact H.
  - pose proof (stack_shape p) as Hsh. rewrite Er in Hsh.
    rewrite (clean_stack p Hp), Er.
    pose proof (shape_nonnil _ _ Hsh) as Hnn. pose proof (shape_noslash _ _ Hsh) as Hsl.
    rewrite render_join by exact Hnn. cbn [pre app].
    destruct Hsh as (ns & k & Est & Hns & _).
    destruct (stack_of p) as [|s0 st'] eqn:Estack; [reflexivity|].
    set (st := s0 :: st') in *.
    assert (Hrne : rev st <> []).
    { unfold st. cbn [rev]. intro H. apply app_eq_nil in H. destruct H; discriminate. }
    assert (Hj : join (rev st) <> []) by (apply join_nonnil; [exact Hrne | apply Forall_rev; exact Hnn]).
    assert (Hf : finish (join (rev st)) = join (rev st)).
    { unfold finish. destruct (join (rev st)); [contradiction | reflexivity]. }
    rewrite Hf. rewrite (clean_stack _ Hj).
    rewrite is_rooted_join by (auto; apply Forall_rev; assumption).
    unfold stack_of. rewrite is_rooted_join by (auto; apply Forall_rev; assumption).
    rewrite split_join by (auto; apply Forall_rev; assumption).
    rewrite Est at 1. rewrite rev_app_distr, rev_repeat, fold_left_app, fold_dotdots.
    rewrite fold_push by (apply Forall_rev; exact Hns). rewrite rev_involutive, <- Est.
    rewrite render_join by exact Hnn. cbn [pre app]. exact Hf.
Qed.

(* ------------------------------------------------------------------ *)
(* validGroupName *)

Lemma valid_group_name_unfold : forall s,
  valid_group_name s = true <->
  ~ In BACKSLASH s /\ clean (SLASH :: s) <> [SLASH] /\ clean (SLASH :: s) = SLASH :: s.
Proof.
  intro s. unfold valid_group_name.
  destruct (contains BACKSLASH s) eqn:Eb.
  - apply contains_spec in Eb. split; [discriminate | intros (H & _); contradiction].
  - apply contains_false in Eb.
    destruct (str_eqb (clean (SLASH :: s)) [SLASH]) eqn:E1.
    + apply str_eqb_spec in E1. split; [discriminate | intros (_ & H & _); contradiction].
    + apply str_eqb_false in E1. rewrite str_eqb_spec. tauto.
Qed.

Theorem valid_iff : forall s,
  valid_group_name s = true <->
  s <> [] /\ ~ In BACKSLASH s /\ Forall normal (split s).
Proof.
  intro s. rewrite valid_group_name_unfold.
  destruct (clean_rooted_form s) as (E & Hn & _).
  set (cs := rev (fold_left (step true) (split s) [])) in *.
  split.
  - intros (Hb & H1 & H2). rewrite E in H1, H2.
    assert (Hj : join cs = s) by congruence.
    assert (Hcs : cs <> []) by (intro H; rewrite H in H1; apply H1; reflexivity).
    repeat split.
    + intro Hnil. rewrite Hnil in Hj. revert Hj.
      apply join_nonnil; [exact Hcs | apply normal_Forall_nonnil; exact Hn].
    + exact Hb.
    + rewrite <- Hj. rewrite split_join by (auto; apply normal_Forall_noslash; exact Hn).
      exact Hn.
  - intros (Hne & Hb & Hs).
    assert (Ecs : cs = split s).
    { unfold cs. rewrite fold_push by exact Hs. rewrite app_nil_r. apply rev_involutive. }
    rewrite E, Ecs, join_split. repeat split; auto.
    intro H. inversion H. contradiction.
Qed.

Theorem valid_username_iff : forall s,
  valid_username s = true <-> s = [] \/ valid_group_name s = true.
Proof.
  intro s. unfold valid_username. destruct s as [|c t].
  - split; auto.
  - split; [auto|]. intros [H|H]; [discriminate | exact H].
Qed.

(* a valid name is what Clean leaves unchanged *)
Lemma valid_clean : forall s, valid_group_name s = true -> clean (SLASH :: s) = SLASH :: s.
Proof. intros s H. apply valid_group_name_unfold in H. apply H. Qed.

Lemma valid_not_rooted : forall s, valid_group_name s = true -> is_rooted s = false.
Proof.
  intros s H. apply valid_iff in H. destruct H as (Hne & _ & Hs).
  rewrite <- (join_split s). apply is_rooted_join.
  - apply split_nonnil.
  - apply normal_Forall_nonnil. exact Hs.
  - apply normal_Forall_noslash. exact Hs.
Qed.

(* ------------------------------------------------------------------ *)
(* parseGroupName *)

Lemma join_bytes : forall cs x, In x (join cs) -> x = SLASH \/ exists c, In c cs /\ In x c.
Proof.
  induction cs as [|c r IH]; intros x H; [destruct H|].
  destruct r as [|r0 r].
  - cbn in H. right. exists c. split; [left; reflexivity | exact H].
  - rewrite join_cons in H by discriminate. apply in_app_or in H. destruct H as [H|[H|H]].
    + right. exists c. split; [left; reflexivity | exact H].
    + left. congruence.
    + destruct (IH x H) as [Hs|(c' & Hc' & Hx)]; [left; exact Hs|].
      right. exists c'. split; [right; exact Hc' | exact Hx].
Qed.

Theorem parse_agrees : forall prefix p,
  parse_group_name prefix p = [] \/ valid_group_name (parse_group_name prefix p) = true.
Proof.
  intros prefix p. unfold parse_group_name.
  destruct (strip_prefix prefix p) as [name|]; [|left; reflexivity].
  destruct name as [|c t] eqn:En; [left; reflexivity|]. rewrite <- En.
  destruct (c =? DOT); [left; reflexivity|].
  destruct (contains BACKSLASH name) eqn:Eb; [left; reflexivity|].
  apply contains_false in Eb.
  destruct (clean_rooted_form name) as (E & Hn & Hin).
  set (cs := rev (fold_left (step true) (split name) [])) in *.
  rewrite E. cbn [tl].
  destruct cs as [|c1 r] eqn:Ecs; [left; reflexivity|]. rewrite <- Ecs in *.
  assert (Hne : cs <> []) by (rewrite Ecs; discriminate).
  right. apply valid_iff. repeat split.
  - apply join_nonnil; [exact Hne | apply normal_Forall_nonnil; exact Hn].
  - intro H. apply join_bytes in H. destruct H as [H|(c' & Hc' & Hx)]; [discriminate|].
    apply Eb. rewrite Forall_forall in Hin. eapply split_bytes; [apply Hin; exact Hc' | exact Hx].
  - rewrite split_join by (auto; apply normal_Forall_noslash; exact Hn). exact Hn.
Qed.

Lemma strip_prefix_app : forall prefix s, strip_prefix prefix (prefix ++ s) = Some s.
Proof.
  induction prefix as [|x prefix IH]; intro s; [reflexivity|].
  cbn. rewrite Z.eqb_refl. apply IH.
Qed.

Lemma parse_unfold : forall prefix name,
  name <> [] -> hd 0 name <> DOT -> ~ In BACKSLASH name ->
  parse_group_name prefix (prefix ++ name) = tl (clean (SLASH :: name)).
Proof.
  intros prefix name Hne Hd Hb. unfold parse_group_name. rewrite strip_prefix_app.
  apply contains_false in Hb.
  destruct name as [|c t]; [contradiction|]. cbn [hd] in Hd.
  apply Z.eqb_neq in Hd. rewrite Hd, Hb. reflexivity.
Qed.

(* every name the group layer accepts is parsed to itself, with or without a
   trailing slash, unless it starts with a dot *)
Theorem parse_complete : forall prefix name,
  valid_group_name name = true -> hd 0 name <> DOT ->
  parse_group_name prefix (prefix ++ name) = name /\
  parse_group_name prefix (prefix ++ name ++ [SLASH]) = name.
Proof.
  intros prefix name Hv Hd.
  pose proof Hv as Hv'. apply valid_iff in Hv'. destruct Hv' as (Hne & Hb & Hs).
  split.
  - rewrite parse_unfold by assumption. rewrite valid_clean by exact Hv. reflexivity.
  - rewrite parse_unfold.
    + destruct (clean_rooted_form (name ++ [SLASH])) as (E & _ & _). rewrite E. cbn [tl].
      rewrite split_app_slash. cbn [split]. rewrite fold_left_app.
      rewrite (fold_push true (split name)) by exact Hs. cbn [fold_left step].
      rewrite app_nil_r, rev_involutive. apply join_split.
    + destruct name; [contradiction | discriminate].
    + destruct name; [contradiction | exact Hd].
    + intro H. apply in_app_or in H. destruct H as [H|[H|[]]]; [contradiction | discriminate].
Qed.

(* ------------------------------------------------------------------ *)
(* filepath.Join(dir, x): what is appended below the directory *)

Lemma is_rooted_app : forall d x, d <> [] -> is_rooted (d ++ x) = is_rooted d.
Proof. intros d x H. destruct d; [contradiction | reflexivity]. Qed.

Lemma render_cons_nonnil : forall rooted c st, c <> [] -> render rooted (c :: st) <> [].
Proof.
  intros rooted c st Hc H. pose proof (render_cons_length rooted c st Hc) as L.
  rewrite H in L. cbn in L. lia.
Qed.

(* the components of the cleaned directory *)
Definition dir_comps (d : str) : list str :=
  if str_eqb (clean d) [SLASH] then [[]]
  else if str_eqb (clean d) [DOT] then []
  else split (clean d).

(* the cleaned directory, ready for a relative path to be appended *)
Definition dir_prefix (d : str) : str :=
  if str_eqb (clean d) [SLASH] then [SLASH]
  else if str_eqb (clean d) [DOT] then []
  else clean d ++ [SLASH].

Lemma shape_not_dot : forall rooted st, Shape rooted st -> ~ In [DOT] st.
Proof.
  intros rooted st (ns & k & -> & Hns & _) H. apply in_app_or in H. destruct H as [H|H].
  - rewrite Forall_forall in Hns. apply Hns in H. destruct H as (_ & H & _). apply H. reflexivity.
  - apply repeat_spec in H. discriminate.
Qed.

(* Clean(d + "/" + x) where x consists of normal components, possibly after
   a leading slash: the components are those of Clean(d) followed by those of x *)
Lemma clean_under : forall d x fs, d <> [] -> fs <> [] -> Forall normal fs ->
  (split x = fs \/ split x = [] :: fs) ->
  split (clean (d ++ SLASH :: x)) = dir_comps d ++ fs /\
  clean (d ++ SLASH :: x) = dir_prefix d ++ join fs.
Proof.
  intros d x fs Hd Hfs Hn Hx.
  set (rd := is_rooted d). set (std := stack_of d).
  pose proof (stack_shape d) as Hsh. fold rd std in Hsh.
  pose proof (shape_nonnil _ _ Hsh) as Hnn. pose proof (shape_noslash _ _ Hsh) as Hsl.
  assert (Hstack : stack_of (d ++ SLASH :: x) = rev fs ++ std).
  { unfold stack_of. rewrite is_rooted_app by exact Hd. fold rd.
    rewrite split_app_slash, fold_left_app. fold (stack_of d). fold std.
    destruct Hx as [-> | ->]; [|cbn [fold_left step]]; apply fold_push; exact Hn. }
  assert (Hdx : d ++ SLASH :: x <> []) by (destruct d; [contradiction | discriminate]).
  assert (Hall_nn : Forall (fun c : str => c <> []) (rev fs ++ std)).
  { apply Forall_app. split; [apply Forall_rev, normal_Forall_nonnil; exact Hn | exact Hnn]. }
  assert (Hclean : clean (d ++ SLASH :: x) = pre rd ++ join (rev std ++ fs)).
  { rewrite (clean_stack _ Hdx), Hstack, is_rooted_app by exact Hd. fold rd.
    rewrite render_join by exact Hall_nn. rewrite rev_app_distr, rev_involutive.
    unfold finish. destruct (pre rd ++ join (rev std ++ fs)) eqn:E; [|reflexivity].
    exfalso. apply app_eq_nil in E. destruct E as [_ E].
    revert E. apply join_nonnil.
    - intro H. apply app_eq_nil in H. destruct H; contradiction.
    - apply Forall_app. split; [apply Forall_rev; exact Hnn | apply normal_Forall_nonnil; exact Hn]. }
  assert (Hcd : clean d = finish (pre rd ++ join (rev std))).
  { rewrite (clean_stack d Hd). fold rd std. rewrite render_join by exact Hnn. reflexivity. }
  assert (Hfs_sl : Forall noslash fs) by (apply normal_Forall_noslash; exact Hn).
  assert (Hboth_sl : Forall noslash (rev std ++ fs)).
  { apply Forall_app. split; [apply Forall_rev; exact Hsl | exact Hfs_sl]. }
  assert (Hboth_ne : rev std ++ fs <> []).
  { intro H. apply app_eq_nil in H. destruct H; contradiction. }
  unfold dir_comps, dir_prefix. rewrite Hcd, Hclean.
  destruct std as [|s0 std'] eqn:Estd.
  - (* the directory cleans to "/" or "." *)
    cbn [rev app join]. rewrite app_nil_r. destruct rd; cbn [pre app finish].
    + rewrite str_eqb_refl. split; [|reflexivity].
      apply split_rooted_join; assumption.
    + cbn. split; [|reflexivity]. apply split_join; assumption.
  - rewrite <- Estd in *.
    assert (Hrs : rev std <> []).
    { rewrite Estd. cbn [rev]. intro H. apply app_eq_nil in H. destruct H; discriminate. }
    assert (Hjr : join (rev std) <> []) by (apply join_nonnil; [exact Hrs | apply Forall_rev; exact Hnn]).
    assert (Hfin : finish (pre rd ++ join (rev std)) = pre rd ++ join (rev std)).
    { unfold finish. destruct (pre rd ++ join (rev std)) eqn:E; [|reflexivity].
      apply app_eq_nil in E. destruct E; contradiction. }
    rewrite Hfin.
    assert (Hsl' : Forall noslash (rev std)) by (apply Forall_rev; exact Hsl).
    assert (Hnn' : Forall (fun c : str => c <> []) (rev std)) by (apply Forall_rev; exact Hnn).
    assert (E1 : str_eqb (pre rd ++ join (rev std)) [SLASH] = false).
    { apply str_eqb_false. destruct rd; cbn [pre app].
      - intro H. inversion H. contradiction.
      - intro H. pose proof (is_rooted_join (rev std) Hrs Hnn' Hsl') as R.
        rewrite H in R. cbn in R. discriminate. }
    assert (E2 : str_eqb (pre rd ++ join (rev std)) [DOT] = false).
    { apply str_eqb_false. destruct rd; cbn [pre app]; [discriminate|].
      intro H. pose proof (split_join (rev std) Hrs Hsl') as HS. rewrite H in HS.
      assert (HI : In [DOT] (rev std)) by (rewrite <- HS; left; reflexivity).
      apply in_rev in HI. exact (shape_not_dot _ _ Hsh HI). }
    rewrite E1, E2. rewrite (join_app (rev std) fs Hrs Hfs).
    destruct rd; cbn [pre app].
    + split.
      * rewrite <- (join_app (rev std) fs Hrs Hfs).
        rewrite !split_rooted_join by assumption. reflexivity.
      * rewrite <- app_assoc. reflexivity.
    + split.
      * rewrite <- (join_app (rev std) fs Hrs Hfs).
        rewrite !split_join by assumption. reflexivity.
      * rewrite <- app_assoc. reflexivity.
Qed.

(* ------------------------------------------------------------------ *)
(* the description file *)

Lemma json_noslash : noslash JSON_EXT.
Proof. intros [H|[H|[H|[H|[H|[]]]]]]; discriminate. Qed.

Lemma normal_app_json : forall l, noslash l -> normal (l ++ JSON_EXT).
Proof.
  intros l Hl. repeat split.
  - intro H. apply app_eq_nil in H. destruct H; discriminate.
  - intro H. apply (f_equal (@length Z)) in H. rewrite app_length in H. cbn in H. lia.
  - intro H. apply (f_equal (@length Z)) in H. rewrite app_length in H. cbn in H. lia.
  - intro H. apply in_app_or in H. destruct H as [H|H]; [exact (Hl H) | exact (json_noslash H)].
Qed.

Lemma desc_rel_form : forall name,
  exists fs, fs <> [] /\ Forall normal fs /\
             clean (SLASH :: name) ++ JSON_EXT = SLASH :: join fs.
Proof.
  intro name. destruct (clean_rooted_form name) as (E & Hn & _). rewrite E.
  destruct (fold_left (step true) (split name) []) as [|l st'].
  - exists [JSON_EXT]. repeat split; [discriminate|].
    constructor; [|constructor]. apply (normal_app_json []). intros [].
  - cbn [rev] in *. exists (rev st' ++ [l ++ JSON_EXT]). repeat split.
    + intro H. apply app_eq_nil in H. destruct H; discriminate.
    + apply Forall_app in Hn. destruct Hn as [Hn1 Hn2]. apply Forall_app. split; [exact Hn1|].
      constructor; [|constructor]. apply normal_app_json. apply normal_noslash.
      inversion Hn2; assumption.
    + cbn [app]. rewrite join_last_app. reflexivity.
Qed.

(* For EVERY client string: the description file name is the cleaned directory
   followed by at least one component, and every added component is normal. *)
Theorem desc_file_confined : forall d name, d <> [] ->
  exists fs, fs <> [] /\ Forall normal fs /\
    split (desc_file d name) = dir_comps d ++ fs /\
    desc_file d name = dir_prefix d ++ join fs /\
    SLASH :: join fs = clean (SLASH :: name) ++ JSON_EXT.
Proof.
  intros d name Hd. destruct (desc_rel_form name) as (fs & Hfs & Hn & E).
  exists fs. split; [exact Hfs|]. split; [exact Hn|].
  unfold desc_file, join2. rewrite E.
  destruct d as [|d0 d']; [contradiction|].
  destruct (clean_under (d0 :: d') (SLASH :: join fs) fs Hd Hfs Hn) as (H1 & H2).
  - right. apply split_rooted_join; [exact Hfs | apply normal_Forall_noslash; exact Hn].
  - auto.
Qed.

(* for a name the group layer accepts it is <directory>/<name>.json *)
Theorem desc_file_valid : forall d name, d <> [] -> valid_group_name name = true ->
  desc_file d name = dir_prefix d ++ name ++ JSON_EXT /\
  split (desc_file d name) = dir_comps d ++ split (name ++ JSON_EXT) /\
  Forall normal (split (name ++ JSON_EXT)).
Proof.
  intros d name Hd Hv. destruct (desc_file_confined d name Hd) as (fs & Hfs & Hn & H1 & H2 & H3).
  rewrite (valid_clean name Hv) in H3. cbn [app] in H3.
  assert (Hj : join fs = name ++ JSON_EXT) by congruence.
  rewrite <- Hj. rewrite split_join by (auto; apply normal_Forall_noslash; exact Hn).
  auto.
Qed.

(* an absolute directory: no ".." component anywhere in the file name *)
Lemma dir_comps_rooted : forall d, is_rooted d = true ->
  exists cs, Forall normal cs /\ (dir_comps d = [[]] \/ dir_comps d = [] :: cs).
Proof.
  intros d Hr. destruct d as [|c0 q]; [discriminate|]. cbn in Hr. apply Z.eqb_eq in Hr. subst c0.
  destruct (clean_rooted_form q) as (E & Hn & _).
  set (cs := rev (fold_left (step true) (split q) [])) in *.
  exists cs. split; [exact Hn|]. unfold dir_comps. rewrite E.
  destruct cs as [|c r] eqn:Ecs.
  - left. reflexivity.
  - right. rewrite <- Ecs in *.
    assert (Hj : join cs <> []).
    { apply join_nonnil; [rewrite Ecs; discriminate | apply normal_Forall_nonnil; exact Hn]. }
    assert (E1 : str_eqb (SLASH :: join cs) [SLASH] = false).
    { apply str_eqb_false. intro H. inversion H. contradiction. }
    assert (E2 : str_eqb (SLASH :: join cs) [DOT] = false) by (apply str_eqb_false; discriminate).
    rewrite E1, E2. apply split_rooted_join; [rewrite Ecs; discriminate|].
    apply normal_Forall_noslash. exact Hn.
Qed.

Theorem desc_file_no_dotdot : forall d name, is_rooted d = true ->
  Forall (fun c => c <> DOTDOT /\ c <> [DOT]) (split (desc_file d name)).
Proof.
  intros d name Hr.
  assert (Hd : d <> []) by (destruct d; [discriminate | discriminate]).
  destruct (desc_file_confined d name Hd) as (fs & _ & Hn & H1 & _). rewrite H1.
  destruct (dir_comps_rooted d Hr) as (cs & Hcs & Hdc).
  assert (Hnorm : forall l, Forall normal l -> Forall (fun c => c <> DOTDOT /\ c <> [DOT]) l).
  { intros l Hl. eapply Forall_impl; [|exact Hl]. intros c (_ & H2 & H3 & _). auto. }
  apply Forall_app. split; [|apply Hnorm; exact Hn].
  destruct Hdc as [-> | ->].
  - constructor; [split; discriminate | constructor].
  - constructor; [split; discriminate | apply Hnorm; exact Hcs].
Qed.

(* the files tried by getDescriptionFile (subgroup walk included) are
   description files of some string, hence confined as above *)
Lemma desc_candidates_are_desc_files : forall fuel d name sub f,
  In f (desc_candidates fuel d name sub) -> exists n', f = desc_file d n'.
Proof.
  induction fuel as [|fuel IH]; intros d name sub f H; [destruct H|].
  cbn [desc_candidates] in H. destruct name as [|c t]; [destruct H|].
  destruct H as [<-|H]; [eexists; reflexivity|].
  destruct sub; [|destruct H]. eapply IH. exact H.
Qed.

(* ------------------------------------------------------------------ *)
(* accepted names as directories: recordings *)

Lemma valid_clean_self : forall g, valid_group_name g = true ->
  clean g = g /\ dir_prefix g = g ++ [SLASH] /\ dir_comps g = split g.
Proof.
  intros g Hv. pose proof (valid_not_rooted g Hv) as Hr.
  pose proof Hv as Hv'. apply valid_iff in Hv'. destruct Hv' as (Hne & _ & Hs).
  assert (Hc : clean g = g).
  { rewrite (clean_stack g Hne). unfold stack_of. rewrite Hr.
    rewrite fold_push by exact Hs. rewrite app_nil_r.
    rewrite render_join by (apply Forall_rev, normal_Forall_nonnil; exact Hs).
    rewrite rev_involutive, join_split. cbn [pre app]. unfold finish.
    destruct g; [contradiction | reflexivity]. }
  assert (E1 : str_eqb g [SLASH] = false).
  { apply str_eqb_false. intro H. rewrite H in Hr. discriminate. }
  assert (E2 : str_eqb g [DOT] = false).
  { apply str_eqb_false. intro H. rewrite H in Hs. cbn in Hs. inversion Hs as [|? ? (_ & Hd & _) _].
    apply Hd. reflexivity. }
  unfold dir_prefix, dir_comps. rewrite Hc, E1, E2. auto.
Qed.

Theorem rec_dir_confined : forall d g, d <> [] -> valid_group_name g = true ->
  rec_dir d g = dir_prefix d ++ g /\
  split (rec_dir d g) = dir_comps d ++ split g /\ Forall normal (split g).
Proof.
  intros d g Hd Hv. pose proof Hv as Hv'. apply valid_iff in Hv'. destruct Hv' as (Hne & _ & Hs).
  unfold rec_dir, join2. destruct d as [|d0 d']; [contradiction|].
  destruct g as [|g0 g']; [contradiction|].
  destruct (clean_under (d0 :: d') (g0 :: g') (split (g0 :: g')) Hd (split_nonnil _) Hs) as (H1 & H2).
  - left. reflexivity.
  - rewrite join_split in H2. auto.
Qed.

(* ------------------------------------------------------------------ *)
(* sanitise and the recording file name *)

Lemma sanitise_piece : forall c x,
  In x (if c =? SLASH then SLASH_WORD else if c =? BACKSLASH then BACKSLASH_WORD else [c]) ->
  x <> SLASH /\ x <> BACKSLASH.
Proof.
  intros c x H. destruct (c =? SLASH) eqn:E1; [|destruct (c =? BACKSLASH) eqn:E2].
  - unfold SLASH_WORD in H. cbn [In] in H.
    repeat (destruct H as [H|H]; [subst x; split; discriminate|]). destruct H.
  - unfold BACKSLASH_WORD in H. cbn [In] in H.
    repeat (destruct H as [H|H]; [subst x; split; discriminate|]). destruct H.
  - destruct H as [H|[]]. subst x. apply Z.eqb_neq in E1. apply Z.eqb_neq in E2. auto.
Qed.

Theorem sanitise_no_separator : forall s,
  ~ In SLASH (sanitise s) /\ ~ In BACKSLASH (sanitise s).
Proof.
  intro s. unfold sanitise. split; intro H; apply in_flat_map in H;
    destruct H as (c & _ & H); apply sanitise_piece in H; destruct H; congruence.
Qed.

Lemma two_digits_noslash : forall c, 0 <= c < 100 -> noslash (two_digits c).
Proof.
  intros c Hc [H|[H|[]]]; unfold SLASH in H.
  - pose proof (Z.div_pos c 10 ltac:(lia) ltac:(lia)). lia.
  - pose proof (Z.mod_pos_bound c 10 ltac:(lia)). lia.
Qed.

Lemma noslash_app : forall a b, noslash a -> noslash b -> noslash (a ++ b).
Proof. intros a b Ha Hb H. apply in_app_or in H. destruct H; [apply Ha | apply Hb]; assumption. Qed.

Lemma noslash_cons : forall x b, x <> SLASH -> noslash b -> noslash (x :: b).
Proof. intros x b Hx Hb [H|H]; [congruence | exact (Hb H)]. Qed.

Theorem rec_file_name_component : forall stamp user counter ext,
  noslash stamp -> noslash ext -> 0 <= counter < 100 ->
  stamp <> [] -> hd 0 stamp <> DOT ->
  normal (rec_file_name stamp user counter ext) /\
  split (rec_file_name stamp user counter ext) = [rec_file_name stamp user counter ext].
Proof.
  intros stamp user counter ext Hst Hext Hc Hne Hd.
  assert (Hform : exists rest, rec_file_name stamp user counter ext = stamp ++ rest /\ noslash rest).
  { unfold rec_file_name.
    assert (Htail : forall (b : bool), noslash (if b then DOT :: ext else DASH :: two_digits counter ++ DOT :: ext)).
    { intros [|].
      - apply noslash_cons; [discriminate | exact Hext].
      - apply noslash_cons; [discriminate|]. apply noslash_app; [apply two_digits_noslash; exact Hc|].
        apply noslash_cons; [discriminate | exact Hext]. }
    destruct user as [|u0 u'].
    - exists (if counter =? 0 then DOT :: ext else DASH :: two_digits counter ++ DOT :: ext).
      split; [destruct (counter =? 0); reflexivity | apply Htail].
    - exists ((DASH :: sanitise (u0 :: u')) ++
              (if counter =? 0 then DOT :: ext else DASH :: two_digits counter ++ DOT :: ext)).
      split; [destruct (counter =? 0); rewrite <- app_assoc; reflexivity|].
      apply noslash_app; [|apply Htail].
      apply noslash_cons; [discriminate | apply sanitise_no_separator]. }
  destruct Hform as (rest & -> & Hrest).
  assert (Hns : noslash (stamp ++ rest)) by (apply noslash_app; assumption).
  split; [|apply split_single; exact Hns].
  destruct stamp as [|s0 st]; [contradiction|]. cbn [hd] in Hd.
  repeat split; try discriminate; try exact Hns.
  - intro H. inversion H. contradiction.
  - intro H. inversion H. contradiction.
Qed.

Theorem rec_path_confined : forall d g stamp user counter ext,
  d <> [] -> valid_group_name g = true ->
  noslash stamp -> noslash ext -> 0 <= counter < 100 -> stamp <> [] -> hd 0 stamp <> DOT ->
  split (rec_path d g stamp user counter ext) =
    dir_comps d ++ split g ++ [rec_file_name stamp user counter ext] /\
  Forall normal (split g ++ [rec_file_name stamp user counter ext]).
Proof.
  intros d g stamp user counter ext Hd Hv H1 H2 H3 H4 H5.
  destruct (rec_dir_confined d g Hd Hv) as (_ & Hs & Hn).
  destruct (rec_file_name_component stamp user counter ext H1 H2 H3 H4 H5) as (Hf & Hsf).
  unfold rec_path. rewrite split_app_slash, Hs, Hsf, <- app_assoc. split; [reflexivity|].
  apply Forall_app. split; [exact Hn | constructor; [exact Hf | constructor]].
Qed.

(* ------------------------------------------------------------------ *)
(* the delete action of the recordings page *)

Lemma clean_single : forall f, noslash f -> f <> [] ->
  ((f = [DOT] \/ f = DOTDOT) /\ clean (SLASH :: f) = [SLASH]) \/
  (normal f /\ clean (SLASH :: f) = SLASH :: f).
Proof.
  intros f Hsl Hne. destruct (clean_rooted_form f) as (E & _ & _).
  rewrite split_single in E by exact Hsl. cbn [fold_left] in E.
  destruct (str_eqb f [DOT]) eqn:E1; [|destruct (str_eqb f DOTDOT) eqn:E2].
  - apply str_eqb_spec in E1. subst f. left. split; [left; reflexivity | exact E].
  - apply str_eqb_spec in E2. subst f. left. split; [right; reflexivity | exact E].
  - apply str_eqb_false in E1. apply str_eqb_false in E2.
    assert (Hn : normal f) by (repeat split; assumption).
    right. split; [exact Hn|]. rewrite step_normal in E by exact Hn. exact E.
Qed.

Lemma join2_root : forall g, valid_group_name g = true -> join2 g [SLASH] = g.
Proof.
  intros g Hv. pose proof (valid_clean_self g Hv) as (Hcg & _ & _).
  pose proof Hv as Hv'. apply valid_iff in Hv'. destruct Hv' as (Hne & _ & _).
  assert (Hst : clean (g ++ SLASH :: [SLASH]) = clean g).
  { rewrite (clean_stack g Hne).
    rewrite clean_stack by (destruct g; [contradiction | discriminate]).
    unfold stack_of. rewrite is_rooted_app by exact Hne. rewrite split_app_slash, fold_left_app.
    replace (split [SLASH]) with ([[]; []] : list str) by reflexivity.
    reflexivity. }
  unfold join2. destruct g as [|g0 g']; [contradiction|]. rewrite Hst. exact Hcg.
Qed.

Lemma join2_child : forall g f, valid_group_name g = true -> normal f ->
  join2 g (SLASH :: f) = g ++ SLASH :: f.
Proof.
  intros g f Hv Hn. pose proof (valid_clean_self g Hv) as (_ & Hpg & _).
  pose proof Hv as Hv'. apply valid_iff in Hv'. destruct Hv' as (Hne & _ & _).
  assert (Hfs : [f] <> []) by discriminate.
  assert (Hnf : Forall normal [f]) by (constructor; [exact Hn | constructor]).
  destruct (clean_under g (SLASH :: f) [f] Hne Hfs Hnf) as (_ & H2).
  - right. rewrite split_cons_slash, split_single by (apply normal_noslash; exact Hn). reflexivity.
  - unfold join2. destruct g as [|g0 g']; [contradiction|].
    rewrite H2, Hpg. cbn [join]. rewrite <- app_assoc. reflexivity.
Qed.

(* the target of root.Remove is the group's directory itself (filename "."
   or "..") or a single normal component below it *)
Theorem delete_target_confined : forall g f t,
  valid_group_name g = true -> delete_target g f = Some t ->
  (t = g /\ (f = [DOT] \/ f = DOTDOT)) \/
  (t = g ++ SLASH :: f /\ normal f).
Proof.
  intros g f t Hv H. unfold delete_target in H.
  destruct g as [|g0 g'] eqn:Eg; [discriminate|]. rewrite <- Eg in *.
  destruct f as [|f0 f'] eqn:Ef; [discriminate|]. rewrite <- Ef in *.
  destruct (contains SLASH f) eqn:Esl; [discriminate|]. apply contains_false in Esl.
  assert (Hfne : f <> []) by (rewrite Ef; discriminate).
  assert (Ht : t = join2 g (clean (SLASH :: f))) by congruence.
  destruct (clean_single f Esl Hfne) as [(Hd & Ec) | (Hn & Ec)]; rewrite Ec in Ht.
  - left. rewrite join2_root in Ht by exact Hv. auto.
  - right. rewrite join2_child in Ht by assumption. auto.
Qed.

(* ------------------------------------------------------------------ *)
(* the administrative API (finding F21) *)

(* PUT /galene-api/v0/.groups/a\b: the handler passes "a\b" on *)
Lemma api_names_refuted_witness :
  let pth := [SLASH; 97; BACKSLASH; 98] in
  api_group_name pth = [97; BACKSLASH; 98] /\
  valid_group_name (api_group_name pth) = false.
Proof. cbv zeta. split; vm_compute; reflexivity. Qed.

(* ------------------------------------------------------------------ *)
(* the subgroup walk of getDescriptionFile terminates within the fuel of
   [desc_files]: the parent of a non-empty name is strictly shorter *)

Lemma trim_length : forall s, (length (trim_right_slash s) <= length s)%nat.
Proof.
  induction s as [|c t IH]; [cbn; lia|]. cbn [trim_right_slash].
  destruct (trim_right_slash t) as [|x r].
  - destruct (c =? SLASH); cbn; lia.
  - cbn [length] in *. lia.
Qed.

Lemma trim_snoc_slash : forall s, trim_right_slash (s ++ [SLASH]) = trim_right_slash s.
Proof.
  induction s as [|c t IH]; [reflexivity|]. cbn [app trim_right_slash]. rewrite IH. reflexivity.
Qed.

Lemma split_last_nonnil : forall t, contains SLASH t = true ->
  fst (split_last_slash t) <> [].
Proof.
  induction t as [|x t' IH]; intro Hc; [discriminate|].
  cbn [split_last_slash]. destruct (split_last_slash t') as (d2, f2) eqn:E2.
  destruct (contains SLASH t') eqn:Ec2; [cbn; discriminate|].
  destruct (x =? SLASH) eqn:Ex; [cbn; discriminate|].
  unfold contains in Hc, Ec2. cbn [existsb] in Hc. rewrite Z.eqb_sym, Ex, Ec2 in Hc. discriminate.
Qed.

Lemma split_last_fst : forall s,
  (length (fst (split_last_slash s)) <= length s)%nat /\
  (fst (split_last_slash s) = [] \/ exists d', fst (split_last_slash s) = d' ++ [SLASH]).
Proof.
  induction s as [|c t IH]; [cbn; auto|].
  destruct IH as (IH1 & IH2). cbn [split_last_slash].
  pose proof (split_last_nonnil t) as Hnn.
  destruct (split_last_slash t) as (d, f) eqn:E. cbn [fst] in *.
  destruct (contains SLASH t) eqn:Ec.
  - cbn [fst length]. split; [lia|]. right.
    destruct IH2 as [Hd|(d' & Hd)].
    + exfalso. exact (Hnn eq_refl Hd).
    + exists (c :: d'). rewrite Hd. reflexivity.
  - destruct (c =? SLASH) eqn:Ex; cbn [fst length]; split; try lia.
    + right. exists []. apply Z.eqb_eq in Ex. subst c. reflexivity.
    + left. reflexivity.
Qed.

Lemma parent_shorter : forall name, name <> [] ->
  (length (parent_name name) < length name)%nat.
Proof.
  intros name Hne. unfold parent_name.
  destruct (split_last_fst name) as (H1 & [H2|(d' & H2)]); rewrite H2 in *.
  - cbn. destruct name; [contradiction | cbn; lia].
  - rewrite trim_snoc_slash. pose proof (trim_length d'). rewrite app_length in H1. cbn in H1. lia.
Qed.

Lemma desc_candidates_fuel : forall fuel1 fuel2 d name sub,
  (length name < fuel1)%nat -> (length name < fuel2)%nat ->
  desc_candidates fuel1 d name sub = desc_candidates fuel2 d name sub.
Proof.
  induction fuel1 as [|f1 IH]; intros fuel2 d name sub H1 H2; [lia|].
  destruct fuel2 as [|f2]; [lia|]. cbn [desc_candidates].
  destruct name as [|c t] eqn:En; [reflexivity|]. rewrite <- En in *.
  f_equal. destruct sub; [|reflexivity].
  assert (Hp : (length (parent_name name) < length name)%nat)
    by (apply parent_shorter; rewrite En; discriminate).
  apply IH; lia.
Qed.

(* ------------------------------------------------------------------ *)
(* statements as used by Properties/C19.v *)

Lemma valid_relative : forall s, valid_group_name s = true ->
  s <> [] /\ hd 0 s <> SLASH /\ ~ In BACKSLASH s /\
  ~ In [] (split s) /\ ~ In [DOT] (split s) /\ ~ In DOTDOT (split s).
Proof.
  intros s Hv. pose proof (valid_not_rooted s Hv) as Hr.
  apply valid_iff in Hv. destruct Hv as (Hne & Hb & Hs).
  rewrite Forall_forall in Hs.
  repeat split; auto.
  - destruct s as [|c t]; [contradiction|]. cbn in *. apply Z.eqb_neq. exact Hr.
  - intro H. apply Hs in H. destruct H as (H & _). apply H. reflexivity.
  - intro H. apply Hs in H. destruct H as (_ & H & _). apply H. reflexivity.
  - intro H. apply Hs in H. destruct H as (_ & _ & H & _). apply H. reflexivity.
Qed.

Lemma api_desc_file_confined : forall d pth, d <> [] ->
  exists fs, fs <> [] /\ Forall normal fs /\
    split (desc_file d (api_group_name pth)) = dir_comps d ++ fs /\
    desc_file d (api_group_name pth) = dir_prefix d ++ join fs.
Proof.
  intros d pth Hd. destruct (desc_file_confined d (api_group_name pth) Hd) as (fs & H1 & H2 & H3 & H4 & _).
  exists fs. auto.
Qed.

Lemma desc_files_confined : forall d name sub f, d <> [] ->
  In f (desc_files d name sub) ->
  exists fs, fs <> [] /\ Forall normal fs /\
    split f = dir_comps d ++ fs /\ f = dir_prefix d ++ join fs.
Proof.
  intros d name sub f Hd Hin. unfold desc_files in Hin.
  apply desc_candidates_are_desc_files in Hin. destruct Hin as (n' & ->).
  destruct (desc_file_confined d n' Hd) as (fs & H1 & H2 & H3 & H4 & _).
  exists fs. auto.
Qed.

Lemma desc_files_fuel : forall fuel d name sub, (length name < fuel)%nat ->
  desc_candidates fuel d name sub = desc_files d name sub.
Proof. intros. unfold desc_files. apply desc_candidates_fuel; lia. Qed.

(* ------------------------------------------------------------------ *)
(* GetPermission: whichever way the username enters, an accepted join has a
   username that obeys the rule, and it is the token's or the client's *)
Lemma get_permission_username_valid :
  forall tok_present parse_ok needs check cuser user_exists password_ok u,
  get_permission_username tok_present parse_ok needs check cuser user_exists password_ok = Some u ->
  valid_username u = true /\
  (u = [] \/ valid_group_name u = true) /\
  (check = Some u \/ cuser = Some u).
Proof.
  intros tp po nd check cuser ue pw u H. unfold get_permission_username in H.
  match type of H with (match ?r with _ => _ end) = _ => destruct r as [w|] eqn:Er end;
    [|discriminate].
  destruct (valid_username w) eqn:Ev; [|discriminate]. inversion H; subst w. clear H.
  split; [exact Ev|]. split; [apply valid_username_iff; exact Ev|].
  destruct tp.
  - destruct (negb po); [discriminate|].
    destruct ((match cuser with None => true | Some _ => false end) && nd); [discriminate|].
    destruct check as [tu|]; [|discriminate].
    destruct tu as [|t0 tu'].
    + destruct cuser as [cu|].
      * destruct ue; [discriminate|]. inversion Er. right. reflexivity.
      * inversion Er. left. reflexivity.
    + inversion Er. left. reflexivity.
  - destruct cuser as [cu|]; [|discriminate]. destruct pw; [|discriminate].
    inversion Er. right. reflexivity.
Qed.

(* C17: no response carries a password, a password hash or a key.
   1. [no_secret_out]: every description / user value placed in a response
      has its users, wildcard user, keys / its password cleared.
   2. [response_public]: the whole response (status and body) is a function
      of the environment with every password and key erased, of the request,
      and of the single bit "the credentials pass the check of this route". *)
From Coq Require Import List String Bool ZArith.
From Galene Require Import Model.Api.
Import ListNotations.
Open Scope string_scope.

Definition body_clean (b : body_out) : Prop :=
  match b with
  | BODesc d => d_users d = [] /\ d_wildcard d = None /\ d_keys d = []
  | BOUser u => u_password u = empty_password
  | _ => True
  end.

Lemma send_json_clean : forall m b, body_clean b -> body_clean (rs_body (send_json m b)).
Proof. intros m b Hb. unfold send_json. cbn. destruct (String.eqb m "HEAD"); cbn; auto. Qed.

(* ------------------------------------------------------------------ *)
(* erasing the secrets of an environment                                *)

Definition erase_users (l : list (string * user_desc)) : list (string * user_desc) :=
  map (fun kv => (fst kv, sanitise_user (snd kv))) l.

Definition erase_desc (d : description) : description :=
  {| d_pub := d_pub d; d_users := erase_users (d_users d);
     d_wildcard := option_map sanitise_user (d_wildcard d); d_keys := [] |}.

Definition erase_groups (l : list (string * description)) : list (string * description) :=
  map (fun kv => (fst kv, erase_desc (snd kv))) l.

(* config.json is erased entirely: no response depends on it *)
Definition public_env (e : env) : env :=
  {| e_conf := []; e_writable := e_writable e; e_store_ok := e_store_ok e;
     e_groups := erase_groups (e_groups e);
     e_tokens := e_tokens e |}.

Lemma assoc_get_map : forall A B (f : A -> B) (l : list (string * A)) k,
  assoc_get (map (fun kv => (fst kv, f (snd kv))) l) k = option_map f (assoc_get l k).
Proof.
  induction l as [|[k0 v] l IH]; intro k; cbn; [reflexivity|].
  destruct (String.eqb k k0); [reflexivity|apply IH].
Qed.

Lemma file_lookup_public : forall e g,
  file_lookup (public_env e) g = option_map erase_desc (file_lookup e g).
Proof.
  intros e g. unfold file_lookup. destruct (String.eqb g ""); [reflexivity|].
  cbn [public_env e_groups]. unfold erase_groups. apply assoc_get_map.
Qed.

Definition erase_res (x : description * bool) : description * bool := (erase_desc (fst x), snd x).

Lemma get_desc_loop_public : forall fuel e name issub,
  get_desc_loop fuel (public_env e) name issub =
  option_map erase_res (get_desc_loop fuel e name issub).
Proof.
  induction fuel as [|f IH]; intros e name issub; cbn [get_desc_loop]; [reflexivity|].
  destruct (String.eqb name ""); [reflexivity|].
  cbn [public_env e_groups]. unfold erase_groups. rewrite assoc_get_map.
  destruct (assoc_get (e_groups e) (clean_name name)) as [d|]; cbn [option_map].
  - cbn [erase_desc d_pub]. destruct (issub && negb (p_auto_subgroups (d_pub d))); reflexivity.
  - apply IH.
Qed.

Lemma get_description_public : forall e g,
  get_description (public_env e) g = option_map erase_res (get_description e g).
Proof. intros. apply get_desc_loop_public. Qed.

Lemma find_user_erase : forall d u w,
  find_user (erase_desc d) u w = option_map sanitise_user (find_user d u w).
Proof.
  intros d u w. unfold find_user. destruct w; cbn [erase_desc d_wildcard d_users]; [reflexivity|].
  unfold erase_users. apply assoc_get_map.
Qed.

Lemma sanitise_user_idem : forall u, sanitise_user (sanitise_user u) = sanitise_user u.
Proof. reflexivity. Qed.

Lemma sanitise_desc_erase : forall d, sanitise_desc (erase_desc d) = sanitise_desc d.
Proof. reflexivity. Qed.

Lemma map_fst_erase_users : forall l, map fst (erase_users l) = map fst l.
Proof. induction l as [|[k v] l IH]; cbn; [reflexivity|]. f_equal. exact IH. Qed.

Lemma map_fst_erase_groups : forall l, map fst (erase_groups l) = map fst l.
Proof. induction l as [|[k v] l IH]; cbn; [reflexivity|]. f_equal. exact IH. Qed.

Lemma res_eq : forall x1 x2 : option (description * bool),
  option_map erase_res x1 = option_map erase_res x2 ->
  match x1, x2 with
  | Some (d1, s1), Some (d2, s2) => erase_desc d1 = erase_desc d2 /\ s1 = s2
  | None, None => True
  | _, _ => False
  end.
Proof.
  intros [[d1 s1]|] [[d2 s2]|] X; cbn [option_map] in X; try discriminate; [|exact I].
  assert (A : erase_res (d1, s1) = erase_res (d2, s2)) by congruence.
  split; [exact (f_equal fst A) | exact (f_equal snd A)].
Qed.

Lemma desc_eq : forall x1 x2 : option description,
  option_map erase_desc x1 = option_map erase_desc x2 ->
  match x1, x2 with
  | Some d1, Some d2 => erase_desc d1 = erase_desc d2
  | None, None => True
  | _, _ => False
  end.
Proof.
  intros [d1|] [d2|] X; cbn [option_map] in X; try discriminate; [|exact I].
  congruence.
Qed.

Section WithHash.
Variable H : string -> string -> string.

(* ------------------------------------------------------------------ *)
(* 1. cleared values                                                    *)

Ltac split_ifs :=
  repeat match goal with
         | |- context [if ?x then _ else _] => destruct x eqn:?
         | |- context [match ?x with _ => _ end] => destruct x eqn:?
         end.

Lemma json_body_err : forall b r, json_body b = inl r -> rs_body r = BOFixed.
Proof.
  intros b r. unfold json_body.
  destruct (bi_ctype b); try (intro X; inversion X; reflexivity).
  destruct (bi_payload b); intro X; inversion X; reflexivity.
Qed.

Ltac json_err :=
  match goal with
  | Hj : json_body _ = inl ?r |- _ => cbn [snd]; rewrite (json_body_err _ _ Hj); exact I
  end.

Lemma rewrite_file_body : forall e g d r, rs_body (snd (rewrite_file e g d r)) = rs_body r \/
  rs_body (snd (rewrite_file e g d r)) = BOFixed.
Proof. intros. unfold rewrite_file. destruct (e_writable e), (e_store_ok e); cbn; auto. Qed.

Lemma rewrite_file_clean : forall e g d r, body_clean (rs_body r) ->
  body_clean (rs_body (snd (rewrite_file e g d r))).
Proof.
  intros e g d r Hr. destruct (rewrite_file_body e g d r) as [-> | ->]; [exact Hr|exact I].
Qed.

Lemma do_set_password_clean : forall e g u w pw,
  body_clean (rs_body (snd (do_set_password e g u w pw))).
Proof.
  intros. unfold do_set_password. split_ifs; try exact I. apply rewrite_file_clean. exact I.
Qed.

Lemma no_secret_out : forall e s m c b, body_clean (rs_body (snd (dispatch H e s m c b))).
Proof.
  intros e s m c b.
  destruct s; cbn [dispatch].
  - exact I.
  - unfold stats_handler. split_ifs; try exact I. apply send_json_clean. exact I.
  - unfold group_list_handler. split_ifs; try exact I. apply send_json_clean. exact I.
  - unfold group_handler. split_ifs; try exact I; try json_err;
      try (apply send_json_clean; cbn; auto);
      try (apply rewrite_file_clean; exact I).
  - unfold user_list_handler. split_ifs; try exact I. apply send_json_clean. exact I.
  - unfold user_handler.
    destruct (api_cors m); [exact I|]. destruct (negb (is_admin H e g c)); [exact I|].
    destruct (is_get m).
    { unfold get_sanitised_user. destruct (get_description e g) as [[d sub]|]; [|exact I].
      destruct (find_user d u wild); cbn [option_map]; [|exact I].
      apply send_json_clean. reflexivity. }
    split_ifs; try exact I; try json_err; try (apply rewrite_file_clean; exact I).
  - unfold password_handler. split_ifs; try exact I; try json_err; apply do_set_password_clean.
  - unfold keys_handler. split_ifs; try exact I; apply rewrite_file_clean; exact I.
  - unfold tokens_handler. split_ifs; try exact I; try json_err; apply send_json_clean; exact I.
  - unfold tokens_handler. split_ifs; try exact I; try json_err; apply send_json_clean; exact I.
  - unfold auth_not_found_handler. split_ifs; exact I.
Qed.

(* ------------------------------------------------------------------ *)
(* 2. the response is a function of the erased environment              *)

(* the status part of the update functions depends on existence only *)
Lemma update_user_erase : forall d u w nu,
  match update_user d u w nu, update_user (erase_desc d) u w nu with
  | Some _, Some _ | None, None => True
  | _, _ => False
  end.
Proof. intros. unfold update_user. destruct (negb (password_is_empty (u_password nu))); exact I. Qed.

Lemma set_password_erase : forall d u w pw,
  match set_password d u w pw, set_password (erase_desc d) u w pw with
  | Some _, Some _ | None, None => True
  | _, _ => False
  end.
Proof.
  intros. unfold set_password. rewrite find_user_erase.
  destruct (find_user d u w); exact I.
Qed.

Lemma delete_user_erase : forall d u w,
  match delete_user d u w, delete_user (erase_desc d) u w with
  | Some _, Some _ | None, None => True
  | _, _ => False
  end.
Proof.
  intros. unfold delete_user. rewrite find_user_erase.
  destruct (find_user d u w); exact I.
Qed.

Lemma rewrite_file_public : forall e g d d' r,
  snd (rewrite_file e g d r) = snd (rewrite_file (public_env e) g d' r).
Proof.
  intros. unfold rewrite_file. cbn [public_env e_writable e_store_ok].
  destruct (e_writable e), (e_store_ok e); reflexivity.
Qed.

Lemma do_set_password_public : forall e g u w pw,
  snd (do_set_password e g u w pw) = snd (do_set_password (public_env e) g u w pw).
Proof.
  intros. unfold do_set_password. rewrite file_lookup_public.
  destruct (file_lookup e g) as [d|]; cbn [option_map]; [|reflexivity].
  pose proof (set_password_erase d u w pw) as K.
  destruct (set_password d u w pw), (set_password (erase_desc d) u w pw); try contradiction.
  - apply rewrite_file_public.
  - reflexivity.
Qed.

(* the theorem compares two runs *)
Lemma response_public : forall e1 e2 s m c1 c2 b,
  public_env e1 = public_env e2 ->
  authorised H e1 s c1 = authorised H e2 s c2 ->
  snd (dispatch H e1 s m c1 b) = snd (dispatch H e2 s m c2 b).
Proof.
  intros e1 e2 s m c1 c2 b Hp Ha.
  assert (Hw : e_writable e1 = e_writable e2) by (apply (f_equal e_writable) in Hp; exact Hp).
  assert (Hso : e_store_ok e1 = e_store_ok e2) by (apply (f_equal e_store_ok) in Hp; exact Hp).
  assert (Hn : map fst (e_groups e1) = map fst (e_groups e2)).
  { apply (f_equal e_groups) in Hp. cbn in Hp.
    rewrite <- (map_fst_erase_groups (e_groups e1)), <- (map_fst_erase_groups (e_groups e2)).
    rewrite Hp. reflexivity. }
  assert (Ht : e_tokens e1 = e_tokens e2) by (apply (f_equal e_tokens) in Hp; exact Hp).
  assert (Hf : forall g, option_map erase_desc (file_lookup e1 g) =
                         option_map erase_desc (file_lookup e2 g)).
  { intro g. rewrite <- !file_lookup_public, Hp. reflexivity. }
  assert (Hd : forall g, option_map erase_res (get_description e1 g) =
                         option_map erase_res (get_description e2 g)).
  { intro g. rewrite <- !get_description_public, Hp. reflexivity. }
  destruct s; cbn [dispatch authorised] in *.
  - reflexivity.
  - unfold stats_handler. rewrite Ha. split_ifs; reflexivity.
  - unfold group_list_handler. rewrite Ha, Hn. split_ifs; reflexivity.
  - (* SGroup *)
    unfold group_handler. rewrite Ha.
    destruct (api_cors m); [reflexivity|]. destruct (negb (is_admin H e2 g c2)); [reflexivity|].
    destruct (is_get m).
    { pose proof (res_eq _ _ (Hd g)) as R.
      destruct (get_description e1 g) as [[d1 s1]|], (get_description e2 g) as [[d2 s2]|];
        try contradiction; [|reflexivity].
      destruct R as [Rx ->]. destruct s2; [reflexivity|]. cbn [snd].
      rewrite <- (sanitise_desc_erase d1), <- (sanitise_desc_erase d2), Rx. reflexivity. }
    pose proof (desc_eq _ _ (Hf g)) as F.
    destruct (String.eqb m "PUT").
    { destruct (json_body b) as [r|p]; [reflexivity|]. destruct p; try reflexivity.
      unfold update_description.
      destruct (db_users b0 || db_wildcard b0 || db_keys b0); [reflexivity|].
      unfold rewrite_file. rewrite Hw, Hso.
      destruct (file_lookup e1 g), (file_lookup e2 g); try contradiction;
        destruct (e_writable e2), (e_store_ok e2); reflexivity. }
    destruct (String.eqb m "DELETE"); [|reflexivity].
    destruct (file_lookup e1 g), (file_lookup e2 g); try contradiction; reflexivity.
  - (* SUserList *)
    unfold user_list_handler. rewrite Ha.
    destruct (api_cors m); [reflexivity|]. destruct (negb (is_admin H e2 g c2)); [reflexivity|].
    destruct (negb (is_get m)); [reflexivity|].
    pose proof (res_eq _ _ (Hd g)) as R.
    destruct (get_description e1 g) as [[d1 s1]|], (get_description e2 g) as [[d2 s2]|];
      try contradiction; [|reflexivity].
    destruct R as [Rx _]. cbn [snd].
    apply (f_equal d_users) in Rx. cbn [erase_desc d_users] in Rx.
    rewrite <- (map_fst_erase_users (d_users d1)), <- (map_fst_erase_users (d_users d2)), Rx.
    reflexivity.
  - (* SUser *)
    unfold user_handler. rewrite Ha.
    destruct (api_cors m); [reflexivity|]. destruct (negb (is_admin H e2 g c2)); [reflexivity|].
    assert (Hsu : get_sanitised_user e1 g u wild = get_sanitised_user e2 g u wild).
    { unfold get_sanitised_user. pose proof (res_eq _ _ (Hd g)) as R.
      destruct (get_description e1 g) as [[d1 s1]|], (get_description e2 g) as [[d2 s2]|];
        try contradiction; [|reflexivity].
      destruct R as [Rx _].
      rewrite <- !find_user_erase, Rx. reflexivity. }
    destruct (is_get m); [rewrite Hsu; destruct (get_sanitised_user e2 g u wild); reflexivity|].
    pose proof (desc_eq _ _ (Hf g)) as F.
    assert (Hfu : forall d1 d2, erase_desc d1 = erase_desc d2 ->
              match find_user d1 u wild, find_user d2 u wild with
              | Some _, Some _ | None, None => True | _, _ => False end).
    { intros d1 d2 Rx. pose proof (find_user_erase d1 u wild) as F1.
      rewrite Rx, find_user_erase in F1.
      destruct (find_user d1 u wild), (find_user d2 u wild); cbn in F1; try discriminate; exact I. }
    destruct (String.eqb m "PUT").
    { destruct (json_body b) as [r|p]; [reflexivity|]. destruct p; try reflexivity.
      destruct (negb (password_is_empty (u_password u0))) eqn:Epw; [reflexivity|].
      destruct (file_lookup e1 g) as [d1|], (file_lookup e2 g) as [d2|]; try contradiction;
        [|reflexivity].
      unfold update_user. rewrite Epw.
      pose proof (Hfu d1 d2 F) as K.
      unfold rewrite_file. rewrite Hw, Hso.
      destruct (find_user d1 u wild), (find_user d2 u wild); try contradiction;
        destruct (e_writable e2), (e_store_ok e2); reflexivity. }
    destruct (String.eqb m "DELETE"); [|reflexivity].
    rewrite Hsu. destruct (get_sanitised_user e2 g u wild); [|reflexivity].
    destruct (file_lookup e1 g) as [d1|], (file_lookup e2 g) as [d2|]; try contradiction;
      [|reflexivity].
    unfold delete_user.
    pose proof (Hfu d1 d2 F) as K.
    unfold rewrite_file. rewrite Hw, Hso.
    destruct (find_user d1 u wild), (find_user d2 u wild); try contradiction;
      destruct (e_writable e2), (e_store_ok e2); reflexivity.
  - (* SPassword *)
    unfold password_handler. rewrite Ha.
    destruct (api_cors m); [reflexivity|].
    destruct (negb (if wild then is_admin H e2 g c2 else is_admin_or_explicit H e2 g u c2));
      [reflexivity|].
    assert (Hs : forall pw, snd (do_set_password e1 g u wild pw) = snd (do_set_password e2 g u wild pw)).
    { intro pw. rewrite (do_set_password_public e1), (do_set_password_public e2), Hp. reflexivity. }
    split_ifs; try reflexivity; apply Hs.
  - (* SKeys *)
    unfold keys_handler. rewrite Ha.
    destruct (api_cors m); [reflexivity|]. destruct (negb (is_admin H e2 g c2)); [reflexivity|].
    pose proof (desc_eq _ _ (Hf g)) as F. unfold rewrite_file. rewrite Hw, Hso.
    destruct (file_lookup e1 g), (file_lookup e2 g); try contradiction;
      split_ifs; reflexivity.
  - (* STokens *)
    unfold tokens_handler. rewrite Ha, Ht.
    destruct (api_cors m); [reflexivity|]. destruct (negb (is_admin H e2 g c2)); [reflexivity|].
    pose proof (res_eq _ _ (Hd g)) as R.
    destruct (get_description e1 g) as [[? ?]|], (get_description e2 g) as [[? ?]|];
      try contradiction; split_ifs; reflexivity.
  - (* SToken *)
    unfold tokens_handler. rewrite Ha, Ht.
    destruct (api_cors m); [reflexivity|]. destruct (negb (is_admin H e2 g c2)); [reflexivity|].
    pose proof (res_eq _ _ (Hd g)) as R.
    destruct (get_description e1 g) as [[? ?]|], (get_description e2 g) as [[? ?]|];
      try contradiction; split_ifs; reflexivity.
  - unfold auth_not_found_handler. rewrite Ha. split_ifs; reflexivity.
Qed.

End WithHash.

(* makeETag (Model/DescStore.v): the tag is a well-formed strong entity-tag,
   never empty, and determines the stamp (size, mtime). *)
From Coq Require Import ZArith List Bool Lia.
From Coq Require Decimal DecimalZ DecimalPos.
From Galene Require Import Model.Etag Proofs.EtagSpec Model.DescStore.
Import ListNotations.
Open Scope Z_scope.

Definition digit (c : Z) : Prop := 48 <= c <= 57.

Lemma uint_bytes_digits : forall d, Forall digit (uint_bytes d).
Proof.
  induction d; cbn [uint_bytes]; constructor; try assumption; unfold digit; lia.
Qed.

Lemma uint_bytes_inj : forall a b, uint_bytes a = uint_bytes b -> a = b.
Proof.
  induction a; destruct b; cbn [uint_bytes]; intro H;
    try reflexivity; try discriminate;
    injection H as H; f_equal; apply IHa; exact H.
Qed.

Lemma uint_bytes_nonnil : forall d, d <> Decimal.Nil -> uint_bytes d <> [].
Proof. destruct d; cbn [uint_bytes]; intros H; try discriminate. congruence. Qed.

Lemma to_int_nonnil : forall z,
  match Z.to_int z with Decimal.Pos d | Decimal.Neg d => d <> Decimal.Nil end.
Proof.
  destruct z; cbn [Z.to_int].
  - discriminate.
  - apply DecimalPos.Unsigned.to_uint_nonnil.
  - apply DecimalPos.Unsigned.to_uint_nonnil.
Qed.

(* dec z = sign ++ digits, digits non-empty *)
Lemma dec_shape : forall z,
  exists sg ds, dec z = sg ++ ds /\ (sg = [] \/ sg = [45]) /\ Forall digit ds /\ ds <> [].
Proof.
  intro z. unfold dec. pose proof (to_int_nonnil z) as N.
  destruct (Z.to_int z) as [d|d].
  - exists [], (uint_bytes d). repeat split; auto using uint_bytes_digits, uint_bytes_nonnil.
  - exists [45], (uint_bytes d). repeat split; auto using uint_bytes_digits, uint_bytes_nonnil.
Qed.

Lemma dec_inj : forall a b, dec a = dec b -> a = b.
Proof.
  intros a b H. unfold dec in H. apply DecimalZ.to_int_inj.
  destruct (Z.to_int a) as [d|d], (Z.to_int b) as [e|e].
  - f_equal. apply uint_bytes_inj. exact H.
  - exfalso. pose proof (uint_bytes_digits d) as F. rewrite H in F.
    inversion F as [|? ? Hd _]. unfold digit in Hd. lia.
  - exfalso. pose proof (uint_bytes_digits e) as F. rewrite <- H in F.
    inversion F as [|? ? Hd _]. unfold digit in Hd. lia.
  - f_equal. apply uint_bytes_inj. injection H as H. exact H.
Qed.

Lemma digits_split : forall l1 l2 r1 r2,
  Forall digit l1 -> Forall digit l2 ->
  l1 ++ 45 :: r1 = l2 ++ 45 :: r2 -> l1 = l2 /\ r1 = r2.
Proof.
  induction l1 as [|a l1 IH]; intros l2 r1 r2 F1 F2 H; destruct l2 as [|b l2]; cbn [app] in H.
  - injection H as H. split; [reflexivity | assumption].
  - exfalso. injection H as Hb _. inversion F2 as [|? ? Hd _]. unfold digit in Hd. lia.
  - exfalso. injection H as Ha _. inversion F1 as [|? ? Hd _]. unfold digit in Hd. lia.
  - injection H as Hab H. inversion F1; inversion F2; subst.
    destruct (IH l2 r1 r2) as [E1 E2]; try assumption. subst. split; reflexivity.
Qed.

Lemma dec_split : forall a1 a2 r1 r2,
  dec a1 ++ 45 :: r1 = dec a2 ++ 45 :: r2 -> dec a1 = dec a2 /\ r1 = r2.
Proof.
  intros a1 a2 r1 r2 H.
  destruct (dec_shape a1) as (s1 & d1 & E1 & S1 & F1 & N1).
  destruct (dec_shape a2) as (s2 & d2 & E2 & S2 & F2 & N2).
  rewrite E1, E2 in *. rewrite <- !app_assoc in H.
  destruct S1 as [S1|S1], S2 as [S2|S2]; subst s1 s2; cbn [app] in *.
  - apply digits_split in H; try assumption.
  - exfalso. destruct d1 as [|c d1]; [congruence|]. cbn [app] in H. injection H as Hc _.
    inversion F1 as [|? ? Hd _]. unfold digit in Hd. lia.
  - exfalso. destruct d2 as [|c d2]; [congruence|]. cbn [app] in H. injection H as Hc _.
    inversion F2 as [|? ? Hd _]. unfold digit in Hd. lia.
  - injection H as H. apply digits_split in H; try assumption.
    destruct H as [Hd Hr]. rewrite Hd, Hr. split; reflexivity.
Qed.

Theorem make_etag_inj : forall s1 s2, make_etag s1 = make_etag s2 -> s1 = s2.
Proof.
  intros [a1 b1] [a2 b2] H. unfold make_etag in H. cbn [fst snd] in H.
  injection H as H. apply dec_split in H. destruct H as [Ha Hb].
  apply app_inv_tail in Hb. apply dec_inj in Ha. apply dec_inj in Hb. subst. reflexivity.
Qed.

Lemma make_etag_nonempty : forall s, make_etag s <> [].
Proof. intro s. unfold make_etag. discriminate. Qed.

Lemma dec_etagc : forall z, Forall etagc (dec z).
Proof.
  intro z. destruct (dec_shape z) as (sg & ds & E & S & F & _). rewrite E.
  apply Forall_app. split.
  - destruct S; subst sg; [constructor|]. constructor; [unfold etagc; lia | constructor].
  - eapply Forall_impl; [|exact F]. intros c Hc. unfold digit in Hc. unfold etagc. lia.
Qed.

(* the tag served for a definition is a well-formed strong entity-tag *)
Theorem make_etag_entity : forall s, entity_tag (make_etag s).
Proof.
  intro s. unfold make_etag. apply et_strong.
  replace (34 :: dec (fst s) ++ 45 :: dec (snd s) ++ [34])
    with (34 :: (dec (fst s) ++ 45 :: dec (snd s)) ++ [34])
    by (rewrite <- app_assoc; reflexivity).
  constructor. apply Forall_app. split; [apply dec_etagc|].
  constructor; [unfold etagc; lia | apply dec_etagc].
Qed.

Lemma file_tag_wf : forall f, file_tag f = [] \/ entity_tag (file_tag f).
Proof.
  destruct f as [[c s]|]; cbn [file_tag]; [right; apply make_etag_entity | left; reflexivity].
Qed.

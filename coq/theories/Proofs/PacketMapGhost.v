(* C01/C03: ghost (unwrapped) view of the interval list and soundness of the
   backwards walk.  Every 16-bit comparison of the Go code is turned once
   into a comparison of unwrapped numbers under the distance facts that the
   invariant provides. *)
From Coq Require Import ZArith List Bool Lia.
From Coq Require Import ZifyBool.
From Galene Require Import Lib.Word Generated.Consts Model.PacketMap Model.PacketMapL1.
Import ListNotations.
Open Scope Z_scope.
Ltac Zify.zify_post_hook ::= Z.div_mod_to_equations.

(* the generated constants are the ones the proofs were made for *)
Lemma window_val : window = 8192. Proof. reflexivity. Qed.
Lemma retireAge_val : retireAge = 16384. Proof. reflexivity. Qed.
Lemma window_literals_ok : forallb (Z.eqb window) window_literals = true.
Proof. vm_compute. reflexivity. Qed.

(* bound on the distance between the starts of neighbouring intervals (and
   between next and the newest start): retireAge + window *)
Definition Bnd : Z := 24576.

Record gentry := mkG { First : Z; Count : Z; Delta : Z; PidD : Z }.
Definition erase (g : gentry) : entry :=
  mkE (w16 (First g)) (Count g) (w16 (Delta g)) (PidD g).

(* number of withheld packets before r; outgoing number of r *)
Definition before (D : list Z) (r : Z) : Z :=
  Z.of_nat (length (filter (fun d => d <? r) D)).
Definition out (D : list Z) (r : Z) : Z := r - before D r.
Definition zl (D : list Z) : Z := Z.of_nat (length D).

Lemma before_nonneg D r : 0 <= before D r.
Proof. unfold before. lia. Qed.
Lemma before_le_len D r : before D r <= zl D.
Proof.
  unfold before, zl. induction D as [|d D IH]; cbn [filter length]; [lia|].
  destruct (d <? r); cbn [length]; lia.
Qed.
Lemma before_app D x r : before (D ++ [x]) r = before D r + (if x <? r then 1 else 0).
Proof.
  unfold before. rewrite filter_app, app_length. cbn [filter].
  destruct (x <? r); cbn [length]; lia.
Qed.
Lemma before_all D r : (forall d, In d D -> d < r) -> before D r = zl D.
Proof.
  unfold before, zl. induction D as [|d D IH]; intros H; cbn [filter length]; [reflexivity|].
  replace (d <? r) with true by (specialize (H d (or_introl eq_refl)); lia).
  cbn [length]. rewrite Nat2Z.inj_succ, IH; [lia|]. intros; apply H; right; assumption.
Qed.
Lemma before_mono D a b : a <= b -> before D a <= before D b.
Proof.
  unfold before. intros Hab. induction D as [|d D IH]; cbn [filter length]; [lia|].
  destruct (d <? a) eqn:E1; destruct (d <? b) eqn:E2; cbn [length]; lia.
Qed.
(* between a and b the count grows by at most b - a, and by exactly the
   number of withheld packets in [a, b) *)
Lemma before_gap D a b : a <= b ->
  (forall d, In d D -> a <= d < b -> False) -> before D b = before D a.
Proof.
  unfold before. intros Hab H. induction D as [|d D IH]; cbn [filter length]; [reflexivity|].
  assert (IH' : Z.of_nat (length (filter (fun d => d <? b) D)) =
                Z.of_nat (length (filter (fun d => d <? a) D)))
    by (apply IH; intros; eapply H; [right|]; eassumption).
  destruct (d <? a) eqn:E1; destruct (d <? b) eqn:E2; cbn [length]; try lia.
  exfalso. apply (H d (or_introl eq_refl)). lia.
Qed.

(* distinct integers: between a and b at most b - a of them *)
Lemma before_split D a b : a <= b ->
  before D b = before D a + Z.of_nat (length (filter (fun d => (a <=? d) && (d <? b)) D)).
Proof.
  intros Hab. unfold before. induction D as [|d D IH]; cbn [filter length]; [lia|].
  destruct (d <? b) eqn:E1; destruct (d <? a) eqn:E2; destruct (a <=? d) eqn:E3;
    cbn [andb length]; lia.
Qed.
Lemma before_lip D a b : NoDup D -> a <= b -> before D b - before D a <= b - a.
Proof.
  intros Hnd Hab. rewrite (before_split D a b Hab).
  set (M := filter (fun d => (a <=? d) && (d <? b)) D).
  assert (HM : (length M <= length (map (fun i : nat => (a + Z.of_nat i)%Z) (seq 0 (Z.to_nat (b - a)))))%nat).
  { apply NoDup_incl_length.
    - unfold M. apply NoDup_filter. exact Hnd.
    - intros d Hd. unfold M in Hd. apply filter_In in Hd. destruct Hd as (_ & Hd).
      apply in_map_iff. exists (Z.to_nat (d - a)). split; [lia|].
      apply in_seq. lia. }
  rewrite map_length, seq_length in HM. lia.
Qed.

(* ---- chains ---- *)
(* [pos] gives the unwrapped start of an interval in the space in which the
   walk compares (source numbers for direct, outgoing numbers for Reverse) *)
Fixpoint chainP (pos : gentry -> Z) (hi : Z) (gs : list gentry) : Prop :=
  match gs with
  | [] => True
  | g :: gs' =>
      0 <= Count g /\ pos g + Count g <= hi /\ hi - pos g <= Bnd /\ chainP pos (pos g) gs'
  end.

Lemma chainP_below pos : forall gs hi g, chainP pos hi gs -> In g gs ->
  pos g + Count g <= hi /\ 0 <= Count g.
Proof.
  induction gs as [|g2 gs IH]; intros h g Hc Hin; [destruct Hin|].
  destruct Hc as (? & ? & ? & Hc'). destruct Hin as [->|Hin]; [lia|].
  destruct (IH _ _ Hc' Hin). lia.
Qed.

Lemma chainP_count pos : forall gs hi g, chainP pos hi gs -> In g gs -> 0 <= Count g <= Bnd.
Proof.
  induction gs as [|g2 gs IH]; intros h g Hc Hin; [destruct Hin|].
  destruct Hc as (? & ? & ? & Hc'). destruct Hin as [->|Hin]; [lia|].
  exact (IH _ _ Hc' Hin).
Qed.

Lemma lwalk_sound pos (base : entry -> Z) (res : entry -> Z) :
  (forall g, base (erase g) = w16 (pos g)) ->
  forall gs hi x,
  chainP pos hi gs -> x < hi -> hi - x <= 8192 ->
  match lwalk (map erase gs) (w16 x) base res with
  | Some (v, p) => exists g, In g gs /\ pos g <= x < pos g + Count g /\
                             v = res (erase g) /\ p = PidD g
  | None => forall g, In g gs -> ~ (pos g <= x < pos g + Count g)
  end.
Proof.
  intros Hbase.
  induction gs as [|g gs IH]; intros hi x Hc Hx Hw; cbn [map lwalk].
  - intros g [].
  - destruct Hc as (Hcnt & Hend & Hb & Hc').
    rewrite Hbase. cbn [erase e_count e_pidDelta].
    unfold Bnd in *.
    destruct (Z_lt_le_dec x (pos g)) as [Hlt|Hge].
    + rewrite (cmp16_nonneg x (pos g)) by lia.
      replace (pos g <=? x) with false by lia.
      specialize (IH (pos g) x Hc' Hlt ltac:(lia)).
      destruct (lwalk (map erase gs) (w16 x) base res) as [[v p]|].
      * destruct IH as (g' & Hin & Hcov & Hv). exists g'. split; [right; exact Hin|]. auto.
      * intros g' [<-|Hin]; [lia|apply IH; exact Hin].
    + rewrite (cmp16_nonneg x (pos g)) by lia.
      replace (pos g <=? x) with true by lia.
      rewrite w16_add_l.
      rewrite (cmp16_neg x (pos g + Count g)) by lia.
      destruct (x <? pos g + Count g) eqn:E.
      * exists g. split; [left; reflexivity|]. split; [lia|]. split; reflexivity.
      * intros g' [<-|Hin]; [lia|].
        destruct (chainP_below pos _ _ _ Hc' Hin). lia.
Qed.

(* ---- what the invariant says about an interval ---- *)
(* no withheld number inside, and the interval's delta is minus the number of
   packets withheld before it *)
Definition gok (D : list Z) (g : gentry) : Prop :=
  (forall d, In d D -> First g <= d < First g + Count g -> False) /\
  Delta g = - before D (First g).

Lemma gok_out D g r : gok D g -> First g <= r < First g + Count g ->
  ~ In r D /\ out D r = r + Delta g.
Proof.
  intros (Hno & Hd) Hr. split.
  - intros Hin. apply (Hno r Hin). exact Hr.
  - unfold out. rewrite Hd.
    rewrite (before_gap D (First g) r); [lia|lia|].
    intros d Hin Hd'. apply (Hno d Hin). lia.
Qed.

(* the chain in outgoing-number space *)
Definition opos (g : gentry) : Z := First g + Delta g.

Lemma chain_out D : NoDup D -> forall gs hi,
  chainP First hi gs -> Forall (gok D) gs ->
  chainP opos (hi - before D hi) gs.
Proof.
  intros Hnd.
  induction gs as [|g gs IH]; intros hi Hc Hf; cbn [chainP]; [exact I|].
  destruct Hc as (Hcnt & Hend & Hb & Hc').
  inversion Hf as [|? ? Hg Hf']; subst.
  destruct Hg as (Hno & Hd).
  unfold opos. rewrite Hd.
  assert (Hm1 : before D (First g) <= before D hi) by (apply before_mono; lia).
  assert (Hm2 : before D (First g + Count g) = before D (First g)).
  { apply before_gap; [lia|]. intros d Hin Hd'. apply (Hno d Hin). lia. }
  assert (Hm3 : before D hi - before D (First g + Count g) <= hi - (First g + Count g))
    by (apply before_lip; [exact Hnd|lia]).
  split; [exact Hcnt|]. split; [lia|]. split; [lia|].
  replace (First g + - before D (First g)) with (First g - before D (First g)) by lia.
  apply IH; assumption.
Qed.

(* C07, layer 2: teardown reaches everyone.  Invariant [KInv]: a live client
   that holds a down stream whose publisher stream has ended has a pending
   "killer": a queued push that will close it (the nil push of delUpConn, or a
   push carrying the `replace` field), or the pending delayed push of the
   stream that replaces it.  At quiescence nothing is pending. *)
From Coq Require Import List Bool Arith PeanoNat Lia.
From Galene Require Import Model.Subscribe Proofs.SubscribeFrame Proofs.SubscribeInv
  Proofs.SubscribeStep Proofs.SubscribeHeap Proofs.SubscribeOwn.
Import ListNotations.

Definition killer1 (w : world) (m id : nat) : Prop :=
  exists a g, In a (c_queue (w_cl w m)) /\ c_group (w_cl w m) = Some g /\ kills a g id.

Definition killer2 (w : world) (m id : nat) : Prop :=
  exists x, x < w_nup w /\ uo_replace (w_up w x) = id /\ id <> 0 /\
            uo_pushed (w_up w x) = false /\ uo_owner (w_up w x) <> m /\
            (exists t, In t (w_timers w) /\ t_up t = x) /\
            (forall t, In t (w_timers w) -> t_up t = x ->
                       c_group (w_cl w m) = Some (t_group t)).

Definition killer (w : world) (m id : nat) : Prop := killer1 w m id \/ killer2 w m id.

Definition KInv (w : world) : Prop :=
  forall m d, c_dead (w_cl w m) = false -> In d (c_down (w_cl w m)) ->
              uo_closed (w_up w (d_remote d)) = true -> killer w m (d_id d).

(* ---- monotonicity of killers *)

Definition kmono (m : nat) (w w' : world) : Prop :=
  (forall a, In a (c_queue (w_cl w m)) -> In a (c_queue (w_cl w' m))) /\
  c_group (w_cl w' m) = c_group (w_cl w m) /\
  w_nup w <= w_nup w' /\
  (forall x, x < w_nup w -> uo_replace (w_up w x) <> 0 ->
     uo_replace (w_up w' x) = uo_replace (w_up w x) /\ uo_pushed (w_up w' x) = uo_pushed (w_up w x) /\
     uo_owner (w_up w' x) = uo_owner (w_up w x)) /\
  (forall t, In t (w_timers w) -> In t (w_timers w')) /\
  (forall t, In t (w_timers w') -> In t (w_timers w) \/ w_nup w <= t_up t).

Lemma killer_mono : forall w w' m id, kmono m w w' -> killer w m id -> killer w' m id.
Proof.
  intros w w' m id [Hq [Hg [Hn [Hh [Ht1 Ht2]]]]] [K|K].
  - left. destruct K as [a [g [Hin [Hgr Hk]]]]. exists a, g. repeat split; auto. congruence.
  - right. destruct K as [x [Hx [Hr [Hnz [Hp [Ho [[t [Hti Htu]] Hall]]]]]]].
    assert (Hrn : uo_replace (w_up w x) <> 0) by congruence.
    destruct (Hh x Hx Hrn) as [E1 [E2 E3]].
    exists x. repeat split; try congruence; try lia.
    + exists t. auto.
    + intros t0 H H0. destruct (Ht2 t0 H) as [Hold|Hnew]; [|lia]. rewrite Hg. apply (Hall t0 Hold H0).
Qed.

Lemma kmono_refl : forall m w, kmono m w w.
Proof. intros. repeat split; auto. Qed.

Lemma kmono_trans : forall m a b c, kmono m a b -> kmono m b c -> kmono m a c.
Proof.
  intros m a b c [Q1 [G1 [N1 [H1 [T1 U1]]]]] [Q2 [G2 [N2 [H2 [T2 U2]]]]].
  repeat split; auto; try congruence; try lia.
  - destruct (H1 x H H0) as [A _]. assert (X : x < w_nup b) by lia.
    assert (Y : uo_replace (w_up b x) <> 0) by congruence. destruct (H2 x X Y) as [B _]. congruence.
  - destruct (H1 x H H0) as [A [A' _]]. assert (X : x < w_nup b) by lia.
    assert (Y : uo_replace (w_up b x) <> 0) by congruence. destruct (H2 x X Y) as [_ [B _]]. congruence.
  - destruct (H1 x H H0) as [A [_ A']]. assert (X : x < w_nup b) by lia.
    assert (Y : uo_replace (w_up b x) <> 0) by congruence. destruct (H2 x X Y) as [_ [_ B]]. congruence.
  - intros t Ht. destruct (U2 t Ht) as [X|X]; [|right; lia]. destruct (U1 t X) as [Y|Y]; auto.
Qed.

(* a passive client under a heap evolution that only closes; the exempt object
   carries no `replace` *)
Lemma kmono_passive_evo : forall m c ex w w',
  passive m w w' -> evo c ex w w' ->
  (forall x, ex = Some x -> x < w_nup w -> uo_replace (w_up w x) = 0) ->
  kmono m w w'.
Proof.
  intros m c ex w w' [Hc [l Hq]] [[Hn Hh] [[lt [Ht Hnew]] _]] Hex.
  destruct (core_fields _ _ Hc) as [G _].
  assert (Hne : forall x, x < w_nup w -> uo_replace (w_up w x) <> 0 -> ex <> Some x).
  { intros x Hx Hr E. apply Hr. apply Hex; auto. }
  repeat split; auto.
  - intros a Ha. rewrite Hq. apply in_app_iff. left. exact Ha.
  - destruct (Hh x H (Hne x H H0)) as [_ [_ [_ [_ [A _]]]]]. exact A.
  - destruct (Hh x H (Hne x H H0)) as [_ [_ [_ [_ [_ [A _]]]]]]. exact A.
  - destruct (Hh x H (Hne x H H0)) as [_ [A _]]. exact A.
  - intros t Hin. rewrite Ht. apply in_app_iff. left. exact Hin.
  - intros t Hin. rewrite Ht in Hin. apply in_app_iff in Hin. destruct Hin as [X|X]; [left; exact X|right; auto].
Qed.

(* ---- a part of a step of client c: everybody else is passive, killers
   persist, and whoever holds a stream that the part closes gets a killer *)

Definition notifying (c : nat) (w w' : world) : Prop :=
  forall m d, m <> c -> c_dead (w_cl w m) = false -> In d (c_down (w_cl w m)) ->
    d_remote d < w_nup w ->
    uo_closed (w_up w (d_remote d)) = false -> uo_closed (w_up w' (d_remote d)) = true ->
    killer w' m (d_id d).

Definition seg (c : nat) (w w' : world) : Prop :=
  (forall m, m <> c -> kmono m w w') /\ (forall m, m <> c -> passive m w w') /\
  notifying c w w' /\ w_nup w <= w_nup w' /\
  (forall u, u < w_nup w -> uo_closed (w_up w u) = true -> uo_closed (w_up w' u) = true).

Lemma seg_refl : forall c w, seg c w w.
Proof.
  intros. repeat split; auto; try apply kmono_refl; try apply passive_refl.
  intros m d _ _ _ _ H1 H2. congruence.
Qed.

Lemma seg_trans : forall c w1 w2 w3, seg c w1 w2 -> seg c w2 w3 -> seg c w1 w3.
Proof.
  intros c w1 w2 w3 [K1 [P1 [N1 [L1 C1]]]] [K2 [P2 [N2 [L2 C2]]]].
  split; [intros m Hm; eapply kmono_trans; eauto|].
  split; [intros m Hm; eapply passive_trans; eauto|].
  split; [|split; [lia|intros u Hu Hc; apply C2; [lia|apply C1; auto]]].
  intros m d Hm Hlive Hin Hlt Hc1 Hc3.
  destruct (uo_closed (w_up w2 (d_remote d))) eqn:Hc2.
  - eapply killer_mono; [apply K2; exact Hm|]. eapply N1; eauto.
  - destruct (P1 m Hm) as [Hcore _]. destruct (core_fields _ _ Hcore) as [_ [_ [_ [_ [_ [_ [D [_ Dd]]]]]]]].
    eapply N2; eauto; try congruence; try lia.
Qed.

Lemma seg_noclose : forall c ex w w',
  (forall m, m <> c -> passive m w w') -> evo c ex w w' ->
  (forall x, ex = Some x -> x < w_nup w -> uo_replace (w_up w x) = 0) ->
  (forall u, u < w_nup w -> uo_closed (w_up w' u) = uo_closed (w_up w u)) ->
  seg c w w'.
Proof.
  intros c ex w w' HP HE Hex Hnc.
  split; [intros m Hm; eapply kmono_passive_evo; eauto|].
  split; [exact HP|]. split; [|split; [destruct HE as [[N _] _]; exact N|]].
  - intros m d _ _ _ Hlt H1 H2. rewrite Hnc in H2; congruence.
  - intros u Hu Hc. rewrite Hnc; auto.
Qed.

Lemma seg_same : forall c w w',
  (forall m, m <> c -> passive m w w') ->
  w_nup w' = w_nup w -> w_up w' = w_up w -> w_timers w' = w_timers w -> w_n w' = w_n w -> seg c w w'.
Proof.
  intros c w w' HP H1 H2 H3 H4. apply (seg_noclose c None); auto.
  - apply evo_same; auto.
  - discriminate.
  - intros. rewrite H2. reflexivity.
Qed.

(* ---- delUpConn with push: the nil push is the killer *)

Definition in_range (w : world) : Prop := forall m g, c_group (w_cl w m) = Some g -> m < w_n w.

Lemma seg_del_up_conn'_push : forall c id w,
  Inv w -> in_range w -> seg c w (del_up_conn' c id true w).
Proof.
  intros c id w I Hrange.
  assert (HP : forall m, m <> c -> passive m w (del_up_conn' c id true w))
    by (intros; apply passive_del_up_conn'; assumption).
  pose proof (evo_del_up_conn' c None id true w I) as HE.
  split; [intros m Hm; eapply kmono_passive_evo; eauto; discriminate|].
  split; [exact HP|]. split; [|split; [destruct HE as [[N _] _]; exact N|]].
  - (* notifying *)
    intros m d Hm Hlive Hin Hlt Hc1 Hc2. unfold del_up_conn' in *.
    destruct (lookup id (c_up (w_cl w c))) as [u|] eqn:Hl.
    + rewrite (del_up_conn_unfold _ _ _ _ _ Hl) in *.
      destruct (inv_ups _ I c id u Hl) as [U1 [U2 [U3 U4]]].
      destruct (inv_alive _ I u U1 U4) as [_ Hgc]. rewrite U2 in Hgc.
      destruct (inv_downs _ I m d Hin) as [D1 [D2 [D3 D4]]].
      (* the closed object is u *)
      assert (Hu : d_remote d = u).
      { destruct (c_group (w_cl w c)); autorewrite with sub in Hc2; unfold remove_close in Hc2; simpl in Hc2;
          destruct (Nat.eqb_spec (d_remote d) u); auto; simpl in Hc2; congruence. }
      rewrite Hgc in *. rewrite Hu in *.
      left. exists (APush (uo_group (w_up w u)) id None [] (uo_replace (w_up w u))), (uo_group (w_up w u)).
      split; [|split].
      * apply in_enq_all_queue. right. split; [reflexivity|].
        apply in_others. autorewrite with sub. unfold remove_close. simpl.
        destruct (Nat.eqb_spec m c); [contradiction|]. repeat split; auto. eapply Hrange; eauto.
      * autorewrite with sub. unfold remove_close. simpl. destruct (Nat.eqb_spec m c); [contradiction|exact D3].
      * exists id, None, [], (uo_replace (w_up w u)). split; [reflexivity|]. left. split; [congruence|reflexivity].
    + unfold del_up_conn in Hc2. rewrite Hl in Hc2. congruence.
  - intros u Hu Hc. destruct HE as [[_ H] _].
    destruct (H u Hu ltac:(discriminate)) as [_ [_ [_ [_ [_ [_ [_ [X|[X _]]]]]]]]]; congruence.
Qed.

Lemma in_range_same : forall w w', in_range w -> w_n w' = w_n w ->
  (forall m, c_group (w_cl w' m) = c_group (w_cl w m)) -> in_range w'.
Proof. intros w w' H Hn Hg m g E. rewrite Hg in E. rewrite Hn. eapply H; eauto. Qed.

Lemma in_range_del_up_conn' : forall c id push w, Inv w -> in_range w -> in_range (del_up_conn' c id push w).
Proof.
  intros c id push w I H. eapply in_range_same; [exact H| |].
  - destruct (evo_del_up_conn' c None id push w I) as [_ [_ E]]. exact E.
  - intro m. apply del_up_conn'_group.
Qed.

Lemma seg_leave_fold : forall c l w, Inv w -> in_range w -> seg c w (leave_fold c l w).
Proof.
  induction l as [|x r IH]; intros w I Hr; [apply seg_refl|]. simpl.
  eapply seg_trans; [apply seg_del_up_conn'_push; auto|].
  apply IH; [apply Inv_del_up_conn'; exact I|apply in_range_del_up_conn'; auto].
Qed.

Lemma seg_upd_cl : forall c f w, seg c w (upd_cl c f w).
Proof.
  intros. apply seg_same; try reflexivity. intros m Hm. apply passive_upd_cl. exact Hm.
Qed.

Lemma seg_leave_group : forall c w, Inv w -> in_range w -> seg c w (leave_group c w).
Proof.
  intros c w I Hr. unfold leave_group. destruct (c_group (w_cl w c)); [|apply seg_refl].
  eapply seg_trans; [apply (seg_leave_fold c); auto|apply seg_upd_cl].
Qed.

Lemma seg_error_close : forall c w, Inv w -> in_range w -> seg c w (error_close c w).
Proof.
  intros c w I Hr. unfold error_close. eapply seg_trans; [apply seg_leave_group; auto|apply seg_upd_cl].
Qed.

Lemma seg_send : forall c x w, seg c w (send c x w).
Proof. intros. apply seg_upd_cl. Qed.

Lemma seg_fail_up : forall c id w, seg c w (fail_up c id w).
Proof. intros. unfold fail_up. eapply seg_trans; apply seg_send. Qed.

Lemma seg_enq : forall c t a w, seg c w (enq t a w).
Proof. intros. apply seg_same; try reflexivity. intros m _. apply passive_enq. Qed.

Lemma seg_enq_all : forall c ts a w, seg c w (enq_all ts a w).
Proof.
  intros. apply seg_same; autorewrite with sub; try reflexivity. intros m _. apply passive_enq_all.
Qed.

Lemma in_range_fail_up : forall c id w, in_range w -> in_range (fail_up c id w).
Proof.
  intros c id w H. eapply in_range_same; [exact H|reflexivity|]. intro m. unfold fail_up. autorewrite with sub. reflexivity.
Qed.

Lemma seg_unpresent_fold : forall c l w, Inv w -> in_range w -> seg c w (unpresent_fold c l w).
Proof.
  induction l as [|x r IH]; intros w I Hr; [apply seg_refl|]. simpl.
  pose proof (seg_del_up_conn'_push c (fst x) w I Hr) as H.
  pose proof (Inv_del_up_conn' w c (fst x) true I) as I2.
  pose proof (in_range_del_up_conn' c (fst x) true w I Hr) as R2.
  unfold del_up_conn' in H, I2, R2.
  destruct (del_up_conn c (fst x) true w) as [|w'].
  - apply IH; auto.
  - eapply seg_trans; [exact H|]. eapply seg_trans; [apply seg_fail_up|].
    apply IH; [apply Inv_fail_up; exact I2|apply in_range_fail_up; exact R2].
Qed.

(* ---- the replacing offer: the delayed push of the new stream is the killer *)

Lemma seg_offer_tail : forall c id replace u s w g,
  Inv w -> in_range w -> u < w_nup w ->
  uo_replace (w_up w u) = 0 -> uo_pushed (w_up w u) = false -> uo_owner (w_up w u) = c ->
  c_group (w_cl w c) = Some g ->
  (exists t, In t (w_timers w) /\ t_up t = u) ->
  (forall t, In t (w_timers w) -> t_up t = u -> t_group t = g) ->
  (replace <> 0 -> lookup replace (c_up (w_cl w c)) <> None /\ replace <> uo_id (w_up w u)) ->
  seg c w (offer_tail c id replace u s w).
Proof.
  intros c id replace u s w g I Hrange Hu Hr0 Hp0 Hown Hg Htex Htall Hrep.
  assert (HP : forall m, m <> c -> passive m w (offer_tail c id replace u s w))
    by (intros; apply passive_offer_tail; assumption).
  assert (Hrep' : replace <> 0 -> lookup replace (c_up (w_cl w c)) <> None) by (intro X; apply Hrep; exact X).
  pose proof (evo_offer_tail c id replace u s w I Hu Hrep') as HE.
  set (ex := if Nat.eqb replace 0 then None else Some u) in *.
  assert (Hex : forall x, ex = Some x -> x < w_nup w -> uo_replace (w_up w x) = 0).
  { intros x E _. unfold ex in E. destruct (Nat.eqb replace 0); [discriminate|]. inversion E. subst. exact Hr0. }
  split; [intros m Hm; eapply kmono_passive_evo; eauto|].
  split; [exact HP|]. split; [|split; [destruct HE as [[N _] _]; exact N|]].
  - (* notifying *)
    intros m d Hm Hlive Hin Hlt Hc1 Hc2.
    destruct (Nat.eqb_spec replace 0) as [e|n].
    { (* no replace: nothing is closed *)
      exfalso. unfold offer_tail in Hc2. rewrite e in Hc2. simpl in Hc2.
      destruct s; [destruct (uo_closed (w_up w u))|..]; simpl in Hc2; congruence. }
    destruct (Hrep n) as [Hl Hne].
    destruct (lookup replace (c_up (w_cl w c))) as [r|] eqn:Hlr; [|congruence].
    destruct (inv_ups _ I c replace r Hlr) as [R1 [R2 [R3 R4]]].
    assert (Hur : u <> r) by (intro X; subst; congruence).
    (* the heap of the result *)
    assert (HU : forall x, w_up (offer_tail c id replace u s w) x =
               if Nat.eqb x r then up_set_closed (if Nat.eqb x u then up_set_replace replace (w_up w x) else w_up w x)
               else if Nat.eqb x u then up_set_replace replace (w_up w x) else w_up w x).
    { intro x. unfold offer_tail. rewrite (proj2 (Nat.eqb_neq replace 0) n).
      unfold del_up_conn'.
      assert (Hl' : lookup replace (c_up (w_cl (upd_up u (up_set_replace replace) w) c)) = Some r) by exact Hlr.
      rewrite (del_up_conn_unfold _ _ _ _ _ Hl').
      destruct s; [match goal with |- context [if ?b then _ else _] => destruct b end|..]; reflexivity. }
    assert (HT : w_timers (offer_tail c id replace u s w) = w_timers w).
    { unfold offer_tail. rewrite (proj2 (Nat.eqb_neq replace 0) n).
      unfold del_up_conn'.
      assert (Hl' : lookup replace (c_up (w_cl (upd_up u (up_set_replace replace) w) c)) = Some r) by exact Hlr.
      rewrite (del_up_conn_unfold _ _ _ _ _ Hl').
      destruct s; [match goal with |- context [if ?b then _ else _] => destruct b end|..]; reflexivity. }
    assert (HN : w_nup (offer_tail c id replace u s w) = w_nup w).
    { unfold offer_tail. rewrite (proj2 (Nat.eqb_neq replace 0) n).
      unfold del_up_conn'.
      assert (Hl' : lookup replace (c_up (w_cl (upd_up u (up_set_replace replace) w) c)) = Some r) by exact Hlr.
      rewrite (del_up_conn_unfold _ _ _ _ _ Hl').
      destruct s; [match goal with |- context [if ?b then _ else _] => destruct b end|..]; reflexivity. }
    (* the closed object is r *)
    assert (Hdr : d_remote d = r).
    { rewrite HU in Hc2. destruct (Nat.eqb_spec (d_remote d) r); auto.
      destruct (Nat.eqb_spec (d_remote d) u); simpl in Hc2; congruence. }
    destruct (inv_downs _ I m d Hin) as [D1 [D2 [D3 D4]]].
    destruct (inv_alive _ I r R1 R4) as [_ Hgr]. rewrite R2, Hg in Hgr.
    destruct (HP m Hm) as [Hcore _]. destruct (core_fields _ _ Hcore) as [G _].
    right. exists u. rewrite HN, HU, HT.
    destruct (Nat.eqb_spec u r); [contradiction|]. rewrite Nat.eqb_refl. simpl.
    repeat split; auto.
    + rewrite <- D2, Hdr. symmetry. exact R3.
    + rewrite <- D2, Hdr. apply (inv_idnz _ I). exact R1.
    + rewrite Hown. auto.
    + intros t H H0. rewrite G, D3, Hdr, (Htall t H H0). congruence.
  - intros x Hx Hc. destruct HE as [[_ H] _].
    destruct (Nat.eqb_spec replace 0) as [e|n].
    + unfold offer_tail. rewrite e. simpl.
      destruct s; [destruct (uo_closed (w_up w u))|..]; simpl; exact Hc.
    + destruct (lookup replace (c_up (w_cl w c))) as [r|] eqn:Hlr; [|destruct (Hrep n); congruence].
      unfold offer_tail. rewrite (proj2 (Nat.eqb_neq replace 0) n). unfold del_up_conn'.
      assert (Hl' : lookup replace (c_up (w_cl (upd_up u (up_set_replace replace) w) c)) = Some r) by exact Hlr.
      rewrite (del_up_conn_unfold _ _ _ _ _ Hl').
      assert (X : uo_closed (w_up (remove_close c replace r (upd_up u (up_set_replace replace) w)) x) = true).
      { unfold remove_close. simpl. destruct (Nat.eqb x r); simpl; [reflexivity|].
        destruct (Nat.eqb x u); simpl; exact Hc. }
      destruct s; [match goal with |- context [if ?b then _ else _] => destruct b end|..]; exact X.
Qed.

Lemma seg_got_offer : forall c id label replace s w,
  Inv w -> in_range w -> id <> 0 -> ok_op w (OpMsg c (MOffer id label replace s)) ->
  seg c w (got_offer c id label replace s w).
Proof.
  intros c id label replace s w I Hrange Hid [Hfresh Hrep]. unfold got_offer.
  destruct (get_down id (c_down (w_cl w c))); [apply seg_fail_up|].
  destruct (lookup id (c_up (w_cl w c))) as [u|] eqn:Hl.
  - destruct (Nat.eqb_spec replace 0) as [e|n]; [|destruct (Hrep n) as [X _]; congruence].
    subst replace. unfold offer_tail. simpl.
    destruct s; [destruct (uo_closed (w_up w u))|..]; try apply seg_fail_up; apply seg_send.
  - assert (Hcase : forall g, c_group (w_cl w c) = Some g ->
             seg c w (offer_tail c id replace (w_nup w) s (new_up_conn c id label g w))).
    { intros g Hg. set (w1 := new_up_conn c id label g w).
      pose proof (Inv_new_up_conn w c id label g I Hg Hid Hl (Hfresh eq_refl)) as I1. fold w1 in I1.
      assert (G1 : forall m, c_group (w_cl w1 m) = c_group (w_cl w m)).
      { intro m. unfold w1, new_up_conn, new_timer. simpl. destruct (Nat.eqb m c); reflexivity. }
      eapply seg_trans.
      - apply (seg_noclose c None w w1).
        + intros m Hm. apply passive_new_up_conn. exact Hm.
        + apply evo_new_up_conn.
        + discriminate.
        + intros x Hx. unfold w1, new_up_conn, new_timer. simpl.
          destruct (Nat.eqb_spec x (w_nup w)); [lia|reflexivity].
      - apply (seg_offer_tail c id replace (w_nup w) s w1 g).
        + exact I1.
        + eapply in_range_same; [exact Hrange|reflexivity|exact G1].
        + simpl. lia.
        + unfold w1, new_up_conn, new_timer. simpl. rewrite Nat.eqb_refl. reflexivity.
        + unfold w1, new_up_conn, new_timer. simpl. rewrite Nat.eqb_refl. reflexivity.
        + unfold w1, new_up_conn, new_timer. simpl. rewrite Nat.eqb_refl. reflexivity.
        + rewrite G1. exact Hg.
        + exists (mkTimer (w_nup w) g). split; [|reflexivity].
          unfold w1, new_up_conn, new_timer. simpl. apply in_app_iff. right. left. reflexivity.
        + intros t Ht Htu.
          assert (Hcase : In t (w_timers w) \/ t = mkTimer (w_nup w) g).
          { unfold w1, new_up_conn, new_timer in Ht. simpl in Ht. apply in_app_iff in Ht.
            destruct Ht as [X|[X|[]]]; auto. }
          destruct Hcase as [Hold|Hnew].
          * destruct (inv_timers _ I t Hold) as [T1 _]. lia.
          * subst t. reflexivity.
        + intro Hr. destruct (Hrep Hr) as [_ H2].
          assert (E : c_up (w_cl w1 c) = c_up (w_cl w c) ++ [(id, w_nup w)]).
          { unfold w1, new_up_conn, new_timer. simpl. rewrite Nat.eqb_refl. reflexivity. }
          split.
          * rewrite E, lookup_app. destruct (lookup replace (c_up (w_cl w c))); [discriminate|contradiction].
          * unfold w1, new_up_conn, new_timer. simpl. rewrite Nat.eqb_refl. simpl.
            intro X. subst replace. contradiction. }
    destruct s; destruct (c_group (w_cl w c)) as [g|] eqn:Hg;
      try apply seg_fail_up; apply Hcase; reflexivity.
Qed.

Lemma seg_close_down_conn : forall c id msg w, seg c w (close_down_conn c id msg w).
Proof.
  intros. apply seg_same; try (unfold close_down_conn; destruct msg; reflexivity).
  intros m Hm. apply passive_close_down_conn. exact Hm.
Qed.

Lemma seg_handle_msg : forall c msg w,
  Inv w -> in_range w -> ok_op w (OpMsg c msg) -> seg c w (fst (handle_msg c msg w)).
Proof.
  intros c msg w I Hrange Hok.
  destruct msg as [g user pres op0|g|req|id req|id label replace s|id|id|id ok|dest|dest give];
    cbv beta iota zeta delta [handle_msg].
  - destruct (c_group (w_cl w c)); cbn [fst]; [apply seg_refl|apply seg_upd_cl].
  - destruct (in_group g (w_cl w c)); cbn [fst]; [apply seg_leave_group; auto|apply seg_refl].
  - destruct (c_group (w_cl w c)); cbn [fst]; [|apply seg_refl].
    eapply seg_trans; [apply seg_upd_cl|apply seg_enq_all].
  - destruct (get_down id (c_down (w_cl w c))); [|apply seg_refl].
    destruct (c_group (w_cl w c)); cbn [fst]; [|apply seg_refl].
    eapply seg_trans; [apply seg_upd_cl|apply seg_enq].
  - destruct (Nat.eqb_spec id 0); cbn [fst]; [apply seg_refl|].
    destruct (c_present (w_cl w c)); cbn [fst]; [apply seg_got_offer; auto|].
    eapply seg_trans; [|apply seg_send]. eapply seg_trans; [|apply seg_send].
    destruct (Nat.eqb replace 0); [apply seg_refl|apply seg_del_up_conn'_push; auto].
  - destruct (Nat.eqb id 0); cbn [fst]; [apply seg_refl|apply seg_del_up_conn'_push; auto].
  - destruct (Nat.eqb id 0); cbn [fst]; [apply seg_refl|apply seg_close_down_conn].
  - destruct (Nat.eqb id 0); cbn [fst]; [apply seg_refl|].
    destruct (get_down id (c_down (w_cl w c))) as [d|]; cbn [fst]; [|apply seg_close_down_conn].
    destruct (ok && d_havelocal d); cbn [fst]; [|apply seg_close_down_conn].
    destruct (d_neg d); cbn [fst]; [|apply seg_upd_cl].
    eapply seg_trans; [apply seg_upd_cl|].
    apply seg_same; try (unfold negotiate; destruct (d_havelocal _); reflexivity).
    intros m Hm. apply passive_negotiate. exact Hm.
  - destruct (c_group (w_cl w c)); cbn [fst]; [|apply seg_send].
    destruct (c_op (w_cl w c) && member_of w _ dest); cbn [fst]; [apply seg_enq|apply seg_send].
  - destruct (c_group (w_cl w c)); cbn [fst]; [|apply seg_send].
    destruct (c_op (w_cl w c) && member_of w _ dest); cbn [fst]; [apply seg_enq|apply seg_send].
Qed.

Lemma reqconns_fold_heap : forall g t id l w,
  w_nup (reqconns_fold g t id l w) = w_nup w /\ w_up (reqconns_fold g t id l w) = w_up w /\
  w_timers (reqconns_fold g t id l w) = w_timers w /\ w_n (reqconns_fold g t id l w) = w_n w.
Proof.
  induction l as [|x r IH]; intros w; [auto|]. simpl.
  destruct (negb (Nat.eqb id 0) && negb (Nat.eqb id (fst x))); [apply IH|].
  destruct (IH (enq t (APush g (fst x) (Some (snd x)) (uo_tracks (w_up w (snd x))) (uo_replace (w_up w (snd x)))) w))
    as [A [B [C D]]]. rewrite A, B, C, D. auto.
Qed.

Lemma seg_handle_action : forall c a w, Inv w -> in_range w -> seg c w (fst (handle_action c a w)).
Proof.
  intros c a w I Hrange. destruct a as [g id up ts r|g t id|g give| |]; cbv beta iota zeta delta [handle_action].
  - destruct (in_group g (w_cl w c)); [|apply seg_refl].
    destruct (push_down_conn_heap c id up ts r w) as [A [B [C D]]].
    apply seg_same; auto. intros m Hm. apply passive_push_down_conn. exact Hm.
  - destruct (in_group g (w_cl w c)); cbn [fst]; [|apply seg_refl].
    destruct (reqconns_fold_heap g t id (c_up (w_cl w c)) w) as [A [B [C D]]].
    apply seg_same; auto. intros m _. apply (passive_reqconns_fold m g t id).
  - destruct (in_group g (w_cl w c)); cbn [fst]; [|apply seg_refl].
    eapply seg_trans; [apply seg_upd_cl|apply seg_enq].
  - destruct (c_group (w_cl w c)); cbn [fst]; [|apply seg_refl].
    destruct (c_present (w_cl w c)); cbn [fst]; [apply seg_refl|]. apply seg_unpresent_fold; auto.
  - apply seg_refl.
Qed.

Lemma in_range_actor : forall c w w',
  in_range w -> (forall m, m <> c -> passive m w w') -> w_n w' = w_n w -> c < w_n w -> in_range w'.
Proof.
  intros c w w' H HP Hn Hc m g E. rewrite Hn. destruct (Nat.eqb_spec m c); [subst; exact Hc|].
  destruct (HP m n) as [Hcore _]. destruct (core_fields _ _ Hcore) as [G _]. rewrite G in E. eapply H; eauto.
Qed.

Theorem step_seg : forall w o c,
  Inv w -> in_range w -> ok_op w o -> actor o = Some c -> seg c w (step w o).
Proof.
  intros w o c I Hrange Hok Ha.
  destruct o as [c' msg|c'|c'|i|u k]; simpl in Ha; inversion Ha; subst c'; simpl.
  - destruct (Nat.ltb c (w_n w) && negb (c_dead (w_cl w c))) eqn:E; [|apply seg_refl].
    apply andb_prop in E. destruct E as [E1 E2]. apply Nat.ltb_lt in E1. apply negb_true_iff in E2.
    pose proof (seg_handle_msg c msg w I Hrange Hok) as S.
    pose proof (Inv_handle_msg w c msg I Hok E2) as I2.
    destruct (evo_handle_msg c msg w I Hok) as [_ [_ N]].
    destruct (handle_msg c msg w) as [w' e]. unfold finish. simpl in *.
    destruct e; [|exact S]. eapply seg_trans; [exact S|]. apply seg_error_close; [exact I2|].
    destruct S as [_ [P _]]. eapply (in_range_actor c w); eauto.
  - destruct (Nat.ltb c (w_n w) && negb (c_dead (w_cl w c))) eqn:E; [|apply seg_refl].
    apply andb_prop in E. destruct E as [E1 E2]. apply Nat.ltb_lt in E1.
    destruct (c_queue (w_cl w c)) as [|a q] eqn:Eq; [apply seg_refl|].
    set (w0 := upd_cl c (set_queue q) w).
    assert (I0 : Inv w0).
    { apply Inv_pop; [exact I|]. intros x Hx. rewrite Eq. right. exact Hx. }
    assert (Ha0 : action_ok w0 c a).
    { eapply (action_ok_same_heap w); [reflexivity|reflexivity|].
      apply (inv_queue _ I). rewrite Eq. left. reflexivity. }
    assert (R0 : in_range w0).
    { eapply in_range_same; [exact Hrange|reflexivity|]. intro m. unfold w0, upd_cl. simpl.
      destruct (Nat.eqb m c); reflexivity. }
    assert (S0 : seg c w w0) by apply seg_upd_cl.
    pose proof (seg_handle_action c a w0 I0 R0) as S.
    pose proof (Inv_handle_action w0 c a I0 Ha0) as I2.
    destruct (evo_handle_action c None a w0 I0) as [_ [_ N]].
    destruct (handle_action c a w0) as [w' e]. unfold finish. simpl in *.
    assert (S' : seg c w w') by (eapply seg_trans; eauto).
    destruct e; [|exact S']. eapply seg_trans; [exact S'|]. apply seg_error_close; [exact I2|].
    destruct S' as [_ [P _]]. eapply (in_range_actor c w); eauto.
  - destruct (Nat.ltb c (w_n w) && negb (c_dead (w_cl w c))); [apply seg_error_close; auto|apply seg_refl].
Qed.

(* in_range is an invariant *)
Lemma in_range_step : forall w o, Inv w -> ok_op w o -> in_range w -> in_range (step w o).
Proof.
  intros w o I Hok H. destruct (actor o) as [c|] eqn:Ha.
  - destruct (Nat.lt_ge_cases c (w_n w)) as [Hlt|Hge].
    + destruct (step_evo w o c I Hok Ha) as [_ [_ N]].
      eapply in_range_actor; eauto. intros m Hm. apply step_passive. congruence.
    + (* the step does nothing *)
      assert (E : step w o = w).
      { destruct o as [c' msg|c'|c'|i|u k]; simpl in Ha; inversion Ha; subst c'; simpl;
          assert (X : Nat.ltb c (w_n w) = false) by (apply Nat.ltb_ge; exact Hge); rewrite X; reflexivity. }
      rewrite E. exact H.
  - intros m g E.
    assert (P : passive m w (step w o)) by (apply step_passive; congruence).
    destruct P as [Hcore _]. destruct (core_fields _ _ Hcore) as [G _]. rewrite G in E.
    assert (N : w_n (step w o) = w_n w).
    { destruct o as [c' msg|c'|c'|i|u k]; simpl in Ha; try discriminate; simpl.
      - destruct (nth_error (w_timers w) i); [|reflexivity]. unfold fire_timer.
        destruct (uo_pushed _); [reflexivity|]. autorewrite with sub. reflexivity.
      - destruct (Nat.ltb u (w_nup w) && negb (uo_closed (w_up w u))); [|reflexivity].
        destruct (c_group (w_cl w (uo_owner (w_up w u)))); reflexivity. }
    rewrite N. eapply H; eauto.
Qed.

Lemma in_range_init : forall n, in_range (init n).
Proof. intros n m g E. simpl in E. discriminate. Qed.

(* ---- KInv is an invariant *)

Lemma killer2_mono : forall w w' m id,
  c_group (w_cl w' m) = c_group (w_cl w m) -> w_nup w <= w_nup w' ->
  (forall x, x < w_nup w -> uo_replace (w_up w x) <> 0 ->
     uo_replace (w_up w' x) = uo_replace (w_up w x) /\ uo_pushed (w_up w' x) = uo_pushed (w_up w x) /\
     uo_owner (w_up w' x) = uo_owner (w_up w x)) ->
  (forall t, In t (w_timers w) -> In t (w_timers w')) ->
  (forall t, In t (w_timers w') -> In t (w_timers w) \/ w_nup w <= t_up t) ->
  killer2 w m id -> killer2 w' m id.
Proof.
  intros w w' m id Hg Hn Hh Ht1 Ht2 [x [Hx [Hr [Hnz [Hp [Ho [[t [Hti Htu]] Hall]]]]]]].
  assert (Hrn : uo_replace (w_up w x) <> 0) by congruence.
  destruct (Hh x Hx Hrn) as [E1 [E2 E3]].
  exists x. repeat split; try congruence; try lia.
  - exists t. auto.
  - intros t0 H H0. destruct (Ht2 t0 H) as [Hold|Hnew]; [|lia]. rewrite Hg. apply (Hall t0 Hold H0).
Qed.

Lemma evo_heap_clause : forall c w w', evo c None w w' ->
  w_nup w <= w_nup w' /\
  (forall x, x < w_nup w -> uo_replace (w_up w x) <> 0 ->
     uo_replace (w_up w' x) = uo_replace (w_up w x) /\ uo_pushed (w_up w' x) = uo_pushed (w_up w x) /\
     uo_owner (w_up w' x) = uo_owner (w_up w x)) /\
  (forall t, In t (w_timers w) -> In t (w_timers w')) /\
  (forall t, In t (w_timers w') -> In t (w_timers w) \/ w_nup w <= t_up t).
Proof.
  intros c w w' [[Hn Hh] [[l [Ht Hnew]] _]]. split; [exact Hn|]. split; [|split].
  - intros x Hx _. destruct (Hh x Hx ltac:(discriminate)) as [_ [A [_ [_ [B [C _]]]]]]. auto.
  - intros t Hin. rewrite Ht. apply in_app_iff. left. exact Hin.
  - intros t Hin. rewrite Ht in Hin. apply in_app_iff in Hin. destruct Hin as [X|X]; [left; exact X|right; auto].
Qed.

Lemma in_get_down_some : forall d l, In d l -> get_down (d_id d) l <> None.
Proof.
  induction l as [|x r IH]; simpl; [tauto|]. intros [H|H].
  - subst. rewrite Nat.eqb_refl. discriminate.
  - destruct (Nat.eqb (d_id x) (d_id d)); [discriminate|apply IH; exact H].
Qed.

Lemma in_remove_nth_other : forall {A} i (l : list A) t t',
  nth_error l i = Some t -> In t' l -> t' <> t -> In t' (remove_nth i l).
Proof.
  induction i; destruct l; simpl; intros t t' Hn Hin Hne; try discriminate.
  - inversion Hn. subst. destruct Hin; [congruence|assumption].
  - destruct Hin as [H|H]; [left; exact H|right; eapply IHi; eauto].
Qed.

Lemma step_noop : forall w o c, actor o = Some c ->
  Nat.ltb c (w_n w) && negb (c_dead (w_cl w c)) = false -> step w o = w.
Proof.
  intros w o c Ha E. destruct o as [c' msg|c'|c'|i|u k]; simpl in Ha; inversion Ha; subst c'; simpl; rewrite E; reflexivity.
Qed.

Theorem KInv_step : forall w o, Inv w -> in_range w -> ok_op w o -> KInv w -> KInv (step w o).
Proof.
  intros w o I Hrange Hok K m d Hlive' Hin' Hc'.
  pose proof (Inv_step w o I Hok) as I'.
  destruct (actor o) as [c|] eqn:Ha.
  - destruct (Nat.eqb_spec m c) as [e|n].
    + (* the actor itself *)
      subst c.
      destruct (Nat.ltb m (w_n w) && negb (c_dead (w_cl w m))) eqn:Eg.
      2:{ rewrite (step_noop w o m Ha Eg) in *. apply K; auto. }
      apply andb_prop in Eg. destruct Eg as [E1 E2]. apply Nat.ltb_lt in E1. apply negb_true_iff in E2.
      pose proof (step_evo w o m I Hok Ha) as HE.
      destruct (evo_heap_clause _ _ _ HE) as [Hn [Hh [Ht1 Ht2]]].
      destruct (inv_downs _ I' m d Hin') as [D1' [D2' [D3' D4']]].
      (* an object that the actor's own step closed is the actor's *)
      assert (Hnotclosed : forall x, x < w_nup w -> uo_owner (w_up (step w o) x) <> m ->
                uo_closed (w_up (step w o) x) = true -> uo_closed (w_up w x) = true).
      { intros x Hx Ho Hcx. destruct HE as [[_ H] _].
        destruct (H x Hx ltac:(discriminate)) as [_ [Y [_ [_ [_ [_ [_ [X|[X [_ Z]]]]]]]]]]; congruence. }
      destruct o as [c' msg|c'|c'|i|u k]; simpl in Ha; inversion Ha; subst c'.
      * (* its message *)
        destruct (msg_own w m msg I Hlive') as [[l Hq] [Hsub Hg]].
        destruct (Hsub d Hin') as [d0 [Hin0 [Hid0 Hr0]]].
        assert (Hg' : c_group (w_cl (step w (OpMsg m msg)) m) = c_group (w_cl w m)).
        { apply Hg. intro X. rewrite X in Hin'. destruct Hin'. }
        destruct (inv_downs _ I m d0 Hin0) as [D1 [D2 [D3 D4]]].
        assert (Hc0 : uo_closed (w_up w (d_remote d0)) = true).
        { apply Hnotclosed; auto; rewrite Hr0; auto. }
        rewrite <- Hid0. destruct (K m d0 E2 Hin0 Hc0) as [K1|K2].
        -- left. destruct K1 as [a [g [Ha1 [Hg1 Hk]]]]. exists a, g. repeat split; auto.
           ++ rewrite Hq. apply in_app_iff. left. exact Ha1.
           ++ congruence.
        -- right. eapply killer2_mono; eauto.
      * (* its queued action *)
        destruct (c_queue (w_cl w m)) as [|a q] eqn:Eq.
        { assert (E : step w (OpPump m) = w).
          { simpl. rewrite Eq. destruct (Nat.ltb m (w_n w) && negb (c_dead (w_cl w m))); reflexivity. }
          rewrite E in *. apply K; auto. }
        destruct (pump_own w m a q I Eq E1 E2 Hlive') as [[l Hq] [Hg [Hfrom Hkills]]].
        assert (Hc0 : forall x, x < w_nup w -> x = d_remote d -> uo_closed (w_up w x) = true).
        { intros x Hx ->. apply Hnotclosed; auto. }
        destruct (Hfrom d Hin') as [[d0 [Hin0 [Hid0 Hr0]]]|[Hlt Hopen]].
        2:{ rewrite (Hc0 _ Hlt eq_refl) in Hopen. discriminate. }
        destruct (inv_downs _ I m d0 Hin0) as [D1 [D2 [D3 D4]]].
        assert (Hc1 : uo_closed (w_up w (d_remote d0)) = true) by (apply Hc0; auto).
        rewrite <- Hid0. destruct (K m d0 E2 Hin0 Hc1) as [K1|K2].
        -- left. destruct K1 as [a' [g [Ha1 [Hg1 Hk]]]]. rewrite Eq in Ha1. destruct Ha1 as [<-|Ha1].
           ++ exfalso. assert (Hnz : d_id d0 <> 0) by (rewrite <- D2; apply (inv_idnz _ I); exact D1).
              specialize (Hkills g (d_id d0) Hnz Hk Hg1). rewrite Hid0 in Hkills.
              apply (in_get_down_some d _ Hin'). exact Hkills.
           ++ exists a', g. repeat split; auto; [|congruence].
              rewrite Hq. apply in_app_iff. left. exact Ha1.
        -- right. eapply killer2_mono; eauto.
      * (* the connection ends *)
        exfalso. simpl in Hlive'.
        assert (X : Nat.ltb m (w_n w) && negb (c_dead (w_cl w m)) = true).
        { apply andb_true_intro. split; [apply Nat.ltb_lt; exact E1|rewrite E2; reflexivity]. }
        rewrite X in Hlive'. rewrite error_close_dead in Hlive'. discriminate.
    + (* another client acts *)
      assert (P : passive m w (step w o)) by (apply step_passive; congruence).
      destruct P as [Hcore [l Hq]].
      destruct (core_fields _ _ Hcore) as [G [_ [_ [_ [_ [_ [D [_ Dd]]]]]]]].
      rewrite D in Hin'. rewrite Dd in Hlive'.
      destruct (step_seg w o c I Hrange Hok Ha) as [KM [_ [Nf _]]].
      destruct (inv_downs _ I m d Hin') as [D1 _].
      destruct (uo_closed (w_up w (d_remote d))) eqn:Hc.
      * eapply killer_mono; [apply KM; exact n|]. apply K; auto.
      * eapply Nf; eauto.
  - (* a delayed push fires, or OnTrack *)
    assert (P : passive m w (step w o)) by (apply step_passive; congruence).
    destruct P as [Hcore [l Hq]].
    destruct (core_fields _ _ Hcore) as [G [_ [_ [_ [_ [_ [D [_ Dd]]]]]]]].
    rewrite D in Hin'. rewrite Dd in Hlive'.
    destruct o as [c' msg|c'|c'|i|u k]; simpl in Ha; try discriminate.
    + (* timer *)
      simpl in *. destruct (nth_error (w_timers w) i) as [t|] eqn:Et; [|apply K; auto].
      assert (Hti : In t (w_timers w)) by (eapply nth_error_In; eauto).
      assert (Hcl : uo_closed (w_up w (d_remote d)) = true).
      { revert Hc'. unfold fire_timer. simpl. destruct (uo_pushed (w_up w (t_up t))); [auto|].
        autorewrite with sub. simpl. destruct (Nat.eqb (d_remote d) (t_up t)); simpl; auto. }
      destruct (K m d Hlive' Hin' Hcl) as [K1|K2].
      * left. destruct K1 as [a [g [Ha1 [Hg1 Hk]]]]. exists a, g. split; [|split; [congruence|exact Hk]].
        rewrite Hq. apply in_app_iff. left. exact Ha1.
      * destruct K2 as [x [Hx [Hr [Hnz [Hp [Ho [[t' [Hti' Htu']] Hall]]]]]]].
        destruct (Nat.eqb_spec (t_up t) x) as [e|ne].
        -- (* the delayed push of the replacing stream fires: the push is the killer *)
           left. pose proof (Hall t Hti e) as Hgm.
           destruct (inv_timers _ I t Hti) as [Tlt Tg].
           exists (APush (t_group t) (uo_id (w_up w x)) (Some x) (uo_tracks (w_up w x)) (d_id d)), (t_group t).
           split; [|split].
           ++ unfold fire_timer. simpl. rewrite e, Hp. apply in_enq_all_queue. right. split.
              ** rewrite Hr. reflexivity.
              ** apply in_others. simpl. repeat split; auto. eapply Hrange; eauto.
           ++ congruence.
           ++ exists (uo_id (w_up w x)), (Some x), (uo_tracks (w_up w x)), (d_id d). split; [reflexivity|right; reflexivity].
        -- right. exists x.
           assert (HU : w_up (fire_timer t (set_timers (remove_nth i (w_timers w)) w)) x = w_up w x).
           { unfold fire_timer. simpl. destruct (uo_pushed (w_up w (t_up t))); [reflexivity|].
             autorewrite with sub. simpl. destruct (Nat.eqb_spec x (t_up t)); [congruence|reflexivity]. }
           assert (HT : w_timers (fire_timer t (set_timers (remove_nth i (w_timers w)) w)) = remove_nth i (w_timers w)).
           { unfold fire_timer. simpl. destruct (uo_pushed (w_up w (t_up t))); [reflexivity|].
             autorewrite with sub. reflexivity. }
           assert (HN : w_nup (fire_timer t (set_timers (remove_nth i (w_timers w)) w)) = w_nup w).
           { unfold fire_timer. simpl. destruct (uo_pushed (w_up w (t_up t))); [reflexivity|].
             autorewrite with sub. reflexivity. }
           rewrite HU, HT, HN. repeat split; auto.
           ++ exists t'. split; [|exact Htu']. eapply in_remove_nth_other; eauto. congruence.
           ++ intros t0 H H0. apply in_remove_nth in H. rewrite G. apply (Hall t0 H H0).
    + (* OnTrack *)
      simpl in *.
      destruct (Nat.ltb u (w_nup w) && negb (uo_closed (w_up w u))) eqn:Eg; [|apply K; auto].
      apply andb_prop in Eg. destruct Eg as [E1 E2]. apply Nat.ltb_lt in E1. apply negb_true_iff in E2.
      destruct (inv_alive _ I u E1 E2) as [_ Hgo].
      rewrite Hgo in *.
      set (g := uo_group (w_up w u)) in *.
      assert (Hcl : uo_closed (w_up w (d_remote d)) = true).
      { revert Hc'. unfold new_timer. simpl. destruct (Nat.eqb (d_remote d) u); simpl; auto. }
      destruct (K m d Hlive' Hin' Hcl) as [K1|K2].
      * left. destruct K1 as [a [g0 [Ha1 [Hg1 Hk]]]]. exists a, g0. split; [|split; [congruence|exact Hk]].
        rewrite Hq. apply in_app_iff. left. exact Ha1.
      * right. destruct K2 as [x [Hx [Hr [Hnz [Hp [Ho [[t' [Hti' Htu']] Hall]]]]]]].
        exists x. unfold new_timer. simpl.
        destruct (Nat.eqb_spec x u) as [e|ne]; simpl.
        -- rewrite e in *. clear e. repeat split; auto.
           ++ exists t'. split; [apply in_app_iff; left; exact Hti'|exact Htu'].
           ++ intros t H H0. apply in_app_iff in H. destruct H as [H|[H|[]]]; [apply (Hall t H H0)|].
              subst t. simpl. pose proof (Hall t' Hti' Htu') as Hgm.
              destruct (inv_timers _ I t' Hti') as [_ Tg]. rewrite Htu' in Tg. rewrite Hgm, Tg. reflexivity.
        -- repeat split; auto.
           ++ exists t'. split; [apply in_app_iff; left; exact Hti'|exact Htu'].
           ++ intros t H H0. apply in_app_iff in H. destruct H as [H|[H|[]]]; [apply (Hall t H H0)|].
              subst t. simpl in H0. congruence.
Qed.

Lemma KInv_init : forall n, KInv (init n).
Proof. intros n m d _ Hin. simpl in Hin. destruct Hin. Qed.

(* at quiescence nothing is pending: no stale down stream is left *)
Lemma quiescent_spec : forall w, quiescentb w = true ->
  w_timers w = [] /\ forall m, m < w_n w -> c_dead (w_cl w m) = false -> c_queue (w_cl w m) = [].
Proof.
  intros w H. unfold quiescentb in H. apply andb_prop in H. destruct H as [H1 H2].
  split; [destruct (w_timers w); [reflexivity|discriminate]|].
  intros m Hm Hd. rewrite forallb_forall in H1. specialize (H1 m). rewrite Hd in H1. simpl in H1.
  destruct (c_queue (w_cl w m)); [reflexivity|]. exfalso.
  assert (X : In m (seq 0 (w_n w))) by (apply in_seq; lia). specialize (H1 X). discriminate.
Qed.

Theorem teardown_quiescent : forall w,
  Inv w -> in_range w -> KInv w -> quiescentb w = true ->
  forall m d, c_dead (w_cl w m) = false -> In d (c_down (w_cl w m)) ->
              uo_closed (w_up w (d_remote d)) = false.
Proof.
  intros w I Hrange K Hq m d Hlive Hin.
  destruct (quiescent_spec w Hq) as [Ht Hqueue].
  destruct (uo_closed (w_up w (d_remote d))) eqn:Hc; [|reflexivity]. exfalso.
  destruct (inv_downs _ I m d Hin) as [_ [_ [Hg _]]].
  assert (Hm : m < w_n w) by (eapply Hrange; eauto).
  destruct (K m d Hlive Hin Hc) as [[a [g [Ha _]]]|[x [_ [_ [_ [_ [_ [[t [Hti _]] _]]]]]]]].
  - rewrite (Hqueue m Hm Hlive) in Ha. destruct Ha.
  - rewrite Ht in Hti. destruct Hti.
Qed.

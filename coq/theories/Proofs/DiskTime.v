(* Proofs about the container timestamp, the origin arithmetic and sanitise
   (Model/Disk.v). *)
From Coq Require Import ZArith List Bool Lia.
From Galene Require Import Lib.Word Model.Disk.
Import ListNotations.
Open Scope Z_scope.
Ltac Zify.zify_post_hook ::= Z.div_mod_to_equations.

(* ts - origin in uint32 is the unwrapped distance when the sample is at most
   2^32 - 1 ticks after the origin, wherever the 32-bit wrap falls *)
Lemma w32_dist O T : 0 <= T - O < 4294967296 -> w32 (w32 T - w32 O) = T - O.
Proof. unfold w32. lia. Qed.

Lemma before_origin_false O T :
  0 <= T - O < 2147483648 -> before_origin (w32 O) (w32 T) = false.
Proof.
  intros H. unfold before_origin, i32. rewrite w32_dist by lia.
  replace (T - O <? 2147483648) with true by lia. lia.
Qed.

Lemma before_origin_true O T :
  0 < O - T <= 2147483648 -> before_origin (w32 O) (w32 T) = true.
Proof.
  intros H. unfold before_origin, i32.
  assert (E : w32 (w32 T - w32 O) = 4294967296 - (O - T)) by (unfold w32; lia).
  rewrite E. replace (4294967296 - (O - T) <? 2147483648) with false by lia. lia.
Qed.

Lemma tm_of_unwrapped O T rate :
  0 <= T - O < 4294967296 -> tm_of (w32 O) rate (w32 T) = (T - O) / (rate / 1000).
Proof. intros H. unfold tm_of. rewrite w32_dist by lia. reflexivity. Qed.

(* container timestamps do not decrease when RTP timestamps do not, within
   2^31 of the origin, across the 32-bit wrap; and no such sample is dropped
   as "before the origin" *)
Lemma tm_monotone O T1 T2 rate :
  1000 <= rate -> 0 <= T1 - O -> T1 <= T2 -> T2 - O < 2147483648 ->
  before_origin (w32 O) (w32 T1) = false /\
  before_origin (w32 O) (w32 T2) = false /\
  tm_of (w32 O) rate (w32 T1) <= tm_of (w32 O) rate (w32 T2) /\
  tm_of (w32 O) rate (w32 T1) = (T1 - O) / (rate / 1000).
Proof.
  intros Hr H0 H12 H2.
  split; [apply before_origin_false; lia|].
  split; [apply before_origin_false; lia|].
  rewrite !tm_of_unwrapped by lia. split; [|reflexivity].
  apply Z.div_le_mono; [|lia].
  assert (1 <= rate / 1000) by (apply Z.div_le_lower_bound; lia). lia.
Qed.

(* strictly increasing by at least one millisecond worth of ticks: strictly
   increasing container timestamps *)
Lemma tm_strict O T1 T2 rate :
  1000 <= rate -> 0 <= T1 - O -> T1 + rate / 1000 <= T2 -> T2 - O < 2147483648 ->
  tm_of (w32 O) rate (w32 T1) < tm_of (w32 O) rate (w32 T2).
Proof.
  intros Hr H0 H12 H2.
  assert (1 <= rate / 1000) by (apply Z.div_le_lower_bound; lia).
  rewrite !tm_of_unwrapped by lia.
  set (q := rate / 1000) in *.
  assert ((T1 - O) / q + 1 <= (T2 - O) / q); [|lia].
  replace ((T1 - O) / q + 1) with ((T1 - O + 1 * q) / q) by (rewrite Z.div_add by lia; lia).
  apply Z.div_le_mono; lia.
Qed.

(* ------------------------------------------------------------------ *)
(* N3: a sender report moves the origin of a track that has already
   written samples; the container timestamp of a LATER frame is then
   smaller than that of an earlier one *)

Definition n3_conn0 : tconn := mkTC None 0 [tt0 48000; tt0 90000].
(* video keyframe at ts 90000 and first audio packet at ts 48000 arrive at
   the same local time *)
Definition n3_conn1 : tconn :=
  set_origin (set_origin n3_conn0 1 90000 3900000000000000000 90000)
             0 48000 3900000000000000000 48000.
(* the sender reports: video ts 90000 and audio ts 52800 were captured at the
   same instant, i.e. the audio started 100 ms later than it seemed *)
Definition n3_ntp : Z := 3900000123 * 4294967296.
Definition n3_conn2 : tconn :=
  set_time_offset (set_time_offset n3_conn1 1 n3_ntp 90000 90000) 0 n3_ntp 52800 48000.

Lemma n3_witness :
  origin_of n3_conn1 0 = Some 48000 /\
  origin_of n3_conn2 0 = Some 52800 /\
  (* audio frame 9 (ts 56640) is written before the report, frame 10
     (ts 57600) after it *)
  before_origin 48000 56640 = false /\ before_origin 52800 57600 = false /\
  tm_of 48000 48000 56640 = 180 /\ tm_of 52800 48000 57600 = 100.
Proof. vm_compute. repeat split; reflexivity. Qed.

(* ------------------------------------------------------------------ *)
(* sanitise                                                            *)

Lemma sanitise_no_separator s : ~ In 47 (sanitise s) /\ ~ In 92 (sanitise s).
Proof.
  unfold sanitise. induction s as [|c s [IH1 IH2]]; cbn [flat_map].
  - split; intros [].
  - split; intros H; apply in_app_or in H; destruct H as [H|H]; try tauto;
      destruct (c =? 47) eqn:E1; try (cbn in H; lia);
      destruct (c =? 92) eqn:E2; cbn in H; lia.
Qed.

Lemma sanitise_plain s :
  ~ In 47 s -> ~ In 92 s -> sanitise s = s.
Proof.
  unfold sanitise. induction s as [|c s IH]; cbn [flat_map In]; intros H1 H2; [reflexivity|].
  destruct (c =? 47) eqn:E1; [exfalso; apply H1; left; lia|].
  destruct (c =? 92) eqn:E2; [exfalso; apply H2; left; lia|].
  cbn. f_equal. apply IH; tauto.
Qed.

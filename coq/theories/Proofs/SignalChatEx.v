(* Non-vacuity examples and refutation witnesses for the message-level part
   of C15: concrete operation sequences of Model/Signal.v evaluated by
   vm_compute.  Group g: oper (op, message, caption) = handle 0 id a,
   user (message) = handle 1 id b, mute (no permission) = handle 3 id m;
   group k: other (message) = handle 2 id z. *)
From Coq Require Import ZArith List Bool String Arith Lia.
From Galene Require Import Generated.Guards Model.Signal Proofs.SignalFrame Proofs.SignalSafe
  Proofs.SignalChatFrame Proofs.SignalChatInv Proofs.SignalChat Proofs.SignalChatMain.
Import ListNotations.
Open Scope string_scope.
Open Scope list_scope.
Open Scope nat_scope.

Definition ex_desc_g : desc :=
  mkDesc [mkUser "oper" "pwo" false ["op"; "message"; "caption"];
          mkUser "user" "pwu" false ["message"];
          mkUser "mute" "pwm" false []] None "" false 0%Z.
Definition ex_desc_k : desc := mkDesc [mkUser "other" "pwx" false ["message"]] None "" false 0%Z.

Definition ex_join (g u p : str) : msg :=
  mkMsg "join" "join" "" "" "" "" (Some u) p "" g VNone false SdpBad "" RNone false [].
Definition ex_chat (t k id src dst : str) (u : option str) (v : str) (noecho : bool) : msg :=
  mkMsg t k id "" src dst u "" "" "" (VStr v) noecho SdpBad "" RNone false [].
Definition ex_clear (v : value) : msg :=
  mkMsg "groupaction" "clearchat" "" "" "" "" None "" "" "" v false SdpBad "" RNone false [].

Definition ex_setup : list op :=
  [OpMkGroup "g" ex_desc_g; OpMkGroup "k" ex_desc_k;
   OpClient "a"; OpClient "b"; OpClient "z"; OpClient "m";
   OpMsg 0 (ex_join "g" "oper" "pwo"); OpMsg 1 (ex_join "g" "user" "pwu");
   OpMsg 2 (ex_join "k" "other" "pwx"); OpMsg 3 (ex_join "g" "mute" "pwm");
   OpQuiesce; OpDrain 0; OpDrain 1; OpDrain 2; OpDrain 3].

(* (type, kind, id, source, dest, username, privileged, value) *)
Definition pj (x : outmsg) :=
  (o_type x, o_kind x, o_id x, o_source x, o_dest x, o_user x, o_priv x, o_value x).
Definition outs (ops : list op) :=
  match run_ops empty_world ops with
  | Some w => map (fun i => map pj (out_of w i)) (seq 0 (List.length (w_clients w)))
  | None => []
  end.
Definition hists (ops : list op) :=
  match run_ops empty_world ops with
  | Some w => (hist_of w "g", hist_of w "k")
  | None => ([], [])
  end.

(* the hypotheses of the step theorems hold in the state after the set-up *)
Example ex_hypotheses : exists w ca cb cm,
  reach ex_setup w /\
  get_client w 0 = Some ca /\ get_client w 1 = Some cb /\ get_client w 3 = Some cm /\
  c_closed ca = false /\ c_group ca = Some "g" /\ c_group cb = Some "g" /\ c_group cm = Some "g" /\
  mem "op" (c_perms ca) = true /\ mem "op" (c_perms cb) = false /\
  mem "message" (c_perms cb) = true /\ mem "message" (c_perms cm) = false /\
  member_of w 2 "g" = false /\ member_of w 2 "k" = true /\
  authentic_fields ca (ex_chat "chat" "" "i1" "a" "" (Some "oper") "hello" false) /\
  spoofed cb (ex_chat "chat" "" "i1" "a" "" None "fake" false) /\
  spoofed cb (ex_chat "chat" "" "s" "" "" (Some "oper") "fake" false).
Proof.
  unfold reach.
  destruct (run_ops empty_world ex_setup) as [w|] eqn:E; [|vm_compute in E; discriminate].
  exists w. vm_compute in E. inversion E; subst w. clear E.
  do 3 eexists. repeat split; try reflexivity.
  - right. reflexivity.
  - right. reflexivity.
  - left. split; discriminate.
  - right. split; [discriminate|]. eexists. split; [reflexivity | discriminate].
Qed.

(* a broadcast by the operator: every member of g (also the sender, also the
   member without permissions), nobody in k; privileged; stored *)
Example ex_broadcast :
  let ops := ex_setup ++ [OpMsg 0 (ex_chat "chat" "" "i1" "a" "" (Some "oper") "hello" false)] in
  let x := ("chat", "", "i1", "a", "", Some "oper", true, "hello") in
  outs ops = [[x]; [x]; []; [x]] /\
  hists ops = ([mkChat "i1" "a" (Some "oper") "" "hello"], []).
Proof. vm_compute. split; reflexivity. Qed.

(* noecho, no id, no source, no username, kind "me", by a plain member: not
   to the sender, not privileged, fresh id, stored *)
Example ex_noecho :
  let ops := ex_setup ++ [OpMsg 1 (ex_chat "chat" "me" "" "" "" None "waves" true)] in
  let x := ("chat", "me", "?", "", "", None, false, "waves") in
  outs ops = [[x]; []; []; [x]] /\
  hists ops = ([mkChat "?" "" None "me" "waves"], []).
Proof. vm_compute. split; reflexivity. Qed.

(* directed chat to a member; directed usermessage to a member of ANOTHER
   group ("user unknown"); broadcast usermessage: none of them is stored *)
Example ex_directed :
  let ops := ex_setup ++
    [OpMsg 0 (ex_chat "chat" "" "d1" "a" "b" None "psst" false);
     OpMsg 0 (ex_chat "usermessage" "note" "" "" "z" None "x" false);
     OpMsg 0 (ex_chat "usermessage" "note" "" "" "" None "all" false)] in
  let n := ("usermessage", "note", "", "", "", None, true, "all") in
  outs ops =
    [[("usermessage", "error", "", "", "a", None, true, "user unknown"); n];
     [("chat", "", "d1", "a", "b", None, true, "psst"); n]; []; [n]] /\
  hists ops = ([], []).
Proof. vm_compute. split; reflexivity. Qed.

(* spoofed username: closed; the next message of that connection is dead *)
Example ex_spoof :
  outs (ex_setup ++ [OpMsg 1 (ex_chat "chat" "" "s" "" "" (Some "oper") "fake" false);
                     OpMsg 1 (ex_chat "chat" "" "s" "" "" None "x" false)]) =
    [[]; [("usermessage", "error", "", "", "b", None, true, "spoofed username");
          ("__close__", "", "protocol", "", "", None, false, "")]; []; []] /\
  outs (ex_setup ++ [OpMsg 1 (ex_chat "chat" "" "i1" "a" "" None "fake" false)]) =
    [[]; [("usermessage", "error", "", "", "b", None, true, "spoofed client id");
          ("__close__", "", "protocol", "", "", None, false, "")]; []; []].
Proof. vm_compute. split; reflexivity. Qed.

(* no `message`; no `caption`; a member of k writing to a member of g *)
Example ex_refused :
  outs (ex_setup ++ [OpMsg 3 (ex_chat "chat" "" "s" "" "" None "x" false);
                     OpMsg 1 (ex_chat "chat" "caption" "s" "" "" None "x" false);
                     OpMsg 2 (ex_chat "chat" "" "s" "" "a" None "x" false)]) =
    [[]; [("usermessage", "error", "", "", "b", None, true, "not authorised")];
     [("usermessage", "error", "", "", "z", None, true, "user unknown")];
     [("usermessage", "error", "", "", "m", None, true, "not authorised")]].
Proof. vm_compute. reflexivity. Qed.

(* clearchat by a non-operator and with an id but no userId change nothing;
   {id i1, userId a} removes the operator's i1 and keeps b's i1; a later
   joiner is sent `joined`, then the two remaining entries in order *)
Definition ex_hist_ops : list op := ex_setup ++
  [OpMsg 0 (ex_chat "chat" "" "i1" "a" "" (Some "oper") "one" false);
   OpMsg 0 (ex_chat "chat" "" "i2" "a" "" (Some "oper") "two" false);
   OpMsg 1 (ex_chat "chat" "" "i1" "b" "" None "three" false);
   OpMsg 1 (ex_clear (VMap [("id", Some "i1"); ("userId", Some "a")]));
   OpMsg 0 (ex_clear (VMap [("id", Some "i1")]));
   OpDrain 0; OpDrain 1; OpDrain 3;
   OpMsg 0 (ex_clear (VMap [("id", Some "i1"); ("userId", Some "a")]));
   OpClient "d"; OpMsg 4 (ex_join "g" "user" "pwu"); OpQuiesce].

Example ex_clear_and_replay :
  let cc := ("usermessage", "clearchat", "", "", "", None, true, "?") in
  let ud := ("user", "add", "d", "", "", Some "user", false, "") in
  outs ex_hist_ops =
    [[cc; ud]; [cc; ud]; []; [cc; ud];
     [("joined", "join", "", "", "", Some "user", false, "");
      ("chathistory", "", "i2", "a", "", Some "oper", false, "two");
      ("chathistory", "", "i1", "b", "", None, false, "three");
      ud; ("user", "add", "a", "", "", Some "oper", false, "");
      ("user", "add", "b", "", "", Some "user", false, "");
      ("user", "add", "m", "", "", Some "mute", false, "")]] /\
  hists ex_hist_ops =
    ([mkChat "i2" "a" (Some "oper") "" "two"; mkChat "i1" "b" None "" "three"], []).
Proof. vm_compute. split; reflexivity. Qed.

(* 53 broadcast chats: the three oldest are gone *)
Example ex_eviction :
  let ops := ex_setup ++
    map (fun n => OpMsg 1 (ex_chat "chat" "" (tokname n) "b" "" None "x" false)) (seq 0 53) in
  List.length (fst (hists ops)) = 50 /\ map h_id (firstn 2 (fst (hists ops))) = ["T003"; "T004"].
Proof. vm_compute. split; reflexivity. Qed.

(* REFUTATION of "marked privileged exactly when the sender was an operator
   at that time" for REPLAYED messages: the operator's broadcast i2 reaches
   the members present with privileged = true and the later joiner, as
   chathistory, with privileged = false (the stored entry has no such field) *)
Lemma privileged_replay_refuted :
  exists ops w live e,
    reach ops w /\
    sent_in ops (stored "g" e) /\
    sent_in ops (forwarded live) /\
    o_id live = h_id e /\ o_source live = h_source e /\ o_value live = h_value e /\
    o_priv live = true /\
    In (out_chathistory e) (out_of w 4) /\ o_priv (out_chathistory e) = false.
Proof.
  set (m2 := ex_chat "chat" "" "i2" "a" "" (Some "oper") "two" false).
  set (pre := ex_setup ++ [OpMsg 0 (ex_chat "chat" "" "i1" "a" "" (Some "oper") "one" false)]).
  assert (Hpre : exists w1 c, reach pre w1 /\ get_client w1 0 = Some c /\ c_closed c = false /\
                   c_group c = Some "g" /\ c_id c = "a" /\ c_username c = "oper" /\
                   c_perms c = ["op"; "message"; "caption"]).
  { unfold reach. destruct (run_ops empty_world pre) as [w1|] eqn:E; [|vm_compute in E; discriminate].
    vm_compute in E. inversion E; subst w1. eexists. eexists. repeat split; reflexivity. }
  destruct Hpre as (w1 & c & Hr1 & Hc & Hcl & Hg & Hid & Hu & Hp).
  assert (Hsplit : exists post, ex_hist_ops = pre ++ OpMsg 0 m2 :: post).
  { eexists. unfold ex_hist_ops, pre. rewrite <- app_assoc. cbn [app]. reflexivity. }
  destruct Hsplit as (post & Hsplit).
  assert (Ha : authentic_fields c m2).
  { split; [right; rewrite Hid; reflexivity | right; rewrite Hu; reflexivity]. }
  assert (Hperm : mem (chat_perm m2) (c_perms c) = true) by (rewrite Hp; reflexivity).
  destruct (run_ops empty_world ex_hist_ops) as [w|] eqn:E; [|vm_compute in E; discriminate].
  exists ex_hist_ops, w, (chat_out c m2), (chat_entry m2).
  split; [exact E|]. split; [|split].
  - exists pre, 0, m2, post, w1, c.
    split; [exact Hsplit|]. split; [exact Hr1|]. split; [exact Hc|]. split; [exact Hcl|].
    unfold stored. split; [reflexivity|]. split; [reflexivity|]. split; [exact Ha|].
    split; [exact Hg|]. split; [exact Hperm | reflexivity].
  - exists pre, 0, m2, post, w1, c.
    split; [exact Hsplit|]. split; [exact Hr1|]. split; [exact Hc|]. split; [exact Hcl|].
    unfold forwarded. split; [left; reflexivity|]. split; [exact Ha|].
    split; [exists "g"; exact Hg|]. split; [exact Hperm | reflexivity].
  - repeat split; try reflexivity.
    + cbn. rewrite Hp. reflexivity.
    + vm_compute in E. inversion E; subst w. vm_compute. right. left. reflexivity.
Qed.

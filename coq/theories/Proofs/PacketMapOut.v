(* Properties of the specification function out D r = r - |{d in D | d < r}|
   (D the set of withheld numbers): what "gap-free, unique and ordered" means. *)
From Coq Require Import ZArith List Bool Lia.
From Coq Require Import ZifyBool.
From Galene Require Import Lib.Word Proofs.PacketMapGhost.
Import ListNotations.
Open Scope Z_scope.

Lemma before_succ D r : NoDup D ->
  before D (r + 1) = before D r + (if existsb (Z.eqb r) D then 1 else 0).
Proof.
  unfold before. induction 1 as [|d D Hd Hnd IH]; cbn [filter existsb length]; [lia|].
  destruct (r =? d) eqn:E.
  - assert (r = d) by lia. subst d. cbn [orb].
    replace (r <? r + 1) with true by lia. replace (r <? r) with false by lia.
    cbn [length]. rewrite Nat2Z.inj_succ, IH.
    replace (existsb (Z.eqb r) D) with false; [lia|].
    symmetry. apply not_true_is_false. intros Hx. apply Hd.
    apply existsb_exists in Hx. destruct Hx as (x & Hin & Hx). assert (r = x) by lia. subst. exact Hin.
  - cbn [orb]. destruct (d <? r + 1) eqn:E1; destruct (d <? r) eqn:E2; cbn [length]; lia.
Qed.

(* a forwarded packet takes the number after the previous forwarded one;
   a withheld packet takes no number *)
Lemma out_succ D r : NoDup D ->
  out D (r + 1) = out D r + (if existsb (Z.eqb r) D then 0 else 1).
Proof. intros H. unfold out. rewrite (before_succ D r H). destruct (existsb _ D); lia. Qed.

Lemma out_mono D a b : NoDup D -> a <= b -> out D a <= out D b.
Proof. intros Hnd Hab. unfold out. pose proof (before_lip D a b Hnd Hab). lia. Qed.

Lemma out_strict D a b : NoDup D -> a < b -> ~ In a D -> out D a < out D b.
Proof.
  intros Hnd Hab Hna.
  pose proof (out_succ D a Hnd) as Hs.
  replace (existsb (Z.eqb a) D) with false in Hs.
  - pose proof (out_mono D (a + 1) b Hnd ltac:(lia)). lia.
  - symmetry. apply not_true_is_false. intros Hx. apply Hna.
    apply existsb_exists in Hx. destruct Hx as (x & Hin & Hx). assert (a = x) by lia. subst. exact Hin.
Qed.

Lemma out_inj D a b : NoDup D -> ~ In a D -> ~ In b D -> out D a = out D b -> a = b.
Proof.
  intros Hnd Ha Hb Heq.
  destruct (Z.lt_trichotomy a b) as [H|[H|H]]; [|exact H|].
  - pose proof (out_strict D a b Hnd H Ha). lia.
  - pose proof (out_strict D b a Hnd H Hb). lia.
Qed.

(* C07, layer 2: the structural invariant of Model/Subscribe.v and the
   hypothesis on histories under which it holds ([ok_op]: stream ids are
   unique and `replace` names one of the publisher's own streams and comes with
   the first offer of the replacing stream, as the reference client does). *)
From Coq Require Import List Bool Arith PeanoNat Lia.
From Galene Require Import Model.Subscribe Proofs.SubscribeFrame.
Import ListNotations.

(* ---- vocabulary *)

Definition alive (w : world) (u : nat) : Prop :=
  u < w_nup w /\ uo_closed (w_up w u) = false.

(* a stream with this id existed and has ended (ids are unique: THE stream) *)
Definition ended (w : world) (id : nat) : Prop :=
  exists v, v < w_nup w /\ uo_id (w_up w v) = id /\ uo_closed (w_up w v) = true.

Definition action_ok (w : world) (m : nat) (a : action) : Prop :=
  match a with
  | APush g id (Some u) ts r =>
      u < w_nup w /\ uo_id (w_up w u) = id /\ g = uo_group (w_up w u) /\
      (exists l, uo_tracks (w_up w u) = ts ++ l) /\ uo_owner (w_up w u) <> m /\
      (r <> 0 -> ended w r)
  | APush g id None ts r => ended w id /\ (r <> 0 -> ended w r)
  | AReqConns g t id => t <> m
  | _ => True
  end.

Definition down_ok (w : world) (m : nat) (d : down) : Prop :=
  d_remote d < w_nup w /\ uo_id (w_up w (d_remote d)) = d_id d /\
  c_group (w_cl w m) = Some (uo_group (w_up w (d_remote d))) /\
  uo_owner (w_up w (d_remote d)) <> m.

Record Inv (w : world) : Prop := mkInv {
  inv_ids : forall u v, u < w_nup w -> v < w_nup w ->
            uo_id (w_up w u) = uo_id (w_up w v) -> u = v;
  inv_idnz : forall u, u < w_nup w -> uo_id (w_up w u) <> 0;
  inv_ups : forall c id u, lookup id (c_up (w_cl w c)) = Some u ->
            u < w_nup w /\ uo_owner (w_up w u) = c /\ uo_id (w_up w u) = id /\
            uo_closed (w_up w u) = false;
  inv_alive : forall u, u < w_nup w -> uo_closed (w_up w u) = false ->
            lookup (uo_id (w_up w u)) (c_up (w_cl w (uo_owner (w_up w u)))) = Some u /\
            c_group (w_cl w (uo_owner (w_up w u))) = Some (uo_group (w_up w u));
  inv_downs : forall m d, In d (c_down (w_cl w m)) -> down_ok w m d;
  inv_downs_nodup : forall m, NoDup (map d_id (c_down (w_cl w m)));
  inv_queue : forall m a, In a (c_queue (w_cl w m)) -> action_ok w m a;
  inv_timers : forall t, In t (w_timers w) ->
            t_up t < w_nup w /\ t_group t = uo_group (w_up w (t_up t));
  inv_replace : forall u, u < w_nup w -> uo_replace (w_up w u) <> 0 ->
            ended w (uo_replace (w_up w u));
  inv_nogroup : forall c, c_group (w_cl w c) = None ->
            c_up (w_cl w c) = [] /\ c_down (w_cl w c) = [] /\ c_present (w_cl w c) = false /\
            c_req (w_cl w c) = [];
  inv_dead : forall c, c_dead (w_cl w c) = true -> c_group (w_cl w c) = None;
  inv_ups_nodup : forall c, NoDup (map fst (c_up (w_cl w c)))
}.

(* The hypothesis on histories. *)
Definition ok_op (w : world) (o : op) : Prop :=
  match o with
  | OpMsg c (MOffer id label replace s) =>
      (lookup id (c_up (w_cl w c)) = None ->
       forall v, v < w_nup w -> uo_id (w_up w v) <> id) /\
      (replace <> 0 ->
       lookup id (c_up (w_cl w c)) = None /\ lookup replace (c_up (w_cl w c)) <> None)
  | _ => True
  end.

Fixpoint ok_run (w : world) (ops : list op) : Prop :=
  match ops with
  | [] => True
  | o :: r => ok_op w o /\ ok_run (step w o) r
  end.

(* ---- the heap only grows: what stays true of an object *)

Definition heap_le (w w' : world) : Prop :=
  w_nup w <= w_nup w' /\
  forall u, u < w_nup w ->
    uo_id (w_up w' u) = uo_id (w_up w u) /\ uo_owner (w_up w' u) = uo_owner (w_up w u) /\
    uo_label (w_up w' u) = uo_label (w_up w u) /\ uo_group (w_up w' u) = uo_group (w_up w u) /\
    (uo_closed (w_up w u) = true -> uo_closed (w_up w' u) = true) /\
    (exists l, uo_tracks (w_up w' u) = uo_tracks (w_up w u) ++ l).

Lemma heap_le_refl : forall w, heap_le w w.
Proof.
  intro w. split; [lia|]. intros u _. repeat split; auto. exists []. rewrite app_nil_r. reflexivity.
Qed.

Lemma heap_le_trans : forall a b c, heap_le a b -> heap_le b c -> heap_le a c.
Proof.
  intros a b c [H1 H2] [H3 H4]. split; [lia|]. intros u Hu.
  destruct (H2 u Hu) as [A1 [A2 [A3 [A4 [A5 [l1 A6]]]]]].
  assert (Hu' : u < w_nup b) by lia.
  destruct (H4 u Hu') as [B1 [B2 [B3 [B4 [B5 [l2 B6]]]]]].
  repeat split; try congruence; auto.
  exists (l1 ++ l2). rewrite B6, A6, app_assoc. reflexivity.
Qed.

(* same heap *)
Lemma heap_le_same : forall w w', w_nup w' = w_nup w -> w_up w' = w_up w -> heap_le w w'.
Proof.
  intros w w' H1 H2. split; [lia|]. intros u _. rewrite H2. repeat split; auto.
  exists []. rewrite app_nil_r. reflexivity.
Qed.

Lemma ended_mono : forall w w' id, heap_le w w' -> ended w id -> ended w' id.
Proof.
  intros w w' id [H1 H2] [v [Hv [Hid Hc]]].
  destruct (H2 v Hv) as [A1 [_ [_ [_ [A5 _]]]]].
  exists v. repeat split; [lia|congruence|auto].
Qed.

Lemma action_ok_mono : forall w w' m a,
  heap_le w w' -> action_ok w m a -> action_ok w' m a.
Proof.
  intros w w' m a Hle Ha.
  assert (Hend : forall id, ended w id -> ended w' id) by (intros; eapply ended_mono; eauto).
  destruct a as [g id [u|] ts r|g t id|g give| |]; simpl in *; auto.
  - destruct Ha as [A1 [A2 [A3 [[l A4] [A5 A6]]]]]. destruct Hle as [Hn H2].
    destruct (H2 u A1) as [B1 [B2 [_ [B4 [_ [l' B6]]]]]].
    repeat split; try congruence; try lia; auto.
    exists (l ++ l'). rewrite B6, A4, app_assoc. reflexivity.
  - destruct Ha as [A1 A2]. split; auto.
Qed.

(* ---- Inv is preserved by the primitive updates *)

Lemma action_ok_same_heap : forall w w' m a,
  w_nup w' = w_nup w -> w_up w' = w_up w -> action_ok w m a -> action_ok w' m a.
Proof.
  intros. eapply action_ok_mono; eauto. apply heap_le_same; auto.
Qed.

Lemma ended_same_heap : forall w w' id,
  w_nup w' = w_nup w -> w_up w' = w_up w -> ended w id -> ended w' id.
Proof.
  intros w w' id H1 H2 [v [Hv [Hid Hc]]]. exists v. rewrite H1, H2. auto.
Qed.

Ltac start I :=
  destruct I as [Iids Iidnz Iups Ialive Idowns Inodup Iqueue Itimers Ireplace Inogroup Idead Iupsnd];
  constructor; intros; autorewrite with sub in *.

Ltac sameheap w :=
  first [ eapply (action_ok_same_heap w); [reflexivity|reflexivity|]
        | eapply (ended_same_heap w); [reflexivity|reflexivity|] ].

Lemma Inv_send : forall w m x, Inv w -> Inv (send m x w).
Proof.
  intros w m x I. start I;
  [> eauto | eauto | eauto | eauto | | eauto | sameheap w; eauto | eauto | sameheap w; eauto | eauto | eauto | eauto ].
  unfold down_ok. autorewrite with sub. apply Idowns. assumption.
Qed.

Lemma Inv_enq : forall w m a, Inv w -> action_ok w m a -> Inv (enq m a w).
Proof.
  intros w m a I Ha. start I;
  [> eauto | eauto | eauto | eauto | | eauto | sameheap w | eauto | sameheap w; eauto | eauto | eauto | eauto ].
  - unfold down_ok. autorewrite with sub. apply Idowns. assumption.
  - apply in_app_iff in H. destruct H as [H|H]; [auto|].
    destruct (Nat.eqb_spec m0 m); [|destruct H]. destruct H as [H|[]]. subst. exact Ha.
Qed.

Lemma Inv_enq_all : forall ts w a, Inv w -> (forall m, In m ts -> action_ok w m a) -> Inv (enq_all ts a w).
Proof.
  induction ts as [|t ts IH]; intros w a I Ha; [exact I|].
  rewrite enq_all_cons. apply IH.
  - apply Inv_enq; [exact I|]. apply Ha. left. reflexivity.
  - intros m Hm. sameheap w. apply Ha. right. exact Hm.
Qed.

Lemma Inv_del_down : forall w m id, Inv w -> Inv (del_down m id w).
Proof.
  intros w m id I. start I;
  [> eauto | eauto | eauto | eauto | | | sameheap w; eauto | eauto | sameheap w; eauto | | eauto | eauto ].
  - assert (Hin : In d (c_down (w_cl w m0))).
    { destruct (Nat.eqb m0 m); [apply in_remove_down in H; tauto|exact H]. }
    unfold down_ok. autorewrite with sub. apply Idowns. exact Hin.
  - destruct (Nat.eqb m0 m); [apply map_id_remove_down|]; auto.
  - destruct (Inogroup c H) as [A [B [C D]]]. repeat split; auto.
    destruct (Nat.eqb c m); [rewrite B; reflexivity|exact B].
Qed.

Lemma Inv_set_down_entry : forall w m d,
  Inv w -> down_ok w m d -> get_down (d_id d) (c_down (w_cl w m)) <> None ->
  Inv (set_down_entry m d w).
Proof.
  intros w m d I Hd Hex. start I;
  [> eauto | eauto | eauto | eauto | | | sameheap w; eauto | eauto | sameheap w; eauto | | eauto | eauto ].
  - unfold down_ok. autorewrite with sub.
    destruct (Nat.eqb_spec m0 m).
    + subst. apply in_replace_down_nodup in H; [|apply Inodup].
      destruct H as [H|[H _]]; [subst; exact Hd|apply Idowns; exact H].
    + apply Idowns. exact H.
  - destruct (Nat.eqb m0 m); [rewrite map_id_replace_down|]; auto.
  - destruct (Inogroup c H) as [A [B [C D]]]. repeat split; auto.
    destruct (Nat.eqb_spec c m); [|exact B]. subst. rewrite B in Hex. simpl in Hex. congruence.
Qed.

Lemma Inv_close_down_conn : forall w m id msg, Inv w -> Inv (close_down_conn m id msg w).
Proof.
  intros. unfold close_down_conn. destruct msg; repeat apply Inv_send; apply Inv_del_down; assumption.
Qed.

(* ---- more primitive updates *)

Lemma down_ok_same : forall w m d d',
  d_remote d' = d_remote d -> d_id d' = d_id d -> down_ok w m d -> down_ok w m d'.
Proof. unfold down_ok. intros w m d d' H1 H2. rewrite H1, H2. auto. Qed.

(* a client-only update that keeps group, ups, downs, queue *)
Lemma Inv_upd_cl_light : forall w c f,
  Inv w ->
  (forall x, c_group (f x) = c_group x /\ c_up (f x) = c_up x /\ c_down (f x) = c_down x /\
             c_queue (f x) = c_queue x /\ c_dead (f x) = c_dead x) ->
  (c_group (w_cl w c) = None -> c_present (f (w_cl w c)) = false /\ c_req (f (w_cl w c)) = []) ->
  Inv (upd_cl c f w).
Proof.
  intros w c f I Hf Hn.
  assert (P : forall x, c_group (w_cl (upd_cl c f w) x) = c_group (w_cl w x) /\
                        c_up (w_cl (upd_cl c f w) x) = c_up (w_cl w x) /\
                        c_down (w_cl (upd_cl c f w) x) = c_down (w_cl w x) /\
                        c_queue (w_cl (upd_cl c f w) x) = c_queue (w_cl w x) /\
                        c_dead (w_cl (upd_cl c f w) x) = c_dead (w_cl w x)).
  { intro x. unfold upd_cl. simpl. destruct (Nat.eqb x c); [apply Hf|repeat split]. }
  destruct I as [Iids Iidnz Iups Ialive Idowns Inodup Iqueue Itimers Ireplace Inogroup Idead Iupsnd].
  constructor; intros.
  - eauto.
  - eauto.
  - destruct (P c0) as [_ [E _]]. rewrite E in H. eauto.
  - destruct (P (uo_owner (w_up w u))) as [E1 [E2 _]]. change (w_up (upd_cl c f w)) with (w_up w).
    rewrite E1, E2. apply Ialive; assumption.
  - destruct (P m) as [E1 [_ [E3 _]]]. rewrite E3 in H. unfold down_ok.
    change (w_up (upd_cl c f w)) with (w_up w). change (w_nup (upd_cl c f w)) with (w_nup w).
    rewrite E1. apply Idowns. exact H.
  - destruct (P m) as [_ [_ [E3 _]]]. rewrite E3. apply Inodup.
  - destruct (P m) as [_ [_ [_ [E4 _]]]]. rewrite E4 in H.
    eapply (action_ok_same_heap w); [reflexivity|reflexivity|]. auto.
  - eauto.
  - eapply (ended_same_heap w); [reflexivity|reflexivity|]. eauto.
  - destruct (P c0) as [E1 [E2 [E3 _]]]. rewrite E1 in H. rewrite E2, E3.
    destruct (Inogroup c0 H) as [A [B [C D]]]. split; [exact A|]. split; [exact B|].
    unfold upd_cl. simpl. destruct (Nat.eqb_spec c0 c); [subst; apply Hn; exact H|tauto].
  - destruct (P c0) as [E1 [_ [_ [_ E5]]]]. rewrite E5 in H. rewrite E1. auto.
  - destruct (P c0) as [_ [E _]]. rewrite E. apply Iupsnd.
Qed.

(* appending a new down connection *)
Lemma Inv_add_down : forall w m d,
  Inv w -> down_ok w m d -> get_down (d_id d) (c_down (w_cl w m)) = None ->
  Inv (upd_cl m (fun c => set_down (c_down c ++ [d]) c) w).
Proof.
  intros w m d I Hd Hnone.
  destruct I as [Iids Iidnz Iups Ialive Idowns Inodup Iqueue Itimers Ireplace Inogroup Idead Iupsnd].
  assert (G : forall x, c_group (w_cl (upd_cl m (fun c => set_down (c_down c ++ [d]) c) w) x) = c_group (w_cl w x)).
  { intro x. unfold upd_cl. simpl. destruct (Nat.eqb x m); reflexivity. }
  constructor; intros.
  - eauto.
  - eauto.
  - apply (Iups c id u). revert H. unfold upd_cl. simpl. destruct (Nat.eqb c m); auto.
  - change (w_up (upd_cl m (fun c => set_down (c_down c ++ [d]) c) w)) with (w_up w).
    rewrite G. destruct (Ialive u H H0) as [A B]. split; [|exact B].
    unfold upd_cl. simpl. destruct (Nat.eqb (uo_owner (w_up w u)) m); exact A.
  - unfold down_ok. change (w_up (upd_cl m (fun c => set_down (c_down c ++ [d]) c) w)) with (w_up w).
    change (w_nup (upd_cl m (fun c => set_down (c_down c ++ [d]) c) w)) with (w_nup w). rewrite G.
    revert H. unfold upd_cl. simpl. destruct (Nat.eqb_spec m0 m).
    + subst. simpl. rewrite in_app_iff. intros [H|[H|[]]]; [apply Idowns; exact H|subst; exact Hd].
    + apply Idowns.
  - unfold upd_cl. simpl. destruct (Nat.eqb_spec m0 m); [|apply Inodup]. subst. simpl.
    rewrite map_app. simpl. apply NoDup_app_one; [apply Inodup|].
    apply get_down_none. exact Hnone.
  - eapply (action_ok_same_heap w); [reflexivity|reflexivity|]. apply Iqueue.
    revert H. unfold upd_cl. simpl. destruct (Nat.eqb m0 m); auto.
  - eauto.
  - eapply (ended_same_heap w); [reflexivity|reflexivity|]. eauto.
  - rewrite G in H. destruct (Inogroup c H) as [A [B [C D]]].
    unfold upd_cl. simpl. destruct (Nat.eqb_spec c m).
    + subst. exfalso. destruct Hd as [_ [_ [Hg _]]]. congruence.
    + tauto.
  - rewrite G. apply Idead. revert H. unfold upd_cl. simpl. destruct (Nat.eqb c m); auto.
  - unfold upd_cl. simpl. destruct (Nat.eqb c m); apply Iupsnd.
Qed.

(* ---- pushDownConn *)

Lemma in_group_eq : forall g c, in_group g c = true <-> c_group c = Some g.
Proof.
  unfold in_group. intros g c. destruct (c_group c) as [g'|].
  - destruct (Nat.eqb_spec g' g).
    + subst. split; reflexivity.
    + split; [discriminate|]. intro H. inversion H. contradiction.
  - split; discriminate.
Qed.

Lemma replace_tracks_same : forall d r l b d',
  replace_tracks d r l = (b, d') -> d_remote d' = d_remote d /\ d_id d' = d_id d /\ d_req d' = d_req d.
Proof.
  unfold replace_tracks. intros d r l b d'.
  destruct (filter _ r); destruct (filter (fun p => negb (mem_pair p r)) (d_tracks d));
    intro H; inversion H; subst; simpl; auto.
Qed.

Lemma Inv_negotiate : forall w m d r,
  Inv w -> down_ok w m d -> get_down (d_id d) (c_down (w_cl w m)) <> None ->
  Inv (negotiate m d r w).
Proof.
  intros w m d r I Hd Hex. unfold negotiate. destruct (d_havelocal d).
  - apply Inv_set_down_entry; auto.
  - apply Inv_send. apply Inv_set_down_entry; auto.
Qed.

Lemma Inv_push_down_conn : forall w m g id up ts r,
  Inv w -> action_ok w m (APush g id up ts r) -> c_group (w_cl w m) = Some g ->
  Inv (fst (push_down_conn m id up ts r w)).
Proof.
  intros w m g id up ts r I Ha Hg. unfold push_down_conn.
  set (w1 := if Nat.eqb r 0 then w else del_down m r w).
  assert (I1 : Inv w1) by (unfold w1; destruct (Nat.eqb r 0); [exact I|apply Inv_del_down; exact I]).
  assert (Hdef : forall w', Inv w' -> Inv (if Nat.eqb r 0 then w' else close_down_conn m r false w')).
  { intros w' I'. destruct (Nat.eqb r 0); [exact I'|apply Inv_close_down_conn; exact I']. }
  match goal with |- context [match fst ?s with _ => _ end] => destruct (fst s) as [|i0 sel] eqn:Esel end.
  - cbn [fst]. apply Hdef. apply Inv_close_down_conn. exact I1.
  - destruct up as [u|]; [|cbn [fst]; apply Hdef; apply Inv_close_down_conn; exact I1].
    simpl in Ha. destruct Ha as [A1 [A2 [A3 [A4 [A5 A6]]]]].
    assert (G1 : c_group (w_cl w1 m) = Some g).
    { unfold w1. destruct (Nat.eqb r 0); [exact Hg|]. autorewrite with sub. exact Hg. }
    assert (U1 : w_up w1 = w_up w) by (unfold w1; destruct (Nat.eqb r 0); reflexivity).
    assert (N1 : w_nup w1 = w_nup w) by (unfold w1; destruct (Nat.eqb r 0); reflexivity).
    unfold add_down_conn. rewrite U1.
    destruct (lookup (uo_id (w_up w u)) (c_up (w_cl w1 m))); [cbn [fst]; apply Hdef; exact I1|].
    destruct (get_down (uo_id (w_up w u)) (c_down (w_cl w1 m))) as [d0|] eqn:Eg.
    + (* existing connection *)
      rewrite Eg.
      destruct (replace_tracks d0 _ _) as [changed d'] eqn:Er.
      destruct (replace_tracks_same _ _ _ _ _ Er) as [R1 [R2 R3]].
      destruct (get_down_in _ _ _ Eg) as [Hin Hid].
      assert (Hd0 : down_ok w1 m d0) by (apply (inv_downs _ I1); exact Hin).
      assert (Hd' : down_ok w1 m d') by (eapply down_ok_same; eauto).
      assert (Hex : get_down (d_id d') (c_down (w_cl w1 m)) <> None) by (rewrite R2, Hid, Eg; discriminate).
      assert (I3 : Inv (set_down_entry m d' w1)) by (apply Inv_set_down_entry; auto).
      destruct changed; cbn [fst].
      * apply Inv_negotiate; auto.
        -- unfold down_ok in *. autorewrite with sub. exact Hd'.
        -- autorewrite with sub. rewrite Nat.eqb_refl. rewrite get_down_replace_same; [discriminate|exact Hex].
      * apply Hdef. exact I3.
    + destruct (uo_closed (w_up w u)) eqn:Ec; [cbn [fst]; apply Hdef; exact I1|].
      set (dn := mkDown (uo_id (w_up w u)) u None [] false false false).
      set (w2 := upd_cl m (fun c => set_down (c_down c ++ [dn]) c) w1).
      assert (Hdn : down_ok w1 m dn).
      { unfold down_ok, dn. simpl. rewrite U1, N1, G1. repeat split; auto; congruence. }
      assert (I2 : Inv w2) by (apply Inv_add_down; auto).
      assert (Eg2 : get_down (uo_id (w_up w u)) (c_down (w_cl w2 m)) = Some dn).
      { unfold w2, upd_cl. simpl. rewrite Nat.eqb_refl. simpl. rewrite get_down_app, Eg. simpl.
        rewrite Nat.eqb_refl. reflexivity. }
      rewrite Eg2.
      destruct (replace_tracks dn _ _) as [changed d'] eqn:Er.
      destruct (replace_tracks_same _ _ _ _ _ Er) as [R1 [R2 R3]].
      assert (Hdn2 : down_ok w2 m dn).
      { unfold down_ok in *. unfold w2. simpl. rewrite Nat.eqb_refl. simpl. exact Hdn. }
      assert (Hd' : down_ok w2 m d') by (eapply down_ok_same; eauto).
      assert (Hex : get_down (d_id d') (c_down (w_cl w2 m)) <> None).
      { rewrite R2. change (d_id dn) with (uo_id (w_up w u)). rewrite Eg2. discriminate. }
      assert (I3 : Inv (set_down_entry m d' w2)) by (apply Inv_set_down_entry; auto).
      destruct changed; cbn [fst].
      * apply Inv_negotiate; auto.
        -- unfold down_ok in *. autorewrite with sub. exact Hd'.
        -- autorewrite with sub. rewrite Nat.eqb_refl. rewrite get_down_replace_same; [discriminate|exact Hex].
      * apply Hdef. exact I3.
Qed.

(* ---- delUpConn *)

(* the table entry is removed and the object closed; optionally another
   object x records the id as the stream it replaces *)
Definition remove_close (c id u : nat) (w : world) : world :=
  upd_up u up_set_closed (upd_cl c (fun cl => set_ups (remove_key id (c_up cl)) cl) w).

Lemma heap_le_remove_close : forall c id u w, heap_le w (remove_close c id u w).
Proof.
  intros. split; [simpl; lia|]. intros v Hv. unfold remove_close. simpl.
  destruct (Nat.eqb v u); simpl; repeat split; auto; exists []; rewrite app_nil_r; reflexivity.
Qed.

Lemma Inv_remove_close : forall w c id u,
  Inv w -> lookup id (c_up (w_cl w c)) = Some u -> Inv (remove_close c id u w).
Proof.
  intros w c id u I Hl.
  pose proof (heap_le_remove_close c id u w) as Hle.
  destruct I as [Iids Iidnz Iups Ialive Idowns Inodup Iqueue Itimers Ireplace Inogroup Idead Iupsnd].
  destruct (Iups c id u Hl) as [U1 [U2 [U3 U4]]].
  assert (P : forall v, uo_id (w_up (remove_close c id u w) v) = uo_id (w_up w v) /\
                        uo_owner (w_up (remove_close c id u w) v) = uo_owner (w_up w v) /\
                        uo_group (w_up (remove_close c id u w) v) = uo_group (w_up w v) /\
                        uo_replace (w_up (remove_close c id u w) v) = uo_replace (w_up w v) /\
                        uo_closed (w_up (remove_close c id u w) v) = (if Nat.eqb v u then true else uo_closed (w_up w v))).
  { intro v. unfold remove_close. simpl. destruct (Nat.eqb v u); simpl; repeat split. }
  assert (Q : forall x, c_group (w_cl (remove_close c id u w) x) = c_group (w_cl w x) /\
                        c_down (w_cl (remove_close c id u w) x) = c_down (w_cl w x) /\
                        c_queue (w_cl (remove_close c id u w) x) = c_queue (w_cl w x) /\
                        c_dead (w_cl (remove_close c id u w) x) = c_dead (w_cl w x) /\
                        c_present (w_cl (remove_close c id u w) x) = c_present (w_cl w x) /\
                        c_req (w_cl (remove_close c id u w) x) = c_req (w_cl w x) /\
                        c_up (w_cl (remove_close c id u w) x) =
                          (if Nat.eqb x c then remove_key id (c_up (w_cl w x)) else c_up (w_cl w x))).
  { intro x. unfold remove_close. simpl. destruct (Nat.eqb x c); simpl; repeat split. }
  assert (Hend : forall i, ended w i -> ended (remove_close c id u w) i).
  { intros i He. eapply ended_mono; eauto. }
  constructor; intros.
  - destruct (P u0) as [E1 _]. destruct (P v) as [E2 _]. rewrite E1, E2 in H1. eauto.
  - destruct (P u0) as [E1 _]. rewrite E1. eauto.
  - destruct (Q c0) as [_ [_ [_ [_ [_ [_ E]]]]]]. rewrite E in H.
    destruct (P u0) as [E1 [E2 [_ [_ E5]]]]. rewrite E1, E2, E5.
    change (w_nup (remove_close c id u w)) with (w_nup w).
    assert (Hold : lookup id0 (c_up (w_cl w c0)) = Some u0 /\ (c0 = c -> id0 <> id)).
    { destruct (Nat.eqb_spec c0 c); [|split; [exact H|tauto]]. subst c0.
      destruct (Nat.eqb_spec id0 id); [subst id0; rewrite lookup_remove_key_same in H; discriminate|].
      rewrite lookup_remove_key_other in H; auto. }
    destruct Hold as [Hold Hne]. destruct (Iups c0 id0 u0 Hold) as [V1 [V2 [V3 V4]]].
    repeat split; auto. destruct (Nat.eqb_spec u0 u); [|exact V4].
    subst u0. exfalso. apply Hne; congruence.
  - change (w_nup (remove_close c id u w)) with (w_nup w) in H.
    destruct (P u0) as [E1 [E2 [E3 [_ E5]]]]. rewrite E5 in H0. rewrite E1, E2, E3.
    destruct (Nat.eqb_spec u0 u); [discriminate|].
    destruct (Ialive u0 H H0) as [A B].
    destruct (Q (uo_owner (w_up w u0))) as [G [_ [_ [_ [_ [_ E]]]]]]. rewrite G, E. split; [|exact B].
    destruct (Nat.eqb_spec (uo_owner (w_up w u0)) c); [|exact A].
    rewrite lookup_remove_key_other; [exact A|]. intro X. apply n. apply Iids; auto. congruence.
  - destruct (Q m) as [G [D _]]. rewrite D in H. destruct (Idowns m d H) as [D1 [D2 [D3 D4]]].
    unfold down_ok. destruct (P (d_remote d)) as [E1 [E2 [E3 _]]]. rewrite E1, E2, E3, G.
    repeat split; auto.
  - destruct (Q m) as [_ [D _]]. rewrite D. apply Inodup.
  - destruct (Q m) as [_ [_ [E _]]]. rewrite E in H.
    eapply action_ok_mono; [exact Hle|]. auto.
  - change (w_timers (remove_close c id u w)) with (w_timers w) in H.
    destruct (Itimers t H) as [T1 T2]. destruct (P (t_up t)) as [_ [E2 [E3 _]]].
    rewrite E3. repeat split; auto.
  - destruct (P u0) as [_ [_ [_ [E4 _]]]]. rewrite E4 in *. apply Hend. apply Ireplace; auto.
  - destruct (Q c0) as [G [D [_ [_ [Pr [R E]]]]]]. rewrite G in H. rewrite D, Pr, R, E.
    destruct (Inogroup c0 H) as [A [B [C DD]]]. repeat split; auto.
    destruct (Nat.eqb c0 c); [rewrite A; reflexivity|exact A].
  - destruct (Q c0) as [G [_ [_ [Dd _]]]]. rewrite Dd in H. rewrite G. auto.
  - destruct (Q c0) as [_ [_ [_ [_ [_ [_ E]]]]]]. rewrite E.
    destruct (Nat.eqb c0 c); [apply nodup_keys_remove|]; apply Iupsnd.
Qed.

Lemma ended_after_close : forall w c id u,
  Inv w -> lookup id (c_up (w_cl w c)) = Some u -> ended (remove_close c id u w) id.
Proof.
  intros w c id u I Hl.
  destruct (inv_ups _ I c id u Hl) as [U1 [U2 [U3 U4]]].
  exists u. unfold remove_close. simpl. rewrite Nat.eqb_refl. simpl. auto.
Qed.

Lemma del_up_conn_unfold : forall c id push w u,
  lookup id (c_up (w_cl w c)) = Some u ->
  del_up_conn c id push w =
  DelOk (match push, c_group (w_cl w c) with
         | true, Some g => enq_all (others (remove_close c id u w) g c)
                                   (APush g id None [] (uo_replace (w_up w u))) (remove_close c id u w)
         | _, _ => remove_close c id u w
         end).
Proof.
  intros. unfold del_up_conn. rewrite H. destruct push, (c_group (w_cl w c)); reflexivity.
Qed.

Lemma Inv_del_up_conn' : forall w c id push, Inv w -> Inv (del_up_conn' c id push w).
Proof.
  intros w c id push I. unfold del_up_conn'.
  destruct (lookup id (c_up (w_cl w c))) as [u|] eqn:Hl.
  - rewrite (del_up_conn_unfold _ _ _ _ _ Hl).
    pose proof (Inv_remove_close _ _ _ _ I Hl) as I2.
    destruct push; [|exact I2]. destruct (c_group (w_cl w c)) as [g|]; [|exact I2].
    apply Inv_enq_all; [exact I2|]. intros m _. simpl. split.
    + apply ended_after_close; auto.
    + intro Hr. destruct (inv_ups _ I c id u Hl) as [U1 _].
      pose proof (inv_replace _ I u U1 Hr) as He.
      eapply ended_mono; [apply heap_le_remove_close|exact He].
  - unfold del_up_conn. rewrite Hl. exact I.
Qed.

Lemma del_up_conn'_c_up : forall c id push w x,
  c_up (w_cl (del_up_conn' c id push w) x) =
  if Nat.eqb x c then remove_key id (c_up (w_cl w x)) else c_up (w_cl w x).
Proof.
  intros. unfold del_up_conn'.
  destruct (lookup id (c_up (w_cl w c))) as [u|] eqn:Hl.
  - rewrite (del_up_conn_unfold _ _ _ _ _ Hl).
    destruct push; [destruct (c_group (w_cl w c))|]; autorewrite with sub;
      unfold remove_close; simpl; destruct (Nat.eqb x c); reflexivity.
  - unfold del_up_conn. rewrite Hl. destruct (Nat.eqb_spec x c); [|reflexivity].
    subst. rewrite remove_key_notin; auto.
Qed.

Lemma del_up_conn'_group : forall c id push w x,
  c_group (w_cl (del_up_conn' c id push w) x) = c_group (w_cl w x).
Proof.
  intros. unfold del_up_conn'.
  destruct (lookup id (c_up (w_cl w c))) as [u|] eqn:Hl.
  - rewrite (del_up_conn_unfold _ _ _ _ _ Hl).
    destruct push; [destruct (c_group (w_cl w c))|]; autorewrite with sub;
      unfold remove_close; simpl; destruct (Nat.eqb x c); reflexivity.
  - unfold del_up_conn. rewrite Hl. reflexivity.
Qed.

(* ---- Inv only looks at the world pointwise *)

Definition weq (w w' : world) : Prop :=
  w_n w = w_n w' /\ w_nup w = w_nup w' /\ w_timers w = w_timers w' /\
  (forall x, w_cl w x = w_cl w' x) /\ (forall u, w_up w u = w_up w' u).

Lemma ended_ext : forall w w' id, weq w w' -> ended w id -> ended w' id.
Proof.
  intros w w' id [_ [Hn [_ [_ Hu]]]] [v [Hv [Hid Hc]]]. exists v. rewrite <- Hn, <- Hu. auto.
Qed.

Lemma action_ok_ext : forall w w' m a, weq w w' -> action_ok w m a -> action_ok w' m a.
Proof.
  intros w w' m a Hq Ha. pose proof (ended_ext w w') as He.
  destruct Hq as [H1 [Hn [H3 [Hc Hu]]]].
  assert (Hq : weq w w') by (repeat split; auto).
  destruct a as [g id [u|] ts r|g t id|g give| |]; simpl in *; auto.
  - rewrite <- Hn, <- Hu. destruct Ha as [A1 [A2 [A3 [A4 [A5 A6]]]]]. repeat split; auto.
  - destruct Ha. split; auto.
Qed.

Lemma Inv_ext : forall w w', weq w w' -> Inv w -> Inv w'.
Proof.
  intros w w' Hq I. pose proof (ended_ext w w' ) as He. pose proof (action_ok_ext w w') as Hao.
  destruct Hq as [H1 [Hn [H3 [Hc Hu]]]].
  assert (Hq : weq w w') by (repeat split; auto).
  destruct I as [Iids Iidnz Iups Ialive Idowns Inodup Iqueue Itimers Ireplace Inogroup Idead Iupsnd].
  constructor; intros; try rewrite <- Hn in *; repeat rewrite <- Hu in *; repeat rewrite <- Hc in *;
    try rewrite <- H3 in *; eauto.
  unfold down_ok. rewrite <- Hn, <- Hu, <- Hc. apply Idowns. assumption.
Qed.

(* ---- gotOffer *)

Lemma Inv_set_replace : forall w x rid,
  Inv w -> x < w_nup w -> ended w rid -> Inv (upd_up x (up_set_replace rid) w).
Proof.
  intros w x rid I Hx He.
  assert (Hle : heap_le w (upd_up x (up_set_replace rid) w)).
  { split; [simpl; lia|]. intros v Hv. simpl. destruct (Nat.eqb v x); simpl; repeat split; auto;
      exists []; rewrite app_nil_r; reflexivity. }
  assert (P : forall v, uo_id (w_up (upd_up x (up_set_replace rid) w) v) = uo_id (w_up w v) /\
                        uo_owner (w_up (upd_up x (up_set_replace rid) w) v) = uo_owner (w_up w v) /\
                        uo_group (w_up (upd_up x (up_set_replace rid) w) v) = uo_group (w_up w v) /\
                        uo_closed (w_up (upd_up x (up_set_replace rid) w) v) = uo_closed (w_up w v)).
  { intro v. simpl. destruct (Nat.eqb v x); simpl; repeat split. }
  destruct I as [Iids Iidnz Iups Ialive Idowns Inodup Iqueue Itimers Ireplace Inogroup Idead Iupsnd].
  constructor; intros; autorewrite with sub in *.
  - destruct (P u) as [E1 _]. destruct (P v) as [E2 _]. simpl in E1, E2. rewrite E1, E2 in H1. eauto.
  - destruct (P u) as [E1 _]. simpl in E1. rewrite E1. eauto.
  - destruct (P u) as [E1 [E2 [_ E4]]]. simpl in *. rewrite E1, E2, E4. eauto.
  - destruct (P u) as [E1 [E2 [E3 E4]]]. simpl in *. rewrite E4 in H0. rewrite E1, E2, E3. eauto.
  - unfold down_ok. destruct (P (d_remote d)) as [E1 [E2 [E3 _]]]. simpl in *.
    autorewrite with sub. simpl. rewrite E1, E2, E3. apply Idowns. assumption.
  - eauto.
  - eapply action_ok_mono; [exact Hle|]. auto.
  - destruct (P (t_up t)) as [_ [E2 [E3 _]]]. simpl in *. rewrite E3. eauto.
  - eapply ended_mono; [exact Hle|]. destruct (Nat.eqb_spec u x).
    + subst. simpl in *. exact He.
    + apply Ireplace; auto.
  - eauto.
  - eauto.
  - eauto.
Qed.

Lemma not_in_others : forall w g c, ~ In c (others w g c).
Proof.
  intros w g c H. unfold others in H. apply filter_In in H. destruct H as [_ H].
  rewrite Nat.eqb_refl in H. discriminate.
Qed.

Lemma in_others : forall w g c x, In x (others w g c) <-> x < w_n w /\ c_group (w_cl w x) = Some g /\ x <> c.
Proof.
  intros. unfold others, members. rewrite filter_In, filter_In, in_seq, in_group_eq.
  destruct (Nat.eqb_spec x c); simpl.
  - split; [intros [_ H]; discriminate|intros [_ [_ H]]; contradiction].
  - split; [intros [[[_ H1] H2] _]; repeat split; auto|intros [H1 [H2 _]]; repeat split; auto; lia].
Qed.

Lemma Inv_new_up_conn : forall w c id label g,
  Inv w -> c_group (w_cl w c) = Some g -> id <> 0 ->
  lookup id (c_up (w_cl w c)) = None ->
  (forall v, v < w_nup w -> uo_id (w_up w v) <> id) ->
  Inv (new_up_conn c id label g w).
Proof.
  intros w c id label g I Hg Hid Hl Hfresh.
  set (u := w_nup w).
  set (w' := new_up_conn c id label g w).
  assert (N : w_nup w' = S u) by reflexivity.
  assert (Pold : forall v, v <> u -> uo_id (w_up w' v) = uo_id (w_up w v) /\
                  uo_owner (w_up w' v) = uo_owner (w_up w v) /\
                  uo_group (w_up w' v) = uo_group (w_up w v) /\
                  uo_closed (w_up w' v) = uo_closed (w_up w v) /\
                  uo_replace (w_up w' v) = uo_replace (w_up w v) /\
                  uo_tracks (w_up w' v) = uo_tracks (w_up w v) /\
                  uo_label (w_up w' v) = uo_label (w_up w v)).
  { intros v Hv. unfold w', new_up_conn, new_timer. simpl. fold u.
    destruct (Nat.eqb_spec v u); [contradiction|]. simpl. repeat split. }
  assert (Pnew : uo_id (w_up w' u) = id /\ uo_owner (w_up w' u) = c /\ uo_group (w_up w' u) = g /\
                 uo_closed (w_up w' u) = false /\ uo_replace (w_up w' u) = 0).
  { unfold w', new_up_conn, new_timer. simpl. fold u. rewrite Nat.eqb_refl. simpl. repeat split. }
  assert (Q : forall x, c_group (w_cl w' x) = c_group (w_cl w x) /\
                        c_down (w_cl w' x) = c_down (w_cl w x) /\
                        c_queue (w_cl w' x) = c_queue (w_cl w x) /\
                        c_dead (w_cl w' x) = c_dead (w_cl w x) /\
                        c_present (w_cl w' x) = c_present (w_cl w x) /\
                        c_req (w_cl w' x) = c_req (w_cl w x) /\
                        c_up (w_cl w' x) = (if Nat.eqb x c then c_up (w_cl w x) ++ [(id, u)] else c_up (w_cl w x))).
  { intro x. unfold w', new_up_conn, new_timer. simpl. destruct (Nat.eqb x c); simpl; repeat split. }
  assert (Hle : heap_le w w').
  { split; [rewrite N; unfold u; lia|]. intros v Hv. assert (v <> u) by (unfold u; lia).
    destruct (Pold v H) as [E1 [E2 [E3 [E4 [E5 [E6 E7]]]]]]. repeat split; try congruence.
    exists []. rewrite app_nil_r. exact E6. }
  destruct I as [Iids Iidnz Iups Ialive Idowns Inodup Iqueue Itimers Ireplace Inogroup Idead Iupsnd].
  destruct Pnew as [N1 [N2 [N3 [N4 N5]]]].
  constructor; intros.
  - rewrite N in *. destruct (Nat.eqb_spec u0 u) as [e0|n0], (Nat.eqb_spec v u) as [e1|n1].
    + congruence.
    + rewrite e0 in H1. destruct (Pold v n1) as [E1 _]. rewrite E1, N1 in H1. exfalso.
      apply (Hfresh v); [unfold u in *; lia|auto].
    + rewrite e1 in H1. destruct (Pold u0 n0) as [E1 _]. rewrite E1, N1 in H1. exfalso.
      apply (Hfresh u0); [unfold u in *; lia|auto].
    + destruct (Pold u0 n0) as [E1 _]. destruct (Pold v n1) as [E2 _]. rewrite E1, E2 in H1.
      apply Iids; auto; unfold u in *; lia.
  - rewrite N in *. destruct (Nat.eqb_spec u0 u) as [e0|n]; [rewrite e0, N1; exact Hid|].
    destruct (Pold u0 n) as [E1 _]. rewrite E1. apply Iidnz. unfold u in *; lia.
  - destruct (Q c0) as [_ [_ [_ [_ [_ [_ E]]]]]]. rewrite E in H. rewrite N.
    assert (Hcase : lookup id0 (c_up (w_cl w c0)) = Some u0 \/ (c0 = c /\ id0 = id /\ u0 = u)).
    { destruct (Nat.eqb_spec c0 c); [|left; exact H]. subst c0. rewrite lookup_app in H.
      destruct (lookup id0 (c_up (w_cl w c))) eqn:L; [left; exact H|]. simpl in H.
      destruct (Nat.eqb_spec id0 id); [|discriminate]. inversion H. right. auto. }
    destruct Hcase as [Hold|[-> [-> ->]]].
    + destruct (Iups c0 id0 u0 Hold) as [V1 [V2 [V3 V4]]].
      assert (u0 <> u) by (unfold u; lia). destruct (Pold u0 H0) as [E1 [E2 [_ [E4 _]]]].
      rewrite E1, E2, E4. repeat split; auto.
    + repeat split; auto.
  - rewrite N in H. destruct (Nat.eqb_spec u0 u) as [e0|n].
    + rewrite e0. rewrite N1, N2, N3. destruct (Q c) as [G [_ [_ [_ [_ [_ E]]]]]]. rewrite G, E, Nat.eqb_refl.
      rewrite lookup_app, Hl. simpl. rewrite Nat.eqb_refl. auto.
    + destruct (Pold u0 n) as [E1 [E2 [E3 [E4 _]]]]. rewrite E4 in H0. rewrite E1, E2, E3.
      assert (Hlt : u0 < w_nup w) by (unfold u in *; lia).
      destruct (Ialive u0 Hlt H0) as [A B].
      destruct (Q (uo_owner (w_up w u0))) as [G [_ [_ [_ [_ [_ E]]]]]]. rewrite G, E. split; [|exact B].
      destruct (Nat.eqb (uo_owner (w_up w u0)) c); [|exact A]. rewrite lookup_app, A. reflexivity.
  - destruct (Q m) as [G [D _]]. rewrite D in H. destruct (Idowns m d H) as [D1 [D2 [D3 D4]]].
    assert (d_remote d <> u) by (unfold u; lia). destruct (Pold _ H0) as [E1 [E2 [E3 _]]].
    unfold down_ok. rewrite N, E1, E2, E3, G. repeat split; auto.
  - destruct (Q m) as [_ [D _]]. rewrite D. apply Inodup.
  - destruct (Q m) as [_ [_ [E _]]]. rewrite E in H. eapply action_ok_mono; [exact Hle|]. auto.
  - assert (Ht : In t (w_timers w) \/ t = mkTimer u g).
    { unfold w', new_up_conn, new_timer in H. simpl in H. apply in_app_iff in H.
      destruct H as [H|[H|[]]]; auto. }
    rewrite N. destruct Ht as [Ht|Ht].
    + destruct (Itimers t Ht) as [T1 T2].
      assert (t_up t <> u) by (unfold u; lia). destruct (Pold _ H0) as [_ [E2 [E3 _]]].
      rewrite E3. repeat split; auto.
    + subst t. cbn [t_up t_group]. rewrite N3. repeat split; auto.
  - rewrite N in H. eapply ended_mono; [exact Hle|]. destruct (Nat.eqb_spec u0 u) as [e0|n].
    + rewrite e0 in H0. rewrite N5 in H0. congruence.
    + destruct (Pold u0 n) as [_ [_ [_ [_ [E5 _]]]]]. rewrite E5 in *. apply Ireplace; auto. unfold u in *; lia.
  - destruct (Q c0) as [G [D [_ [_ [Pr [R E]]]]]]. rewrite G in H. rewrite D, Pr, R, E.
    destruct (Inogroup c0 H) as [A [B [C DD]]]. repeat split; auto.
    destruct (Nat.eqb_spec c0 c); [subst c0; congruence|exact A].
  - destruct (Q c0) as [G [_ [_ [Dd _]]]]. rewrite Dd in H. rewrite G. auto.
  - destruct (Q c0) as [_ [_ [_ [_ [_ [_ E]]]]]]. rewrite E.
    destruct (Nat.eqb_spec c0 c); [|apply Iupsnd]. subst c0. rewrite map_app. apply NoDup_app_one; [apply Iupsnd|].
    apply lookup_none_keys. exact Hl.
Qed.

Lemma Inv_fail_up : forall w c id, Inv w -> Inv (fail_up c id w).
Proof. intros. unfold fail_up. repeat apply Inv_send. assumption. Qed.

Lemma Inv_replace_unit : forall w c rid r u,
  Inv w -> u < w_nup w -> lookup rid (c_up (w_cl w c)) = Some r ->
  Inv (del_up_conn' c rid false (upd_up u (up_set_replace rid) w)).
Proof.
  intros w c rid r u I Hu Hl. unfold del_up_conn'.
  assert (Hl' : lookup rid (c_up (w_cl (upd_up u (up_set_replace rid) w) c)) = Some r) by exact Hl.
  rewrite (del_up_conn_unfold _ _ _ _ _ Hl').
  apply (Inv_ext (upd_up u (up_set_replace rid) (remove_close c rid r w))).
  - repeat split; try reflexivity. intro y. unfold remove_close. simpl.
    destruct (Nat.eqb y r), (Nat.eqb y u); reflexivity.
  - apply Inv_set_replace.
    + apply Inv_remove_close; assumption.
    + exact Hu.
    + apply ended_after_close; assumption.
Qed.

Lemma Inv_offer_tail : forall w c id replace u s,
  Inv w -> u < w_nup w ->
  (replace <> 0 -> lookup replace (c_up (w_cl w c)) <> None) ->
  Inv (offer_tail c id replace u s w).
Proof.
  intros w c id replace u s I Hu Hr. unfold offer_tail.
  set (w2 := if Nat.eqb replace 0 then w else _).
  assert (I2 : Inv w2).
  { unfold w2. destruct (Nat.eqb_spec replace 0); [exact I|].
    destruct (lookup replace (c_up (w_cl w c))) as [r|] eqn:Hl; [|exfalso; apply (Hr n); reflexivity].
    eapply Inv_replace_unit; eauto. }
  destruct s; [destruct (uo_closed (w_up w2 u))|..]; try apply Inv_fail_up; try apply Inv_send; exact I2.
Qed.

Lemma Inv_got_offer : forall w c id label replace s,
  Inv w -> id <> 0 -> c_present (w_cl w c) = true ->
  ok_op w (OpMsg c (MOffer id label replace s)) ->
  Inv (got_offer c id label replace s w).
Proof.
  intros w c id label replace s I Hid Hp [Hfresh Hrep]. unfold got_offer.
  destruct (get_down id (c_down (w_cl w c))); [apply Inv_fail_up; exact I|].
  destruct (lookup id (c_up (w_cl w c))) as [u|] eqn:Hl.
  - destruct (inv_ups _ I c id u Hl) as [U1 _].
    apply Inv_offer_tail; auto. intro Hr. apply Hrep. exact Hr.
  - assert (Hcase : forall g, c_group (w_cl w c) = Some g ->
        Inv (offer_tail c id replace (w_nup w) s (new_up_conn c id label g w))).
    { intros g Hg. apply Inv_offer_tail.
      - apply Inv_new_up_conn; auto.
      - simpl. lia.
      - intro Hr. destruct (Hrep Hr) as [_ H2].
        assert (E : c_up (w_cl (new_up_conn c id label g w) c) = c_up (w_cl w c) ++ [(id, w_nup w)]).
        { unfold new_up_conn, new_timer. simpl. rewrite Nat.eqb_refl. reflexivity. }
        rewrite E, lookup_app. destruct (lookup replace (c_up (w_cl w c))); [discriminate|contradiction]. }
    destruct s; destruct (c_group (w_cl w c)) as [g|] eqn:Hg;
      try (apply Inv_fail_up; exact I); apply Hcase; reflexivity.
Qed.

(* ---- leaveGroup *)

Definition leave_fold (c : nat) (l : list (nat * nat)) (w : world) : world :=
  fold_left (fun w idu => del_up_conn' c (fst idu) true w) l w.

Lemma Inv_leave_fold : forall c l w, Inv w -> Inv (leave_fold c l w).
Proof.
  induction l as [|x r IH]; intros w I; [exact I|]. simpl. apply IH. apply Inv_del_up_conn'. exact I.
Qed.

Lemma leave_fold_group : forall c l w x, c_group (w_cl (leave_fold c l w) x) = c_group (w_cl w x).
Proof.
  induction l as [|y r IH]; intros; [reflexivity|]. simpl. rewrite IH. apply del_up_conn'_group.
Qed.

Lemma leave_fold_ups : forall c l w id u,
  lookup id (c_up (w_cl (leave_fold c l w) c)) = Some u ->
  lookup id (c_up (w_cl w c)) = Some u /\ ~ In id (map fst l).
Proof.
  induction l as [|y r IH]; intros w id u H; [split; [exact H|tauto]|].
  simpl in H. apply IH in H. destruct H as [H1 H2].
  rewrite del_up_conn'_c_up, Nat.eqb_refl in H1.
  destruct (Nat.eqb_spec id (fst y)).
  - subst. rewrite lookup_remove_key_same in H1. discriminate.
  - rewrite lookup_remove_key_other in H1; auto. split; [exact H1|].
    simpl. intros [X|X]; [congruence|contradiction].
Qed.

Lemma leave_fold_all : forall c w, c_up (w_cl (leave_fold c (c_up (w_cl w c)) w) c) = [].
Proof.
  intros. apply lookup_none_nil. intro k.
  destruct (lookup k (c_up (w_cl (leave_fold c (c_up (w_cl w c)) w) c))) as [u|] eqn:E; [|reflexivity].
  apply leave_fold_ups in E. destruct E as [E1 E2]. exfalso. apply E2.
  apply lookup_in in E1. apply (in_map fst) in E1. exact E1.
Qed.

(* the client forgets its group: only sound when it has no streams *)
Lemma Inv_set_left : forall w c,
  Inv w -> c_up (w_cl w c) = [] -> Inv (upd_cl c (fun cl => set_left (set_down [] cl)) w).
Proof.
  intros w c I Hup.
  set (w' := upd_cl c (fun cl => set_left (set_down [] cl)) w).
  assert (Q : forall x, x <> c -> w_cl w' x = w_cl w x).
  { intros x Hx. unfold w', upd_cl. simpl. destruct (Nat.eqb_spec x c); [contradiction|reflexivity]. }
  assert (Qc : c_group (w_cl w' c) = None /\ c_up (w_cl w' c) = [] /\ c_down (w_cl w' c) = [] /\
               c_present (w_cl w' c) = false /\ c_req (w_cl w' c) = [] /\
               c_queue (w_cl w' c) = c_queue (w_cl w c) /\ c_dead (w_cl w' c) = c_dead (w_cl w c)).
  { unfold w', upd_cl. simpl. rewrite Nat.eqb_refl. simpl. repeat split. exact Hup. }
  destruct Qc as [C1 [C2 [C3 [C4 [C5 [C6 C7]]]]]].
  destruct I as [Iids Iidnz Iups Ialive Idowns Inodup Iqueue Itimers Ireplace Inogroup Idead Iupsnd].
  constructor; intros; change (w_up w') with (w_up w) in *; change (w_nup w') with (w_nup w) in *;
    change (w_timers w') with (w_timers w) in *.
  - eauto.
  - eauto.
  - destruct (Nat.eqb_spec c0 c); [subst; rewrite C2 in H; discriminate|]. rewrite Q in H; eauto.
  - destruct (Ialive u H H0) as [A B].
    destruct (Nat.eqb_spec (uo_owner (w_up w u)) c) as [e|n].
    + rewrite e in A. rewrite Hup in A. discriminate.
    + rewrite Q; auto.
  - destruct (Nat.eqb_spec m c); [subst; rewrite C3 in H; destruct H|].
    rewrite Q in H; auto. destruct (Idowns m d H) as [D1 [D2 [D3 D4]]].
    unfold down_ok. change (w_up w') with (w_up w). change (w_nup w') with (w_nup w). rewrite Q; auto.
  - destruct (Nat.eqb_spec m c); [subst; rewrite C3; constructor|rewrite Q; auto].
  - eapply (action_ok_same_heap w); [reflexivity|reflexivity|].
    destruct (Nat.eqb_spec m c); [subst; rewrite C6 in H; auto|rewrite Q in H; auto].
  - eauto.
  - eapply (ended_same_heap w); [reflexivity|reflexivity|]. eauto.
  - destruct (Nat.eqb_spec c0 c); [subst; auto|]. rewrite (Q c0 n) in *. auto.
  - destruct (Nat.eqb_spec c0 c) as [e|n].
    + subst c0. rewrite C1. reflexivity.
    + rewrite (Q c0 n) in *. auto.
  - destruct (Nat.eqb_spec c0 c) as [e|n]; [subst c0; rewrite C2; constructor|rewrite (Q c0 n); auto].
Qed.

Lemma leave_group_unfold : forall c w g,
  c_group (w_cl w c) = Some g ->
  leave_group c w = upd_cl c (fun cl => set_left (set_down [] cl)) (leave_fold c (c_up (w_cl w c)) w).
Proof. intros. unfold leave_group. rewrite H. reflexivity. Qed.

Lemma Inv_leave_group : forall w c, Inv w -> Inv (leave_group c w).
Proof.
  intros w c I. destruct (c_group (w_cl w c)) as [g|] eqn:Hg.
  - rewrite (leave_group_unfold _ _ _ Hg). apply Inv_set_left.
    + apply Inv_leave_fold. exact I.
    + apply leave_fold_all.
  - unfold leave_group. rewrite Hg. exact I.
Qed.

Lemma leave_group_group : forall w c, c_group (w_cl (leave_group c w) c) = None.
Proof.
  intros. destruct (c_group (w_cl w c)) as [g|] eqn:Hg.
  - rewrite (leave_group_unfold _ _ _ Hg). unfold upd_cl. simpl. rewrite Nat.eqb_refl. reflexivity.
  - unfold leave_group. rewrite Hg. exact Hg.
Qed.

Lemma Inv_error_close : forall w c, Inv w -> Inv (error_close c w).
Proof.
  intros w c I. unfold error_close.
  pose proof (Inv_leave_group w c I) as I2. pose proof (leave_group_group w c) as G.
  set (w2 := leave_group c w) in *.
  destruct I2 as [Iids Iidnz Iups Ialive Idowns Inodup Iqueue Itimers Ireplace Inogroup Idead Iupsnd].
  assert (Q : forall x, c_group (w_cl (upd_cl c set_dead w2) x) = c_group (w_cl w2 x) /\
                        c_up (w_cl (upd_cl c set_dead w2) x) = c_up (w_cl w2 x) /\
                        c_down (w_cl (upd_cl c set_dead w2) x) = c_down (w_cl w2 x) /\
                        c_queue (w_cl (upd_cl c set_dead w2) x) = c_queue (w_cl w2 x) /\
                        c_present (w_cl (upd_cl c set_dead w2) x) = c_present (w_cl w2 x) /\
                        c_req (w_cl (upd_cl c set_dead w2) x) = c_req (w_cl w2 x)).
  { intro x. unfold upd_cl. simpl. destruct (Nat.eqb x c); repeat split. }
  constructor; intros; change (w_up (upd_cl c set_dead w2)) with (w_up w2) in *;
    change (w_nup (upd_cl c set_dead w2)) with (w_nup w2) in *;
    change (w_timers (upd_cl c set_dead w2)) with (w_timers w2) in *.
  - eauto.
  - eauto.
  - destruct (Q c0) as [_ [E _]]. rewrite E in H. eauto.
  - destruct (Q (uo_owner (w_up w2 u))) as [E1 [E2 _]]. rewrite E1, E2. eauto.
  - destruct (Q m) as [E1 [_ [E3 _]]]. rewrite E3 in H. unfold down_ok.
    change (w_up (upd_cl c set_dead w2)) with (w_up w2). change (w_nup (upd_cl c set_dead w2)) with (w_nup w2).
    rewrite E1. apply Idowns. exact H.
  - destruct (Q m) as [_ [_ [E3 _]]]. rewrite E3. eauto.
  - destruct (Q m) as [_ [_ [_ [E4 _]]]]. rewrite E4 in H.
    eapply (action_ok_same_heap w2); [reflexivity|reflexivity|]. eauto.
  - eauto.
  - eapply (ended_same_heap w2); [reflexivity|reflexivity|]. eauto.
  - destruct (Q c0) as [E1 [E2 [E3 [_ [E5 E6]]]]]. rewrite E1 in H. rewrite E2, E3, E5, E6. eauto.
  - destruct (Q c0) as [E1 _]. rewrite E1. revert H. unfold upd_cl. simpl.
    destruct (Nat.eqb_spec c0 c); [subst; intros _; exact G|apply Idead].
  - destruct (Q c0) as [_ [E _]]. rewrite E. eauto.
Qed.

(* ---- handleAction *)

Definition reqconns_fold (g target id : nat) (l : list (nat * nat)) (w : world) : world :=
  fold_left (fun w idu =>
     if negb (Nat.eqb id 0) && negb (Nat.eqb id (fst idu)) then w
     else enq target (APush g (fst idu) (Some (snd idu))
                            (uo_tracks (w_up w (snd idu)))
                            (uo_replace (w_up w (snd idu)))) w) l w.

Lemma Inv_reqconns_fold : forall g target id l w m,
  Inv w -> target <> m -> c_group (w_cl w m) = Some g ->
  (forall i u, In (i, u) l -> lookup i (c_up (w_cl w m)) = Some u) ->
  Inv (reqconns_fold g target id l w).
Proof.
  induction l as [|[i u] r IH]; intros w m I Ht Hg Hl; [exact I|].
  simpl. destruct (negb (Nat.eqb id 0) && negb (Nat.eqb id i)).
  - eapply IH; eauto. intros. apply Hl. right. assumption.
  - eapply (IH _ m).
    + apply Inv_enq; [exact I|]. simpl.
      destruct (inv_ups _ I m i u (Hl i u (or_introl eq_refl))) as [U1 [U2 [U3 U4]]].
      destruct (inv_alive _ I u U1 U4) as [_ A2]. rewrite U2 in A2.
      repeat split; auto.
      * congruence.
      * exists []. rewrite app_nil_r. reflexivity.
      * rewrite U2. auto.
      * intro Hr. apply (inv_replace _ I); auto.
    + exact Ht.
    + autorewrite with sub. exact Hg.
    + intros. autorewrite with sub. apply Hl. right. assumption.
Qed.

Definition unpresent_fold (m : nat) (l : list (nat * nat)) (w : world) : world :=
  fold_left (fun w idu =>
     match del_up_conn m (fst idu) true w with
     | DelNone => w
     | DelOk w' => fail_up m (fst idu) w'
     end) l w.

Lemma Inv_unpresent_fold : forall m l w, Inv w -> Inv (unpresent_fold m l w).
Proof.
  induction l as [|x r IH]; intros w I; [exact I|]. simpl. apply IH.
  pose proof (Inv_del_up_conn' w m (fst x) true I) as I2. unfold del_up_conn' in I2.
  destruct (del_up_conn m (fst x) true w); [exact I|]. apply Inv_fail_up. exact I2.
Qed.

Lemma Inv_pop : forall w c q, Inv w -> (forall a, In a q -> In a (c_queue (w_cl w c))) ->
  Inv (upd_cl c (set_queue q) w).
Proof.
  intros w c q I Hq.
  destruct I as [Iids Iidnz Iups Ialive Idowns Inodup Iqueue Itimers Ireplace Inogroup Idead Iupsnd].
  assert (Q : forall x, c_group (w_cl (upd_cl c (set_queue q) w) x) = c_group (w_cl w x) /\
                        c_up (w_cl (upd_cl c (set_queue q) w) x) = c_up (w_cl w x) /\
                        c_down (w_cl (upd_cl c (set_queue q) w) x) = c_down (w_cl w x) /\
                        c_dead (w_cl (upd_cl c (set_queue q) w) x) = c_dead (w_cl w x) /\
                        c_present (w_cl (upd_cl c (set_queue q) w) x) = c_present (w_cl w x) /\
                        c_req (w_cl (upd_cl c (set_queue q) w) x) = c_req (w_cl w x)).
  { intro x. unfold upd_cl. simpl. destruct (Nat.eqb x c); repeat split. }
  constructor; intros; change (w_up (upd_cl c (set_queue q) w)) with (w_up w) in *;
    change (w_nup (upd_cl c (set_queue q) w)) with (w_nup w) in *;
    change (w_timers (upd_cl c (set_queue q) w)) with (w_timers w) in *.
  - eauto.
  - eauto.
  - destruct (Q c0) as [_ [E _]]. rewrite E in H. eauto.
  - destruct (Q (uo_owner (w_up w u))) as [E1 [E2 _]]. rewrite E1, E2. eauto.
  - destruct (Q m) as [E1 [_ [E3 _]]]. rewrite E3 in H. unfold down_ok.
    change (w_up (upd_cl c (set_queue q) w)) with (w_up w).
    change (w_nup (upd_cl c (set_queue q) w)) with (w_nup w). rewrite E1. apply Idowns. exact H.
  - destruct (Q m) as [_ [_ [E3 _]]]. rewrite E3. eauto.
  - eapply (action_ok_same_heap w); [reflexivity|reflexivity|]. apply Iqueue.
    revert H. unfold upd_cl. simpl. destruct (Nat.eqb_spec m c); [subst; simpl; apply Hq|auto].
  - eauto.
  - eapply (ended_same_heap w); [reflexivity|reflexivity|]. eauto.
  - destruct (Q c0) as [E1 [E2 [E3 [_ [E5 E6]]]]]. rewrite E1 in H. rewrite E2, E3, E5, E6. eauto.
  - destruct (Q c0) as [E1 [_ [_ [E4 _]]]]. rewrite E4 in H. rewrite E1. eauto.
  - destruct (Q c0) as [_ [E _]]. rewrite E. eauto.
Qed.

Lemma Inv_handle_action : forall w m a,
  Inv w -> action_ok w m a -> Inv (fst (handle_action m a w)).
Proof.
  intros w m a I Ha. destruct a as [g id up ts r|g t id|g give| |]; simpl.
  - destruct (in_group g (w_cl w m)) eqn:Hg; [|exact I].
    apply in_group_eq in Hg. eapply Inv_push_down_conn; eauto.
  - destruct (in_group g (w_cl w m)) eqn:Hg; [|exact I].
    apply in_group_eq in Hg. simpl.
    apply (Inv_reqconns_fold g t id (c_up (w_cl w m)) w m); auto.
    intros i u Hin. apply in_nodup_lookup; [apply (inv_ups_nodup _ I)|exact Hin].
  - destruct (in_group g (w_cl w m)) eqn:Hg; [|exact I]. simpl.
    apply in_group_eq in Hg.
    apply Inv_enq; [|simpl; exact Logic.I].
    apply Inv_upd_cl_light; [exact I| |].
    + intro x. repeat split.
    + intro Hn. congruence.
  - destruct (c_group (w_cl w m)); [|exact I].
    destruct (c_present (w_cl w m)); [exact I|]. simpl. apply Inv_unpresent_fold. exact I.
  - exact I.
Qed.

Lemma Inv_finish : forall c r, Inv (fst r) -> Inv (finish c r).
Proof.
  intros c [w e] I. unfold finish. simpl in *. destruct e; [apply Inv_error_close|]; exact I.
Qed.

(* ---- handleClientMessage *)

Lemma Inv_handle_msg : forall w c m,
  Inv w -> ok_op w (OpMsg c m) -> c_dead (w_cl w c) = false -> Inv (fst (handle_msg c m w)).
Proof.
  intros w c m I Hok Hlive.
  destruct m as [g user pres op0|g|req|id req|id label replace s|id|id|id ok|dest|dest give];
    cbv beta iota zeta delta [handle_msg].
  - (* join *)
    destruct (c_group (w_cl w c)) eqn:Hg; [exact I|]. cbn [fst].
    destruct (inv_nogroup _ I c Hg) as [A [B [C D]]].
    set (w' := upd_cl c (set_joined g user pres op0) w).
    assert (Q : forall x, x <> c -> w_cl w' x = w_cl w x).
    { intros x Hx. unfold w', upd_cl. simpl. destruct (Nat.eqb_spec x c); [contradiction|reflexivity]. }
    assert (Qc : c_group (w_cl w' c) = Some g /\ c_up (w_cl w' c) = [] /\ c_down (w_cl w' c) = [] /\
                 c_queue (w_cl w' c) = c_queue (w_cl w c) /\ c_dead (w_cl w' c) = c_dead (w_cl w c)).
    { unfold w', upd_cl. simpl. rewrite Nat.eqb_refl. simpl. repeat split; auto. }
    destruct Qc as [C1 [C2 [C3 [C4 C5]]]].
    destruct I as [Iids Iidnz Iups Ialive Idowns Inodup Iqueue Itimers Ireplace Inogroup Idead Iupsnd].
    constructor; intros; change (w_up w') with (w_up w) in *; change (w_nup w') with (w_nup w) in *;
      change (w_timers w') with (w_timers w) in *.
    + eauto.
    + eauto.
    + destruct (Nat.eqb_spec c0 c); [subst; rewrite C2 in H; discriminate|]. rewrite Q in H; eauto.
    + destruct (Ialive u H H0) as [X Y].
      destruct (Nat.eqb_spec (uo_owner (w_up w u)) c) as [e|n].
      * rewrite e in X. rewrite A in X. discriminate.
      * rewrite Q; auto.
    + destruct (Nat.eqb_spec m c); [subst; rewrite C3 in H; destruct H|].
      rewrite Q in H; auto. destruct (Idowns m d H) as [D1 [D2 [D3 D4]]].
      unfold down_ok. change (w_up w') with (w_up w). change (w_nup w') with (w_nup w). rewrite Q; auto.
    + destruct (Nat.eqb_spec m c); [subst; rewrite C3; constructor|rewrite Q; auto].
    + eapply (action_ok_same_heap w); [reflexivity|reflexivity|].
      destruct (Nat.eqb_spec m c); [subst; rewrite C4 in H; auto|rewrite Q in H; auto].
    + eauto.
    + eapply (ended_same_heap w); [reflexivity|reflexivity|]. eauto.
    + destruct (Nat.eqb_spec c0 c) as [e|n]; [subst c0; congruence|]. rewrite (Q c0 n) in *. auto.
    + destruct (Nat.eqb_spec c0 c) as [e|n].
      * subst c0. rewrite C5 in H. congruence.
      * rewrite (Q c0 n) in *. auto.
    + destruct (Nat.eqb_spec c0 c) as [e|n]; [subst c0; rewrite C2; constructor|rewrite (Q c0 n); auto].
  - (* leave *)
    destruct (in_group g (w_cl w c)); cbn [fst]; [apply Inv_leave_group|]; exact I.
  - (* request *)
    destruct (c_group (w_cl w c)) as [g|] eqn:Hg; [|exact I]. cbn [fst].
    apply Inv_enq_all.
    + apply Inv_upd_cl_light; [exact I| |].
      * intro x. repeat split.
      * intro Hn. congruence.
    + intros m Hm. simpl. intro E. subst. apply (not_in_others _ _ _ Hm).
  - (* requestStream *)
    destruct (get_down id (c_down (w_cl w c))) as [d|] eqn:Eg; [|exact I].
    destruct (c_group (w_cl w c)) as [g|] eqn:Hg; [|exact I]. cbn [fst].
    destruct (get_down_in _ _ _ Eg) as [Hin Hid].
    pose proof (inv_downs _ I c d Hin) as Hd.
    apply Inv_enq.
    + apply Inv_set_down_entry; [exact I| |].
      * eapply down_ok_same; [| |exact Hd]; reflexivity.
      * simpl. rewrite Hid, Eg. discriminate.
    + simpl. destruct Hd as [_ [_ [_ H4]]]. auto.
  - (* offer *)
    destruct (Nat.eqb_spec id 0); [exact I|].
    destruct (c_present (w_cl w c)) eqn:Hp; cbn [fst].
    + apply Inv_got_offer; auto.
    + repeat apply Inv_send. destruct (Nat.eqb replace 0); [exact I|]. apply Inv_del_up_conn'. exact I.
  - (* close *)
    destruct (Nat.eqb id 0); cbn [fst]; [exact I|]. apply Inv_del_up_conn'. exact I.
  - (* abort *)
    destruct (Nat.eqb id 0); cbn [fst]; [exact I|]. apply Inv_close_down_conn. exact I.
  - (* answer *)
    destruct (Nat.eqb id 0); cbn [fst]; [exact I|].
    destruct (get_down id (c_down (w_cl w c))) as [d|] eqn:Eg; cbn [fst]; [|apply Inv_close_down_conn; exact I].
    destruct (get_down_in _ _ _ Eg) as [Hin Hid].
    pose proof (inv_downs _ I c d Hin) as Hd.
    destruct (ok && d_havelocal d); cbn [fst]; [|apply Inv_close_down_conn; exact I].
    assert (I2 : Inv (set_down_entry c (down_set_sig false (d_neg d) d) w)).
    { apply Inv_set_down_entry; [exact I| |].
      - eapply down_ok_same; [| |exact Hd]; reflexivity.
      - simpl. rewrite Hid, Eg. discriminate. }
    destruct (d_neg d); cbn [fst]; [|exact I2].
    apply Inv_negotiate; [exact I2| |].
    + unfold down_ok in *. autorewrite with sub. exact Hd.
    + autorewrite with sub. rewrite Nat.eqb_refl.
      change (d_id (down_set_sig false true d)) with (d_id (down_set_sig false true d)).
      rewrite (get_down_replace_same (down_set_sig false true d)); [discriminate|].
      simpl. rewrite Hid, Eg. discriminate.
  - (* kick *)
    destruct (c_group (w_cl w c)); cbn [fst]; [|apply Inv_send; exact I].
    destruct (c_op (w_cl w c) && member_of w _ dest); cbn [fst];
      [apply Inv_enq; [exact I|exact Logic.I]|apply Inv_send; exact I].
  - (* present / unpresent *)
    destruct (c_group (w_cl w c)); cbn [fst]; [|apply Inv_send; exact I].
    destruct (c_op (w_cl w c) && member_of w _ dest); cbn [fst];
      [apply Inv_enq; [exact I|exact Logic.I]|apply Inv_send; exact I].
Qed.

(* ---- the delayed push and OnTrack *)

Lemma in_remove_nth : forall {A} i (l : list A) x, In x (remove_nth i l) -> In x l.
Proof.
  induction i; destruct l; simpl; try tauto.
  intros x [H|H]; [left; exact H|right; apply IHi; exact H].
Qed.

Lemma Inv_set_timers : forall w ts, Inv w -> (forall t, In t ts -> In t (w_timers w)) -> Inv (set_timers ts w).
Proof.
  intros w ts I Hts.
  destruct I as [Iids Iidnz Iups Ialive Idowns Inodup Iqueue Itimers Ireplace Inogroup Idead Iupsnd].
  constructor; intros; autorewrite with sub in *;
  [> eauto | eauto | eauto | eauto | | eauto | | eauto | | eauto | eauto | eauto ].
  - unfold down_ok. autorewrite with sub. apply Idowns. assumption.
  - eapply (action_ok_same_heap w); [reflexivity|reflexivity|]. eauto.
  - eapply (ended_same_heap w); [reflexivity|reflexivity|]. eauto.
Qed.

(* an update of an object that keeps id, owner, group, closed; tracks may grow;
   the replace field may be cleared *)
Lemma Inv_upd_up_light : forall w x f,
  Inv w -> x < w_nup w ->
  (forall o, uo_id (f o) = uo_id o /\ uo_owner (f o) = uo_owner o /\ uo_group (f o) = uo_group o /\
             uo_label (f o) = uo_label o /\ uo_closed (f o) = uo_closed o /\
             (exists l, uo_tracks (f o) = uo_tracks o ++ l) /\
             (uo_replace (f o) = uo_replace o \/ uo_replace (f o) = 0)) ->
  Inv (upd_up x f w).
Proof.
  intros w x f I Hx Hf.
  assert (P : forall v, uo_id (w_up (upd_up x f w) v) = uo_id (w_up w v) /\
                        uo_owner (w_up (upd_up x f w) v) = uo_owner (w_up w v) /\
                        uo_group (w_up (upd_up x f w) v) = uo_group (w_up w v) /\
                        uo_closed (w_up (upd_up x f w) v) = uo_closed (w_up w v) /\
                        (uo_replace (w_up (upd_up x f w) v) = uo_replace (w_up w v) \/
                         uo_replace (w_up (upd_up x f w) v) = 0)).
  { intro v. simpl. destruct (Nat.eqb v x); [|repeat split; auto].
    destruct (Hf (w_up w v)) as [A [B [C [D [E [F G]]]]]]. repeat split; auto. }
  assert (Hle : heap_le w (upd_up x f w)).
  { split; [simpl; lia|]. intros v Hv. simpl. destruct (Nat.eqb v x).
    - destruct (Hf (w_up w v)) as [A [B [C [D [E [F G]]]]]]. repeat split; auto. intro H. congruence.
    - repeat split; auto. exists []. rewrite app_nil_r. reflexivity. }
  destruct I as [Iids Iidnz Iups Ialive Idowns Inodup Iqueue Itimers Ireplace Inogroup Idead Iupsnd].
  constructor; intros; change (w_cl (upd_up x f w)) with (w_cl w) in *;
    change (w_nup (upd_up x f w)) with (w_nup w) in *;
    change (w_timers (upd_up x f w)) with (w_timers w) in *.
  - destruct (P u) as [E1 _]. destruct (P v) as [E2 _]. rewrite E1, E2 in H1. eauto.
  - destruct (P u) as [E1 _]. rewrite E1. eauto.
  - destruct (P u) as [E1 [E2 [_ [E4 _]]]]. rewrite E1, E2, E4. eauto.
  - destruct (P u) as [E1 [E2 [E3 [E4 _]]]]. rewrite E4 in H0. rewrite E1, E2, E3. eauto.
  - unfold down_ok. destruct (P (d_remote d)) as [E1 [E2 [E3 _]]].
    change (w_cl (upd_up x f w)) with (w_cl w). change (w_nup (upd_up x f w)) with (w_nup w).
    rewrite E1, E2, E3. apply Idowns. assumption.
  - eauto.
  - eapply action_ok_mono; [exact Hle|]. auto.
  - destruct (P (t_up t)) as [_ [E2 [E3 _]]]. rewrite E3. eauto.
  - eapply ended_mono; [exact Hle|]. destruct (P u) as [_ [_ [_ [_ [E5|E5]]]]].
    + rewrite E5 in *. apply Ireplace; auto.
    + congruence.
  - eauto.
  - eauto.
  - eauto.
Qed.

Lemma Inv_fire_timer : forall w t,
  Inv w ->
  t_up t < w_nup w -> t_group t = uo_group (w_up w (t_up t)) ->
  Inv (fire_timer t w).
Proof.
  intros w t I T1 T2. unfold fire_timer.
  destruct (uo_pushed (w_up w (t_up t))); [exact I|].
  set (f := fun o => up_set_replace 0 (up_set_pushed true o)).
  assert (I2 : Inv (upd_up (t_up t) f w)).
  { apply Inv_upd_up_light; auto. intro o. unfold f. simpl. repeat split; auto.
    exists []. rewrite app_nil_r. reflexivity. }
  apply Inv_enq_all; [exact I2|]. intros m Hm. simpl.
  rewrite Nat.eqb_refl. unfold f. simpl. repeat split; auto.
  - exists []. rewrite app_nil_r. reflexivity.
  - intro E. rewrite E in Hm. apply (not_in_others _ _ _ Hm).
  - intro Hr. pose proof (inv_replace _ I (t_up t) T1 Hr) as He.
    destruct He as [v [Hv [Hid Hc]]]. exists v. simpl. repeat split; auto.
    + destruct (Nat.eqb v (t_up t)); simpl; auto.
    + destruct (Nat.eqb v (t_up t)); simpl; auto.
Qed.

Lemma Inv_new_timer : forall w u g,
  Inv w -> u < w_nup w -> g = uo_group (w_up w u) ->
  Inv (new_timer u g w).
Proof.
  intros w u g I Hu Hg. unfold new_timer.
  assert (I2 : Inv (upd_up u (up_set_pushed false) w)).
  { apply Inv_upd_up_light; auto. intro o. simpl. repeat split; auto. exists []. rewrite app_nil_r. reflexivity. }
  destruct I2 as [Iids Iidnz Iups Ialive Idowns Inodup Iqueue Itimers Ireplace Inogroup Idead Iupsnd].
  set (w1 := upd_up u (up_set_pushed false) w) in *.
  constructor; intros; autorewrite with sub in *;
  [> eauto | eauto | eauto | eauto | | eauto | | | | eauto | eauto | eauto ].
  - unfold down_ok. autorewrite with sub. apply Idowns. assumption.
  - eapply (action_ok_same_heap w1); [reflexivity|reflexivity|]. eauto.
  - apply in_app_iff in H. destruct H as [H|[H|[]]]; [eauto|]. subst t. simpl.
    unfold w1. simpl. rewrite Nat.eqb_refl. simpl. auto.
  - eapply (ended_same_heap w1); [reflexivity|reflexivity|]. eauto.
Qed.

(* ---- every step *)

Theorem Inv_step : forall w o, Inv w -> ok_op w o -> Inv (step w o).
Proof.
  intros w o I Hok. destruct o as [c m|c|c|i|u k]; simpl.
  - destruct (Nat.ltb c (w_n w) && negb (c_dead (w_cl w c))) eqn:E; [|exact I].
    apply andb_prop in E. destruct E as [_ E]. apply negb_true_iff in E.
    apply Inv_finish. apply Inv_handle_msg; auto.
  - destruct (Nat.ltb c (w_n w) && negb (c_dead (w_cl w c))) eqn:E; [|exact I].
    destruct (c_queue (w_cl w c)) as [|a q] eqn:Eq; [exact I|].
    apply Inv_finish. apply Inv_handle_action.
    + apply Inv_pop; [exact I|]. intros x Hx. rewrite Eq. right. exact Hx.
    + eapply (action_ok_same_heap w); [reflexivity|reflexivity|].
      apply (inv_queue _ I). rewrite Eq. left. reflexivity.
  - destruct (Nat.ltb c (w_n w) && negb (c_dead (w_cl w c))); [apply Inv_error_close|]; exact I.
  - destruct (nth_error (w_timers w) i) as [t|] eqn:E; [|exact I].
    apply nth_error_In in E. destruct (inv_timers _ I t E) as [T1 T2].
    apply Inv_fire_timer; auto.
    apply Inv_set_timers; [exact I|]. intros x Hx. eapply in_remove_nth. exact Hx.
  - destruct (Nat.ltb u (w_nup w) && negb (uo_closed (w_up w u))) eqn:E; [|exact I].
    apply andb_prop in E. destruct E as [E1 E2]. apply Nat.ltb_lt in E1. apply negb_true_iff in E2.
    destruct (inv_alive _ I u E1 E2) as [A B]. rewrite B.
    assert (I2 : Inv (upd_up u (up_add_track k) w)).
    { apply Inv_upd_up_light; auto. intro o. simpl. repeat split; auto. exists [k]. reflexivity. }
    apply Inv_new_timer; auto.
    simpl. rewrite Nat.eqb_refl. reflexivity.
Qed.

Lemma Inv_init : forall n, Inv (init n).
Proof.
  intro n. constructor; simpl; intros; try lia; try discriminate; try tauto; try (repeat split; reflexivity).
  constructor. constructor.
Qed.

Theorem Inv_run : forall ops w, Inv w -> ok_run w ops -> Inv (run w ops).
Proof.
  induction ops as [|o r IH]; intros w I Hok; [exact I|].
  simpl in *. destruct Hok as [H1 H2]. apply IH; [apply Inv_step; assumption|exact H2].
Qed.

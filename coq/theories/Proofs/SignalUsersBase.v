(* C14, part 1: the client-side fold seen through one key, and the algebra
   of [key_view]. *)
From Coq Require Import ZArith List Bool String Arith Lia.
From Galene Require Import Generated.Guards Model.Signal Model.SignalUsers Proofs.SignalFrame.
Import ListNotations.
Open Scope string_scope.
Open Scope list_scope.

(* ------------------------------------------------------------------ *)
(* view_lookup of the three assignments                                *)

Lemma eqb_sym_false : forall a b, String.eqb a b = false -> String.eqb b a = false.
Proof. intros a b H. rewrite String.eqb_sym. exact H. Qed.

Lemma lookup_nil : forall id, view_lookup id [] = None.
Proof. reflexivity. Qed.

Lemma lookup_cons : forall id e v,
  view_lookup id (e :: v) =
  if String.eqb (ue_id e) id then Some (snd (fst e), snd e) else view_lookup id v.
Proof.
  intros id [[i u] p] v. unfold view_lookup. cbn [find ue_id fst snd].
  destruct (String.eqb i id); reflexivity.
Qed.

Lemma has_lookup : forall id v, view_has id v = false <-> view_lookup id v = None.
Proof.
  intros id v. induction v as [|e v IH].
  - cbn. tauto.
  - rewrite lookup_cons. unfold view_has in *. cbn [existsb].
    destruct (String.eqb (ue_id e) id); cbn [orb].
    + split; discriminate.
    + exact IH.
Qed.

Lemma lookup_app_new : forall id i u p v,
  view_has i v = false ->
  view_lookup id (v ++ [(i, u, p)]) = if String.eqb i id then Some (u, p) else view_lookup id v.
Proof.
  intros id i u p v. induction v as [|e v IH]; intros Hn.
  - cbn [app]. rewrite lookup_cons. cbn. reflexivity.
  - cbn [app]. rewrite !lookup_cons. unfold view_has in *. cbn [existsb] in Hn.
    apply orb_false_iff in Hn. destruct Hn as [He Hv].
    destruct (String.eqb (ue_id e) id) eqn:E.
    + apply eqb_true in E. subst id. rewrite String.eqb_sym, He. reflexivity.
    + apply IH. exact Hv.
Qed.

Lemma lookup_update : forall id i u p v,
  view_has i v = true ->
  view_lookup id (view_update i u p v) = if String.eqb i id then Some (u, p) else view_lookup id v.
Proof.
  intros id i u p v. induction v as [|e v IH]; intros Hh.
  - discriminate.
  - cbn [view_update]. unfold view_has in *. cbn [existsb] in Hh.
    destruct (String.eqb (ue_id e) i) eqn:E.
    + apply eqb_true in E. rewrite !lookup_cons. cbn [ue_id fst snd]. rewrite E.
      destruct (String.eqb i id); reflexivity.
    + cbn [orb] in Hh. rewrite !lookup_cons.
      destruct (String.eqb (ue_id e) id) eqn:E2.
      * apply eqb_true in E2. subst id. rewrite String.eqb_sym, E. reflexivity.
      * apply IH. exact Hh.
Qed.

Lemma lookup_remove : forall id i v,
  view_lookup id (view_remove i v) = if String.eqb i id then None else view_lookup id v.
Proof.
  intros id i v. induction v as [|e v IH].
  - cbn. destruct (String.eqb i id); reflexivity.
  - unfold view_remove in *. cbn [filter].
    destruct (String.eqb (ue_id e) i) eqn:E; cbn [negb].
    + rewrite IH, lookup_cons. apply eqb_true in E. rewrite E.
      destruct (String.eqb i id); reflexivity.
    + rewrite !lookup_cons, IH.
      destruct (String.eqb (ue_id e) id) eqn:E2; [|reflexivity].
      apply eqb_true in E2. subst id. rewrite String.eqb_sym, E. reflexivity.
Qed.

Lemma lookup_add : forall id i u p v,
  view_lookup id (view_add i u p v) = if String.eqb i id then Some (u, p) else view_lookup id v.
Proof.
  intros. unfold view_add. destruct (view_has i v) eqn:E.
  - apply lookup_update. exact E.
  - apply lookup_app_new. exact E.
Qed.

Lemma lookup_change : forall id i u p v,
  view_lookup id (view_change i u p v) = if String.eqb i id then Some (u, p) else view_lookup id v.
Proof.
  intros. unfold view_change. destruct (view_has i v) eqn:E; cbn [negb].
  - apply lookup_update. exact E.
  - apply lookup_app_new. exact E.
Qed.

(* add and change act in the same way on the list *)
Lemma view_change_add : forall i u p v, view_change i u p v = view_add i u p v.
Proof. intros. unfold view_change, view_add. destruct (view_has i v); reflexivity. Qed.

(* ------------------------------------------------------------------ *)
(* The fold through one key                                            *)

Lemma lookup_user_step : forall id v m,
  view_lookup id (user_step v m) = key_step id (view_lookup id v) m.
Proof.
  intros id v m. unfold user_step, key_step.
  destruct (String.eqb (o_type m) "joined").
  { destruct (_ || _); reflexivity. }
  destruct (String.eqb (o_type m) "user"); [|reflexivity].
  destruct (String.eqb (o_kind m) "add") eqn:Ea; cbn [orb].
  { rewrite lookup_add. reflexivity. }
  destruct (String.eqb (o_kind m) "change") eqn:Ec.
  { rewrite lookup_change. reflexivity. }
  destruct (String.eqb (o_kind m) "delete").
  { rewrite lookup_remove. reflexivity. }
  destruct (String.eqb (o_id m) id); reflexivity.
Qed.

Lemma lookup_fold_from : forall id l v,
  view_lookup id (fold_left user_step l v) = fold_left (key_step id) l (view_lookup id v).
Proof.
  intros id l. induction l as [|m l IH]; intros v; cbn [fold_left]; [reflexivity|].
  rewrite IH, lookup_user_step. reflexivity.
Qed.

(* the entry of [id] in the user list built from [l] *)
Lemma lookup_fold : forall id l, view_lookup id (fold_user_events l) = key_sent id l.
Proof. intros. unfold fold_user_events, key_sent. rewrite lookup_fold_from. reflexivity. Qed.

(* keys stay distinct *)
Definition keys (v : uview) : list str := map ue_id v.

Lemma has_keys : forall id v, view_has id v = true <-> In id (keys v).
Proof.
  intros id v. unfold view_has, keys. rewrite existsb_exists, in_map_iff. split.
  - intros (e & Hin & He). apply eqb_true in He. eauto.
  - intros (e & He & Hin). exists e. split; [exact Hin|]. subst. apply String.eqb_refl.
Qed.

Lemma keys_update : forall i u p v, keys (view_update i u p v) = keys v.
Proof.
  intros. induction v as [|e v IH]; [reflexivity|]. cbn [view_update].
  destruct (String.eqb (ue_id e) i) eqn:E.
  - apply eqb_true in E. unfold keys. cbn [map]. f_equal. cbn. symmetry. exact E.
  - unfold keys in *. cbn [map]. rewrite IH. reflexivity.
Qed.

Lemma nodup_snoc : forall (l : list str) x, NoDup l -> ~ In x l -> NoDup (l ++ [x]).
Proof.
  induction l as [|y l IH]; intros x Hn Hx; cbn [app].
  - constructor; [intros []|constructor].
  - inversion Hn; subst. constructor.
    + rewrite in_app_iff. intros [Hin | [He | []]]; [contradiction|].
      apply Hx. left. symmetry; exact He.
    + apply IH; [assumption|]. intro. apply Hx. now right.
Qed.

Lemma nodup_add : forall i u p v, NoDup (keys v) -> NoDup (keys (view_add i u p v)).
Proof.
  intros i u p v Hn. unfold view_add. destruct (view_has i v) eqn:E.
  - rewrite keys_update. exact Hn.
  - unfold keys. rewrite map_app. cbn [map ue_id fst].
    apply nodup_snoc; [exact Hn|].
    intro Hin. apply has_keys in Hin. congruence.
Qed.

Lemma nodup_remove : forall i v, NoDup (keys v) -> NoDup (keys (view_remove i v)).
Proof.
  intros i v. induction v as [|e v IH]; intros Hn; [constructor|].
  inversion Hn; subst. unfold view_remove in *. cbn [filter].
  destruct (negb (String.eqb (ue_id e) i)).
  - cbn. constructor; [|apply IH; assumption].
    intro Hin. apply H1. unfold keys in *. rewrite in_map_iff in *.
    destruct Hin as (x & Hx & Hf). apply filter_In in Hf. exists x. tauto.
  - apply IH. assumption.
Qed.

Lemma nodup_user_step : forall v m, NoDup (keys v) -> NoDup (keys (user_step v m)).
Proof.
  intros v m Hn. unfold user_step.
  repeat match goal with |- context [if ?b then _ else _] => destruct b end;
    try exact Hn; try constructor.
  - apply nodup_add; exact Hn.
  - rewrite view_change_add. apply nodup_add; exact Hn.
  - apply nodup_remove; exact Hn.
Qed.

Lemma nodup_fold : forall l, NoDup (keys (fold_user_events l)).
Proof.
  intros l. unfold fold_user_events.
  assert (H : forall v, NoDup (keys v) -> NoDup (keys (fold_left user_step l v))).
  { induction l as [|m l IH]; intros v Hv; cbn [fold_left]; [exact Hv|].
    apply IH. apply nodup_user_step. exact Hv. }
  apply H. constructor.
Qed.

(* with distinct keys, membership is lookup *)
Lemma in_lookup : forall v i u p, NoDup (keys v) ->
  (In (i, u, p) v <-> view_lookup i v = Some (u, p)).
Proof.
  intros v i u p. induction v as [|e v IH]; intros Hn.
  - cbn. split; [intros [] | discriminate].
  - inversion Hn; subst. rewrite lookup_cons. cbn [In].
    destruct (String.eqb (ue_id e) i) eqn:E.
    + apply eqb_true in E. split.
      * intros [He | Hin].
        -- subst e. reflexivity.
        -- exfalso. apply H1. unfold keys. rewrite in_map_iff. exists (i, u, p). cbn. auto.
      * intros Hs. left. destruct e as [[i' u'] p']. cbn in *. inversion Hs. subst. reflexivity.
    + rewrite <- (IH H2). split; [|tauto].
      intros [He | Hin]; [|exact Hin]. subst e. cbn in E. rewrite String.eqb_refl in E. discriminate.
Qed.

(* ------------------------------------------------------------------ *)
(* key_sent / key_view                                                 *)

Lemma key_sent_app : forall id l1 l2,
  key_sent id (l1 ++ l2) = fold_left (key_step id) l2 (key_sent id l1).
Proof. intros. unfold key_sent. apply fold_left_app. Qed.

Lemma key_view_app : forall id cg sent q1 q2,
  key_view id cg sent (q1 ++ q2) = fold_left (act_step cg id) q2 (key_view id cg sent q1).
Proof. intros. unfold key_view. apply fold_left_app. Qed.

(* messages that the fold ignores *)
Definition nmsg (m : outmsg) : bool :=
  negb (String.eqb (o_type m) "user") &&
  negb (String.eqb (o_type m) "joined" &&
        (String.eqb (o_kind m) "leave" || String.eqb (o_kind m) "fail")).

Lemma key_step_nmsg : forall id s m, nmsg m = true -> key_step id s m = s.
Proof.
  intros id s m H. unfold nmsg in H. apply andb_prop in H. destruct H as [H1 H2].
  apply negb_true_iff in H1, H2. unfold key_step. rewrite H1.
  destruct (String.eqb (o_type m) "joined"); [|reflexivity].
  cbn [andb] in H2. rewrite H2. reflexivity.
Qed.

Lemma fold_key_nmsg : forall id l s, forallb nmsg l = true -> fold_left (key_step id) l s = s.
Proof.
  intros id l. induction l as [|m l IH]; intros s H; cbn [fold_left]; [reflexivity|].
  cbn [forallb] in H. apply andb_prop in H. destruct H as [H1 H2].
  rewrite key_step_nmsg by exact H1. apply IH. exact H2.
Qed.

Lemma key_sent_nmsg : forall id l oa, forallb nmsg oa = true -> key_sent id (l ++ oa) = key_sent id l.
Proof. intros. rewrite key_sent_app. apply fold_key_nmsg. assumption. Qed.

(* actions that the fold ignores: everything but user events and the
   announcement of a departure *)
Definition nact (a : action) : bool :=
  match a with
  | APushClient _ _ _ _ _ _ => false
  | AJoined _ k => negb (String.eqb k "leave" || String.eqb k "fail")
  | APermsChanged => false
  | _ => true
  end.

Lemma act_step_nact : forall cg id s a, nact a = true -> act_step cg id s a = s.
Proof.
  intros cg id s a H. destruct a; cbn in H; try discriminate; try reflexivity.
  cbn [act_step]. unfold key_step, out_joined. cbn [o_type o_kind].
  apply negb_true_iff in H. rewrite H. reflexivity.
Qed.

Lemma fold_act_nact : forall cg id q s, forallb nact q = true -> fold_left (act_step cg id) q s = s.
Proof.
  intros cg id q. induction q as [|a q IH]; intros s H; cbn [fold_left]; [reflexivity|].
  cbn [forallb] in H. apply andb_prop in H. destruct H as [H1 H2].
  rewrite act_step_nact by exact H1. apply IH. exact H2.
Qed.

Lemma act_step_permschanged : forall cg id s, act_step cg id s APermsChanged = s.
Proof. reflexivity. Qed.

(* serving the head of the queue moves it to the outbox *)
Lemma key_step_joined : forall id s kind g u p e v l,
  key_step id s (out_joined kind g u p e v l) = key_step id s (out_joined kind g "" [] "" "" false).
Proof. reflexivity. Qed.

(* a user event about [i] sets or clears the key [i], and no other *)
Lemma key_step_user_other : forall id s kind i u p,
  String.eqb i id = false -> key_step id s (out_user kind i u p) = s.
Proof. intros. unfold key_step, out_user. cbn. rewrite H. reflexivity. Qed.

Lemma key_step_add : forall id s u p, key_step id s (out_user "add" id u p) = Some (u, p).
Proof. intros. unfold key_step, out_user. cbn. rewrite String.eqb_refl. reflexivity. Qed.
Lemma key_step_change : forall id s u p, key_step id s (out_user "change" id u p) = Some (u, p).
Proof. intros. unfold key_step, out_user. cbn. rewrite String.eqb_refl. reflexivity. Qed.
Lemma key_step_delete : forall id s u p, key_step id s (out_user "delete" id u p) = None.
Proof. intros. unfold key_step, out_user. cbn. rewrite String.eqb_refl. reflexivity. Qed.

(* ------------------------------------------------------------------ *)
(* A queue that leaves nothing behind, whatever the group of its owner:
   it ends with the announcement of a departure and no user event after
   it, or it holds no user event at all and the list is already empty
   ([P]).  This is what holds of a client that is in no group. *)

Inductive nst := NClean | NDirty | NReset.

Definition nst_step (s : nst) (a : action) : nst :=
  match a with
  | APushClient _ _ _ _ _ _ => NDirty
  | AJoined _ k => if String.eqb k "leave" || String.eqb k "fail" then NReset else s
  | _ => s
  end.

Definition nst_accept (s : nst) (P : Prop) : Prop :=
  match s with NClean => P | NDirty => False | NReset => True end.

Definition nm_from (s : nst) (q : list action) (P : Prop) : Prop :=
  nst_accept (fold_left nst_step q s) P.
Definition nm_ok (q : list action) (P : Prop) : Prop := nm_from NClean q P.

Lemma nm_from_app : forall s q1 q2 P,
  nm_from s (q1 ++ q2) P = nm_from (fold_left nst_step q1 s) q2 P.
Proof. intros. unfold nm_from. rewrite fold_left_app. reflexivity. Qed.

Lemma nst_step_nact : forall s a, nact a = true -> nst_step s a = s.
Proof.
  intros s a H. destruct a; cbn in H; try discriminate; try reflexivity.
  cbn [nst_step]. apply negb_true_iff in H. rewrite H. reflexivity.
Qed.

Lemma nst_fold_nact : forall q s, forallb nact q = true -> fold_left nst_step q s = s.
Proof.
  induction q as [|a q IH]; intros s H; cbn [fold_left]; [reflexivity|].
  cbn [forallb] in H. apply andb_prop in H. destruct H as [H1 H2].
  rewrite nst_step_nact by exact H1. apply IH. exact H2.
Qed.

Lemma nm_ok_app_nact : forall q qa P, forallb nact qa = true -> nm_ok (q ++ qa) P = nm_ok q P.
Proof.
  intros. unfold nm_ok. rewrite nm_from_app. unfold nm_from.
  rewrite nst_fold_nact by assumption. reflexivity.
Qed.

Lemma nm_ok_app_leave : forall q g P, nm_ok (q ++ [AJoined g "leave"]) P.
Proof.
  intros. unfold nm_ok. rewrite nm_from_app. unfold nm_from. cbn. exact I.
Qed.

Lemma nm_from_mono : forall s q (P Q : Prop), (P -> Q) -> nm_from s q P -> nm_from s q Q.
Proof.
  intros s q P Q HPQ. unfold nm_from. destruct (fold_left nst_step q s); cbn; auto.
Qed.

(* a dirty start is the worst, a reset start the best *)
Lemma nst_fold_dirty : forall q s,
  fold_left nst_step q NDirty = NDirty \/ fold_left nst_step q NDirty = fold_left nst_step q s.
Proof.
  induction q as [|a q IH]; intros s; cbn [fold_left]; [left; reflexivity|].
  destruct a; cbn [nst_step]; try apply IH.
  destruct (String.eqb kind "leave" || String.eqb kind "fail"); [right; reflexivity | apply IH].
Qed.

Lemma nm_from_dirty : forall q s P, nm_from NDirty q P -> nm_from s q P.
Proof.
  intros q s P. unfold nm_from. destruct (nst_fold_dirty q s) as [H | H]; rewrite H; cbn; tauto.
Qed.

Lemma nst_fold_reset : forall q,
  (fold_left nst_step q NReset = NReset /\ fold_left nst_step q NClean = NClean) \/
  fold_left nst_step q NReset = fold_left nst_step q NClean.
Proof.
  induction q as [|a q IH]; cbn [fold_left]; [left; split; reflexivity|].
  destruct a; cbn [nst_step]; try apply IH.
  - right. reflexivity.
  - destruct (String.eqb kind "leave" || String.eqb kind "fail"); [right; reflexivity | apply IH].
Qed.

Lemma nm_from_reset : forall q P, nm_from NReset q P -> nm_from NClean q True.
Proof.
  intros q P. unfold nm_from. destruct (nst_fold_reset q) as [[E1 E2] | E].
  - rewrite E2. intros _. exact I.
  - rewrite E. destruct (fold_left nst_step q NClean); cbn; auto.
Qed.

(* what such a queue leaves of any key, whatever the group *)
Lemma nm_from_view : forall cg id q st s (P : Prop),
  match st with NClean => P -> s = None | NDirty => True | NReset => s = None end ->
  nm_from st q P -> fold_left (act_step cg id) q s = None.
Proof.
  intros cg id q. induction q as [|a q IH]; intros st s P HR Hok.
  - unfold nm_from in Hok. cbn in *. destruct st; cbn in Hok; tauto.
  - cbn [fold_left]. unfold nm_from in Hok. cbn [fold_left] in Hok.
    eapply IH; [|exact Hok].
    destruct a; cbn [nst_step act_step]; try exact HR.
    + exact I.
    + unfold key_step, out_joined. cbn [o_type o_kind]. cbn [String.eqb Ascii.eqb Bool.eqb].
      destruct (String.eqb kind "leave" || String.eqb kind "fail"); [reflexivity | exact HR].
Qed.

Lemma nm_ok_view : forall cg id q sent,
  nm_ok q (key_sent id sent = None) -> key_view id cg sent q = None.
Proof.
  intros. unfold key_view. eapply nm_from_view; [|exact H]. cbn. auto.
Qed.

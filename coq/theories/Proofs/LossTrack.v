(* C06, part 2: histories.  A ghost tracker runs next to the L0 cache model
   over every history of Store / BitmapGet / readLoop step / Expect / GetStats
   and records, independently of the bitmap word,
     t_epoch  the number of re-bases of the loss window so far,
     t_F      the unwrapped position of bitmap.first inside the epoch,
     t_S      the unwrapped positions stored since the last re-base,
     t_s16    the 16-bit numbers stored since the last re-base,
     t_nacks  (epoch, position) of every number denoted by a BitmapGet result.
   The cache component of the tracker IS the model run (trk_run_cache). *)
From Coq Require Import ZArith List Bool Lia.
From Coq Require Import ZifyBool.
From Galene Require Import Lib.Word Model.Cache Model.Loss Proofs.LossBits.
Import ListNotations.
Open Scope Z_scope.
Ltac Zify.zify_post_hook ::= Z.div_mod_to_equations.

Record trk := mkTrk {
  t_c : cache;
  t_epoch : Z;
  t_F : Z;
  t_S : list Z;
  t_s16 : list Z;
  t_nacks : list (Z * Z) }.

Definition tk_store (t : trk) (s : Z) (kf : bool) : Z * trk :=
  let c := t_c t in
  let b := c_bitmap c in
  let '((first, _), c') := store c s 0 kf false payload in
  (first,
   if rebases b s
   then mkTrk c' (t_epoch t + 1) s [s] [s] (t_nacks t)
   else mkTrk c' (t_epoch t)
              (t_F t + w16 (bm_first (c_bitmap c') - bm_first b))
              ((t_F t + sdelta s (bm_first b)) :: t_S t) (s :: t_s16 t) (t_nacks t)).

Definition tk_get (t : trk) (next : Z) : (bool * Z * Z) * trk :=
  let c := t_c t in
  let b := c_bitmap c in
  let '((found, f, m), c') := bitmap_get c next in
  ((found, f, m),
   mkTrk c' (t_epoch t)
         (t_F t + w16 (bm_first (c_bitmap c') - bm_first b))
         (t_S t) (t_s16 t)
         (if found
          then map (fun n => (t_epoch t, t_F t + w16 (n - bm_first b))) (nums f m) ++ t_nacks t
          else t_nacks t)).

Definition tk_with_cache (t : trk) (c' : cache) : trk :=
  mkTrk c' (t_epoch t) (t_F t) (t_S t) (t_s16 t) (t_nacks t).

Definition tk_read (t : trk) (s : Z) (kf : bool) (rate : Z) (ok : bool) : option (Z * Z) * trk :=
  let '(first, t1) := tk_store t s kf in
  let packets := rl_packets rate in
  let unnacked := rl_unnacked packets in
  if packets <? rl_delta s first then
    let '((found, f, bm), t2) := tk_get t1 (w16 (s - unnacked)) in
    if found && ok
    then (Some (f, bm), tk_with_cache t2 (expect (t_c t2) (1 + popcount16 bm)))
    else (None, t2)
  else (None, t1).

Definition tk_step (t : trk) (o : lop) : trk * lout :=
  match o with
  | LStore s kf => let '(f, t') := tk_store t s kf in (t', LOStore f)
  | LBitmapGet n => let '((fd, f, b), t') := tk_get t n in (t', LOBitmap fd f b)
  | LRead s kf rate ok => let '(r, t') := tk_read t s kf rate ok in (t', LONack r)
  | LExpect n => (tk_with_cache t (expect (t_c t) n), LOUnit)
  | LGetStats r => let '(s, c') := get_stats (t_c t) r in (tk_with_cache t c', LOStats s)
  end.

Definition trk_init (cap : Z) : trk := mkTrk (new_cache cap) 0 0 [] [] [].
Definition trk_from (t : trk) (h : list lop) : trk :=
  fold_left (fun t o => fst (tk_step t o)) h t.
Definition trk_run (cap : Z) (h : list lop) : trk := trk_from (trk_init cap) h.

(* caller contract: the Go arguments are uint16 / uint32 *)
Definition wf_lop (o : lop) : Prop :=
  match o with
  | LStore s _ => is16 s
  | LBitmapGet n => is16 n
  | LRead s _ rate _ => is16 s /\ 0 <= rate
  | _ => True
  end.

(* ---------- the tracker's cache is the model's cache ---------- *)
Lemma store_bitmap c s ts kf m buf :
  c_bitmap (snd (store c s ts kf m buf)) = bm_set (c_bitmap c) s /\
  fst (fst (store c s ts kf m buf)) = bm_first (bm_set (c_bitmap c) s).
Proof.
  unfold store.
  destruct (negb (c_lastValid c) || seqno_invalid s (c_last c)).
  - destruct kf; split; reflexivity.
  - destruct (cmp16 (c_last c) s <? 0); [destruct kf; split; reflexivity|].
    destruct (0 <? cmp16 (c_last c) s); destruct kf; split; reflexivity.
Qed.

Lemma bitmap_get_bitmap c next :
  fst (bitmap_get c next) = fst (bm_get (c_bitmap c) next) /\
  c_bitmap (snd (bitmap_get c next)) = snd (bm_get (c_bitmap c) next).
Proof. unfold bitmap_get. destruct (bm_get (c_bitmap c) next) as [r b]. split; reflexivity. Qed.

Lemma expect_bitmap c n : c_bitmap (expect c n) = c_bitmap c.
Proof. unfold expect. destruct (n <=? 0); reflexivity. Qed.
Lemma get_stats_bitmap c r : c_bitmap (snd (get_stats c r)) = c_bitmap c.
Proof. unfold get_stats. destruct r; reflexivity. Qed.

Lemma tk_store_cache t s kf :
  t_c (snd (tk_store t s kf)) = snd (store (t_c t) s 0 kf false payload) /\
  fst (tk_store t s kf) = fst (fst (store (t_c t) s 0 kf false payload)).
Proof.
  unfold tk_store. destruct (store (t_c t) s 0 kf false payload) as [[f i] c'].
  cbn [fst snd]. destruct (rebases _ _); split; reflexivity.
Qed.
Lemma tk_get_cache t n :
  t_c (snd (tk_get t n)) = snd (bitmap_get (t_c t) n) /\
  fst (tk_get t n) = fst (bitmap_get (t_c t) n).
Proof.
  unfold tk_get. destruct (bitmap_get (t_c t) n) as [[[fd f] m] c']. split; reflexivity.
Qed.

Lemma tk_step_cache t o :
  t_c (fst (tk_step t o)) = fst (lstep (t_c t) o) /\ snd (tk_step t o) = snd (lstep (t_c t) o).
Proof.
  destruct o as [s kf|n|s kf rate ok|n|r]; cbn [tk_step lstep].
  - pose proof (tk_store_cache t s kf) as [H1 H2].
    destruct (tk_store t s kf) as [f t']. destruct (store (t_c t) s 0 kf false payload) as [[f' i] c'].
    cbn [fst snd] in *. subst. split; reflexivity.
  - pose proof (tk_get_cache t n) as [H1 H2].
    destruct (tk_get t n) as [[[fd f] m] t']. destruct (bitmap_get (t_c t) n) as [[[fd' f'] m'] c'].
    cbn [fst snd] in *. inversion H2; subst. split; reflexivity.
  - unfold tk_read, read_loop_step.
    pose proof (tk_store_cache t s kf) as [H1 H2].
    destruct (tk_store t s kf) as [f t1]. destruct (store (t_c t) s 0 kf false payload) as [[f' i] c1].
    cbn [fst snd] in *. subst f' c1.
    destruct (rl_packets rate <? rl_delta s f); [|split; reflexivity].
    pose proof (tk_get_cache t1 (w16 (s - rl_unnacked (rl_packets rate)))) as [H3 H4].
    destruct (tk_get t1 _) as [[[fd g] m] t2].
    destruct (bitmap_get (t_c t1) _) as [[[fd' g'] m'] c2].
    cbn [fst snd] in *. inversion H4; subst.
    destruct (fd' && ok); split; reflexivity.
  - split; reflexivity.
  - destruct (get_stats (t_c t) r) as [st c']. split; reflexivity.
Qed.

Lemma trk_from_cache h : forall t, t_c (trk_from t h) = lrun (t_c t) h.
Proof.
  induction h as [|o h IH]; intros t; [reflexivity|].
  unfold trk_from, lrun in *. cbn [fold_left]. rewrite IH.
  rewrite (proj1 (tk_step_cache t o)). reflexivity.
Qed.
Lemma trk_run_cache cap h : t_c (trk_run cap h) = lrun (new_cache cap) h.
Proof. apply trk_from_cache. Qed.

Lemma trk_from_app t h1 h2 : trk_from t (h1 ++ h2) = trk_from (trk_from t h1) h2.
Proof. unfold trk_from. apply fold_left_app. Qed.
Lemma lrun_app c h1 h2 : lrun c (h1 ++ h2) = lrun (lrun c h1) h2.
Proof. unfold lrun. apply fold_left_app. Qed.

(* ---------- the invariant ---------- *)
Record TI (t : trk) : Prop := mkTI {
  ti_b : BInv (c_bitmap (t_c t)) (t_F t) (t_S t);
  ti_s16 : t_s16 t = map w16 (t_S t);
  ti_old : forall e U, In (e, U) (t_nacks t) -> e < t_epoch t \/ (e = t_epoch t /\ U < t_F t);
  ti_nodup : NoDup (t_nacks t) }.

Lemma TI_init cap : TI (trk_init cap).
Proof.
  constructor; cbn.
  - apply BInv_init.
  - reflexivity.
  - tauto.
  - constructor.
Qed.

Lemma TI_with_cache t c' : c_bitmap c' = c_bitmap (t_c t) -> TI t -> TI (tk_with_cache t c').
Proof.
  intros Hb [H1 H2 H3 H4]. constructor; cbn [tk_with_cache t_c t_F t_S t_s16 t_nacks t_epoch]; auto.
  rewrite Hb. exact H1.
Qed.

Lemma TI_store t s kf : is16 s -> TI t -> TI (snd (tk_store t s kf)).
Proof.
  intros Hs [HB Hs16 Hold Hnd]. unfold tk_store.
  pose proof (store_bitmap (t_c t) s 0 kf false payload) as [Hbm _].
  destruct (store (t_c t) s 0 kf false payload) as [[f i] c']. cbn [fst snd] in *.
  destruct (rebases (c_bitmap (t_c t)) s) eqn:Er.
  - constructor; cbn [t_c t_F t_S t_s16 t_nacks t_epoch].
    + rewrite Hbm, (bm_set_rebase _ _ Er). apply BInv_rebase. exact Hs.
    + cbn. rewrite w16_small by exact Hs. reflexivity.
    + intros e U Hin. specialize (Hold e U Hin). lia.
    + exact Hnd.
  - pose proof (bm_set_norebase _ _ _ s HB Hs Er) as Hset. cbv zeta in Hset.
    destruct Hset as (HB' & _ & _ & _).
    constructor; cbn [t_c t_F t_S t_s16 t_nacks t_epoch].
    + rewrite Hbm. exact HB'.
    + cbn [map]. rewrite Hs16. f_equal.
      rewrite (bi_first _ _ _ HB). symmetry. apply sdelta_w16. exact Hs.
    + intros e U Hin. specialize (Hold e U Hin).
      pose proof (w16_range (bm_first (c_bitmap c') - bm_first (c_bitmap (t_c t)))). lia.
    + exact Hnd.
Qed.

Lemma NoDup_map_inj_on {A B} (g : A -> B) (l : list A) :
  (forall x y, In x l -> In y l -> g x = g y -> x = y) -> NoDup l -> NoDup (map g l).
Proof.
  intros Hinj Hnd. induction Hnd as [|a l Hna Hnd IH]; cbn; constructor.
  - intros Hin. apply in_map_iff in Hin. destruct Hin as (y & Hgy & Hy).
    assert (y = a) by (apply Hinj; [right; exact Hy|left; reflexivity|exact Hgy]).
    subst. contradiction.
  - apply IH. intros x y Hx Hy. apply Hinj; right; assumption.
Qed.

Lemma filter_NoDup {A} (p : A -> bool) l : NoDup l -> NoDup (filter p l).
Proof.
  intros H. induction H as [|a l Hna Hnd IH]; cbn; [constructor|].
  destruct (p a); [constructor; [|exact IH]|exact IH].
  intros Hin. apply filter_In in Hin. tauto.
Qed.

Lemma blp_indices_range i : In i blp_indices <-> 0 <= i < 16.
Proof.
  unfold blp_indices. cbn. split; [lia|]. intros H.
  assert (i = 0 \/ i = 1 \/ i = 2 \/ i = 3 \/ i = 4 \/ i = 5 \/ i = 6 \/ i = 7 \/ i = 8 \/
          i = 9 \/ i = 10 \/ i = 11 \/ i = 12 \/ i = 13 \/ i = 14 \/ i = 15) by lia.
  intuition auto.
Qed.
Lemma blp_indices_NoDup : NoDup blp_indices.
Proof. unfold blp_indices. repeat (constructor; [cbn; lia|]). constructor. Qed.

Lemma nums_NoDup f m : is16 f -> NoDup (nums f m).
Proof.
  intros Hf. unfold nums. constructor.
  - intros Hin. apply in_map_iff in Hin. destruct Hin as (i & Hi & Hin).
    apply filter_In in Hin. destruct Hin as [Hin _]. apply blp_indices_range in Hin.
    unfold w16, is16 in *. lia.
  - apply NoDup_map_inj_on; [|apply filter_NoDup, blp_indices_NoDup].
    intros x y Hx Hy Heq. apply filter_In in Hx. apply filter_In in Hy.
    destruct Hx as [Hx _]. destruct Hy as [Hy _].
    apply blp_indices_range in Hx. apply blp_indices_range in Hy.
    unfold w16, is16 in *. lia.
Qed.

Lemma nums_is16 f m n : is16 f -> In n (nums f m) -> is16 n.
Proof.
  intros Hf Hin. apply in_nums in Hin. destruct Hin as [->|(i & _ & _ & ->)]; [exact Hf|].
  apply w16_range.
Qed.

(* what a BitmapGet result says, in tracker terms *)
Lemma tk_get_spec t next : TI t -> is16 next ->
  let b := c_bitmap (t_c t) in
  let count := get_count b next in
  let '((found, f, m), t') := tk_get t next in
  TI t' /\ t_F t' = t_F t + count /\ t_epoch t' = t_epoch t /\ t_S t' = t_S t /\
  t_s16 t' = t_s16 t /\ 0 <= count <= 17 /\
  (0 < count -> count <= w16 (next - bm_first b) < 32768) /\
  (found = false -> t_nacks t' = t_nacks t /\ forall k, 0 <= k < count -> In (t_F t + k) (t_S t)) /\
  (found = true ->
     t_nacks t' = map (fun n => (t_epoch t, t_F t + w16 (n - bm_first b))) (nums f m) ++ t_nacks t /\
     is16 f /\
     forall n, In n (nums f m) <->
       exists k, 0 <= k < count /\ ~ In (t_F t + k) (t_S t) /\ n = w16 (t_F t + k)).
Proof.
  intros [HB Hs16 Hold Hnd] Hn. cbv zeta. unfold tk_get.
  pose proof (bitmap_get_bitmap (t_c t) next) as [Hr Hb'].
  pose proof (bm_get_spec _ _ _ next HB Hn) as Hspec. cbv zeta in Hspec.
  destruct (bitmap_get (t_c t) next) as [[[found f] m] c'].
  destruct (bm_get (c_bitmap (t_c t)) next) as [[[found' f'] m'] b'].
  cbn [fst snd] in Hr, Hb'. inversion Hr; subst found' f' m'. clear Hr.
  destruct Hspec as (HB' & Hv & Hfirst & Hc & Hc0 & Hnf & Hfd).
  set (count := get_count (c_bitmap (t_c t)) next) in *.
  assert (Hadv : w16 (bm_first (c_bitmap c') - bm_first (c_bitmap (t_c t))) = count).
  { rewrite Hb', Hfirst. pose proof (BInv_is16_first _ _ _ HB). unfold w16, is16 in *. lia. }
  assert (Hnew : found = true -> forall n, In n (nums f m) ->
            exists k, 0 <= k < count /\
              t_F t + w16 (n - bm_first (c_bitmap (t_c t))) = t_F t + k /\ n = w16 (t_F t + k)).
  { intros Hf n Hin. apply (Hfd Hf) in Hin. destruct Hin as (k & Hk & _ & ->).
    exists k. split; [exact Hk|]. split; [|reflexivity].
    rewrite (bi_first _ _ _ HB). unfold w16. lia. }
  assert (Hf16 : found = true -> is16 f).
  { intros Hf. assert (Hin : In f (nums f m)) by (left; reflexivity).
    apply (Hfd Hf) in Hin. destruct Hin as (k & _ & _ & ->). apply w16_range. }
  split; [|cbn [t_F t_epoch t_S t_s16 t_nacks]; rewrite Hadv;
           repeat (split; [reflexivity||assumption|]) ].
  - constructor; cbn [t_c t_F t_S t_s16 t_nacks t_epoch].
    + rewrite Hadv, Hb'. exact HB'.
    + exact Hs16.
    + rewrite Hadv. intros e U Hin. destruct found.
      * apply in_app_or in Hin. destruct Hin as [Hin|Hin].
        -- apply in_map_iff in Hin. destruct Hin as (n & Heq & Hin). inversion Heq; subst e U.
           destruct (Hnew eq_refl n Hin) as (k & Hk & -> & _). right. lia.
        -- specialize (Hold e U Hin). lia.
      * specialize (Hold e U Hin). lia.
    + destruct found; [|exact Hnd].
      assert (Hnd1 : NoDup (map (fun n => (t_epoch t, t_F t + w16 (n - bm_first (c_bitmap (t_c t)))))
                                (nums f m))).
      { apply NoDup_map_inj_on; [|apply nums_NoDup, Hf16; reflexivity].
        intros x y Hx Hy Heq. inversion Heq as [Heq'].
        pose proof (nums_is16 _ _ _ (Hf16 eq_refl) Hx). pose proof (nums_is16 _ _ _ (Hf16 eq_refl) Hy).
        pose proof (BInv_is16_first _ _ _ HB). unfold w16, is16 in *. lia. }
      clear - Hnd Hnd1 Hold Hnew.
      induction (nums f m) as [|a l IH]; [exact Hnd|].
      cbn [map app] in *. inversion Hnd1 as [|? ? Hna Hnd2]; subst. constructor.
      * intros Hin. apply in_app_or in Hin. destruct Hin as [Hin|Hin]; [contradiction|].
        destruct (Hnew eq_refl a ltac:(left; reflexivity)) as (k & Hk & Heq & _).
        specialize (Hold _ _ Hin). lia.
      * apply IH; [|exact Hnd2]. intros Hf n Hin. apply Hnew; [exact Hf|right; exact Hin].
  - split.
    + intros Hf. split; [subst found; reflexivity|]. exact (Hnf Hf).
    + intros Hf. split; [subst found; reflexivity|]. split; [exact (Hf16 Hf)|]. exact (Hfd Hf).
Qed.

(* ---------- the readLoop decision ---------- *)
Lemma rl_packets_range rate : 2 <= rl_packets rate <= 24.
Proof. unfold rl_packets. destruct (24 <? rate / 50) eqn:E1; destruct (_ <? 2) eqn:E2; lia. Qed.
Lemma rl_unnacked_range p : 2 <= p <= 24 -> 2 <= rl_unnacked p <= 4 /\ rl_unnacked p <= p.
Proof. intros Hp. unfold rl_unnacked, w16. destruct (_ <? 4) eqn:E; lia. Qed.

Lemma cmp16_before a b : is16 a -> is16 b -> 1 <= w16 (b - a) < 32768 -> cmp16 a b = -1.
Proof.
  unfold cmp16, is16, w16. intros Ha Hb H. destruct (a =? b) eqn:E.
  - assert (a = b) by lia. subst. rewrite Z.sub_diag in H. cbn in H. lia.
  - destruct (32768 <=? (b - a) mod 65536) eqn:E2; [lia|reflexivity].
Qed.

Lemma TI_step t o : wf_lop o -> TI t -> TI (fst (tk_step t o)).
Proof.
  intros Hwf HT. destruct o as [s kf|n|s kf rate ok|n|r]; cbn [tk_step wf_lop] in *.
  - pose proof (TI_store t s kf Hwf HT). destruct (tk_store t s kf). exact H.
  - pose proof (tk_get_spec t n HT Hwf) as H. cbv zeta in H.
    destruct (tk_get t n) as [[[fd f] m] t']. apply H.
  - destruct Hwf as [Hs Hr]. unfold tk_read.
    pose proof (TI_store t s kf Hs HT) as H1. destruct (tk_store t s kf) as [first t1].
    cbn [snd] in H1. destruct (_ <? _); [|exact H1].
    pose proof (tk_get_spec t1 (w16 (s - rl_unnacked (rl_packets rate))) H1 (w16_range _)) as H2.
    cbv zeta in H2. destruct (tk_get t1 _) as [[[fd f] m] t2]. destruct H2 as (H2 & _).
    destruct (fd && ok); [|exact H2]. apply TI_with_cache; [apply expect_bitmap|exact H2].
  - apply TI_with_cache; [apply expect_bitmap|exact HT].
  - pose proof (get_stats_bitmap (t_c t) r). destruct (get_stats (t_c t) r) as [st c'].
    apply TI_with_cache; assumption.
Qed.

Lemma TI_from h : forall t, Forall wf_lop h -> TI t -> TI (trk_from t h).
Proof.
  induction h as [|o h IH]; intros t Hwf HT; [exact HT|].
  inversion Hwf; subst. unfold trk_from. cbn [fold_left]. apply IH; [assumption|].
  apply TI_step; assumption.
Qed.
Lemma TI_run cap h : Forall wf_lop h -> TI (trk_run cap h).
Proof. intros H. apply TI_from; [exact H|apply TI_init]. Qed.

(* ---------- C06_nack_not_received ---------- *)
(* Every number denoted by a BitmapGet result is before [next] in the circular
   order and sits at a position of the current epoch at which nothing was
   stored since the window was last re-based. *)
Theorem nack_not_received cap h next f m c' :
  Forall wf_lop h -> is16 next ->
  bitmap_get (lrun (new_cache cap) h) next = ((true, f, m), c') ->
  let t := trk_run cap h in
  forall n, In n (nums f m) ->
    cmp16 n next < 0 /\
    exists k, 0 <= k < 17 /\ n = w16 (t_F t + k) /\ ~ In (t_F t + k) (t_S t).
Proof.
  intros Hwf Hn Hget t n Hin. pose proof (TI_run cap h Hwf) as HT. fold t in HT.
  pose proof (tk_get_spec t next HT Hn) as Hs. cbv zeta in Hs.
  pose proof (tk_get_cache t next) as [_ Hr]. unfold t in Hr at 2. rewrite trk_run_cache, Hget in Hr.
  destruct (tk_get t next) as [[[fd g] m'] t']. cbn [fst] in Hr. inversion Hr; subst fd g m'.
  destruct Hs as (_ & _ & _ & _ & _ & Hc & Hc0 & _ & Hfd).
  destruct (Hfd eq_refl) as (_ & Hf16 & Hchar). apply Hchar in Hin.
  destruct Hin as (k & Hk & Hnin & ->). split.
  - rewrite cmp16_before; [lia|apply w16_range|exact Hn|].
    specialize (Hc0 ltac:(lia)). rewrite (bi_first _ _ _ (ti_b _ HT)) in Hc0.
    unfold w16, is16 in *. lia.
  - exists k. split; [lia|]. split; [reflexivity|exact Hnin].
Qed.

(* in 16-bit terms, when the epoch spans less than one cycle of numbers *)
Corollary nack_not_received16 cap h next f m c' :
  Forall wf_lop h -> is16 next ->
  bitmap_get (lrun (new_cache cap) h) next = ((true, f, m), c') ->
  let t := trk_run cap h in
  (forall U, In U (t_S t) -> t_F t - 65000 < U) ->
  forall n, In n (nums f m) -> ~ In n (t_s16 t).
Proof.
  intros Hwf Hn Hget t Hspan n Hin Hin16.
  destruct (nack_not_received cap h next f m c' Hwf Hn Hget n Hin) as (_ & k & Hk & -> & Hnin).
  pose proof (TI_run cap h Hwf) as HT. fold t in HT, Hnin.
  rewrite (ti_s16 _ HT) in Hin16. apply in_map_iff in Hin16. destruct Hin16 as (U & HU & HinU).
  pose proof (bi_top _ _ _ (ti_b _ HT) U HinU). specialize (Hspan U HinU).
  fold t in HU. assert (U = t_F t + k) by (unfold w16 in HU; lia). subst U. contradiction.
Qed.

(* completeness of one BitmapGet: what it does not report was stored *)
Theorem nack_complete cap h next fd f m c' :
  Forall wf_lop h -> is16 next ->
  bitmap_get (lrun (new_cache cap) h) next = ((fd, f, m), c') ->
  let t := trk_run cap h in
  let count := get_count (c_bitmap (lrun (new_cache cap) h)) next in
  forall k, 0 <= k < count -> ~ In (t_F t + k) (t_S t) ->
    fd = true /\ In (w16 (t_F t + k)) (nums f m).
Proof.
  intros Hwf Hn Hget t count k Hk Hnin. pose proof (TI_run cap h Hwf) as HT. fold t in HT.
  pose proof (tk_get_spec t next HT Hn) as Hs. cbv zeta in Hs.
  pose proof (tk_get_cache t next) as [_ Hr]. unfold t in Hr at 2. rewrite trk_run_cache, Hget in Hr.
  destruct (tk_get t next) as [[[fd' g] m'] t']. cbn [fst] in Hr. inversion Hr; subst fd' g m'.
  assert (Ecount : get_count (c_bitmap (t_c t)) next = count)
    by (unfold count, t; rewrite trk_run_cache; reflexivity).
  rewrite Ecount in Hs.
  destruct Hs as (_ & _ & _ & _ & _ & Hc & Hc0 & Hnf & Hfd).
  destruct fd.
  - split; [reflexivity|]. apply (proj2 (Hfd eq_refl)). exists k. auto.
  - exfalso. apply Hnin. apply (proj2 (Hnf eq_refl)). exact Hk.
Qed.

(* ---------- the readLoop step ---------- *)
Theorem read_step_nack cap h s kf rate ok f m c' :
  Forall wf_lop h -> is16 s -> 0 <= rate ->
  lstep (lrun (new_cache cap) h) (LRead s kf rate ok) = (c', LONack (Some (f, m))) ->
  let t1 := trk_run cap (h ++ [LStore s kf]) in
  let next := w16 (s - rl_unnacked (rl_packets rate)) in
  ok = true /\
  forall n, In n (nums f m) ->
    cmp16 n next < 0 /\ cmp16 n s < 0 /\
    exists k, 0 <= k < 17 /\ n = w16 (t_F t1 + k) /\ ~ In (t_F t1 + k) (t_S t1).
Proof.
  intros Hwf Hs Hrate Hstep t1 next.
  assert (Hwf1 : Forall wf_lop (h ++ [LStore s kf])).
  { apply Forall_app. split; [exact Hwf|]. constructor; [exact Hs|constructor]. }
  set (c := lrun (new_cache cap) h) in *.
  assert (Hc1 : lrun (new_cache cap) (h ++ [LStore s kf]) = snd (store c s 0 kf false payload)).
  { rewrite lrun_app. fold c. unfold lrun. cbn [fold_left lstep].
    destruct (store c s 0 kf false payload) as [[f0 i0] c1]. reflexivity. }
  cbn [lstep] in Hstep. unfold read_loop_step in Hstep.
  pose proof (store_bitmap c s 0 kf false payload) as [Hbm Hfirst].
  destruct (store c s 0 kf false payload) as [[first i] c1] eqn:Est. cbn [fst snd] in *.
  pose proof (rl_packets_range rate) as Hp.
  pose proof (rl_unnacked_range _ Hp) as Hu.
  set (p := rl_packets rate) in *. set (u := rl_unnacked p) in *. fold next in Hstep.
  destruct (p <? rl_delta s first) eqn:Edelta; [|inversion Hstep].
  destruct (bitmap_get c1 next) as [[[fd g] bm] c2] eqn:Eget.
  destruct (fd && ok) eqn:Efo; [|inversion Hstep].
  inversion Hstep; subst g bm. clear Hstep.
  apply andb_true_iff in Efo. destruct Efo as [-> ->]. split; [reflexivity|].
  rewrite <- Hc1 in Eget.
  intros n Hin.
  destruct (nack_not_received cap _ next f m c2 Hwf1 (w16_range _) Eget n Hin) as (Hlt & k & Hk & Hn & Hnin).
  fold t1 in Hn, Hnin.
  split; [exact Hlt|]. split; [|exists k; auto].
  (* n is also strictly older than the packet just stored *)
  pose proof (TI_run cap _ Hwf1) as HT. fold t1 in HT.
  pose proof (tk_get_spec t1 next HT (w16_range _)) as Hsp. cbv zeta in Hsp.
  pose proof (tk_get_cache t1 next) as [_ Hr]. unfold t1 in Hr at 2. rewrite trk_run_cache, Eget in Hr.
  destruct (tk_get t1 next) as [[[fd' g'] m'] t2]. cbn [fst] in Hr. inversion Hr; subst fd' g' m'.
  destruct Hsp as (_ & _ & _ & _ & _ & Hc & Hc0 & _ & Hfd).
  destruct (Hfd eq_refl) as (_ & _ & Hchar). apply Hchar in Hin.
  destruct Hin as (k' & Hk' & _ & Hn').
  assert (k' = k) by (rewrite Hn in Hn'; unfold w16 in Hn'; lia). subst k'.
  specialize (Hc0 ltac:(lia)).
  assert (Hfc : bm_first (c_bitmap (t_c t1)) = first).
  { unfold t1. rewrite trk_run_cache, Hc1, Hbm. symmetry. exact Hfirst. }
  rewrite Hfc in Hc0.
  assert (HfF : first = w16 (t_F t1)).
  { rewrite <- Hfc. apply (bi_first _ _ _ (ti_b _ HT)). }
  rewrite cmp16_before; [lia|rewrite Hn; apply w16_range|exact Hs|].
  assert (Enext : next = w16 (s - u)) by reflexivity.
  set (cnt := get_count (c_bitmap (t_c t1)) next) in *.
  unfold rl_delta in Edelta.
  destruct (32768 <=? w16 (s - first)) eqn:Ed; [lia|].
  subst n. rewrite HfF in Hc0, Ed, Edelta. rewrite Enext in Hc0.
  clear - Hc0 Ed Edelta Hk' Hs Hu Hp. unfold w16, is16 in *. lia.
Qed.

(* ---------- C06_once ---------- *)
Theorem nacks_once cap h : Forall wf_lop h -> NoDup (t_nacks (trk_run cap h)).
Proof. intros Hwf. apply (ti_nodup _ (TI_run cap h Hwf)). Qed.

(* two entries of one epoch with the same 16-bit number are the same entry or a
   whole cycle of numbers apart *)
Lemma nacks_same_number (U1 U2 : Z) : w16 U1 = w16 U2 -> U1 = U2 \/ 65536 <= Z.abs (U1 - U2).
Proof. unfold w16. lia. Qed.

(* ---------- first only moves forward between re-bases ---------- *)
Lemma tk_store_forward t s kf :
  let t' := snd (tk_store t s kf) in
  (rebases (c_bitmap (t_c t)) s = true -> t_epoch t' = t_epoch t + 1 /\ t_F t' = s /\ t_S t' = [s]) /\
  (rebases (c_bitmap (t_c t)) s = false -> t_epoch t' = t_epoch t /\ t_F t <= t_F t').
Proof.
  cbv zeta. unfold tk_store. destruct (store (t_c t) s 0 kf false payload) as [[f i] c'].
  cbn [snd]. destruct (rebases _ _); cbn [t_epoch t_F t_S]; split; intros H; try discriminate; auto.
  split; [reflexivity|]. pose proof (w16_range (bm_first (c_bitmap c') - bm_first (c_bitmap (t_c t)))). lia.
Qed.

Lemma tk_get_forward t n :
  let t' := snd (tk_get t n) in t_epoch t' = t_epoch t /\ t_F t <= t_F t'.
Proof.
  cbv zeta. unfold tk_get. destruct (bitmap_get (t_c t) n) as [[[fd f] m] c'].
  cbn [snd t_epoch t_F]. split; [reflexivity|].
  pose proof (w16_range (bm_first (c_bitmap c') - bm_first (c_bitmap (t_c t)))). lia.
Qed.

Theorem window_forward t o :
  let t' := fst (tk_step t o) in
  t_epoch t <= t_epoch t' <= t_epoch t + 1 /\
  (t_epoch t' = t_epoch t -> t_F t <= t_F t').
Proof.
  cbv zeta. destruct o as [s kf|n|s kf rate ok|n|r]; cbn [tk_step].
  - pose proof (tk_store_forward t s kf) as H. cbv zeta in H.
    destruct (tk_store t s kf) as [f t']. cbn [fst snd] in *.
    destruct (rebases (c_bitmap (t_c t)) s); [destruct (proj1 H eq_refl) as (? & ? & ?)|destruct (proj2 H eq_refl)]; lia.
  - pose proof (tk_get_forward t n) as H. cbv zeta in H.
    destruct (tk_get t n) as [[[fd f] m] t']. cbn [fst snd] in *. lia.
  - unfold tk_read. pose proof (tk_store_forward t s kf) as H. cbv zeta in H.
    destruct (tk_store t s kf) as [first t1]. cbn [fst snd] in *.
    assert (H1 : t_epoch t <= t_epoch t1 <= t_epoch t + 1 /\ (t_epoch t1 = t_epoch t -> t_F t <= t_F t1)).
    { destruct (rebases (c_bitmap (t_c t)) s); [destruct (proj1 H eq_refl) as (? & ? & ?)|destruct (proj2 H eq_refl)]; lia. }
    destruct (_ <? _); [|exact H1].
    pose proof (tk_get_forward t1 (w16 (s - rl_unnacked (rl_packets rate)))) as H2. cbv zeta in H2.
    destruct (tk_get t1 _) as [[[fd f] m] t2]. cbn [fst snd] in *.
    destruct (fd && ok); cbn [fst tk_with_cache t_epoch t_F]; lia.
  - cbn. lia.
  - destruct (get_stats (t_c t) r). cbn. lia.
Qed.
